/-
Tie by proof: `baseCaller` of snaps/utils.go (`Generated/FuncsIO.lean`) — which file a snapshot is
located next to.

`FuncsIO.baseCaller fuel frames skip` is the statement-by-statement transliteration of the Go
function: the unbounded loop `for i := skip+1; ; i++` over `runtime.Caller(i)` is bounded by the
explicit `fuel` (`none` = fuel exhausted) and the call stack is the list `frames`
(`GoIO.runtimeCaller`, `GoIO.funcForPC`).

* `walk` is the fuel-free specification: the file of the first frame whose base name ends in
  `_test.go`; when `testing.tRunner`, a frame without function information or the end of the
  stack comes first, the file of the frame just before.
* `baseCaller_eq_walkF` ties the transliteration to the fuelled walk `walkF` for EVERY fuel;
  `baseCaller_tied` (enough fuel: one more than the stack is long) gives `walk`; fuel is irrelevant
  once sufficient (`baseCaller_fuel_irrelevant`), and no fuel gives `none` (`baseCaller_no_fuel`).
* the content of property C11 "the location does not depend on how many helper frames or
  non-test source files lie between the test function and the call": `walk_helpers`,
  `walk_no_test_file`, `walk_first_test_file`, `baseCaller_helpers_irrelevant`.

Proof pattern (as in Snapshot.lean / CleanIO.lean): a loop lemma for an ARBITRARY body `F`
characterised by one hypothesis (`F` does what `stepSpec` says), proved by induction on the number
of iterations; the final theorem unfolds the generated function, lets unification instantiate `F`
with the body the `do` notation produced, and discharges the characterisation by one step of
symbolic evaluation.
-/
import GoSnaps.GoIO
import GoSnaps.Generated.FuncsIO
import GoSnaps.Lemmas.Diff
namespace GoSnaps.Tie
open GoSnaps GoSnaps.GoIO GoSnaps.GoSem
open GoSnaps.Generated

/-! ## the specification -/

/-- `"testing.tRunner"`, the byte list the generated code compares with -/
abbrev tRunner : Text := [116, 101, 115, 116, 105, 110, 103, 46, 116, 82, 117, 110, 110, 101, 114]

/-- `"_test.go"`, the byte list the generated code uses -/
abbrev testSuffix : Text := [95, 116, 101, 115, 116, 46, 103, 111]

theorem tRunner_eq : tRunner = ofString "testing.tRunner" := by rw [ofString_eq]; decide
theorem testSuffix_eq : testSuffix = ofString "_test.go" := by rw [ofString_eq]; decide

/-- `strings.HasSuffix(filepath.Base(file), "_test.go")` -/
def isTestFile (f : Text) : Bool := hasSuffix (fpBase f) testSuffix

/-- the fuel-free specification of `baseCaller`: walk up the stack (`prev` = file of the frame just
    visited, `""` at the start) -/
def walk : List Frame → Text → Text
  | [], prev => prev
  | f :: fs, prev =>
    match f.func with
    | none => prev
    | some n => if n = tRunner then prev else if isTestFile f.file then f.file else walk fs f.file

/-- `walk` with the number of loop iterations bounded: `none` = out of fuel -/
def walkF : Nat → List Frame → Text → Option Text
  | 0, _, _ => none
  | _ + 1, [], prev => some prev
  | n + 1, f :: fs, prev =>
    match f.func with
    | none => some prev
    | some m => if m = tRunner then some prev else if isTestFile f.file then some f.file else walkF n fs f.file

theorem walkF_zero (fs : List Frame) (prev : Text) : walkF 0 fs prev = none := by
  cases fs <;> rfl

/-- more fuel than frames: the bound is never the reason for leaving the loop -/
theorem walkF_enough (n : Nat) (fs : List Frame) (prev : Text) (h : fs.length < n) :
    walkF n fs prev = some (walk fs prev) := by
  induction fs generalizing n prev with
  | nil =>
    cases n with
    | zero => omega
    | succ n => rfl
  | cons f fs ih =>
    cases n with
    | zero => omega
    | succ n =>
      simp only [walkF, walk]
      cases f.func with
      | none => rfl
      | some m =>
        simp only []
        split
        · rfl
        · split
          · rfl
          · exact ih _ _ (by simp at h; omega)

/-- when the fuelled walk answers, it answers what `walk` answers -/
theorem walkF_some (n : Nat) (fs : List Frame) (prev r : Text) (h : walkF n fs prev = some r) :
    r = walk fs prev := by
  induction fs generalizing n prev with
  | nil =>
    cases n with
    | zero => simp [walkF] at h
    | succ n => simp [walkF] at h; simp [walk, h]
  | cons f fs ih =>
    cases n with
    | zero => simp [walkF] at h
    | succ n =>
      simp only [walkF] at h
      simp only [walk]
      cases hf : f.func with
      | none => rw [hf] at h; simp at h; simp [h]
      | some m =>
        rw [hf] at h
        simp only [] at h ⊢
        split at h
        · rename_i h1; simp [h1]; simpa using h.symm
        · rename_i h1
          split at h
          · rename_i h2; simp [h1, h2]; simpa using h.symm
          · rename_i h2; simp [h1, h2]; exact ih _ _ h

/-! ## the loop -/

/-- the loop state the `do` notation builds: early-return value, `pc`, `file`, `prevFile`, `ok` -/
abbrev CSt := Option Text × Int × Text × Text × Bool

/-- one iteration of the Go loop with `i = k`, entered with `file` -/
def stepSpec (frames : List Frame) (k : Nat) (file : Text) : ForInStep CSt :=
  match frames[k]? with
  | none => .done (some file, 0, [], file, false)
  | some f =>
    match f.func with
    | none => .done (some file, (k : Int), f.file, file, true)
    | some n =>
      if n = tRunner then .done (some file, (k : Int), f.file, file, true)
      else if isTestFile f.file then .done (some f.file, (k : Int), f.file, file, true)
      else .yield (none, (k : Int), f.file, file, true)

/-- `n` iterations from `i = k` -/
def loopSpec (frames : List Frame) : Nat → Nat → CSt → CSt
  | 0, _, s => s
  | n + 1, k, s =>
    match stepSpec frames k s.2.2.1 with
    | .done s' => s'
    | .yield s' => loopSpec frames n (k + 1) s'

/-- the `for i := skip+1; ; i++` loop for any body `F` that behaves like the Go loop body -/
theorem caller_loop (frames : List Frame) (F : Int → CSt → Option (ForInStep CSt))
    (hF : ∀ (k : Nat) r pc file pf ok, F (k : Int) (r, pc, file, pf, ok) = some (stepSpec frames k file))
    (n k : Nat) (s : CSt) :
    forIn (intRangeAux (k : Int) n) s F = some (loopSpec frames n k s) := by
  induction n generalizing k s with
  | zero => rfl
  | succ n ih =>
    obtain ⟨r, pc, file, pf, ok⟩ := s
    rw [intRangeAux, List.forIn_cons, hF]
    simp only [loopSpec]
    cases stepSpec frames k file with
    | done s' => rfl
    | yield s' =>
      have : (k : Int) + 1 = ((k + 1 : Nat) : Int) := by omega
      rw [this]
      exact ih _ _

/-- what the loop leaves in the early-return slot is the fuelled walk over the frames from `k` on -/
theorem loopSpec_fst (frames : List Frame) (n k : Nat) (pc : Int) (file pf : Text) (ok : Bool) :
    (loopSpec frames n k (none, pc, file, pf, ok)).1 = walkF n (frames.drop k) file := by
  induction n generalizing k pc file pf ok with
  | zero => rw [walkF_zero]; rfl
  | succ n ih =>
    simp only [loopSpec, stepSpec]
    cases hk : frames[k]? with
    | none =>
      have : frames.drop k = [] := by
        rw [List.getElem?_eq_none_iff] at hk
        exact List.drop_eq_nil_of_le hk
      rw [this]; rfl
    | some f =>
      have : frames.drop k = f :: frames.drop (k + 1) := by
        obtain ⟨hlt, hget⟩ := List.getElem?_eq_some_iff.mp hk
        rw [← hget]; exact List.drop_eq_getElem_cons hlt
      rw [this]
      simp only [walkF]
      cases f.func with
      | none => rfl
      | some m =>
        by_cases h1 : m = tRunner
        · simp [h1]
        · by_cases h2 : isTestFile f.file = true
          · simp [h1, h2]
          · simp only [h1, h2, if_false]
            exact ih _ _ _ _ _

/-! ## the tie -/

/-- **Tie by proof**, every fuel: the transliteration of `baseCaller` is the fuelled walk over the
    frames above `skip` -/
theorem baseCaller_eq_walkF (fuel : Nat) (frames : List Frame) (skip : Int) (k : Nat)
    (hk : skip + 1 = (k : Int)) :
    FuncsIO.baseCaller fuel frames skip = walkF fuel (frames.drop k) [] := by
  unfold FuncsIO.baseCaller
  have hr : intRange (skip + 1) (skip + 1 + (fuel : Int)) = intRangeAux (k : Int) fuel := by
    rw [hk]; unfold intRange
    congr 1; omega
  simp only [hr]
  rw [caller_loop frames _ ?h]
  case h =>
    intro k r pc file pf ok
    have hneg : ¬ ((k : Int) < 0) := by omega
    simp only [stepSpec, runtimeCaller, funcForPC, hneg, if_false, Int.toNat_natCast]
    cases hk : frames[k]? with
    | none => simp
    | some f =>
      cases hf : f.func with
      | none => simp [hk, hf, hneg]
      | some m =>
        by_cases h1 : m = tRunner
        · simp [hk, hf, h1, hneg]
        · by_cases h2 : isTestFile f.file = true
          · have h2' := h2
            unfold isTestFile at h2'
            simp [hk, hf, h1, h2, h2', hneg]
          · have h2' := h2
            unfold isTestFile at h2'
            simp [hk, hf, h1, h2, h2', hneg]
  have h1 := loopSpec_fst frames fuel k 0 [] [] false
  generalize loopSpec frames fuel k (none, 0, [], [], false) = s at h1 ⊢
  obtain ⟨r, rest⟩ := s
  simp only at h1
  subst h1
  cases walkF fuel (List.drop k frames) [] <;> rfl

/-- **Tie by proof**, enough fuel (`skip ≥ -1`, stated as `skip + 1 = k`): `baseCaller` returns what
    the fuel-free `walk` returns on the frames above `skip` -/
theorem baseCaller_tied (fuel : Nat) (frames : List Frame) (skip : Int) (k : Nat)
    (hk : skip + 1 = (k : Int)) (hfuel : frames.length - k < fuel) :
    FuncsIO.baseCaller fuel frames skip = some (walk (frames.drop k) []) := by
  rw [baseCaller_eq_walkF fuel frames skip k hk]
  exact walkF_enough _ _ _ (by simpa using hfuel)

/-- the simple bound: one more iteration than the stack has frames -/
theorem baseCaller_tied' (fuel : Nat) (frames : List Frame) (skip : Int) (k : Nat)
    (hk : skip + 1 = (k : Int)) (hfuel : frames.length + 1 ≤ fuel) :
    FuncsIO.baseCaller fuel frames skip = some (walk (frames.drop k) []) :=
  baseCaller_tied fuel frames skip k hk (by omega)

/-- any two sufficient fuels give the same answer -/
theorem baseCaller_fuel_irrelevant (fuel fuel' : Nat) (frames : List Frame) (skip : Int) (k : Nat)
    (hk : skip + 1 = (k : Int)) (h : frames.length - k < fuel) (h' : frames.length - k < fuel') :
    FuncsIO.baseCaller fuel frames skip = FuncsIO.baseCaller fuel' frames skip := by
  rw [baseCaller_tied fuel frames skip k hk h, baseCaller_tied fuel' frames skip k hk h']

/-- whenever the bounded loop answers at all, it answers what `walk` answers: the only effect of
    the bound is `none` -/
theorem baseCaller_some (fuel : Nat) (frames : List Frame) (skip : Int) (k : Nat)
    (hk : skip + 1 = (k : Int)) (r : Text) (h : FuncsIO.baseCaller fuel frames skip = some r) :
    r = walk (frames.drop k) [] := by
  rw [baseCaller_eq_walkF fuel frames skip k hk] at h
  exact walkF_some _ _ _ _ h

/-- out of fuel (for every `skip`, also below `-1`) -/
theorem baseCaller_no_fuel (frames : List Frame) (skip : Int) :
    FuncsIO.baseCaller 0 frames skip = none := by
  unfold FuncsIO.baseCaller
  have hr : intRange (skip + 1) (skip + 1 + ((0 : Nat) : Int)) = [] := by
    unfold intRange
    have : (skip + 1 + ((0 : Nat) : Int) - (skip + 1)).toNat = 0 := by omega
    rw [this]; rfl
  simp only [hr]
  rfl

/-- why `skip ≥ -1` is assumed: below that, `runtime.Caller` is asked for a negative index, reports
    `!ok` in the first iteration, and `baseCaller` returns the initial `prevFile = ""` -/
theorem baseCaller_skip_neg (fuel : Nat) (frames : List Frame) (skip : Int) (h : skip + 1 < 0) :
    FuncsIO.baseCaller (fuel + 1) frames skip = some [] := by
  unfold FuncsIO.baseCaller
  have hr : intRange (skip + 1) (skip + 1 + ((fuel + 1 : Nat) : Int)) = (skip + 1) :: intRangeAux (skip + 1 + 1) fuel := by
    unfold intRange
    have : (skip + 1 + ((fuel + 1 : Nat) : Int) - (skip + 1)).toNat = fuel + 1 := by omega
    rw [this]; rfl
  simp only [hr, List.forIn_cons]
  simp [runtimeCaller, h]

/-! ## C11: helper frames and non-test source files between the test and the call -/

/-- a frame of a helper: a known function that is not `testing.tRunner`, in a file that is not a
    test file -/
def IsHelper (h : Frame) : Prop := ∃ n, h.func = some n ∧ n ≠ tRunner ∧ isTestFile h.file = false

/-- a frame of a function defined in a test file (the test function, a closure of it, a helper
    living in a `_test.go` file) -/
def IsTestFrame (tf : Frame) : Prop := ∃ n, tf.func = some n ∧ n ≠ tRunner ∧ isTestFile tf.file = true

theorem walk_helper_cons (h : Frame) (fs : List Frame) (prev : Text) (hh : IsHelper h) :
    walk (h :: fs) prev = walk fs h.file := by
  obtain ⟨n, h1, h2, h3⟩ := hh
  simp [walk, h1, h2, h3]

theorem walk_test_cons (tf : Frame) (fs : List Frame) (prev : Text) (ht : IsTestFrame tf) :
    walk (tf :: fs) prev = tf.file := by
  obtain ⟨n, h1, h2, h3⟩ := ht
  simp [walk, h1, h2, h3]

/-- (a) any number of helper frames in non-test files is skipped: the answer is the file of the
    test frame above them -/
theorem walk_helpers (hs : List Frame) (tf : Frame) (rest : List Frame) (prev : Text)
    (hhs : ∀ h ∈ hs, IsHelper h) (htf : IsTestFrame tf) :
    walk (hs ++ tf :: rest) prev = tf.file := by
  induction hs generalizing prev with
  | nil => exact walk_test_cons tf rest prev htf
  | cons h hs ih =>
    rw [List.cons_append, walk_helper_cons _ _ _ (hhs h (by simp))]
    exact ih _ (fun x hx => hhs x (by simp [hx]))

/-- (b) no test file below `testing.tRunner` (or below a frame without function information): the
    answer is the file of the frame just below it — a test body living in a non-test file (a table
    of subtests defined in helpers.go) resolves to that file -/
theorem walk_no_test_file (hs : List Frame) (r : Frame) (rest : List Frame) (prev : Text)
    (hhs : ∀ h ∈ hs, IsHelper h) (hr : r.func = some tRunner ∨ r.func = none) :
    walk (hs ++ r :: rest) prev = (hs.getLast?.map (·.file)).getD prev := by
  induction hs generalizing prev with
  | nil => rcases hr with hr | hr <;> simp [walk, hr]
  | cons h hs ih =>
    rw [List.cons_append, walk_helper_cons _ _ _ (hhs h (by simp)), ih _ (fun x hx => hhs x (by simp [hx]))]
    cases hs with
    | nil => simp
    | cons h' hs' =>
      rw [List.getLast?_cons_cons, List.getLast?_eq_some_getLast (l := h' :: hs') (by simp)]
      rfl

/-- (b'), the stack ends without `testing.tRunner`: the file of the outermost frame -/
theorem walk_no_test_file_end (hs : List Frame) (prev : Text) (hhs : ∀ h ∈ hs, IsHelper h) :
    walk hs prev = (hs.getLast?.map (·.file)).getD prev := by
  induction hs generalizing prev with
  | nil => simp [walk]
  | cons h hs ih =>
    rw [walk_helper_cons _ _ _ (hhs h (by simp)), ih _ (fun x hx => hhs x (by simp [hx]))]
    cases hs with
    | nil => simp
    | cons h' hs' =>
      rw [List.getLast?_cons_cons, List.getLast?_eq_some_getLast (l := h' :: hs') (by simp)]
      rfl

/-- (c) the answer is decided at the FIRST test-file frame at the latest: the frames above it (its
    callers: the parent test, `testing.tRunner`, `main`) are irrelevant — for ANY frames `hs` below
    it, helpers or not -/
theorem walk_first_test_file (hs : List Frame) (tf : Frame) (rest rest' : List Frame) (prev : Text)
    (htf : IsTestFrame tf) :
    walk (hs ++ tf :: rest) prev = walk (hs ++ tf :: rest') prev := by
  induction hs generalizing prev with
  | nil => rw [List.nil_append, List.nil_append, walk_test_cons _ _ _ htf, walk_test_cons _ _ _ htf]
  | cons h hs ih =>
    simp only [List.cons_append, walk]
    cases h.func with
    | none => rfl
    | some n =>
      simp only []
      split
      · rfl
      · split
        · rfl
        · exact ih _

/-- the fuelled walk needs one iteration per helper frame and one for the test frame -/
theorem walkF_helpers (n : Nat) (hs : List Frame) (tf : Frame) (rest : List Frame) (prev : Text)
    (hhs : ∀ h ∈ hs, IsHelper h) (htf : IsTestFrame tf) (hn : hs.length < n) :
    walkF n (hs ++ tf :: rest) prev = some tf.file := by
  induction hs generalizing n prev with
  | nil =>
    obtain ⟨m, h1, h2, h3⟩ := htf
    cases n with
    | zero => simp at hn
    | succ n => simp [walkF, h1, h2, h3]
  | cons h hs ih =>
    obtain ⟨m, h1, h2, h3⟩ := hhs h (by simp)
    cases n with
    | zero => simp at hn
    | succ n =>
      simp only [List.cons_append, walkF, h1, h2, h3]
      simp only [if_false, Bool.false_eq_true]
      exact ih _ _ (fun x hx => hhs x (by simp [hx])) (by simp at hn; omega)

/-- (d) **C11 for the transliterated `baseCaller`**: `pre` are the `skip+1` frames of go-snaps itself
    (`baseCaller`, `snapshotPath`, `matchSnapshot`, `MatchSnapshot`), `hs` / `hs'` any helper frames
    in non-test files, `tf` the frame of the test file, `rest` / `rest'` whatever called it.  With
    one unit of fuel per helper frame and one more, both stacks give the test file. -/
theorem baseCaller_helpers_irrelevant (fuel fuel' : Nat) (pre hs hs' : List Frame) (tf : Frame)
    (rest rest' : List Frame) (skip : Int)
    (hpre : skip + 1 = (pre.length : Int))
    (hhs : ∀ h ∈ hs, IsHelper h) (hhs' : ∀ h ∈ hs', IsHelper h) (htf : IsTestFrame tf)
    (hfuel : hs.length < fuel) (hfuel' : hs'.length < fuel') :
    FuncsIO.baseCaller fuel (pre ++ hs ++ tf :: rest) skip = some tf.file ∧
    FuncsIO.baseCaller fuel' (pre ++ hs' ++ tf :: rest') skip = some tf.file := by
  constructor
  · rw [baseCaller_eq_walkF _ _ _ _ hpre, List.append_assoc, List.drop_left]
    exact walkF_helpers _ _ _ _ _ hhs htf hfuel
  · rw [baseCaller_eq_walkF _ _ _ _ hpre, List.append_assoc, List.drop_left]
    exact walkF_helpers _ _ _ _ _ hhs' htf hfuel'

/-! ## concrete stacks -/

section Examples

/-- a string literal as bytes, in a form the kernel evaluates (`= ofString`, `lit_eq`) -/
private def lit (s : String) : Text := s.toList.flatMap String.utf8EncodeChar

private theorem lit_eq (s : String) : lit s = ofString s := (ofString_eq s).symm

private def fr (file func : String) : Frame := { file := lit file, func := some (lit func) }

/-- the four frames of go-snaps itself below the user's code: `baseCaller(3)` is called by
    `snapshotPath`, called by `matchSnapshot`, called by the exported `MatchSnapshot` -/
private def lib : List Frame :=
  [fr "/mod/go-snaps/snaps/utils.go" "github.com/gkampitakis/go-snaps/snaps.baseCaller",
   fr "/mod/go-snaps/snaps/snapshot.go" "github.com/gkampitakis/go-snaps/snaps.snapshotPath",
   fr "/mod/go-snaps/snaps/matchSnapshot.go" "github.com/gkampitakis/go-snaps/snaps.matchSnapshot",
   fr "/mod/go-snaps/snaps/matchSnapshot.go" "github.com/gkampitakis/go-snaps/snaps.MatchSnapshot"]

/-- what runs a test: `testing.tRunner` on its own goroutine -/
private def top : List Frame :=
  [fr "/go/src/testing/testing.go" "testing.tRunner",
   fr "/go/src/runtime/asm_amd64.s" "runtime.goexit"]

private def helper : Frame := fr "/proj/pkg/helper.go" "proj/pkg.assertSnapshot"
private def helper2 : Frame := fr "/proj/pkg/helper2.go" "proj/pkg.check"
private def testA : Frame := fr "/proj/pkg/x_test.go" "proj/pkg.TestA.func1"

example : lib.length = 4 ∧ IsHelper helper ∧ IsHelper helper2 ∧ IsTestFrame testA := by
  refine ⟨rfl, ⟨_, rfl, ?_, ?_⟩, ⟨_, rfl, ?_, ?_⟩, ⟨_, rfl, ?_, ?_⟩⟩ <;> decide

/-- `MatchSnapshot` called through two helpers in non-test files from a subtest closure of
    x_test.go, `skip = 3` (the value go-snaps uses): x_test.go; 3 iterations suffice, 2 do not -/
example : FuncsIO.baseCaller 20 (lib ++ [helper, helper2, testA] ++ top) 3 = some (lit "/proj/pkg/x_test.go") := by decide
example : FuncsIO.baseCaller 3 (lib ++ [helper, helper2, testA] ++ top) 3 = some (lit "/proj/pkg/x_test.go") := by decide
example : FuncsIO.baseCaller 2 (lib ++ [helper, helper2, testA] ++ top) 3 = none := by decide

/-- called directly from the test, and from a subtest whose parent test is also on the stack
    (t.Run calls the closure on a new goroutine, so in Go it is not; harmless if it were) -/
example : FuncsIO.baseCaller 20 (lib ++ testA :: top) 3 = some (lit "/proj/pkg/x_test.go") := by decide
example : walk ([helper, testA, fr "/proj/pkg/y_test.go" "proj/pkg.TestParent"] ++ top) [] = lit "/proj/pkg/x_test.go" := by decide

/-- 40 helper frames between the call and the test -/
example : FuncsIO.baseCaller 41 (lib ++ List.replicate 40 helper ++ testA :: top) 3 = some (lit "/proj/pkg/x_test.go") :=
  (baseCaller_helpers_irrelevant 41 1 lib (List.replicate 40 helper) [] testA top [] 3 rfl
    (fun h hh => by rw [List.eq_of_mem_replicate hh]; exact ⟨_, rfl, by decide, by decide⟩)
    (fun h hh => by simp at hh) ⟨_, rfl, by decide, by decide⟩ (by simp) (by simp)).1

/-- the same by evaluation of the specification -/
example : walk (List.replicate 40 helper ++ testA :: top) [] = lit "/proj/pkg/x_test.go" := by decide

/-- no test file on the stack (the test body is a function defined in helper2.go, run by
    `testing.tRunner`): the frame just below `tRunner` -/
example : FuncsIO.baseCaller 20 (lib ++ [helper, helper2] ++ top) 3 = some (lit "/proj/pkg/helper2.go") := by decide

/-- the stack ends without `tRunner`, a frame without function information, `MatchSnapshot`
    called by `tRunner` directly (prevFile is still `""`) -/
example : FuncsIO.baseCaller 20 (lib ++ [helper, helper2]) 3 = some (lit "/proj/pkg/helper2.go") := by decide
example : FuncsIO.baseCaller 20 (lib ++ [helper, { file := lit "?", func := none }, testA] ++ top) 3 =
    some (lit "/proj/pkg/helper.go") := by decide
example : FuncsIO.baseCaller 20 (lib ++ top) 3 = some [] := by decide

/-- `skip` decides where the walk starts: with `skip = -1` the walk starts at `baseCaller`'s own frame -/
example : FuncsIO.baseCaller 20 (lib ++ [helper, testA] ++ top) (-1) = some (lit "/proj/pkg/x_test.go") := by decide
example : FuncsIO.baseCaller 20 ([testA, helper] ++ top) 0 = some (lit "/proj/pkg/helper.go") := by decide

end Examples

end GoSnaps.Tie
