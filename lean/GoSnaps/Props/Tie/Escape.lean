/-
Tie by proof, part 2 of 6 (see GoSnaps/Props/Tie.lean for the conventions).
-/
import GoSnaps.Escape
import GoSnaps.Clean
import GoSnaps.Diff
import GoSnaps.Difflib
import GoSnaps.GoSem
import GoSnaps.Generated.Funcs
import GoSnaps.Lemmas.Clean
import GoSnaps.Lemmas.Diff
import GoSnaps.Props.C10
import GoSnaps.Props.C11
namespace GoSnaps.Tie
open GoSnaps

/-! ## 2. `escapeEndChars` / `unescapeEndChars` (snaps/snapshot.go)

`ss := strings.Split(s, "\n"); for idx, s := range ss { if s == X { ss[idx] = Y } };
return strings.Join(ss, "\n")` — the loop is a `for` over `GoSem.enum ss` updating the mutable
`ss` with `GoSem.setAt`; `forIn_enum_setAt` shows that it computes a `List.map`. -/

/-- the range-with-index-assignment loop is a `map` -/
theorem forIn_enum_setAt (src dst : Text) (l pre : List Text) :
    forIn (m := Id) (GoSem.enumFrom (pre.length : Int) l) (pre ++ l) (fun x r =>
        if x.snd = src then pure (ForInStep.yield (GoSem.setAt r x.fst dst)) else pure (ForInStep.yield r)) =
      pure (pre ++ l.map (fun x => if x = src then dst else x)) := by
  induction l generalizing pre with
  | nil => simp [GoSem.enumFrom]
  | cons x xs ih =>
    have h1 := ih (pre ++ [x])
    have h2 := ih (pre ++ [dst])
    simp only [List.length_append, List.length_singleton, List.append_assoc, List.singleton_append,
      Int.natCast_add, Int.cast_ofNat_Int] at h1 h2
    by_cases hx : x = src
    · simp [GoSem.enumFrom, hx, GoSem.setAt_append_length]
      simpa [hx] using h2
    · simp [GoSem.enumFrom, hx]
      simpa [hx] using h1

/-- **Tie**: equality with the model's `escape` -/
theorem escapeEndChars_tied (s : Text) : Generated.Funcs.escapeEndChars s = GoSnaps.escape s := by
  have h := forIn_enum_setAt Generated.go_endSequence [47, 45, 47, 45, 47, 45, 47] (lines s) []
  have e1 : Generated.escapeFrom = Generated.go_endSequence := by decide
  have e2 : Generated.escapeTo = [47, 45, 47, 45, 47, 45, 47] := by decide
  unfold Generated.Funcs.escapeEndChars GoSnaps.escape mapLines
  simp [Id.run, pure, GoSem.enum, e1, e2] at h ⊢
  rw [h]; rfl

/-- **Tie**: equality with the model's `unescape` -/
theorem unescapeEndChars_tied (s : Text) : Generated.Funcs.unescapeEndChars s = GoSnaps.unescape s := by
  have h := forIn_enum_setAt [47, 45, 47, 45, 47, 45, 47] Generated.go_endSequence (lines s) []
  have e1 : Generated.unescapeFrom = [47, 45, 47, 45, 47, 45, 47] := by decide
  have e2 : Generated.unescapeTo = Generated.go_endSequence := by decide
  unfold Generated.Funcs.unescapeEndChars GoSnaps.unescape mapLines
  simp [Id.run, pure, GoSem.enum, e1, e2] at h ⊢
  rw [h]; rfl

end GoSnaps.Tie
