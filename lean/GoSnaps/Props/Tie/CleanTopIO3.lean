/-
Tie by proof, part 11d: the model's `examineSnaps` (`GoSnaps/Clean.lean`) file by file, and its
invariance under a permutation of the used files (pairwise different) and under replacing the
file system by one with the same content.  Needed by `Clean_tied` (`Props/Tie/CleanTopIO.lean`):
the transliterated `examineFiles` returns the used files in the order in which it happened to visit
the directories, the model in its canonical order.
-/
import GoSnaps.Clean
import GoSnaps.Lemmas.Clean
import GoSnaps.Props.Tie.SnapshotIO
namespace GoSnaps.Tie
open GoSnaps GoSnaps.GoIO

/-! ## the model's `examineSnaps` file by file -/

/-- what the model's `examineSnaps` does with one used file `p` whose content is `content`: a
    failure outcome, or the obsolete ids found and the new content if the file is rewritten -/
def fileRes (o : Oracles) (cleanup : List (RegKey × Nat)) (skipped : List Text) (runOnly : Text) (count : Nat)
    (update sort : Bool) (p content : Text) : SnapsOutcome ⊕ (List Text × Option Text) :=
  match registeredFor cleanup p count with
  | none => .inl .badFormat
  | some registered =>
    if (scan content).any getTestIDPanics then .inl .panics else
    if (exScan o registered skipped runOnly update (scan content) .outer {}).missing then .inl .missingOracle else
    if (!(update && (exScan o registered skipped runOnly update (scan content) .outer {}).hasDiffs) &&
        !(sort && !(isSortedNat (exScan o registered skipped runOnly update (scan content) .outer {}).testIDs))) = true then
      .inr ((exScan o registered skipped runOnly update (scan content) .outer {}).obsolete, none)
    else
      if ((sort && !(isSortedNat (exScan o registered skipped runOnly update (scan content) .outer {}).testIDs)) &&
          !(allPairsOrdered (if (sort && !(isSortedNat (exScan o registered skipped runOnly update (scan content) .outer {}).testIDs)) = true
              then sortNat (exScan o registered skipped runOnly update (scan content) .outer {}).testIDs
              else (exScan o registered skipped runOnly update (scan content) .outer {}).testIDs) &&
            pairwiseComparable (if (sort && !(isSortedNat (exScan o registered skipped runOnly update (scan content) .outer {}).testIDs)) = true
              then sortNat (exScan o registered skipped runOnly update (scan content) .outer {}).testIDs
              else (exScan o registered skipped runOnly update (scan content) .outer {}).testIDs))) = true then
        .inl .unsupportedOrder
      else
        if ((rewriteFrames (exScan o registered skipped runOnly update (scan content) .outer {}).tests
            (if (sort && !(isSortedNat (exScan o registered skipped runOnly update (scan content) .outer {}).testIDs)) = true
              then sortNat (exScan o registered skipped runOnly update (scan content) .outer {}).testIDs
              else (exScan o registered skipped runOnly update (scan content) .outer {}).testIDs)).any (·.isNone)) = true then
          .inl .badFormat
        else
          .inr ((exScan o registered skipped runOnly update (scan content) .outer {}).obsolete,
            some ((rewriteFrames (exScan o registered skipped runOnly update (scan content) .outer {}).tests
              (if (sort && !(isSortedNat (exScan o registered skipped runOnly update (scan content) .outer {}).testIDs)) = true
                then sortNat (exScan o registered skipped runOnly update (scan content) .outer {}).testIDs
                else (exScan o registered skipped runOnly update (scan content) .outer {}).testIDs)).filterMap (fun x => x)).flatten)

theorem examineSnaps_go_cons' (o : Oracles) (cleanup : List (RegKey × Nat)) (skipped : List Text)
    (runOnly : Text) (count : Nat) (update sort : Bool) (p : Text) (rest : List Text) (fs : FS)
    (obs written : List Text) :
    examineSnaps.go o cleanup skipped runOnly count update sort (p :: rest) fs obs written =
      match fsRead fs p with
      | none => .badFormat
      | some content =>
        match fileRes o cleanup skipped runOnly count update sort p content with
        | .inl bad => bad
        | .inr (ob, none) => examineSnaps.go o cleanup skipped runOnly count update sort rest fs (obs ++ ob) written
        | .inr (ob, some c) =>
          examineSnaps.go o cleanup skipped runOnly count update sort rest (fsWrite fs p c) (obs ++ ob) (written ++ [p]) := by
  rw [examineSnaps_go_cons]
  cases fsRead fs p with
  | none => rfl
  | some content =>
    simp only
    unfold fileRes
    cases registeredFor cleanup p count with
    | none => rfl
    | some registered =>
      simp only
      generalize exScan o registered skipped runOnly update (scan content) .outer {} = st
      cases h1 : (scan content).any getTestIDPanics
      case true => rfl
      cases h2 : st.missing
      case true => rfl
      cases hS : (sort && !isSortedNat st.testIDs) <;> cases hU : (update && st.hasDiffs) <;>
        simp only [Bool.not_true, Bool.not_false, Bool.and_true, Bool.and_false, Bool.false_eq_true, Bool.true_and,
          Bool.false_and, ↓reduceIte]
      · cases h6 : (rewriteFrames st.tests st.testIDs).any (·.isNone) <;> simp only [Bool.false_eq_true, ↓reduceIte]
      · cases h5 : (allPairsOrdered (sortNat st.testIDs) && pairwiseComparable (sortNat st.testIDs)) <;>
          simp only [Bool.not_true, Bool.not_false, Bool.false_eq_true, ↓reduceIte]
        cases h6 : (rewriteFrames st.tests (sortNat st.testIDs)).any (·.isNone) <;> simp only [Bool.false_eq_true, ↓reduceIte]
      · cases h5 : (allPairsOrdered (sortNat st.testIDs) && pairwiseComparable (sortNat st.testIDs)) <;>
          simp only [Bool.not_true, Bool.not_false, Bool.false_eq_true, ↓reduceIte]
        cases h6 : (rewriteFrames st.tests (sortNat st.testIDs)).any (·.isNone) <;> simp only [Bool.false_eq_true, ↓reduceIte]

theorem fileRes_inl_not_ok (o : Oracles) (cleanup : List (RegKey × Nat)) (skipped : List Text) (runOnly : Text) (count : Nat)
    (update sort : Bool) (p content : Text) (bad : SnapsOutcome)
    (h : fileRes o cleanup skipped runOnly count update sort p content = .inl bad) (a : List Text) (b : FS) (c : List Text) :
    bad ≠ .ok a b c := by
  unfold fileRes at h
  cases hreg : registeredFor cleanup p count with
  | none => rw [hreg] at h; simp only [Sum.inl.injEq] at h; rw [← h]; intro e; cases e
  | some registered =>
    rw [hreg] at h
    simp only at h
    generalize exScan o registered skipped runOnly update (scan content) .outer {} = st at h
    intro e
    subst e
    cases h1 : (scan content).any getTestIDPanics
    case true => simp only [h1, ↓reduceIte, Sum.inl.injEq] at h; cases h
    cases h2 : st.missing
    case true => simp only [h1, h2, Bool.false_eq_true, ↓reduceIte, Sum.inl.injEq] at h; cases h
    simp only [h1, h2, Bool.false_eq_true, ↓reduceIte] at h
    cases hS : (sort && !isSortedNat st.testIDs) <;> cases hU : (update && st.hasDiffs) <;>
      simp only [hS, hU, Bool.not_true, Bool.not_false, Bool.and_true, Bool.and_false, Bool.false_eq_true, Bool.true_and,
        Bool.false_and, ↓reduceIte] at h
    · cases h
    · cases h6 : (rewriteFrames st.tests st.testIDs).any (·.isNone) <;>
        simp only [h6, Bool.false_eq_true, ↓reduceIte] at h <;> cases h
    · cases h5 : (allPairsOrdered (sortNat st.testIDs) && pairwiseComparable (sortNat st.testIDs)) <;>
        simp only [h5, Bool.not_true, Bool.not_false, Bool.false_eq_true, ↓reduceIte] at h
      · cases h
      · cases h6 : (rewriteFrames st.tests (sortNat st.testIDs)).any (·.isNone) <;>
          simp only [h6, Bool.false_eq_true, ↓reduceIte] at h <;> cases h
    · cases h5 : (allPairsOrdered (sortNat st.testIDs) && pairwiseComparable (sortNat st.testIDs)) <;>
        simp only [h5, Bool.not_true, Bool.not_false, Bool.false_eq_true, ↓reduceIte] at h
      · cases h
      · cases h6 : (rewriteFrames st.tests (sortNat st.testIDs)).any (·.isNone) <;>
          simp only [h6, Bool.false_eq_true, ↓reduceIte] at h <;> cases h

/-- the per-file result for the content `p` has in `fs0` -/
def resAt (o : Oracles) (cleanup : List (RegKey × Nat)) (skipped : List Text) (runOnly : Text) (count : Nat)
    (update sort : Bool) (fs0 : FS) (p : Text) : Option (List Text × Option Text) :=
  match fsRead fs0 p with
  | none => none
  | some content =>
    match fileRes o cleanup skipped runOnly count update sort p content with
    | .inl _ => none
    | .inr r => some r

/-- the obsolete ids of file `p` -/
def obAt (o : Oracles) (cleanup : List (RegKey × Nat)) (skipped : List Text) (runOnly : Text) (count : Nat)
    (update sort : Bool) (fs0 : FS) (p : Text) : List Text :=
  match resAt o cleanup skipped runOnly count update sort fs0 p with
  | some r => r.1
  | none => []

/-- the content of `q` after the used files among `used` have been processed -/
def contentAfter (o : Oracles) (cleanup : List (RegKey × Nat)) (skipped : List Text) (runOnly : Text) (count : Nat)
    (update sort : Bool) (fs0 : FS) (used : List Text) (fs : FS) (q : Text) : Option Text :=
  if q ∈ used then
    match resAt o cleanup skipped runOnly count update sort fs0 q with
    | some (_, some c) => some c
    | _ => fsRead fs q
  else fsRead fs q

/-- **the model's file loop, file by file**: if the used files are pairwise different and have in
    `fs` the content they have in `fs0`, the loop succeeds iff every file has a per-file result, and
    then the obsolete ids are the concatenation of the per-file ones and every file has its per-file
    new content -/
theorem examineSnaps_go_files (o : Oracles) (cleanup : List (RegKey × Nat)) (skipped : List Text) (runOnly : Text)
    (count : Nat) (update sort : Bool) (fs0 : FS) (used : List Text) (hnd : used.Nodup) (fs : FS) (obs written : List Text)
    (hfs : ∀ p ∈ used, fsRead fs p = fsRead fs0 p) :
    (∀ obs' fs' written', examineSnaps.go o cleanup skipped runOnly count update sort used fs obs written = .ok obs' fs' written' →
      ∀ p ∈ used, (resAt o cleanup skipped runOnly count update sort fs0 p).isSome = true) ∧
    ((∀ p ∈ used, (resAt o cleanup skipped runOnly count update sort fs0 p).isSome = true) →
      ∃ fs' written', examineSnaps.go o cleanup skipped runOnly count update sort used fs obs written =
          .ok (obs ++ used.flatMap (obAt o cleanup skipped runOnly count update sort fs0)) fs' written' ∧
        ∀ q, fsRead fs' q = contentAfter o cleanup skipped runOnly count update sort fs0 used fs q) := by
  induction used generalizing fs obs written with
  | nil =>
    refine ⟨(fun _ _ _ _ p hp => by cases hp), fun _ => ⟨fs, written, ?_, fun q => ?_⟩⟩
    · rw [examineSnaps_go_nil]; simp
    · simp [contentAfter]
  | cons p rest ih =>
    have hp0 := hfs p (by simp)
    have hrest : ∀ q ∈ rest, q ≠ p := fun q hq e => (List.nodup_cons.mp hnd).1 (e ▸ hq)
    rw [examineSnaps_go_cons']
    cases hr : fsRead fs0 p with
    | none =>
      rw [hr] at hp0
      refine ⟨fun _ _ _ h => ?_, fun h => ?_⟩
      · rw [hp0] at h; cases h
      · have := h p (by simp)
        simp [resAt, hr] at this
    | some content =>
      rw [hr] at hp0
      rw [hp0]
      simp only
      cases hf : fileRes o cleanup skipped runOnly count update sort p content with
      | inl bad =>
        refine ⟨fun obs' fs' written' h => ?_, fun h => ?_⟩
        · -- a failure outcome is not `.ok`: read it off `resAt`
          exact absurd h (fileRes_inl_not_ok o cleanup skipped runOnly count update sort p content bad hf obs' fs' written')
        · have := h p (by simp)
          simp [resAt, hr, hf] at this
      | inr r =>
        obtain ⟨ob, nc⟩ := r
        have hres : resAt o cleanup skipped runOnly count update sort fs0 p = some (ob, nc) := by
          simp [resAt, hr, hf]
        cases nc with
        | none =>
          simp only
          obtain ⟨ih1, ih2⟩ := ih (List.nodup_cons.mp hnd).2 fs (obs ++ ob) written (fun q hq => hfs q (by simp [hq]))
          refine ⟨fun obs' fs' written' h q hq => ?_, fun h => ?_⟩
          · rcases List.mem_cons.mp hq with rfl | hq'
            · rw [hres]; rfl
            · exact ih1 obs' fs' written' h q hq'
          · obtain ⟨fs', written', h1, h2⟩ := ih2 (fun q hq => h q (by simp [hq]))
            refine ⟨fs', written', ?_, fun q => ?_⟩
            · rw [h1]; simp [List.flatMap_cons, obAt, hres]
            · rw [h2]
              unfold contentAfter
              by_cases hq : q ∈ rest
              · have : q ∈ p :: rest := by simp [hq]
                simp only [hq, this, ↓reduceIte]
              · by_cases hqp : q = p
                · subst hqp
                  simp [hq, hres]
                · simp [hq, hqp]
        | some c =>
          simp only
          obtain ⟨ih1, ih2⟩ := ih (List.nodup_cons.mp hnd).2 (fsWrite fs p c) (obs ++ ob) (written ++ [p])
            (fun q hq => by rw [fsRead_fsWrite_other _ _ _ _ (hrest q hq)]; exact hfs q (by simp [hq]))
          refine ⟨fun obs' fs' written' h q hq => ?_, fun h => ?_⟩
          · rcases List.mem_cons.mp hq with rfl | hq'
            · rw [hres]; rfl
            · exact ih1 obs' fs' written' h q hq'
          · obtain ⟨fs', written', h1, h2⟩ := ih2 (fun q hq => h q (by simp [hq]))
            refine ⟨fs', written', ?_, fun q => ?_⟩
            · rw [h1]; simp [List.flatMap_cons, obAt, hres]
            · rw [h2]
              unfold contentAfter
              by_cases hq : q ∈ rest
              · have : q ∈ p :: rest := by simp [hq]
                have hqp : q ≠ p := hrest q hq
                simp only [hq, this, ↓reduceIte, fsRead_fsWrite_other _ _ _ _ hqp]
              · by_cases hqp : q = p
                · subst hqp
                  simp [hq, hres, fsRead_fsWrite_same]
                · simp [hq, hqp, fsRead_fsWrite_other _ _ _ _ hqp]

theorem examineSnaps_def (o : Oracles) (fs : FS) (cleanup : List (RegKey × Nat)) (skipped used : List Text)
    (runOnly : Text) (count : Nat) (update sort : Bool) :
    GoSnaps.examineSnaps o fs cleanup skipped used runOnly count update sort =
      examineSnaps.go o cleanup skipped runOnly count update sort used fs [] [] := rfl

/-- **the model's `examineSnaps` does not depend on the order of the used files** (pairwise
    different) nor on the representation of the file system: the obsolete ids are permuted, the
    resulting file systems have the same content -/
theorem examineSnaps_perm (o : Oracles) (cleanup : List (RegKey × Nat)) (skipped : List Text) (runOnly : Text)
    (count : Nat) (update sort : Bool) (used used₂ : List Text) (fs fs₂ : FS)
    (hnd : used.Nodup) (hp : used₂.Perm used) (hfs : ∀ p, fsRead fs₂ p = fsRead fs p)
    (obs' : List Text) (fs' : FS) (written' : List Text)
    (h : GoSnaps.examineSnaps o fs cleanup skipped used runOnly count update sort = .ok obs' fs' written') :
    ∃ obs₂ fs₂' written₂, GoSnaps.examineSnaps o fs₂ cleanup skipped used₂ runOnly count update sort = .ok obs₂ fs₂' written₂ ∧
      obs₂.Perm obs' ∧ ∀ q, fsRead fs₂' q = fsRead fs' q := by
  rw [examineSnaps_def] at h ⊢
  obtain ⟨a1, a2⟩ := examineSnaps_go_files o cleanup skipped runOnly count update sort fs used hnd fs [] []
    (fun _ _ => rfl)
  have hall := a1 _ _ _ h
  obtain ⟨fs1, w1, g1, g2⟩ := a2 hall
  rw [h] at g1
  simp only [SnapsOutcome.ok.injEq, List.nil_append] at g1
  obtain ⟨e1, e2, _⟩ := g1
  obtain ⟨_, b2⟩ := examineSnaps_go_files o cleanup skipped runOnly count update sort fs used₂ (hp.symm.nodup hnd) fs₂ [] []
    (fun p _ => hfs p)
  obtain ⟨fs2, w2, k1, k2⟩ := b2 (fun p hp' => hall p (hp.mem_iff.mp hp'))
  refine ⟨_, fs2, w2, k1, ?_, fun q => ?_⟩
  · rw [e1]; simp only [List.nil_append]; exact hp.flatMap_right _
  · rw [k2, e2, g2]
    unfold contentAfter
    by_cases hq : q ∈ used
    · rw [if_pos hq, if_pos (hp.mem_iff.mpr hq), hfs]
    · rw [if_neg hq, if_neg (fun e => hq (hp.mem_iff.mp e)), hfs]

end GoSnaps.Tie
