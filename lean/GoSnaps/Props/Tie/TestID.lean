/-
Tie by proof, part 3 of 6 (see GoSnaps/Props/Tie.lean for the conventions).
-/
import GoSnaps.Escape
import GoSnaps.Clean
import GoSnaps.Diff
import GoSnaps.Difflib
import GoSnaps.GoSem
import GoSnaps.Generated.Funcs
import GoSnaps.Lemmas.Clean
import GoSnaps.Lemmas.Diff
import GoSnaps.Props.C10
import GoSnaps.Props.C11
namespace GoSnaps.Tie
open GoSnaps

/-! ## 3. `isNumber` / `getTestID` (snaps/clean.go)

Both index / slice their argument, so the transliterations are `Option`-valued (`none` = Go
panics with index / slice bounds out of range). -/

theorem isDigit_iff (c : Byte) : isDigit c = true ↔ ¬ c < 48 ∧ ¬ c > 57 := by
  simp [isDigit]

theorem isNumber_loop (b : Text) : ∀ (suf pre : Text), b = pre ++ suf →
    forIn (m := Option) (GoSem.intRangeAux (pre.length : Int) suf.length)
      ((none, ()) : Option Bool × PUnit) (fun i _ => do
        let t ← (do
          let x ← GoSem.index b i
          if decide (x < 48) = true then pure true
          else do
            let y ← GoSem.index b i
            pure (decide (y > 57)))
        if t = true then pure (ForInStep.done (some false, ())) else pure (ForInStep.yield (none, ()))) =
      some (if suf.all isDigit then none else some false, ()) := by
  intro suf
  induction suf with
  | nil => intro pre _; simp [GoSem.intRangeAux]
  | cons c cs ih =>
    intro pre hb
    have h := ih (pre ++ [c]) (by simp [hb])
    simp only [List.length_append, List.length_singleton, Int.natCast_add, Int.cast_ofNat_Int] at h
    have hidx : GoSem.index b (pre.length : Int) = some c := by rw [hb]; exact GoSem.index_append_length ..
    simp only [List.length_cons, GoSem.intRangeAux, List.forIn_cons, hidx]
    by_cases h1 : c < 48
    · have : isDigit c = false := by
        rw [Bool.eq_false_iff, Ne, isDigit_iff]; exact fun h => h.1 h1
      simp [h1, this]
    · by_cases h2 : c > 57
      · have : isDigit c = false := by
          rw [Bool.eq_false_iff, Ne, isDigit_iff]; exact fun h => h.2 h2
        simp [h2, this]
      · have : isDigit c = true := (isDigit_iff c).2 ⟨h1, h2⟩
        simpa [h1, h2, this] using h

/-- **Tie**: `isNumber` never panics (`b[i]` is evaluated for `0 ≤ i < len b` only) and returns the
    model's verdict -/
theorem isNumber_tied (b : Text) : Generated.Funcs.isNumber b = some (GoSnaps.isNumber b) := by
  have key := isNumber_loop b b [] (by simp)
  unfold Generated.Funcs.isNumber 
  simp only [GoSem.intRange_zero_len]
  simp at key ⊢
  rw [key]
  unfold isNumber
  by_cases hall : ∀ x ∈ b, isDigit x = true
  · rw [if_pos hall, List.all_eq_true.2 hall]; rfl
  · have : b.all isDigit = false := by
      rw [Bool.eq_false_iff, Ne, List.all_eq_true]; exact hall
    rw [if_neg hall, this]; rfl

/-- **Tie, exact form.**  Go's `(string, bool)` result against the model's `Option`:
`(id, true)` ↔ `some id`, `("", false)` ↔ `none`.  The transliteration panics (`none`) exactly on
the inputs characterised by the model's `getTestIDPanics` (`b[separator+3 : len(b)-1]` with
`separator+3 > len(b)-1`) — the model's own `none` on that branch is a placeholder. -/

theorem getTestID_tied (b : Text) :
    Generated.Funcs.getTestID b =
      if getTestIDPanics b then none
      else some (match GoSnaps.getTestID b with | some id => (id, true) | none => ([], false)) := by
  have hp : Generated.headerPrefix = [91] := by decide
  have hs : Generated.idSep = [32, 45, 32] := by decide
  unfold Generated.Funcs.getTestID GoSnaps.getTestID getTestIDPanics
  simp only [hp, hs, GoSem.index_len_sub_one, isNumber_tied, GoSem.indexInt]
  cases b with
  | nil => simp [GoSem.len]
  | cons x xs =>
    cases hpre : hasPrefix (x :: xs) [91]
    · simp [GoSem.len]
    · cases hl : (x :: xs).getLast? with
      | none => simp at hl
      | some c =>
        by_cases hc : c = 93
        · subst hc
          cases hi : indexOf (x :: xs) [32, 45, 32] with
          | none => simp [GoSem.len]
          | some sep =>
            by_cases hlt : xs.length < sep + 3
            · have hsl : GoSem.slice (x :: xs) ((sep : Int) + 3) (xs.length : Int) = none := by
                unfold GoSem.slice; rw [if_neg (by omega)]
              simp [GoSem.len, hlt, hsl]; omega
            · have h1 := GoSem.slice_ofNat (x :: xs) (sep + 3) xs.length (by omega) (by simp)
              have h2 := GoSem.slice_ofNat (x :: xs) 1 xs.length (by omega) (by simp)
              simp only [Int.natCast_add, Int.cast_ofNat_Int] at h1 h2
              simp [GoSem.len, hlt, h1, h2]
              rw [if_neg (by omega)]
              cases isNumber (List.take (xs.length - (sep + 3)) (List.drop (sep + 2) xs)) <;> simp
        · simp [GoSem.len, hc]

/-- **Tie**: since `getTestIDPanics` is identically false (`C10.getTestID_never_panics`), Go's
    `getTestID` never panics and agrees with the model on every input -/
theorem getTestID_total (b : Text) :
    Generated.Funcs.getTestID b =
      some (match GoSnaps.getTestID b with | some id => (id, true) | none => ([], false)) := by
  rw [getTestID_tied, C10.getTestID_never_panics]; rfl

end GoSnaps.Tie
