/-
Tie by proof, part 8: the writing file functions of snaps/snapshot.go (`Generated/FuncsIO.lean`):
`removeSnapshot`, `overwriteFile`, `addNewSnapshot`, `updateSnapshot`, `upsertStandaloneSnapshot`,
`getPrevStandaloneSnapshot`.

For each function
* `…_eq`   : the transliteration, for EVERY failure oracle `io`, as a decision tree over the oracle's
             answers and the file system (the strongest statement; everything else is a corollary);
* `…_tied` : under `IOFail.never` the transliteration equals the model (`frame`, `update`, `fsWrite`);
* `…_fail` / `…_ok` : what a non-nil / nil error says about the resulting file system, for every oracle.

Scanner loops follow the pattern of `Props/Tie/Snapshot.lean` (`rm_loop`, `upd_loop`: lemma for an
arbitrary loop body characterised on each kind of scanner state).  Each main theorem is followed by
an `example` on a concrete two-entry file (non-vacuity).
-/
import GoSnaps.GoIO
import GoSnaps.Format
import GoSnaps.Model
import GoSnaps.Generated.FuncsIO
import GoSnaps.Props.Tie.Snapshot
namespace GoSnaps.Tie
open GoSnaps GoSnaps.GoIO
open GoSnaps.Generated.FuncsIO

/-! ## file-system facts -/

theorem fsRead_fsWrite_same (fs : FS) (p a : Text) : fsRead (fsWrite fs p a) p = some a := by
  induction fs with
  | nil => simp [fsWrite, fsRead]
  | cons x m ih =>
    obtain ⟨p', c'⟩ := x
    by_cases h : p' = p
    · simp [fsWrite, fsRead, h]
    · simp [fsWrite, fsRead, h, ih]

theorem fsRead_fsWrite_other (fs : FS) (p q a : Text) (hq : q ≠ p) :
    fsRead (fsWrite fs p a) q = fsRead fs q := by
  induction fs with
  | nil =>
    have : ¬ p = q := fun e => hq e.symm
    simp [fsWrite, fsRead, this]
  | cons x m ih =>
    obtain ⟨p', c'⟩ := x
    by_cases h : p' = p
    · subst h
      have : ¬ p' = q := fun e => hq e.symm
      simp [fsWrite, fsRead, this]
    · by_cases h2 : p' = q
      · subst h2
        simp [fsWrite, fsRead, h]
      · simp [fsWrite, fsRead, h, h2, ih]

theorem fsWrite_fsWrite (fs : FS) (p a b : Text) : fsWrite (fsWrite fs p a) p b = fsWrite fs p b := by
  induction fs with
  | nil => simp [fsWrite]
  | cons x m ih =>
    obtain ⟨p', c'⟩ := x
    by_cases h : p' = p
    · simp [fsWrite, h]
    · simp [fsWrite, h, ih]

/-! ## fixtures of the examples -/

/-- a two-entry snapshot file: ids `a`, `b`, bodies `x`, `y` -/
def exFile : Text := [10,97,10,120,10,45,45,45,10, 10,98,10,121,10,45,45,45,10]
def exPath : Text := [112]
/-- a file system with another file next to the snapshot file -/
def exFS : FS := [([113], [1]), (exPath, exFile)]
/-- an oracle under which every `Write` fails -/
def exIOW : IOFail := fun op _ => if op = .write then some [33] else none
/-- an oracle under which every `os.WriteFile` fails -/
def exIOWF : IOFail := fun op _ => if op = .writeFile then some [33] else none

example : exFile = render [⟨[97], [120]⟩, ⟨[98], [121]⟩] := by decide

/-! ## removeSnapshot -/

/-- the scanner after `removeSnapshot`, as a function of the tokens still to come -/
def skipL : List Line → Scanner
  | [] => { ok := false, cur := [], rest := [] }
  | l :: ls => if l = endSeq then { ok := true, cur := endSeq, rest := ls } else skipL ls

theorem skipL_rest (ls : List Line) : (skipL ls).rest = (ls.dropWhile (· ≠ endSeq)).drop 1 := by
  induction ls with
  | nil => simp [skipL]
  | cons l ls ih =>
    by_cases h : l = endSeq
    · simp [skipL, h]
    · simp [skipL, h, ih]

theorem skipL_rest_length (ls : List Line) : (skipL ls).rest.length ≤ ls.length := by
  induction ls with
  | nil => simp [skipL]
  | cons l ls ih =>
    by_cases h : l = endSeq
    · simp [skipL, h]
    · simp [skipL, h]; omega

theorem rm_loop (F : Unit → Scanner → Id (ForInStep Scanner))
    (hnil : ∀ ok c, F () ({ ok := ok, cur := c, rest := [] } : Scanner) =
      pure (ForInStep.done ({ ok := false, cur := [], rest := [] } : Scanner)))
    (hend : ∀ ok c ls, F () ({ ok := ok, cur := c, rest := endSeq :: ls } : Scanner) =
      pure (ForInStep.done ({ ok := true, cur := endSeq, rest := ls } : Scanner)))
    (hline : ∀ ok c l ls, l ≠ endSeq → F () ({ ok := ok, cur := c, rest := l :: ls } : Scanner) =
      pure (ForInStep.yield ({ ok := true, cur := l, rest := ls } : Scanner)))
    (rest : List Line) (c : Line) (ok : Bool) :
    forIn (m := Id) (List.replicate (rest.length + 1) ()) ({ ok := ok, cur := c, rest := rest } : Scanner) F =
      pure (skipL rest) := by
  induction rest generalizing c ok with
  | nil => simp [hnil, skipL]
  | cons l ls ih =>
    rw [List.length_cons, List.replicate_succ, List.forIn_cons]
    by_cases h : l = endSeq
    · subst h
      simp [hend, skipL]
    · rw [hline _ _ _ _ h]
      simp only [pure_bind]
      rw [ih]
      simp [skipL, h]

theorem removeSnapshot_eq (s : Scanner) : removeSnapshot s = skipL s.rest := by
  have e : Generated.endSeq = Generated.go_endSequence := by decide
  obtain ⟨ok, c, rest⟩ := s
  unfold removeSnapshot
  simp only [Id.run, Scanner.fuel, bind, pure]
  rw [rm_loop _ ?hnil ?hend ?hline]
  · rfl
  case hnil => intro ok c; simp [Scanner.scan]; rfl
  case hend => intro ok c ls; simp [Scanner.scan, Scanner.bytes, endSeq, e]; rfl
  case hline =>
    intro ok c l ls h
    have h' : ¬ (l = Generated.go_endSequence) := h
    simp [Scanner.scan, Scanner.bytes, h']; rfl

theorem removeSnapshot_tied (s : Scanner) :
    (removeSnapshot s).rest = (s.rest.dropWhile (· ≠ endSeq)).drop 1 := by
  rw [removeSnapshot_eq, skipL_rest]

example : (removeSnapshot { ok := true, cur := [97], rest := [[120], endSeq, [], [98]] }).rest = [[], [98]] := by
  rw [removeSnapshot_tied]; decide
example : removeSnapshot { ok := true, cur := [97], rest := [[120], endSeq, [], [98]] } =
    { ok := true, cur := endSeq, rest := [[], [98]] } := by decide

/-! ## overwriteFile -/

theorem writeAt_nil_zero (b : Text) : writeAt [] 0 b = b := by
  simp [writeAt]

theorem fileContent_fsWrite (fs : FS) (f : File) (a : Text) :
    fileContent (fsWrite fs f.path a) f = a := by
  simp [fileContent, fsRead_fsWrite_same]

theorem overwriteFile_eq (io : IOFail) (fs : FS) (f : File) (b : Text) :
    overwriteFile io fs f b =
      match io .write f.path with
      | some m => (fsWrite fs f.path [], { f with pos := 0 }, Err.other m)
      | none => (fsWrite fs f.path b, { f with pos := b.length }, Err.nil) := by
  unfold overwriteFile
  simp only [Id.run, fileTruncate0, fileSeekStart, fileWrite, pure]
  cases hio : io .write f.path with
  | some m => rfl
  | none =>
    simp only [fileContent, fsRead_fsWrite_same, fsWrite_fsWrite]
    cases f.append <;> simp [writeAt]

/-- holds for every handle, `O_APPEND` or not: after `Truncate(0)` the file is empty, so an appending
    write and a write at offset 0 (after `Seek(0)`) put the bytes at the same place and leave the
    offset at `b.length` -/
theorem overwriteFile_tied (fs : FS) (f : File) (b : Text) :
    overwriteFile IOFail.never fs f b = (fsWrite fs f.path b, { f with pos := b.length }, Err.nil) := by
  rw [overwriteFile_eq]; rfl

example : overwriteFile IOFail.never exFS { path := exPath, pos := 18 } [7, 8] =
    ([([113], [1]), (exPath, [7, 8])], { path := exPath, pos := 2 }, Err.nil) := by
  rw [overwriteFile_tied]; decide
example : overwriteFile IOFail.never exFS { path := exPath, append := true, pos := 18 } [7, 8] =
    ([([113], [1]), (exPath, [7, 8])], { path := exPath, append := true, pos := 2 }, Err.nil) := by decide

/-! ## addNewSnapshot -/

/-- the content `os.OpenFile(O_APPEND|O_CREATE)` finds: a missing file starts empty -/
def oldContent (fs : FS) (p : Text) : Text :=
  match fsRead fs p with
  | some t => t
  | none => []

theorem frame_eq (testID snapshot : Text) :
    ([10] : List UInt8) ++ testID ++ ([10] : List UInt8) ++ snapshot ++ ([10, 45, 45, 45, 10] : List UInt8) =
      frame ⟨testID, snapshot⟩ := by
  have e : endSeq = [45, 45, 45] := by decide
  simp [frame, e, nl]

/-- `addNewSnapshot` for every failure oracle, call by call -/
theorem addNewSnapshot_eq (io : IOFail) (fs : FS) (testID snapshot snapPath : Text) :
    addNewSnapshot io fs testID snapshot snapPath =
      match io .mkdirAll (fpDir snapPath) with
      | some m => (fs, Err.other m)
      | none =>
        match io .openAppend snapPath with
        | some m => (fs, Err.other m)
        | none =>
          match io .write snapPath with
          | some m => ((match fsRead fs snapPath with | some _ => fs | none => fsWrite fs snapPath []), Err.other m)
          | none => (fsWrite fs snapPath (oldContent fs snapPath ++ frame ⟨testID, snapshot⟩), Err.nil) := by
  unfold addNewSnapshot
  rw [frame_eq]
  cases h1 : io .mkdirAll (fpDir snapPath) with
  | some m => simp [Id.run, mkdirAll, h1, Err.notNil]; rfl
  | none =>
    cases h2 : io .openAppend snapPath with
    | some m => simp [Id.run, mkdirAll, openAppend, h1, h2, Err.notNil]; rfl
    | none =>
      cases h3 : io .write snapPath with
      | some m =>
        cases hr : fsRead fs snapPath <;>
          (simp [Id.run, mkdirAll, openAppend, fileWrite, h1, h2, h3, hr, Err.notNil]; rfl)
      | none =>
        cases hr : fsRead fs snapPath <;>
          (simp [Id.run, mkdirAll, openAppend, fileWrite, h1, h2, h3, hr, Err.notNil, oldContent, fileContent,
            fsRead_fsWrite_same, fsWrite_fsWrite]; rfl)

theorem addNewSnapshot_tied (fs : FS) (testID snapshot snapPath : Text) :
    addNewSnapshot IOFail.never fs testID snapshot snapPath =
      (fsWrite fs snapPath ((match fsRead fs snapPath with | some t => t | none => []) ++ frame ⟨testID, snapshot⟩),
        Err.nil) := by
  rw [addNewSnapshot_eq]; rfl

example : addNewSnapshot IOFail.never exFS [99] [122] exPath =
    ([([113], [1]), (exPath, exFile ++ [10,99,10,122,10,45,45,45,10])], Err.nil) := by
  rw [addNewSnapshot_tied]; decide
/-- a missing file is created -/
example : addNewSnapshot IOFail.never [] [99] [122] exPath = ([(exPath, [10,99,10,122,10,45,45,45,10])], Err.nil) := by
  rw [addNewSnapshot_tied]; decide

/-! ## updateSnapshot -/

/-- `updateL … true` (the model's "removeSnapshot in progress") is the scanner skip of
    `removeSnapshot` followed by the normal loop -/
theorem updateL_true (tid : Line) (body : Text) (ls : List Line) :
    updateL tid body true ls = updateL tid body false (skipL ls).rest := by
  induction ls with
  | nil => simp [updateL, skipL]
  | cons l ls ih =>
    by_cases h : l = endSeq
    · simp [updateL, skipL, h]
    · simp [updateL, skipL, h, ih]

theorem updateL_true_dropWhile (tid : Line) (body : Text) (ls : List Line) :
    updateL tid body true ls = updateL tid body false ((ls.dropWhile (· ≠ endSeq)).drop 1) := by
  rw [updateL_true, skipL_rest]

abbrev UpdSt := Text × Scanner

/-- the `for s.Scan()` loop of updateSnapshot, for any body `F` that behaves like the Go loop body
    on the three kinds of scanner state; any fuel larger than the number of tokens will do -/
theorem upd_loop (tid : Line) (body : Text) (F : Unit → UpdSt → Id (ForInStep UpdSt))
    (hnil : ∀ acc ok c, F () (acc, ({ ok := ok, cur := c, rest := [] } : Scanner)) =
      pure (ForInStep.done (acc, ({ ok := false, cur := [], rest := [] } : Scanner))))
    (hother : ∀ acc ok c l ls, l ≠ tid → F () (acc, ({ ok := ok, cur := c, rest := l :: ls } : Scanner)) =
      pure (ForInStep.yield (acc ++ l ++ [nl], ({ ok := true, cur := l, rest := ls } : Scanner))))
    (hhit : ∀ acc ok c ls, F () (acc, ({ ok := ok, cur := c, rest := tid :: ls } : Scanner)) =
      pure (ForInStep.yield (acc ++ tid ++ [nl] ++ body ++ [nl] ++ endSeq ++ [nl], skipL ls)))
    (n : Nat) : ∀ (rest : List Line) (acc : Text) (ok : Bool) (c : Line), rest.length < n →
    (forIn (m := Id) (List.replicate n ()) (acc, ({ ok := ok, cur := c, rest := rest } : Scanner)) F).1 =
      acc ++ updateL tid body false rest := by
  induction n with
  | zero => intro rest acc ok c h; omega
  | succ n ih =>
    intro rest acc ok c hlen
    rw [List.replicate_succ, List.forIn_cons]
    cases rest with
    | nil => simp [hnil, updateL]
    | cons l ls =>
      by_cases h : l = tid
      · subst h
        rw [hhit]
        simp only [pure_bind]
        have hl : (skipL ls).rest.length < n := by
          have := skipL_rest_length ls
          simp only [List.length_cons] at hlen
          omega
        have := ih (skipL ls).rest (acc ++ l ++ [nl] ++ body ++ [nl] ++ endSeq ++ [nl]) (skipL ls).ok (skipL ls).cur hl
        rw [this]
        simp [updateL, updateL_true]
      · rw [hother _ _ _ _ _ h]
        simp only [pure_bind]
        rw [ih ls _ true l (by simp only [List.length_cons] at hlen; omega)]
        simp [updateL, h]

theorem updateSnapshot_eq (io : IOFail) (fs : FS) (testID snapshot snapPath : Text) :
    updateSnapshot io fs testID snapshot snapPath =
      match io .openRDWR snapPath with
      | some m => (fs, Err.other m)
      | none =>
        match fsRead fs snapPath with
        | none => (fs, Err.other (enoent "open" snapPath))
        | some file =>
          match io .write snapPath with
          | some m => (fsWrite fs snapPath [], Err.other m)
          | none => (fsWrite fs snapPath (update testID snapshot file), Err.nil) := by
  have e : Generated.endSeq = Generated.go_endSequence := by decide
  unfold updateSnapshot
  cases h1 : io .openRDWR snapPath with
  | some m => simp [Id.run, openRDWR, h1, Err.notNil]; rfl
  | none =>
    cases hr : fsRead fs snapPath with
    | none => simp [Id.run, openRDWR, h1, hr, Err.notNil]; rfl
    | some file =>
      simp only [Id.run, openRDWR, h1, hr, Err.notNil, scanFile, Scanner.new, Scanner.fuel, Scanner.err, fileContent, bind, pure,
        Bool.false_eq_true, ↓reduceIte, ite_self]
      rw [upd_loop testID snapshot _ ?hnil ?hother ?hhit _ _ _ _ _ (Nat.lt_succ_self _)]
      · rw [overwriteFile_eq]
        simp only [fileAtEnd, List.nil_append, update]
        cases io .write snapPath <;> rfl
      case hnil => intro acc ok c; simp [Scanner.scan]; rfl
      case hother => intro acc ok c l ls h; simp [Scanner.scan, Scanner.bytes, h, nl]; rfl
      case hhit =>
        intro acc ok c ls
        simp [Scanner.scan, Scanner.bytes, removeSnapshot_eq, endSeq, e, nl]; rfl

theorem updateSnapshot_tied (fs : FS) (testID snapshot snapPath file : Text)
    (h : fsRead fs snapPath = some file) :
    updateSnapshot IOFail.never fs testID snapshot snapPath =
      (fsWrite fs snapPath (update testID snapshot file), Err.nil) := by
  rw [updateSnapshot_eq, h]; rfl

/-- entry `a` of the two-entry file gets the two-line body `z\nz`; entry `b` and the other file stay -/
example : updateSnapshot IOFail.never exFS [97] [122, 10, 122] exPath =
    ([([113], [1]), (exPath, [10,97,10,122,10,122,10,45,45,45,10, 10,98,10,121,10,45,45,45,10])], Err.nil) := by
  rw [updateSnapshot_tied exFS _ _ _ exFile (by decide)]; decide
/-- the same, by evaluating the transliteration -/
example : updateSnapshot IOFail.never exFS [98] [122] exPath =
    ([([113], [1]), (exPath, [10,97,10,120,10,45,45,45,10, 10,98,10,122,10,45,45,45,10])], Err.nil) := by
  decide

theorem updateSnapshot_missing (fs : FS) (testID snapshot snapPath : Text)
    (h : fsRead fs snapPath = none) :
    updateSnapshot IOFail.never fs testID snapshot snapPath = (fs, Err.other (enoent "open" snapPath)) := by
  rw [updateSnapshot_eq, h]; rfl

example : updateSnapshot IOFail.never exFS [97] [122] [114] = (exFS, Err.other (enoent "open" [114])) :=
  updateSnapshot_missing exFS _ _ _ (by decide)

/-- for every oracle: a missing file is an error and nothing is written -/
theorem updateSnapshot_missing_any (io : IOFail) (fs : FS) (testID snapshot snapPath : Text)
    (h : fsRead fs snapPath = none) :
    (updateSnapshot io fs testID snapshot snapPath).1 = fs ∧
      (updateSnapshot io fs testID snapshot snapPath).2.notNil = true := by
  rw [updateSnapshot_eq, h]
  cases io .openRDWR snapPath <;> simp [Err.notNil]

/-! ## standalone snapshots -/

theorem upsertStandaloneSnapshot_eq (io : IOFail) (fs : FS) (snapshot snapPath : Text) :
    upsertStandaloneSnapshot io fs snapshot snapPath =
      match io .mkdirAll (fpDir snapPath) with
      | some m => (fs, Err.other m)
      | none =>
        match io .writeFile snapPath with
        | some m => (fs, Err.other m)
        | none => (fsWrite fs snapPath snapshot, Err.nil) := by
  unfold upsertStandaloneSnapshot
  cases h1 : io .mkdirAll (fpDir snapPath) with
  | some m => simp [Id.run, mkdirAll, h1, Err.notNil]; rfl
  | none =>
    cases h2 : io .writeFile snapPath with
    | some m => simp [Id.run, mkdirAll, writeFile, h1, h2, Err.notNil]; rfl
    | none => simp [Id.run, mkdirAll, writeFile, h1, h2, Err.notNil]; rfl

theorem upsertStandaloneSnapshot_tied (fs : FS) (snapshot snapPath : Text) :
    upsertStandaloneSnapshot IOFail.never fs snapshot snapPath = (fsWrite fs snapPath snapshot, Err.nil) := by
  rw [upsertStandaloneSnapshot_eq]; rfl

example : upsertStandaloneSnapshot IOFail.never exFS [122] exPath = ([([113], [1]), (exPath, [122])], Err.nil) := by
  rw [upsertStandaloneSnapshot_tied]; decide

theorem getPrevStandaloneSnapshot_tied (fs : FS) (snapPath : Text) :
    getPrevStandaloneSnapshot IOFail.never fs snapPath =
      match fsRead fs snapPath with
      | some c => (c, Err.nil)
      | none => ([], Err.snapNotFound) := by
  unfold getPrevStandaloneSnapshot
  cases hr : fsRead fs snapPath <;> simp [Id.run, readFile, IOFail.never, hr, Err.notNil] <;> rfl

example : getPrevStandaloneSnapshot IOFail.never exFS exPath = (exFile, Err.nil) := by
  rw [getPrevStandaloneSnapshot_tied]; decide
example : getPrevStandaloneSnapshot IOFail.never exFS [114] = ([], Err.snapNotFound) := by
  rw [getPrevStandaloneSnapshot_tied]; decide

/-- for every oracle: any failure of the read is reported as "snapshot not found", a successful
    read returns the content -/
theorem getPrevStandaloneSnapshot_eq (io : IOFail) (fs : FS) (snapPath : Text) :
    getPrevStandaloneSnapshot io fs snapPath =
      match io .readFile snapPath, fsRead fs snapPath with
      | none, some c => (c, Err.nil)
      | _, _ => ([], Err.snapNotFound) := by
  unfold getPrevStandaloneSnapshot
  cases h1 : io .readFile snapPath <;> cases hr : fsRead fs snapPath <;>
    simp [Id.run, readFile, h1, hr, Err.notNil] <;> rfl

/-! ## failure branches, for every oracle -/

/-- a failed `addNewSnapshot` leaves the file system as it was, except that the `O_CREATE` of a
    missing file may already have happened (the file then exists and is empty): no byte of the
    entry is written -/
theorem addNewSnapshot_fail (io : IOFail) (fs : FS) (testID snapshot snapPath : Text)
    (h : (addNewSnapshot io fs testID snapshot snapPath).2.notNil = true) :
    (addNewSnapshot io fs testID snapshot snapPath).1 = fs ∨
      (fsRead fs snapPath = none ∧ (addNewSnapshot io fs testID snapshot snapPath).1 = fsWrite fs snapPath []) := by
  rw [addNewSnapshot_eq] at h ⊢
  revert h
  cases io .mkdirAll (fpDir snapPath) <;> cases io .openAppend snapPath <;> cases io .write snapPath <;>
    cases fsRead fs snapPath <;> simp [Err.notNil]

/-- both alternatives occur: nothing happened / the missing file was created empty -/
example : addNewSnapshot exIOW exFS [99] [122] exPath = (exFS, Err.other [33]) := by decide
example : addNewSnapshot exIOW [] [99] [122] exPath = ([(exPath, [])], Err.other [33]) := by decide
example : (addNewSnapshot exIOW [] [99] [122] exPath).1 = [] ∨
    (fsRead [] exPath = none ∧ (addNewSnapshot exIOW [] [99] [122] exPath).1 = fsWrite [] exPath []) :=
  addNewSnapshot_fail exIOW [] [99] [122] exPath (by decide)

/-- … in terms of reads: every path reads as before, except that the snapshot file, if it was
    missing, may now read as empty -/
theorem addNewSnapshot_fail_read (io : IOFail) (fs : FS) (testID snapshot snapPath : Text)
    (h : (addNewSnapshot io fs testID snapshot snapPath).2.notNil = true) (q : Text) :
    fsRead (addNewSnapshot io fs testID snapshot snapPath).1 q = fsRead fs q ∨
      (q = snapPath ∧ fsRead fs q = none ∧ fsRead (addNewSnapshot io fs testID snapshot snapPath).1 q = some []) := by
  rcases addNewSnapshot_fail io fs testID snapshot snapPath h with h' | ⟨hn, h'⟩
  · rw [h']; exact Or.inl rfl
  · rw [h']
    by_cases hq : q = snapPath
    · subst hq; exact Or.inr ⟨rfl, hn, fsRead_fsWrite_same _ _ _⟩
    · exact Or.inl (fsRead_fsWrite_other _ _ _ _ hq)

/-- success, for every oracle: the result is the one of `addNewSnapshot_tied` -/
theorem addNewSnapshot_ok (io : IOFail) (fs : FS) (testID snapshot snapPath : Text)
    (h : (addNewSnapshot io fs testID snapshot snapPath).2.notNil = false) :
    addNewSnapshot io fs testID snapshot snapPath =
      (fsWrite fs snapPath ((match fsRead fs snapPath with | some t => t | none => []) ++ frame ⟨testID, snapshot⟩),
        Err.nil) := by
  rw [addNewSnapshot_eq] at h ⊢
  revert h
  cases io .mkdirAll (fpDir snapPath) <;> cases io .openAppend snapPath <;> cases io .write snapPath <;>
    simp [Err.notNil, oldContent]

theorem addNewSnapshot_ok_iff (io : IOFail) (fs : FS) (testID snapshot snapPath : Text) :
    (addNewSnapshot io fs testID snapshot snapPath).2.notNil = false ↔
      (io .mkdirAll (fpDir snapPath) = none ∧ io .openAppend snapPath = none ∧ io .write snapPath = none) := by
  rw [addNewSnapshot_eq]
  cases io .mkdirAll (fpDir snapPath) <;> cases io .openAppend snapPath <;> cases io .write snapPath <;>
    simp [Err.notNil]

/-- a failed `updateSnapshot` either did nothing, or (the write after `Truncate(0)` failed) left
    the existing snapshot file EMPTY: all entries of that file are lost; other files are untouched -/
theorem updateSnapshot_fail (io : IOFail) (fs : FS) (testID snapshot snapPath : Text)
    (h : (updateSnapshot io fs testID snapshot snapPath).2.notNil = true) :
    (updateSnapshot io fs testID snapshot snapPath).1 = fs ∨
      ((fsRead fs snapPath).isSome = true ∧ io .openRDWR snapPath = none ∧ (io .write snapPath).isSome = true ∧
        (updateSnapshot io fs testID snapshot snapPath).1 = fsWrite fs snapPath []) := by
  rw [updateSnapshot_eq] at h ⊢
  revert h
  cases io .openRDWR snapPath <;> cases io .write snapPath <;> cases fsRead fs snapPath <;> simp [Err.notNil]

/-- the second alternative occurs: a failing write after `Truncate(0)` empties the snapshot file -/
example : updateSnapshot exIOW exFS [97] [122] exPath = ([([113], [1]), (exPath, [])], Err.other [33]) := by decide
example : (updateSnapshot exIOW exFS [97] [122] exPath).1 = exFS ∨
    ((fsRead exFS exPath).isSome = true ∧ exIOW .openRDWR exPath = none ∧ (exIOW .write exPath).isSome = true ∧
      (updateSnapshot exIOW exFS [97] [122] exPath).1 = fsWrite exFS exPath []) :=
  updateSnapshot_fail exIOW exFS [97] [122] exPath (by decide)

theorem updateSnapshot_fail_other (io : IOFail) (fs : FS) (testID snapshot snapPath : Text)
    (h : (updateSnapshot io fs testID snapshot snapPath).2.notNil = true) (q : Text) (hq : q ≠ snapPath) :
    fsRead (updateSnapshot io fs testID snapshot snapPath).1 q = fsRead fs q := by
  rcases updateSnapshot_fail io fs testID snapshot snapPath h with h' | ⟨_, _, _, h'⟩
  · rw [h']
  · rw [h']; exact fsRead_fsWrite_other _ _ _ _ hq

/-- success, for every oracle: the file existed and now holds the model's `update` -/
theorem updateSnapshot_ok (io : IOFail) (fs : FS) (testID snapshot snapPath : Text)
    (h : (updateSnapshot io fs testID snapshot snapPath).2.notNil = false) :
    ∃ file, fsRead fs snapPath = some file ∧
      updateSnapshot io fs testID snapshot snapPath = (fsWrite fs snapPath (update testID snapshot file), Err.nil) := by
  rw [updateSnapshot_eq] at h ⊢
  revert h
  cases io .openRDWR snapPath <;> cases io .write snapPath <;> cases fsRead fs snapPath <;> simp [Err.notNil]

/-- a failed `upsertStandaloneSnapshot` changes nothing -/
theorem upsertStandaloneSnapshot_fail (io : IOFail) (fs : FS) (snapshot snapPath : Text)
    (h : (upsertStandaloneSnapshot io fs snapshot snapPath).2.notNil = true) :
    (upsertStandaloneSnapshot io fs snapshot snapPath).1 = fs := by
  rw [upsertStandaloneSnapshot_eq] at h ⊢
  revert h
  cases io .mkdirAll (fpDir snapPath) <;> cases io .writeFile snapPath <;> simp [Err.notNil]

example : upsertStandaloneSnapshot exIOWF exFS [122] exPath = (exFS, Err.other [33]) := by decide
example : (upsertStandaloneSnapshot exIOWF exFS [122] exPath).1 = exFS :=
  upsertStandaloneSnapshot_fail exIOWF exFS [122] exPath (by decide)

theorem upsertStandaloneSnapshot_ok (io : IOFail) (fs : FS) (snapshot snapPath : Text)
    (h : (upsertStandaloneSnapshot io fs snapshot snapPath).2.notNil = false) :
    upsertStandaloneSnapshot io fs snapshot snapPath = (fsWrite fs snapPath snapshot, Err.nil) := by
  rw [upsertStandaloneSnapshot_eq] at h ⊢
  revert h
  cases io .mkdirAll (fpDir snapPath) <;> cases io .writeFile snapPath <;> simp [Err.notNil]

end GoSnaps.Tie
