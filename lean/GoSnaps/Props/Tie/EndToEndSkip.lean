/-
Tie by proof, part 14: processes in which some tests call `snaps.Skip` / `Skipf` / `SkipNow`, THEN `Clean` —
property C08 end to end, about the TRANSLITERATED code (`Generated.FuncsIO.Skip/Skipf/SkipNow`, the Match*
flows and test cleanups of `goStep`, `Generated.FuncsIO.Clean`).

`Tie/EndToEndClean.lean` and `Tie/EndToEndClean2.lean` are about `goRun`, whose histories have no skip step
(`Reached.noSkip`): nothing was proved there about skip-protected entries.  Here the history type is extended
(`SkipHist.SStep`: a step of `C01World.Step`, or a call of one of the three exported skip wrappers), WITHOUT
touching `Step` / `goStep` / `goRun`.

§1  `goSkip`, `goStepS`, `goRunS`: the extended run — skip steps are executed by the transliterated wrappers,
    all other steps by `goStep`.  `goRunS_map_run` / `goRunS_noSkip`: CONSERVATIVE over `goRun` (a history
    without skip steps gives the same state, every failure oracle).  `goRunS_frame`: for every failure oracle
    the skip list of the state reached is the start state's followed by the names of the skip steps, in order.
§2  the invariants lifted: a skip step changes only `st.skipped` and the test's event log
    (`goSkip_eq`), so `StRel` and `CleanInv` go through (`StRel.skip`, `CleanInv.skip`,
    `goStepS_cleanInv`, `goRunS_cleanInv`) against the model's `runS`; `ReachedS` (the `Reached` of
    `EndToEndClean`, with `st1.skipped = skipNames h`), `goRunS_reached`, `Clean_reachedS`,
    `ReachedS.supported`.  The world the model reaches is the world of the history WITHOUT the skip steps with
    the skip list set (`SkipHist.runS_world`), so `FileAfter` and `goRun_fileAfter` are used as they are, for
    `strip h` (`goRunS_fileAfter`).
§3  **C08.1** `go_skipped_survive_clean` (+ `_words`, `_any_mode`): entries of a test that called a skip wrapper
    and of its descendants survive `Clean` with their bodies and are not listed obsolete — every mode, sort on
    or off, any `-count`; together with the matched entries of C07.
§4  **C08.2** `go_skip_exact` (+ `go_sibling_reported`): exactness — `Clean` reports EXACTLY the entries that are
    neither registered nor protected; an entry of a test that merely shares a name prefix with skipped ones is
    reported, and removed in the deleting modes.
§5  **C08.3** `go_summary_counts_skips`: the number handed to the transliterated `summary` — printed as
    `⟳ N snapshot(s) skipped` — is the number of skip steps of the history.
§6  **`-run`** `go_survive_clean_run_filter_partial` (matched, skip-protected and pattern-does-not-match-the-id
    entries survive, for ARBITRARY `re` / `parseFile`), `go_exact_run_filter` (exactly what is reported), and what
    is false of the property's wording (D7, D8).
§7  concrete histories (non-vacuity), and finding D6 as a closed evaluation.
-/
import GoSnaps.Props.Tie.EndToEndClean2
import GoSnaps.Lemmas.EndToEndSkip
namespace GoSnaps.Tie
open GoSnaps GoSnaps.GoIO
open GoSnaps.Generated.FuncsIO
open GoSnaps.C06Refine GoSnaps.Wld GoSnaps.CleanWorld GoSnaps.SkipHist
open GoSnaps.C01World (Step Scoped calledNames texts entriesFrom entriesOf headers Inv)
open GoSnaps.C03 (testID)
open GoSnaps.Generated (Env shouldCreate shouldUpdate)

/-! ## 1. the extended run -/

/-- a skip step on the transliteration side: the exported wrapper the test calls, on its `testing.T` -/
def goSkip (io : IOFail) (st : St) (t : T) : SkipKind → St
  | .skip args => Generated.FuncsIO.Skip io st t args
  | .skipf format args => Generated.FuncsIO.Skipf io st t format args
  | .skipNow => Generated.FuncsIO.SkipNow io st t

/-- **one step of an extended history** (`none` = panic): a skip step is the transliterated
    `Skip` / `Skipf` / `SkipNow`, every other step is `goStep` -/
def goStepS (io : IOFail) (c : Cfg) (caller : Text) (st : St) : SStep → Option St
  | .run s => goStep io c caller st s
  | .skip t x k => some (goSkip io st ⟨t, x⟩ k)

/-- an extended history, step by step; a panic ends the run -/
def goRunS (io : IOFail) (c : Cfg) (caller : Text) : St → List SStep → Option St
  | st, [] => some st
  | st, s :: h => (goStepS io c caller st s).bind fun st' => goRunS io c caller st' h

/-- **what a skip wrapper does**, whichever it is and whatever the failure oracle: the name is appended to
    `skippedTests.values`, the log line and `testing`'s skip are reported to the test; NOTHING else changes -/
theorem goSkip_eq (io : IOFail) (st : St) (t : T) (k : SkipKind) :
    goSkip io st t k = { st with skipped := st.skipped ++ [t.name], tev := st.tev ++ skipEvents k } := by
  cases k with
  | skip args => simp only [goSkip, Skip_tied, skipEvents]
  | skipf format args => simp only [goSkip, Skipf_tied, skipEvents]
  | skipNow => simp only [goSkip, SkipNow_tied, skipEvents]

/-- **conservative over `goRun`, 1**: a history of `Step`s, injected, runs as `goRun` runs it -/
theorem goRunS_map_run (io : IOFail) (c : Cfg) (caller : Text) (h : List Step) : ∀ st : St,
    goRunS io c caller st (h.map SStep.run) = goRun io c caller st h := by
  induction h with
  | nil => intro st; rfl
  | cons s h ih =>
    intro st
    simp only [List.map_cons, goRunS, goStepS, goRun]
    cases goStep io c caller st s with
    | none => rfl
    | some st' => simp only [Option.bind_some]; exact ih st'

/-- **conservative over `goRun`, 2**: an extended history WITHOUT skip steps gives the state `goRun` gives
    for its steps — for every failure oracle, from every state -/
theorem goRunS_noSkip (io : IOFail) (c : Cfg) (caller : Text) (h : List SStep) (hno : skipNames h = []) :
    ∀ st : St, goRunS io c caller st h = goRun io c caller st (strip h) := by
  induction h with
  | nil => intro st; rfl
  | cons s h ih =>
    intro st
    cases s with
    | run s =>
      simp only [goRunS, goStepS, strip, goRun]
      cases goStep io c caller st s with
      | none => rfl
      | some st' => simp only [Option.bind_some]; exact ih (by simpa [skipNames] using hno) st'
    | skip t x k => simp [skipNames] at hno

theorem goRunS_append (io : IOFail) (c : Cfg) (caller : Text) (h1 h2 : List SStep) : ∀ st : St,
    goRunS io c caller st (h1 ++ h2) =
      (goRunS io c caller st h1).bind fun st' => goRunS io c caller st' h2 := by
  induction h1 with
  | nil => intro st; rfl
  | cons s h1 ih =>
    intro st
    simp only [List.cons_append, goRunS]
    cases goStepS io c caller st s with
    | none => rfl
    | some st' => simp only [Option.bind_some]; exact ih st'

/-- what one step of an extended history does to the environment, `stdout` and the skip list, for EVERY
    failure oracle -/
theorem goStepS_frame (io : IOFail) (c : Cfg) (caller : Text) (st st' : St) (s : SStep)
    (e : goStepS io c caller st s = some st') :
    st'.env = st.env ∧ st'.stdout = st.stdout ∧ st'.skipped = st.skipped ++ skipNames [s] := by
  cases s with
  | run s =>
    obtain ⟨a, b, d⟩ := goStep_frame io c caller st st' s e
    exact ⟨a, d, by simp [skipNames, b]⟩
  | skip t x k =>
    simp only [goStepS, Option.some.injEq] at e
    subst e
    rw [goSkip_eq]
    exact ⟨rfl, rfl, rfl⟩

/-- **the skip list after ANY run, every failure oracle**: the names of the skip steps, in the order of the
    calls, with repetitions, appended to what was there — no Match* flow and no test cleanup touches it -/
theorem goRunS_frame (io : IOFail) (c : Cfg) (caller : Text) (h : List SStep) : ∀ (st st' : St),
    goRunS io c caller st h = some st' →
    st'.env = st.env ∧ st'.stdout = st.stdout ∧ st'.skipped = st.skipped ++ skipNames h := by
  induction h with
  | nil => intro st st' e; cases e; exact ⟨rfl, rfl, by simp [skipNames]⟩
  | cons s h ih =>
    intro st st' e
    cases h1 : goStepS io c caller st s with
    | none => rw [goRunS, h1] at e; cases e
    | some s1 =>
      rw [goRunS, h1] at e
      obtain ⟨a1, a2, a3⟩ := goStepS_frame io c caller st s1 s h1
      obtain ⟨b1, b2, b3⟩ := ih s1 st' e
      refine ⟨b1.trans a1, b2.trans a2, ?_⟩
      rw [b3, a3, List.append_assoc, ← skipNames_append]
      rfl

/-! ## 2. the invariants, lifted -/

/-- a skip step keeps the simulation relation: the model's step is `trackSkip` -/
theorem StRel.skip {st : St} {w : World} (h : StRel st w) (io : IOFail) (t : T) (k : SkipKind) :
    StRel (goSkip io st t k) (trackSkip w t.name) := by
  rw [goSkip_eq]
  exact ⟨h.env, h.fs, h.reg, h.sreg, h.erred, h.added, h.updated, h.passed,
    by show st.skipped ++ [t.name] = w.skipped ++ [t.name]; rw [h.skipped], h.pending, h.resetOK⟩

/-- … and what `CleanRel` asks beyond it -/
theorem CleanInv.skip {st : St} {w : World} (hi : CleanInv st w) (io : IOFail) (t : T) (k : SkipKind) :
    CleanInv (goSkip io st t k) (trackSkip w t.name) := by
  rw [goSkip_eq]
  exact hi.frame rfl rfl rfl rfl rfl

/-- **one step**: `goStep_cleanInv` for extended histories, against the model's `stepS` -/
theorem goStepS_cleanInv {st : St} {w : World} (h : StRel st w) (hi : CleanInv st w) (c : Cfg) (caller : Text)
    (s : SStep) (hok : HistOK (strip [s]))
    (hs : ∀ o ∈ (stepS c caller w s).2, o.unsupported = none) :
    ∃ st', goStepS IOFail.never c caller st s = some st' ∧ StRel st' (stepS c caller w s).1 ∧
      CleanInv st' (stepS c caller w s).1 ∧
      st'.tev = st.tev ++ ((stepS c caller w s).2.map (·.events)).flatten := by
  cases s with
  | run s => exact goStep_cleanInv h hi c caller s (hok s (by simp [strip])) hs
  | skip t x k =>
    refine ⟨goSkip IOFail.never st ⟨t, x⟩ k, rfl, h.skip _ _ _, hi.skip _ _ _, ?_⟩
    rw [goSkip_eq]
    simp [stepS]

/-- **extended histories**: under `IOFail.never`, from related states, whenever the model covers every call,
    `goRunS` does not panic, ends in a state related (`StRel`, `CleanInv`) to the world the model's `runS` ends
    in, and has reported to the `testing.T`s exactly the events of the model's outputs, in order — the skip
    wrappers' log line and skip included -/
theorem goRunS_cleanInv (c : Cfg) (caller : Text) (h : List SStep) : ∀ {st : St} {w : World}, StRel st w →
    CleanInv st w → HistOK (strip h) → (∀ o ∈ (runS c caller w h).2, o.unsupported = none) →
    ∃ st', goRunS IOFail.never c caller st h = some st' ∧ StRel st' (runS c caller w h).1 ∧
      CleanInv st' (runS c caller w h).1 ∧
      st'.tev = st.tev ++ ((runS c caller w h).2.map (·.events)).flatten := by
  induction h with
  | nil => intro st w hr hi _ _; exact ⟨st, rfl, hr, hi, by simp [runS]⟩
  | cons s h ih =>
    intro st w hr hi hok hs
    simp only [runS] at hs ⊢
    have hok1 : HistOK (strip [s]) := fun s' hs' => hok s' (by
      rw [show s :: h = [s] ++ h from rfl, strip_append]; exact List.mem_append_left _ hs')
    have hok2 : HistOK (strip h) := fun s' hs' => hok s' (by
      rw [show s :: h = [s] ++ h from rfl, strip_append]; exact List.mem_append_right _ hs')
    obtain ⟨s1, e1, r1, i1, t1⟩ := goStepS_cleanInv hr hi c caller s hok1
      (fun o ho => hs o (List.mem_append.mpr (Or.inl ho)))
    obtain ⟨s2, e2, r2, i2, t2⟩ := ih r1 i1 hok2 (fun o ho => hs o (List.mem_append.mpr (Or.inr ho)))
    refine ⟨s2, ?_, r2, i2, ?_⟩
    · simp only [goRunS, e1, Option.bind_some]; exact e2
    · rw [t2, t1]; simp

/-- the model covers every call of every extended history on one snapshot file -/
theorem runS_supported (c : Cfg) (caller p rel : Text)
    (hsp : ∀ t, snapshotPath c caller t false = (p, some rel)) (h : List SStep) :
    ∀ w : World, ∀ o ∈ (runS c caller w h).2, o.unsupported = none := by
  induction h with
  | nil => intro w o ho; simp [runS] at ho
  | cons s h ih =>
    intro w o ho
    simp only [runS] at ho
    rcases List.mem_append.mp ho with ho | ho
    · cases s with
      | run s =>
        exact run_supported c caller p rel hsp [s] w o (by simpa [C01World.run, stepS] using ho)
      | skip t x k =>
        simp only [stepS, List.mem_singleton] at ho
        subst ho; rfl
    · exact ih _ o ho

/-- the world the model reaches from a fresh process: the world of the history WITHOUT its skip steps, with
    the names of the skip steps as skip list (`SkipHist.runS_world`) -/
abbrev worldS (env : Env) (fs₀ : FS) (c : Cfg) (caller : Text) (h : List SStep) : World :=
  { (C01World.run c caller { env := env, fs := fs₀ } (strip h)).1 with skipped := skipNames h }

theorem runS_fresh (env : Env) (fs₀ : FS) (c : Cfg) (caller : Text) (h : List SStep) :
    (runS c caller { env := env, fs := fs₀ } h).1 = worldS env fs₀ c caller h := by
  rw [runS_world]
  simp

/-- **the states `goRunS` reaches** from a fresh process whose Match* calls all address the snapshot file `p`
    (`Reached` of `Tie/EndToEndClean.lean`, with skip steps): the run does not panic; the state is in `StRel`
    and `CleanRel` with `worldS`; the registry is that of the history without the skip steps (`RegInv`,
    `RegExact`); the skip list is `skipNames h` -/
structure ReachedS (env : Env) (fs₀ : FS) (c : Cfg) (caller p : Text) (h : List SStep) (st1 : St) : Prop where
  run : goRunS IOFail.never c caller (freshSt env fs₀) h = some st1
  rel : StRel st1 (worldS env fs₀ c caller h)
  crel : CleanRel st1 (worldS env fs₀ c caller h)
  reg : RegInv p (C01World.run c caller { env := env, fs := fs₀ } (strip h)).1 (calledNames (strip h)).reverse
  regExact : RegExact (C01World.run c caller { env := env, fs := fs₀ } (strip h)).1
    (calledNames (strip h)).reverse
  tev : st1.tev = ((runS c caller { env := env, fs := fs₀ } h).2.map (·.events)).flatten
  skipped : st1.skipped = skipNames h
  stdout : st1.stdout = []
  env : st1.env = env

/-- **`goRunS` maintains everything the `Clean` ties ask of the state** -/
theorem goRunS_reached (env : Env) (fs₀ : FS) (c : Cfg) (caller p rel : Text) (h : List SStep)
    (hsp : ∀ t, snapshotPath c caller t false = (p, some rel)) (hok : HistOK (strip h)) :
    ∃ st1, ReachedS env fs₀ c caller p h st1 := by
  obtain ⟨st1, e, r, i, t⟩ := goRunS_cleanInv c caller h (StRel_init env fs₀) (CleanInv_init env fs₀) hok
    (runS_supported c caller p rel hsp h _)
  rw [runS_fresh] at r i
  have hreg := run_regInv c caller p (fun t => by rw [hsp t]) (strip h) _ [] (RegInv.fresh p env fs₀)
  rw [List.append_nil] at hreg
  have hex := run_regExact c caller (strip h) { env := env, fs := fs₀ } []
    ⟨List.nodup_nil, fun _ hkv => by cases hkv⟩
  rw [List.append_nil] at hex
  obtain ⟨f1, f2, f3⟩ := goRunS_frame _ _ _ _ _ _ e
  exact ⟨st1, e, r, CleanRel_of r i, hreg, hex, by simpa using t, by simpa using f3, f2, f1⟩

/-- the file system after the extended run is the one `goRun` leaves for the history without the skip steps -/
theorem ReachedS.fs_eq {env : Env} {fs₀ : FS} {c : Cfg} {caller p : Text} {h : List SStep} {st1 st0 : St}
    (hr : ReachedS env fs₀ c caller p h st1) (h0 : Reached env fs₀ c caller p (strip h) st0) :
    st1.fs = st0.fs := by
  rw [hr.rel.fs, h0.rel.fs]

theorem ReachedS.wenv {env : Env} {fs₀ : FS} {c : Cfg} {caller p : Text} {h : List SStep} {st1 : St}
    (hr : ReachedS env fs₀ c caller p h st1) : (worldS env fs₀ c caller h).env = env := by
  rw [← hr.rel.env, hr.env]

/-- **the composition**: the transliterated `Clean`, called in a state reached by `goRunS`, is the model's
    `clean` of `worldS` (hypotheses as in `Clean_reached`) -/
theorem Clean_reachedS {env : Env} {fs₀ : FS} {c : Cfg} {caller p : Text} {h : List SStep} {st1 : St}
    (hr : ReachedS env fs₀ c caller p h st1)
    (parseFile : Text → List GoDecl × Err) (re : Text → Text → Bool × Bool) (cnt : Nat) (err : Err)
    (opts : List Bool) (hcnt : cnt > 0) (hre : ∀ s, (re [] s).1 = true)
    (hj : (Generated.shouldClean env && !env.isCI) = true → JoinFaithful (fpDir p))
    (hsup : (GoSnaps.clean {} (worldS env fs₀ c caller h) (opts.head?.getD false) [] cnt).2.unsupported = none) :
    Generated.FuncsIO.Clean IOFail.never st1 parseFile re [] ((cnt : Int), err) () opts =
      some { st1 with
        fs := (GoSnaps.clean {} (worldS env fs₀ c caller h) (opts.head?.getD false) [] cnt).1.fs,
        stdout := st1.stdout ++
          (GoSnaps.clean {} (worldS env fs₀ c caller h) (opts.head?.getD false) [] cnt).2.stdout } :=
  Clean_oneFile hr.crel p hr.reg.keys hr.reg.sclean parseFile re cnt err opts hcnt hre
    (fun hu => hj (by unfold cleanUpd at hu; rw [hr.env] at hu; exact hu)) hsup

/-- **`hsup` discharged** as in `Reached.supported`: whatever the skip list is -/
theorem ReachedS.supported {env : Env} {fs₀ : FS} {c : Cfg} {caller p : Text} {h : List SStep} {st1 : St}
    (hr : ReachedS env fs₀ c caller p h st1) (sortOpt : Bool) (cnt : Nat) (hcnt : cnt > 0) (es : List Entry)
    (hfa : FileAfter st1.fs p es (strip h) sortOpt) :
    (GoSnaps.clean {} (worldS env fs₀ c caller h) sortOpt [] cnt).2.unsupported = none := by
  refine clean_supported_noRun {} _ sortOpt cnt p es hcnt hr.reg.keys hr.reg.sclean hfa.clean
    (hr.rel.fs ▸ hfa.holds) ?_ hfa.total
  intro hne
  rw [← hr.rel.fs]
  apply hfa.exist
  intro hn
  exact hne (run_cleanup_of_no_calls c caller (strip h) hn _)

/-- **the file after ANY extended run** (`goRun_fileAfter`, for `strip h`: the skip wrappers do not touch the
    file system) -/
theorem goRunS_fileAfter (env : Env) (fs₀ : FS) (c : Cfg) (caller p rel : Text) (es₀ : List Entry)
    (h : List SStep)
    (hsp : ∀ t, snapshotPath c caller t false = (p, some rel))
    (hfile : Holds fs₀ p es₀) (hgood : Good es₀)
    (hns : NoShadowAll es₀ (calledNames (strip h)) (texts (strip h)))
    (hrec₀ : ∀ e ∈ es₀, Recognised e)
    (htest : ∀ t ∈ calledNames (strip h), (32 : Byte) ∉ t)
    (hce : fsRead fs₀ p ≠ none ∨ shouldCreate env c.update = true) :
    ∃ st1 es, goRunS IOFail.never c caller (freshSt env fs₀) h = some st1 ∧
      FileInv es₀ (calledNames (strip h)) (texts (strip h)) es ∧
      ∀ sortOpt, (sortOpt = true → TotalOn (es.map tidOf)) → FileAfter st1.fs p es (strip h) sortOpt := by
  obtain ⟨st0, es, e0, hinv, hfa⟩ := goRun_fileAfter env fs₀ c caller p rel es₀ (strip h) hsp hfile hgood hns
    hrec₀ htest hce
  have hok := HistOK_of_bodies (strip h) hns.bodies
  obtain ⟨st1, hr⟩ := goRunS_reached env fs₀ c caller p rel h hsp hok
  obtain ⟨st0', h0⟩ := goRun_reached env fs₀ c caller p rel (strip h) hsp hok
  have : st0' = st0 := by
    have := h0.run; rw [e0] at this; exact (Option.some.inj this).symm
  subst this
  exact ⟨st1, es, hr.run, hinv, fun sortOpt hto => by rw [hr.fs_eq h0]; exact hfa sortOpt hto⟩

/-! ## 3. C08.1: skip-protected entries survive `Clean`

Setting of every theorem below (as in §5 of `Tie/EndToEndClean.lean`): a fresh test process over ANY file
system `fs₀`, in ANY environment `env`; all Match* calls of the extended history `h` are made under one Config
from one test file, hence address one snapshot file `p` (`hsp`); `IOFail.never`; `Clean` without a `-run`
filter (§6: with one).  Some tests call `snaps.Skip` / `Skipf` / `SkipNow` — at any point, any number of times,
before or after Match* calls of the same test, parents and children alike.

The file that is protected is `p`.  A snapshot file `q ≠ p` that NO step addresses is outside every theorem
here, and rightly so — finding D6: a skipped test does not register its file, so when another file of the same
directory is registered, `q` is an obsolete FILE and is deleted with every entry in it, skip-protected or not
(`E2ES.d6_unaddressed_file_deleted`: a closed run).  When no Match* call is made at all, `Clean` knows no
directory and touches nothing: the theorems hold for such histories too (`E2ES.skip_only`). -/

/-- **C08.1, end to end: skip-protected entries — and matched ones — survive `Clean`.**

Run the extended history `h` with the transliterated flows and skip wrappers, then the transliterated `Clean`
with `-count = cnt`, any sort option, in whatever mode `env` says (report, clean, CI).  Neither panics.  The
skip list `Clean` reads is `skipNames h`.  Let the snapshot file hold, after the run, the well-formed entry
list `es` (`FileAfter`, for the Match* steps `strip h`), and let `must` be entries of it each of which is
* matched: `[t - k]` with `1 ≤ k ≤ (calls of t) / cnt` (C07), or
* skip-protected: `C08.Protected (skipNames h) (tidOf e)` — the test-name part of its id is the name `N` of a
  skip step or starts with `N/` (`protected_self`, `protected_descendant`: every `[N - k]` and every
  `[N/sub… - k]`, names without a space).
Then after `Clean` no id of `must` is in the printed obsolete list, and the file `p` holds a well-formed entry
list `es'` made of entries of `es` that contains every entry of `must` — same header, same body. -/
theorem go_skipped_survive_clean (env : Env) (fs₀ : FS) (c : Cfg) (caller p rel : Text) (h : List SStep)
    (parseFile : Text → List GoDecl × Err) (re : Text → Text → Bool × Bool) (cnt : Nat) (err : Err)
    (opts : List Bool)
    (hsp : ∀ t, snapshotPath c caller t false = (p, some rel)) (hok : HistOK (strip h)) (hcnt : cnt > 0)
    (hre : ∀ s, (re [] s).1 = true)
    (hj : (Generated.shouldClean env && !env.isCI) = true → JoinFaithful (fpDir p)) :
    ∃ st1, goRunS IOFail.never c caller (freshSt env fs₀) h = some st1 ∧ st1.skipped = skipNames h ∧
    ∀ es, FileAfter st1.fs p es (strip h) (opts.head?.getD false) →
    ∃ (fs2 : FS) (obsFiles obsTests : List Text),
      Generated.FuncsIO.Clean IOFail.never st1 parseFile re [] ((cnt : Int), err) () opts =
        some { st1 with fs := fs2, stdout := st1.stdout ++ summaryLine (Generated.FuncsIO.summary obsFiles
          obsTests (GoSem.len st1.skipped) st1.events (cleanUpd st1)) } ∧
      ∀ must : List Entry, (∀ e ∈ must, e ∈ es) →
        (∀ e ∈ must,
          (∃ t k, e.id = testID t k ∧ 1 ≤ k ∧ k ≤ (calledNames (strip h)).count t / cnt) ∨
          C08.Protected (skipNames h) (tidOf e)) →
        (∀ e ∈ must, tidOf e ∉ obsTests) ∧
        ∃ es', Holds fs2 p es' ∧ CleanFile es' ∧ (∀ e ∈ must, e ∈ es') ∧ (∀ e ∈ es', e ∈ es) := by
  obtain ⟨st1, hr⟩ := goRunS_reached env fs₀ c caller p rel h hsp hok
  refine ⟨st1, hr.run, hr.skipped, fun es hfa => ?_⟩
  have hsup := hr.supported (opts.head?.getD false) cnt hcnt es hfa
  have hclean := Clean_reachedS hr parseFile re cnt err opts hcnt hre hj hsup
  obtain ⟨sa, fr, obsT, fs, wr, crun⟩ := clean_supported {} _ _ [] cnt hsup
  refine ⟨fs, fr.obsolete, obsT, ?_, ?_⟩
  · rw [hclean, crun.result, cleanStdout_go hr.crel]
  · intro must hall hcov
    have hcov' : ∀ e ∈ must,
        (∃ t k n, e.id = testID t k ∧ 1 ≤ k ∧ k ≤ n / cnt ∧
          ((p, t), n) ∈ (worldS env fs₀ c caller h).cleanup) ∨
        C08.Protected (worldS env fs₀ c caller h).skipped (tidOf e) := by
      intro e he
      rcases hcov e he with ⟨t, k, hid, hk1, hk2⟩ | hp
      · have hpos : 0 < (calledNames (strip h)).count t := by
          rcases Nat.eq_zero_or_pos ((calledNames (strip h)).count t) with h0 | h0
          · rw [h0, Nat.zero_div] at hk2; omega
          · exact h0
        have hm := hr.reg.mem t (List.mem_reverse.mpr (List.count_pos_iff.mp hpos))
        rw [List.count_reverse] at hm
        exact Or.inl ⟨t, k, _, hid, hk1, hk2, hm⟩
      · exact Or.inr hp
    obtain ⟨_, k2, ⟨es', e1, e2, e3, e4⟩, _⟩ := clean_keeps_kept {} (worldS env fs₀ c caller h) _ cnt p es must hr.reg.keys
      hr.reg.sclean hcov' hfa.clean (hr.rel.fs ▸ hfa.holds) hall sa fr obsT fs wr crun
    exact ⟨k2, es', e2, e1, e3, e4⟩

/-- **C08.1 in the words of the property.**  Setting of `go_skipped_survive_clean`.  If test `N` (no space in
    the name) called a skip wrapper somewhere in the history, then EVERY entry `[N - k]` and EVERY entry
    `[N/sub - k]` of a descendant (`sub` may itself contain `/`: any depth) that is in the snapshot file
    before `Clean` is not listed obsolete and is in the file afterwards — header and body — in every mode, sort
    on or off, any `-count`.  One `es'` serves all of them; it is well-formed and made of entries of `es`. -/
theorem go_skipped_survive_clean_words (env : Env) (fs₀ : FS) (c : Cfg) (caller p rel : Text) (h : List SStep)
    (parseFile : Text → List GoDecl × Err) (re : Text → Text → Bool × Bool) (cnt : Nat) (err : Err)
    (opts : List Bool)
    (hsp : ∀ t, snapshotPath c caller t false = (p, some rel)) (hok : HistOK (strip h)) (hcnt : cnt > 0)
    (hre : ∀ s, (re [] s).1 = true)
    (hj : (Generated.shouldClean env && !env.isCI) = true → JoinFaithful (fpDir p)) :
    ∃ st1, goRunS IOFail.never c caller (freshSt env fs₀) h = some st1 ∧
    ∀ es, FileAfter st1.fs p es (strip h) (opts.head?.getD false) →
    ∃ (fs2 : FS) (obsFiles obsTests : List Text) (es' : List Entry),
      Generated.FuncsIO.Clean IOFail.never st1 parseFile re [] ((cnt : Int), err) () opts =
        some { st1 with fs := fs2, stdout := st1.stdout ++ summaryLine (Generated.FuncsIO.summary obsFiles
          obsTests (GoSem.len st1.skipped) st1.events (cleanUpd st1)) } ∧
      Holds fs2 p es' ∧ CleanFile es' ∧ (∀ e ∈ es', e ∈ es) ∧
      ∀ N ∈ skipNames h, (32 : Byte) ∉ N → ∀ e ∈ es, ∀ k,
        (e.id = testID N k ∨ ∃ sub, (32 : Byte) ∉ sub ∧ e.id = testID (N ++ slash :: sub) k) →
        tidOf e ∉ obsTests ∧ e ∈ es' := by
  obtain ⟨st1, e1, _, hmain⟩ := go_skipped_survive_clean env fs₀ c caller p rel h parseFile re cnt err opts hsp
    hok hcnt hre hj
  refine ⟨st1, e1, fun es hfa => ?_⟩
  obtain ⟨fs2, oF, oT, hc, hk⟩ := hmain es hfa
  obtain ⟨k1, es', k2, k3, k4, k5⟩ := hk (es.filter (fun e => skipListed (skipNames h) (tidOf e)))
    (fun e he => (List.mem_filter.mp he).1)
    (fun e he => Or.inr ((C08.skipListed_iff _ _).mp (List.mem_filter.mp he).2))
  refine ⟨fs2, oF, oT, es', hc, k2, k3, k5, fun N hN hsp' e he k hid => ?_⟩
  have hp : C08.Protected (skipNames h) (tidOf e) := by
    rcases hid with hid | ⟨sub, hs, hid⟩
    · exact protected_self _ hN hid hsp'
    · exact protected_descendant _ hN hid hsp' hs
  have hm : e ∈ es.filter (fun e => skipListed (skipNames h) (tidOf e)) :=
    List.mem_filter.mpr ⟨he, (C08.skipListed_iff _ _).mpr hp⟩
  exact ⟨k1 e hm, k4 e hm⟩

/-- **C08.1, ANY mix of modes in the run** (`FileAfter` discharged from hypotheses on the INPUTS as in
    `goRun_fileAfter`: `Good` initial file with recognised headers, NoShadow, names of the CALLED tests without
    a space, the file exists or creation is allowed).  The skipped tests need not make any call. -/
theorem go_skipped_survive_clean_any_mode (env : Env) (fs₀ : FS) (c : Cfg) (caller p rel : Text)
    (es₀ : List Entry) (h : List SStep)
    (parseFile : Text → List GoDecl × Err) (re : Text → Text → Bool × Bool) (cnt : Nat) (err : Err)
    (opts : List Bool)
    (hsp : ∀ t, snapshotPath c caller t false = (p, some rel))
    (hfile : Holds fs₀ p es₀) (hgood : Good es₀)
    (hns : NoShadowAll es₀ (calledNames (strip h)) (texts (strip h)))
    (hrec₀ : ∀ e ∈ es₀, Recognised e)
    (htest : ∀ t ∈ calledNames (strip h), (32 : Byte) ∉ t)
    (hce : fsRead fs₀ p ≠ none ∨ shouldCreate env c.update = true)
    (hcnt : cnt > 0) (hre : ∀ s, (re [] s).1 = true)
    (hj : (Generated.shouldClean env && !env.isCI) = true → JoinFaithful (fpDir p)) :
    ∃ st1 es, goRunS IOFail.never c caller (freshSt env fs₀) h = some st1 ∧
      Holds st1.fs p es ∧ CleanFile es ∧ FileInv es₀ (calledNames (strip h)) (texts (strip h)) es ∧
      ((opts.head?.getD false = true → TotalOn (es.map tidOf)) →
      ∃ (fs2 : FS) (obsFiles obsTests : List Text) (es' : List Entry),
        Generated.FuncsIO.Clean IOFail.never st1 parseFile re [] ((cnt : Int), err) () opts =
          some { st1 with fs := fs2, stdout := st1.stdout ++ summaryLine (Generated.FuncsIO.summary obsFiles
            obsTests (GoSem.len st1.skipped) st1.events (cleanUpd st1)) } ∧
        Holds fs2 p es' ∧ CleanFile es' ∧ (∀ e ∈ es', e ∈ es) ∧
        ∀ N ∈ skipNames h, (32 : Byte) ∉ N → ∀ e ∈ es, ∀ k,
          (e.id = testID N k ∨ ∃ sub, (32 : Byte) ∉ sub ∧ e.id = testID (N ++ slash :: sub) k) →
          tidOf e ∉ obsTests ∧ e ∈ es') := by
  obtain ⟨st1, es, e1, hinv, hfa⟩ := goRunS_fileAfter env fs₀ c caller p rel es₀ h hsp hfile hgood hns hrec₀
    htest hce
  obtain ⟨st1', e1', hmain⟩ := go_skipped_survive_clean_words env fs₀ c caller p rel h parseFile re cnt err opts
    hsp (HistOK_of_bodies _ hns.bodies) hcnt hre hj
  rw [e1] at e1'; cases e1'
  have hf0 := hfa false (fun hh => by cases hh)
  exact ⟨st1, es, e1, hf0.holds, hf0.clean, hinv, fun hto => hmain es (hfa _ hto)⟩

/-! ## 4. C08.2: exactness — what is neither registered nor protected IS reported -/

/-- with a skip list, "kept" is "registered or skip-listed" -/
theorem keptId_skip (registered sk : List Text) :
    keptId {} registered sk [] = fun tid => registered.contains tid || skipListed sk tid := by
  funext tid
  exact keptId_noRun {} registered sk tid

/-- **the model's `clean` on one examined snapshot file, with ANY skip list** (the model-level core of
    `go_stale_reported`, which is the case `w1.skipped = []`): a world whose registry knows only the file `p`
    (`RegInv`, `RegExact` for the calls `seen`, at least one), `p` is `dir/name` and is not a directory, it
    holds the `CleanFile` `es`.  A supported `clean` without a `-run` filter reports EXACTLY the entries that are
    neither registered nor skip-listed, leaves a permutation of the others (of all, unless deleting), reports
    exactly the other `.snap` files of the directory and removes them iff deleting. -/
theorem clean_exact_skip (w1 : World) (p : Text) (sortOpt : Bool) (cnt : Nat) (es : List Entry)
    (seen : List Text) (hri : RegInv p w1 seen) (hrx : RegExact w1 seen) (hne : w1.cleanup ≠ [])
    (hjf : JoinFaithful (fpDir p)) (hin : InDir p) (hnotdir : NotDir w1.fs p)
    (hf : CleanFile es) (hread1 : fsRead w1.fs p = some (render es))
    (fr : FilesResult) (obsT : List Text) (fs2 : FS) (wr : List Text)
    (crun : CleanRun {} w1 sortOpt [] cnt [] fr obsT fs2 wr) :
    ∃ registered : List Text,
      (∀ tid, tid ∈ registered ↔ SlotId seen cnt tid) ∧
      obsT = (es.filter (fun e =>
        !(registered.contains (tidOf e) || skipListed w1.skipped (tidOf e)))).map tidOf ∧
      (∃ es', fsRead fs2 p = some (render es') ∧ CleanFile es' ∧
        es'.Perm (es.filter (fun e =>
          (registered.contains (tidOf e) || skipListed w1.skipped (tidOf e)) || !deleting w1.env))) ∧
      (∀ q, q ∈ fr.obsolete ↔ ∃ name, SimpleName name ∧ (name, false) ∈ GoSnaps.readDir w1.fs (fpDir p) ∧
        q = dirPrefix (fpDir p) ++ name ∧ q ≠ p) ∧
      (∀ q ∈ fr.obsolete, fsRead fs2 q = if deleting w1.env then none else fsRead w1.fs q) ∧
      (∀ q, q ≠ p → q ∉ fr.obsolete → fsRead fs2 q = fsRead w1.fs q) := by
  have hkeys := hri.keys
  obtain ⟨registered, hreg⟩ : ∃ r, registeredFor w1.cleanup p cnt = some r :=
    occurrences_snapshot_total _ cnt
  have hslots := registered_iff_slot w1 p seen cnt registered hri hrx hreg
  have hupdF : Generated.cleanFilesUpdate w1.env sortOpt = deleting w1.env := by
    unfold Generated.cleanFilesUpdate; rfl
  have hupdS : Generated.cleanSnapsUpdate w1.env sortOpt = deleting w1.env := by
    unfold Generated.cleanSnapsUpdate; rfl
  -- the first stage in closed form
  have hfiles := crun.files
  rw [cleanRegPaths_single w1 p hne hkeys, examineFiles_one, hupdF] at hfiles
  simp only [Option.some.injEq] at hfiles
  -- the listing names `p`
  obtain ⟨name, hs, hp⟩ := hin
  have hex : fsRead w1.fs p ≠ none := by rw [hread1]; simp
  have hlist : (name, false) ∈ GoSnaps.readDir w1.fs (fpDir p) :=
    readDir_lists_file w1.fs (fpDir p) name hs.1 hs.2.1 (hp ▸ hex) (hp ▸ hnotdir)
  have hused : fr.used = [p] := by
    rw [← hfiles]; exact filesUsed_eq_single w1.fs p name hjf hs hp hlist
  have hobsF : fr.obsolete = filesObs p (fpDir p) (GoSnaps.readDir w1.fs (fpDir p)) := by rw [← hfiles]
  have hpR : p ∉ fr.obsolete := by
    rw [hobsF]
    intro hm
    obtain ⟨_, _, _, _, hne'⟩ := (mem_filesObs_iff w1.fs p hjf p).mp hm
    exact hne' rfl
  have hfrfs : ∀ q, fsRead fr.fs q =
      if deleting w1.env = true ∧ q ∈ fr.obsolete then none else fsRead w1.fs q := by
    intro q
    rw [hobsF, ← hfiles]
    exact fsRead_fsAfter _ _ _ _
  have hread : fsRead fr.fs p = some (render es) := by
    rw [hfrfs p, if_neg (fun hh => hpR hh.2)]; exact hread1
  -- the second stage in closed form
  have hsn := crun.snaps
  rw [hused, hupdS, examineSnaps_single {} registered w1.skipped [] fr.fs w1.cleanup p cnt _ _ es hf hread
    hreg (fun e _ => classified_noRun {} registered w1.skipped _), keptId_skip] at hsn
  obtain ⟨hobs, es', hperm, hf', hcase⟩ := cleanOutcome_holds _ es hf p fr.fs _ _ obsT fs2 wr hsn
  have hfs2p : fsRead fs2 p = some (render es') := by
    rcases hcase with ⟨h1, _, h3⟩ | ⟨h1, _⟩
    · rw [h1, h3]; exact hread
    · rw [h1]; exact fsRead_fsWrite _ _ _
  have hfs2q : ∀ q, q ≠ p → fsRead fs2 q = fsRead fr.fs q := by
    intro q hq
    rcases hcase with ⟨h1, _, _⟩ | ⟨h1, _⟩
    · rw [h1]
    · rw [h1]; exact fsRead_fsWrite_ne _ _ _ _ hq
  refine ⟨registered, hslots, hobs, ⟨es', hfs2p, hf', hperm⟩, ?_, ?_, ?_⟩
  · intro q
    rw [hobsF]
    exact mem_filesObs_iff w1.fs p hjf q
  · intro q hq
    have hqp : q ≠ p := fun e => hpR (e ▸ hq)
    rw [hfs2q q hqp, hfrfs q]
    cases hd : deleting w1.env <;> simp [hq]
  · intro q hqp hq
    rw [hfs2q q hqp, hfrfs q, if_neg (fun hh => hq hh.2)]

/-- **C08.2 / C09 with skips, end to end: `Clean` reports EXACTLY what is neither registered nor protected.**

Setting of `go_stale_reported`, for an extended history: at least one Match* call (otherwise `Clean` knows no
directory and examines nothing), `JoinFaithful`, `InDir p`, `NotDir fs₀ p`.  With `registered` the ids
`occurrences` computes — exactly the slots of the called tests — and `skipListed (skipNames h)` the Boolean
form of `C08.Protected (skipNames h)` (`C08.skipListed_iff`):
* `obsTests` is EXACTLY the list of ids of the entries of the file that are neither registered nor
  skip-protected, in file order;
* afterwards the file holds a well-formed PERMUTATION of the registered-or-protected entries when deleting, and
  of ALL its entries in every other mode;
* `obsFiles`, and what happens to those files, as in `go_stale_reported`: every OTHER `.snap` file of the
  directory is reported whether or not it holds entries of skipped tests (D6). -/
theorem go_skip_exact (env : Env) (fs₀ : FS) (c : Cfg) (caller p rel : Text) (h : List SStep)
    (parseFile : Text → List GoDecl × Err) (re : Text → Text → Bool × Bool) (cnt : Nat) (err : Err)
    (opts : List Bool)
    (hsp : ∀ t, snapshotPath c caller t false = (p, some rel)) (hok : HistOK (strip h)) (hcnt : cnt > 0)
    (hre : ∀ s, (re [] s).1 = true)
    (hjf : JoinFaithful (fpDir p)) (hin : InDir p) (hnd : NotDir fs₀ p)
    (hcalls : calledNames (strip h) ≠ []) :
    ∃ st1, goRunS IOFail.never c caller (freshSt env fs₀) h = some st1 ∧ st1.skipped = skipNames h ∧
    ∀ es, FileAfter st1.fs p es (strip h) (opts.head?.getD false) →
    ∃ (fs2 : FS) (obsFiles obsTests registered : List Text),
      Generated.FuncsIO.Clean IOFail.never st1 parseFile re [] ((cnt : Int), err) () opts =
        some { st1 with fs := fs2, stdout := st1.stdout ++ summaryLine (Generated.FuncsIO.summary obsFiles
          obsTests (GoSem.len st1.skipped) st1.events (cleanUpd st1)) } ∧
      (∀ tid, tid ∈ registered ↔ SlotId (calledNames (strip h)) cnt tid) ∧
      obsTests = (es.filter (fun e =>
        !(registered.contains (tidOf e) || skipListed (skipNames h) (tidOf e)))).map tidOf ∧
      (∃ es', fsRead fs2 p = some (render es') ∧ CleanFile es' ∧
        es'.Perm (es.filter (fun e =>
          (registered.contains (tidOf e) || skipListed (skipNames h) (tidOf e)) || !deleting env))) ∧
      (∀ q, q ∈ obsFiles ↔ ∃ name, SimpleName name ∧ (name, false) ∈ GoSnaps.readDir st1.fs (fpDir p) ∧
        q = dirPrefix (fpDir p) ++ name ∧ q ≠ p) ∧
      (∀ q ∈ obsFiles, fsRead fs2 q = if deleting env then none else fsRead st1.fs q) ∧
      (∀ q, q ≠ p → q ∉ obsFiles → fsRead fs2 q = fsRead st1.fs q) := by
  obtain ⟨st1, hr⟩ := goRunS_reached env fs₀ c caller p rel h hsp hok
  refine ⟨st1, hr.run, hr.skipped, fun es hfa => ?_⟩
  have hsup := hr.supported (opts.head?.getD false) cnt hcnt es hfa
  have hclean := Clean_reachedS hr parseFile re cnt err opts hcnt hre (fun _ => hjf) hsup
  obtain ⟨sa, fr, obsT, fs2, wr, crun⟩ := clean_supported {} _ _ [] cnt hsup
  have hsa : sa = [] := by
    have := crun.occ
    have hs : (worldS env fs₀ c caller h).scleanup = [] := hr.reg.sclean
    rw [hs, CleanWorld.occurrences_nil] at this
    exact (Option.some.inj this).symm
  subst hsa
  rw [crun.result, cleanStdout_go hr.crel] at hclean
  have hnotdir : NotDir (worldS env fs₀ c caller h).fs p :=
    run_notDir c caller p rel hsp (strip h) { env := env, fs := fs₀ } hnd
  have hne : (worldS env fs₀ c caller h).cleanup ≠ [] := by
    obtain ⟨t, ht⟩ := List.exists_mem_of_ne_nil _ hcalls
    intro h0
    have := hr.reg.mem t (List.mem_reverse.mpr ht)
    rw [show (C01World.run c caller { env := env, fs := fs₀ } (strip h)).1.cleanup = [] from h0] at this
    cases this
  have hex : fsRead (worldS env fs₀ c caller h).fs p ≠ none := by rw [← hr.rel.fs]; exact hfa.exist hcalls
  have hread1 : fsRead (worldS env fs₀ c caller h).fs p = some (render es) := by
    rcases hfa.holds with h1 | ⟨h1, _⟩
    · rw [← hr.rel.fs]; exact h1
    · rw [hr.rel.fs] at h1; exact absurd h1 hex
  obtain ⟨registered, k1, k2, k3, k4, k5, k6⟩ := clean_exact_skip (worldS env fs₀ c caller h) p
    (opts.head?.getD false) cnt es (calledNames (strip h)).reverse
    ⟨hr.reg.get, hr.reg.mem, hr.reg.keys, hr.reg.sclean⟩ ⟨hr.regExact.nodup, hr.regExact.called⟩ hne hjf hin
    hnotdir hfa.clean hread1 fr obsT fs2 wr crun
  have hwenv := hr.wenv
  refine ⟨fs2, fr.obsolete, obsT, registered, hclean, fun tid => ?_, k2, ?_, ?_, ?_, ?_⟩
  · rw [k1, slotId_reverse]
  · rw [hwenv] at k3; exact k3
  · intro q; rw [k4, hr.rel.fs]
  · intro q hq; rw [k5 q hq, hwenv, hr.rel.fs]
  · intro q hqp hq; rw [k6 q hqp hq, hr.rel.fs]

/-- **C08.2 in the words of the property: a test that merely shares a name prefix is NOT protected.**

Setting of `go_skip_exact`.  After `Clean`, for every entry `e = [t - k]` of the snapshot file (`t` without a
space):
* if its slot was not addressed (as in `go_stale_reported_words`) and `t` is neither the name `N` of a skip
  step nor starts with `N/`, for EVERY skip step — `TestAB` when only `TestA` was skipped, `TestA/x#01` when
  only `TestA/x` was: `sibling_not_covered` — then its id IS in the printed obsolete list; when deleting no entry
  with that header is left in the file; in every other mode `e` itself still is;
* if it is skip-protected its id is NOT in the list and `e` is still in the file (C08.1 again, now with the
  exact content of the file). -/
theorem go_sibling_reported (env : Env) (fs₀ : FS) (c : Cfg) (caller p rel : Text) (h : List SStep)
    (parseFile : Text → List GoDecl × Err) (re : Text → Text → Bool × Bool) (cnt : Nat) (err : Err)
    (opts : List Bool)
    (hsp : ∀ t, snapshotPath c caller t false = (p, some rel)) (hok : HistOK (strip h)) (hcnt : cnt > 0)
    (hre : ∀ s, (re [] s).1 = true)
    (hjf : JoinFaithful (fpDir p)) (hin : InDir p) (hnd : NotDir fs₀ p)
    (hcalls : calledNames (strip h) ≠ []) :
    ∃ st1, goRunS IOFail.never c caller (freshSt env fs₀) h = some st1 ∧
    ∀ es, FileAfter st1.fs p es (strip h) (opts.head?.getD false) →
    ∃ (fs2 : FS) (obsFiles obsTests : List Text) (es' : List Entry),
      Generated.FuncsIO.Clean IOFail.never st1 parseFile re [] ((cnt : Int), err) () opts =
        some { st1 with fs := fs2, stdout := st1.stdout ++ summaryLine (Generated.FuncsIO.summary obsFiles
          obsTests (GoSem.len st1.skipped) st1.events (cleanUpd st1)) } ∧
      fsRead fs2 p = some (render es') ∧ CleanFile es' ∧
      (∀ e ∈ es, ∀ t k, e.id = testID t k → (32 : Byte) ∉ t →
        (∀ t' ∈ calledNames (strip h), ∀ k', e.id = testID t' k' →
          ¬ (k' = (calledNames (strip h)).count t' / cnt ∨
            (1 ≤ k' ∧ k' ≤ (calledNames (strip h)).count t' / cnt))) →
        (∀ N ∈ skipNames h, ¬ (t = N ∨ hasPrefix t (N ++ [slash]) = true)) →
        tidOf e ∈ obsTests ∧
        (deleting env = true → ∀ e' ∈ es', e'.id ≠ e.id) ∧ (deleting env = false → e ∈ es')) ∧
      (∀ e ∈ es, C08.Protected (skipNames h) (tidOf e) → tidOf e ∉ obsTests ∧ e ∈ es') := by
  obtain ⟨st1, e1, _, hmain⟩ := go_skip_exact env fs₀ c caller p rel h parseFile re cnt err opts hsp hok hcnt
    hre hjf hin hnd hcalls
  refine ⟨st1, e1, fun es hfa => ?_⟩
  obtain ⟨fs2, obsF, obsT, registered, hclean, hslots, hobs, ⟨es', hr2, hf', hperm⟩, _, _, _⟩ := hmain es hfa
  refine ⟨fs2, obsF, obsT, es', hclean, hr2, hf', ?_, ?_⟩
  · intro e he t k hid hsp' hstale hsib
    have hnreg : tidOf e ∉ registered := by
      intro hm
      obtain ⟨t', ht', k', hk', hslot⟩ := (hslots _).mp hm
      exact hstale t' ht' k' (id_eq_testID_of_tid (hfa.clean.recognised e he) hk') hslot
    have hc : registered.contains (tidOf e) = false := by simpa using hnreg
    have hnp : skipListed (skipNames h) (tidOf e) = false := by
      rw [skipListed_false_iff, protected_header_iff _ hid hsp']
      rintro ⟨N, hN, hcov⟩
      exact hsib N hN hcov
    refine ⟨?_, ?_, ?_⟩
    · rw [hobs]
      exact List.mem_map.mpr ⟨e, List.mem_filter.mpr ⟨he, by rw [hc, hnp]; rfl⟩, rfl⟩
    · intro hd e' he' hid'
      have := (List.mem_filter.mp (hperm.mem_iff.mp he')).2
      rw [hd, tidOf_congr hid', hc, hnp] at this
      cases this
    · intro hd
      exact hperm.mem_iff.mpr (List.mem_filter.mpr ⟨he, by simp [hd]⟩)
  · intro e he hp
    have hl : skipListed (skipNames h) (tidOf e) = true := (C08.skipListed_iff _ _).mpr hp
    refine ⟨?_, hperm.mem_iff.mpr (List.mem_filter.mpr ⟨he, by simp [hl]⟩)⟩
    rw [hobs]
    intro hm
    obtain ⟨x, hx, hxe⟩ := List.mem_map.mp hm
    have := (List.mem_filter.mp hx).2
    rw [hxe, hl] at this
    simp at this

/-! ## 5. C08.3: the summary counts every `Skip` call -/

/-- **C08.3, end to end: the number printed as "N snapshot(s) skipped" is the number of skip steps.**

After ANY extended history the skip list of the state has one element per skip step — whatever the names:
the same test twice, a parent and then its child — so `GoSem.len st1.skipped` (the expression
`len(skippedTests.values)` of `Clean`) is `skipCount h`; the text `Clean` prints is the transliterated `summary`
of that number; and when it is positive that text is not empty and contains the line
`printEvent "⟳ " "skipped" (skipCount h)` — `⟳ N snapshot(s) skipped` (`SkipHist.printEvent_skipped`) —
whatever else there is to report.  (The FIRST claim holds for every failure oracle: `goRunS_frame`.) -/
theorem go_summary_counts_skips (env : Env) (fs₀ : FS) (c : Cfg) (caller p rel : Text) (h : List SStep)
    (parseFile : Text → List GoDecl × Err) (re : Text → Text → Bool × Bool) (cnt : Nat) (err : Err)
    (opts : List Bool)
    (hsp : ∀ t, snapshotPath c caller t false = (p, some rel)) (hok : HistOK (strip h)) (hcnt : cnt > 0)
    (hre : ∀ s, (re [] s).1 = true)
    (hj : (Generated.shouldClean env && !env.isCI) = true → JoinFaithful (fpDir p)) :
    ∃ st1, goRunS IOFail.never c caller (freshSt env fs₀) h = some st1 ∧
      GoSem.len st1.skipped = ((skipCount h : Nat) : Int) ∧
    ∀ es, FileAfter st1.fs p es (strip h) (opts.head?.getD false) →
    ∃ (fs2 : FS) (obsFiles obsTests : List Text),
      Generated.FuncsIO.Clean IOFail.never st1 parseFile re [] ((cnt : Int), err) () opts =
        some { st1 with fs := fs2, stdout := st1.stdout ++ summaryLine (Generated.FuncsIO.summary obsFiles
          obsTests ((skipCount h : Nat) : Int) st1.events (cleanUpd st1)) } ∧
      (skipCount h > 0 → ∃ pre post,
        Generated.FuncsIO.summary obsFiles obsTests ((skipCount h : Nat) : Int) st1.events (cleanUpd st1) =
          pre ++ printEvent Generated.go_skipSymbol (ofString "skipped") (skipCount h) ++ post) := by
  obtain ⟨st1, hr⟩ := goRunS_reached env fs₀ c caller p rel h hsp hok
  have hlen : GoSem.len st1.skipped = ((skipCount h : Nat) : Int) := by
    unfold GoSem.len skipCount; rw [hr.skipped]
  refine ⟨st1, hr.run, hlen, fun es hfa => ?_⟩
  have hsup := hr.supported (opts.head?.getD false) cnt hcnt es hfa
  have hclean := Clean_reachedS hr parseFile re cnt err opts hcnt hre hj hsup
  obtain ⟨sa, fr, obsT, fs, wr, crun⟩ := clean_supported {} _ _ [] cnt hsup
  refine ⟨fs, fr.obsolete, obsT, ?_, fun hpos => ?_⟩
  · rw [hclean, crun.result, cleanStdout_go hr.crel, hlen]
  · rw [summary_tied_wf fr.obsolete obsT (skipCount h) st1.events (worldS env fs₀ c caller h).events
      (cleanUpd st1) hr.crel.eventsWF hr.crel.passed hr.crel.erred hr.crel.added hr.crel.updated]
    exact summary_skipped_line _ _ _ _ _ _ hpos

/-! ## 6. with a `-run` filter

`go test -run r` hands the pattern to `Clean` (`runOnly`).  `testSkipped` consults the skip list FIRST, so skip
protection is independent of the pattern; beyond it, its second clause keeps an entry iff the pattern does not
match — the WHOLE id `name - k`, with `regexp.MatchString`, not the way `go test` matches the `/`-separated
elements of a test name.  That is what holds of the code, and it is all that holds (findings D7, D8):
* D7: an unregistered, unprotected entry whose id the pattern matches is reported although `go test` did not
  select its test (`E2ES.d7_filtered_out_entry_deleted`: "[TestB/A_case - 1]" under `-run A`);
* D8: for the OTHER files of the directory `isFileSkipped` parses `../<file>.go`; custom names, extensions and
  standalone files of filtered-out tests are reported.  The theorem below says nothing about other files. -/

/-- **C08 under a `-run` filter, end to end — PARTIAL** (see below for what is missing).

Setting of `go_skipped_survive_clean`, but `Clean` is called with a pattern `runOnly ≠ ""`; `re` (standing for
`regexp.MatchString`) and `parseFile` (standing for `go/parser`) are ARBITRARY functions — no hypothesis on
either.  Neither the run nor `Clean` panics, and every entry of the snapshot file that is
* matched (`[t - k]`, `1 ≤ k ≤ (calls of t)/cnt`), or
* skip-protected (`C08.Protected (skipNames h)`: the skip wrappers protect whatever the pattern is), or
* has an id the pattern does not match (`(re runOnly (tidOf e)).1 = false`: `testSkipped`'s second clause)
is not listed obsolete and is in the file afterwards with its body.

PARTIAL — what is missing, and why:
* the CONVERSE (an entry that is none of the three IS reported) needs the file to be examined: it is
  `go_exact_run_filter` below, under the hypotheses of `go_skip_exact`.
* "the `-run` pattern did not select the test" (the property's words) is NOT the third condition: the code
  matches the whole id (D7).  For a pattern without `/` and metacharacters, `re` = substring search, an id
  `name - k` that the pattern does not match belongs to a test whose name the pattern does not match either,
  so the third clause covers every filtered-out top-level test; it does not cover `TestB/A_case` under `-run A`.
* nothing is said about the other files of the snapshot directory (D8). -/
theorem go_survive_clean_run_filter_partial (env : Env) (fs₀ : FS) (c : Cfg) (caller p rel : Text)
    (h : List SStep)
    (parseFile : Text → List GoDecl × Err) (re : Text → Text → Bool × Bool) (runOnly : Text) (cnt : Nat)
    (err : Err) (opts : List Bool)
    (hsp : ∀ t, snapshotPath c caller t false = (p, some rel)) (hok : HistOK (strip h)) (hcnt : cnt > 0)
    (hrun : runOnly ≠ [])
    (hj : (Generated.shouldClean env && !env.isCI) = true → JoinFaithful (fpDir p)) :
    ∃ st1, goRunS IOFail.never c caller (freshSt env fs₀) h = some st1 ∧ st1.skipped = skipNames h ∧
    ∀ es, FileAfter st1.fs p es (strip h) (opts.head?.getD false) →
    ∃ (fs2 : FS) (obsFiles obsTests : List Text),
      Generated.FuncsIO.Clean IOFail.never st1 parseFile re runOnly ((cnt : Int), err) () opts =
        some { st1 with fs := fs2, stdout := st1.stdout ++ summaryLine (Generated.FuncsIO.summary obsFiles
          obsTests (GoSem.len st1.skipped) st1.events (cleanUpd st1)) } ∧
      ∀ must : List Entry, (∀ e ∈ must, e ∈ es) →
        (∀ e ∈ must,
          (∃ t k, e.id = testID t k ∧ 1 ≤ k ∧ k ≤ (calledNames (strip h)).count t / cnt) ∨
          C08.Protected (skipNames h) (tidOf e) ∨ (re runOnly (tidOf e)).1 = false) →
        (∀ e ∈ must, tidOf e ∉ obsTests) ∧
        ∃ es', Holds fs2 p es' ∧ CleanFile es' ∧ (∀ e ∈ must, e ∈ es') ∧ (∀ e ∈ es', e ∈ es) := by
  obtain ⟨st1, hr⟩ := goRunS_reached env fs₀ c caller p rel h hsp hok
  refine ⟨st1, hr.run, hr.skipped, fun es hfa => ?_⟩
  have hsup := clean_supported_run parseFile re runOnly hrun (worldS env fs₀ c caller h)
    (opts.head?.getD false) cnt p es hcnt hr.reg.keys hr.reg.sclean hfa.clean (hr.rel.fs ▸ hfa.holds)
    (by
      intro hne
      rw [← hr.rel.fs]
      apply hfa.exist
      intro hn
      exact hne (run_cleanup_of_no_calls c caller (strip h) hn _))
    hfa.total
  have hclean := Clean_tied_one_dir
    (cleanOracles parseFile re runOnly (worldS env fs₀ c caller h).fs (fpDir p) es) st1
    (worldS env fs₀ c caller h) parseFile re runOnly cnt err opts hr.crel
    hcnt (runOracles_parseSound parseFile re runOnly _ _) (runOracles_oracleSound parseFile re runOnly _ _ hrun)
    (fpDir p) (oneDir_of_keys (worldS env fs₀ c caller h) p hr.reg.keys hr.reg.sclean cnt)
    (fun hu => hj (by unfold cleanUpd at hu; rw [hr.env] at hu; exact hu)) hsup
  obtain ⟨sa, fr, obsT, fs, wr, crun⟩ := clean_supported _ _ _ runOnly cnt hsup
  refine ⟨fs, fr.obsolete, obsT, ?_, ?_⟩
  · rw [hclean, crun.result, cleanStdout_go hr.crel]
  · intro must hall hcov
    have hcov' : ∀ e ∈ must,
        (∃ t k n, e.id = testID t k ∧ 1 ≤ k ∧ k ≤ n / cnt ∧
          ((p, t), n) ∈ (worldS env fs₀ c caller h).cleanup) ∨
        C08.Protected (worldS env fs₀ c caller h).skipped (tidOf e) ∨ (re runOnly (tidOf e)).1 = false := by
      intro e he
      rcases hcov e he with ⟨t, k, hid, hk1, hk2⟩ | hp
      · have hpos : 0 < (calledNames (strip h)).count t := by
          rcases Nat.eq_zero_or_pos ((calledNames (strip h)).count t) with h0 | h0
          · rw [h0, Nat.zero_div] at hk2; omega
          · exact h0
        have hm := hr.reg.mem t (List.mem_reverse.mpr (List.count_pos_iff.mp hpos))
        rw [List.count_reverse] at hm
        exact Or.inl ⟨t, k, _, hid, hk1, hk2, hm⟩
      · exact Or.inr hp
    obtain ⟨_, k2, ⟨es', e1, e2, e3, e4⟩, _⟩ := clean_keeps_kept_run parseFile re runOnly hrun
      (worldS env fs₀ c caller h) _ cnt p es must hr.reg.keys hr.reg.sclean hcov' hfa.clean
      (hr.rel.fs ▸ hfa.holds) hall sa fr obsT fs wr crun
    exact ⟨k2, es', e2, e1, e3, e4⟩

/-- the model's `clean` on one examined snapshot file under a pattern, with the tables `cleanOracles`
    (`clean_exact_skip` for `runOnly ≠ ""`, entries only): it reports EXACTLY the entries that are neither
    registered, nor skip-listed, nor have an id the pattern fails to match -/
theorem clean_exact_run (parseFile : Text → List GoDecl × Err) (re : Text → Text → Bool × Bool)
    (r : Text) (hr : r ≠ []) (w1 : World) (p : Text) (sortOpt : Bool) (cnt : Nat) (es : List Entry)
    (seen : List Text) (hri : RegInv p w1 seen) (hrx : RegExact w1 seen) (hne : w1.cleanup ≠ [])
    (hjf : JoinFaithful (fpDir p)) (hin : InDir p) (hnotdir : NotDir w1.fs p)
    (hf : CleanFile es) (hread1 : fsRead w1.fs p = some (render es))
    (fr : FilesResult) (obsT : List Text) (fs2 : FS) (wr : List Text)
    (crun : CleanRun (cleanOracles parseFile re r w1.fs (fpDir p) es) w1 sortOpt r cnt [] fr obsT fs2 wr) :
    ∃ registered : List Text,
      (∀ tid, tid ∈ registered ↔ SlotId seen cnt tid) ∧
      obsT = (es.filter (fun e => !(registered.contains (tidOf e) || skipListed w1.skipped (tidOf e) ||
        !(re r (tidOf e)).1))).map tidOf ∧
      ∃ es', fsRead fs2 p = some (render es') ∧ CleanFile es' ∧
        es'.Perm (es.filter (fun e => (registered.contains (tidOf e) || skipListed w1.skipped (tidOf e) ||
          !(re r (tidOf e)).1) || !deleting w1.env)) := by
  have hkeys := hri.keys
  obtain ⟨registered, hreg⟩ : ∃ r, registeredFor w1.cleanup p cnt = some r :=
    occurrences_snapshot_total _ cnt
  have hslots := registered_iff_slot w1 p seen cnt registered hri hrx hreg
  have hupdS : Generated.cleanSnapsUpdate w1.env sortOpt = deleting w1.env := by
    unfold Generated.cleanSnapsUpdate; rfl
  have hnrem : p ∉ fr.removed := regPath_not_removed _ w1 p hkeys r _ fr crun.files
  have hframe := (C09.examineFiles_untouched _ _ _ _ _ _ _ crun.files).2.2.2
  have hfiles := crun.files
  rw [cleanRegPaths_single w1 p hne hkeys] at hfiles
  obtain ⟨name, hs, hp⟩ := hin
  have hex : fsRead w1.fs p ≠ none := by rw [hread1]; simp
  have hlist : (name, false) ∈ GoSnaps.readDir w1.fs (fpDir p) :=
    readDir_lists_file w1.fs (fpDir p) name hs.1 hs.2.1 (hp ▸ hex) (hp ▸ hnotdir)
  have hused : fr.used = [p] := by
    rw [examineFiles_run_used _ _ _ _ _ _ hfiles]
    exact filesUsed_eq_single w1.fs p name hjf hs hp hlist
  have hread : fsRead fr.fs p = some (render es) := by rw [hframe p hnrem]; exact hread1
  have hK : ∀ e ∈ es, keptId (cleanOracles parseFile re r w1.fs (fpDir p) es) registered w1.skipped r (tidOf e) =
      (registered.contains (tidOf e) || skipListed w1.skipped (tidOf e) || !(re r (tidOf e)).1) :=
    fun e he => keptId_run _ registered w1.skipped r _ _ (cleanOracles_entry parseFile re r w1.fs (fpDir p) es hr e he)
  have hsn := crun.snaps
  rw [hused, hupdS, examineSnaps_single _ registered w1.skipped r fr.fs w1.cleanup p cnt _ _ es hf hread hreg
    (fun e he => classified_of_reMatch _ registered w1.skipped r _ _
      (cleanOracles_entry parseFile re r w1.fs (fpDir p) es hr e he))] at hsn
  obtain ⟨hobs, es', hperm, hf', hcase⟩ := cleanOutcome_holds _ es hf p fr.fs _ _ obsT fs2 wr hsn
  have hfs2p : fsRead fs2 p = some (render es') := by
    rcases hcase with ⟨h1, _, h3⟩ | ⟨h1, _⟩
    · rw [h1, h3]; exact hread
    · rw [h1]; exact fsRead_fsWrite _ _ _
  refine ⟨registered, hslots, ?_, es', hfs2p, hf', ?_⟩
  · rw [hobs]
    congr 1
    exact List.filter_congr (fun e he => by rw [hK e he])
  · rw [show es.filter (fun e => (registered.contains (tidOf e) || skipListed w1.skipped (tidOf e) ||
        !(re r (tidOf e)).1) || !deleting w1.env) =
      es.filter (fun e => keptId (cleanOracles parseFile re r w1.fs (fpDir p) es) registered w1.skipped r
        (tidOf e) || !deleting w1.env) from List.filter_congr (fun e he => by rw [hK e he])]
    exact hperm

/-- **C08 under a `-run` filter, exactly what the code does to the entries of the examined snapshot file.**

Setting of `go_skip_exact` (at least one call, `JoinFaithful`, `InDir p`, `NotDir fs₀ p`), `Clean` called with
a pattern `runOnly ≠ ""`, `re` and `parseFile` ARBITRARY.  `obsTests` is EXACTLY the list of ids of the entries
that are not registered, not skip-protected, and whose WHOLE id the pattern matches; afterwards the file holds
a permutation of the others when deleting, of all entries otherwise.  This is what is true of the code; the
property's "did not select it" is weaker than "the pattern does not match the id" in one direction (D7:
`E2ES.d7_filtered_out_entry_deleted`) and this theorem is the precise replacement.  Nothing is said about the
other files of the directory (D8). -/
theorem go_exact_run_filter (env : Env) (fs₀ : FS) (c : Cfg) (caller p rel : Text) (h : List SStep)
    (parseFile : Text → List GoDecl × Err) (re : Text → Text → Bool × Bool) (runOnly : Text) (cnt : Nat)
    (err : Err) (opts : List Bool)
    (hsp : ∀ t, snapshotPath c caller t false = (p, some rel)) (hok : HistOK (strip h)) (hcnt : cnt > 0)
    (hrun : runOnly ≠ [])
    (hjf : JoinFaithful (fpDir p)) (hin : InDir p) (hnd : NotDir fs₀ p)
    (hcalls : calledNames (strip h) ≠ []) :
    ∃ st1, goRunS IOFail.never c caller (freshSt env fs₀) h = some st1 ∧ st1.skipped = skipNames h ∧
    ∀ es, FileAfter st1.fs p es (strip h) (opts.head?.getD false) →
    ∃ (fs2 : FS) (obsFiles obsTests registered : List Text),
      Generated.FuncsIO.Clean IOFail.never st1 parseFile re runOnly ((cnt : Int), err) () opts =
        some { st1 with fs := fs2, stdout := st1.stdout ++ summaryLine (Generated.FuncsIO.summary obsFiles
          obsTests (GoSem.len st1.skipped) st1.events (cleanUpd st1)) } ∧
      (∀ tid, tid ∈ registered ↔ SlotId (calledNames (strip h)) cnt tid) ∧
      obsTests = (es.filter (fun e => !(registered.contains (tidOf e) ||
        skipListed (skipNames h) (tidOf e) || !(re runOnly (tidOf e)).1))).map tidOf ∧
      ∃ es', fsRead fs2 p = some (render es') ∧ CleanFile es' ∧
        es'.Perm (es.filter (fun e => (registered.contains (tidOf e) ||
          skipListed (skipNames h) (tidOf e) || !(re runOnly (tidOf e)).1) || !deleting env)) := by
  obtain ⟨st1, hr⟩ := goRunS_reached env fs₀ c caller p rel h hsp hok
  refine ⟨st1, hr.run, hr.skipped, fun es hfa => ?_⟩
  have hsup := clean_supported_run parseFile re runOnly hrun (worldS env fs₀ c caller h)
    (opts.head?.getD false) cnt p es hcnt hr.reg.keys hr.reg.sclean hfa.clean (hr.rel.fs ▸ hfa.holds)
    (by
      intro hne
      rw [← hr.rel.fs]
      apply hfa.exist
      intro hn
      exact hne (run_cleanup_of_no_calls c caller (strip h) hn _))
    hfa.total
  have hclean := Clean_tied_one_dir
    (cleanOracles parseFile re runOnly (worldS env fs₀ c caller h).fs (fpDir p) es) st1
    (worldS env fs₀ c caller h) parseFile re runOnly cnt err opts hr.crel
    hcnt (runOracles_parseSound parseFile re runOnly _ _) (runOracles_oracleSound parseFile re runOnly _ _ hrun)
    (fpDir p) (oneDir_of_keys (worldS env fs₀ c caller h) p hr.reg.keys hr.reg.sclean cnt)
    (fun _ => hjf) hsup
  obtain ⟨sa, fr, obsT, fs2, wr, crun⟩ := clean_supported _ _ _ runOnly cnt hsup
  have hsa : sa = [] := by
    have := crun.occ
    have hs : (worldS env fs₀ c caller h).scleanup = [] := hr.reg.sclean
    rw [hs, CleanWorld.occurrences_nil] at this
    exact (Option.some.inj this).symm
  subst hsa
  rw [crun.result, cleanStdout_go hr.crel] at hclean
  have hnotdir : NotDir (worldS env fs₀ c caller h).fs p :=
    run_notDir c caller p rel hsp (strip h) { env := env, fs := fs₀ } hnd
  have hne : (worldS env fs₀ c caller h).cleanup ≠ [] := by
    obtain ⟨t, ht⟩ := List.exists_mem_of_ne_nil _ hcalls
    intro h0
    have := hr.reg.mem t (List.mem_reverse.mpr ht)
    rw [show (C01World.run c caller { env := env, fs := fs₀ } (strip h)).1.cleanup = [] from h0] at this
    cases this
  have hex : fsRead (worldS env fs₀ c caller h).fs p ≠ none := by rw [← hr.rel.fs]; exact hfa.exist hcalls
  have hread1 : fsRead (worldS env fs₀ c caller h).fs p = some (render es) := by
    rcases hfa.holds with h1 | ⟨h1, _⟩
    · rw [← hr.rel.fs]; exact h1
    · rw [hr.rel.fs] at h1; exact absurd h1 hex
  obtain ⟨registered, k1, k2, es', k3, k4, k5⟩ := clean_exact_run parseFile re runOnly hrun
    (worldS env fs₀ c caller h) p (opts.head?.getD false) cnt es (calledNames (strip h)).reverse
    ⟨hr.reg.get, hr.reg.mem, hr.reg.keys, hr.reg.sclean⟩ ⟨hr.regExact.nodup, hr.regExact.called⟩ hne hjf hin
    hnotdir hfa.clean hread1 fr obsT fs2 wr crun
  refine ⟨fs2, fr.obsolete, obsT, registered, hclean, fun tid => ?_, k2, es', k3, k4, ?_⟩
  · rw [k1, slotId_reverse]
  · rw [hr.wenv] at k5; exact k5

/-! ## 7. concrete histories (non-vacuity)

As in §8 of `Tie/EndToEndClean.lean`: test file "/t/a_test.go", snapshot file `xp` =
"/t/__snapshots__/a_test.snap", `envClean` (off CI, `UPDATE_SNAPS=clean`), `xParse` (go/parser always fails),
`cRe` (regexp always matches).  Tests "TestA", "TestB", "TestAB" (shares the prefix "TestA"), "TestA/x" (a
sub-test of "TestA"), "TestA/x#01" (shares the prefix "TestA/x"), "TestZ" (stale). -/

namespace E2ES
open GoSnaps.C07World.Ex (tA tB tZ envClean)
open E2E (xp xc exJoin envReport)
open E2E2 (xp_inDir)

/-- "TestAB" -/
def tAB : Text := tA ++ [66]
/-- "TestA/x" -/
def tAx : Text := tA ++ [47, 120]
/-- "TestA/x#01" -/
def tAx01 : Text := tAx ++ [35, 48, 49]

def eA1 : Entry := ⟨testID tA 1, [120]⟩
def eA2 : Entry := ⟨testID tA 2, [121]⟩
def eB1 : Entry := ⟨testID tB 1, [122]⟩
def eAx : Entry := ⟨testID tAx 1, [119]⟩
def eAx01 : Entry := ⟨testID tAx01 1, [117]⟩
def eAB : Entry := ⟨testID tAB 1, [118]⟩
def eZ : Entry := ⟨testID tZ 1, [113]⟩

/-! ### run 1 records two entries of "TestA"; in run 2 "TestA" calls `snaps.Skip` and "TestB" runs; `Clean` in
clean mode -/

/-- run 1: "TestA" makes two calls -/
def run1 : List Step := [.call tA [120] .raw 1, .call tA [121] .raw 1, .done 1]
/-- what run 1 leaves -/
def fs1 : FS := [(xp, render [eA1, eA2])]
/-- run 2: "TestA" calls `snaps.Skip(t)` and ends; "TestB" makes one call and ends -/
def run2 : List SStep :=
  [.skip tA 1 (.skip []), .run (.done 1), .run (.call tB [122] .raw 2), .run (.done 2)]
def es2 : List Entry := [eA1, eA2, eB1]

/-- run 1, through the transliterated flows, from an empty file system -/
theorem run1_fs : (goRun IOFail.never {} xc (freshSt envClean []) run1).map (fun s => s.fs) = some fs1 := by
  decide +kernel

/-- run 2, through the transliterated `Skip` and flows: the file gains "[TestB - 1]", the skip list is
    ["TestA"], and the tests were told: the skip log line, `t.Skip()`, "added" -/
theorem run2_state : (goRunS IOFail.never {} xc (freshSt envClean fs1) run2).map
      (fun s => (s.fs, s.skipped, s.tev)) =
    some ([(xp, render es2)], [tA],
      [.log Generated.go_skippedMsg, .skip [], .log Generated.go_addedMsg]) := by decide +kernel

theorem run2_fileAfter (st1 : St) (e1 : goRunS IOFail.never {} xc (freshSt envClean fs1) run2 = some st1) :
    FileAfter st1.fs xp es2 (strip run2) false := by
  have hfs : st1.fs = [(xp, render es2)] := by
    have := congrArg (Option.map (fun s : St => s.fs)) e1
    rw [show (goRunS IOFail.never {} xc (freshSt envClean fs1) run2).map (fun s => s.fs) =
      some [(xp, render es2)] from by decide +kernel] at this
    exact (Option.some.inj this).symm
  have hread : fsRead st1.fs xp = some (render es2) := by rw [hfs]; simp [fsRead]
  exact ⟨Or.inl hread,
    ⟨by decide +kernel, by decide +kernel, by decide +kernel, by decide +kernel, by decide +kernel⟩,
    fun _ => by rw [hread]; simp, fun hh => by cases hh⟩

/-- **C08.1 applies** (all hypotheses by evaluation): "[TestA - 1]" and "[TestA - 2]" — entries of a test that
    made NO call in this process and called `snaps.Skip` — are not listed obsolete and are still in the file
    after `Clean` in clean mode -/
example : ∃ st1, goRunS IOFail.never {} xc (freshSt envClean fs1) run2 = some st1 ∧
    ∃ (fs2 : FS) (obsFiles obsTests : List Text) (es' : List Entry),
      Generated.FuncsIO.Clean IOFail.never st1 xParse cRe [] (((1 : Nat) : Int), Err.nil) () [] =
        some { st1 with fs := fs2, stdout := st1.stdout ++ summaryLine (Generated.FuncsIO.summary obsFiles
          obsTests (GoSem.len st1.skipped) st1.events (cleanUpd st1)) } ∧
      Holds fs2 xp es' ∧ tidOf eA1 ∉ obsTests ∧ tidOf eA2 ∉ obsTests ∧ eA1 ∈ es' ∧ eA2 ∈ es' := by
  obtain ⟨st1, e1, hmain⟩ := go_skipped_survive_clean_words envClean fs1 {} xc xp C01World.exRel run2 xParse cRe 1
    Err.nil [] C01World.exPath_spec (by decide) (by decide) (fun _ => rfl) (fun _ => exJoin)
  obtain ⟨fs2, oF, oT, es', hc, k2, _, _, hk⟩ := hmain es2 (run2_fileAfter st1 e1)
  obtain ⟨a1, a2⟩ := hk tA (by decide) (by decide) eA1 (by decide +kernel) 1 (Or.inl rfl)
  obtain ⟨b1, b2⟩ := hk tA (by decide) (by decide) eA2 (by decide +kernel) 2 (Or.inl rfl)
  exact ⟨st1, e1, fs2, oF, oT, es', hc, k2, a1, b1, a2, b2⟩

/-- … and this is what the transliterated code does, by evaluation: nothing is obsolete, the file keeps the
    three entries, the summary is that of ONE skip and contains the line "⟳ 1 snapshot skipped" -/
example :
    ((goRunS IOFail.never {} xc (freshSt envClean fs1) run2).bind fun st1 =>
      (Generated.FuncsIO.Clean IOFail.never st1 xParse cRe [] (1, Err.nil) () []).map fun st2 =>
        (st2.fs, decide (st2.stdout = st1.stdout ++ summaryLine (Generated.FuncsIO.summary [] [] 1 st1.events
          (cleanUpd st1))),
         containsSub st2.stdout (printEvent Generated.go_skipSymbol (ofString "skipped") 1))) =
      some ([(xp, render es2)], true, true) := by decide +kernel

/-- WITHOUT the `Skip` call the same process loses both entries of "TestA" (`goRunS` on a history without skip
    steps is `goRun`: `goRunS_noSkip`) -/
example :
    ((goRunS IOFail.never {} xc (freshSt envClean fs1) (run2.drop 1)).bind fun st1 =>
      (Generated.FuncsIO.Clean IOFail.never st1 xParse cRe [] (1, Err.nil) () []).map fun st2 => st2.fs) =
      some [(xp, render [eB1])] := by decide +kernel

/-! ### exactness: a descendant, a sibling, a stale entry; three skip calls (a repeated name, parent then child) -/

def esK : List Entry := [eA1, eAx, eAB, eZ]
def fsK : FS := [(xp, render esK)]
/-- "TestA" calls `SkipNow`; "TestB" makes a call; "TestA/x" calls `Skipf`; "TestA" calls `Skip` (again) -/
def histK : List SStep :=
  [.skip tA 1 .skipNow, .run (.call tB [122] .raw 2), .skip tAx 3 (.skipf [37, 115] [[97]]),
   .skip tA 1 (.skip []), .run (.done 2)]
def esK' : List Entry := esK ++ [eB1]

theorem histK_fileAfter (st1 : St) (e1 : goRunS IOFail.never {} xc (freshSt envClean fsK) histK = some st1) :
    FileAfter st1.fs xp esK' (strip histK) false := by
  have hfs : st1.fs = [(xp, render esK')] := by
    have := congrArg (Option.map (fun s : St => s.fs)) e1
    rw [show (goRunS IOFail.never {} xc (freshSt envClean fsK) histK).map (fun s => s.fs) =
      some [(xp, render esK')] from by decide +kernel] at this
    exact (Option.some.inj this).symm
  have hread : fsRead st1.fs xp = some (render esK') := by rw [hfs]; simp [fsRead]
  exact ⟨Or.inl hread,
    ⟨by decide +kernel, by decide +kernel, by decide +kernel, by decide +kernel, by decide +kernel⟩,
    fun _ => by rw [hread]; simp, fun hh => by cases hh⟩

theorem fsK_notDir : NotDir fsK xp := notDir_of_paths _ _ (by decide +kernel)

/-- **C08.2 applies** (all hypotheses by evaluation): the sibling "[TestAB - 1]" IS in the printed list and no
    entry with that header is left; the descendant "[TestA/x - 1]" and "[TestA - 1]" are not in the list and
    are still in the file -/
example : ∃ st1, goRunS IOFail.never {} xc (freshSt envClean fsK) histK = some st1 ∧
    ∃ (fs2 : FS) (obsFiles obsTests : List Text) (es' : List Entry),
      Generated.FuncsIO.Clean IOFail.never st1 xParse cRe [] (((1 : Nat) : Int), Err.nil) () [] =
        some { st1 with fs := fs2, stdout := st1.stdout ++ summaryLine (Generated.FuncsIO.summary obsFiles
          obsTests (GoSem.len st1.skipped) st1.events (cleanUpd st1)) } ∧
      fsRead fs2 xp = some (render es') ∧ tidOf eAB ∈ obsTests ∧ (∀ e' ∈ es', e'.id ≠ eAB.id) ∧
      tidOf eAx ∉ obsTests ∧ eAx ∈ es' ∧ tidOf eA1 ∉ obsTests ∧ eA1 ∈ es' := by
  obtain ⟨st1, e1, hmain⟩ := go_sibling_reported envClean fsK {} xc xp C01World.exRel histK xParse cRe 1
    Err.nil [] C01World.exPath_spec (by decide) (by decide) (fun _ => rfl) exJoin xp_inDir fsK_notDir (by decide)
  obtain ⟨fs2, oF, oT, es', hc, hr2, _, hsib, hprot⟩ := hmain esK' (histK_fileAfter st1 e1)
  obtain ⟨s1, s2, _⟩ := hsib eAB (by decide +kernel) tAB 1 rfl (by decide)
    (by
      intro t' ht' k' hid
      have ht : t' = tB := by
        have : calledNames (strip histK) = [tB] := by decide +kernel
        rw [this] at ht'
        simpa using ht'
      subst ht
      exfalso
      simp [eAB, testID, tAB, tA, tB] at hid)
    (by
      intro N hN
      have hN' : N = tA ∨ N = tAx := by
        have : skipNames histK = [tA, tAx, tA] := by decide +kernel
        rw [this] at hN
        simp only [List.mem_cons, List.not_mem_nil, or_false] at hN
        rcases hN with h | h | h <;> simp [h]
      rcases hN' with rfl | rfl
      · exact sibling_not_covered tA [] 66 (by decide)
      · decide +kernel)
  obtain ⟨p1, p2⟩ := hprot eAx (by decide +kernel)
    (protected_descendant (N := tA) (sub := [120]) _ (by decide +kernel) rfl (by decide) (by decide))
  obtain ⟨q1, q2⟩ := hprot eA1 (by decide +kernel)
    (protected_self (N := tA) _ (by decide +kernel) rfl (by decide))
  exact ⟨st1, e1, fs2, oF, oT, es', hc, hr2, s1, s2 rfl, p1, p2, q1, q2⟩

/-- **C08.3 applies**: three skip steps (the same name twice, a parent and then its child) — the number handed
    to `summary` is 3 -/
example : ∃ st1, goRunS IOFail.never {} xc (freshSt envClean fsK) histK = some st1 ∧
    GoSem.len st1.skipped = 3 ∧
    ∃ (fs2 : FS) (obsFiles obsTests : List Text) (pre post : Text),
      Generated.FuncsIO.Clean IOFail.never st1 xParse cRe [] (((1 : Nat) : Int), Err.nil) () [] =
        some { st1 with fs := fs2, stdout := st1.stdout ++ summaryLine (Generated.FuncsIO.summary obsFiles
          obsTests 3 st1.events (cleanUpd st1)) } ∧
      Generated.FuncsIO.summary obsFiles obsTests 3 st1.events (cleanUpd st1) =
        pre ++ printEvent Generated.go_skipSymbol (ofString "skipped") 3 ++ post := by
  obtain ⟨st1, e1, hlen, hmain⟩ := go_summary_counts_skips envClean fsK {} xc xp C01World.exRel histK xParse cRe 1
    Err.nil [] C01World.exPath_spec (by decide) (by decide) (fun _ => rfl) (fun _ => exJoin)
  obtain ⟨fs2, oF, oT, hc, hline⟩ := hmain esK' (histK_fileAfter st1 e1)
  have h3 : skipCount histK = 3 := by decide +kernel
  rw [h3] at hlen hc hline
  obtain ⟨pre, post, hpp⟩ := hline (by decide)
  exact ⟨st1, e1, hlen, fs2, oF, oT, pre, post, hc, hpp⟩

/-- … by evaluation: `Clean` prints the summary of `obsTests = [TestAB - 1, TestZ - 1]` and THREE skips (it
    contains "⟳ 3 snapshots skipped"), prunes exactly those two entries and keeps "[TestA - 1]",
    "[TestA/x - 1]" and the new "[TestB - 1]" -/
example :
    ((goRunS IOFail.never {} xc (freshSt envClean fsK) histK).bind fun st1 =>
      (Generated.FuncsIO.Clean IOFail.never st1 xParse cRe [] (1, Err.nil) () []).map fun st2 =>
        (st2.fs, st1.skipped, decide (st2.stdout = st1.stdout ++ summaryLine (Generated.FuncsIO.summary []
          [tidOf eAB, tidOf eZ] 3 st1.events (cleanUpd st1))),
         containsSub st2.stdout (printEvent Generated.go_skipSymbol (ofString "skipped") 3))) =
      some ([(xp, render [eA1, eAx, eB1])], [tA, tAx, tA], true, true) := by decide +kernel

/-- the same process in REPORT mode with `Sort`: the two stale ids are printed, nothing is removed -/
example :
    ((goRunS IOFail.never {} xc (freshSt envReport fsK) histK).bind fun st1 =>
      (Generated.FuncsIO.Clean IOFail.never st1 xParse cRe [] (1, Err.nil) () []).map fun st2 =>
        (decide (st2.fs = st1.fs), decide (st2.stdout = st1.stdout ++ summaryLine (Generated.FuncsIO.summary []
          [tidOf eAB, tidOf eZ] 3 st1.events (cleanUpd st1))))) = some (true, true) := by decide +kernel

/-- "TestA/x#01" against the skipped "TestA/x" (only the sub-test is skipped): "[TestA/x - 1]" is kept,
    "[TestA/x#01 - 1]" and "[TestA - 1]" (the parent is not protected by its child) are reported and pruned -/
example :
    ((goRunS IOFail.never {} xc (freshSt envClean [(xp, render [eA1, eAx, eAx01])])
        [.skip tAx 3 (.skip []), .run (.call tB [122] .raw 2), .run (.done 2)]).bind fun st1 =>
      (Generated.FuncsIO.Clean IOFail.never st1 xParse cRe [] (1, Err.nil) () []).map fun st2 =>
        (st2.fs, decide (st2.stdout = st1.stdout ++ summaryLine (Generated.FuncsIO.summary []
          [tidOf eA1, tidOf eAx01] 1 st1.events (cleanUpd st1))))) =
      some ([(xp, render [eAx, eB1])], true) := by decide +kernel

example : ¬ (tAx01 = tAx ∨ hasPrefix tAx01 (tAx ++ [slash]) = true) :=
  sibling_not_covered tAx [48, 49] 35 (by decide)

/-! ### with a `-run` filter -/

/-- a function standing for `regexp.MatchString` on plain patterns: substring search -/
def subRe : Text → Text → Bool × Bool := fun pat s => (containsSub s pat, false)

/-- "TestB/A_case" -/
def tBA : Text := tB ++ [47, 65, 95, 99, 97, 115, 101]
def eBA : Entry := ⟨testID tBA 1, [116]⟩
/-- `go test -run A`: "TestA" runs (one call); "TestB" and its sub-test "TestB/A_case" are not selected; a
    test "TestZ" called `snaps.Skip` -/
def fsR : FS := [(xp, render [eB1, eBA, eZ])]
def histR : List SStep := [.skip tZ 3 (.skip []), .run (.call tA [120] .raw 1), .run (.done 1)]
def esR : List Entry := [eB1, eBA, eZ, eA1]

theorem histR_fileAfter (st1 : St) (e1 : goRunS IOFail.never {} xc (freshSt envClean fsR) histR = some st1) :
    FileAfter st1.fs xp esR (strip histR) false := by
  have hfs : st1.fs = [(xp, render esR)] := by
    have := congrArg (Option.map (fun s : St => s.fs)) e1
    rw [show (goRunS IOFail.never {} xc (freshSt envClean fsR) histR).map (fun s => s.fs) =
      some [(xp, render esR)] from by decide +kernel] at this
    exact (Option.some.inj this).symm
  have hread : fsRead st1.fs xp = some (render esR) := by rw [hfs]; simp [fsRead]
  exact ⟨Or.inl hread,
    ⟨by decide +kernel, by decide +kernel, by decide +kernel, by decide +kernel, by decide +kernel⟩,
    fun _ => by rw [hread]; simp, fun hh => by cases hh⟩

/-- **the `-run` theorem applies** (pattern "A", substring search, hypotheses by evaluation): "[TestB - 1]"
    (filtered out: its id does not contain "A"), "[TestZ - 1]" (skip-protected) and "[TestA - 1]" (matched)
    are not listed and are still in the file -/
example : ∃ st1, goRunS IOFail.never {} xc (freshSt envClean fsR) histR = some st1 ∧
    ∃ (fs2 : FS) (obsFiles obsTests : List Text) (es' : List Entry),
      Generated.FuncsIO.Clean IOFail.never st1 xParse subRe [65] (((1 : Nat) : Int), Err.nil) () [] =
        some { st1 with fs := fs2, stdout := st1.stdout ++ summaryLine (Generated.FuncsIO.summary obsFiles
          obsTests (GoSem.len st1.skipped) st1.events (cleanUpd st1)) } ∧
      Holds fs2 xp es' ∧ (∀ e ∈ [eB1, eZ, eA1], tidOf e ∉ obsTests ∧ e ∈ es') := by
  obtain ⟨st1, e1, _, hmain⟩ := go_survive_clean_run_filter_partial envClean fsR {} xc xp C01World.exRel histR
    xParse subRe [65] 1 Err.nil [] C01World.exPath_spec (by decide) (by decide) (by decide) (fun _ => exJoin)
  obtain ⟨fs2, oF, oT, hc, hk⟩ := hmain esR (histR_fileAfter st1 e1)
  obtain ⟨k1, es', k2, _, k4, _⟩ := hk [eB1, eZ, eA1] (by decide +kernel) (by
    intro e he
    simp only [List.mem_cons, List.not_mem_nil, or_false] at he
    rcases he with rfl | rfl | rfl
    · exact Or.inr (Or.inr (by decide +kernel))
    · exact Or.inr (Or.inl (protected_self (N := tZ) _ (by decide +kernel) rfl (by decide)))
    · exact Or.inl ⟨tA, 1, rfl, by decide, by decide +kernel⟩)
  exact ⟨st1, e1, fs2, oF, oT, es', hc, k2, fun e he => ⟨k1 e he, k4 e he⟩⟩

theorem fsR_notDir : NotDir fsR xp := notDir_of_paths _ _ (by decide +kernel)

/-- **exactness under `-run` applies** (hypotheses by evaluation): "[TestB/A_case - 1]" — not registered, not
    skip-protected, and its id contains "A" — IS in the printed list, and no entry with that header is left -/
example : ∃ st1, goRunS IOFail.never {} xc (freshSt envClean fsR) histR = some st1 ∧
    ∃ (fs2 : FS) (obsFiles obsTests : List Text) (es' : List Entry),
      Generated.FuncsIO.Clean IOFail.never st1 xParse subRe [65] (((1 : Nat) : Int), Err.nil) () [] =
        some { st1 with fs := fs2, stdout := st1.stdout ++ summaryLine (Generated.FuncsIO.summary obsFiles
          obsTests (GoSem.len st1.skipped) st1.events (cleanUpd st1)) } ∧
      fsRead fs2 xp = some (render es') ∧ tidOf eBA ∈ obsTests ∧ eBA ∉ es' := by
  obtain ⟨st1, e1, _, hmain⟩ := go_exact_run_filter envClean fsR {} xc xp C01World.exRel histR xParse subRe [65] 1
    Err.nil [] C01World.exPath_spec (by decide) (by decide) (by decide) exJoin xp_inDir fsR_notDir (by decide)
  obtain ⟨fs2, oF, oT, reg, hc, hslots, hobs, es', r2, _, hperm⟩ := hmain esR (histR_fileAfter st1 e1)
  have hnreg : reg.contains (tidOf eBA) = false := by
    have hn : tidOf eBA ∉ reg := by
      intro hm
      obtain ⟨t, ht, k, hk, _⟩ := (hslots _).mp hm
      have ht' : t = tA := by
        have : calledNames (strip histR) = [tA] := by decide +kernel
        rw [this] at ht
        simpa using ht
      subst ht'
      have hb : tidOf eBA = [84, 101, 115, 116, 66, 47, 65, 95, 99, 97, 115, 101, 32, 45, 32, 49] := by
        decide +kernel
      rw [hb] at hk
      simp [tA] at hk
    simpa using hn
  have hpred : (!(reg.contains (tidOf eBA) || skipListed (skipNames histR) (tidOf eBA) ||
      !(subRe [65] (tidOf eBA)).1)) = true := by
    rw [hnreg]; decide +kernel
  refine ⟨st1, e1, fs2, oF, oT, es', hc, r2, ?_, ?_⟩
  · rw [hobs]
    exact List.mem_map.mpr ⟨eBA, List.mem_filter.mpr ⟨by decide +kernel, hpred⟩, rfl⟩
  · intro hm
    have := (List.mem_filter.mp (hperm.mem_iff.mp hm)).2
    have hd : deleting envClean = true := by decide
    rw [hd] at this
    simp only [Bool.not_true, Bool.or_false] at this
    rw [this] at hpred
    cases hpred

/-- **finding D7, by evaluation**: in that process "[TestB/A_case - 1]" — an entry of a sub-test `go test -run A`
    did not select — is reported and pruned: the pattern is matched against the whole id -/
theorem d7_filtered_out_entry_deleted :
    ((goRunS IOFail.never {} xc (freshSt envClean fsR) histR).bind fun st1 =>
      (Generated.FuncsIO.Clean IOFail.never st1 xParse subRe [65] (1, Err.nil) () []).map fun st2 =>
        (st2.fs, decide (st2.stdout = st1.stdout ++ summaryLine (Generated.FuncsIO.summary []
          [tidOf eBA] 1 st1.events (cleanUpd st1))))) =
      some ([(xp, render [eB1, eZ, eA1])], true) := by decide +kernel

/-! ### finding D6, and histories without any Match* call -/

/-- "/t/__snapshots__/b_test.snap": a snapshot file of ANOTHER test file of the package -/
def xq : Text :=
  [47, 116, 47, 95, 95, 115, 110, 97, 112, 115, 104, 111, 116, 115, 95, 95, 47, 98, 95, 116, 101, 115, 116, 46,
   115, 110, 97, 112]

/-- **finding D6, by evaluation: "the entry is in the file the calls address" cannot be dropped.**  `xq` holds
    "[TestA - 1]"; "TestA" calls `snaps.Skip` (it is the only test of its file, so nothing registers `xq`);
    "TestB" of "a_test.go" makes a call, so the directory is visited: `Clean` in clean mode reports `xq` as an
    obsolete FILE and deletes it, with the entry of the skipped test in it -/
theorem d6_unaddressed_file_deleted :
    ((goRunS IOFail.never {} xc (freshSt envClean [(xp, render [eB1]), (xq, render [eA1])])
        [.skip tA 1 (.skip []), .run (.call tB [122] .raw 2), .run (.done 2)]).bind fun st1 =>
      (Generated.FuncsIO.Clean IOFail.never st1 xParse cRe [] (1, Err.nil) () []).map fun st2 =>
        (st1.fs, st2.fs, decide (st2.stdout = st1.stdout ++ summaryLine (Generated.FuncsIO.summary [xq]
          [] 1 st1.events (cleanUpd st1))))) =
      some ([(xp, render [eB1]), (xq, render [eA1])], [(xp, render [eB1])], true) := by decide +kernel

/-- a process in which tests only skip: `Clean` knows no directory, touches nothing, and still counts the
    skips -/
theorem skip_only :
    ((goRunS IOFail.never {} xc (freshSt envClean fsK) [.skip tA 1 .skipNow, .skip tB 2 (.skip [])]).bind
      fun st1 => (Generated.FuncsIO.Clean IOFail.never st1 xParse cRe [] (1, Err.nil) () []).map fun st2 =>
        (decide (st2.fs = fsK), decide (st2.stdout = st1.stdout ++ summaryLine (Generated.FuncsIO.summary []
          [] 2 st1.events (cleanUpd st1))))) = some (true, true) := by decide +kernel

end E2ES

end GoSnaps.Tie
