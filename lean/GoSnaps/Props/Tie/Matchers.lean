/-
Tie (by proof) of the transliterated methods of package `match` (match/any.go, custom.go, type.go;
`Generated/FuncsIO.lean`: `anyMatcher_*`, `typeMatcher_*`, `customMatcher_*`) to the abstract loops
of C16 (`mask`, `maskWith`), the pipeline of C15/C17 and the flows of Tie/Flows.lean.

The document libraries are PARAMETERS of the transliterations (`gjsonGet`, `sjsonSet`, `yamlParse`,
`yamlGet`, `yamlGetValue`, `yamlUpdate`, `yamlMarshal`, `typeCheckFn`, `typePlaceholderFn`); values
of Go type `any` are opaque `Text`.

* §1  generic loop lemmas (`pathStep`: one iteration = next document + at most one error naming the
      matcher and the path; `withDocs`: every path paired with the document at the time it is
      reached; `errsOf`: the errors of a loop), and the toy libraries `MToy` used by the examples
* §2  closed forms, for EVERY choice of the libraries: `anyMatcher_JSON_eq`, `typeMatcher_JSON_eq`,
      `customMatcher_JSON_eq`, `anyMatcher_YAML_eq`, `typeMatcher_YAML_eq`, `customMatcher_YAML_eq`
* §3  error accounting (C17): `*_closed`, `*_errors`, `*_errors_named`, `missing_path_ignored`,
      `customMatcher_*_one_error`
* §4  ties to `C16.mask` / `C16.maskWith` under hypotheses connecting the libraries to a lens
      (`JSONLens`, `YAMLLens`): `anyMatcher_JSON_lens`, `typeMatcher_JSON_lens`,
      `customMatcher_JSON_lens`, `*_YAML_lens`, `anyMatcher_JSON_masked_irrelevant`
* §5  option methods, `matcherError`, reuse
* §6  composition with the flows: `AnyM`, `runJSON` / `runYAML`, `runTable`, `pipeline_masks`,
      `docPre_masks`, `matchJSON_masks`, `docPre_fails`

What the Go loops do that the abstract model does not say (all proved below):
* Any/Type keep going after an error: errors accumulate in path order and later paths are applied
  to the document built so far; the partially masked document IS returned next to the errors (it is
  the caller, `applyJSONMatchers`, that drops it — C15).
* Custom returns nil on every error and at most one error.
* YAML: `yaml.Update` works on the parsed file in place, so after a FAILED update the loops of
  Any/Type continue with (and finally marshal) whatever the failed update left (`anyYNext`).
* Custom.YAML on a missing path with `ErrOnMissingPath(false)` returns the input BYTES, whereas
  Any/Type.YAML always return the re-marshalled file.

Byte legend: "path does not exist" = `pathNotFound`, "*" = [42], "\n" = [10], "?" = [63].
-/
import GoSnaps.GoIO
import GoSnaps.Generated.FuncsIO
import GoSnaps.Props.C15
import GoSnaps.Props.C16
import GoSnaps.Props.C17
import GoSnaps.Props.Tie.Flows
namespace GoSnaps.Tie
open GoSnaps GoSnaps.GoIO
open GoSnaps.Generated.FuncsIO

/-! ## 1. generic lemmas -/

/-- `errPathNotFound.Error()` (match/utils.go) -/
def pathNotFound : Text := [112, 97, 116, 104, 32, 100, 111, 101, 115, 32, 110, 111, 116, 32, 101, 120, 105, 115, 116]

theorem pathNotFound_eq : pathNotFound = ofString "path does not exist" := by decide +kernel

/-- the Go variable `errPathNotFound` -/
def errPathNotFound : Err := .other pathNotFound

/-- every element of a list paired with the state at the time it is reached, for a loop whose
    state evolves by `next` -/
def withDocs {α D : Type} (next : D → α → D) : D → List α → List (α × D)
  | _, [] => []
  | d, p :: ps => (p, d) :: withDocs next (next d p) ps

theorem withDocs_map_fst {α D : Type} (next : D → α → D) (d : D) (ps : List α) :
    (withDocs next d ps).map (·.1) = ps := by
  induction ps generalizing d with
  | nil => rfl
  | cons p ps ih => simp [withDocs, ih]

theorem withDocs_length {α D : Type} (next : D → α → D) (d : D) (ps : List α) :
    (withDocs next d ps).length = ps.length := by
  rw [← List.length_map (f := (·.1)), withDocs_map_fst]

/-- the states are the prefixes' folds -/
theorem withDocs_eq_prefix {α D : Type} (next : D → α → D) (d : D) (ps : List α) (x : α × D)
    (hx : x ∈ withDocs next d ps) : ∃ pre post, ps = pre ++ x.1 :: post ∧ x.2 = pre.foldl next d := by
  induction ps generalizing d with
  | nil => cases hx
  | cons p ps ih =>
    rcases List.mem_cons.mp hx with rfl | hx
    · exact ⟨[], ps, rfl, rfl⟩
    · obtain ⟨pre, post, h1, h2⟩ := ih _ hx
      exact ⟨p :: pre, post, by rw [h1]; rfl, h2⟩

/-- if two state transformers agree on every (element, state) the first one reaches, they reach
    the same states -/
theorem withDocs_congr {α D : Type} (f g : D → α → D) (d : D) (ps : List α)
    (h : ∀ x ∈ withDocs f d ps, f x.2 x.1 = g x.2 x.1) :
    withDocs f d ps = withDocs g d ps ∧ ps.foldl f d = ps.foldl g d := by
  induction ps generalizing d with
  | nil => exact ⟨rfl, rfl⟩
  | cons p ps ih =>
    have hp : f d p = g d p := h (p, d) (by simp [withDocs])
    have := ih (f d p) (fun x hx => h x (by simp [withDocs, hx]))
    simp only [withDocs, List.foldl_cons]
    rw [← hp]
    exact ⟨by rw [this.1], this.2⟩

/-- one iteration of a matcher loop on the state (document, errors): the document moves by `next`,
    at most one error is appended, and it names the matcher and the path -/
def pathStep {D : Type} (name : Text) (next : D → Text → D) (err : D → Text → Option Err)
    (s : D × List MErr) (p : Text) : D × List MErr :=
  (next s.1 p, s.2 ++ match err s.1 p with
    | some e => [({ reason := e, matcher := name, path := p } : MErr)]
    | none => [])

/-- the errors of a loop started on `d`: for each path, in order, the error (if any) reported for
    the document at the time the path is reached -/
def errsOf {D : Type} (name : Text) (next : D → Text → D) (err : D → Text → Option Err) (d : D)
    (ps : List Text) : List MErr :=
  (withDocs next d ps).filterMap (fun x => (err x.2 x.1).map (fun e => ({ reason := e, matcher := name, path := x.1 } : MErr)))

theorem errsOf_nil {D : Type} (name : Text) (next : D → Text → D) (err : D → Text → Option Err) (d : D) :
    errsOf name next err d [] = [] := rfl

theorem errsOf_cons {D : Type} (name : Text) (next : D → Text → D) (err : D → Text → Option Err) (d : D)
    (p : Text) (ps : List Text) :
    errsOf name next err d (p :: ps) =
      (match err d p with
        | some e => [({ reason := e, matcher := name, path := p } : MErr)]
        | none => []) ++ errsOf name next err (next d p) ps := by
  unfold errsOf
  simp only [withDocs, List.filterMap_cons]
  cases err d p <;> rfl

/-- **the loop in closed form**: document = fold of `next`; errors = the old ones followed by
    `errsOf` -/
theorem foldl_pathStep {D : Type} (name : Text) (next : D → Text → D) (err : D → Text → Option Err)
    (ps : List Text) (d : D) (es : List MErr) :
    ps.foldl (pathStep name next err) (d, es) = (ps.foldl next d, es ++ errsOf name next err d ps) := by
  induction ps generalizing d es with
  | nil => simp [errsOf_nil]
  | cons p ps ih =>
    rw [List.foldl_cons, errsOf_cons]
    show ps.foldl (pathStep name next err) (next d p, _) = _
    rw [ih, List.foldl_cons, List.append_assoc]

/-- every error names the matcher and one of its paths -/
theorem errsOf_named {D : Type} (name : Text) (next : D → Text → D) (err : D → Text → Option Err) (d : D)
    (ps : List Text) (e : MErr) (he : e ∈ errsOf name next err d ps) :
    e.matcher = name ∧ e.path ∈ ps ∧ ∃ d', (e.path, d') ∈ withDocs next d ps ∧ err d' e.path = some e.reason := by
  unfold errsOf at he
  obtain ⟨x, hx, hxe⟩ := List.mem_filterMap.mp he
  cases hq : err x.2 x.1 with
  | none => rw [hq] at hxe; cases hxe
  | some r =>
    rw [hq] at hxe
    simp only [Option.map_some, Option.some.injEq] at hxe
    subst hxe
    refine ⟨rfl, ?_, x.2, hx, hq⟩
    have := List.mem_map_of_mem (f := (·.1)) hx
    rwa [withDocs_map_fst] at this

/-- the paths of the errors, in the order of the errors, are a sub-list of the matcher's paths:
    at most one error per path, in path order -/
theorem errsOf_paths_sublist {D : Type} (name : Text) (next : D → Text → D) (err : D → Text → Option Err) (d : D)
    (ps : List Text) : ((errsOf name next err d ps).map (·.path)).Sublist ps := by
  induction ps generalizing d with
  | nil => simp [errsOf_nil]
  | cons p ps ih =>
    rw [errsOf_cons]
    cases err d p with
    | none => simpa using (ih (next d p)).cons p
    | some e => simpa using (ih (next d p)).cons_cons p

theorem errsOf_length_le {D : Type} (name : Text) (next : D → Text → D) (err : D → Text → Option Err) (d : D)
    (ps : List Text) : (errsOf name next err d ps).length ≤ ps.length := by
  have := (errsOf_paths_sublist name next err d ps).length_le
  simpa using this

/-- no error at all iff no path fails on the document at the time it is reached -/
theorem errsOf_eq_nil_iff {D : Type} (name : Text) (next : D → Text → D) (err : D → Text → Option Err) (d : D)
    (ps : List Text) : errsOf name next err d ps = [] ↔ ∀ x ∈ withDocs next d ps, err x.2 x.1 = none := by
  unfold errsOf
  rw [List.filterMap_eq_nil_iff]
  constructor
  · intro h x hx
    have := h x hx
    cases hq : err x.2 x.1 with
    | none => rfl
    | some e => rw [hq] at this; cases this
  · intro h x hx
    rw [h x hx]; rfl

/-- the loop state of the transliterations is `(errs, doc)`; the result is `(doc, errs)` -/
theorem forIn_swap_foldl {D : Type} (l : List Text) (F : Text → (List MErr × D) → Id (ForInStep ((List MErr × D))))
    (f : D × List MErr → Text → D × List MErr)
    (hF : ∀ p (s : (List MErr × D)), F p s = pure (ForInStep.yield ⟨(f (s.2, s.1) p).2, (f (s.2, s.1) p).1⟩))
    (d : D) (es : List MErr) :
    forIn (m := Id) l ((es, d) : List MErr × D) F =
      pure ⟨(l.foldl f (d, es)).2, (l.foldl f (d, es)).1⟩ := by
  induction l generalizing d es with
  | nil => rfl
  | cons x xs ih =>
    rw [List.forIn_cons, hF]
    simp only [pure_bind]
    rw [ih]
    rfl

/-! ### toy document libraries for the examples -/

namespace MToy

/-- JSON toy: a document is a byte string; the path `[k]` addresses the byte at position `k`
    (it exists iff `k < length`); no other path exists -/
def get (d p : Text) : Option Text :=
  match p with
  | [k] => (d[k.toNat]?).map (fun x => [x])
  | _ => none

/-- writes the first byte of `v` ('?' if `v` is empty) at position `k` -/
def set (d p v : Text) : Text :=
  match p with
  | [k] => d.set k.toNat (v.headD 63)
  | _ => d

def gjsonGet (d p : Text) : GResult := ⟨(get d p).isSome, (get d p).getD []⟩
def sjsonSet (d p v : Text) : Text × Err := (set d p v, .nil)
def nAny : Text := [65, 110, 121]
def nType : Text := [84, 121, 112, 101]
def nCustom : Text := [67, 117, 115, 116, 111, 109]
def eRO : Err := .other [114, 111]
def eBad : Err := .other [98, 97, 100]
def eHi : Err := .other [104, 105]
def eParse : Err := .other [101]
def eGet : Err := .other [112]
/-- a setter for which position 0 is read-only (error "ro") -/
def sjsonSetRO (d p v : Text) : Text × Err := if p = [0] then (d, eRO) else (set d p v, .nil)

/-- `typeCheck`: values made of bytes below 58 pass, others are "bad" -/
def chk (v : Text) : Err := if v.all (· < 58) then .nil else eBad
/-- `typePlaceholder`: "N" for values below 58, "S" otherwise -/
def ph (v : Text) : Text := if v.all (· < 58) then [78] else [83]

/-- `match.Any(paths...)` ("Any", placeholder "?") -/
def any (paths : List Text) (eomp : Bool := true) : AnyMatcher := ⟨paths, [63], eomp, nAny⟩
/-- `match.Type[…](paths...)` ("Type") -/
def type (paths : List Text) (eomp : Bool := true) : TypeMatcher := ⟨paths, eomp, nType, []⟩
/-- a callback: +1 on every byte; values containing a byte ≥ 200 are rejected ("hi") -/
def cb (v : Text) : Text × Err := if v.all (· < 200) then (v.map (· + 1), .nil) else ([], eHi)
/-- `match.Custom(path, cb)` ("Custom") -/
def custom (path : Text) (eomp : Bool := true) : CustomMatcher := ⟨cb, eomp, nCustom, path⟩

/-- YAML toy: the file is the input without its final newline; an input that is empty or starts
    with byte 255 does not parse ("e") -/
def yamlParse (b : Text) : YFile × Err :=
  if b.headD 255 = 255 then ([], eParse) else (if hasSuffix b [10] then b.dropLast else b, .nil)
def yamlGet (f : YFile) (p : Text) : YPath × YNode × Bool × Err := (p, (get f p).getD [], (get f p).isSome, .nil)
/-- a `yaml.Get` that rejects the empty path ("p") -/
def yamlGetE (f : YFile) (p : Text) : YPath × YNode × Bool × Err :=
  if p = [] then ([], [], false, eGet) else yamlGet f p
def yamlGetValue (n : YNode) : Text × Err := (n, .nil)
def yamlUpdate (f : YFile) (path : YPath) (v : Text) : YFile × Err := (set f path v, .nil)
/-- an update that fails on position 0 ("ro") AND leaves the file damaged (first byte zeroed) -/
def yamlUpdateRO (f : YFile) (path : YPath) (v : Text) : YFile × Err :=
  if path = [0] then (f.set 0 0, eRO) else (set f path v, .nil)
def yamlMarshal (f : YFile) (nl : Bool) : Text := if nl then f ++ [10] else f

end MToy

/-! ## 2. closed forms -/

/-! ### 2.1 `anyMatcher.JSON` -/

/-- the per-path step of `anyMatcher.JSON` on (document, errors) -/
def anyStep (gjsonGet : Text → Text → GResult) (sjsonSet : Text → Text → Text → Text × Err) (a : AnyMatcher)
    (s : Text × List MErr) (p : Text) : Text × List MErr :=
  if (gjsonGet s.1 p).exists = false then
    (s.1, if a.errOnMissingPath then s.2 ++ [{ reason := Err.other pathNotFound, matcher := a.name, path := p }] else s.2)
  else if (sjsonSet s.1 p a.placeholder).2.notNil then
    (s.1, s.2 ++ [{ reason := (sjsonSet s.1 p a.placeholder).2, matcher := a.name, path := p }])
  else ((sjsonSet s.1 p a.placeholder).1, s.2)

/-- **`anyMatcher_JSON_eq`**: the loop keeps going after an error; the result is (document built
    by the successful paths, errors in path order) -/
theorem anyMatcher_JSON_eq (gjsonGet : Text → Text → GResult) (sjsonSet : Text → Text → Text → Text × Err)
    (a : AnyMatcher) (b : Text) :
    anyMatcher_JSON gjsonGet sjsonSet a b = a.paths.foldl (anyStep gjsonGet sjsonSet a) (b, []) := by
  unfold anyMatcher_JSON
  simp only [Id.run, bind, pure]
  rw [forIn_swap_foldl a.paths _ (anyStep gjsonGet sjsonSet a)]
  · rfl
  · intro p s
    unfold anyStep anyMatcher_matcherError pathNotFound
    simp only [Id.run, pure]
    cases (gjsonGet s.2 p).exists <;> cases a.errOnMissingPath <;>
      cases (sjsonSet s.2 p a.placeholder).2.notNil <;> rfl

/-- non-vacuity on the toy library, document [10, 20, 30]:
    (1) path [5] is missing and NOT the last, `ErrOnMissingPath(false)`: nothing reported, the later
        path [1] is still masked;
    (2) the same with `ErrOnMissingPath(true)`: one error naming [5], path [1] still masked;
    (3) the set of the first path [0] fails, the second path [2] succeeds: one error AND path [2] masked;
    (4) errors accumulate in path order (also for a repeated path) -/
example :
    open MToy in
    anyMatcher_JSON gjsonGet sjsonSet (any [[5], [1]] false) [10, 20, 30] = ([10, 63, 30], []) ∧
    anyMatcher_JSON gjsonGet sjsonSet (any [[5], [1]]) [10, 20, 30] = ([10, 63, 30], [⟨errPathNotFound, nAny, [5]⟩]) ∧
    anyMatcher_JSON gjsonGet sjsonSetRO (any [[0], [2]]) [10, 20, 30] = ([10, 20, 63], [⟨eRO, nAny, [0]⟩]) ∧
    anyMatcher_JSON gjsonGet sjsonSetRO (any [[0], [7], [2], [0]]) [10, 20, 30] =
      ([10, 20, 63], [⟨eRO, nAny, [0]⟩, ⟨errPathNotFound, nAny, [7]⟩, ⟨eRO, nAny, [0]⟩]) := by decide

/-- next document / reported error of one path of `anyMatcher.JSON`, separately -/
def anyNext (gjsonGet : Text → Text → GResult) (sjsonSet : Text → Text → Text → Text × Err) (a : AnyMatcher)
    (d p : Text) : Text :=
  if (gjsonGet d p).exists = false then d
  else if (sjsonSet d p a.placeholder).2.notNil then d else (sjsonSet d p a.placeholder).1

def anyErr (gjsonGet : Text → Text → GResult) (sjsonSet : Text → Text → Text → Text × Err) (a : AnyMatcher)
    (d p : Text) : Option Err :=
  if (gjsonGet d p).exists = false then (if a.errOnMissingPath then some (Err.other pathNotFound) else none)
  else if (sjsonSet d p a.placeholder).2.notNil then some (sjsonSet d p a.placeholder).2 else none

theorem anyStep_eq_pathStep (gjsonGet : Text → Text → GResult) (sjsonSet : Text → Text → Text → Text × Err)
    (a : AnyMatcher) :
    anyStep gjsonGet sjsonSet a = pathStep a.name (anyNext gjsonGet sjsonSet a) (anyErr gjsonGet sjsonSet a) := by
  funext s p
  unfold anyStep pathStep anyNext anyErr
  cases (gjsonGet s.1 p).exists <;> cases a.errOnMissingPath <;>
    cases (sjsonSet s.1 p a.placeholder).2.notNil <;> simp

/-! ### 2.2 `typeMatcher.JSON` -/

/-- the per-path step of `typeMatcher.JSON`: a value of the wrong type is reported and the path
    skipped; the placeholder is computed from the value found -/
def typeStep (gjsonGet : Text → Text → GResult) (sjsonSet : Text → Text → Text → Text × Err)
    (typeCheckFn : Text → Err) (typePlaceholderFn : Text → Text) (t : TypeMatcher)
    (s : Text × List MErr) (p : Text) : Text × List MErr :=
  if (gjsonGet s.1 p).exists = false then
    (s.1, if t.errOnMissingPath then s.2 ++ [{ reason := Err.other pathNotFound, matcher := t.name, path := p }] else s.2)
  else if (typeCheckFn (gjsonGet s.1 p).value).notNil then
    (s.1, s.2 ++ [{ reason := typeCheckFn (gjsonGet s.1 p).value, matcher := t.name, path := p }])
  else if (sjsonSet s.1 p (typePlaceholderFn (gjsonGet s.1 p).value)).2.notNil then
    (s.1, s.2 ++ [{ reason := (sjsonSet s.1 p (typePlaceholderFn (gjsonGet s.1 p).value)).2, matcher := t.name, path := p }])
  else ((sjsonSet s.1 p (typePlaceholderFn (gjsonGet s.1 p).value)).1, s.2)

theorem typeMatcher_JSON_eq (gjsonGet : Text → Text → GResult) (sjsonSet : Text → Text → Text → Text × Err)
    (typeCheckFn : Text → Err) (typePlaceholderFn : Text → Text) (t : TypeMatcher) (b : Text) :
    typeMatcher_JSON gjsonGet sjsonSet typeCheckFn typePlaceholderFn t b =
      t.paths.foldl (typeStep gjsonGet sjsonSet typeCheckFn typePlaceholderFn t) (b, []) := by
  unfold typeMatcher_JSON
  simp only [Id.run, bind, pure]
  rw [forIn_swap_foldl t.paths _ (typeStep gjsonGet sjsonSet typeCheckFn typePlaceholderFn t)]
  · rfl
  · intro p s
    unfold typeStep typeMatcher_matcherError pathNotFound
    simp only [Id.run, pure]
    cases (gjsonGet s.2 p).exists <;> cases t.errOnMissingPath <;>
      cases (typeCheckFn (gjsonGet s.2 p).value).notNil <;>
      cases (sjsonSet s.2 p (typePlaceholderFn (gjsonGet s.2 p).value)).2.notNil <;> rfl

/-- [5] missing, [1] = 20 is masked by "N", [2] = 90 has the wrong type (reported, left alone),
    [0] = 10 is still masked afterwards; with the read-only setter the failing set of [0] is
    reported and [1] is masked -/
example :
    open MToy in
    typeMatcher_JSON gjsonGet sjsonSet chk ph (type [[5], [1], [2], [0]]) [10, 20, 90] =
      ([78, 78, 90], [⟨errPathNotFound, nType, [5]⟩, ⟨eBad, nType, [2]⟩]) ∧
    typeMatcher_JSON gjsonGet sjsonSet chk ph (type [[5], [1]] false) [10, 20, 90] = ([10, 78, 90], []) ∧
    typeMatcher_JSON gjsonGet sjsonSetRO chk ph (type [[0], [1]]) [10, 20, 90] = ([10, 78, 90], [⟨eRO, nType, [0]⟩]) := by
  decide

def typeNext (gjsonGet : Text → Text → GResult) (sjsonSet : Text → Text → Text → Text × Err)
    (typeCheckFn : Text → Err) (typePlaceholderFn : Text → Text) (d p : Text) : Text :=
  if (gjsonGet d p).exists = false then d
  else if (typeCheckFn (gjsonGet d p).value).notNil then d
  else if (sjsonSet d p (typePlaceholderFn (gjsonGet d p).value)).2.notNil then d
  else (sjsonSet d p (typePlaceholderFn (gjsonGet d p).value)).1

def typeErr (gjsonGet : Text → Text → GResult) (sjsonSet : Text → Text → Text → Text × Err)
    (typeCheckFn : Text → Err) (typePlaceholderFn : Text → Text) (t : TypeMatcher) (d p : Text) : Option Err :=
  if (gjsonGet d p).exists = false then (if t.errOnMissingPath then some (Err.other pathNotFound) else none)
  else if (typeCheckFn (gjsonGet d p).value).notNil then some (typeCheckFn (gjsonGet d p).value)
  else if (sjsonSet d p (typePlaceholderFn (gjsonGet d p).value)).2.notNil then
    some (sjsonSet d p (typePlaceholderFn (gjsonGet d p).value)).2
  else none

theorem typeStep_eq_pathStep (gjsonGet : Text → Text → GResult) (sjsonSet : Text → Text → Text → Text × Err)
    (typeCheckFn : Text → Err) (typePlaceholderFn : Text → Text) (t : TypeMatcher) :
    typeStep gjsonGet sjsonSet typeCheckFn typePlaceholderFn t =
      pathStep t.name (typeNext gjsonGet sjsonSet typeCheckFn typePlaceholderFn)
        (typeErr gjsonGet sjsonSet typeCheckFn typePlaceholderFn t) := by
  funext s p
  unfold typeStep pathStep typeNext typeErr
  cases (gjsonGet s.1 p).exists <;> cases t.errOnMissingPath <;>
    cases (typeCheckFn (gjsonGet s.1 p).value).notNil <;>
    cases (sjsonSet s.1 p (typePlaceholderFn (gjsonGet s.1 p).value)).2.notNil <;> simp

/-- `match.Any` is `match.Type` with a type check that never fails and a constant placeholder -/
theorem anyStep_eq_typeStep (gjsonGet : Text → Text → GResult) (sjsonSet : Text → Text → Text → Text × Err)
    (a : AnyMatcher) :
    anyStep gjsonGet sjsonSet a =
      typeStep gjsonGet sjsonSet (fun _ => Err.nil) (fun _ => a.placeholder)
        { paths := a.paths, errOnMissingPath := a.errOnMissingPath, name := a.name, expectedType := [] } := by
  funext s p
  unfold anyStep typeStep
  simp [Err.notNil]

/-! ### 2.3 `customMatcher.JSON` -/

/-- `customMatcher.JSON` in closed form: a single path and early returns — on any error the
    returned document is nil and there is exactly one error; a missing path with
    `ErrOnMissingPath(false)` returns the input unchanged -/
def customJSONSpec (gjsonGet : Text → Text → GResult) (sjsonSet : Text → Text → Text → Text × Err)
    (c : CustomMatcher) (b : Text) : Text × List MErr :=
  if (gjsonGet b c.path).exists = false then
    (if c.errOnMissingPath then ([], [{ reason := Err.other pathNotFound, matcher := c.name, path := c.path }])
     else (b, []))
  else if (c.callback (gjsonGet b c.path).value).2.notNil then
    ([], [{ reason := (c.callback (gjsonGet b c.path).value).2, matcher := c.name, path := c.path }])
  else if (sjsonSet b c.path (c.callback (gjsonGet b c.path).value).1).2.notNil then
    ([], [{ reason := (sjsonSet b c.path (c.callback (gjsonGet b c.path).value).1).2, matcher := c.name, path := c.path }])
  else ((sjsonSet b c.path (c.callback (gjsonGet b c.path).value).1).1, [])

theorem customMatcher_JSON_eq (gjsonGet : Text → Text → GResult) (sjsonSet : Text → Text → Text → Text × Err)
    (c : CustomMatcher) (b : Text) :
    customMatcher_JSON gjsonGet sjsonSet c b = customJSONSpec gjsonGet sjsonSet c b := by
  unfold customMatcher_JSON customJSONSpec customMatcher_matcherError pathNotFound
  simp only [Id.run, pure]
  cases (gjsonGet b c.path).exists <;> cases c.errOnMissingPath <;>
    cases (c.callback (gjsonGet b c.path).value).2.notNil <;>
    cases (sjsonSet b c.path (c.callback (gjsonGet b c.path).value).1).2.notNil <;> rfl

/-- success; missing path (error / ignored); callback error; set error — a failure returns nil -/
example :
    open MToy in
    customMatcher_JSON gjsonGet sjsonSet (custom [1]) [10, 20, 30] = ([10, 21, 30], []) ∧
    customMatcher_JSON gjsonGet sjsonSet (custom [5]) [10, 20, 30] = ([], [⟨errPathNotFound, nCustom, [5]⟩]) ∧
    customMatcher_JSON gjsonGet sjsonSet (custom [5] false) [10, 20, 30] = ([10, 20, 30], []) ∧
    customMatcher_JSON gjsonGet sjsonSet (custom [1]) [10, 220, 30] = ([], [⟨eHi, nCustom, [1]⟩]) ∧
    customMatcher_JSON gjsonGet sjsonSetRO (custom [0]) [10, 20, 30] = ([], [⟨eRO, nCustom, [0]⟩]) := by decide

/-! ### 2.4 `anyMatcher.YAML` -/

/-- the file after path `p`: `yaml.Update` works on the parsed file in place, so the file after a
    FAILED update is whatever `yamlUpdate` left (its first component) -/
def anyYNext (yamlGet : YFile → Text → YPath × YNode × Bool × Err) (yamlUpdate : YFile → YPath → Text → YFile × Err)
    (a : AnyMatcher) (f : YFile) (p : Text) : YFile :=
  if (yamlGet f p).2.2.2.notNil then f
  else if (yamlGet f p).2.2.1 = false then f
  else (yamlUpdate f (yamlGet f p).1 a.placeholder).1

def anyYErr (yamlGet : YFile → Text → YPath × YNode × Bool × Err) (yamlUpdate : YFile → YPath → Text → YFile × Err)
    (a : AnyMatcher) (f : YFile) (p : Text) : Option Err :=
  if (yamlGet f p).2.2.2.notNil then some (yamlGet f p).2.2.2
  else if (yamlGet f p).2.2.1 = false then (if a.errOnMissingPath then some (Err.other pathNotFound) else none)
  else if (yamlUpdate f (yamlGet f p).1 a.placeholder).2.notNil then some (yamlUpdate f (yamlGet f p).1 a.placeholder).2
  else none

/-- the per-path step of `anyMatcher.YAML` on (file, errors) -/
def anyYStep (yamlGet : YFile → Text → YPath × YNode × Bool × Err) (yamlUpdate : YFile → YPath → Text → YFile × Err)
    (a : AnyMatcher) : YFile × List MErr → Text → YFile × List MErr :=
  pathStep a.name (anyYNext yamlGet yamlUpdate a) (anyYErr yamlGet yamlUpdate a)

/-- **`anyMatcher_YAML_eq`**: parse error ⇒ the input and one error with path "*"; otherwise the
    marshalled file after the loop and the errors in path order -/
theorem anyMatcher_YAML_eq (yamlParse : Text → YFile × Err) (yamlGet : YFile → Text → YPath × YNode × Bool × Err)
    (yamlUpdate : YFile → YPath → Text → YFile × Err) (yamlMarshal : YFile → Bool → Text) (a : AnyMatcher) (b : Text) :
    anyMatcher_YAML yamlParse yamlGet yamlUpdate yamlMarshal a b =
      if (yamlParse b).2.notNil then (b, [{ reason := (yamlParse b).2, matcher := a.name, path := [42] }])
      else
        (yamlMarshal (a.paths.foldl (anyYStep yamlGet yamlUpdate a) ((yamlParse b).1, [])).1 (hasSuffix b [10]),
         (a.paths.foldl (anyYStep yamlGet yamlUpdate a) ((yamlParse b).1, [])).2) := by
  unfold anyMatcher_YAML
  simp only [Id.run, bind, pure]
  rw [forIn_swap_foldl a.paths _ (anyYStep yamlGet yamlUpdate a)]
  · rfl
  · intro p s
    unfold anyYStep pathStep anyYNext anyYErr anyMatcher_matcherError pathNotFound
    simp only [Id.run, pure]
    cases (yamlGet s.2 p).2.2.2.notNil <;> cases (yamlGet s.2 p).2.2.1 <;> cases a.errOnMissingPath <;>
      cases (yamlUpdate s.2 (yamlGet s.2 p).1 a.placeholder).2.notNil <;> simp

/-- input "\x0a\x14\x1e\n": path [] → get error; [0] → update error (and the file keeps the damage
    the failed update did: first byte 0); [7] → missing; [2] → masked; the final newline is kept.
    A missing non-last path with `ErrOnMissingPath(false)`: ignored, [2] still masked.
    An input that does not parse comes back as is with one error for path "*". -/
example :
    open MToy in
    anyMatcher_YAML yamlParse yamlGetE yamlUpdateRO yamlMarshal (any [[], [0], [7], [2]]) [10, 20, 30, 10] =
      ([0, 20, 63, 10], [⟨eGet, nAny, []⟩, ⟨eRO, nAny, [0]⟩, ⟨errPathNotFound, nAny, [7]⟩]) ∧
    anyMatcher_YAML yamlParse yamlGetE yamlUpdateRO yamlMarshal (any [[7], [2]] false) [10, 20, 30] = ([10, 20, 63], []) ∧
    anyMatcher_YAML yamlParse yamlGetE yamlUpdateRO yamlMarshal (any [[2]]) [255, 20, 30] =
      ([255, 20, 30], [⟨eParse, nAny, [42]⟩]) := by decide

/-! ### 2.5 `typeMatcher.YAML` -/

def typeYNext (yamlGet : YFile → Text → YPath × YNode × Bool × Err) (yamlGetValue : YNode → Text × Err)
    (yamlUpdate : YFile → YPath → Text → YFile × Err) (typeCheckFn : Text → Err) (typePlaceholderFn : Text → Text)
    (f : YFile) (p : Text) : YFile :=
  if (yamlGet f p).2.2.2.notNil then f
  else if (yamlGet f p).2.2.1 = false then f
  else if (yamlGetValue (yamlGet f p).2.1).2.notNil then f
  else if (typeCheckFn (yamlGetValue (yamlGet f p).2.1).1).notNil then f
  else (yamlUpdate f (yamlGet f p).1 (typePlaceholderFn (yamlGetValue (yamlGet f p).2.1).1)).1

def typeYErr (yamlGet : YFile → Text → YPath × YNode × Bool × Err) (yamlGetValue : YNode → Text × Err)
    (yamlUpdate : YFile → YPath → Text → YFile × Err) (typeCheckFn : Text → Err) (typePlaceholderFn : Text → Text)
    (t : TypeMatcher) (f : YFile) (p : Text) : Option Err :=
  if (yamlGet f p).2.2.2.notNil then some (yamlGet f p).2.2.2
  else if (yamlGet f p).2.2.1 = false then (if t.errOnMissingPath then some (Err.other pathNotFound) else none)
  else if (yamlGetValue (yamlGet f p).2.1).2.notNil then some (yamlGetValue (yamlGet f p).2.1).2
  else if (typeCheckFn (yamlGetValue (yamlGet f p).2.1).1).notNil then some (typeCheckFn (yamlGetValue (yamlGet f p).2.1).1)
  else if (yamlUpdate f (yamlGet f p).1 (typePlaceholderFn (yamlGetValue (yamlGet f p).2.1).1)).2.notNil then
    some (yamlUpdate f (yamlGet f p).1 (typePlaceholderFn (yamlGetValue (yamlGet f p).2.1).1)).2
  else none

def typeYStep (yamlGet : YFile → Text → YPath × YNode × Bool × Err) (yamlGetValue : YNode → Text × Err)
    (yamlUpdate : YFile → YPath → Text → YFile × Err) (typeCheckFn : Text → Err) (typePlaceholderFn : Text → Text)
    (t : TypeMatcher) : YFile × List MErr → Text → YFile × List MErr :=
  pathStep t.name (typeYNext yamlGet yamlGetValue yamlUpdate typeCheckFn typePlaceholderFn)
    (typeYErr yamlGet yamlGetValue yamlUpdate typeCheckFn typePlaceholderFn t)

theorem typeMatcher_YAML_eq (yamlParse : Text → YFile × Err) (yamlGet : YFile → Text → YPath × YNode × Bool × Err)
    (yamlGetValue : YNode → Text × Err) (yamlUpdate : YFile → YPath → Text → YFile × Err)
    (yamlMarshal : YFile → Bool → Text) (typeCheckFn : Text → Err) (typePlaceholderFn : Text → Text)
    (t : TypeMatcher) (b : Text) :
    typeMatcher_YAML yamlParse yamlGet yamlGetValue yamlUpdate yamlMarshal typeCheckFn typePlaceholderFn t b =
      if (yamlParse b).2.notNil then (b, [{ reason := (yamlParse b).2, matcher := t.name, path := [42] }])
      else
        (yamlMarshal (t.paths.foldl (typeYStep yamlGet yamlGetValue yamlUpdate typeCheckFn typePlaceholderFn t)
            ((yamlParse b).1, [])).1 (hasSuffix b [10]),
         (t.paths.foldl (typeYStep yamlGet yamlGetValue yamlUpdate typeCheckFn typePlaceholderFn t)
            ((yamlParse b).1, [])).2) := by
  unfold typeMatcher_YAML
  simp only [Id.run, bind, pure]
  rw [forIn_swap_foldl t.paths _ (typeYStep yamlGet yamlGetValue yamlUpdate typeCheckFn typePlaceholderFn t)]
  · rfl
  · intro p s
    unfold typeYStep pathStep typeYNext typeYErr typeMatcher_matcherError pathNotFound
    simp only [Id.run, pure]
    cases (yamlGet s.2 p).2.2.2.notNil <;> cases (yamlGet s.2 p).2.2.1 <;> cases t.errOnMissingPath <;>
      cases (yamlGetValue (yamlGet s.2 p).2.1).2.notNil <;>
      cases (typeCheckFn (yamlGetValue (yamlGet s.2 p).2.1).1).notNil <;>
      cases (yamlUpdate s.2 (yamlGet s.2 p).1 (typePlaceholderFn (yamlGetValue (yamlGet s.2 p).2.1).1)).2.notNil <;> simp

example :
    open MToy in
    typeMatcher_YAML yamlParse yamlGetE yamlGetValue yamlUpdateRO yamlMarshal chk ph (type [[], [0], [7], [2], [1]])
        [10, 20, 90, 10] =
      ([0, 78, 90, 10], [⟨eGet, nType, []⟩, ⟨eRO, nType, [0]⟩, ⟨errPathNotFound, nType, [7]⟩, ⟨eBad, nType, [2]⟩]) ∧
    typeMatcher_YAML yamlParse yamlGetE yamlGetValue yamlUpdateRO yamlMarshal chk ph (type [[7], [1]] false)
        [10, 20, 90, 10] = ([10, 78, 90, 10], []) ∧
    typeMatcher_YAML yamlParse yamlGetE yamlGetValue yamlUpdateRO yamlMarshal chk ph (type [[1]]) [255, 20] =
      ([255, 20], [⟨eParse, nType, [42]⟩]) := by decide

/-! ### 2.6 `customMatcher.YAML` -/

def customYAMLSpec (yamlParse : Text → YFile × Err) (yamlGet : YFile → Text → YPath × YNode × Bool × Err)
    (yamlGetValue : YNode → Text × Err) (yamlUpdate : YFile → YPath → Text → YFile × Err)
    (yamlMarshal : YFile → Bool → Text) (c : CustomMatcher) (b : Text) : Text × List MErr :=
  let f := (yamlParse b).1
  let g := yamlGet f c.path
  let v := yamlGetValue g.2.1
  let r := c.callback v.1
  let u := yamlUpdate f g.1 r.1
  let fail (e : Err) : Text × List MErr := ([], [{ reason := e, matcher := c.name, path := c.path }])
  if (yamlParse b).2.notNil then fail (yamlParse b).2
  else if g.2.2.2.notNil then fail g.2.2.2
  else if g.2.2.1 = false then (if c.errOnMissingPath then fail (Err.other pathNotFound) else (b, []))
  else if v.2.notNil then fail v.2
  else if r.2.notNil then fail r.2
  else if u.2.notNil then fail u.2
  else (yamlMarshal u.1 (hasSuffix b [10]), [])

theorem customMatcher_YAML_eq (yamlParse : Text → YFile × Err) (yamlGet : YFile → Text → YPath × YNode × Bool × Err)
    (yamlGetValue : YNode → Text × Err) (yamlUpdate : YFile → YPath → Text → YFile × Err)
    (yamlMarshal : YFile → Bool → Text) (c : CustomMatcher) (b : Text) :
    customMatcher_YAML yamlParse yamlGet yamlGetValue yamlUpdate yamlMarshal c b =
      customYAMLSpec yamlParse yamlGet yamlGetValue yamlUpdate yamlMarshal c b := by
  unfold customMatcher_YAML customYAMLSpec customMatcher_matcherError pathNotFound
  simp only [Id.run, pure]
  cases (yamlParse b).2.notNil <;> cases (yamlGet (yamlParse b).1 c.path).2.2.2.notNil <;>
    cases (yamlGet (yamlParse b).1 c.path).2.2.1 <;> cases c.errOnMissingPath <;>
    cases (yamlGetValue (yamlGet (yamlParse b).1 c.path).2.1).2.notNil <;>
    cases (c.callback (yamlGetValue (yamlGet (yamlParse b).1 c.path).2.1).1).2.notNil <;>
    cases (yamlUpdate (yamlParse b).1 (yamlGet (yamlParse b).1 c.path).1
      (c.callback (yamlGetValue (yamlGet (yamlParse b).1 c.path).2.1).1).1).2.notNil <;> rfl

/-- success; update error; missing (error / input bytes unchanged); get error; callback error;
    parse error — every failure returns nil and exactly one error -/
example :
    open MToy in
    customMatcher_YAML yamlParse yamlGetE yamlGetValue yamlUpdateRO yamlMarshal (custom [1]) [10, 20, 30, 10] =
      ([10, 21, 30, 10], []) ∧
    customMatcher_YAML yamlParse yamlGetE yamlGetValue yamlUpdateRO yamlMarshal (custom [0]) [10, 20, 30, 10] =
      ([], [⟨eRO, nCustom, [0]⟩]) ∧
    customMatcher_YAML yamlParse yamlGetE yamlGetValue yamlUpdateRO yamlMarshal (custom [7]) [10, 20, 30, 10] =
      ([], [⟨errPathNotFound, nCustom, [7]⟩]) ∧
    customMatcher_YAML yamlParse yamlGetE yamlGetValue yamlUpdateRO yamlMarshal (custom [7] false) [10, 20, 30, 10] =
      ([10, 20, 30, 10], []) ∧
    customMatcher_YAML yamlParse yamlGetE yamlGetValue yamlUpdateRO yamlMarshal (custom []) [10, 20, 30, 10] =
      ([], [⟨eGet, nCustom, []⟩]) ∧
    customMatcher_YAML yamlParse yamlGetE yamlGetValue yamlUpdateRO yamlMarshal (custom [1]) [10, 220, 30, 10] =
      ([], [⟨eHi, nCustom, [1]⟩]) ∧
    customMatcher_YAML yamlParse yamlGetE yamlGetValue yamlUpdateRO yamlMarshal (custom [1]) [255, 20] =
      ([], [⟨eParse, nCustom, [1]⟩]) := by decide

/-! ## 3. error accounting (C17: one failure that names every failing matcher and path) -/

/-- document and errors of `anyMatcher.JSON`, separately -/
theorem anyMatcher_JSON_closed (gjsonGet : Text → Text → GResult) (sjsonSet : Text → Text → Text → Text × Err)
    (a : AnyMatcher) (b : Text) :
    anyMatcher_JSON gjsonGet sjsonSet a b =
      (a.paths.foldl (anyNext gjsonGet sjsonSet a) b,
       errsOf a.name (anyNext gjsonGet sjsonSet a) (anyErr gjsonGet sjsonSet a) b a.paths) := by
  rw [anyMatcher_JSON_eq, anyStep_eq_pathStep, foldl_pathStep, List.nil_append]

/-- when does a path produce an error, and which: it is missing and `errOnMissingPath`, or its
    set failed -/
theorem anyErr_eq_some_iff (gjsonGet : Text → Text → GResult) (sjsonSet : Text → Text → Text → Text × Err)
    (a : AnyMatcher) (d p : Text) (e : Err) :
    anyErr gjsonGet sjsonSet a d p = some e ↔
      ((gjsonGet d p).exists = false ∧ a.errOnMissingPath = true ∧ e = Err.other pathNotFound) ∨
      ((gjsonGet d p).exists = true ∧ (sjsonSet d p a.placeholder).2.notNil = true ∧
        e = (sjsonSet d p a.placeholder).2) := by
  unfold anyErr
  cases (gjsonGet d p).exists <;> cases a.errOnMissingPath <;>
    cases (sjsonSet d p a.placeholder).2.notNil <;> simp [eq_comm]

/-- **`anyMatcher_JSON_errors`**: the error list is exactly, in path order, one entry for every
    path that — on the document at the time it is reached — is missing (when `errOnMissingPath`)
    or whose set failed; the entry names `a.name` and that path -/
theorem anyMatcher_JSON_errors (gjsonGet : Text → Text → GResult) (sjsonSet : Text → Text → Text → Text × Err)
    (a : AnyMatcher) (b : Text) :
    (anyMatcher_JSON gjsonGet sjsonSet a b).2 =
      (withDocs (anyNext gjsonGet sjsonSet a) b a.paths).filterMap (fun x =>
        (anyErr gjsonGet sjsonSet a x.2 x.1).map (fun e => ({ reason := e, matcher := a.name, path := x.1 } : MErr))) := by
  rw [anyMatcher_JSON_closed]; rfl

/-- every error names the matcher and one of its paths; the error paths, in order, are a sub-list
    of the matcher's paths (at most one error per path occurrence) -/
theorem anyMatcher_JSON_errors_named (gjsonGet : Text → Text → GResult) (sjsonSet : Text → Text → Text → Text × Err)
    (a : AnyMatcher) (b : Text) :
    (∀ e ∈ (anyMatcher_JSON gjsonGet sjsonSet a b).2, e.matcher = a.name ∧ e.path ∈ a.paths) ∧
    ((anyMatcher_JSON gjsonGet sjsonSet a b).2.map (·.path)).Sublist a.paths ∧
    (anyMatcher_JSON gjsonGet sjsonSet a b).2.length ≤ a.paths.length := by
  rw [anyMatcher_JSON_closed]
  exact ⟨fun e he => ⟨(errsOf_named _ _ _ _ _ e he).1, (errsOf_named _ _ _ _ _ e he).2.1⟩,
    errsOf_paths_sublist _ _ _ _ _, errsOf_length_le _ _ _ _ _⟩

/-- **`missing_path_ignored`**: `ErrOnMissingPath(false)` and no set errors ⇒ no errors at all -/
theorem anyMatcher_JSON_missing_path_ignored (gjsonGet : Text → Text → GResult)
    (sjsonSet : Text → Text → Text → Text × Err) (a : AnyMatcher) (b : Text)
    (he : a.errOnMissingPath = false) (hs : ∀ d p v, (sjsonSet d p v).2 = Err.nil) :
    (anyMatcher_JSON gjsonGet sjsonSet a b).2 = [] := by
  rw [anyMatcher_JSON_closed]
  apply (errsOf_eq_nil_iff _ _ _ _ _).mpr
  intro x _
  unfold anyErr
  simp [he, hs, Err.notNil]

/-- the toy instance: every path with the document at the time it is reached, and the resulting
    error paths (position 0 read-only, position 7 missing) -/
example :
    open MToy in
    withDocs (anyNext gjsonGet sjsonSetRO (any [[0], [1], [7], [2]])) [10, 20, 30] [[0], [1], [7], [2]] =
      [([0], [10, 20, 30]), ([1], [10, 20, 30]), ([7], [10, 63, 30]), ([2], [10, 63, 30])] ∧
    (anyMatcher_JSON gjsonGet sjsonSetRO (any [[0], [1], [7], [2]]) [10, 20, 30]).2.map (·.path) = [[0], [7]] ∧
    (anyMatcher_JSON gjsonGet sjsonSetRO (any [[0], [1], [7], [2]]) [10, 20, 30]).1 = [10, 63, 63] := by decide

example : (anyMatcher_JSON MToy.gjsonGet MToy.sjsonSet (MToy.any [[5], [1]] false) [10, 20, 30]).2 = [] :=
  anyMatcher_JSON_missing_path_ignored _ _ _ _ rfl (fun _ _ _ => rfl)

/-- the name used by C17 -/
theorem missing_path_ignored (gjsonGet : Text → Text → GResult)
    (sjsonSet : Text → Text → Text → Text × Err) (a : AnyMatcher) (b : Text)
    (he : a.errOnMissingPath = false) (hs : ∀ d p v, (sjsonSet d p v).2 = Err.nil) :
    (anyMatcher_JSON gjsonGet sjsonSet a b).2 = [] :=
  anyMatcher_JSON_missing_path_ignored gjsonGet sjsonSet a b he hs

theorem typeMatcher_JSON_closed (gjsonGet : Text → Text → GResult) (sjsonSet : Text → Text → Text → Text × Err)
    (typeCheckFn : Text → Err) (typePlaceholderFn : Text → Text) (t : TypeMatcher) (b : Text) :
    typeMatcher_JSON gjsonGet sjsonSet typeCheckFn typePlaceholderFn t b =
      (t.paths.foldl (typeNext gjsonGet sjsonSet typeCheckFn typePlaceholderFn) b,
       errsOf t.name (typeNext gjsonGet sjsonSet typeCheckFn typePlaceholderFn)
        (typeErr gjsonGet sjsonSet typeCheckFn typePlaceholderFn t) b t.paths) := by
  rw [typeMatcher_JSON_eq, typeStep_eq_pathStep, foldl_pathStep, List.nil_append]

theorem typeErr_eq_some_iff (gjsonGet : Text → Text → GResult) (sjsonSet : Text → Text → Text → Text × Err)
    (typeCheckFn : Text → Err) (typePlaceholderFn : Text → Text) (t : TypeMatcher) (d p : Text) (e : Err) :
    typeErr gjsonGet sjsonSet typeCheckFn typePlaceholderFn t d p = some e ↔
      ((gjsonGet d p).exists = false ∧ t.errOnMissingPath = true ∧ e = Err.other pathNotFound) ∨
      ((gjsonGet d p).exists = true ∧ (typeCheckFn (gjsonGet d p).value).notNil = true ∧
        e = typeCheckFn (gjsonGet d p).value) ∨
      ((gjsonGet d p).exists = true ∧ (typeCheckFn (gjsonGet d p).value).notNil = false ∧
        (sjsonSet d p (typePlaceholderFn (gjsonGet d p).value)).2.notNil = true ∧
        e = (sjsonSet d p (typePlaceholderFn (gjsonGet d p).value)).2) := by
  unfold typeErr
  cases (gjsonGet d p).exists <;> cases t.errOnMissingPath <;>
    cases (typeCheckFn (gjsonGet d p).value).notNil <;>
    cases (sjsonSet d p (typePlaceholderFn (gjsonGet d p).value)).2.notNil <;> simp [eq_comm]

/-- **`typeMatcher_JSON_errors`**: one entry, in path order, for every path that is missing (when
    `errOnMissingPath`), holds a value of the wrong type, or whose set failed -/
theorem typeMatcher_JSON_errors (gjsonGet : Text → Text → GResult) (sjsonSet : Text → Text → Text → Text × Err)
    (typeCheckFn : Text → Err) (typePlaceholderFn : Text → Text) (t : TypeMatcher) (b : Text) :
    (typeMatcher_JSON gjsonGet sjsonSet typeCheckFn typePlaceholderFn t b).2 =
      (withDocs (typeNext gjsonGet sjsonSet typeCheckFn typePlaceholderFn) b t.paths).filterMap (fun x =>
        (typeErr gjsonGet sjsonSet typeCheckFn typePlaceholderFn t x.2 x.1).map
          (fun e => ({ reason := e, matcher := t.name, path := x.1 } : MErr))) := by
  rw [typeMatcher_JSON_closed]; rfl

theorem typeMatcher_JSON_errors_named (gjsonGet : Text → Text → GResult) (sjsonSet : Text → Text → Text → Text × Err)
    (typeCheckFn : Text → Err) (typePlaceholderFn : Text → Text) (t : TypeMatcher) (b : Text) :
    (∀ e ∈ (typeMatcher_JSON gjsonGet sjsonSet typeCheckFn typePlaceholderFn t b).2,
      e.matcher = t.name ∧ e.path ∈ t.paths) ∧
    ((typeMatcher_JSON gjsonGet sjsonSet typeCheckFn typePlaceholderFn t b).2.map (·.path)).Sublist t.paths ∧
    (typeMatcher_JSON gjsonGet sjsonSet typeCheckFn typePlaceholderFn t b).2.length ≤ t.paths.length := by
  rw [typeMatcher_JSON_closed]
  exact ⟨fun e he => ⟨(errsOf_named _ _ _ _ _ e he).1, (errsOf_named _ _ _ _ _ e he).2.1⟩,
    errsOf_paths_sublist _ _ _ _ _, errsOf_length_le _ _ _ _ _⟩

theorem typeMatcher_JSON_missing_path_ignored (gjsonGet : Text → Text → GResult)
    (sjsonSet : Text → Text → Text → Text × Err) (typeCheckFn : Text → Err) (typePlaceholderFn : Text → Text)
    (t : TypeMatcher) (b : Text)
    (he : t.errOnMissingPath = false) (hc : ∀ v, typeCheckFn v = Err.nil) (hs : ∀ d p v, (sjsonSet d p v).2 = Err.nil) :
    (typeMatcher_JSON gjsonGet sjsonSet typeCheckFn typePlaceholderFn t b).2 = [] := by
  rw [typeMatcher_JSON_closed]
  apply (errsOf_eq_nil_iff _ _ _ _ _).mpr
  intro x _
  unfold typeErr
  simp [he, hs, hc, Err.notNil]

/-- **custom matcher: at most one error, and then no document** (never a partially processed one);
    the error names the matcher and its path -/
theorem customMatcher_JSON_one_error (gjsonGet : Text → Text → GResult) (sjsonSet : Text → Text → Text → Text × Err)
    (c : CustomMatcher) (b : Text) :
    (customMatcher_JSON gjsonGet sjsonSet c b).2 = [] ∨
    ∃ e, customMatcher_JSON gjsonGet sjsonSet c b = ([], [{ reason := e, matcher := c.name, path := c.path }]) := by
  rw [customMatcher_JSON_eq]
  unfold customJSONSpec
  cases (gjsonGet b c.path).exists <;> cases c.errOnMissingPath <;>
    cases (c.callback (gjsonGet b c.path).value).2.notNil <;>
    cases (sjsonSet b c.path (c.callback (gjsonGet b c.path).value).1).2.notNil <;> simp

theorem customMatcher_JSON_errors (gjsonGet : Text → Text → GResult) (sjsonSet : Text → Text → Text → Text × Err)
    (c : CustomMatcher) (b : Text) :
    (customMatcher_JSON gjsonGet sjsonSet c b).2.length ≤ 1 ∧
    ((customMatcher_JSON gjsonGet sjsonSet c b).2 ≠ [] → (customMatcher_JSON gjsonGet sjsonSet c b).1 = []) ∧
    (∀ e ∈ (customMatcher_JSON gjsonGet sjsonSet c b).2, e.matcher = c.name ∧ e.path = c.path) := by
  rcases customMatcher_JSON_one_error gjsonGet sjsonSet c b with h | ⟨e, h⟩
  · rw [h]; simp
  · rw [h]; simp

/-- a missing path with `ErrOnMissingPath(false)`: the input comes back unchanged, no error -/
theorem customMatcher_JSON_missing_path_ignored (gjsonGet : Text → Text → GResult)
    (sjsonSet : Text → Text → Text → Text × Err) (c : CustomMatcher) (b : Text)
    (hm : (gjsonGet b c.path).exists = false) (he : c.errOnMissingPath = false) :
    customMatcher_JSON gjsonGet sjsonSet c b = (b, []) := by
  rw [customMatcher_JSON_eq]; unfold customJSONSpec; simp [hm, he]

theorem customMatcher_YAML_one_error (yamlParse : Text → YFile × Err) (yamlGet : YFile → Text → YPath × YNode × Bool × Err)
    (yamlGetValue : YNode → Text × Err) (yamlUpdate : YFile → YPath → Text → YFile × Err)
    (yamlMarshal : YFile → Bool → Text) (c : CustomMatcher) (b : Text) :
    (customMatcher_YAML yamlParse yamlGet yamlGetValue yamlUpdate yamlMarshal c b).2 = [] ∨
    ∃ e, customMatcher_YAML yamlParse yamlGet yamlGetValue yamlUpdate yamlMarshal c b =
      ([], [{ reason := e, matcher := c.name, path := c.path }]) := by
  rw [customMatcher_YAML_eq]
  unfold customYAMLSpec
  dsimp only
  cases (yamlParse b).2.notNil <;> cases (yamlGet (yamlParse b).1 c.path).2.2.2.notNil <;>
    cases (yamlGet (yamlParse b).1 c.path).2.2.1 <;> cases c.errOnMissingPath <;>
    cases (yamlGetValue (yamlGet (yamlParse b).1 c.path).2.1).2.notNil <;>
    cases (c.callback (yamlGetValue (yamlGet (yamlParse b).1 c.path).2.1).1).2.notNil <;>
    cases (yamlUpdate (yamlParse b).1 (yamlGet (yamlParse b).1 c.path).1
      (c.callback (yamlGetValue (yamlGet (yamlParse b).1 c.path).2.1).1).1).2.notNil <;> simp

theorem customMatcher_YAML_errors (yamlParse : Text → YFile × Err) (yamlGet : YFile → Text → YPath × YNode × Bool × Err)
    (yamlGetValue : YNode → Text × Err) (yamlUpdate : YFile → YPath → Text → YFile × Err)
    (yamlMarshal : YFile → Bool → Text) (c : CustomMatcher) (b : Text) :
    let r := customMatcher_YAML yamlParse yamlGet yamlGetValue yamlUpdate yamlMarshal c b
    r.2.length ≤ 1 ∧ (r.2 ≠ [] → r.1 = []) ∧ (∀ e ∈ r.2, e.matcher = c.name ∧ e.path = c.path) := by
  intro r
  rcases customMatcher_YAML_one_error yamlParse yamlGet yamlGetValue yamlUpdate yamlMarshal c b with h | ⟨e, h⟩
  · simp only [r]; rw [h]; simp
  · simp only [r]; rw [h]; simp

/-- document and errors of `anyMatcher.YAML` once the input parses -/
theorem anyMatcher_YAML_closed (yamlParse : Text → YFile × Err) (yamlGet : YFile → Text → YPath × YNode × Bool × Err)
    (yamlUpdate : YFile → YPath → Text → YFile × Err) (yamlMarshal : YFile → Bool → Text) (a : AnyMatcher) (b : Text)
    (hp : (yamlParse b).2.notNil = false) :
    anyMatcher_YAML yamlParse yamlGet yamlUpdate yamlMarshal a b =
      (yamlMarshal (a.paths.foldl (anyYNext yamlGet yamlUpdate a) (yamlParse b).1) (hasSuffix b [10]),
       errsOf a.name (anyYNext yamlGet yamlUpdate a) (anyYErr yamlGet yamlUpdate a) (yamlParse b).1 a.paths) := by
  rw [anyMatcher_YAML_eq]
  simp only [hp, Bool.false_eq_true, ↓reduceIte, anyYStep, foldl_pathStep, List.nil_append]

/-- a parse error: the input comes back, one error with path "*" -/
theorem anyMatcher_YAML_parse_error (yamlParse : Text → YFile × Err) (yamlGet : YFile → Text → YPath × YNode × Bool × Err)
    (yamlUpdate : YFile → YPath → Text → YFile × Err) (yamlMarshal : YFile → Bool → Text) (a : AnyMatcher) (b : Text)
    (hp : (yamlParse b).2.notNil = true) :
    anyMatcher_YAML yamlParse yamlGet yamlUpdate yamlMarshal a b =
      (b, [{ reason := (yamlParse b).2, matcher := a.name, path := [42] }]) := by
  rw [anyMatcher_YAML_eq]; simp only [hp, ↓reduceIte]

theorem typeMatcher_YAML_closed (yamlParse : Text → YFile × Err) (yamlGet : YFile → Text → YPath × YNode × Bool × Err)
    (yamlGetValue : YNode → Text × Err) (yamlUpdate : YFile → YPath → Text → YFile × Err)
    (yamlMarshal : YFile → Bool → Text) (typeCheckFn : Text → Err) (typePlaceholderFn : Text → Text)
    (t : TypeMatcher) (b : Text) (hp : (yamlParse b).2.notNil = false) :
    typeMatcher_YAML yamlParse yamlGet yamlGetValue yamlUpdate yamlMarshal typeCheckFn typePlaceholderFn t b =
      (yamlMarshal (t.paths.foldl (typeYNext yamlGet yamlGetValue yamlUpdate typeCheckFn typePlaceholderFn) (yamlParse b).1)
          (hasSuffix b [10]),
       errsOf t.name (typeYNext yamlGet yamlGetValue yamlUpdate typeCheckFn typePlaceholderFn)
        (typeYErr yamlGet yamlGetValue yamlUpdate typeCheckFn typePlaceholderFn t) (yamlParse b).1 t.paths) := by
  rw [typeMatcher_YAML_eq]
  simp only [hp, Bool.false_eq_true, ↓reduceIte, typeYStep, foldl_pathStep, List.nil_append]

theorem typeMatcher_YAML_parse_error (yamlParse : Text → YFile × Err) (yamlGet : YFile → Text → YPath × YNode × Bool × Err)
    (yamlGetValue : YNode → Text × Err) (yamlUpdate : YFile → YPath → Text → YFile × Err)
    (yamlMarshal : YFile → Bool → Text) (typeCheckFn : Text → Err) (typePlaceholderFn : Text → Text)
    (t : TypeMatcher) (b : Text) (hp : (yamlParse b).2.notNil = true) :
    typeMatcher_YAML yamlParse yamlGet yamlGetValue yamlUpdate yamlMarshal typeCheckFn typePlaceholderFn t b =
      (b, [{ reason := (yamlParse b).2, matcher := t.name, path := [42] }]) := by
  rw [typeMatcher_YAML_eq]; simp only [hp, ↓reduceIte]

/-- the YAML loops: every error names the matcher and one of its paths or "*" -/
theorem anyMatcher_YAML_errors_named (yamlParse : Text → YFile × Err) (yamlGet : YFile → Text → YPath × YNode × Bool × Err)
    (yamlUpdate : YFile → YPath → Text → YFile × Err) (yamlMarshal : YFile → Bool → Text) (a : AnyMatcher) (b : Text) :
    ∀ e ∈ (anyMatcher_YAML yamlParse yamlGet yamlUpdate yamlMarshal a b).2,
      e.matcher = a.name ∧ (e.path ∈ a.paths ∨ e.path = [42]) := by
  intro e he
  cases hp : (yamlParse b).2.notNil with
  | true =>
    rw [anyMatcher_YAML_parse_error _ _ _ _ _ _ hp] at he
    simp only [List.mem_singleton] at he
    subst he; exact ⟨rfl, .inr rfl⟩
  | false =>
    rw [anyMatcher_YAML_closed _ _ _ _ _ _ hp] at he
    exact ⟨(errsOf_named _ _ _ _ _ e he).1, .inl (errsOf_named _ _ _ _ _ e he).2.1⟩

theorem typeMatcher_YAML_errors_named (yamlParse : Text → YFile × Err) (yamlGet : YFile → Text → YPath × YNode × Bool × Err)
    (yamlGetValue : YNode → Text × Err) (yamlUpdate : YFile → YPath → Text → YFile × Err)
    (yamlMarshal : YFile → Bool → Text) (typeCheckFn : Text → Err) (typePlaceholderFn : Text → Text)
    (t : TypeMatcher) (b : Text) :
    ∀ e ∈ (typeMatcher_YAML yamlParse yamlGet yamlGetValue yamlUpdate yamlMarshal typeCheckFn typePlaceholderFn t b).2,
      e.matcher = t.name ∧ (e.path ∈ t.paths ∨ e.path = [42]) := by
  intro e he
  cases hp : (yamlParse b).2.notNil with
  | true =>
    rw [typeMatcher_YAML_parse_error _ _ _ _ _ _ _ _ _ hp] at he
    simp only [List.mem_singleton] at he
    subst he; exact ⟨rfl, .inr rfl⟩
  | false =>
    rw [typeMatcher_YAML_closed _ _ _ _ _ _ _ _ _ hp] at he
    exact ⟨(errsOf_named _ _ _ _ _ e he).1, .inl (errsOf_named _ _ _ _ _ e he).2.1⟩

/-! ## 4. ties to the abstract loops of C16 -/

section Lens
variable {D : Type}

/-- one iteration of `C16.maskWith` -/
def mwStep (get : D → Text → Option Text) (set : D → Text → Text → D) (f : Text → Text) (d : D) (p : Text) : D :=
  match get d p with
  | some v => set d p (f v)
  | none => d

theorem mwStep_some {get : D → Text → Option Text} {set : D → Text → Text → D} {f : Text → Text} {d : D} {p v : Text}
    (h : get d p = some v) : mwStep get set f d p = set d p (f v) := by
  simp only [mwStep, h]

theorem mwStep_none {get : D → Text → Option Text} {set : D → Text → Text → D} {f : Text → Text} {d : D} {p : Text}
    (h : get d p = none) : mwStep get set f d p = d := by
  simp only [mwStep, h]

theorem maskWith_eq_foldl (get : D → Text → Option Text) (set : D → Text → Text → D) (f : Text → Text)
    (M : List Text) (d : D) : C16.maskWith get set f M d = M.foldl (mwStep get set f) d := by
  induction M generalizing d with
  | nil => rfl
  | cons p M ih =>
    rw [List.foldl_cons, ← ih]
    cases h : get d p with
    | none => simp only [C16.maskWith, List.foldl_cons, h, mwStep_none h]
    | some v => simp only [C16.maskWith, List.foldl_cons, h, mwStep_some h]

theorem mask_eq_foldl (set : D → Text → Text → D) (M : List Text) (ph : Text) (d : D) :
    C16.mask set M ph d = M.foldl (fun d p => set d p ph) d := rfl

/-- with a constant placeholder and every path present when it is reached, `maskWith` is `mask` -/
theorem maskWith_const_eq_mask (get : D → Text → Option Text) (set : D → Text → Text → D) (ph : Text)
    (M : List Text) (d : D) (hall : ∀ x ∈ withDocs (fun d p => set d p ph) d M, get x.2 x.1 ≠ none) :
    withDocs (fun d p => set d p ph) d M = withDocs (mwStep get set (fun _ => ph)) d M ∧
    C16.mask set M ph d = C16.maskWith get set (fun _ => ph) M d := by
  rw [maskWith_eq_foldl, mask_eq_foldl]
  apply withDocs_congr
  intro x hx
  cases h : get x.2 x.1 with
  | none => exact absurd h (hall x hx)
  | some v => rw [mwStep_some h]

/-- under the lens laws, pairwise disjoint paths that exist in the input still exist when they are
    reached -/
theorem paths_persist {get : D → Text → Option Text} {set : D → Text → Text → D}
    {Disj : Text → Text → Prop} {overlap : Text → Text → Text → Option Text}
    (h : C16.LensSpec get set Disj overlap) (ph : Text) (M : List Text) (d : D)
    (hM : M.Pairwise Disj) (hex : ∀ p ∈ M, get d p ≠ none) :
    ∀ x ∈ withDocs (fun d p => set d p ph) d M, get x.2 x.1 ≠ none := by
  induction M generalizing d with
  | nil => intro x hx; cases hx
  | cons p M ih =>
    obtain ⟨hp, hM'⟩ := List.pairwise_cons.mp hM
    intro x hx
    rcases List.mem_cons.mp hx with rfl | hx
    · exact hex p (by simp)
    · refine ih (set d p ph) hM' ?_ x hx
      intro q hq
      rw [h.get_set_other d p q ph (hp q hq)]
      exact hex q (by simp [hq])

/-- what a path of a Type-like loop needs in order to succeed on `d`: the value found passes the
    check; a missing path is tolerated only with `ErrOnMissingPath(false)` -/
def PathOK (get : D → Text → Option Text) (chk : Text → Err) (eomp : Bool) (d : D) (p : Text) : Prop :=
  match get d p with
  | some v => chk v = Err.nil
  | none => eomp = false

instance (get : D → Text → Option Text) (chk : Text → Err) (eomp : Bool) (d : D) (p : Text) :
    Decidable (PathOK get chk eomp d p) :=
  show Decidable (match get d p with | some v => chk v = Err.nil | none => eomp = false) from
  match get d p with
  | some v => inferInstanceAs (Decidable (chk v = Err.nil))
  | none => inferInstanceAs (Decidable (eomp = false))

/-- a generic loop that, on every (path, document) reached by `maskWith`, moves like `maskWith`
    and reports nothing, IS `maskWith` and reports nothing -/
theorem loop_eq_maskWith (get : D → Text → Option Text) (set : D → Text → Text → D) (f : Text → Text)
    (name : Text) (next : D → Text → D) (err : D → Text → Option Err) (M : List Text) (d : D)
    (h : ∀ x ∈ withDocs (mwStep get set f) d M, next x.2 x.1 = mwStep get set f x.2 x.1 ∧ err x.2 x.1 = none) :
    M.foldl next d = C16.maskWith get set f M d ∧ errsOf name next err d M = [] := by
  obtain ⟨hw, hf⟩ := withDocs_congr (mwStep get set f) next d M (fun x hx => (h x hx).1.symm)
  refine ⟨by rw [maskWith_eq_foldl, hf], (errsOf_eq_nil_iff _ _ _ _ _).mpr ?_⟩
  intro x hx
  rw [← hw] at hx
  exact (h x hx).2

end Lens

/-! ### 4.1 JSON -/

/-- how `gjson.GetBytes` / `sjson.SetBytesOptions` implement an abstract lens on `Doc := Text`,
    `Path := Text`, `Val := Text` (no set errors) -/
structure JSONLens (gjsonGet : Text → Text → GResult) (sjsonSet : Text → Text → Text → Text × Err)
    (get : Text → Text → Option Text) (set : Text → Text → Text → Text) : Prop where
  exists_iff : ∀ d p, (gjsonGet d p).exists = (get d p).isSome
  value_eq : ∀ d p v, get d p = some v → (gjsonGet d p).value = v
  set_eq : ∀ d p v, sjsonSet d p v = (set d p v, Err.nil)

theorem MToy.lens : JSONLens MToy.gjsonGet MToy.sjsonSet MToy.get MToy.set where
  exists_iff _ _ := rfl
  value_eq d p v h := by simp [MToy.gjsonGet, h]
  set_eq _ _ _ := rfl

namespace MToy
/-- a second toy, satisfying ALL lens laws of C16: the only path is the empty path, which
    addresses the whole document -/
def wget (d p : Text) : Option Text := if p = [] then some d else none
def wset (d p v : Text) : Text := if p = [] then v else d
def wgjson (d p : Text) : GResult := ⟨decide (p = []), d⟩
def wsjson (d p v : Text) : Text × Err := (wset d p v, .nil)

theorem wspec : C16.LensSpec wget wset (fun p q => p ≠ [] ∨ q ≠ []) (fun _ _ v => some v) where
  get_set_same d p v h := by
    by_cases hp : p = [] <;> simp_all [wget, wset]
  get_set_other d p q v h := by
    by_cases hp : p = [] <;> by_cases hq : q = [] <;> simp_all [wget, wset]
  get_set_overlap d p q v h _ := by
    by_cases hp : p = [] <;> by_cases hq : q = [] <;> simp_all [wget, wset]
  ext a b h := by simpa [wget] using h []

theorem wlens : JSONLens wgjson wsjson wget wset where
  exists_iff d p := by by_cases hp : p = [] <;> simp [wgjson, wget, hp]
  value_eq d p v h := by by_cases hp : p = [] <;> simp_all [wgjson, wget]
  set_eq _ _ _ := rfl
end MToy

section JSON
variable {gjsonGet : Text → Text → GResult} {sjsonSet : Text → Text → Text → Text × Err}
  {get : Text → Text → Option Text} {set : Text → Text → Text → Text}

theorem typeNext_lens (h : JSONLens gjsonGet sjsonSet get set) (chk : Text → Err) (ph : Text → Text) (t : TypeMatcher)
    (d p : Text) (hok : PathOK get chk t.errOnMissingPath d p) :
    typeNext gjsonGet sjsonSet chk ph d p = mwStep get set ph d p ∧
    typeErr gjsonGet sjsonSet chk ph t d p = none := by
  unfold typeNext typeErr PathOK at *
  cases hg : get d p with
  | none =>
    rw [hg] at hok
    simp [h.exists_iff, hg, mwStep_none hg, hok]
  | some v =>
    rw [hg] at hok
    simp [h.exists_iff, hg, mwStep_some hg, h.value_eq d p v hg, hok, h.set_eq, Err.notNil]

/-- **Type, JSON**: the type check succeeds on the values found, missing paths only with
    `ErrOnMissingPath(false)` ⇒ the transliteration is `C16.maskWith` and reports nothing -/
theorem typeMatcher_JSON_lens (h : JSONLens gjsonGet sjsonSet get set) (chk : Text → Err) (ph : Text → Text)
    (t : TypeMatcher) (b : Text)
    (hok : ∀ x ∈ withDocs (mwStep get set ph) b t.paths, PathOK get chk t.errOnMissingPath x.2 x.1) :
    typeMatcher_JSON gjsonGet sjsonSet chk ph t b = (C16.maskWith get set ph t.paths b, []) := by
  rw [typeMatcher_JSON_closed]
  obtain ⟨h1, h2⟩ := loop_eq_maskWith get set ph t.name (typeNext gjsonGet sjsonSet chk ph)
    (typeErr gjsonGet sjsonSet chk ph t) t.paths b (fun x hx => typeNext_lens h chk ph t x.2 x.1 (hok x hx))
  rw [h1, h2]

/-- the version asked for: the check never fails, `ErrOnMissingPath(false)`; some paths may be
    missing -/
theorem typeMatcher_JSON_lens_missing (h : JSONLens gjsonGet sjsonSet get set) (chk : Text → Err) (ph : Text → Text)
    (t : TypeMatcher) (b : Text) (hc : ∀ v, chk v = Err.nil) (he : t.errOnMissingPath = false) :
    typeMatcher_JSON gjsonGet sjsonSet chk ph t b = (C16.maskWith get set ph t.paths b, []) := by
  apply typeMatcher_JSON_lens h
  intro x _
  unfold PathOK
  cases get x.2 x.1 <;> simp [hc, he]

/-- **Any, JSON** in general: without set errors the document is `maskWith` with the constant
    placeholder (a missing path is left alone) … -/
theorem anyMatcher_JSON_lens_maskWith (h : JSONLens gjsonGet sjsonSet get set) (a : AnyMatcher) (b : Text)
    (hok : ∀ x ∈ withDocs (mwStep get set (fun _ => a.placeholder)) b a.paths,
      get x.2 x.1 = none → a.errOnMissingPath = false) :
    anyMatcher_JSON gjsonGet sjsonSet a b = (C16.maskWith get set (fun _ => a.placeholder) a.paths b, []) := by
  rw [anyMatcher_JSON_eq, anyStep_eq_typeStep, ← typeMatcher_JSON_eq]
  apply typeMatcher_JSON_lens h
  intro x hx
  unfold PathOK
  cases hg : get x.2 x.1 with
  | none => exact hok x hx hg
  | some v => rfl

/-- … and **if every path exists in the document at the time it is reached, it is `C16.mask`** -/
theorem anyMatcher_JSON_lens (h : JSONLens gjsonGet sjsonSet get set) (a : AnyMatcher) (b : Text)
    (hall : ∀ x ∈ withDocs (fun d p => set d p a.placeholder) b a.paths, get x.2 x.1 ≠ none) :
    anyMatcher_JSON gjsonGet sjsonSet a b = (C16.mask set a.paths a.placeholder b, []) := by
  obtain ⟨hw, hm⟩ := maskWith_const_eq_mask get set a.placeholder a.paths b hall
  rw [hm]
  apply anyMatcher_JSON_lens_maskWith h
  intro x hx hg
  rw [← hw] at hx
  exact absurd hg (hall x hx)

/-- the same from the lens laws: pairwise disjoint paths that exist in the INPUT -/
theorem anyMatcher_JSON_lens_spec (h : JSONLens gjsonGet sjsonSet get set)
    {Disj : Text → Text → Prop} {overlap : Text → Text → Text → Option Text}
    (hl : C16.LensSpec get set Disj overlap) (a : AnyMatcher) (b : Text)
    (hM : a.paths.Pairwise Disj) (hex : ∀ p ∈ a.paths, get b p ≠ none) :
    anyMatcher_JSON gjsonGet sjsonSet a b = (C16.mask set a.paths a.placeholder b, []) :=
  anyMatcher_JSON_lens h a b (paths_persist hl a.placeholder a.paths b hM hex)

/-- hence C16's `masked_irrelevant` for the transliteration: two inputs that agree off the masked
    paths give the same document, whatever stands at the masked paths -/
theorem anyMatcher_JSON_masked_irrelevant (h : JSONLens gjsonGet sjsonSet get set)
    {Disj : Text → Text → Prop} {overlap : Text → Text → Text → Option Text}
    (hl : C16.LensSpec get set Disj overlap) (a : AnyMatcher) (b b' : Text)
    (hM : a.paths.Pairwise Disj) (hex : ∀ p ∈ a.paths, get b p ≠ none) (hex' : ∀ p ∈ a.paths, get b' p ≠ none)
    (hag : ∀ q, (∀ p ∈ a.paths, Disj p q) → get b q = get b' q) :
    anyMatcher_JSON gjsonGet sjsonSet a b = anyMatcher_JSON gjsonGet sjsonSet a b' := by
  rw [anyMatcher_JSON_lens_spec h hl a b hM hex, anyMatcher_JSON_lens_spec h hl a b' hM hex',
    C16.masked_irrelevant hl a.paths a.placeholder b b' hM hex hex' hag]

/-- **Custom, JSON**, general form: the callback succeeds on the value found (a missing path only
    with `ErrOnMissingPath(false)`) ⇒ `maskWith` on the single path with the callback's value -/
theorem customMatcher_JSON_lens_ok (h : JSONLens gjsonGet sjsonSet get set) (c : CustomMatcher) (b : Text)
    (hok : PathOK get (fun v => (c.callback v).2) c.errOnMissingPath b c.path) :
    customMatcher_JSON gjsonGet sjsonSet c b = (C16.maskWith get set (fun v => (c.callback v).1) [c.path] b, []) := by
  rw [customMatcher_JSON_eq, maskWith_eq_foldl]
  unfold customJSONSpec
  unfold PathOK at hok
  simp only [List.foldl_cons, List.foldl_nil]
  cases hg : get b c.path with
  | none =>
    rw [hg] at hok
    simp [h.exists_iff, hg, mwStep_none hg, hok]
  | some v =>
    rw [hg] at hok
    simp [h.exists_iff, hg, mwStep_some hg, h.value_eq b c.path v hg, hok, h.set_eq, Err.notNil]

/-- **Custom, JSON**: a callback `cb v = (f v, nil)` on a present path (or a missing one with
    `ErrOnMissingPath(false)`) is `maskWith f` on the single path -/
theorem customMatcher_JSON_lens (h : JSONLens gjsonGet sjsonSet get set) (c : CustomMatcher) (f : Text → Text)
    (b : Text) (hcb : ∀ v, c.callback v = (f v, Err.nil))
    (hm : c.errOnMissingPath = false ∨ get b c.path ≠ none) :
    customMatcher_JSON gjsonGet sjsonSet c b = (C16.maskWith get set f [c.path] b, []) := by
  have hf : (fun v => (c.callback v).1) = f := by funext v; rw [hcb]
  rw [← hf]
  apply customMatcher_JSON_lens_ok h
  unfold PathOK
  cases hg : get b c.path with
  | none =>
    rcases hm with hm | hm
    · exact hm
    · exact absurd hg hm
  | some v => simp [hcb]

end JSON

/-! non-vacuity of §4.1 on the toy libraries -/

/-- toy: both paths present ⇒ the transliteration IS `C16.mask`; and with a missing non-last path
    and `ErrOnMissingPath(false)` it is `maskWith` with the constant placeholder (later path masked) -/
example :
    open MToy in
    anyMatcher_JSON gjsonGet sjsonSet (any [[0], [2]]) [10, 20, 30] = (C16.mask set [[0], [2]] [63] [10, 20, 30], []) ∧
    C16.mask set [[0], [2]] [63] [10, 20, 30] = [63, 20, 63] ∧
    anyMatcher_JSON gjsonGet sjsonSet (any [[5], [2]] false) [10, 20, 30] =
      (C16.maskWith get set (fun _ => [63]) [[5], [2]] [10, 20, 30], []) ∧
    C16.maskWith get set (fun _ => [63]) [[5], [2]] [10, 20, 30] = [10, 20, 63] :=
  ⟨anyMatcher_JSON_lens MToy.lens _ _ (by decide), by decide,
   anyMatcher_JSON_lens_maskWith MToy.lens (MToy.any [[5], [2]] false) _ (by decide), by decide⟩

/-- toy: a missing non-last path, `ErrOnMissingPath(false)`, the later path is still masked -/
example :
    open MToy in
    typeMatcher_JSON gjsonGet sjsonSet chk ph (type [[5], [1]] false) [10, 20, 90] =
      (C16.maskWith get set ph [[5], [1]] [10, 20, 90], []) ∧
    C16.maskWith get set ph [[5], [1]] [10, 20, 90] = [10, 78, 90] :=
  ⟨typeMatcher_JSON_lens MToy.lens _ _ (MToy.type [[5], [1]] false) _ (by decide), by decide⟩

/-- the whole-document toy satisfies the lens laws: two different inputs, path [] masked ⇒ same
    result "?" -/
example :
    anyMatcher_JSON MToy.wgjson MToy.wsjson (MToy.any [[]]) [1, 2] = anyMatcher_JSON MToy.wgjson MToy.wsjson (MToy.any [[]]) [3] ∧
    anyMatcher_JSON MToy.wgjson MToy.wsjson (MToy.any [[]]) [1, 2] = ([63], []) :=
  ⟨anyMatcher_JSON_masked_irrelevant MToy.wlens MToy.wspec (MToy.any [[]]) [1, 2] [3] (by simp [MToy.any])
    (by decide) (by decide) (fun q hq => by
      have : q ≠ [] := by simpa [MToy.any] using hq
      simp [MToy.wget, this]), by decide⟩

/-- toy: Custom, general form and `cb v = (f v, nil)` form (present path; missing path ignored) -/
example :
    open MToy in
    customMatcher_JSON gjsonGet sjsonSet (custom [1]) [10, 20, 30] =
      (C16.maskWith get set (fun v => (cb v).1) [[1]] [10, 20, 30], []) ∧
    C16.maskWith get set (fun v => (cb v).1) [[1]] [10, 20, 30] = [10, 21, 30] ∧
    customMatcher_JSON gjsonGet sjsonSet ⟨fun v => (v.map (· + 1), Err.nil), true, nCustom, [1]⟩ [10, 20, 30] =
      (C16.maskWith get set (fun v => v.map (· + 1)) [[1]] [10, 20, 30], []) ∧
    customMatcher_JSON gjsonGet sjsonSet ⟨fun v => (v.map (· + 1), Err.nil), false, nCustom, [7]⟩ [10, 20, 30] =
      (C16.maskWith get set (fun v => v.map (· + 1)) [[7]] [10, 20, 30], []) :=
  ⟨customMatcher_JSON_lens_ok MToy.lens (MToy.custom [1]) _ (by decide), by decide,
   customMatcher_JSON_lens MToy.lens _ _ _ (fun _ => rfl) (.inr (by decide)),
   customMatcher_JSON_lens MToy.lens _ _ _ (fun _ => rfl) (.inl rfl)⟩


/-! ### 4.2 YAML: the abstract document is the parsed file -/

/-- how `yaml.Get` / `yaml.Update` implement an abstract lens on `Doc := YFile` (no errors) -/
structure YAMLLens (yamlGet : YFile → Text → YPath × YNode × Bool × Err) (yamlUpdate : YFile → YPath → Text → YFile × Err)
    (get : YFile → Text → Option Text) (set : YFile → Text → Text → YFile) : Prop where
  get_ok : ∀ f p, (yamlGet f p).2.2.2 = Err.nil
  exists_iff : ∀ f p, (yamlGet f p).2.2.1 = (get f p).isSome
  update_eq : ∀ f p v, yamlUpdate f (yamlGet f p).1 v = (set f p v, Err.nil)

theorem MToy.ylens : YAMLLens MToy.yamlGet MToy.yamlUpdate MToy.get MToy.set where
  get_ok _ _ := rfl
  exists_iff _ _ := rfl
  update_eq _ _ _ := rfl

theorem MToy.yvalue (f : YFile) (p v : Text) (h : MToy.get f p = some v) :
    MToy.yamlGetValue (MToy.yamlGet f p).2.1 = (v, Err.nil) := by
  simp [MToy.yamlGetValue, MToy.yamlGet, h]

section YAML
variable {yamlGet : YFile → Text → YPath × YNode × Bool × Err} {yamlUpdate : YFile → YPath → Text → YFile × Err}
  {get : YFile → Text → Option Text} {set : YFile → Text → Text → YFile}

theorem anyYNext_lens (h : YAMLLens yamlGet yamlUpdate get set) (a : AnyMatcher) (f : YFile) (p : Text)
    (hok : get f p = none → a.errOnMissingPath = false) :
    anyYNext yamlGet yamlUpdate a f p = mwStep get set (fun _ => a.placeholder) f p ∧
    anyYErr yamlGet yamlUpdate a f p = none := by
  unfold anyYNext anyYErr
  cases hg : get f p with
  | none => simp [h.get_ok, h.exists_iff, hg, mwStep_none hg, hok hg, Err.notNil]
  | some v => simp [h.get_ok, h.exists_iff, hg, mwStep_some hg, h.update_eq, Err.notNil]

theorem anyMatcher_YAML_lens_maskWith (h : YAMLLens yamlGet yamlUpdate get set) (yamlParse : Text → YFile × Err)
    (yamlMarshal : YFile → Bool → Text) (a : AnyMatcher) (b : Text) (f0 : YFile) (hp : yamlParse b = (f0, Err.nil))
    (hok : ∀ x ∈ withDocs (mwStep get set (fun _ => a.placeholder)) f0 a.paths,
      get x.2 x.1 = none → a.errOnMissingPath = false) :
    anyMatcher_YAML yamlParse yamlGet yamlUpdate yamlMarshal a b =
      (yamlMarshal (C16.maskWith get set (fun _ => a.placeholder) a.paths f0) (hasSuffix b [10]), []) := by
  rw [anyMatcher_YAML_closed _ _ _ _ _ _ (by rw [hp]; rfl), hp]
  obtain ⟨h1, h2⟩ := loop_eq_maskWith get set (fun _ => a.placeholder) a.name (anyYNext yamlGet yamlUpdate a)
    (anyYErr yamlGet yamlUpdate a) a.paths f0 (fun x hx => anyYNext_lens h a x.2 x.1 (hok x hx))
  rw [h1, h2]

/-- **Any, YAML**: every path present when it is reached ⇒ the marshalled `C16.mask` of the
    parsed file, no errors -/
theorem anyMatcher_YAML_lens (h : YAMLLens yamlGet yamlUpdate get set) (yamlParse : Text → YFile × Err)
    (yamlMarshal : YFile → Bool → Text) (a : AnyMatcher) (b : Text) (f0 : YFile) (hp : yamlParse b = (f0, Err.nil))
    (hall : ∀ x ∈ withDocs (fun d p => set d p a.placeholder) f0 a.paths, get x.2 x.1 ≠ none) :
    anyMatcher_YAML yamlParse yamlGet yamlUpdate yamlMarshal a b =
      (yamlMarshal (C16.mask set a.paths a.placeholder f0) (hasSuffix b [10]), []) := by
  obtain ⟨hw, hm⟩ := maskWith_const_eq_mask get set a.placeholder a.paths f0 hall
  rw [hm]
  apply anyMatcher_YAML_lens_maskWith h _ _ _ _ _ hp
  intro x hx hg
  rw [← hw] at hx
  exact absurd hg (hall x hx)

theorem typeYNext_lens (h : YAMLLens yamlGet yamlUpdate get set) (yamlGetValue : YNode → Text × Err)
    (hv : ∀ f p v, get f p = some v → yamlGetValue (yamlGet f p).2.1 = (v, Err.nil))
    (chk : Text → Err) (ph : Text → Text) (t : TypeMatcher) (f : YFile) (p : Text)
    (hok : PathOK get chk t.errOnMissingPath f p) :
    typeYNext yamlGet yamlGetValue yamlUpdate chk ph f p = mwStep get set ph f p ∧
    typeYErr yamlGet yamlGetValue yamlUpdate chk ph t f p = none := by
  unfold typeYNext typeYErr PathOK at *
  cases hg : get f p with
  | none =>
    rw [hg] at hok
    simp [h.get_ok, h.exists_iff, hg, mwStep_none hg, hok, Err.notNil]
  | some v =>
    rw [hg] at hok
    simp [h.get_ok, h.exists_iff, hg, mwStep_some hg, hv f p v hg, hok, h.update_eq, Err.notNil]

/-- **Type, YAML** -/
theorem typeMatcher_YAML_lens (h : YAMLLens yamlGet yamlUpdate get set) (yamlParse : Text → YFile × Err)
    (yamlGetValue : YNode → Text × Err) (yamlMarshal : YFile → Bool → Text)
    (hv : ∀ f p v, get f p = some v → yamlGetValue (yamlGet f p).2.1 = (v, Err.nil))
    (chk : Text → Err) (ph : Text → Text) (t : TypeMatcher) (b : Text) (f0 : YFile)
    (hp : yamlParse b = (f0, Err.nil))
    (hok : ∀ x ∈ withDocs (mwStep get set ph) f0 t.paths, PathOK get chk t.errOnMissingPath x.2 x.1) :
    typeMatcher_YAML yamlParse yamlGet yamlGetValue yamlUpdate yamlMarshal chk ph t b =
      (yamlMarshal (C16.maskWith get set ph t.paths f0) (hasSuffix b [10]), []) := by
  rw [typeMatcher_YAML_closed _ _ _ _ _ _ _ _ _ (by rw [hp]; rfl), hp]
  obtain ⟨h1, h2⟩ := loop_eq_maskWith get set ph t.name (typeYNext yamlGet yamlGetValue yamlUpdate chk ph)
    (typeYErr yamlGet yamlGetValue yamlUpdate chk ph t) t.paths f0
    (fun x hx => typeYNext_lens h yamlGetValue hv chk ph t x.2 x.1 (hok x hx))
  rw [h1, h2]

/-- **Custom, YAML**: on a present path; a missing path with `ErrOnMissingPath(false)` returns
    the INPUT BYTES (not the re-marshalled file) -/
theorem customMatcher_YAML_lens (h : YAMLLens yamlGet yamlUpdate get set) (yamlParse : Text → YFile × Err)
    (yamlGetValue : YNode → Text × Err) (yamlMarshal : YFile → Bool → Text)
    (hv : ∀ f p v, get f p = some v → yamlGetValue (yamlGet f p).2.1 = (v, Err.nil))
    (c : CustomMatcher) (f : Text → Text) (b : Text) (f0 : YFile) (hp : yamlParse b = (f0, Err.nil))
    (hcb : ∀ v, c.callback v = (f v, Err.nil)) :
    customMatcher_YAML yamlParse yamlGet yamlGetValue yamlUpdate yamlMarshal c b =
      if get f0 c.path = none then
        (if c.errOnMissingPath then ([], [{ reason := Err.other pathNotFound, matcher := c.name, path := c.path }])
         else (b, []))
      else (yamlMarshal (C16.maskWith get set f [c.path] f0) (hasSuffix b [10]), []) := by
  rw [customMatcher_YAML_eq, maskWith_eq_foldl]
  unfold customYAMLSpec
  simp only [List.foldl_cons, List.foldl_nil, hp]
  cases hg : get f0 c.path with
  | none => cases c.errOnMissingPath <;> simp [h.get_ok, h.exists_iff, hg, Err.notNil]
  | some v => simp [h.get_ok, h.exists_iff, hg, mwStep_some hg, hv f0 c.path v hg, hcb, h.update_eq, Err.notNil]

/-- **Custom, YAML**, general form: the callback succeeds on the value found -/
theorem customMatcher_YAML_lens_ok (h : YAMLLens yamlGet yamlUpdate get set) (yamlParse : Text → YFile × Err)
    (yamlGetValue : YNode → Text × Err) (yamlMarshal : YFile → Bool → Text)
    (hv : ∀ f p v, get f p = some v → yamlGetValue (yamlGet f p).2.1 = (v, Err.nil))
    (c : CustomMatcher) (b : Text) (f0 : YFile) (hp : yamlParse b = (f0, Err.nil))
    (hok : PathOK get (fun v => (c.callback v).2) c.errOnMissingPath f0 c.path) :
    customMatcher_YAML yamlParse yamlGet yamlGetValue yamlUpdate yamlMarshal c b =
      (if get f0 c.path = none then b
       else yamlMarshal (C16.maskWith get set (fun v => (c.callback v).1) [c.path] f0) (hasSuffix b [10]), []) := by
  rw [customMatcher_YAML_eq, maskWith_eq_foldl]
  unfold customYAMLSpec
  unfold PathOK at hok
  simp only [List.foldl_cons, List.foldl_nil, hp]
  cases hg : get f0 c.path with
  | none =>
    rw [hg] at hok
    simp [h.get_ok, h.exists_iff, hg, hok, Err.notNil]
  | some v =>
    rw [hg] at hok
    simp [h.get_ok, h.exists_iff, hg, mwStep_some hg, hv f0 c.path v hg, hok, h.update_eq, Err.notNil]

end YAML

/-- toy, input "\x0a\x14\x5a\n": Any masks [0] and [2]; Type skips the missing [5] and masks [1];
    Custom maps [1]; the final newline comes back -/
example :
    open MToy in
    anyMatcher_YAML yamlParse yamlGet yamlUpdate yamlMarshal (any [[0], [2]]) [10, 20, 90, 10] =
      (yamlMarshal (C16.mask set [[0], [2]] [63] [10, 20, 90]) true, []) ∧
    yamlMarshal (C16.mask set [[0], [2]] [63] [10, 20, 90]) true = [63, 20, 63, 10] ∧
    typeMatcher_YAML yamlParse yamlGet yamlGetValue yamlUpdate yamlMarshal chk ph (type [[5], [1]] false) [10, 20, 90, 10] =
      (yamlMarshal (C16.maskWith get set ph [[5], [1]] [10, 20, 90]) true, []) ∧
    yamlMarshal (C16.maskWith get set ph [[5], [1]] [10, 20, 90]) true = [10, 78, 90, 10] ∧
    customMatcher_YAML yamlParse yamlGet yamlGetValue yamlUpdate yamlMarshal
        ⟨fun v => (v.map (· + 1), Err.nil), true, nCustom, [1]⟩ [10, 20, 90, 10] = ([10, 21, 90, 10], []) :=
  ⟨anyMatcher_YAML_lens MToy.ylens _ _ (MToy.any [[0], [2]]) _ [10, 20, 90] (by decide) (by decide), by decide,
   typeMatcher_YAML_lens MToy.ylens _ _ _ MToy.yvalue _ _ (MToy.type [[5], [1]] false) _ [10, 20, 90] (by decide)
     (by decide), by decide,
   by rw [customMatcher_YAML_lens MToy.ylens _ _ _ MToy.yvalue _ (fun v => v.map (· + 1)) _ [10, 20, 90] (by decide)
        (fun _ => rfl)]; decide⟩


/-! ## 5. option methods, `matcherError`, reuse -/

/-- the receiver is changed AND returned: statement-style use (`a.Placeholder(p)`) and chained use
    (`a.Placeholder(p).…`) see the same matcher -/
theorem anyMatcher_Placeholder_eq (a : AnyMatcher) (p : Text) :
    anyMatcher_Placeholder a p = ({ a with placeholder := p }, { a with placeholder := p }) := rfl

theorem anyMatcher_ErrOnMissingPath_eq (a : AnyMatcher) (e : Bool) :
    anyMatcher_ErrOnMissingPath a e = ({ a with errOnMissingPath := e }, { a with errOnMissingPath := e }) := rfl

theorem customMatcher_ErrOnMissingPath_eq (c : CustomMatcher) (e : Bool) :
    customMatcher_ErrOnMissingPath c e = ({ c with errOnMissingPath := e }, { c with errOnMissingPath := e }) := rfl

theorem typeMatcher_ErrOnMissingPath_eq (t : TypeMatcher) (e : Bool) :
    typeMatcher_ErrOnMissingPath t e = ({ t with errOnMissingPath := e }, { t with errOnMissingPath := e }) := rfl

/-- the options touch their own field only, commute, and the last call wins -/
theorem anyMatcher_options (a : AnyMatcher) (p : Text) (e e' : Bool) :
    (anyMatcher_Placeholder a p).1.paths = a.paths ∧ (anyMatcher_Placeholder a p).1.name = a.name ∧
    (anyMatcher_Placeholder a p).1.errOnMissingPath = a.errOnMissingPath ∧
    (anyMatcher_ErrOnMissingPath a e).1.placeholder = a.placeholder ∧
    (anyMatcher_ErrOnMissingPath (anyMatcher_Placeholder a p).1 e).1 =
      (anyMatcher_Placeholder (anyMatcher_ErrOnMissingPath a e).1 p).1 ∧
    (anyMatcher_ErrOnMissingPath (anyMatcher_ErrOnMissingPath a e).1 e').1 = (anyMatcher_ErrOnMissingPath a e').1 :=
  ⟨rfl, rfl, rfl, rfl, rfl, rfl⟩

theorem anyMatcher_matcherError_eq (a : AnyMatcher) (err : Err) (path : Text) :
    anyMatcher_matcherError a err path = { reason := err, matcher := a.name, path := path } := rfl

theorem typeMatcher_matcherError_eq (t : TypeMatcher) (err : Err) (path : Text) :
    typeMatcher_matcherError t err path = { reason := err, matcher := t.name, path := path } := rfl

theorem customMatcher_matcherError_eq (c : CustomMatcher) (err : Err) :
    customMatcher_matcherError c err = [{ reason := err, matcher := c.name, path := c.path }] := rfl

/-- **reuse**: `JSON` has a value receiver and returns (document, errors) only — the result is a
    function of (matcher, input): applying one matcher value to two inputs, in either order, or
    twice to the same input, gives the same results -/
theorem anyMatcher_JSON_reuse (g : Text → Text → GResult) (s : Text → Text → Text → Text × Err) (a : AnyMatcher)
    (b₁ b₂ : Text) :
    (let r₁ := anyMatcher_JSON g s a b₁; let r₂ := anyMatcher_JSON g s a b₂; (r₁, r₂)) =
    (let r₂ := anyMatcher_JSON g s a b₂; let r₁ := anyMatcher_JSON g s a b₁; (r₁, r₂)) := rfl

/-! ## 6. composition with the flows: concrete matchers instantiate `run` -/

/-- the JSON document library as the transliterations take it -/
structure JSONLib where
  gjsonGet : Text → Text → GResult
  sjsonSet : Text → Text → Text → Text × Err
  /-- `typeCheck[ExpectedType]`, indexed by the matcher's `expectedType` -/
  typeCheck : Text → Text → Err
  typePlaceholder : Text → Text

/-- a `match.JSONMatcher` value -/
inductive AnyM
  | any (a : AnyMatcher)
  | type (t : TypeMatcher)
  | custom (c : CustomMatcher)

/-- `m.JSON(b)`: dynamic dispatch to the three transliterations -/
def runJSON (lib : JSONLib) : AnyM → Text → Text × List MErr
  | .any a, b => anyMatcher_JSON lib.gjsonGet lib.sjsonSet a b
  | .type t, b => typeMatcher_JSON lib.gjsonGet lib.sjsonSet (lib.typeCheck t.expectedType) lib.typePlaceholder t b
  | .custom c, b => customMatcher_JSON lib.gjsonGet lib.sjsonSet c b

/-- Flows.lean's opaque `Matcher` values are indices into the list of matchers handed to the
    Match* call: `runTable (runJSON lib) tbl` is the `run` parameter of `matchJSON` / `matchStandaloneJSON` -/
def runTable (run : AnyM → Text → Text × List MErr) (tbl : List AnyM) (i : Matcher) (b : Text) : Text × List MErr :=
  match tbl[i]? with
  | some m => run m b
  | none => (b, [])

theorem runTable_map (run : AnyM → Text → Text × List MErr) (tbl : List AnyM) :
    (List.range tbl.length).map (runTable run tbl) = tbl.map run := by
  apply List.ext_getElem
  · simp
  · intro i h1 h2
    have hi : i < tbl.length := by simpa using h1
    funext b
    simp [runTable, hi]

/-- the matcher loop of the flows on the indices `0 … n-1` is the C15 fold over the concrete matchers -/
theorem applyMatchers_runTable (run : AnyM → Text → Text × List MErr) (tbl : List AnyM) (b : Text) :
    applyMatchers (runTable run tbl) b (List.range tbl.length) = C15.applyMatchers (tbl.map run) b [] := by
  rw [applyMatchers_eq_C15, runTable_map]

/-- what a matcher does to the abstract document when it succeeds -/
def absJSON (get : Text → Text → Option Text) (set : Text → Text → Text → Text) (lib : JSONLib) (d : Text) : AnyM → Text
  | .any a => C16.mask set a.paths a.placeholder d
  | .type t => C16.maskWith get set lib.typePlaceholder t.paths d
  | .custom c => C16.maskWith get set (fun v => (c.callback v).1) [c.path] d

/-- the hypotheses of §4 for one matcher on the document `d` that reaches it -/
def Succeeds (get : Text → Text → Option Text) (set : Text → Text → Text → Text) (lib : JSONLib) (m : AnyM) (d : Text) : Prop :=
  match m with
  | .any a => ∀ x ∈ withDocs (fun d p => set d p a.placeholder) d a.paths, get x.2 x.1 ≠ none
  | .type t => ∀ x ∈ withDocs (mwStep get set lib.typePlaceholder) d t.paths,
      PathOK get (lib.typeCheck t.expectedType) t.errOnMissingPath x.2 x.1
  | .custom c => PathOK get (fun v => (c.callback v).2) c.errOnMissingPath d c.path

instance (get : Text → Text → Option Text) (set : Text → Text → Text → Text) (lib : JSONLib) (m : AnyM) (d : Text) :
    Decidable (Succeeds get set lib m d) :=
  match m with
  | .any a => inferInstanceAs (Decidable (∀ x ∈ withDocs (fun d p => set d p a.placeholder) d a.paths, get x.2 x.1 ≠ none))
  | .type t => inferInstanceAs (Decidable (∀ x ∈ withDocs (mwStep get set lib.typePlaceholder) d t.paths,
      PathOK get (lib.typeCheck t.expectedType) t.errOnMissingPath x.2 x.1))
  | .custom c => inferInstanceAs (Decidable (PathOK get (fun v => (c.callback v).2) c.errOnMissingPath d c.path))

theorem runJSON_succeeds {get : Text → Text → Option Text} {set : Text → Text → Text → Text} (lib : JSONLib)
    (h : JSONLens lib.gjsonGet lib.sjsonSet get set) (m : AnyM) (d : Text) (hs : Succeeds get set lib m d) :
    runJSON lib m d = (absJSON get set lib d m, []) := by
  cases m with
  | any a => exact anyMatcher_JSON_lens h a d hs
  | type t => exact typeMatcher_JSON_lens h _ _ t d hs
  | custom c => exact customMatcher_JSON_lens_ok h c d hs

/-- **`pipeline_masks`**: if every matcher succeeds on the document that reaches it, the matcher
    loop of `matchJSON` yields the left-to-right composition of the `mask` / `maskWith` results,
    and no error -/
theorem pipeline_masks {get : Text → Text → Option Text} {set : Text → Text → Text → Text} (lib : JSONLib)
    (h : JSONLens lib.gjsonGet lib.sjsonSet get set) (tbl : List AnyM) (b : Text)
    (hs : ∀ x ∈ withDocs (absJSON get set lib) b tbl, Succeeds get set lib x.1 x.2) :
    applyMatchers (runTable (runJSON lib) tbl) b (List.range tbl.length) = (tbl.foldl (absJSON get set lib) b, []) := by
  rw [applyMatchers_runTable]
  induction tbl generalizing b with
  | nil => rfl
  | cons m ms ih =>
    have hm := runJSON_succeeds lib h m b (hs (m, b) (by simp [withDocs]))
    rw [List.map_cons, C15.matchers_left_to_right _ _ _ _ (by rw [hm]), hm, List.foldl_cons]
    exact ih _ (fun x hx => hs x (by simp [withDocs, hx]))

/-- toy: `Any([0])`, `Type([1],[9]).ErrOnMissingPath(false)`, `Custom([2])` on [10, 20, 30] -/
example :
    open MToy in
    let lib : JSONLib := ⟨gjsonGet, sjsonSet, fun _ => chk, ph⟩
    let tbl : List AnyM := [.any (any [[0]]), .type (type [[1], [9]] false), .custom (custom [2])]
    applyMatchers (runTable (runJSON lib) tbl) [10, 20, 30] (List.range tbl.length) = (tbl.foldl (absJSON get set lib) [10, 20, 30], []) ∧
    tbl.foldl (absJSON get set lib) [10, 20, 30] = [63, 78, 31] ∧
    applyJSONMatchers (runTable (runJSON lib) tbl) [10, 20, 30] [0, 1, 2] = ([63, 78, 31], []) := by
  intro lib tbl
  exact ⟨pipeline_masks lib MToy.lens tbl _ (by decide), by decide, by decide⟩

/-- … and with a failing matcher in the middle (`Any([7])`): its error only; the other two still
    act on the document that is handed on (C15: a failing matcher is skipped) -/
example :
    open MToy in
    let lib : JSONLib := ⟨gjsonGet, sjsonSet, fun _ => chk, ph⟩
    applyJSONMatchers (runTable (runJSON lib) [.any (any [[0]]), .any (any [[7], [1]]), .custom (custom [2])]) [10, 20, 30] [0, 1, 2] =
      ([63, 20, 31], [⟨errPathNotFound, nAny, [7]⟩]) := by decide

/-- … so the document reaching `takeJSON` (the `.ok` of `docPre`) is the rendered composition -/
theorem docPre_masks {get : Text → Text → Option Text} {set : Text → Text → Text → Text} (lib : JSONLib)
    (h : JSONLens lib.gjsonGet lib.sjsonSet get set) (validate : Text → Text × Err) (render : Text → Text)
    (input : Text) (tbl : List AnyM) (hv : (validate input).2 = Err.nil)
    (hs : ∀ x ∈ withDocs (absJSON get set lib) (validate input).1 tbl, Succeeds get set lib x.1 x.2) :
    docPre validate (runTable (runJSON lib) tbl) render input (List.range tbl.length) =
      .ok (render (tbl.foldl (absJSON get set lib) (validate input).1)) := by
  unfold docPre
  rw [pipeline_masks lib h tbl _ hs, hv]
  simp [Err.notNil]

/-- `C17.failing_matcher_errors` for any error type -/
theorem failing_matcher_errors' {ε : Type} (ms : List (C15.Matcher ε)) (m : C15.Matcher ε) (hm : m ∈ ms)
    (hf : ∀ d, (m d).2 ≠ []) (b : Text) (errs : List ε) : (C15.applyMatchers ms b errs).2 ≠ [] := by
  induction ms generalizing b errs with
  | nil => cases hm
  | cons x xs ih =>
    simp only [C15.applyMatchers]
    rcases List.mem_cons.mp hm with rfl | hm'
    · simp only [hf b, ne_eq, not_false_eq_true, ↓reduceIte]
      obtain ⟨more, h⟩ := C15.errors_accumulate xs b (errs ++ (m b).2)
      rw [h]
      have := hf b
      cases hq : (m b).2 with
      | nil => exact absurd hq this
      | cons e es => simp
    · split
      · exact ih hm' _ _
      · exact ih hm' _ _

/-- a failing matcher anywhere in the list: `docPre` is the error message naming it, never a document -/
theorem docPre_fails (lib : JSONLib) (validate : Text → Text × Err) (render : Text → Text)
    (input : Text) (tbl : List AnyM) (hv : (validate input).2 = Err.nil) (m : AnyM) (hm : m ∈ tbl)
    (hf : ∀ d, (runJSON lib m d).2 ≠ []) :
    ∃ msg, msg ≠ [] ∧ docPre validate (runTable (runJSON lib) tbl) render input (List.range tbl.length) = .error msg := by
  have hne : (applyMatchers (runTable (runJSON lib) tbl) (validate input).1 (List.range tbl.length)).2 ≠ [] := by
    rw [applyMatchers_runTable]
    exact failing_matcher_errors' _ (runJSON lib m) (List.mem_map_of_mem hm) hf _ _
  refine ⟨matcherMsg (applyMatchers (runTable (runJSON lib) tbl) (validate input).1 (List.range tbl.length)).2, ?_, ?_⟩
  · unfold matcherMsg
    apply C17.errText_ne_nil
    simpa using hne
  · unfold docPre
    simp [hv, Err.notNil, hne]

/-- the whole call: `matchJSON` on concrete matchers that all succeed is `preFlow` on the rendered
    composition of their masks -/
theorem matchJSON_masks {get : Text → Text → Option Text} {set : Text → Text → Text → Text} (lib : JSONLib)
    (h : JSONLens lib.gjsonGet lib.sjsonSet get set) (io : IOFail) (st : St) (trimpath : Bool) (caller : Text)
    (validate : Text → Text × Err) (takeJSON : Cfg → Text → Text) (c : Cfg) (t : T) (input : Text) (tbl : List AnyM)
    (hv : (validate input).2 = Err.nil)
    (hs : ∀ x ∈ withDocs (absJSON get set lib) (validate input).1 tbl, Succeeds get set lib x.1 x.2) :
    matchJSON io st trimpath caller (runTable (runJSON lib) tbl) validate takeJSON c t input (List.range tbl.length) =
      match syncRegistry_getTestID st.reg (Generated.Funcs.snapshotPath trimpath caller c t.name false).1 t.name with
      | none => none
      | some (r', id) =>
        some (preFlow io (enterSt st t (Generated.Funcs.snapshotPath trimpath caller c t.name false).1 r') t c
          (Generated.Funcs.snapshotPath trimpath caller c t.name false).1
          (Generated.Funcs.snapshotPath trimpath caller c t.name false).2 id
          (.ok (takeJSON c (tbl.foldl (absJSON get set lib) (validate input).1))) (Wld.cmpText .raw)) := by
  rw [matchJSON_eq, docPre_masks lib h validate (takeJSON c) input tbl hv hs]
  rfl

/-- a Custom matcher on a missing path with `ErrOnMissingPath(false)` is the identity step of the
    pipeline (C17 `missing_path_ignored`, for the transliteration) -/
theorem custom_missing_identity_step (lib : JSONLib) (c : CustomMatcher) (ms : List (C15.Matcher MErr)) (b : Text)
    (errs : List MErr) (hm : (lib.gjsonGet b c.path).exists = false) (he : c.errOnMissingPath = false) :
    C15.applyMatchers (runJSON lib (.custom c) :: ms) b errs = C15.applyMatchers ms b errs := by
  have : runJSON lib (.custom c) b = (b, []) := customMatcher_JSON_missing_path_ignored _ _ c b hm he
  simp [C15.applyMatchers, this]

/-! ### 6.1 the same for `matchYAML` -/

structure YAMLLib where
  yamlParse : Text → YFile × Err
  yamlGet : YFile → Text → YPath × YNode × Bool × Err
  yamlGetValue : YNode → Text × Err
  yamlUpdate : YFile → YPath → Text → YFile × Err
  yamlMarshal : YFile → Bool → Text
  typeCheck : Text → Text → Err
  typePlaceholder : Text → Text

/-- `m.YAML(b)` -/
def runYAML (lib : YAMLLib) : AnyM → Text → Text × List MErr
  | .any a, b => anyMatcher_YAML lib.yamlParse lib.yamlGet lib.yamlUpdate lib.yamlMarshal a b
  | .type t, b => typeMatcher_YAML lib.yamlParse lib.yamlGet lib.yamlGetValue lib.yamlUpdate lib.yamlMarshal
      (lib.typeCheck t.expectedType) lib.typePlaceholder t b
  | .custom c, b => customMatcher_YAML lib.yamlParse lib.yamlGet lib.yamlGetValue lib.yamlUpdate lib.yamlMarshal c b

/-- what a succeeding matcher does to the bytes: parse, mask the file, marshal (keeping a final
    newline); a Custom matcher whose path is missing hands the bytes on untouched -/
def absYAML (get : YFile → Text → Option Text) (set : YFile → Text → Text → YFile) (lib : YAMLLib) (d : Text) : AnyM → Text
  | .any a => lib.yamlMarshal (C16.mask set a.paths a.placeholder (lib.yamlParse d).1) (hasSuffix d [10])
  | .type t => lib.yamlMarshal (C16.maskWith get set lib.typePlaceholder t.paths (lib.yamlParse d).1) (hasSuffix d [10])
  | .custom c =>
    if get (lib.yamlParse d).1 c.path = none then d
    else lib.yamlMarshal (C16.maskWith get set (fun v => (c.callback v).1) [c.path] (lib.yamlParse d).1) (hasSuffix d [10])

def SucceedsY (get : YFile → Text → Option Text) (set : YFile → Text → Text → YFile) (lib : YAMLLib) (m : AnyM) (d : Text) : Prop :=
  (lib.yamlParse d).2 = Err.nil ∧
  match m with
  | .any a => ∀ x ∈ withDocs (fun d p => set d p a.placeholder) (lib.yamlParse d).1 a.paths, get x.2 x.1 ≠ none
  | .type t => ∀ x ∈ withDocs (mwStep get set lib.typePlaceholder) (lib.yamlParse d).1 t.paths,
      PathOK get (lib.typeCheck t.expectedType) t.errOnMissingPath x.2 x.1
  | .custom c => PathOK get (fun v => (c.callback v).2) c.errOnMissingPath (lib.yamlParse d).1 c.path

theorem runYAML_succeeds {get : YFile → Text → Option Text} {set : YFile → Text → Text → YFile} (lib : YAMLLib)
    (h : YAMLLens lib.yamlGet lib.yamlUpdate get set)
    (hv : ∀ f p v, get f p = some v → lib.yamlGetValue (lib.yamlGet f p).2.1 = (v, Err.nil))
    (m : AnyM) (d : Text) (hs : SucceedsY get set lib m d) :
    runYAML lib m d = (absYAML get set lib d m, []) := by
  obtain ⟨hp, hs⟩ := hs
  have hp' : lib.yamlParse d = ((lib.yamlParse d).1, Err.nil) := by rw [← hp]
  cases m with
  | any a => exact anyMatcher_YAML_lens h _ _ a d _ hp' hs
  | type t => exact typeMatcher_YAML_lens h _ _ _ hv _ _ t d _ hp' hs
  | custom c =>
    show customMatcher_YAML _ _ _ _ _ c d = _
    rw [customMatcher_YAML_lens_ok h _ _ _ hv c d _ hp' hs]
    rfl

/-- **`pipeline_masks` for YAML**: the document reaching `takeYAMLSnapshot` -/
theorem pipeline_masks_yaml {get : YFile → Text → Option Text} {set : YFile → Text → Text → YFile} (lib : YAMLLib)
    (h : YAMLLens lib.yamlGet lib.yamlUpdate get set)
    (hv : ∀ f p v, get f p = some v → lib.yamlGetValue (lib.yamlGet f p).2.1 = (v, Err.nil))
    (tbl : List AnyM) (b : Text)
    (hs : ∀ x ∈ withDocs (absYAML get set lib) b tbl, SucceedsY get set lib x.1 x.2) :
    applyMatchers (runTable (runYAML lib) tbl) b (List.range tbl.length) = (tbl.foldl (absYAML get set lib) b, []) := by
  rw [applyMatchers_runTable]
  induction tbl generalizing b with
  | nil => rfl
  | cons m ms ih =>
    have hm := runYAML_succeeds lib h hv m b (hs (m, b) (by simp [withDocs]))
    rw [List.map_cons, C15.matchers_left_to_right _ _ _ _ (by rw [hm]), hm, List.foldl_cons]
    exact ih _ (fun x hx => hs x (by simp [withDocs, hx]))

/-- toy: `Any([0])` then `Type([1],[9]).ErrOnMissingPath(false)` then `Custom([2])` on
    "\x0a\x14\x1e\n"; every stage parses the bytes the previous one marshalled -/
example :
    open MToy in
    let lib : YAMLLib := ⟨yamlParse, yamlGet, yamlGetValue, yamlUpdate, yamlMarshal, fun _ => chk, ph⟩
    let tbl : List AnyM := [.any (any [[0]]), .type (type [[1], [9]] false), .custom (custom [2])]
    applyYAMLMatchers (runTable (runYAML lib) tbl) [10, 20, 30, 10] [0, 1, 2] = ([63, 78, 31, 10], []) ∧
    tbl.foldl (absYAML get set lib) [10, 20, 30, 10] = [63, 78, 31, 10] := by decide

end GoSnaps.Tie
