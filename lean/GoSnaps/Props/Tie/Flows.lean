/-
Tie by proof, part 10: the Match* FLOWS (`Generated/FuncsIO.lean`): `handleError`, `takeSnapshot`,
`takeYAMLSnapshot`, `applyJSONMatchers`, `applyYAMLMatchers`, `matchSnapshot`,
`matchStandaloneSnapshot`, `matchJSON`, `matchYAML`, `matchStandaloneJSON`.

They act on `GoIO.St`; the model (`Model.lean`) acts on `World`.  `StRel st w` is the simulation
relation (§1).  For each flow
* `…_eq`      : the transliteration in closed form, for EVERY failure oracle `io` and build mode:
                the registry step, the cleanup registration and then one of the two shared tails
                `entryFlow` (§4) / `standaloneFlow` (§6) — plain, total Lean functions with the Go
                control flow — applied to `pre`, the result of validation + matchers + formatting
                (`docPre`, §8; for matchSnapshot `.ok (escape (unlines values))`);
* `…_tied`    : under `IOFail.never`, from related states, whenever the model covers the call
                (`Out.unsupported = none`) the flow does not panic, does the model's step
                (`matchEntry` / `matchStandalone`) and reports the model's `Out.events` to its
                `testing.T`; `…_tied_path` is the same for any build mode, given that the transliterated
                and the model's `snapshotPath` agree on the call;
* `…_outcome` : statements about the transliterated code alone, for every oracle (§10; these cover
                the I/O-error branches the model does not have): exactly one counter moves and the
                report matches it (`Outcome.counters`, `matchSnapshot_one_outcome`), a reported
                error never comes with a byte of the entry (`matchSnapshot_error_no_entry`), the
                ordinal is consumed in every case, before validation (`Entered`,
                `matchSnapshot_registry`, `matchJSON_pre_error`);
* §11         : when the flows panic (`none`): never for the entry flows from a related state; for the
                standalone flows exactly when a run-time path format is outside the modelled fragment;
* §12         : the second error check after the lookup is dead code, also under I/O failures.
Each main theorem is followed by an `example` on a small concrete state (non-vacuity).

Byte legend: "erred" = [101,114,114,101,100], "added" = [97,100,100,101,100],
"updated" = [117,112,100,97,116,101,100], "passed" = [112,97,115,115,101,100].
-/
import GoSnaps.GoIO
import GoSnaps.Model
import GoSnaps.Generated.FuncsIO
import GoSnaps.Lemmas.World
import GoSnaps.Props.C17
import GoSnaps.Props.Tie.Registry
import GoSnaps.Props.Tie.SnapshotIO
import GoSnaps.Props.Tie.Snapshot
import GoSnaps.Props.Tie.Path
import GoSnaps.Props.Tie.Escape
namespace GoSnaps.Tie
open GoSnaps GoSnaps.GoIO
open GoSnaps.Generated.FuncsIO

/-! ## 1. the simulation relation -/

/-- the keys of `testEvents.items` the transliteration uses: the byte strings of the identifiers -/
def kErred : Text := [101, 114, 114, 101, 100]
def kAdded : Text := [97, 100, 100, 101, 100]
def kUpdated : Text := [117, 112, 100, 97, 116, 101, 100]
def kPassed : Text := [112, 97, 115, 115, 101, 100]

theorem kErred_eq : kErred = ofString "erred" := by decide +kernel
theorem kAdded_eq : kAdded = ofString "added" := by decide +kernel
theorem kUpdated_eq : kUpdated = ofString "updated" := by decide +kernel
theorem kPassed_eq : kPassed = ofString "passed" := by decide +kernel

/-- the closure passed to `t.Cleanup` as the model's pending reset -/
def pendOf : Nat × Cleanup → Nat × Pending
  | (i, .resetReg p n) => (i, .reg (p, n))
  | (i, .resetSReg p) => (i, .sreg p)

/-- the state of the transliteration and the model's world describe the same situation -/
structure StRel (st : St) (w : World) : Prop where
  env : st.env = w.env
  fs : st.fs = w.fs
  reg : RegRel st.reg w.running w.cleanup
  sreg : SRegRel st.sreg w.srunning w.scleanup
  erred : map1Get st.events kErred = (w.events.erred : Int)
  added : map1Get st.events kAdded = (w.events.added : Int)
  updated : map1Get st.events kUpdated = (w.events.updated : Int)
  passed : map1Get st.events kPassed = (w.events.passed : Int)
  skipped : st.skipped = w.skipped
  pending : st.cleanups.map pendOf = w.pending
  /-- what `syncRegistry.reset` needs in order not to panic when the cleanup runs -/
  resetOK : ∀ i p n, (i, Cleanup.resetReg p n) ∈ st.cleanups → map2Has st.reg.running p = true

/-- the relation in the form of the task statement (keys as `ofString`, the pending list by `match`) -/
theorem StRel_iff (st : St) (w : World) :
    StRel st w ↔
      (st.env = w.env ∧ st.fs = w.fs ∧ RegRel st.reg w.running w.cleanup ∧
       SRegRel st.sreg w.srunning w.scleanup ∧
       map1Get st.events (ofString "erred") = (w.events.erred : Int) ∧
       map1Get st.events (ofString "added") = (w.events.added : Int) ∧
       map1Get st.events (ofString "updated") = (w.events.updated : Int) ∧
       map1Get st.events (ofString "passed") = (w.events.passed : Int) ∧
       st.skipped = w.skipped ∧
       st.cleanups.map (fun ic => (ic.1, match ic.2 with
          | .resetReg p n => Pending.reg (p, n)
          | .resetSReg p => Pending.sreg p)) = w.pending ∧
       ∀ i p n, (i, Cleanup.resetReg p n) ∈ st.cleanups → map2Has st.reg.running p = true) := by
  have hp : (fun ic : Nat × Cleanup => (ic.1, match ic.2 with
          | .resetReg p n => Pending.reg (p, n)
          | .resetSReg p => Pending.sreg p)) = pendOf := by
    funext ic
    obtain ⟨i, c⟩ := ic
    cases c <;> rfl
  rw [hp, ← kErred_eq, ← kAdded_eq, ← kUpdated_eq, ← kPassed_eq]
  constructor
  · intro h
    exact ⟨h.env, h.fs, h.reg, h.sreg, h.erred, h.added, h.updated, h.passed, h.skipped, h.pending, h.resetOK⟩
  · intro ⟨a, b, c, d, e, f, g, h, i, j, k⟩
    exact ⟨a, b, c, d, e, f, g, h, i, j, k⟩

/-- the initial state: `newRegistry()`, no events, nothing pending -/
theorem StRel_init (env : Generated.Env) (fs : FS) : StRel { env := env, fs := fs } { env := env, fs := fs } :=
  ⟨rfl, rfl, RegRel_init, SRegRel_init, rfl, rfl, rfl, rfl, rfl, rfl, fun _ _ _ h => by cases h⟩

/-! ### `StRel` is preserved by each kind of field update -/

theorem StRel.set_fs {st : St} {w : World} (h : StRel st w) (fs : FS) :
    StRel { st with fs := fs } { w with fs := fs } :=
  ⟨h.env, rfl, h.reg, h.sreg, h.erred, h.added, h.updated, h.passed, h.skipped, h.pending, h.resetOK⟩

theorem StRel.set_tev {st : St} {w : World} (h : StRel st w) (tev : List TEvent) :
    StRel { st with tev := tev } w :=
  ⟨h.env, h.fs, h.reg, h.sreg, h.erred, h.added, h.updated, h.passed, h.skipped, h.pending, h.resetOK⟩

theorem StRel.tLog {st : St} {w : World} (h : StRel st w) (t : T) (x : Text) : StRel (st.tLog t x) w :=
  h.set_tev _

theorem StRel.tError {st : St} {w : World} (h : StRel st w) (t : T) (x : Text) : StRel (st.tError t x) w :=
  h.set_tev _

theorem StRel.register_erred {st : St} {w : World} (h : StRel st w) :
    StRel (st.register kErred) { w with events := { w.events with erred := w.events.erred + 1 } } := by
  refine ⟨h.env, h.fs, h.reg, h.sreg, ?_, ?_, ?_, ?_, h.skipped, h.pending, h.resetOK⟩
  · simp only [St.register, map1Get_map1Inc, if_true, h.erred]; omega
  · simp only [St.register, map1Get_map1Inc, h.added]; rw [if_neg (by decide)]
  · simp only [St.register, map1Get_map1Inc, h.updated]; rw [if_neg (by decide)]
  · simp only [St.register, map1Get_map1Inc, h.passed]; rw [if_neg (by decide)]

theorem StRel.register_added {st : St} {w : World} (h : StRel st w) :
    StRel (st.register kAdded) { w with events := { w.events with added := w.events.added + 1 } } := by
  refine ⟨h.env, h.fs, h.reg, h.sreg, ?_, ?_, ?_, ?_, h.skipped, h.pending, h.resetOK⟩
  · simp only [St.register, map1Get_map1Inc, h.erred]; rw [if_neg (by decide)]
  · simp only [St.register, map1Get_map1Inc, if_true, h.added]; omega
  · simp only [St.register, map1Get_map1Inc, h.updated]; rw [if_neg (by decide)]
  · simp only [St.register, map1Get_map1Inc, h.passed]; rw [if_neg (by decide)]

theorem StRel.register_updated {st : St} {w : World} (h : StRel st w) :
    StRel (st.register kUpdated) { w with events := { w.events with updated := w.events.updated + 1 } } := by
  refine ⟨h.env, h.fs, h.reg, h.sreg, ?_, ?_, ?_, ?_, h.skipped, h.pending, h.resetOK⟩
  · simp only [St.register, map1Get_map1Inc, h.erred]; rw [if_neg (by decide)]
  · simp only [St.register, map1Get_map1Inc, h.added]; rw [if_neg (by decide)]
  · simp only [St.register, map1Get_map1Inc, if_true, h.updated]; omega
  · simp only [St.register, map1Get_map1Inc, h.passed]; rw [if_neg (by decide)]

theorem StRel.register_passed {st : St} {w : World} (h : StRel st w) :
    StRel (st.register kPassed) { w with events := { w.events with passed := w.events.passed + 1 } } := by
  refine ⟨h.env, h.fs, h.reg, h.sreg, ?_, ?_, ?_, ?_, h.skipped, h.pending, h.resetOK⟩
  · simp only [St.register, map1Get_map1Inc, h.erred]; rw [if_neg (by decide)]
  · simp only [St.register, map1Get_map1Inc, h.added]; rw [if_neg (by decide)]
  · simp only [St.register, map1Get_map1Inc, h.updated]; rw [if_neg (by decide)]
  · simp only [St.register, map1Get_map1Inc, if_true, h.passed]; omega

/-- `getTestID` on the registry followed by `t.Cleanup(func() { registry.reset(snapPath, t.Name()) })`
    is the model's `regBump` plus the new pending entry -/
theorem StRel.enter {st : St} {w : World} (h : StRel st w) (t : T) (p : Text) (r' : Registry) (id : Text)
    (e : syncRegistry_getTestID st.reg p t.name = some (r', id))
    (hr : RegRel r' (regBump w (p, t.name)).1.running (regBump w (p, t.name)).1.cleanup) :
    StRel (({ st with reg := r' } : St).tCleanup t (.resetReg p t.name))
      { (regBump w (p, t.name)).1 with pending := (t.id, .reg (p, t.name)) :: w.pending } := by
  refine ⟨h.env, h.fs, hr, h.sreg, h.erred, h.added, h.updated, h.passed, h.skipped, ?_, ?_⟩
  · simp only [St.tCleanup, List.map_cons, h.pending]; rfl
  · intro i q n hm
    simp only [St.tCleanup, List.mem_cons, Prod.mk.injEq, Cleanup.resetReg.injEq] at hm
    rcases hm with ⟨_, rfl, _⟩ | hm
    · exact syncRegistry_getTestID_has_self _ _ _ _ _ e
    · exact syncRegistry_getTestID_has_preserved _ _ _ _ _ _ e (h.resetOK i q n hm)

/-- the same for the standalone registry -/
theorem StRel.enterSA {st : St} {w : World} (h : StRel st w) (t : T) (g : Text) :
    StRel (({ st with sreg := sregBumped st.sreg g } : St).tCleanup t (.resetSReg g))
      { (sregBump w g).1 with pending := (t.id, .sreg g) :: w.pending } := by
  refine ⟨h.env, h.fs, h.reg, SRegRel_sregBumped _ _ _ g h.sreg, h.erred, h.added, h.updated, h.passed,
    h.skipped, ?_, ?_⟩
  · simp only [St.tCleanup, List.map_cons, h.pending]; rfl
  · intro i q n hm
    simp only [St.tCleanup, List.mem_cons, Prod.mk.injEq, reduceCtorEq, and_false, false_or] at hm
    exact h.resetOK i q n hm

/-! ## 2. `handleError` -/

theorem handleError_eq (io : IOFail) (st : St) (t : T) (msg : Text) :
    Generated.FuncsIO.handleError io st t msg = (st.tError t msg).register kErred := rfl

/-- **Tie**: `t.Error(err)` then `testEvents.register(erred)` is the model's `handleError` -/
theorem handleError_tied (io : IOFail) (st : St) (w : World) (t : T) (msg : Text) (h : StRel st w) :
    StRel (Generated.FuncsIO.handleError io st t msg) (GoSnaps.handleError w msg).1 ∧
    (Generated.FuncsIO.handleError io st t msg).tev = st.tev ++ [.error msg] ∧
    (GoSnaps.handleError w msg).2.events = [.error msg] :=
  ⟨(h.tError t msg).register_erred, rfl, rfl⟩

/-- non-vacuity: one error on the initial state -/
example :
    let st : St := { env := ⟨false, ""⟩ }
    let st' := Generated.FuncsIO.handleError IOFail.never st ⟨[84], 0⟩ [109]
    st'.tev = [.error [109]] ∧ st'.events = [(kErred, 1)] ∧
    (GoSnaps.handleError { env := ⟨false, ""⟩ } [109]).1.events.erred = 1 := by decide

/-! ## 3. `takeSnapshot`, `takeYAMLSnapshot` -/

/-- `snapshots := make([]string, len(objects)); for i, object := range objects { snapshots[i] = object }`
    copies the slice (and no index is out of range) -/
theorem forIn_enum_setIndex (l pre : List Text) :
    forIn (m := Option) (GoSem.enumFrom (pre.length : Int) l) (pre ++ List.replicate l.length ([] : Text))
      (fun x r => do
        let v ← GoSem.setIndex r x.fst x.snd
        pure (ForInStep.yield v)) = some (pre ++ l) := by
  induction l generalizing pre with
  | nil => simp [GoSem.enumFrom]
  | cons x xs ih =>
    have h := ih (pre ++ [x])
    simp only [List.length_append, List.length_singleton, List.append_assoc, List.singleton_append,
      Int.natCast_add, Int.cast_ofNat_Int] at h
    simp only [GoSem.enumFrom, List.length_cons, List.replicate_succ, List.forIn_cons,
      GoSem.setIndex_append_length, Option.bind_eq_bind, Option.bind_some, Option.pure_def]
    exact h

/-- **Tie**: `takeSnapshot` never panics and is `escapeEndChars(strings.Join(values, "\n"))`, the
    model's `escape (unlines vals)` -/
theorem takeSnapshot_tied (vals : List Text) : takeSnapshot vals = some (GoSnaps.escape (unlines vals)) := by
  unfold takeSnapshot
  have h := forIn_enum_setIndex vals []
  simp only [List.length_nil, Int.natCast_zero, List.nil_append] at h
  simp only [GoSem.enum, GoSem.makeTexts, GoSem.len, Int.toNat_natCast, h, escapeEndChars_tied]
  rfl

theorem takeYAMLSnapshot_tied (b : Text) : takeYAMLSnapshot b = GoSnaps.escape b :=
  escapeEndChars_tied b

/-- non-vacuity: two values, the second one is the end sequence and gets escaped -/
example : takeSnapshot [[120], [45, 45, 45]] = some [120, 10, 47, 45, 47, 45, 47, 45, 47] := by decide
example : takeSnapshot [[120], [45, 45, 45]] = some [120, 10, 47, 45, 47, 45, 47, 45, 47] := by
  rw [takeSnapshot_tied]; decide
example : takeYAMLSnapshot [45, 45, 45, 10, 97] = [47, 45, 47, 45, 47, 45, 47, 10, 97] := by decide


/-! ## 4. the shared tail of `matchSnapshot`, `matchJSON`, `matchYAML` -/

/-- Everything after the snapshot text is known (`getPrevSnapshot` … `updateSnapshot`), with the Go
    control flow, for every failure oracle; `un` is what both sides of the comparison go through
    (`unescapeEndChars` in matchSnapshot and matchYAML, nothing in matchJSON).  The three
    transliterations are proved to END with this function (`matchSnapshot_eq`, `matchJSON_eq`,
    `matchYAML_eq`). -/
def entryFlow (io : IOFail) (st : St) (t : T) (c : Cfg) (snapPath rel testID snapshot : Text)
    (un : Text → Text) : St :=
  let r := getPrevSnapshot io st.fs testID snapPath
  if r.2.2.isSnapNotFound then
    if !Generated.shouldCreate st.env c.update then Generated.FuncsIO.handleError io st t r.2.2.text
    else
      let a := addNewSnapshot io st.fs testID snapshot snapPath
      if a.2.notNil then Generated.FuncsIO.handleError io { st with fs := a.1 } t a.2.text
      else (({ st with fs := a.1 } : St).tLog t Generated.go_addedMsg).register kAdded
  else if r.2.2.notNil then Generated.FuncsIO.handleError io st t r.2.2.text
  else
    let diff := prettyDiffI (un r.1) (un snapshot) rel r.2.1
    if diff == [] then st.register kPassed
    else if !Generated.shouldUpdate st.env c.update then Generated.FuncsIO.handleError io st t diff
    else
      let u := updateSnapshot io st.fs testID snapshot snapPath
      if u.2.notNil then Generated.FuncsIO.handleError io { st with fs := u.1 } t u.2.text
      else (({ st with fs := u.1 } : St).tLog t Generated.go_updatedMsg).register kUpdated

/-- `"[warning] MatchSnapshot call without params\n"` -/
def warnNoParams : Text :=
  [91, 119, 97, 114, 110, 105, 110, 103, 93, 32, 77, 97, 116, 99, 104, 83, 110, 97, 112, 115, 104, 111, 116, 32, 99,
   97, 108, 108, 32, 119, 105, 116, 104, 111, 117, 116, 32, 112, 97, 114, 97, 109, 115, 10]

theorem warnNoParams_eq : warnNoParams = ofString "[warning] MatchSnapshot call without params\n" := by
  decide +kernel

/-- the state after `getTestID` + `t.Cleanup(...)` -/
def enterSt (st : St) (t : T) (p : Text) (r' : Registry) : St :=
  ({ st with reg := r' } : St).tCleanup t (.resetReg p t.name)

theorem len_eq_zero_iff {α : Type} (l : List α) : (GoSem.len l == 0) = true ↔ l = [] := by
  cases l <;> simp [GoSem.len] ; omega

/-- **Closed form, for every oracle** -/
theorem matchSnapshot_eq (io : IOFail) (st : St) (trimpath : Bool) (caller : Text) (c : Cfg) (t : T)
    (vals : List Text) :
    matchSnapshot io st trimpath caller c t vals =
      if vals = [] then some (st.tLog t warnNoParams)
      else
        match syncRegistry_getTestID st.reg (Generated.Funcs.snapshotPath trimpath caller c t.name false).1 t.name with
        | none => none
        | some (r', id) =>
          some (entryFlow io (enterSt st t (Generated.Funcs.snapshotPath trimpath caller c t.name false).1 r') t c
            (Generated.Funcs.snapshotPath trimpath caller c t.name false).1
            (Generated.Funcs.snapshotPath trimpath caller c t.name false).2 id
            (GoSnaps.escape (unlines vals)) GoSnaps.unescape) := by
  unfold matchSnapshot
  by_cases hv : vals = []
  · subst hv; rfl
  · have hl : (GoSem.len vals == 0) = false := by
      cases h : (GoSem.len vals == 0)
      · rfl
      · exact absurd ((len_eq_zero_iff vals).mp h) hv
    simp only [hl, hv, Bool.false_eq_true, ↓reduceIte]
    cases hg : syncRegistry_getTestID st.reg (Generated.Funcs.snapshotPath trimpath caller c t.name false).1 t.name with
    | none => rfl
    | some ri =>
      obtain ⟨r', id⟩ := ri
      simp only [Option.bind_eq_bind, Option.bind_some, takeSnapshot_tied, unescapeEndChars_tied]
      unfold entryFlow enterSt
      dsimp only
      repeat' split
      all_goals rfl

theorem prettyDiffI_natCast (a b rel : Text) (n : Nat) : prettyDiffI a b rel (n : Int) = prettyDiff a b rel n := by
  simp [prettyDiffI]

/-- **Tie of the shared tail**: under `IOFail.never`, from related states, `entryFlow` does the
    model's `entryTail` (whose `unsupported` answers cannot occur), and reports its events -/
theorem entryFlow_tied (st : St) (w : World) (h : StRel st w) (t : T) (c : Cfg) (p rel id s : Text) (cmp : Cmp) :
    StRel (entryFlow IOFail.never st t c p rel id s (Wld.cmpText cmp)) (entryTail w c p rel id s cmp).1 ∧
    (entryFlow IOFail.never st t c p rel id s (Wld.cmpText cmp)).tev =
      st.tev ++ (entryTail w c p rel id s cmp).2.events ∧
    (entryTail w c p rel id s cmp).2.unsupported = none := by
  have hce : Generated.shouldCreate st.env c.update = Generated.shouldCreate w.env c.update := by rw [h.env]
  have hue : Generated.shouldUpdate st.env c.update = Generated.shouldUpdate w.env c.update := by rw [h.env]
  unfold entryFlow
  rw [getPrevSnapshot_tied, h.fs, hce, hue]
  cases hq : (fsRead w.fs p).bind (getPrev id) with
  | none =>
    simp only [Err.isSnapNotFound, ↓reduceIte]
    cases hc : Generated.shouldCreate w.env c.update with
    | false =>
      rw [Wld.entryTail_absent_ro w c p rel id s cmp hq hc]
      simp only [Bool.not_false, ↓reduceIte]
      refine ⟨(handleError_tied _ st w t _ h).1, ?_, ?_⟩ <;> first | rfl | trivial | simp [St.register]
    | true =>
      rw [Wld.entryTail_absent w c p rel id s cmp hq hc, addNewSnapshot_tied]
      simp only [Bool.not_true, Bool.false_eq_true, ↓reduceIte, Err.notNil]
      refine ⟨((h.set_fs _).tLog t _).register_added, ?_, ?_⟩ <;> first | rfl | trivial | simp [St.register]
  | some pl =>
    obtain ⟨prev, line⟩ := pl
    rw [Wld.entryTail_found w c p rel id s cmp prev line hq]
    simp only [Err.isSnapNotFound, Err.notNil, Bool.false_eq_true, ↓reduceIte, prettyDiffI_natCast, beq_iff_eq]
    by_cases hd : prettyDiff (Wld.cmpText cmp prev) (Wld.cmpText cmp s) rel line = []
    · simp only [hd, ↓reduceIte]
      refine ⟨h.register_passed, ?_, ?_⟩ <;> first | rfl | trivial | simp [St.register]
    · simp only [hd, ↓reduceIte]
      cases hu : Generated.shouldUpdate w.env c.update with
      | false =>
        simp only [Bool.not_false, ↓reduceIte]
        refine ⟨(handleError_tied _ st w t _ h).1, ?_, ?_⟩ <;> first | rfl | trivial | simp [St.register]
      | true =>
        simp only [Bool.not_true, Bool.false_eq_true, ↓reduceIte]
        cases hf : fsRead w.fs p with
        | none => rw [hf] at hq; cases hq
        | some file =>
          rw [updateSnapshot_tied w.fs id s p file hf]
          simp only [Bool.false_eq_true, ↓reduceIte]
          refine ⟨((h.set_fs _).tLog t _).register_updated, ?_, ?_⟩ <;> first | rfl | trivial | simp [St.register]

/-- what the three entry flows do once the registry step is done and `pre` (validation, matchers,
    formatting) is known: report the failure, or run the shared tail -/
def preFlow (io : IOFail) (st : St) (t : T) (c : Cfg) (snapPath rel testID : Text) (pre : Except Text Text)
    (un : Text → Text) : St :=
  match pre with
  | .error msg => Generated.FuncsIO.handleError io st t msg
  | .ok s => entryFlow io st t c snapPath rel testID s un

/-- `getTestID` + `t.Cleanup` from related states: the model's `regBump` and pending entry; the id is
    the model's header `[name - n]` -/
theorem enter_tied (st : St) (w : World) (h : StRel st w) (t : T) (p : Text) :
    ∃ r', syncRegistry_getTestID st.reg p t.name =
        some (r', C03.testID t.name (alGet w.running (p, t.name) + 1)) ∧
      StRel (enterSt st t p r') (Wld.bumped w p t.name t.id) ∧ (enterSt st t p r').tev = st.tev := by
  obtain ⟨r', id, hreg, hrel, hid, _⟩ := syncRegistry_getTestID_regBump w st.reg p t.name h.reg
  have hid' : id = C03.testID t.name (alGet w.running (p, t.name) + 1) := by
    have := C03.testID_eq t.name (alGet w.running (p, t.name) + 1)
    simp only [regBump] at hid
    rw [this] at hid
    exact (Option.some.inj hid).symm
  subst hid'
  exact ⟨r', hreg, h.enter t p r' _ hreg hrel, rfl⟩

/-- **Tie of an entry flow after the path is known**: registry step, cleanup registration and
    `preFlow` are the model's `matchEntry` -/
theorem entry_tied (st : St) (w : World) (h : StRel st w) (caller : Text) (c : Cfg) (t : T) (cmp : Cmp)
    (pre : Except Text Text) (p rel : Text) (hm : GoSnaps.snapshotPath c caller t.name false = (p, some rel)) :
    ∃ r' id, syncRegistry_getTestID st.reg p t.name = some (r', id) ∧
      StRel (preFlow IOFail.never (enterSt st t p r') t c p rel id pre (Wld.cmpText cmp))
        (matchEntry w c caller t.name t.id cmp pre).1 ∧
      (preFlow IOFail.never (enterSt st t p r') t c p rel id pre (Wld.cmpText cmp)).tev =
        st.tev ++ (matchEntry w c caller t.name t.id cmp pre).2.events ∧
      (matchEntry w c caller t.name t.id cmp pre).2.unsupported = none := by
  obtain ⟨r', hreg, hrel, htev⟩ := enter_tied st w h t p
  refine ⟨r', _, hreg, ?_⟩
  cases pre with
  | error msg =>
    rw [Wld.matchEntry_error_eq w c caller t.name t.id cmp msg p rel hm]
    exact ⟨(handleError_tied IOFail.never _ _ t msg hrel).1, by rw [← htev]; rfl, rfl⟩
  | ok s =>
    rw [Wld.matchEntry_eq w c caller t.name t.id cmp s p rel hm]
    obtain ⟨h1, h2, h3⟩ := entryFlow_tied _ _ hrel t c p rel (C03.testID t.name (alGet w.running (p, t.name) + 1)) s cmp
    exact ⟨h1, by rw [← htev]; exact h2, h3⟩

/-- the model answers `unsupported` for an entry call only when the relative path is missing -/
theorem matchEntry_supported_rel (w : World) (c : Cfg) (caller tName : Text) (texec : Nat) (cmp : Cmp)
    (pre : Except Text Text) (hs : (matchEntry w c caller tName texec cmp pre).2.unsupported = none) :
    ∃ rel, GoSnaps.snapshotPath c caller tName false = ((GoSnaps.snapshotPath c caller tName false).1, some rel) := by
  cases hr : (GoSnaps.snapshotPath c caller tName false).2 with
  | some rel => exact ⟨rel, by rw [← hr]⟩
  | none =>
    exfalso
    unfold matchEntry at hs
    generalize GoSnaps.snapshotPath c caller tName false = sp at hs hr
    obtain ⟨a, b⟩ := sp
    simp only at hr
    subst hr
    simp only [regBump] at hs
    split at hs <;> simp_all [unsup]

/-! ## 5. `matchSnapshot` -/

/-- **Tie** (any build mode; `hgo`/`hm` say that the transliterated `snapshotPath` and the model's
    agree on this call) -/
theorem matchSnapshot_tied_path (st : St) (w : World) (h : StRel st w) (trimpath : Bool) (caller : Text)
    (c : Cfg) (t : T) (vals : List Text) (hv : vals ≠ []) (p rel : Text)
    (hgo : Generated.Funcs.snapshotPath trimpath caller c t.name false = (p, rel))
    (hm : GoSnaps.snapshotPath c caller t.name false = (p, some rel)) :
    ∃ st', matchSnapshot IOFail.never st trimpath caller c t vals = some st' ∧
      StRel st' (matchEntry w c caller t.name t.id .escaped (.ok (GoSnaps.escape (unlines vals)))).1 ∧
      st'.tev = st.tev ++ (matchEntry w c caller t.name t.id .escaped (.ok (GoSnaps.escape (unlines vals)))).2.events ∧
      (matchEntry w c caller t.name t.id .escaped (.ok (GoSnaps.escape (unlines vals)))).2.unsupported = none := by
  obtain ⟨r', id, hreg, h1, h2, h3⟩ :=
    entry_tied st w h caller c t .escaped (.ok (GoSnaps.escape (unlines vals))) p rel hm
  refine ⟨_, ?_, h1, h2, h3⟩
  rw [matchSnapshot_eq, if_neg hv, hgo]
  simp only [hreg]
  rfl

/-- **Tie** (the model's build mode, `isTrimBathBuild = false`): whenever the model covers the call
    (`unsupported = none`), `MatchSnapshot` with at least one value does not panic, ends in a state
    related to the model's world, and reports exactly the model's events to its `testing.T` -/
theorem matchSnapshot_tied (st : St) (w : World) (h : StRel st w) (caller : Text) (c : Cfg) (t : T)
    (vals : List Text) (hv : vals ≠ []) (w' : World) (out : Out)
    (hmod : matchEntry w c caller t.name t.id .escaped (.ok (GoSnaps.escape (unlines vals))) = (w', out))
    (hs : out.unsupported = none) :
    ∃ st', matchSnapshot IOFail.never st false caller c t vals = some st' ∧ StRel st' w' ∧
      st'.tev = st.tev ++ out.events := by
  have hs' : (matchEntry w c caller t.name t.id .escaped (.ok (GoSnaps.escape (unlines vals)))).2.unsupported = none := by
    rw [hmod]; exact hs
  obtain ⟨rel, hm⟩ := matchEntry_supported_rel _ _ _ _ _ _ _ hs'
  have hgo := snapshotPath_rel caller c t.name false rel (by rw [hm])
  obtain ⟨st', e, h1, h2, _⟩ := matchSnapshot_tied_path st w h false caller c t vals hv _ rel hgo hm
  rw [hmod] at h1 h2
  exact ⟨st', e, h1, h2⟩

/-- the empty call: one warning is logged, nothing else changes (no ordinal is consumed) -/
theorem matchSnapshot_no_values (io : IOFail) (st : St) (trimpath : Bool) (caller : Text) (c : Cfg) (t : T) :
    matchSnapshot io st trimpath caller c t [] = some { st with tev := st.tev ++ [.log warnNoParams] } := by
  rw [matchSnapshot_eq, if_pos rfl]; rfl

theorem matchSnapshot_no_values_rel (io : IOFail) (st : St) (w : World) (h : StRel st w) (trimpath : Bool)
    (caller : Text) (c : Cfg) (t : T) :
    ∃ st', matchSnapshot io st trimpath caller c t [] = some st' ∧ StRel st' w ∧
      st'.tev = st.tev ++ [.log warnNoParams] :=
  ⟨_, matchSnapshot_no_values io st trimpath caller c t, h.set_tev _, rfl⟩

/-! ### fixtures of the examples -/

def exEnv : Generated.Env := ⟨false, ""⟩
/-- "/a/b_test.go" -/
def exCaller : Text := [47, 97, 47, 98, 95, 116, 101, 115, 116, 46, 103, 111]
/-- "/a/__snapshots__/b_test.snap" -/
def exSnap : Text := [47, 97, 47, 95, 95, 115, 110, 97, 112, 115, 104, 111, 116, 115, 95, 95, 47,
  98, 95, 116, 101, 115, 116, 46, 115, 110, 97, 112]
/-- test "T", execution 0 -/
def exT : T := ⟨[84], 0⟩
def exSt0 : St := { env := exEnv }
def exW0 : World := { env := exEnv }
/-- what the examples look at -/
def St.view (s : St) : FS × Map1 × List TEvent × Registry × SRegistry × List (Nat × Cleanup) :=
  (s.fs, s.events, s.tev, s.reg, s.sreg, s.cleanups)

theorem exSt0_rel : StRel exSt0 exW0 := StRel_init exEnv []

/-- (a six-component product needs more than the default instance size) -/
instance : DecidableEq (FS × Map1 × List TEvent × Registry × SRegistry × List (Nat × Cleanup)) :=
  have : DecidableEq (Registry × SRegistry × List (Nat × Cleanup)) := inferInstance
  have : DecidableEq (List TEvent × Registry × SRegistry × List (Nat × Cleanup)) := inferInstance
  have : DecidableEq (Map1 × List TEvent × Registry × SRegistry × List (Nat × Cleanup)) := inferInstance
  inferInstance

/-- non-vacuity, by evaluation: on the empty world the first `MatchSnapshot(t, "x")` of test "T" adds
    "\n[T - 1]\nx\n---\n" to /a/__snapshots__/b_test.snap and logs "added"; the identical call from a
    fresh execution of the test (registry reset by the cleanup) passes silently; a call from the SAME
    execution is slot 2 and adds a second entry -/
example :
    (matchSnapshot IOFail.never exSt0 false exCaller {} exT [[120]]).map St.view =
      some ([(exSnap, [10, 91, 84, 32, 45, 32, 49, 93, 10, 120, 10, 45, 45, 45, 10])], [(kAdded, 1)],
        [.log Generated.go_addedMsg],
        { running := [(exSnap, [([84], 1)])], cleanup := [(exSnap, [([84], 1)])] }, {},
        [(0, .resetReg exSnap [84])]) ∧
    ((matchSnapshot IOFail.never exSt0 false exCaller {} exT [[120]]).bind (fun s =>
        (syncRegistry_reset s.reg exSnap [84]).bind (fun r =>
          matchSnapshot IOFail.never { s with reg := r, cleanups := [] } false exCaller {} ⟨[84], 1⟩ [[120]]))).map St.view =
      some ([(exSnap, [10, 91, 84, 32, 45, 32, 49, 93, 10, 120, 10, 45, 45, 45, 10])], [(kAdded, 1), (kPassed, 1)],
        [.log Generated.go_addedMsg],
        { running := [(exSnap, [([84], 1)])], cleanup := [(exSnap, [([84], 2)])] }, {},
        [(1, .resetReg exSnap [84])]) ∧
    ((matchSnapshot IOFail.never exSt0 false exCaller {} exT [[120]]).bind (fun s =>
        matchSnapshot IOFail.never s false exCaller {} exT [[120]])).map (fun s => (s.fs, s.events)) =
      some ([(exSnap, [10, 91, 84, 32, 45, 32, 49, 93, 10, 120, 10, 45, 45, 45, 10,
                       10, 91, 84, 32, 45, 32, 50, 93, 10, 120, 10, 45, 45, 45, 10])], [(kAdded, 2)]) := by
  decide +kernel

/-- the same first call through the theorem: the model's step, and the related end state -/
example : ∃ st', matchSnapshot IOFail.never exSt0 false exCaller {} exT [[120]] = some st' ∧
    StRel st' (matchEntry exW0 {} exCaller [84] 0 .escaped (.ok [120])).1 ∧
    st'.tev = [.log Generated.go_addedMsg] ∧
    (matchEntry exW0 {} exCaller [84] 0 .escaped (.ok [120])).1.fs =
      [(exSnap, [10, 91, 84, 32, 45, 32, 49, 93, 10, 120, 10, 45, 45, 45, 10])] := by
  have he : GoSnaps.escape (unlines [[120]]) = [120] := by decide
  obtain ⟨st', e, h1, h2⟩ := matchSnapshot_tied exSt0 exW0 exSt0_rel exCaller {} exT [[120]] (by decide)
    (matchEntry exW0 {} exCaller [84] 0 .escaped (.ok [120])).1
    (matchEntry exW0 {} exCaller [84] 0 .escaped (.ok [120])).2 (by rw [he]; rfl) (by decide +kernel)
  refine ⟨st', e, h1, ?_, by decide +kernel⟩
  rw [h2]; decide +kernel

example : matchSnapshot IOFail.never exSt0 false exCaller {} exT [] =
    some { exSt0 with tev := [.log warnNoParams] } := matchSnapshot_no_values _ _ _ _ _ _

/-! ## 6. the shared tail of `matchStandaloneSnapshot` and `matchStandaloneJSON` -/

/-- Everything after the snapshot text is known (`getPrevStandaloneSnapshot` …
    `upsertStandaloneSnapshot`), with the Go control flow, for every failure oracle -/
def standaloneFlow (io : IOFail) (st : St) (t : T) (c : Cfg) (snapPath rel snapshot : Text) : St :=
  let r := getPrevStandaloneSnapshot io st.fs snapPath
  if r.2.isSnapNotFound then
    if !Generated.shouldCreate st.env c.update then Generated.FuncsIO.handleError io st t r.2.text
    else
      let a := upsertStandaloneSnapshot io st.fs snapshot snapPath
      if a.2.notNil then Generated.FuncsIO.handleError io { st with fs := a.1 } t a.2.text
      else (({ st with fs := a.1 } : St).tLog t Generated.go_addedMsg).register kAdded
  else if r.2.notNil then Generated.FuncsIO.handleError io st t r.2.text
  else
    let diff := prettyDiffI r.1 snapshot rel 1
    if diff == [] then st.register kPassed
    else if !Generated.shouldUpdate st.env c.update then Generated.FuncsIO.handleError io st t diff
    else
      let u := upsertStandaloneSnapshot io st.fs snapshot snapPath
      if u.2.notNil then Generated.FuncsIO.handleError io { st with fs := u.1 } t u.2.text
      else (({ st with fs := u.1 } : St).tLog t Generated.go_updatedMsg).register kUpdated

def preSAFlow (io : IOFail) (st : St) (t : T) (c : Cfg) (snapPath rel : Text) (pre : Except Text Text) : St :=
  match pre with
  | .error msg => Generated.FuncsIO.handleError io st t msg
  | .ok s => standaloneFlow io st t c snapPath rel s

/-- the state after `standaloneTestsRegistry.getTestID` + `t.Cleanup(...)` -/
def enterSASt (st : St) (t : T) (g : Text) (s' : SRegistry) : St :=
  ({ st with sreg := s' } : St).tCleanup t (.resetSReg g)

/-- **Closed form, for every oracle** -/
theorem matchStandaloneSnapshot_eq (io : IOFail) (st : St) (trimpath : Bool) (caller : Text) (c : Cfg) (t : T)
    (input : Text) :
    matchStandaloneSnapshot io st trimpath caller c t input =
      match syncStandaloneRegistry_getTestID st.sreg (Generated.Funcs.snapshotPath trimpath caller c t.name true).1
          (Generated.Funcs.snapshotPath trimpath caller c t.name true).2 with
      | none => none
      | some (s', p, rel) =>
        some (preSAFlow io (enterSASt st t (Generated.Funcs.snapshotPath trimpath caller c t.name true).1 s') t c p rel
          (.ok input)) := by
  unfold matchStandaloneSnapshot
  dsimp only
  cases hg : syncStandaloneRegistry_getTestID st.sreg (Generated.Funcs.snapshotPath trimpath caller c t.name true).1
      (Generated.Funcs.snapshotPath trimpath caller c t.name true).2 with
  | none => rfl
  | some ri =>
    obtain ⟨s', p, rel⟩ := ri
    simp only [Option.bind_eq_bind, Option.bind_some]
    unfold preSAFlow standaloneFlow enterSASt
    dsimp only
    repeat' split
    all_goals rfl

theorem prettyDiffI_one (a b rel : Text) : prettyDiffI a b rel 1 = prettyDiff a b rel 1 := rfl

/-- **Tie of the shared tail**: under `IOFail.never`, from related states, `standaloneFlow` does the
    model's `standaloneTail` and reports its events -/
theorem standaloneFlow_tied (st : St) (w : World) (h : StRel st w) (t : T) (c : Cfg) (p rel s : Text) :
    StRel (standaloneFlow IOFail.never st t c p rel s) (standaloneTail w c p rel s).1 ∧
    (standaloneFlow IOFail.never st t c p rel s).tev = st.tev ++ (standaloneTail w c p rel s).2.events ∧
    (standaloneTail w c p rel s).2.unsupported = none := by
  have hce : Generated.shouldCreate st.env c.update = Generated.shouldCreate w.env c.update := by rw [h.env]
  have hue : Generated.shouldUpdate st.env c.update = Generated.shouldUpdate w.env c.update := by rw [h.env]
  unfold standaloneFlow standaloneTail
  rw [getPrevStandaloneSnapshot_tied, upsertStandaloneSnapshot_tied, h.fs, hce, hue]
  cases hf : fsRead w.fs p with
  | none =>
    simp only [Err.isSnapNotFound, ↓reduceIte]
    cases hc : Generated.shouldCreate w.env c.update with
    | false =>
      simp only [Bool.not_false, ↓reduceIte]
      refine ⟨(handleError_tied IOFail.never st w t _ h).1, ?_, ?_⟩ <;> first | rfl | trivial
    | true =>
      simp only [Bool.not_true, Bool.false_eq_true, ↓reduceIte, Err.notNil]
      refine ⟨((h.set_fs _).tLog t _).register_added, ?_, ?_⟩ <;> first | rfl | trivial
  | some prev =>
    simp only [Err.isSnapNotFound, Err.notNil, Bool.false_eq_true, ↓reduceIte, prettyDiffI_one, beq_iff_eq]
    by_cases hd : prettyDiff prev s rel 1 = []
    · simp only [hd, ↓reduceIte]
      refine ⟨h.register_passed, ?_, ?_⟩ <;> first | rfl | trivial | simp [St.register]
    · simp only [hd, ↓reduceIte]
      cases hu : Generated.shouldUpdate w.env c.update with
      | false =>
        simp only [Bool.not_false, ↓reduceIte]
        refine ⟨(handleError_tied IOFail.never st w t _ h).1, ?_, ?_⟩ <;> first | rfl | trivial
      | true =>
        simp only [Bool.not_true, Bool.false_eq_true, ↓reduceIte]
        refine ⟨((h.set_fs _).tLog t _).register_updated, ?_, ?_⟩ <;> first | rfl | trivial

theorem matchStandalone_pre_eq (w : World) (c : Cfg) (caller tName : Text) (texec : Nat) (pre : Except Text Text)
    (g grel pth rel : Text) (hsp : GoSnaps.snapshotPath c caller tName true = (g, some grel))
    (hp : sprintf g [.d (alGet w.srunning g + 1)] = some pth)
    (hr : sprintf grel [.d (alGet w.srunning g + 1)] = some rel) :
    matchStandalone w c caller tName texec pre =
      match pre with
      | .error msg => GoSnaps.handleError (Wld.sbumped w g texec) msg
      | .ok s => standaloneTail (Wld.sbumped w g texec) c pth rel s := by
  unfold matchStandalone
  rw [hsp]
  simp only [sregBump, hp, hr]
  rfl

/-- **Tie of a standalone flow after the generic path is known**: registry step (including the two
    run-time `Sprintf`s of the numbered paths), cleanup registration and `preSAFlow` are the model's
    `matchStandalone` -/
theorem standalone_tied (st : St) (w : World) (h : StRel st w) (caller : Text) (c : Cfg) (t : T)
    (pre : Except Text Text) (g grel pth rel : Text)
    (hm : GoSnaps.snapshotPath c caller t.name true = (g, some grel))
    (hp : sprintf g [.d (alGet w.srunning g + 1)] = some pth)
    (hr : sprintf grel [.d (alGet w.srunning g + 1)] = some rel) :
    syncStandaloneRegistry_getTestID st.sreg g grel = some (sregBumped st.sreg g, pth, rel) ∧
      StRel (preSAFlow IOFail.never (enterSASt st t g (sregBumped st.sreg g)) t c pth rel pre)
        (matchStandalone w c caller t.name t.id pre).1 ∧
      (preSAFlow IOFail.never (enterSASt st t g (sregBumped st.sreg g)) t c pth rel pre).tev =
        st.tev ++ (matchStandalone w c caller t.name t.id pre).2.events ∧
      (matchStandalone w c caller t.name t.id pre).2.unsupported = none := by
  have hreg := (syncStandaloneRegistry_getTestID_sregBump w st.sreg g grel h.sreg).1
  simp only [sregBump, hp, hr] at hreg
  have hrel : StRel (enterSASt st t g (sregBumped st.sreg g)) (Wld.sbumped w g t.id) := h.enterSA t g
  refine ⟨hreg, ?_⟩
  rw [matchStandalone_pre_eq w c caller t.name t.id pre g grel pth rel hm hp hr]
  cases pre with
  | error msg => exact ⟨(handleError_tied IOFail.never _ _ t msg hrel).1, rfl, rfl⟩
  | ok s => exact standaloneFlow_tied _ _ hrel t c pth rel s

/-- the model covers a standalone call exactly when the relative path exists and both run-time
    formats are inside the modelled fragment -/
theorem matchStandalone_supported (w : World) (c : Cfg) (caller tName : Text) (texec : Nat)
    (pre : Except Text Text) (hs : (matchStandalone w c caller tName texec pre).2.unsupported = none) :
    ∃ grel pth rel,
      GoSnaps.snapshotPath c caller tName true = ((GoSnaps.snapshotPath c caller tName true).1, some grel) ∧
      sprintf (GoSnaps.snapshotPath c caller tName true).1
        [.d (alGet w.srunning (GoSnaps.snapshotPath c caller tName true).1 + 1)] = some pth ∧
      sprintf grel [.d (alGet w.srunning (GoSnaps.snapshotPath c caller tName true).1 + 1)] = some rel := by
  unfold matchStandalone at hs
  generalize GoSnaps.snapshotPath c caller tName true = sp at hs ⊢
  obtain ⟨g, grel?⟩ := sp
  cases grel? with
  | none => simp [unsup] at hs
  | some grel =>
    simp only [sregBump] at hs
    cases hp : sprintf g [.d (alGet w.srunning g + 1)] with
    | none => simp [hp, unsup] at hs
    | some pth =>
      cases hr : sprintf grel [.d (alGet w.srunning g + 1)] with
      | none => simp [hp, hr, unsup] at hs
      | some rel => exact ⟨grel, pth, rel, rfl, rfl, hr⟩

/-! ## 7. `matchStandaloneSnapshot` -/

theorem matchStandaloneSnapshot_tied_path (st : St) (w : World) (h : StRel st w) (trimpath : Bool) (caller : Text)
    (c : Cfg) (t : T) (input : Text) (g grel pth rel : Text)
    (hgo : Generated.Funcs.snapshotPath trimpath caller c t.name true = (g, grel))
    (hm : GoSnaps.snapshotPath c caller t.name true = (g, some grel))
    (hp : sprintf g [.d (alGet w.srunning g + 1)] = some pth)
    (hr : sprintf grel [.d (alGet w.srunning g + 1)] = some rel) :
    ∃ st', matchStandaloneSnapshot IOFail.never st trimpath caller c t input = some st' ∧
      StRel st' (matchStandalone w c caller t.name t.id (.ok input)).1 ∧
      st'.tev = st.tev ++ (matchStandalone w c caller t.name t.id (.ok input)).2.events ∧
      (matchStandalone w c caller t.name t.id (.ok input)).2.unsupported = none := by
  obtain ⟨hreg, h1, h2, h3⟩ := standalone_tied st w h caller c t (.ok input) g grel pth rel hm hp hr
  refine ⟨_, ?_, h1, h2, h3⟩
  rw [matchStandaloneSnapshot_eq, hgo]
  simp only [hreg]

/-- **Tie** (the model's build mode): whenever the model covers the call, `MatchStandaloneSnapshot`
    does not panic (in particular both run-time format strings are well-formed), ends in a state
    related to the model's world, and reports exactly the model's events -/
theorem matchStandaloneSnapshot_tied (st : St) (w : World) (h : StRel st w) (caller : Text) (c : Cfg) (t : T)
    (input : Text) (w' : World) (out : Out)
    (hmod : matchStandalone w c caller t.name t.id (.ok input) = (w', out)) (hs : out.unsupported = none) :
    ∃ st', matchStandaloneSnapshot IOFail.never st false caller c t input = some st' ∧ StRel st' w' ∧
      st'.tev = st.tev ++ out.events := by
  have hs' : (matchStandalone w c caller t.name t.id (.ok input)).2.unsupported = none := by rw [hmod]; exact hs
  obtain ⟨grel, pth, rel, hm, hp, hr⟩ := matchStandalone_supported _ _ _ _ _ _ hs'
  have hgo := snapshotPath_rel caller c t.name true grel (by rw [hm])
  obtain ⟨st', e, h1, h2, _⟩ := matchStandaloneSnapshot_tied_path st w h false caller c t input _ grel pth rel hgo hm hp hr
  rw [hmod] at h1 h2
  exact ⟨st', e, h1, h2⟩

/-- "/a/__snapshots__/T_1.snap" -/
def exSASnap : Text := [47, 97, 47, 95, 95, 115, 110, 97, 112, 115, 104, 111, 116, 115, 95, 95, 47, 84, 95, 49, 46,
  115, 110, 97, 112]
/-- "/a/__snapshots__/T_%d.snap" -/
def exSAGeneric : Text := [47, 97, 47, 95, 95, 115, 110, 97, 112, 115, 104, 111, 116, 115, 95, 95, 47, 84, 95, 37, 100,
  46, 115, 110, 97, 112]

/-- non-vacuity, by evaluation: the first `MatchStandaloneSnapshot(t, "x")` of test "T" creates
    /a/__snapshots__/T_1.snap holding "x"; the identical call from a fresh execution passes; with
    different content and updates off (the default) it is an error and the file stays -/
example :
    (matchStandaloneSnapshot IOFail.never exSt0 false exCaller {} exT [120]).map St.view =
      some ([(exSASnap, [120])], [(kAdded, 1)], [.log Generated.go_addedMsg], {},
        { running := [(exSAGeneric, 1)], cleanup := [(exSAGeneric, 1)] }, [(0, .resetSReg exSAGeneric)]) ∧
    ((matchStandaloneSnapshot IOFail.never exSt0 false exCaller {} exT [120]).bind (fun s =>
        matchStandaloneSnapshot IOFail.never
          { s with sreg := syncStandaloneRegistry_reset s.sreg exSAGeneric, cleanups := [] }
          false exCaller {} ⟨[84], 1⟩ [120])).map (fun s => (s.fs, s.events, s.tev)) =
      some ([(exSASnap, [120])], [(kAdded, 1), (kPassed, 1)], [.log Generated.go_addedMsg]) ∧
    ((matchStandaloneSnapshot IOFail.never exSt0 false exCaller {} exT [120]).bind (fun s =>
        matchStandaloneSnapshot IOFail.never
          { s with sreg := syncStandaloneRegistry_reset s.sreg exSAGeneric, cleanups := [] }
          false exCaller {} ⟨[84], 1⟩ [121])).map (fun s => (s.fs, s.events, s.tev.length)) =
      some ([(exSASnap, [120])], [(kAdded, 1), (kErred, 1)], 2) := by
  refine ⟨by decide +kernel, by decide +kernel, by decide +kernel⟩

/-- the same first call through the theorem -/
example : ∃ st', matchStandaloneSnapshot IOFail.never exSt0 false exCaller {} exT [120] = some st' ∧
    StRel st' (matchStandalone exW0 {} exCaller [84] 0 (.ok [120])).1 ∧
    st'.tev = [.log Generated.go_addedMsg] ∧
    (matchStandalone exW0 {} exCaller [84] 0 (.ok [120])).1.fs = [(exSASnap, [120])] := by
  obtain ⟨st', e, h1, h2⟩ := matchStandaloneSnapshot_tied exSt0 exW0 exSt0_rel exCaller {} exT [120] _ _ rfl
    (by decide +kernel)
  refine ⟨st', e, h1, ?_, by decide +kernel⟩
  rw [h2]; decide +kernel

/-! ## 8. the matcher loops: `applyJSONMatchers`, `applyYAMLMatchers`, the error message -/

/-- a `for … range` loop whose body always continues is a left fold (`Id`) -/
theorem forIn_yield_foldl {α β : Type} (l : List α) (F : α → β → Id (ForInStep β)) (f : β → α → β)
    (hF : ∀ a b, F a b = pure (ForInStep.yield (f b a))) (b : β) :
    forIn (m := Id) l b F = pure (l.foldl f b) := by
  induction l generalizing b with
  | nil => rfl
  | cons x xs ih => rw [List.forIn_cons, hF]; simp only [pure_bind]; rw [ih]; rfl

/-- the same in `Option` (the loop body cannot panic) -/
theorem forIn_yield_foldl_opt {α β : Type} (l : List α) (F : α → β → Option (ForInStep β)) (f : β → α → β)
    (hF : ∀ a b, F a b = some (ForInStep.yield (f b a))) (b : β) :
    forIn (m := Option) l b F = some (l.foldl f b) := by
  induction l generalizing b with
  | nil => rfl
  | cons x xs ih => rw [List.forIn_cons, hF]; simp only [Option.bind_eq_bind, Option.bind_some]; rw [ih]; rfl

theorem len_pos_iff {α : Type} (l : List α) : decide (GoSem.len l > 0) = true ↔ l ≠ [] := by
  cases l <;> simp [GoSem.len] <;> omega

/-- one iteration of `applyJSONMatchers` / `applyYAMLMatchers` on the state (document, errors):
    a matcher that reports errors is skipped (`continue`: its output is dropped, its errors are
    appended); otherwise its output is the next document -/
def matcherStep (run : Matcher → Text → Text × List MErr) (s : Text × List MErr) (m : Matcher) : Text × List MErr :=
  if (run m s.1).2 ≠ [] then (s.1, s.2 ++ (run m s.1).2) else ((run m s.1).1, s.2)

/-- the matcher pipeline as a fold over the matchers, left to right -/
def applyMatchers (run : Matcher → Text → Text × List MErr) (b : Text) (ms : List Matcher) : Text × List MErr :=
  ms.foldl (matcherStep run) (b, [])

theorem foldl_matcherStep_eq_C15 (run : Matcher → Text → Text × List MErr) (ms : List Matcher) (b : Text)
    (errs : List MErr) :
    ms.foldl (matcherStep run) (b, errs) = C15.applyMatchers (ms.map run) b errs := by
  induction ms generalizing b errs with
  | nil => rfl
  | cons m ms ih =>
    simp only [List.foldl_cons, List.map_cons, C15.applyMatchers, matcherStep]
    by_cases h : (run m b).2 = []
    · simp only [h, ne_eq, not_true_eq_false, ↓reduceIte]; exact ih _ _
    · simp only [h, ne_eq, not_false_eq_true, ↓reduceIte]; exact ih _ _

/-- … which is the C15 model of the pipeline (`C15.applyMatchers`) on the matchers `run m` -/
theorem applyMatchers_eq_C15 (run : Matcher → Text → Text × List MErr) (b : Text) (ms : List Matcher) :
    applyMatchers run b ms = C15.applyMatchers (ms.map run) b [] :=
  foldl_matcherStep_eq_C15 run ms b []

/-- **`applyMatchers_eq`**: the transliterated loop is the fold -/
theorem applyJSONMatchers_eq (run : Matcher → Text → Text × List MErr) (b : Text) (ms : List Matcher) :
    applyJSONMatchers run b ms = applyMatchers run b ms := by
  unfold applyJSONMatchers applyMatchers
  simp only [Id.run, bind, pure]
  rw [forIn_yield_foldl ms _ (matcherStep run)]
  · rfl
  · intro m s
    unfold matcherStep
    by_cases h : (run m s.1).2 = []
    · simp [h, GoSem.len]; rfl
    · have := (len_pos_iff (run m s.1).2).mpr h
      simp only [this, h, ne_eq, not_false_eq_true, ↓reduceIte]; rfl

theorem applyYAMLMatchers_eq (run : Matcher → Text → Text × List MErr) (b : Text) (ms : List Matcher) :
    applyYAMLMatchers run b ms = applyMatchers run b ms := by
  unfold applyYAMLMatchers applyMatchers
  simp only [Id.run, bind, pure]
  rw [forIn_yield_foldl ms _ (matcherStep run)]
  · rfl
  · intro m s
    unfold matcherStep
    by_cases h : (run m s.1).2 = []
    · simp [h, GoSem.len]; rfl
    · have := (len_pos_iff (run m s.1).2).mpr h
      simp only [this, h, ne_eq, not_false_eq_true, ↓reduceIte]; rfl

/-- the fold, spelled out: the result document is the document after applying, left to right,
    every matcher that returned no error … -/
theorem applyMatchers_nil (run : Matcher → Text → Text × List MErr) (b : Text) : applyMatchers run b [] = (b, []) := rfl

theorem foldl_matcherStep_errs (run : Matcher → Text → Text × List MErr) (ms : List Matcher) (b : Text)
    (errs : List MErr) :
    ms.foldl (matcherStep run) (b, errs) =
      ((ms.foldl (matcherStep run) (b, [])).1, errs ++ (ms.foldl (matcherStep run) (b, [])).2) := by
  induction ms generalizing b errs with
  | nil => simp
  | cons m ms ih =>
    simp only [List.foldl_cons, matcherStep]
    by_cases h : (run m b).2 = []
    · simp only [h, ne_eq, not_true_eq_false, ↓reduceIte]; exact ih _ _
    · simp only [h, ne_eq, not_false_eq_true, ↓reduceIte, List.nil_append]
      rw [ih b (errs ++ (run m b).2), ih b (run m b).2]
      simp

/-- … and the errors are the concatenation of the errors of the failing matchers, in order -/
theorem applyMatchers_cons (run : Matcher → Text → Text × List MErr) (b : Text) (m : Matcher) (ms : List Matcher) :
    applyMatchers run b (m :: ms) =
      if (run m b).2 = [] then applyMatchers run (run m b).1 ms
      else ((applyMatchers run b ms).1, (run m b).2 ++ (applyMatchers run b ms).2) := by
  unfold applyMatchers
  simp only [List.foldl_cons, matcherStep]
  by_cases h : (run m b).2 = []
  · simp only [h, ne_eq, not_true_eq_false, ↓reduceIte]
  · simp only [h, ne_eq, not_false_eq_true, ↓reduceIte, List.nil_append]
    exact foldl_matcherStep_errs run ms b _

/-- `Matcher`, `Path`, `Reason.Error()` of a `match.MatcherError` -/
def merrTriple (e : MErr) : Text × Text × Text := (e.matcher, e.path, e.reason.text)

/-- the message built by the loop over `matchersErrors`: for each error
    `"\n" + errorSymbol + "match." + Matcher + "(\"" + Path + "\") - " + Reason` — the C17 model's
    `errText` -/
def matcherMsg (errs : List MErr) : Text := C17.errText (errs.map merrTriple)

theorem matcherMsg_foldl (errs : List MErr) (acc : Text) :
    errs.foldl (fun s e => s ++ (([10] : Text) ++ Generated.go_errorSymbol ++ ([109, 97, 116, 99, 104, 46] : Text) ++
      e.matcher ++ ([40, 34] : Text) ++ e.path ++ ([34, 41, 32, 45, 32] : Text) ++ e.reason.text)) acc =
    acc ++ matcherMsg errs := by
  induction errs generalizing acc with
  | nil => simp [matcherMsg, C17.errText]
  | cons e es ih =>
    rw [List.foldl_cons, ih]
    simp [matcherMsg, C17.errText, C17.errLine, C17.piece, merrTriple, nl]

/-- the message is what the model's driver builds with the format string read from the source -/
theorem matcherMsg_eq_fmt (errs : List MErr) : C17.matcherErrMsg (errs.map merrTriple) = some (matcherMsg errs) :=
  C17.matcherErrMsg_eq _

/-- what `matchJSON` / `matchYAML` / `matchStandaloneJSON` compute before they look at the file
    system: `.error` = the text handed to `handleError`, `.ok` = the snapshot text -/
def docPre (validate : Text → Text × Err) (run : Matcher → Text → Text × List MErr) (render : Text → Text)
    (input : Text) (ms : List Matcher) : Except Text Text :=
  if (validate input).2.notNil then .error (validate input).2.text
  else if (applyMatchers run (validate input).1 ms).2 ≠ [] then
    .error (matcherMsg (applyMatchers run (validate input).1 ms).2)
  else .ok (render (applyMatchers run (validate input).1 ms).1)

/-- `docPre` is the C17 model's `pipeline` -/
theorem docPre_eq_pipeline (validate : Text → Text × Err) (run : Matcher → Text → Text × List MErr)
    (render : Text → Text) (input : Text) (ms : List Matcher) :
    docPre validate run render input ms =
      C17.pipeline (fun i => if (validate i).2.notNil then .error (validate i).2.text else .ok (validate i).1)
        (ms.map (fun m d => ((run m d).1, (run m d).2.map merrTriple))) render input := by
  have key : ∀ (ms : List Matcher) (b : Text) (errs : List MErr),
      C15.applyMatchers (ms.map (fun m d => ((run m d).1, (run m d).2.map merrTriple))) b (errs.map merrTriple) =
        ((C15.applyMatchers (ms.map run) b errs).1, (C15.applyMatchers (ms.map run) b errs).2.map merrTriple) := by
    intro ms
    induction ms with
    | nil => intro b errs; rfl
    | cons m ms ih =>
      intro b errs
      simp only [List.map_cons, C15.applyMatchers]
      by_cases h : (run m b).2 = []
      · simp only [h, List.map_nil, ne_eq, not_true_eq_false, ↓reduceIte]; exact ih _ _
      · have h' : (run m b).2.map merrTriple ≠ [] := by simpa using h
        simp only [h, h', ne_eq, not_false_eq_true, ↓reduceIte, ← List.map_append]; exact ih _ _
  unfold docPre C17.pipeline
  by_cases hv : (validate input).2.notNil = true
  · simp only [hv, ↓reduceIte]
  · simp only [hv, Bool.false_eq_true, ↓reduceIte]
    have := key ms (validate input).1 []
    simp only [List.map_nil] at this
    rw [this, applyMatchers_eq_C15]
    by_cases he : (C15.applyMatchers (ms.map run) (validate input).1 []).2 = []
    · simp [he]
    · simp [he, matcherMsg]

/-- non-vacuity: three matchers on the document "d": the first appends "1", the second fails,
    the third appends "3": document "d13", the second's error; the message names it -/
example :
    let run : Matcher → Text → Text × List MErr := fun m d =>
      if m = 2 then (d ++ [50], [⟨.other [120], [65, 110, 121], [97]⟩]) else (d ++ [UInt8.ofNat (48 + m)], [])
    applyJSONMatchers run [100] [1, 2, 3] = ([100, 49, 51], [⟨.other [120], [65, 110, 121], [97]⟩]) ∧
    applyYAMLMatchers run [100] [1, 3] = ([100, 49, 51], []) ∧
    docPre (fun i => (i, .nil)) run id [100] [1, 2, 3] =
      .error [10, 226, 156, 149, 32, 109, 97, 116, 99, 104, 46, 65, 110, 121, 40, 34, 97, 34, 41, 32, 45, 32, 120] ∧
    docPre (fun i => (i, .nil)) run id [100] [1, 3] = .ok [100, 49, 51] ∧
    docPre (fun i => (i, .other [101])) run id [100] [1, 3] = .error [101] := by
  refine ⟨by decide, by decide, by rfl, by rfl, by rfl⟩

/-! ## 9. `matchJSON`, `matchYAML`, `matchStandaloneJSON` -/

/-- the `strings.Builder` loop over `matchersErrors` (it cannot panic) -/
theorem msg_loop (errs : List MErr) :
    forIn (m := Option) errs ([] : Text) (fun err_6 s => pure (ForInStep.yield
      (s ++ (([10] : Text) ++ Generated.go_errorSymbol ++ ([109, 97, 116, 99, 104, 46] : Text) ++ err_6.matcher ++
        ([40, 34] : Text) ++ err_6.path ++ ([34, 41, 32, 45, 32] : Text) ++ err_6.reason.text)))) =
    some (matcherMsg errs) := by
  refine (forIn_yield_foldl_opt errs _ (fun s e => s ++ (([10] : Text) ++ Generated.go_errorSymbol ++
    ([109, 97, 116, 99, 104, 46] : Text) ++ e.matcher ++ ([40, 34] : Text) ++ e.path ++
    ([34, 41, 32, 45, 32] : Text) ++ e.reason.text)) (fun _ _ => rfl) []).trans ?_
  rw [matcherMsg_foldl]
  rfl

/-- **Closed form, for every oracle**: the ordinal is consumed and the cleanup registered first,
    whatever validation and matchers say; then `preFlow` on `docPre` -/
theorem matchJSON_eq (io : IOFail) (st : St) (trimpath : Bool) (caller : Text)
    (run : Matcher → Text → Text × List MErr) (validate : Text → Text × Err) (takeJSON : Cfg → Text → Text)
    (c : Cfg) (t : T) (input : Text) (ms : List Matcher) :
    matchJSON io st trimpath caller run validate takeJSON c t input ms =
      match syncRegistry_getTestID st.reg (Generated.Funcs.snapshotPath trimpath caller c t.name false).1 t.name with
      | none => none
      | some (r', id) =>
        some (preFlow io (enterSt st t (Generated.Funcs.snapshotPath trimpath caller c t.name false).1 r') t c
          (Generated.Funcs.snapshotPath trimpath caller c t.name false).1
          (Generated.Funcs.snapshotPath trimpath caller c t.name false).2 id
          (docPre validate run (takeJSON c) input ms) (Wld.cmpText .raw)) := by
  unfold matchJSON
  dsimp only
  cases hg : syncRegistry_getTestID st.reg (Generated.Funcs.snapshotPath trimpath caller c t.name false).1 t.name with
  | none => rfl
  | some ri =>
    obtain ⟨r', id⟩ := ri
    simp only [Option.bind_eq_bind, Option.bind_some, applyJSONMatchers_eq]
    unfold docPre
    by_cases hv : (validate input).2.notNil = true
    · simp only [hv, ↓reduceIte]; rfl
    · simp only [hv, Bool.false_eq_true, ↓reduceIte]
      by_cases he : (applyMatchers run (validate input).1 ms).2 = []
      · have hl : decide (GoSem.len (applyMatchers run (validate input).1 ms).2 > 0) = false := by
          rw [he]; rfl
        have hne : ¬ ((applyMatchers run (validate input).1 ms).2 ≠ []) := fun h => h he
        simp only [hl, hne, Bool.false_eq_true, ↓reduceIte]
        unfold preFlow entryFlow enterSt
        dsimp only [Wld.cmpText]
        repeat' split
        all_goals rfl
      · have hl := (len_pos_iff _).mpr he
        simp only [hl, he, ↓reduceIte, ne_eq, not_false_eq_true, msg_loop, Option.bind_some]
        rfl

theorem matchYAML_eq (io : IOFail) (st : St) (trimpath : Bool) (caller : Text)
    (run : Matcher → Text → Text × List MErr) (validate : Text → Text × Err)
    (c : Cfg) (t : T) (input : Text) (ms : List Matcher) :
    matchYAML io st trimpath caller run validate c t input ms =
      match syncRegistry_getTestID st.reg (Generated.Funcs.snapshotPath trimpath caller c t.name false).1 t.name with
      | none => none
      | some (r', id) =>
        some (preFlow io (enterSt st t (Generated.Funcs.snapshotPath trimpath caller c t.name false).1 r') t c
          (Generated.Funcs.snapshotPath trimpath caller c t.name false).1
          (Generated.Funcs.snapshotPath trimpath caller c t.name false).2 id
          (docPre validate run GoSnaps.escape input ms) (Wld.cmpText .escaped)) := by
  unfold matchYAML
  dsimp only
  cases hg : syncRegistry_getTestID st.reg (Generated.Funcs.snapshotPath trimpath caller c t.name false).1 t.name with
  | none => rfl
  | some ri =>
    obtain ⟨r', id⟩ := ri
    simp only [Option.bind_eq_bind, Option.bind_some, applyYAMLMatchers_eq, takeYAMLSnapshot_tied,
      unescapeEndChars_tied]
    unfold docPre
    by_cases hv : (validate input).2.notNil = true
    · simp only [hv, ↓reduceIte]; rfl
    · simp only [hv, Bool.false_eq_true, ↓reduceIte]
      by_cases he : (applyMatchers run (validate input).1 ms).2 = []
      · have hl : decide (GoSem.len (applyMatchers run (validate input).1 ms).2 > 0) = false := by
          rw [he]; rfl
        have hne : ¬ ((applyMatchers run (validate input).1 ms).2 ≠ []) := fun h => h he
        simp only [hl, hne, Bool.false_eq_true, ↓reduceIte]
        unfold preFlow entryFlow enterSt
        dsimp only [Wld.cmpText]
        repeat' split
        all_goals rfl
      · have hl := (len_pos_iff _).mpr he
        simp only [hl, he, ↓reduceIte, ne_eq, not_false_eq_true, msg_loop, Option.bind_some]
        rfl

theorem matchStandaloneJSON_eq (io : IOFail) (st : St) (trimpath : Bool) (caller : Text)
    (run : Matcher → Text → Text × List MErr) (validate : Text → Text × Err) (takeJSON : Cfg → Text → Text)
    (c : Cfg) (t : T) (input : Text) (ms : List Matcher) :
    matchStandaloneJSON io st trimpath caller run validate takeJSON c t input ms =
      match syncStandaloneRegistry_getTestID st.sreg (Generated.Funcs.snapshotPath trimpath caller c t.name true).1
          (Generated.Funcs.snapshotPath trimpath caller c t.name true).2 with
      | none => none
      | some (s', p, rel) =>
        some (preSAFlow io (enterSASt st t (Generated.Funcs.snapshotPath trimpath caller c t.name true).1 s') t c p rel
          (docPre validate run (takeJSON c) input ms)) := by
  unfold matchStandaloneJSON
  dsimp only
  cases hg : syncStandaloneRegistry_getTestID st.sreg (Generated.Funcs.snapshotPath trimpath caller c t.name true).1
      (Generated.Funcs.snapshotPath trimpath caller c t.name true).2 with
  | none => rfl
  | some ri =>
    obtain ⟨s', p, rel⟩ := ri
    simp only [Option.bind_eq_bind, Option.bind_some, applyJSONMatchers_eq]
    unfold docPre
    by_cases hv : (validate input).2.notNil = true
    · simp only [hv, ↓reduceIte]; rfl
    · simp only [hv, Bool.false_eq_true, ↓reduceIte]
      by_cases he : (applyMatchers run (validate input).1 ms).2 = []
      · have hl : decide (GoSem.len (applyMatchers run (validate input).1 ms).2 > 0) = false := by
          rw [he]; rfl
        have hne : ¬ ((applyMatchers run (validate input).1 ms).2 ≠ []) := fun h => h he
        simp only [hl, hne, Bool.false_eq_true, ↓reduceIte]
        unfold preSAFlow standaloneFlow enterSASt
        dsimp only
        repeat' split
        all_goals rfl
      · have hl := (len_pos_iff _).mpr he
        simp only [hl, he, ↓reduceIte, ne_eq, not_false_eq_true, msg_loop, Option.bind_some]
        rfl

/-- **Tie** (any build mode) of `matchJSON` against `matchEntry … .raw (docPre …)` -/
theorem matchJSON_tied_path (st : St) (w : World) (h : StRel st w) (trimpath : Bool) (caller : Text)
    (run : Matcher → Text → Text × List MErr) (validate : Text → Text × Err) (takeJSON : Cfg → Text → Text)
    (c : Cfg) (t : T) (input : Text) (ms : List Matcher) (p rel : Text)
    (hgo : Generated.Funcs.snapshotPath trimpath caller c t.name false = (p, rel))
    (hm : GoSnaps.snapshotPath c caller t.name false = (p, some rel)) :
    ∃ st', matchJSON IOFail.never st trimpath caller run validate takeJSON c t input ms = some st' ∧
      StRel st' (matchEntry w c caller t.name t.id .raw (docPre validate run (takeJSON c) input ms)).1 ∧
      st'.tev = st.tev ++ (matchEntry w c caller t.name t.id .raw (docPre validate run (takeJSON c) input ms)).2.events ∧
      (matchEntry w c caller t.name t.id .raw (docPre validate run (takeJSON c) input ms)).2.unsupported = none := by
  obtain ⟨r', id, hreg, h1, h2, h3⟩ :=
    entry_tied st w h caller c t .raw (docPre validate run (takeJSON c) input ms) p rel hm
  refine ⟨_, ?_, h1, h2, h3⟩
  rw [matchJSON_eq, hgo]
  simp only [hreg]

/-- **Tie** (the model's build mode): whenever the model covers the call, `MatchJSON` does not
    panic, ends in a state related to the model's world after
    `matchEntry … .raw pre` with `pre = docPre validate run (takeJSON c) input matchers`, and reports
    exactly the model's events.  Since the registry step of `matchEntry` precedes the inspection of
    `pre`, the ordinal is consumed and the cleanup registered whatever validation and matchers say. -/
theorem matchJSON_tied (st : St) (w : World) (h : StRel st w) (caller : Text)
    (run : Matcher → Text → Text × List MErr) (validate : Text → Text × Err) (takeJSON : Cfg → Text → Text)
    (c : Cfg) (t : T) (input : Text) (ms : List Matcher) (w' : World) (out : Out)
    (hmod : matchEntry w c caller t.name t.id .raw (docPre validate run (takeJSON c) input ms) = (w', out))
    (hs : out.unsupported = none) :
    ∃ st', matchJSON IOFail.never st false caller run validate takeJSON c t input ms = some st' ∧ StRel st' w' ∧
      st'.tev = st.tev ++ out.events := by
  have hs' : (matchEntry w c caller t.name t.id .raw (docPre validate run (takeJSON c) input ms)).2.unsupported = none := by
    rw [hmod]; exact hs
  obtain ⟨rel, hm⟩ := matchEntry_supported_rel _ _ _ _ _ _ _ hs'
  have hgo := snapshotPath_rel caller c t.name false rel (by rw [hm])
  obtain ⟨st', e, h1, h2, _⟩ := matchJSON_tied_path st w h false caller run validate takeJSON c t input ms _ rel hgo hm
  rw [hmod] at h1 h2
  exact ⟨st', e, h1, h2⟩

theorem matchYAML_tied_path (st : St) (w : World) (h : StRel st w) (trimpath : Bool) (caller : Text)
    (run : Matcher → Text → Text × List MErr) (validate : Text → Text × Err)
    (c : Cfg) (t : T) (input : Text) (ms : List Matcher) (p rel : Text)
    (hgo : Generated.Funcs.snapshotPath trimpath caller c t.name false = (p, rel))
    (hm : GoSnaps.snapshotPath c caller t.name false = (p, some rel)) :
    ∃ st', matchYAML IOFail.never st trimpath caller run validate c t input ms = some st' ∧
      StRel st' (matchEntry w c caller t.name t.id .escaped (docPre validate run GoSnaps.escape input ms)).1 ∧
      st'.tev = st.tev ++ (matchEntry w c caller t.name t.id .escaped (docPre validate run GoSnaps.escape input ms)).2.events ∧
      (matchEntry w c caller t.name t.id .escaped (docPre validate run GoSnaps.escape input ms)).2.unsupported = none := by
  obtain ⟨r', id, hreg, h1, h2, h3⟩ :=
    entry_tied st w h caller c t .escaped (docPre validate run GoSnaps.escape input ms) p rel hm
  refine ⟨_, ?_, h1, h2, h3⟩
  rw [matchYAML_eq, hgo]
  simp only [hreg]

/-- **Tie** of `MatchYAML` against `matchEntry … .escaped pre` with
    `pre = docPre validate run escape input matchers` (`takeYAMLSnapshot` = `escapeEndChars`) -/
theorem matchYAML_tied (st : St) (w : World) (h : StRel st w) (caller : Text)
    (run : Matcher → Text → Text × List MErr) (validate : Text → Text × Err)
    (c : Cfg) (t : T) (input : Text) (ms : List Matcher) (w' : World) (out : Out)
    (hmod : matchEntry w c caller t.name t.id .escaped (docPre validate run GoSnaps.escape input ms) = (w', out))
    (hs : out.unsupported = none) :
    ∃ st', matchYAML IOFail.never st false caller run validate c t input ms = some st' ∧ StRel st' w' ∧
      st'.tev = st.tev ++ out.events := by
  have hs' : (matchEntry w c caller t.name t.id .escaped (docPre validate run GoSnaps.escape input ms)).2.unsupported = none := by
    rw [hmod]; exact hs
  obtain ⟨rel, hm⟩ := matchEntry_supported_rel _ _ _ _ _ _ _ hs'
  have hgo := snapshotPath_rel caller c t.name false rel (by rw [hm])
  obtain ⟨st', e, h1, h2, _⟩ := matchYAML_tied_path st w h false caller run validate c t input ms _ rel hgo hm
  rw [hmod] at h1 h2
  exact ⟨st', e, h1, h2⟩

theorem matchStandaloneJSON_tied_path (st : St) (w : World) (h : StRel st w) (trimpath : Bool) (caller : Text)
    (run : Matcher → Text → Text × List MErr) (validate : Text → Text × Err) (takeJSON : Cfg → Text → Text)
    (c : Cfg) (t : T) (input : Text) (ms : List Matcher) (g grel pth rel : Text)
    (hgo : Generated.Funcs.snapshotPath trimpath caller c t.name true = (g, grel))
    (hm : GoSnaps.snapshotPath c caller t.name true = (g, some grel))
    (hp : sprintf g [.d (alGet w.srunning g + 1)] = some pth)
    (hr : sprintf grel [.d (alGet w.srunning g + 1)] = some rel) :
    ∃ st', matchStandaloneJSON IOFail.never st trimpath caller run validate takeJSON c t input ms = some st' ∧
      StRel st' (matchStandalone w c caller t.name t.id (docPre validate run (takeJSON c) input ms)).1 ∧
      st'.tev = st.tev ++ (matchStandalone w c caller t.name t.id (docPre validate run (takeJSON c) input ms)).2.events ∧
      (matchStandalone w c caller t.name t.id (docPre validate run (takeJSON c) input ms)).2.unsupported = none := by
  obtain ⟨hreg, h1, h2, h3⟩ :=
    standalone_tied st w h caller c t (docPre validate run (takeJSON c) input ms) g grel pth rel hm hp hr
  refine ⟨_, ?_, h1, h2, h3⟩
  rw [matchStandaloneJSON_eq, hgo]
  simp only [hreg]

/-- **Tie** of `MatchStandaloneJSON` against `matchStandalone … pre` with
    `pre = docPre validate run (takeJSON c) input matchers` -/
theorem matchStandaloneJSON_tied (st : St) (w : World) (h : StRel st w) (caller : Text)
    (run : Matcher → Text → Text × List MErr) (validate : Text → Text × Err) (takeJSON : Cfg → Text → Text)
    (c : Cfg) (t : T) (input : Text) (ms : List Matcher) (w' : World) (out : Out)
    (hmod : matchStandalone w c caller t.name t.id (docPre validate run (takeJSON c) input ms) = (w', out))
    (hs : out.unsupported = none) :
    ∃ st', matchStandaloneJSON IOFail.never st false caller run validate takeJSON c t input ms = some st' ∧
      StRel st' w' ∧ st'.tev = st.tev ++ out.events := by
  have hs' : (matchStandalone w c caller t.name t.id (docPre validate run (takeJSON c) input ms)).2.unsupported = none := by
    rw [hmod]; exact hs
  obtain ⟨grel, pth, rel, hm, hp, hr⟩ := matchStandalone_supported _ _ _ _ _ _ hs'
  have hgo := snapshotPath_rel caller c t.name true grel (by rw [hm])
  obtain ⟨st', e, h1, h2, _⟩ :=
    matchStandaloneJSON_tied_path st w h false caller run validate takeJSON c t input ms _ grel pth rel hgo hm hp hr
  rw [hmod] at h1 h2
  exact ⟨st', e, h1, h2⟩

/-! ## 10. outcomes, for EVERY failure oracle (statements about the transliterated code alone) -/

/-- what a flow never touches after the registry step -/
structure Frame (st st' : St) : Prop where
  env : st'.env = st.env
  reg : st'.reg = st.reg
  sreg : st'.sreg = st.sreg
  skipped : st'.skipped = st.skipped
  cleanups : st'.cleanups = st.cleanups
  stdout : st'.stdout = st.stdout

/-- the four ways a Match* call that got past its first line can end, as far as the event counters
    and the `testing.T` are concerned: exactly one `register`, and the report that goes with it -/
inductive Outcome (st st' : St) : Prop
  | erred (msg : Text) (hev : st'.events = map1Inc st.events kErred) (htev : st'.tev = st.tev ++ [.error msg])
  | added (hev : st'.events = map1Inc st.events kAdded) (htev : st'.tev = st.tev ++ [.log Generated.go_addedMsg])
  | updated (hev : st'.events = map1Inc st.events kUpdated)
      (htev : st'.tev = st.tev ++ [.log Generated.go_updatedMsg])
  | passed (hev : st'.events = map1Inc st.events kPassed) (htev : st'.tev = st.tev)

/-- the same with everything that is true of the file system, for the multi-entry file
    (`snapPath = p`, header `id`, snapshot text `s`) -/
inductive EntryOutcome (c : Cfg) (p id s : Text) (st st' : St) : Prop
  /-- an error was reported: no byte of the entry was written; the file is as before, or was
      created empty (failed write after `O_CREATE`), or was truncated (failed write in `updateSnapshot`) -/
  | erred (msg : Text) (hev : st'.events = map1Inc st.events kErred) (htev : st'.tev = st.tev ++ [.error msg])
      (hfs : st'.fs = st.fs ∨ (fsRead st.fs p = none ∧ st'.fs = fsWrite st.fs p []) ∨
        ((fsRead st.fs p).isSome = true ∧ st'.fs = fsWrite st.fs p []))
  | added (hc : Generated.shouldCreate st.env c.update = true)
      (hev : st'.events = map1Inc st.events kAdded) (htev : st'.tev = st.tev ++ [.log Generated.go_addedMsg])
      (hfs : st'.fs = fsWrite st.fs p (oldContent st.fs p ++ frame ⟨id, s⟩))
  | updated (file : Text) (hu : Generated.shouldUpdate st.env c.update = true)
      (hev : st'.events = map1Inc st.events kUpdated)
      (htev : st'.tev = st.tev ++ [.log Generated.go_updatedMsg])
      (hf : fsRead st.fs p = some file) (hfs : st'.fs = fsWrite st.fs p (update id s file))
  | passed (hev : st'.events = map1Inc st.events kPassed) (htev : st'.tev = st.tev) (hfs : st'.fs = st.fs)

/-- … and for a standalone file (`snapPath = p`, content `s`): a reported error leaves the file
    system untouched -/
inductive SAOutcome (c : Cfg) (p s : Text) (st st' : St) : Prop
  | erred (msg : Text) (hev : st'.events = map1Inc st.events kErred) (htev : st'.tev = st.tev ++ [.error msg])
      (hfs : st'.fs = st.fs)
  | added (hc : Generated.shouldCreate st.env c.update = true)
      (hev : st'.events = map1Inc st.events kAdded) (htev : st'.tev = st.tev ++ [.log Generated.go_addedMsg])
      (hfs : st'.fs = fsWrite st.fs p s)
  | updated (hu : Generated.shouldUpdate st.env c.update = true)
      (hev : st'.events = map1Inc st.events kUpdated)
      (htev : st'.tev = st.tev ++ [.log Generated.go_updatedMsg]) (hfs : st'.fs = fsWrite st.fs p s)
  | passed (hev : st'.events = map1Inc st.events kPassed) (htev : st'.tev = st.tev) (hfs : st'.fs = st.fs)

theorem EntryOutcome.outcome {c : Cfg} {p id s : Text} {st st' : St} (h : EntryOutcome c p id s st st') :
    Outcome st st' := by
  cases h with
  | erred msg a b _ => exact .erred msg a b
  | added _ a b _ => exact .added a b
  | updated _ _ a b _ _ => exact .updated a b
  | passed a b _ => exact .passed a b

theorem SAOutcome.outcome {c : Cfg} {p s : Text} {st st' : St} (h : SAOutcome c p s st st') : Outcome st st' := by
  cases h with
  | erred msg a b _ => exact .erred msg a b
  | added _ a b _ => exact .added a b
  | updated _ a b _ => exact .updated a b
  | passed a b _ => exact .passed a b

/-- the outcome only looks at `fs`, `events`, `tev`, `env` of the start state -/
theorem EntryOutcome.congr {c : Cfg} {p id s : Text} {st1 st2 st' : St} (h : EntryOutcome c p id s st1 st')
    (e1 : st1.fs = st2.fs) (e2 : st1.events = st2.events) (e3 : st1.tev = st2.tev) (e4 : st1.env = st2.env) :
    EntryOutcome c p id s st2 st' := by
  cases h with
  | erred msg a b d => exact .erred msg (e2 ▸ a) (e3 ▸ b) (e1 ▸ d)
  | added hc a b d => exact .added (e4 ▸ hc) (e2 ▸ a) (e3 ▸ b) (e1 ▸ d)
  | updated file hu a b hf d => exact .updated file (e4 ▸ hu) (e2 ▸ a) (e3 ▸ b) (e1 ▸ hf) (e1 ▸ d)
  | passed a b d => exact .passed (e2 ▸ a) (e3 ▸ b) (e1 ▸ d)

theorem SAOutcome.congr {c : Cfg} {p s : Text} {st1 st2 st' : St} (h : SAOutcome c p s st1 st')
    (e1 : st1.fs = st2.fs) (e2 : st1.events = st2.events) (e3 : st1.tev = st2.tev) (e4 : st1.env = st2.env) :
    SAOutcome c p s st2 st' := by
  cases h with
  | erred msg a b d => exact .erred msg (e2 ▸ a) (e3 ▸ b) (e1 ▸ d)
  | added hc a b d => exact .added (e4 ▸ hc) (e2 ▸ a) (e3 ▸ b) (e1 ▸ d)
  | updated hu a b d => exact .updated (e4 ▸ hu) (e2 ▸ a) (e3 ▸ b) (e1 ▸ d)
  | passed a b d => exact .passed (e2 ▸ a) (e3 ▸ b) (e1 ▸ d)

theorem Frame.trans {a b c : St} (h1 : Frame a b) (h2 : Frame b c) : Frame a c :=
  ⟨h2.env.trans h1.env, h2.reg.trans h1.reg, h2.sreg.trans h1.sreg, h2.skipped.trans h1.skipped,
    h2.cleanups.trans h1.cleanups, h2.stdout.trans h1.stdout⟩

theorem handleError_frame (io : IOFail) (st : St) (t : T) (msg : Text) :
    Frame st (Generated.FuncsIO.handleError io st t msg) := ⟨rfl, rfl, rfl, rfl, rfl, rfl⟩

/-- **the shared tail, every oracle**: one of the four outcomes, with the file-system facts; the
    registries, the cleanups, the mode, the skip list and stdout are not touched -/
theorem entryFlow_outcome (io : IOFail) (st : St) (t : T) (c : Cfg) (p rel id s : Text) (un : Text → Text) :
    EntryOutcome c p id s st (entryFlow io st t c p rel id s un) ∧ Frame st (entryFlow io st t c p rel id s un) := by
  unfold entryFlow
  dsimp only
  split
  · split
    · exact ⟨.erred _ rfl rfl (.inl rfl), handleError_frame _ _ _ _⟩
    · rename_i hc
      have hc' : Generated.shouldCreate st.env c.update = true := by simpa using hc
      split
      · rename_i ha
        refine ⟨.erred _ rfl rfl ?_, ⟨rfl, rfl, rfl, rfl, rfl, rfl⟩⟩
        rcases addNewSnapshot_fail io st.fs id s p ha with h' | ⟨hn, h'⟩
        · exact .inl h'
        · exact .inr (.inl ⟨hn, h'⟩)
      · rename_i ha
        have ha' : (addNewSnapshot io st.fs id s p).2.notNil = false := by simpa using ha
        have := congrArg Prod.fst (addNewSnapshot_ok io st.fs id s p ha')
        exact ⟨.added hc' rfl rfl this, ⟨rfl, rfl, rfl, rfl, rfl, rfl⟩⟩
  · split
    · exact ⟨.erred _ rfl rfl (.inl rfl), handleError_frame _ _ _ _⟩
    · split
      · exact ⟨.passed rfl rfl rfl, ⟨rfl, rfl, rfl, rfl, rfl, rfl⟩⟩
      · split
        · exact ⟨.erred _ rfl rfl (.inl rfl), handleError_frame _ _ _ _⟩
        · rename_i hu
          have hu' : Generated.shouldUpdate st.env c.update = true := by simpa using hu
          split
          · rename_i hx
            refine ⟨.erred _ rfl rfl ?_, ⟨rfl, rfl, rfl, rfl, rfl, rfl⟩⟩
            rcases updateSnapshot_fail io st.fs id s p hx with h' | ⟨hsome, _, _, h'⟩
            · exact .inl h'
            · exact .inr (.inr ⟨hsome, h'⟩)
          · rename_i hx
            have hx' : (updateSnapshot io st.fs id s p).2.notNil = false := by simpa using hx
            obtain ⟨file, hf, e⟩ := updateSnapshot_ok io st.fs id s p hx'
            exact ⟨.updated file hu' rfl rfl hf (congrArg Prod.fst e), ⟨rfl, rfl, rfl, rfl, rfl, rfl⟩⟩

theorem standaloneFlow_outcome (io : IOFail) (st : St) (t : T) (c : Cfg) (p rel s : Text) :
    SAOutcome c p s st (standaloneFlow io st t c p rel s) ∧ Frame st (standaloneFlow io st t c p rel s) := by
  unfold standaloneFlow
  dsimp only
  split
  · split
    · exact ⟨.erred _ rfl rfl rfl, handleError_frame _ _ _ _⟩
    · rename_i hc
      have hc' : Generated.shouldCreate st.env c.update = true := by simpa using hc
      split
      · rename_i ha
        exact ⟨.erred _ rfl rfl (upsertStandaloneSnapshot_fail io st.fs s p ha), ⟨rfl, rfl, rfl, rfl, rfl, rfl⟩⟩
      · rename_i ha
        have ha' : (upsertStandaloneSnapshot io st.fs s p).2.notNil = false := by simpa using ha
        have := congrArg Prod.fst (upsertStandaloneSnapshot_ok io st.fs s p ha')
        exact ⟨.added hc' rfl rfl this, ⟨rfl, rfl, rfl, rfl, rfl, rfl⟩⟩
  · split
    · exact ⟨.erred _ rfl rfl rfl, handleError_frame _ _ _ _⟩
    · split
      · exact ⟨.passed rfl rfl rfl, ⟨rfl, rfl, rfl, rfl, rfl, rfl⟩⟩
      · split
        · exact ⟨.erred _ rfl rfl rfl, handleError_frame _ _ _ _⟩
        · rename_i hu
          have hu' : Generated.shouldUpdate st.env c.update = true := by simpa using hu
          split
          · rename_i hx
            exact ⟨.erred _ rfl rfl (upsertStandaloneSnapshot_fail io st.fs s p hx), ⟨rfl, rfl, rfl, rfl, rfl, rfl⟩⟩
          · rename_i hx
            have hx' : (upsertStandaloneSnapshot io st.fs s p).2.notNil = false := by simpa using hx
            have := congrArg Prod.fst (upsertStandaloneSnapshot_ok io st.fs s p hx')
            exact ⟨.updated hu' rfl rfl this, ⟨rfl, rfl, rfl, rfl, rfl, rfl⟩⟩

theorem map1Get_map1Inc' (m : Map1) (k k' : Text) :
    map1Get (map1Inc m k) k' = if k' = k then map1Get m k' + 1 else map1Get m k' := by
  rw [map1Get_map1Inc]
  by_cases h : k' = k
  · subst h; simp
  · simp [h]

theorem addedMsg_ne_updatedMsg : Generated.go_addedMsg ≠ Generated.go_updatedMsg := by decide

/-- **exactly one counter moves, and the report matches it**: there is one key `k` among
    "erred"/"added"/"updated"/"passed" whose counter is one higher (every other key of
    `testEvents.items` reads as before), and what the `testing.T` received in addition is
    `[.error _]` iff `k` = "erred", `[.log addedMsg]` iff "added", `[.log updatedMsg]` iff "updated",
    nothing iff "passed" -/
theorem Outcome.counters {st st' : St} (h : Outcome st st') :
    ∃ k, k ∈ [kErred, kAdded, kUpdated, kPassed] ∧
      (∀ k', map1Get st'.events k' = if k' = k then map1Get st.events k' + 1 else map1Get st.events k') ∧
      ∃ e, st'.tev = st.tev ++ e ∧
        (k = kErred ↔ ∃ msg, e = [.error msg]) ∧ (k = kAdded ↔ e = [.log Generated.go_addedMsg]) ∧
        (k = kUpdated ↔ e = [.log Generated.go_updatedMsg]) ∧ (k = kPassed ↔ e = []) := by
  have n1 : kErred ≠ kAdded := by decide
  have n2 : kErred ≠ kUpdated := by decide
  have n3 : kErred ≠ kPassed := by decide
  have n4 : kAdded ≠ kUpdated := by decide
  have n5 : kAdded ≠ kPassed := by decide
  have n6 : kUpdated ≠ kPassed := by decide
  have m := addedMsg_ne_updatedMsg
  cases h with
  | erred msg hev htev =>
    refine ⟨kErred, by simp, fun k' => by rw [hev]; exact map1Get_map1Inc' _ _ _, [.error msg], htev, ?_, ?_, ?_, ?_⟩
    · simp
    · simp [n1]
    · simp [n2]
    · simp [n3]
  | added hev htev =>
    refine ⟨kAdded, by simp, fun k' => by rw [hev]; exact map1Get_map1Inc' _ _ _, _, htev, ?_, ?_, ?_, ?_⟩
    · simp [n1.symm]
    · simp
    · simp [n4, m]
    · simp [n5]
  | updated hev htev =>
    refine ⟨kUpdated, by simp, fun k' => by rw [hev]; exact map1Get_map1Inc' _ _ _, _, htev, ?_, ?_, ?_, ?_⟩
    · simp [n2.symm]
    · simp [n4.symm, m.symm]
    · simp
    · simp [n6]
  | passed hev htev =>
    refine ⟨kPassed, by simp, fun k' => by rw [hev]; exact map1Get_map1Inc' _ _ _, [], by simpa using htev, ?_, ?_, ?_, ?_⟩
    · simp [n3.symm]
    · simp [n5.symm]
    · simp [n6.symm]
    · simp

/-- which counter moved decides the outcome: "erred" was bumped iff an error was reported -/
theorem Outcome.erred_iff {st st' : St} (h : Outcome st st') :
    map1Get st'.events kErred = map1Get st.events kErred + 1 ↔ ∃ msg, st'.tev = st.tev ++ [.error msg] := by
  obtain ⟨k, _, hk, e, he, h1, _, _, _⟩ := h.counters
  constructor
  · intro hb
    have : k = kErred := by
      by_cases hkk : kErred = k
      · exact hkk.symm
      · have := hk kErred; rw [if_neg hkk] at this; omega
    obtain ⟨msg, hm⟩ := h1.mp this
    exact ⟨msg, by rw [he, hm]⟩
  · rintro ⟨msg, hm⟩
    rw [he] at hm
    have : k = kErred := h1.mpr ⟨msg, List.append_cancel_left hm⟩
    have hk' := hk kErred
    rw [if_pos this.symm] at hk'
    exact hk'

/-- the state after the first two statements (`getTestID`, `t.Cleanup`): nothing else changes them -/
structure Entered (st st' : St) (t : T) (p : Text) (r' : Registry) : Prop where
  reg : st'.reg = r'
  cleanups : st'.cleanups = (t.id, .resetReg p t.name) :: st.cleanups
  env : st'.env = st.env
  sreg : st'.sreg = st.sreg
  skipped : st'.skipped = st.skipped
  stdout : st'.stdout = st.stdout

structure EnteredSA (st st' : St) (t : T) (g : Text) (s' : SRegistry) : Prop where
  sreg : st'.sreg = s'
  cleanups : st'.cleanups = (t.id, .resetSReg g) :: st.cleanups
  env : st'.env = st.env
  reg : st'.reg = st.reg
  skipped : st'.skipped = st.skipped
  stdout : st'.stdout = st.stdout

/-- the outcome given `pre`: a failed validation / matcher pipeline is one reported error and an
    untouched file system; otherwise the outcome of the shared tail -/
def PreOutcome (c : Cfg) (p id : Text) (pre : Except Text Text) (st st' : St) : Prop :=
  match pre with
  | .error msg => st'.events = map1Inc st.events kErred ∧ st'.tev = st.tev ++ [.error msg] ∧ st'.fs = st.fs
  | .ok s => EntryOutcome c p id s st st'

def PreSAOutcome (c : Cfg) (p : Text) (pre : Except Text Text) (st st' : St) : Prop :=
  match pre with
  | .error msg => st'.events = map1Inc st.events kErred ∧ st'.tev = st.tev ++ [.error msg] ∧ st'.fs = st.fs
  | .ok s => SAOutcome c p s st st'

theorem PreOutcome.outcome {c : Cfg} {p id : Text} {pre : Except Text Text} {st st' : St}
    (h : PreOutcome c p id pre st st') : Outcome st st' := by
  cases pre with
  | error msg => exact .erred msg h.1 h.2.1
  | ok s => exact EntryOutcome.outcome h

theorem PreSAOutcome.outcome {c : Cfg} {p : Text} {pre : Except Text Text} {st st' : St}
    (h : PreSAOutcome c p pre st st') : Outcome st st' := by
  cases pre with
  | error msg => exact .erred msg h.1 h.2.1
  | ok s => exact SAOutcome.outcome h

/-- a reported error never comes with a byte of the entry: whatever `pre` was, if "erred" moved
    the file system is as before except possibly at the snapshot path, which is unchanged, newly
    created EMPTY, or truncated to EMPTY -/
theorem PreOutcome.error_no_entry {c : Cfg} {p id : Text} {pre : Except Text Text} {st st' : St}
    (h : PreOutcome c p id pre st st')
    (he : map1Get st'.events kErred = map1Get st.events kErred + 1) :
    st'.fs = st.fs ∨ (fsRead st.fs p = none ∧ st'.fs = fsWrite st.fs p []) ∨
      ((fsRead st.fs p).isSome = true ∧ st'.fs = fsWrite st.fs p []) := by
  cases pre with
  | error msg => exact .inl h.2.2
  | ok s =>
    have h' : EntryOutcome c p id s st st' := h
    cases h' with
    | erred msg _ _ hfs => exact hfs
    | added _ hev _ _ =>
      rw [hev, map1Get_map1Inc', if_neg (by decide)] at he; omega
    | updated _ _ hev _ _ _ =>
      rw [hev, map1Get_map1Inc', if_neg (by decide)] at he; omega
    | passed hev _ _ =>
      rw [hev, map1Get_map1Inc', if_neg (by decide)] at he; omega

/-- … read path by path -/
theorem PreOutcome.error_no_entry_read {c : Cfg} {p id : Text} {pre : Except Text Text} {st st' : St}
    (h : PreOutcome c p id pre st st')
    (he : map1Get st'.events kErred = map1Get st.events kErred + 1) (q : Text) :
    (q ≠ p → fsRead st'.fs q = fsRead st.fs q) ∧
    (fsRead st'.fs p = fsRead st.fs p ∨ fsRead st'.fs p = some []) := by
  rcases h.error_no_entry he with h' | ⟨_, h'⟩ | ⟨_, h'⟩
  · rw [h']; exact ⟨fun _ => rfl, .inl rfl⟩
  · rw [h']; exact ⟨fun hq => fsRead_fsWrite_other _ _ _ _ hq, .inr (fsRead_fsWrite_same _ _ _)⟩
  · rw [h']; exact ⟨fun hq => fsRead_fsWrite_other _ _ _ _ hq, .inr (fsRead_fsWrite_same _ _ _)⟩

theorem preFlow_outcome (io : IOFail) (st : St) (t : T) (c : Cfg) (p rel id : Text) (pre : Except Text Text)
    (un : Text → Text) :
    PreOutcome c p id pre st (preFlow io st t c p rel id pre un) ∧ Frame st (preFlow io st t c p rel id pre un) := by
  cases pre with
  | error msg => exact ⟨⟨rfl, rfl, rfl⟩, handleError_frame io _ _ _⟩
  | ok s => exact entryFlow_outcome io st t c p rel id s un

theorem preSAFlow_outcome (io : IOFail) (st : St) (t : T) (c : Cfg) (p rel : Text) (pre : Except Text Text) :
    PreSAOutcome c p pre st (preSAFlow io st t c p rel pre) ∧ Frame st (preSAFlow io st t c p rel pre) := by
  cases pre with
  | error msg => exact ⟨⟨rfl, rfl, rfl⟩, handleError_frame io _ _ _⟩
  | ok s => exact standaloneFlow_outcome io st t c p rel s

theorem PreOutcome.congr {c : Cfg} {p id : Text} {pre : Except Text Text} {st1 st2 st' : St}
    (h : PreOutcome c p id pre st1 st')
    (e1 : st1.fs = st2.fs) (e2 : st1.events = st2.events) (e3 : st1.tev = st2.tev) (e4 : st1.env = st2.env) :
    PreOutcome c p id pre st2 st' := by
  cases pre with
  | error msg => exact ⟨e2 ▸ h.1, e3 ▸ h.2.1, e1 ▸ h.2.2⟩
  | ok s => exact EntryOutcome.congr h e1 e2 e3 e4

theorem PreSAOutcome.congr {c : Cfg} {p : Text} {pre : Except Text Text} {st1 st2 st' : St}
    (h : PreSAOutcome c p pre st1 st')
    (e1 : st1.fs = st2.fs) (e2 : st1.events = st2.events) (e3 : st1.tev = st2.tev) (e4 : st1.env = st2.env) :
    PreSAOutcome c p pre st2 st' := by
  cases pre with
  | error msg => exact ⟨e2 ▸ h.1, e3 ▸ h.2.1, e1 ▸ h.2.2⟩
  | ok s => exact SAOutcome.congr h e1 e2 e3 e4

/-- every entry flow, every oracle: if it returns, `getTestID` did not panic, its registry and the
    cleanup are in the end state (the ordinal is consumed in EVERY case), and the rest is `PreOutcome` -/
theorem entry_outcome (io : IOFail) (st st' : St) (t : T) (c : Cfg) (p rel : Text) (pre : Except Text Text)
    (un : Text → Text)
    (h : (match syncRegistry_getTestID st.reg p t.name with
          | none => none
          | some (r', id) => some (preFlow io (enterSt st t p r') t c p rel id pre un)) = some st') :
    ∃ r' id, syncRegistry_getTestID st.reg p t.name = some (r', id) ∧ Entered st st' t p r' ∧
      PreOutcome c p id pre st st' := by
  cases hg : syncRegistry_getTestID st.reg p t.name with
  | none => rw [hg] at h; cases h
  | some ri =>
    obtain ⟨r', id⟩ := ri
    rw [hg] at h
    simp only [Option.some.injEq] at h
    subst h
    obtain ⟨h1, h2⟩ := preFlow_outcome io (enterSt st t p r') t c p rel id pre un
    exact ⟨r', id, rfl, ⟨h2.reg, h2.cleanups, h2.env, h2.sreg, h2.skipped, h2.stdout⟩, h1.congr rfl rfl rfl rfl⟩

theorem standalone_outcome (io : IOFail) (st st' : St) (t : T) (c : Cfg) (g grel : Text) (pre : Except Text Text)
    (h : (match syncStandaloneRegistry_getTestID st.sreg g grel with
          | none => none
          | some (s', p, rel) => some (preSAFlow io (enterSASt st t g s') t c p rel pre)) = some st') :
    ∃ s' p rel, syncStandaloneRegistry_getTestID st.sreg g grel = some (s', p, rel) ∧ EnteredSA st st' t g s' ∧
      PreSAOutcome c p pre st st' := by
  cases hg : syncStandaloneRegistry_getTestID st.sreg g grel with
  | none => rw [hg] at h; cases h
  | some ri =>
    obtain ⟨s', p, rel⟩ := ri
    rw [hg] at h
    simp only [Option.some.injEq] at h
    subst h
    obtain ⟨h1, h2⟩ := preSAFlow_outcome io (enterSASt st t g s') t c p rel pre
    exact ⟨s', p, rel, rfl, ⟨h2.sreg, h2.cleanups, h2.env, h2.reg, h2.skipped, h2.stdout⟩, h1.congr rfl rfl rfl rfl⟩

/-! ### the five flows, every oracle -/

/-- **`matchSnapshot`, every oracle** (the master statement; the next three are corollaries) -/
theorem matchSnapshot_outcome (io : IOFail) (st st' : St) (trimpath : Bool) (caller : Text) (c : Cfg) (t : T)
    (vals : List Text) (hv : vals ≠ []) (h : matchSnapshot io st trimpath caller c t vals = some st') :
    ∃ r' id, syncRegistry_getTestID st.reg (Generated.Funcs.snapshotPath trimpath caller c t.name false).1 t.name =
        some (r', id) ∧
      Entered st st' t (Generated.Funcs.snapshotPath trimpath caller c t.name false).1 r' ∧
      EntryOutcome c (Generated.Funcs.snapshotPath trimpath caller c t.name false).1 id
        (GoSnaps.escape (unlines vals)) st st' := by
  rw [matchSnapshot_eq, if_neg hv] at h
  exact entry_outcome io st st' t c _ _ (.ok (GoSnaps.escape (unlines vals))) _ h

/-- (a) exactly one of the four counters is one higher, every other key reads as before, and the
    `testing.T` received `[.error _]` / `[.log addedMsg]` / `[.log updatedMsg]` / nothing accordingly -/
theorem matchSnapshot_one_outcome (io : IOFail) (st st' : St) (trimpath : Bool) (caller : Text) (c : Cfg) (t : T)
    (vals : List Text) (hv : vals ≠ []) (h : matchSnapshot io st trimpath caller c t vals = some st') :
    ∃ k, k ∈ [kErred, kAdded, kUpdated, kPassed] ∧
      (∀ k', map1Get st'.events k' = if k' = k then map1Get st.events k' + 1 else map1Get st.events k') ∧
      ∃ e, st'.tev = st.tev ++ e ∧
        (k = kErred ↔ ∃ msg, e = [.error msg]) ∧ (k = kAdded ↔ e = [.log Generated.go_addedMsg]) ∧
        (k = kUpdated ↔ e = [.log Generated.go_updatedMsg]) ∧ (k = kPassed ↔ e = []) := by
  obtain ⟨_, _, _, _, ho⟩ := matchSnapshot_outcome io st st' trimpath caller c t vals hv h
  exact ho.outcome.counters

/-- (b) if "erred" was bumped, no byte of the entry reached the disk: the file system is as before,
    except that the snapshot file may have been created EMPTY (it did not exist; the write after
    `O_CREATE` failed) or truncated to EMPTY (it existed; the write inside `updateSnapshot`, after
    `Truncate(0)`, failed — every other entry of that file is lost) -/
theorem matchSnapshot_error_no_entry (io : IOFail) (st st' : St) (trimpath : Bool) (caller : Text) (c : Cfg) (t : T)
    (vals : List Text) (hv : vals ≠ []) (h : matchSnapshot io st trimpath caller c t vals = some st')
    (he : map1Get st'.events kErred = map1Get st.events kErred + 1) :
    st'.fs = st.fs ∨
    (fsRead st.fs (Generated.Funcs.snapshotPath trimpath caller c t.name false).1 = none ∧
      st'.fs = fsWrite st.fs (Generated.Funcs.snapshotPath trimpath caller c t.name false).1 []) ∨
    ((fsRead st.fs (Generated.Funcs.snapshotPath trimpath caller c t.name false).1).isSome = true ∧
      st'.fs = fsWrite st.fs (Generated.Funcs.snapshotPath trimpath caller c t.name false).1 []) := by
  obtain ⟨_, _, _, _, ho⟩ := matchSnapshot_outcome io st st' trimpath caller c t vals hv h
  exact PreOutcome.error_no_entry (pre := .ok _) ho he

/-- (b) path by path: every other file reads as before; the snapshot file reads as before or as empty -/
theorem matchSnapshot_error_no_entry_read (io : IOFail) (st st' : St) (trimpath : Bool) (caller : Text) (c : Cfg)
    (t : T) (vals : List Text) (hv : vals ≠ []) (h : matchSnapshot io st trimpath caller c t vals = some st')
    (he : map1Get st'.events kErred = map1Get st.events kErred + 1) (q : Text) :
    (q ≠ (Generated.Funcs.snapshotPath trimpath caller c t.name false).1 → fsRead st'.fs q = fsRead st.fs q) ∧
    (fsRead st'.fs (Generated.Funcs.snapshotPath trimpath caller c t.name false).1 =
        fsRead st.fs (Generated.Funcs.snapshotPath trimpath caller c t.name false).1 ∨
      fsRead st'.fs (Generated.Funcs.snapshotPath trimpath caller c t.name false).1 = some []) := by
  obtain ⟨_, _, _, _, ho⟩ := matchSnapshot_outcome io st st' trimpath caller c t vals hv h
  exact PreOutcome.error_no_entry_read (pre := .ok _) ho he q

/-- (c) in every case the registries change exactly as by `getTestID` (the ordinal is consumed,
    the other keys are untouched — `syncRegistry_getTestID_ordinal`, `…_running_other`), the cleanup
    is registered, and the standalone registry, the mode, the skip list and stdout are not touched -/
theorem matchSnapshot_registry (io : IOFail) (st st' : St) (trimpath : Bool) (caller : Text) (c : Cfg) (t : T)
    (vals : List Text) (hv : vals ≠ []) (h : matchSnapshot io st trimpath caller c t vals = some st') :
    ∃ id, syncRegistry_getTestID st.reg (Generated.Funcs.snapshotPath trimpath caller c t.name false).1 t.name =
        some (st'.reg, id) ∧
      map2Get st'.reg.running (Generated.Funcs.snapshotPath trimpath caller c t.name false).1 t.name =
        map2Get st.reg.running (Generated.Funcs.snapshotPath trimpath caller c t.name false).1 t.name + 1 ∧
      st'.cleanups = (t.id, .resetReg (Generated.Funcs.snapshotPath trimpath caller c t.name false).1 t.name) :: st.cleanups ∧
      st'.sreg = st.sreg ∧ st'.env = st.env ∧ st'.skipped = st.skipped ∧ st'.stdout = st.stdout := by
  obtain ⟨r', id, hg, he, _⟩ := matchSnapshot_outcome io st st' trimpath caller c t vals hv h
  have hr := he.reg
  subst hr
  exact ⟨id, hg, (syncRegistry_getTestID_ordinal _ _ _ _ _ hg).2, he.cleanups, he.sreg, he.env, he.skipped, he.stdout⟩

/-- the empty call, every oracle: no counter moves, no ordinal is consumed -/
theorem matchSnapshot_no_values_outcome (io : IOFail) (st st' : St) (trimpath : Bool) (caller : Text) (c : Cfg)
    (t : T) (h : matchSnapshot io st trimpath caller c t [] = some st') :
    st'.events = st.events ∧ st'.reg = st.reg ∧ st'.cleanups = st.cleanups ∧ st'.fs = st.fs ∧
      st'.tev = st.tev ++ [.log warnNoParams] := by
  rw [matchSnapshot_no_values] at h
  cases h
  exact ⟨rfl, rfl, rfl, rfl, rfl⟩

/-- **`matchJSON`, every oracle**: the ordinal is consumed and the cleanup registered BEFORE
    validation, whatever its result; a failed validation or matcher pipeline is one error and an
    untouched file system -/
theorem matchJSON_outcome (io : IOFail) (st st' : St) (trimpath : Bool) (caller : Text)
    (run : Matcher → Text → Text × List MErr) (validate : Text → Text × Err) (takeJSON : Cfg → Text → Text)
    (c : Cfg) (t : T) (input : Text) (ms : List Matcher)
    (h : matchJSON io st trimpath caller run validate takeJSON c t input ms = some st') :
    ∃ r' id, syncRegistry_getTestID st.reg (Generated.Funcs.snapshotPath trimpath caller c t.name false).1 t.name =
        some (r', id) ∧
      Entered st st' t (Generated.Funcs.snapshotPath trimpath caller c t.name false).1 r' ∧
      PreOutcome c (Generated.Funcs.snapshotPath trimpath caller c t.name false).1 id
        (docPre validate run (takeJSON c) input ms) st st' := by
  rw [matchJSON_eq] at h
  exact entry_outcome io st st' t c _ _ _ _ h

theorem matchYAML_outcome (io : IOFail) (st st' : St) (trimpath : Bool) (caller : Text)
    (run : Matcher → Text → Text × List MErr) (validate : Text → Text × Err)
    (c : Cfg) (t : T) (input : Text) (ms : List Matcher)
    (h : matchYAML io st trimpath caller run validate c t input ms = some st') :
    ∃ r' id, syncRegistry_getTestID st.reg (Generated.Funcs.snapshotPath trimpath caller c t.name false).1 t.name =
        some (r', id) ∧
      Entered st st' t (Generated.Funcs.snapshotPath trimpath caller c t.name false).1 r' ∧
      PreOutcome c (Generated.Funcs.snapshotPath trimpath caller c t.name false).1 id
        (docPre validate run GoSnaps.escape input ms) st st' := by
  rw [matchYAML_eq] at h
  exact entry_outcome io st st' t c _ _ _ _ h

/-- **the standalone flows, every oracle**: a reported error never changes the file system
    (`os.WriteFile` either happens or not) -/
theorem matchStandaloneSnapshot_outcome (io : IOFail) (st st' : St) (trimpath : Bool) (caller : Text) (c : Cfg)
    (t : T) (input : Text) (h : matchStandaloneSnapshot io st trimpath caller c t input = some st') :
    ∃ s' p rel, syncStandaloneRegistry_getTestID st.sreg (Generated.Funcs.snapshotPath trimpath caller c t.name true).1
        (Generated.Funcs.snapshotPath trimpath caller c t.name true).2 = some (s', p, rel) ∧
      EnteredSA st st' t (Generated.Funcs.snapshotPath trimpath caller c t.name true).1 s' ∧
      SAOutcome c p input st st' := by
  rw [matchStandaloneSnapshot_eq] at h
  exact standalone_outcome io st st' t c _ _ (.ok input) h

theorem matchStandaloneJSON_outcome (io : IOFail) (st st' : St) (trimpath : Bool) (caller : Text)
    (run : Matcher → Text → Text × List MErr) (validate : Text → Text × Err) (takeJSON : Cfg → Text → Text)
    (c : Cfg) (t : T) (input : Text) (ms : List Matcher)
    (h : matchStandaloneJSON io st trimpath caller run validate takeJSON c t input ms = some st') :
    ∃ s' p rel, syncStandaloneRegistry_getTestID st.sreg (Generated.Funcs.snapshotPath trimpath caller c t.name true).1
        (Generated.Funcs.snapshotPath trimpath caller c t.name true).2 = some (s', p, rel) ∧
      EnteredSA st st' t (Generated.Funcs.snapshotPath trimpath caller c t.name true).1 s' ∧
      PreSAOutcome c p (docPre validate run (takeJSON c) input ms) st st' := by
  rw [matchStandaloneJSON_eq] at h
  exact standalone_outcome io st st' t c _ _ _ h

/-- one outcome, for all five flows (the `Outcome.counters` reading applies to each) -/
theorem matchJSON_one_outcome (io : IOFail) (st st' : St) (trimpath : Bool) (caller : Text)
    (run : Matcher → Text → Text × List MErr) (validate : Text → Text × Err) (takeJSON : Cfg → Text → Text)
    (c : Cfg) (t : T) (input : Text) (ms : List Matcher)
    (h : matchJSON io st trimpath caller run validate takeJSON c t input ms = some st') : Outcome st st' := by
  obtain ⟨_, _, _, _, ho⟩ := matchJSON_outcome io st st' trimpath caller run validate takeJSON c t input ms h
  exact ho.outcome

theorem matchYAML_one_outcome (io : IOFail) (st st' : St) (trimpath : Bool) (caller : Text)
    (run : Matcher → Text → Text × List MErr) (validate : Text → Text × Err)
    (c : Cfg) (t : T) (input : Text) (ms : List Matcher)
    (h : matchYAML io st trimpath caller run validate c t input ms = some st') : Outcome st st' := by
  obtain ⟨_, _, _, _, ho⟩ := matchYAML_outcome io st st' trimpath caller run validate c t input ms h
  exact ho.outcome

theorem matchStandaloneSnapshot_one_outcome (io : IOFail) (st st' : St) (trimpath : Bool) (caller : Text) (c : Cfg)
    (t : T) (input : Text) (h : matchStandaloneSnapshot io st trimpath caller c t input = some st') :
    Outcome st st' := by
  obtain ⟨_, _, _, _, _, ho⟩ := matchStandaloneSnapshot_outcome io st st' trimpath caller c t input h
  exact ho.outcome

theorem matchStandaloneJSON_one_outcome (io : IOFail) (st st' : St) (trimpath : Bool) (caller : Text)
    (run : Matcher → Text → Text × List MErr) (validate : Text → Text × Err) (takeJSON : Cfg → Text → Text)
    (c : Cfg) (t : T) (input : Text) (ms : List Matcher)
    (h : matchStandaloneJSON io st trimpath caller run validate takeJSON c t input ms = some st') :
    Outcome st st' := by
  obtain ⟨_, _, _, _, _, ho⟩ :=
    matchStandaloneJSON_outcome io st st' trimpath caller run validate takeJSON c t input ms h
  exact ho.outcome

/-- a failed validation or matcher pipeline, every oracle, `matchJSON`: one error with the message
    of `docPre`, nothing written, the ordinal consumed -/
theorem matchJSON_pre_error (io : IOFail) (st st' : St) (trimpath : Bool) (caller : Text)
    (run : Matcher → Text → Text × List MErr) (validate : Text → Text × Err) (takeJSON : Cfg → Text → Text)
    (c : Cfg) (t : T) (input : Text) (ms : List Matcher) (msg : Text)
    (hpre : docPre validate run (takeJSON c) input ms = .error msg)
    (h : matchJSON io st trimpath caller run validate takeJSON c t input ms = some st') :
    st'.fs = st.fs ∧ st'.tev = st.tev ++ [.error msg] ∧ st'.events = map1Inc st.events kErred ∧
    map2Get st'.reg.running (Generated.Funcs.snapshotPath trimpath caller c t.name false).1 t.name =
      map2Get st.reg.running (Generated.Funcs.snapshotPath trimpath caller c t.name false).1 t.name + 1 ∧
    st'.cleanups = (t.id, .resetReg (Generated.Funcs.snapshotPath trimpath caller c t.name false).1 t.name) :: st.cleanups := by
  obtain ⟨r', id, hg, he, ho⟩ := matchJSON_outcome io st st' trimpath caller run validate takeJSON c t input ms h
  rw [hpre] at ho
  have hr := he.reg
  subst hr
  exact ⟨ho.2.2, ho.2.1, ho.1, (syncRegistry_getTestID_ordinal _ _ _ _ _ hg).2, he.cleanups⟩

/-! ### non-vacuity of the failure branches (oracles of Tie/SnapshotIO: every `Write` fails) -/

/-- on the empty world, with a failing `Write`: `MatchSnapshot` reports the write error, bumps
    "erred" — and leaves behind an EMPTY snapshot file (created by `O_CREATE`); the ordinal is consumed -/
example :
    (matchSnapshot exIOW exSt0 false exCaller {} exT [[120]]).map St.view =
      some ([(exSnap, [])], [(kErred, 1)], [.error [33]],
        { running := [(exSnap, [([84], 1)])], cleanup := [(exSnap, [([84], 1)])] }, {},
        [(0, .resetReg exSnap [84])]) := by decide +kernel

/-- with an existing entry, a different value, `UPDATE_SNAPS=true` and a failing `Write`: the error
    is reported and the snapshot file is left EMPTY (all entries lost) -/
example :
    (matchSnapshot exIOW
        { env := ⟨false, "true"⟩, fs := [(exSnap, [10, 91, 84, 32, 45, 32, 49, 93, 10, 120, 10, 45, 45, 45, 10])] }
        false exCaller {} exT [[121]]).map (fun s => (s.fs, s.events, s.tev)) =
      some ([(exSnap, [])], [(kErred, 1)], [.error [33]]) := by decide +kernel

/-- the three alternatives of `matchSnapshot_error_no_entry` through the theorem -/
example : ∃ st', matchSnapshot exIOW exSt0 false exCaller {} exT [[120]] = some st' ∧
    (st'.fs = exSt0.fs ∨ (fsRead exSt0.fs exSnap = none ∧ st'.fs = fsWrite exSt0.fs exSnap []) ∨
      ((fsRead exSt0.fs exSnap).isSome = true ∧ st'.fs = fsWrite exSt0.fs exSnap [])) := by
  cases h : matchSnapshot exIOW exSt0 false exCaller {} exT [[120]] with
  | none => exact absurd h (by decide +kernel)
  | some st' =>
    have hp : (Generated.Funcs.snapshotPath false exCaller {} exT.name false).1 = exSnap := by decide +kernel
    have he : map1Get st'.events kErred = map1Get exSt0.events kErred + 1 := by
      have : (matchSnapshot exIOW exSt0 false exCaller {} exT [[120]]).map (fun s => map1Get s.events kErred) =
          some 1 := by decide +kernel
      rw [h] at this
      simpa [exSt0, map1Get] using this
    have := matchSnapshot_error_no_entry exIOW exSt0 st' false exCaller {} exT [[120]] (by decide) h he
    rw [hp] at this
    exact ⟨st', rfl, this⟩

/-- `MatchJSON` whose validation fails, then the same test again with valid input: the second call
    is slot 2 (the failing call consumed slot 1) and nothing was written by the first -/
example :
    let validate : Text → Text × Err := fun i => if i = [] then ([], .other [101]) else (i, .nil)
    (matchJSON IOFail.never exSt0 false exCaller (fun _ d => (d, [])) validate (fun _ j => j) {} exT [] []).map St.view =
      some ([], [(kErred, 1)], [.error [101]],
        { running := [(exSnap, [([84], 1)])], cleanup := [(exSnap, [([84], 1)])] }, {},
        [(0, .resetReg exSnap [84])]) ∧
    ((matchJSON IOFail.never exSt0 false exCaller (fun _ d => (d, [])) validate (fun _ j => j) {} exT [] []).bind
        (fun s => matchJSON IOFail.never s false exCaller (fun _ d => (d, [])) validate (fun _ j => j) {} exT
          [123, 125] [])).map (fun s => (s.fs, s.events)) =
      some ([(exSnap, [10, 91, 84, 32, 45, 32, 50, 93, 10, 123, 125, 10, 45, 45, 45, 10])],
        [(kErred, 1), (kAdded, 1)]) := by
  intro validate
  refine ⟨by decide +kernel, by decide +kernel⟩

/-- `matchJSON_tied` on that failing call: the model's world after `matchEntry … (.error "e")` -/
example :
    let validate : Text → Text × Err := fun i => if i = [] then ([], .other [101]) else (i, .nil)
    ∃ st', matchJSON IOFail.never exSt0 false exCaller (fun _ d => (d, [])) validate (fun _ j => j) {} exT [] [] =
        some st' ∧
      StRel st' (matchEntry exW0 {} exCaller [84] 0 .raw (.error [101])).1 ∧ st'.tev = [.error [101]] := by
  intro validate
  have hpre : docPre validate (fun _ d => (d, [])) ((fun _ j => j) ({} : Cfg)) [] [] = .error [101] := by rfl
  obtain ⟨st', e, h1, h2⟩ := matchJSON_tied exSt0 exW0 exSt0_rel exCaller (fun _ d => (d, [])) validate
    (fun _ j => j) {} exT [] [] (matchEntry exW0 {} exCaller [84] 0 .raw (.error [101])).1
    (matchEntry exW0 {} exCaller [84] 0 .raw (.error [101])).2 (by rw [hpre]; rfl) (by decide +kernel)
  refine ⟨st', e, h1, ?_⟩
  rw [h2]; decide +kernel

/-- `MatchYAML` and `MatchStandaloneJSON` on the empty world: an entry / a file is added -/
example :
    (matchYAML IOFail.never exSt0 false exCaller (fun _ d => (d, [])) (fun i => (i, .nil)) {} exT
        [97, 58, 32, 49, 10] []).map (fun s => (s.fs, s.events, s.tev)) =
      some ([(exSnap, [10, 91, 84, 32, 45, 32, 49, 93, 10, 97, 58, 32, 49, 10, 10, 45, 45, 45, 10])], [(kAdded, 1)],
        [.log Generated.go_addedMsg]) ∧
    (matchStandaloneJSON IOFail.never exSt0 false exCaller (fun _ d => (d, [])) (fun i => (i, .nil)) (fun _ j => j)
        {} exT [123, 125] []).map (fun s => (s.fs, s.events, s.tev)) =
      some ([(exSASnap, [123, 125])], [(kAdded, 1)], [.log Generated.go_addedMsg]) := by
  refine ⟨by decide +kernel, by decide +kernel⟩

/-- `matchYAML_tied` and `matchStandaloneJSON_tied` on the empty world (documents "a: 1\n", "{}") -/
example : ∃ st', matchYAML IOFail.never exSt0 false exCaller (fun _ d => (d, [])) (fun i => (i, .nil)) {} exT
      [97, 58, 32, 49, 10] [] = some st' ∧
    StRel st' (matchEntry exW0 {} exCaller [84] 0 .escaped (.ok [97, 58, 32, 49, 10])).1 ∧
    st'.tev = [.log Generated.go_addedMsg] := by
  have hpre : docPre (fun i => (i, Err.nil)) (fun _ d => (d, [])) GoSnaps.escape [97, 58, 32, 49, 10] [] =
      .ok [97, 58, 32, 49, 10] := by rfl
  obtain ⟨st', e, h1, h2⟩ := matchYAML_tied exSt0 exW0 exSt0_rel exCaller (fun _ d => (d, [])) (fun i => (i, .nil))
    {} exT [97, 58, 32, 49, 10] [] (matchEntry exW0 {} exCaller [84] 0 .escaped (.ok [97, 58, 32, 49, 10])).1
    (matchEntry exW0 {} exCaller [84] 0 .escaped (.ok [97, 58, 32, 49, 10])).2 (by rw [hpre]; rfl) (by decide +kernel)
  refine ⟨st', e, h1, ?_⟩
  rw [h2]; decide +kernel

example : ∃ st', matchStandaloneJSON IOFail.never exSt0 false exCaller (fun _ d => (d, [])) (fun i => (i, .nil))
      (fun _ j => j) {} exT [123, 125] [] = some st' ∧
    StRel st' (matchStandalone exW0 {} exCaller [84] 0 (.ok [123, 125])).1 ∧
    st'.tev = [.log Generated.go_addedMsg] ∧
    (matchStandalone exW0 {} exCaller [84] 0 (.ok [123, 125])).1.fs = [(exSASnap, [123, 125])] := by
  have hpre : docPre (fun i => (i, Err.nil)) (fun _ d => (d, [])) ((fun _ j => j) ({} : Cfg)) [123, 125] [] =
      .ok [123, 125] := by rfl
  obtain ⟨st', e, h1, h2⟩ := matchStandaloneJSON_tied exSt0 exW0 exSt0_rel exCaller (fun _ d => (d, []))
    (fun i => (i, .nil)) (fun _ j => j) {} exT [123, 125] []
    (matchStandalone exW0 {} exCaller [84] 0 (.ok [123, 125])).1
    (matchStandalone exW0 {} exCaller [84] 0 (.ok [123, 125])).2 (by rw [hpre]; rfl) (by decide +kernel)
  refine ⟨st', e, h1, ?_, by decide +kernel⟩
  rw [h2]; decide +kernel

/-! ## 11. panics (`none`), for every oracle and build mode -/

/-- from a state related to a model world the entry flows never panic, whatever the oracle:
    the only statement that can is `cleanup[snapPath][testName]++` inside `getTestID`, and `RegRel`
    excludes it -/
theorem matchSnapshot_no_panic (io : IOFail) (st : St) (w : World) (h : StRel st w) (trimpath : Bool)
    (caller : Text) (c : Cfg) (t : T) (vals : List Text) :
    matchSnapshot io st trimpath caller c t vals ≠ none := by
  rw [matchSnapshot_eq]
  split
  · simp
  · obtain ⟨r', hreg, _⟩ := enter_tied st w h t (Generated.Funcs.snapshotPath trimpath caller c t.name false).1
    rw [hreg]; simp

theorem matchJSON_no_panic (io : IOFail) (st : St) (w : World) (h : StRel st w) (trimpath : Bool) (caller : Text)
    (run : Matcher → Text → Text × List MErr) (validate : Text → Text × Err) (takeJSON : Cfg → Text → Text)
    (c : Cfg) (t : T) (input : Text) (ms : List Matcher) :
    matchJSON io st trimpath caller run validate takeJSON c t input ms ≠ none := by
  rw [matchJSON_eq]
  obtain ⟨r', hreg, _⟩ := enter_tied st w h t (Generated.Funcs.snapshotPath trimpath caller c t.name false).1
  rw [hreg]; simp

theorem matchYAML_no_panic (io : IOFail) (st : St) (w : World) (h : StRel st w) (trimpath : Bool) (caller : Text)
    (run : Matcher → Text → Text × List MErr) (validate : Text → Text × Err)
    (c : Cfg) (t : T) (input : Text) (ms : List Matcher) :
    matchYAML io st trimpath caller run validate c t input ms ≠ none := by
  rw [matchYAML_eq]
  obtain ⟨r', hreg, _⟩ := enter_tied st w h t (Generated.Funcs.snapshotPath trimpath caller c t.name false).1
  rw [hreg]; simp

/-- the standalone flows return `none` exactly when one of the two run-time format strings
    (`fmt.Sprintf(snapPath, n)`, `fmt.Sprintf(snapPathRel, n)`) is outside the modelled fragment —
    where the model answers `unsupported` as well -/
theorem matchStandaloneSnapshot_none_iff (io : IOFail) (st : St) (w : World) (h : StRel st w) (trimpath : Bool)
    (caller : Text) (c : Cfg) (t : T) (input : Text) :
    matchStandaloneSnapshot io st trimpath caller c t input = none ↔
      (sprintf (Generated.Funcs.snapshotPath trimpath caller c t.name true).1
          [.d (alGet w.srunning (Generated.Funcs.snapshotPath trimpath caller c t.name true).1 + 1)] = none ∨
       sprintf (Generated.Funcs.snapshotPath trimpath caller c t.name true).2
          [.d (alGet w.srunning (Generated.Funcs.snapshotPath trimpath caller c t.name true).1 + 1)] = none) := by
  rw [matchStandaloneSnapshot_eq, ← syncStandaloneRegistry_getTestID_none_iff st.sreg _ _ _ _ h.sreg]
  cases syncStandaloneRegistry_getTestID st.sreg (Generated.Funcs.snapshotPath trimpath caller c t.name true).1
    (Generated.Funcs.snapshotPath trimpath caller c t.name true).2 <;> simp

theorem matchStandaloneJSON_none_iff (io : IOFail) (st : St) (w : World) (h : StRel st w) (trimpath : Bool)
    (caller : Text) (run : Matcher → Text → Text × List MErr) (validate : Text → Text × Err)
    (takeJSON : Cfg → Text → Text) (c : Cfg) (t : T) (input : Text) (ms : List Matcher) :
    matchStandaloneJSON io st trimpath caller run validate takeJSON c t input ms = none ↔
      (sprintf (Generated.Funcs.snapshotPath trimpath caller c t.name true).1
          [.d (alGet w.srunning (Generated.Funcs.snapshotPath trimpath caller c t.name true).1 + 1)] = none ∨
       sprintf (Generated.Funcs.snapshotPath trimpath caller c t.name true).2
          [.d (alGet w.srunning (Generated.Funcs.snapshotPath trimpath caller c t.name true).1 + 1)] = none) := by
  rw [matchStandaloneJSON_eq, ← syncStandaloneRegistry_getTestID_none_iff st.sreg _ _ _ _ h.sreg]
  cases syncStandaloneRegistry_getTestID st.sreg (Generated.Funcs.snapshotPath trimpath caller c t.name true).1
    (Generated.Funcs.snapshotPath trimpath caller c t.name true).2 <;> simp

/-- what `StRel.resetOK` is for: every registered `registry.reset` closure can run without a panic -/
theorem StRel.reset_no_panic {st : St} {w : World} (h : StRel st w) (i : Nat) (p n : Text)
    (hm : (i, Cleanup.resetReg p n) ∈ st.cleanups) : syncRegistry_reset st.reg p n ≠ none := by
  rw [Ne, syncRegistry_reset_panics_iff, h.resetOK i p n hm]
  simp

/-- since the repair of D12 a snapshot directory whose name contains "%5d" is user text like any other: the
    standalone path stays inside the modelled fragment of `Sprintf` (its only verb is the ordinal's `%d`) -/
example : matchStandaloneSnapshot IOFail.never exSt0 false exCaller { snapsDir := [47, 37, 53, 100] } exT [120] ≠ none := by
  decide +kernel

/-! ## 12. a dead branch: `if err != nil { handleError(t, err); return }` after the lookup -/

/-- `getPrevSnapshot` for EVERY oracle: a failing `os.ReadFile` is "snapshot not found"; otherwise the
    model's lookup.  (The scanner cannot fail: `Scanner.err`.) -/
theorem getPrevSnapshot_any (io : IOFail) (fs : FS) (testID snapPath : Text) :
    getPrevSnapshot io fs testID snapPath =
      match io .readFile snapPath with
      | some _ => ([], -1, Err.snapNotFound)
      | none =>
        match (fsRead fs snapPath).bind (getPrev testID) with
        | some (b, n) => (b, (n : Int), Err.nil)
        | none => ([], -1, Err.snapNotFound) := by
  cases h : io .readFile snapPath with
  | some m =>
    exact getPrevSnapshot_read_error io fs testID snapPath (by simp [readFile, h, Err.notNil])
  | none =>
    have e : readFile io fs snapPath = readFile IOFail.never fs snapPath := by
      simp [readFile, h, IOFail.never]
    have e2 : getPrevSnapshot io fs testID snapPath = getPrevSnapshot IOFail.never fs testID snapPath := by
      unfold getPrevSnapshot
      rw [e]
    rw [e2, getPrevSnapshot_tied]
    rfl

/-- the error of the lookup is `nil` or `errSnapNotFound`, never anything else: the second error
    check of matchSnapshot / matchJSON / matchYAML (`if err != nil` after `errors.Is(err,
    errSnapNotFound)`) is unreachable, also under I/O failures -/
theorem getPrevSnapshot_err_cases (io : IOFail) (fs : FS) (testID snapPath : Text) :
    (getPrevSnapshot io fs testID snapPath).2.2 = Err.nil ∨
      (getPrevSnapshot io fs testID snapPath).2.2 = Err.snapNotFound := by
  rw [getPrevSnapshot_any]
  cases io .readFile snapPath with
  | some m => exact .inr rfl
  | none =>
    cases (fsRead fs snapPath).bind (getPrev testID) with
    | none => exact .inr rfl
    | some bn => exact .inl rfl

theorem getPrevSnapshot_dead_branch (io : IOFail) (fs : FS) (testID snapPath : Text)
    (h : (getPrevSnapshot io fs testID snapPath).2.2.isSnapNotFound = false) :
    (getPrevSnapshot io fs testID snapPath).2.2.notNil = false := by
  rcases getPrevSnapshot_err_cases io fs testID snapPath with e | e
  · rw [e]; rfl
  · rw [e] at h; cases h

/-- the same for the standalone lookup -/
theorem getPrevStandaloneSnapshot_dead_branch (io : IOFail) (fs : FS) (snapPath : Text)
    (h : (getPrevStandaloneSnapshot io fs snapPath).2.isSnapNotFound = false) :
    (getPrevStandaloneSnapshot io fs snapPath).2.notNil = false := by
  rw [getPrevStandaloneSnapshot_eq] at h ⊢
  revert h
  cases io .readFile snapPath <;> cases fsRead fs snapPath <;> simp [Err.isSnapNotFound, Err.notNil]

/-- a read failure (permission, I/O error) on an EXISTING snapshot file is treated as "no snapshot":
    with creation allowed the flow appends a fresh entry to the file it could not read -/
example :
    let io : IOFail := fun op _ => if op = .readFile then some [33] else none
    (matchSnapshot io
        { env := exEnv, fs := [(exSnap, [10, 91, 84, 32, 45, 32, 49, 93, 10, 120, 10, 45, 45, 45, 10])] }
        false exCaller {} exT [[121]]).map (fun s => (s.fs, s.events)) =
      some ([(exSnap, [10, 91, 84, 32, 45, 32, 49, 93, 10, 120, 10, 45, 45, 45, 10,
                       10, 91, 84, 32, 45, 32, 49, 93, 10, 121, 10, 45, 45, 45, 10])], [(kAdded, 1)]) := by
  decide +kernel

end GoSnaps.Tie
