/-
Tie by proof, part 9: the registry methods of snaps/snapshot.go (`Generated/FuncsIO.lean`):
`syncRegistry.getTestID`, `syncRegistry.reset`, `syncStandaloneRegistry.getTestID`,
`syncStandaloneRegistry.reset`.

The Go registries are nested maps (`map[string]map[string]int`, run-time semantics `GoIO.Map2`);
the model (`Model.lean`) keeps flat association lists keyed by `(snapPath, testName)`.  The
abstraction relations `RegRel` / `SRegRel` say that both read the same number at every key (and,
for the nested maps, that the inner maps of `running` and `cleanup` exist together, which is what
keeps `cleanup[snapPath][testName]++` from panicking).

For each method
* `…_eq`    : the transliteration in closed form, for EVERY registry (no hypothesis): when it panics
              and what it returns (the strongest statement; everything else is a corollary);
* `…_tied`  : from related states the method does the model's step (`regBump` / `sregBump` /
              the reset of `endTest`) and returns the model's formatted id;
* isolation : statements about the transliterated code alone (no model state): the other keys are
              not touched, the ordinal is the old counter plus one.
Each main theorem is followed by an `example` on a small concrete state (non-vacuity).

Byte legend: 91 = '[', 93 = ']', 32 = ' ', 45 = '-', 37 = '%', 100 = 'd', 97 = 'a', 98 = 'b', 95 = '_'.
-/
import GoSnaps.GoIO
import GoSnaps.Format
import GoSnaps.Model
import GoSnaps.Generated.FuncsIO
namespace GoSnaps.Tie
open GoSnaps GoSnaps.GoIO
open GoSnaps.Generated.FuncsIO

/-! ## association lists of the model -/

theorem reg_alGet_alSet {κ : Type} [DecidableEq κ] (m : List (κ × Nat)) (k k' : κ) (v : Nat) :
    alGet (alSet m k v) k' = if k' = k then v else alGet m k' := by
  induction m with
  | nil =>
    by_cases h : k' = k
    · subst h; simp [alSet, alGet]
    · have : ¬ k = k' := fun e => h e.symm
      simp [alSet, alGet, h, this]
  | cons x m ih =>
    obtain ⟨a, b⟩ := x
    by_cases h1 : a = k
    · subst h1
      by_cases h2 : k' = a
      · subst h2; simp [alSet, alGet]
      · have : ¬ a = k' := fun e => h2 e.symm
        simp [alSet, alGet, h2, this]
    · by_cases h2 : a = k'
      · subst h2
        simp [alSet, alGet, h1]
      · simp [alSet, alGet, h1, h2, ih]

/-! ## Go maps (`GoIO.Map1`, `GoIO.Map2`) -/

theorem map1Get_map1Set (m : Map1) (k k' : Text) (v : Int) :
    map1Get (map1Set m k v) k' = if k' = k then v else map1Get m k' := by
  induction m with
  | nil =>
    by_cases h : k' = k
    · subst h; simp [map1Set, map1Get]
    · have : ¬ k = k' := fun e => h e.symm
      simp [map1Set, map1Get, h, this]
  | cons x m ih =>
    obtain ⟨a, b⟩ := x
    by_cases h1 : a = k
    · subst h1
      by_cases h2 : k' = a
      · subst h2; simp [map1Set, map1Get]
      · have : ¬ a = k' := fun e => h2 e.symm
        simp [map1Set, map1Get, h2, this]
    · by_cases h2 : a = k'
      · subst h2
        simp [map1Set, map1Get, h1]
      · simp [map1Set, map1Get, h1, h2, ih]

theorem map1Get_map1Inc (m : Map1) (k k' : Text) :
    map1Get (map1Inc m k) k' = if k' = k then map1Get m k + 1 else map1Get m k' := by
  unfold map1Inc; exact map1Get_map1Set m k k' _

theorem map2Inner_setInner (m : Map2) (a a' : Text) (i : Map1) :
    map2Inner (map2SetInner m a i) a' = if a' = a then i else map2Inner m a' := by
  induction m with
  | nil =>
    by_cases h : a' = a
    · subst h; simp [map2SetInner, map2Inner]
    · have : ¬ a = a' := fun e => h e.symm
      simp [map2SetInner, map2Inner, h, this]
  | cons x m ih =>
    obtain ⟨k, b⟩ := x
    by_cases h1 : k = a
    · subst h1
      by_cases h2 : a' = k
      · subst h2; simp [map2SetInner, map2Inner]
      · have : ¬ k = a' := fun e => h2 e.symm
        simp [map2SetInner, map2Inner, h2, this]
    · by_cases h2 : k = a'
      · subst h2
        simp [map2SetInner, map2Inner, h1]
      · simp [map2SetInner, map2Inner, h1, h2, ih]

theorem map2Has_setInner (m : Map2) (a a' : Text) (i : Map1) :
    map2Has (map2SetInner m a i) a' = (map2Has m a' || decide (a' = a)) := by
  induction m with
  | nil => simp [map2SetInner, map2Has, eq_comm]
  | cons x m ih =>
    obtain ⟨k, b⟩ := x
    have ih' : (map2SetInner m a i).any (fun x => decide (x.1 = a')) =
        (m.any (fun x => decide (x.1 = a')) || decide (a' = a)) := ih
    by_cases h1 : k = a
    · subst h1
      by_cases h2 : a' = k
      · subst h2; simp [map2SetInner, map2Has]
      · have : ¬ k = a' := fun e => h2 e.symm
        simp [map2SetInner, map2Has, h2, this]
    · by_cases h2 : k = a'
      · subst h2
        simp [map2SetInner, map2Has, h1]
      · simp [map2SetInner, map2Has, h1, h2, ih']

/-- a missing inner map reads as the nil map -/
theorem map2Inner_of_not_has (m : Map2) (a : Text) (h : map2Has m a = false) : map2Inner m a = [] := by
  induction m with
  | nil => rfl
  | cons x m ih =>
    obtain ⟨k, b⟩ := x
    by_cases h1 : k = a
    · subst h1; simp [map2Has] at h
    · have : map2Has m a = false := by simpa [map2Has, h1] using h
      simp [map2Inner, h1, ih this]

theorem map2Get_of_not_has (m : Map2) (a b : Text) (h : map2Has m a = false) : map2Get m a b = 0 := by
  simp [map2Get, map2Inner_of_not_has m a h, map1Get]

/-- `m[a][b] = v` on an existing inner map -/
def map2Put (m : Map2) (a b : Text) (v : Int) : Map2 := map2SetInner m a (map1Set (map2Inner m a) b v)

theorem map2Set_eq (m : Map2) (a b : Text) (v : Int) :
    map2Set m a b v = if map2Has m a then some (map2Put m a b v) else none := rfl

theorem map2Get_put (m : Map2) (a b a' b' : Text) (v : Int) :
    map2Get (map2Put m a b v) a' b' = if a' = a ∧ b' = b then v else map2Get m a' b' := by
  unfold map2Get map2Put
  rw [map2Inner_setInner]
  by_cases h1 : a' = a
  · subst h1
    simp [map1Get_map1Set]
  · simp [h1]

theorem map2Has_put (m : Map2) (a b a' : Text) (v : Int) :
    map2Has (map2Put m a b v) a' = (map2Has m a' || decide (a' = a)) := map2Has_setInner _ _ _ _

/-- creating an empty inner map where none exists changes no reading -/
theorem map2Get_setInner_nil (m : Map2) (a a' b' : Text) (h : map2Has m a = false) :
    map2Get (map2SetInner m a []) a' b' = map2Get m a' b' := by
  unfold map2Get
  rw [map2Inner_setInner]
  by_cases h1 : a' = a
  · subst h1; simp [map2Inner_of_not_has m a' h]
  · simp [h1]

theorem reg_itoa_natCast (n : Nat) : GoSem.itoa (n : Int) = natToText n := by
  unfold GoSem.itoa
  rw [if_neg (by omega)]
  simp

/-- the format string read from the Go source (`"[%s - %d]"`), interpreted by the model's
    `sprintf`, writes exactly the bytes the transliteration concatenates -/
theorem sprintf_idFmt (name : Text) (k : Nat) :
    sprintf Generated.idFmt [.s name, .d k] =
      some (([91] : Text) ++ name ++ ([32, 45, 32] : Text) ++ natToText k ++ ([93] : Text)) := by
  have hp : parseFmt Generated.idFmt =
      some [.lit [91], .verb 115, .lit [32, 45, 32], .verb 100, .lit [93]] := by decide
  simp [sprintf, hp, fmtPieces, fmtVerb]

/-! ## 1. the abstraction relation for `syncRegistry` -/

/-- the nested Go maps and the model's flat lists read the same counter at every key, and the inner
    maps of `running` and `cleanup` exist for the same paths -/
structure RegRel (r : Registry) (running cleanup : List (RegKey × Nat)) : Prop where
  running : ∀ p n : Text, map2Get r.running p n = (alGet running (p, n) : Int)
  cleanup : ∀ p n : Text, map2Get r.cleanup p n = (alGet cleanup (p, n) : Int)
  has : ∀ p : Text, map2Has r.running p = map2Has r.cleanup p

/-- `newRegistry()` -/
theorem RegRel_init : RegRel {} [] [] :=
  ⟨fun _ _ => rfl, fun _ _ => rfl, fun _ => rfl⟩

/-! ## 2. `syncRegistry.getTestID` -/

/-- `if _, exists := s.running[snapPath]; !exists { s.running[snapPath] = make(…); s.cleanup[snapPath] = make(…) }` -/
def regEnsure (r : Registry) (p : Text) : Registry :=
  if map2Has r.running p then r
  else { running := map2SetInner r.running p [], cleanup := map2SetInner r.cleanup p [] }

/-- the registry after a `getTestID` that does not panic -/
def regBumped (r : Registry) (p n : Text) : Registry :=
  { running := map2Put (regEnsure r p).running p n (map2Get r.running p n + 1),
    cleanup := map2Put (regEnsure r p).cleanup p n (map2Get (regEnsure r p).cleanup p n + 1) }

/-- **Closed form, for every registry**: `getTestID` panics exactly when `running[snapPath]` exists
    and `cleanup[snapPath]` does not; otherwise it bumps both counters and returns
    `"[" + testName + " - " + itoa(old running counter + 1) + "]"`. -/
theorem syncRegistry_getTestID_eq (r : Registry) (p n : Text) :
    syncRegistry_getTestID r p n =
      if map2Has r.running p = true ∧ map2Has r.cleanup p = false then none
      else some (regBumped r p n,
        ([91] : Text) ++ n ++ ([32, 45, 32] : Text) ++ GoSem.itoa (map2Get r.running p n + 1) ++ ([93] : Text)) := by
  unfold syncRegistry_getTestID regBumped regEnsure
  by_cases h1 : map2Has r.running p = true
  · by_cases h2 : map2Has r.cleanup p = true
    · simp [h1, h2, map2Inc, map2Set_eq, ← map2Get.eq_1, map2Get_put]
    · have h2' : map2Has r.cleanup p = false := by simpa using h2
      simp [h1, h2', map2Inc, map2Set_eq]
  · have h1' : map2Has r.running p = false := by simpa using h1
    have h0 : map2Get r.running p n = 0 := map2Get_of_not_has _ _ _ h1'
    simp [h1', h0, map2Inc, map2Set_eq, map2Has_setInner, ← map2Get.eq_1, map2Get_put,
      map2Get_setInner_nil _ _ _ _ h1']

/-- `getTestID` panics exactly when `running[snapPath]` exists and `cleanup[snapPath]` does not -/
theorem syncRegistry_getTestID_panics_iff (r : Registry) (p n : Text) :
    syncRegistry_getTestID r p n = none ↔ (map2Has r.running p = true ∧ map2Has r.cleanup p = false) := by
  rw [syncRegistry_getTestID_eq]
  by_cases h : map2Has r.running p = true ∧ map2Has r.cleanup p = false
  · simp [h]
  · rw [if_neg h]; simp [h]

theorem regEnsure_has_running (r : Registry) (p : Text) : map2Has (regEnsure r p).running p = true := by
  unfold regEnsure
  by_cases h : map2Has r.running p = true
  · simp [h]
  · simp [h, map2Has_setInner]

theorem regEnsure_get_running (r : Registry) (p p' n' : Text) :
    map2Get (regEnsure r p).running p' n' = map2Get r.running p' n' := by
  unfold regEnsure
  by_cases h : map2Has r.running p = true
  · simp [h]
  · have h' : map2Has r.running p = false := by simpa using h
    simp [h', map2Get_setInner_nil _ _ _ _ h']

/-- needs: an inner map of `cleanup` exists only where one of `running` does (otherwise the
    `make` would wipe it) -/
theorem regEnsure_get_cleanup (r : Registry) (p p' n' : Text)
    (hh : map2Has r.cleanup p = true → map2Has r.running p = true) :
    map2Get (regEnsure r p).cleanup p' n' = map2Get r.cleanup p' n' := by
  unfold regEnsure
  by_cases h : map2Has r.running p = true
  · simp [h]
  · have h' : map2Has r.running p = false := by simpa using h
    have hc : map2Has r.cleanup p = false := by
      cases hc : map2Has r.cleanup p with
      | false => rfl
      | true => exact absurd (hh hc) h
    simp [h', map2Get_setInner_nil _ _ _ _ hc]

theorem regEnsure_has (r : Registry) (p q : Text) (hh : ∀ q, map2Has r.running q = map2Has r.cleanup q) :
    map2Has (regEnsure r p).running q = map2Has (regEnsure r p).cleanup q := by
  unfold regEnsure
  by_cases h : map2Has r.running p = true
  · simp [h, hh q]
  · simp [h, map2Has_setInner, hh q]

theorem regBumped_has_running (r : Registry) (p n q : Text) :
    map2Has (regBumped r p n).running q = (map2Has r.running q || decide (q = p)) := by
  unfold regBumped
  rw [map2Has_put]
  unfold regEnsure
  by_cases h : map2Has r.running p = true
  · simp [h]
  · simp [h, map2Has_setInner]

/-- the step preserves the abstraction relation: it is the model's `regBump` -/
theorem RegRel_regBumped (r : Registry) (run cl : List (RegKey × Nat)) (p n : Text) (h : RegRel r run cl) :
    RegRel (regBumped r p n) (alSet run (p, n) (alGet run (p, n) + 1))
      (alSet cl (p, n) (alGet cl (p, n) + 1)) := by
  have hcl : map2Has r.cleanup p = true → map2Has r.running p = true := fun e => by rw [h.has]; exact e
  refine ⟨fun p' n' => ?_, fun p' n' => ?_, fun q => ?_⟩
  · simp only [regBumped, map2Get_put, reg_alGet_alSet, Prod.mk.injEq, regEnsure_get_running, h.running]
    by_cases hk : p' = p ∧ n' = n
    · simp [hk]
    · simp [hk]
  · simp only [regBumped, map2Get_put, reg_alGet_alSet, Prod.mk.injEq,
      regEnsure_get_cleanup r p _ _ hcl, h.cleanup]
    by_cases hk : p' = p ∧ n' = n
    · simp [hk]
    · simp [hk]
  · simp only [regBumped, map2Has_put, regEnsure_has r p q h.has]

/-- **Tie**: from a state related to the model's lists, `syncRegistry.getTestID` does not panic,
    performs the model's `regBump` on the key `(snapPath, testName)` and returns the id that
    `matchEntry` formats with `sprintf Generated.idFmt`; afterwards `running[snapPath]` exists. -/
theorem syncRegistry_getTestID_tied (r : Registry) (run cl : List (RegKey × Nat)) (p n : Text)
    (h : RegRel r run cl) :
    ∃ r' id, syncRegistry_getTestID r p n = some (r', id) ∧
      RegRel r' (alSet run (p, n) (alGet run (p, n) + 1)) (alSet cl (p, n) (alGet cl (p, n) + 1)) ∧
      sprintf Generated.idFmt [.s n, .d (alGet run (p, n) + 1)] = some id ∧
      map2Has r'.running p = true := by
  refine ⟨regBumped r p n,
    ([91] : Text) ++ n ++ ([32, 45, 32] : Text) ++ GoSem.itoa (map2Get r.running p n + 1) ++ ([93] : Text),
    ?_, RegRel_regBumped r run cl p n h, ?_, ?_⟩
  · rw [syncRegistry_getTestID_eq, if_neg]
    intro ⟨h1, h2⟩
    rw [h.has, h2] at h1
    exact absurd h1 (by decide)
  · rw [sprintf_idFmt, h.running]
    have : ((alGet run (p, n) : Nat) : Int) + 1 = ((alGet run (p, n) + 1 : Nat) : Int) := by omega
    rw [this, reg_itoa_natCast]
  · simp [regBumped_has_running]

/-- the same, phrased with the model's `regBump` on a `World` -/
theorem syncRegistry_getTestID_regBump (w : World) (r : Registry) (p n : Text)
    (h : RegRel r w.running w.cleanup) :
    ∃ r' id, syncRegistry_getTestID r p n = some (r', id) ∧
      RegRel r' (regBump w (p, n)).1.running (regBump w (p, n)).1.cleanup ∧
      sprintf Generated.idFmt [.s n, .d (regBump w (p, n)).2] = some id ∧
      map2Has r'.running p = true :=
  syncRegistry_getTestID_tied r w.running w.cleanup p n h

/-- from a reachable state the Go method never panics -/
theorem syncRegistry_getTestID_no_panic (r : Registry) (run cl : List (RegKey × Nat)) (p n : Text)
    (h : RegRel r run cl) : syncRegistry_getTestID r p n ≠ none := by
  obtain ⟨r', id, e, _⟩ := syncRegistry_getTestID_tied r run cl p n h
  rw [e]; simp

/-- non-vacuity: the first two calls for test "a" in file "b", from `newRegistry()`:
    ids "[a - 1]" and "[a - 2]", related to the model's lists after one and two `regBump`s -/
example :
    RegRel {} [] [] ∧
    syncRegistry_getTestID {} [98] [97] =
      some ({ running := [([98], [([97], 1)])], cleanup := [([98], [([97], 1)])] },
            [91, 97, 32, 45, 32, 49, 93]) ∧
    syncRegistry_getTestID { running := [([98], [([97], 1)])], cleanup := [([98], [([97], 1)])] } [98] [97] =
      some ({ running := [([98], [([97], 2)])], cleanup := [([98], [([97], 2)])] },
            [91, 97, 32, 45, 32, 50, 93]) ∧
    alSet ([] : List (RegKey × Nat)) ([98], [97]) (alGet ([] : List (RegKey × Nat)) ([98], [97]) + 1)
      = [(([98], [97]), 1)] ∧
    sprintf Generated.idFmt [.s [97], .d 1] = some [91, 97, 32, 45, 32, 49, 93] := by
  refine ⟨RegRel_init, by decide, by decide, by decide, by decide⟩

/-- non-vacuity of the panic case: `running["b"]` exists, `cleanup["b"]` does not (not reachable) -/
example : syncRegistry_getTestID { running := [([98], [])], cleanup := [] } [98] [97] = none := by decide

/-! ## 3. `syncRegistry.reset` -/

/-- **Closed form, for every registry**: `s.running[snapPath][testName] = 0` panics exactly when
    `running[snapPath]` does not exist -/
theorem syncRegistry_reset_eq (r : Registry) (p n : Text) :
    syncRegistry_reset r p n =
      if map2Has r.running p then some { r with running := map2Put r.running p n 0 } else none := by
  unfold syncRegistry_reset
  by_cases h : map2Has r.running p = true
  · simp [h, map2Set_eq]
  · simp [h, map2Set_eq]

/-- **Tie**: after a `getTestID` on that path (`running[snapPath]` exists) the reset does not panic
    and is the model's `alSet running (snapPath, testName) 0` of `endTest`; `cleanup` is untouched -/
theorem syncRegistry_reset_tied (r : Registry) (run cl : List (RegKey × Nat)) (p n : Text)
    (h : RegRel r run cl) (hp : map2Has r.running p = true) :
    ∃ r', syncRegistry_reset r p n = some r' ∧ RegRel r' (alSet run (p, n) 0) cl ∧
      r'.cleanup = r.cleanup ∧ ∀ q, map2Has r'.running q = map2Has r.running q := by
  refine ⟨{ r with running := map2Put r.running p n 0 }, ?_, ⟨fun p' n' => ?_, h.cleanup, fun q => ?_⟩, rfl,
    fun q => ?_⟩
  · rw [syncRegistry_reset_eq, hp]; rfl
  · simp only [map2Get_put, reg_alGet_alSet, Prod.mk.injEq, h.running]
    by_cases hk : p' = p ∧ n' = n
    · simp [hk]
    · simp [hk]
  · simp only [map2Has_put, ← h.has]
    by_cases hq : q = p
    · subst hq; simp [hp]
    · simp [hq]
  · simp only [map2Has_put]
    by_cases hq : q = p
    · subst hq; simp [hp]
    · simp [hq]

/-- a reset for a path on which `getTestID` was never called panics (assignment to an entry of the
    nil inner map) -/
theorem syncRegistry_reset_panics (r : Registry) (p n : Text) (hp : map2Has r.running p = false) :
    syncRegistry_reset r p n = none := by
  rw [syncRegistry_reset_eq, hp]; rfl

theorem syncRegistry_reset_panics_iff (r : Registry) (p n : Text) :
    syncRegistry_reset r p n = none ↔ map2Has r.running p = false := by
  rw [syncRegistry_reset_eq]
  cases map2Has r.running p <;> simp

/-- `getTestID` establishes `running[snapPath]` exists, and never removes an inner map -/
theorem syncRegistry_getTestID_has (r r' : Registry) (p n q : Text) (id : Text)
    (e : syncRegistry_getTestID r p n = some (r', id)) :
    map2Has r'.running q = (map2Has r.running q || decide (q = p)) := by
  rw [syncRegistry_getTestID_eq] at e
  split at e
  · cases e
  · simp only [Option.some.injEq, Prod.mk.injEq] at e
    rw [← e.1, regBumped_has_running]

theorem syncRegistry_getTestID_has_self (r r' : Registry) (p n : Text) (id : Text)
    (e : syncRegistry_getTestID r p n = some (r', id)) : map2Has r'.running p = true := by
  simp [syncRegistry_getTestID_has r r' p n p id e]

theorem syncRegistry_getTestID_has_preserved (r r' : Registry) (p n q : Text) (id : Text)
    (e : syncRegistry_getTestID r p n = some (r', id)) (hq : map2Has r.running q = true) :
    map2Has r'.running q = true := by
  simp [syncRegistry_getTestID_has r r' p n q id e, hq]

/-- `reset` neither creates nor removes an inner map -/
theorem syncRegistry_reset_has (r r' : Registry) (p n q : Text)
    (e : syncRegistry_reset r p n = some r') : map2Has r'.running q = map2Has r.running q := by
  rw [syncRegistry_reset_eq] at e
  cases hp : map2Has r.running p with
  | false => rw [hp] at e; simp at e
  | true =>
    rw [hp] at e
    simp only [if_true, Option.some.injEq] at e
    rw [← e]
    simp only [map2Has_put]
    by_cases hq : q = p
    · subst hq; simp [hp]
    · simp [hq]

/-- non-vacuity: after two calls for ("b", "a") and one for ("b", "c") the cleanup of test "a"
    resets its counter only; on the empty registry the reset panics -/
example :
    map2Has ([([98], [([97], 2), ([99], 1)])] : Map2) [98] = true ∧
    RegRel { running := [([98], [([97], 2), ([99], 1)])], cleanup := [([98], [([97], 2), ([99], 1)])] }
      [(([98], [97]), 2), (([98], [99]), 1)] [(([98], [97]), 2), (([98], [99]), 1)] ∧
    syncRegistry_reset
      { running := [([98], [([97], 2), ([99], 1)])], cleanup := [([98], [([97], 2), ([99], 1)])] } [98] [97] =
      some { running := [([98], [([97], 0), ([99], 1)])], cleanup := [([98], [([97], 2), ([99], 1)])] } ∧
    alSet [((([98], [97]) : RegKey), 2), (([98], [99]), 1)] ([98], [97]) 0 =
      [(([98], [97]), 0), (([98], [99]), 1)] ∧
    syncRegistry_reset {} [98] [97] = none := by
  refine ⟨by decide, ?_, by decide, by decide, by decide⟩
  -- the related state is the one reached by three `getTestID`s from `newRegistry()`
  obtain ⟨r1, _, e1, h1, _⟩ := syncRegistry_getTestID_tied {} [] [] [98] [97] RegRel_init
  obtain ⟨r2, _, e2, h2, _⟩ := syncRegistry_getTestID_tied r1 _ _ [98] [97] h1
  obtain ⟨r3, _, e3, h3, _⟩ := syncRegistry_getTestID_tied r2 _ _ [98] [99] h2
  have d1 : syncRegistry_getTestID {} [98] [97] = some
      ({ running := [([98], [([97], 1)])], cleanup := [([98], [([97], 1)])] }, [91, 97, 32, 45, 32, 49, 93]) := by
    decide
  rw [d1] at e1
  obtain rfl : _ = r1 := congrArg Prod.fst (Option.some.inj e1)
  have d2 : syncRegistry_getTestID { running := [([98], [([97], 1)])], cleanup := [([98], [([97], 1)])] }
      [98] [97] = some
      ({ running := [([98], [([97], 2)])], cleanup := [([98], [([97], 2)])] }, [91, 97, 32, 45, 32, 50, 93]) := by
    decide
  rw [d2] at e2
  obtain rfl : _ = r2 := congrArg Prod.fst (Option.some.inj e2)
  have d3 : syncRegistry_getTestID { running := [([98], [([97], 2)])], cleanup := [([98], [([97], 2)])] }
      [98] [99] = some
      ({ running := [([98], [([97], 2), ([99], 1)])], cleanup := [([98], [([97], 2), ([99], 1)])] },
        [91, 99, 32, 45, 32, 49, 93]) := by
    decide
  rw [d3] at e3
  obtain rfl : _ = r3 := congrArg Prod.fst (Option.some.inj e3)
  exact h3

/-! ## 4. the standalone registry -/

/-- the Go maps and the model's lists read the same counter at every path -/
structure SRegRel (s : SRegistry) (running cleanup : List (Text × Nat)) : Prop where
  running : ∀ p : Text, map1Get s.running p = (alGet running p : Int)
  cleanup : ∀ p : Text, map1Get s.cleanup p = (alGet cleanup p : Int)

/-- `newStandaloneRegistry()` -/
theorem SRegRel_init : SRegRel {} [] [] := ⟨fun _ => rfl, fun _ => rfl⟩

/-- the standalone registry after `getTestID` (the maps are updated before the formats are run) -/
def sregBumped (s : SRegistry) (p : Text) : SRegistry :=
  { running := map1Inc s.running p, cleanup := map1Inc s.cleanup p }

/-- **Closed form, for every registry** -/
theorem syncStandaloneRegistry_getTestID_eq (s : SRegistry) (p rel : Text) :
    syncStandaloneRegistry_getTestID s p rel =
      match sprintfInt p (map1Get s.running p + 1), sprintfInt rel (map1Get s.running p + 1) with
      | some a, some b => some (sregBumped s p, a, b)
      | _, _ => none := by
  unfold syncStandaloneRegistry_getTestID sregBumped
  simp only [map1Get_map1Inc, if_true]
  cases sprintfInt p (map1Get s.running p + 1) with
  | none => rfl
  | some a =>
    cases sprintfInt rel (map1Get s.running p + 1) with
    | none => rfl
    | some b => rfl

/-- the step preserves the abstraction relation: it is the model's `sregBump` -/
theorem SRegRel_sregBumped (s : SRegistry) (run cl : List (Text × Nat)) (p : Text) (h : SRegRel s run cl) :
    SRegRel (sregBumped s p) (alSet run p (alGet run p + 1)) (alSet cl p (alGet cl p + 1)) := by
  refine ⟨fun q => ?_, fun q => ?_⟩
  · simp only [sregBumped, map1Get_map1Inc, reg_alGet_alSet, h.running]
    by_cases hq : q = p
    · simp [hq]
    · simp [hq]
  · simp only [sregBumped, map1Get_map1Inc, reg_alGet_alSet, h.cleanup]
    by_cases hq : q = p
    · simp [hq]
    · simp [hq]

theorem sprintfInt_succ (f : Text) (k : Nat) : sprintfInt f ((k : Int) + 1) = sprintf f [.d (k + 1)] := by
  unfold sprintfInt
  rw [if_neg (by omega)]
  have : ((k : Int) + 1).toNat = k + 1 := by omega
  rw [this]

/-- **Tie**: from a related state, `syncStandaloneRegistry.getTestID` is the model's `sregBump`
    followed by the two `sprintf`s of `matchStandalone`, in every case: both formats in the
    modelled fragment = the two texts and the bumped registry; otherwise `none`. -/
theorem syncStandaloneRegistry_getTestID_tied (s : SRegistry) (run cl : List (Text × Nat)) (p rel : Text)
    (h : SRegRel s run cl) :
    syncStandaloneRegistry_getTestID s p rel =
      (match sprintf p [.d (alGet run p + 1)], sprintf rel [.d (alGet run p + 1)] with
       | some a, some b => some (sregBumped s p, a, b)
       | _, _ => none) ∧
    SRegRel (sregBumped s p) (alSet run p (alGet run p + 1)) (alSet cl p (alGet cl p + 1)) := by
  refine ⟨?_, SRegRel_sregBumped s run cl p h⟩
  rw [syncStandaloneRegistry_getTestID_eq, h.running, sprintfInt_succ, sprintfInt_succ]

/-- … `some` direction -/
theorem syncStandaloneRegistry_getTestID_some (s : SRegistry) (run cl : List (Text × Nat)) (p rel a b : Text)
    (h : SRegRel s run cl)
    (ha : sprintf p [.d (alGet run p + 1)] = some a) (hb : sprintf rel [.d (alGet run p + 1)] = some b) :
    ∃ s', syncStandaloneRegistry_getTestID s p rel = some (s', a, b) ∧
      SRegRel s' (alSet run p (alGet run p + 1)) (alSet cl p (alGet cl p + 1)) := by
  refine ⟨sregBumped s p, ?_, SRegRel_sregBumped s run cl p h⟩
  rw [(syncStandaloneRegistry_getTestID_tied s run cl p rel h).1, ha, hb]

/-- … and its converse: whatever the method returns are the model's two texts and a state related
    to the model's `sregBump` -/
theorem syncStandaloneRegistry_getTestID_inv (s s' : SRegistry) (run cl : List (Text × Nat)) (p rel a b : Text)
    (h : SRegRel s run cl) (e : syncStandaloneRegistry_getTestID s p rel = some (s', a, b)) :
    sprintf p [.d (alGet run p + 1)] = some a ∧ sprintf rel [.d (alGet run p + 1)] = some b ∧
      SRegRel s' (alSet run p (alGet run p + 1)) (alSet cl p (alGet cl p + 1)) := by
  rw [(syncStandaloneRegistry_getTestID_tied s run cl p rel h).1] at e
  cases ha : sprintf p [.d (alGet run p + 1)] with
  | none => rw [ha] at e; simp at e
  | some a' =>
    cases hb : sprintf rel [.d (alGet run p + 1)] with
    | none => rw [ha, hb] at e; simp at e
    | some b' =>
      rw [ha, hb] at e
      simp only [Option.some.injEq, Prod.mk.injEq] at e
      obtain ⟨e1, e2, e3⟩ := e
      subst e1 e2 e3
      exact ⟨rfl, rfl, SRegRel_sregBumped s run cl p h⟩

/-- `none` exactly when one of the two formats is outside the modelled fragment -/
theorem syncStandaloneRegistry_getTestID_none_iff (s : SRegistry) (run cl : List (Text × Nat)) (p rel : Text)
    (h : SRegRel s run cl) :
    syncStandaloneRegistry_getTestID s p rel = none ↔
      (sprintf p [.d (alGet run p + 1)] = none ∨ sprintf rel [.d (alGet run p + 1)] = none) := by
  rw [(syncStandaloneRegistry_getTestID_tied s run cl p rel h).1]
  cases sprintf p [.d (alGet run p + 1)] with
  | none => simp
  | some a =>
    cases sprintf rel [.d (alGet run p + 1)] with
    | none => simp
    | some b => simp

/-- the same, phrased with the model's `sregBump` on a `World` -/
theorem syncStandaloneRegistry_getTestID_sregBump (w : World) (s : SRegistry) (p rel : Text)
    (h : SRegRel s w.srunning w.scleanup) :
    syncStandaloneRegistry_getTestID s p rel =
      (match sprintf p [.d (sregBump w p).2], sprintf rel [.d (sregBump w p).2] with
       | some a, some b => some (sregBumped s p, a, b)
       | _, _ => none) ∧
    SRegRel (sregBumped s p) (sregBump w p).1.srunning (sregBump w p).1.scleanup :=
  syncStandaloneRegistry_getTestID_tied s w.srunning w.scleanup p rel h

/-- non-vacuity: generic paths "a_%d" / "b_%d", first call: "a_1", "b_1"; a format outside the
    modelled fragment ("%5d") gives `none` -/
example :
    SRegRel {} [] [] ∧
    syncStandaloneRegistry_getTestID {} [97, 95, 37, 100] [98, 95, 37, 100] =
      some ({ running := [([97, 95, 37, 100], 1)], cleanup := [([97, 95, 37, 100], 1)] },
        [97, 95, 49], [98, 95, 49]) ∧
    sprintf [97, 95, 37, 100] [.d (alGet ([] : List (Text × Nat)) [97, 95, 37, 100] + 1)] = some [97, 95, 49] ∧
    syncStandaloneRegistry_getTestID {} [37, 53, 100] [98, 95, 37, 100] = none ∧
    sprintf [37, 53, 100] [.d 1] = none := by
  refine ⟨SRegRel_init, by decide, by decide, by decide, by decide⟩

/-- **Tie**: `syncStandaloneRegistry.reset` is the model's `alSet srunning snapPath 0` of `endTest`
    (a plain map: it cannot panic) -/
theorem syncStandaloneRegistry_reset_tied (s : SRegistry) (run cl : List (Text × Nat)) (p : Text)
    (h : SRegRel s run cl) :
    SRegRel (syncStandaloneRegistry_reset s p) (alSet run p 0) cl := by
  have e : syncStandaloneRegistry_reset s p = { s with running := map1Set s.running p 0 } := rfl
  rw [e]
  refine ⟨fun q => ?_, h.cleanup⟩
  simp only [map1Get_map1Set, reg_alGet_alSet, h.running]
  by_cases hq : q = p
  · simp [hq]
  · simp [hq]

example :
    SRegRel { running := [([97], 2), ([98], 1)], cleanup := [([97], 2), ([98], 1)] }
      [([97], 2), ([98], 1)] [([97], 2), ([98], 1)] ∧
    syncStandaloneRegistry_reset { running := [([97], 2), ([98], 1)], cleanup := [([97], 2), ([98], 1)] } [97] =
      { running := [([97], 0), ([98], 1)], cleanup := [([97], 2), ([98], 1)] } ∧
    alSet [(([97] : Text), 2), ([98], 1)] [97] 0 = [([97], 0), ([98], 1)] := by
  refine ⟨⟨fun q => ?_, fun q => ?_⟩, by decide, by decide⟩ <;>
  · by_cases h1 : ([97] : Text) = q
    · subst h1; decide
    · by_cases h2 : ([98] : Text) = q
      · subst h2; decide
      · simp [map1Get, alGet, h1, h2]

/-! ## 5. isolation, directly about the transliterated code (no model state) -/

/-- the ordinal in the returned id is the old counter plus one, and it is the new counter -/
theorem syncRegistry_getTestID_ordinal (r r' : Registry) (p n id : Text)
    (e : syncRegistry_getTestID r p n = some (r', id)) :
    id = ([91] : Text) ++ n ++ ([32, 45, 32] : Text) ++ GoSem.itoa (map2Get r.running p n + 1) ++ ([93] : Text) ∧
    map2Get r'.running p n = map2Get r.running p n + 1 := by
  rw [syncRegistry_getTestID_eq] at e
  split at e
  · cases e
  · simp only [Option.some.injEq, Prod.mk.injEq] at e
    refine ⟨e.2.symm, ?_⟩
    rw [← e.1]
    simp [regBumped, map2Get_put]

/-- `getTestID` for `(p, n)` leaves the `running` counter of every other key alone -/
theorem syncRegistry_getTestID_running_other (r r' : Registry) (p n id p' n' : Text)
    (e : syncRegistry_getTestID r p n = some (r', id)) (hk : (p', n') ≠ (p, n)) :
    map2Get r'.running p' n' = map2Get r.running p' n' := by
  rw [syncRegistry_getTestID_eq] at e
  split at e
  · cases e
  · simp only [Option.some.injEq, Prod.mk.injEq] at e
    rw [← e.1]
    have : ¬ (p' = p ∧ n' = n) := fun ⟨a, b⟩ => hk (by rw [a, b])
    simp [regBumped, map2Get_put, this, regEnsure_get_running]

/-- … and the `cleanup` counter of every other key, provided `cleanup[p]` exists only if
    `running[p]` does (true in every reachable state: `RegRel.has`) -/
theorem syncRegistry_getTestID_cleanup_other (r r' : Registry) (p n id p' n' : Text)
    (e : syncRegistry_getTestID r p n = some (r', id)) (hk : (p', n') ≠ (p, n))
    (hh : map2Has r.cleanup p = true → map2Has r.running p = true) :
    map2Get r'.cleanup p' n' = map2Get r.cleanup p' n' := by
  rw [syncRegistry_getTestID_eq] at e
  split at e
  · cases e
  · simp only [Option.some.injEq, Prod.mk.injEq] at e
    rw [← e.1]
    have : ¬ (p' = p ∧ n' = n) := fun ⟨a, b⟩ => hk (by rw [a, b])
    simp [regBumped, map2Get_put, this, regEnsure_get_cleanup r p _ _ hh]

/-- … while the `cleanup` counter of the key itself grows by one -/
theorem syncRegistry_getTestID_cleanup_self (r r' : Registry) (p n id : Text)
    (e : syncRegistry_getTestID r p n = some (r', id))
    (hh : map2Has r.cleanup p = true → map2Has r.running p = true) :
    map2Get r'.cleanup p n = map2Get r.cleanup p n + 1 := by
  rw [syncRegistry_getTestID_eq] at e
  split at e
  · cases e
  · simp only [Option.some.injEq, Prod.mk.injEq] at e
    rw [← e.1]
    simp [regBumped, map2Get_put, regEnsure_get_cleanup r p _ _ hh]

/-- `reset` for `(p, n)` zeroes that `running` counter, leaves every other one alone and does not
    touch `cleanup` -/
theorem syncRegistry_reset_isolated (r r' : Registry) (p n : Text) (e : syncRegistry_reset r p n = some r') :
    map2Get r'.running p n = 0 ∧
    (∀ p' n', (p', n') ≠ (p, n) → map2Get r'.running p' n' = map2Get r.running p' n') ∧
    r'.cleanup = r.cleanup := by
  rw [syncRegistry_reset_eq] at e
  cases hp : map2Has r.running p with
  | false => rw [hp] at e; simp at e
  | true =>
    rw [hp] at e
    simp only [if_true, Option.some.injEq] at e
    rw [← e]
    refine ⟨by simp [map2Get_put], fun p' n' hk => ?_, rfl⟩
    have : ¬ (p' = p ∧ n' = n) := fun ⟨a, b⟩ => hk (by rw [a, b])
    simp [map2Get_put, this]

/-- the standalone registry: the ordinal is the old counter plus one; other paths are not touched -/
theorem syncStandaloneRegistry_getTestID_isolated (s s' : SRegistry) (p rel a b : Text)
    (e : syncStandaloneRegistry_getTestID s p rel = some (s', a, b)) :
    map1Get s'.running p = map1Get s.running p + 1 ∧
    map1Get s'.cleanup p = map1Get s.cleanup p + 1 ∧
    (∀ q, q ≠ p → map1Get s'.running q = map1Get s.running q ∧ map1Get s'.cleanup q = map1Get s.cleanup q) ∧
    sprintfInt p (map1Get s.running p + 1) = some a ∧ sprintfInt rel (map1Get s.running p + 1) = some b := by
  rw [syncStandaloneRegistry_getTestID_eq] at e
  cases ha : sprintfInt p (map1Get s.running p + 1) with
  | none => rw [ha] at e; simp at e
  | some a' =>
    cases hb : sprintfInt rel (map1Get s.running p + 1) with
    | none => rw [ha, hb] at e; simp at e
    | some b' =>
      rw [ha, hb] at e
      simp only [Option.some.injEq, Prod.mk.injEq] at e
      obtain ⟨e1, e2, e3⟩ := e
      subst e1 e2 e3
      refine ⟨by simp [sregBumped, map1Get_map1Inc], by simp [sregBumped, map1Get_map1Inc],
        fun q hq => by simp [sregBumped, map1Get_map1Inc, hq], rfl, rfl⟩

theorem syncStandaloneRegistry_reset_isolated (s : SRegistry) (p : Text) :
    map1Get (syncStandaloneRegistry_reset s p).running p = 0 ∧
    (∀ q, q ≠ p → map1Get (syncStandaloneRegistry_reset s p).running q = map1Get s.running q) ∧
    (syncStandaloneRegistry_reset s p).cleanup = s.cleanup := by
  have e : syncStandaloneRegistry_reset s p = { s with running := map1Set s.running p 0 } := rfl
  rw [e]
  exact ⟨by simp [map1Get_map1Set], fun q hq => by simp [map1Get_map1Set, hq], rfl⟩

/-- non-vacuity of the isolation statements: two tests in one file, a third key in another file -/
example :
    syncRegistry_getTestID
      { running := [([98], [([97], 2), ([99], 1)]), ([100], [([97], 5)])],
        cleanup := [([98], [([97], 2), ([99], 1)]), ([100], [([97], 5)])] } [98] [97] =
    some ({ running := [([98], [([97], 3), ([99], 1)]), ([100], [([97], 5)])],
            cleanup := [([98], [([97], 3), ([99], 1)]), ([100], [([97], 5)])] },
          [91, 97, 32, 45, 32, 51, 93]) := by decide

end GoSnaps.Tie
