/-
Tie, continued (see Props/Tie/DifflibGen.lean): statements for ALL inputs relating the transliteration
`GoSnaps.Generated.DifflibGen` of /repo/internal/difflib/difflib.go to the hand port `GoSnaps.Difflib`.

  5. GetGroupedOpCodes relative to getOpCodes (`GetGroupedOpCodes_agrees`)
-/
import GoSnaps.Props.Tie.DifflibGen
namespace GoSnaps.Tie.DifflibGen
open GoSnaps GoSnaps.Generated GoSnaps.Generated.DifflibGen

/-! ## 5. GetGroupedOpCodes -/

/-- one iteration of the grouping loop on the state (groups, group), with Go's `int` -/
def gStep (n : Int) (st : List (List GoIO.OpCodeI) × List GoIO.OpCodeI) (c : GoIO.OpCodeI) :
    List (List GoIO.OpCodeI) × List GoIO.OpCodeI :=
  if c.tag = 0 ∧ c.i2 - c.i1 > n + n then
    (st.1 ++ [st.2 ++ [⟨c.tag, c.i1, Min.min c.i2 (c.i1 + n), c.j1, Min.min c.j2 (c.j1 + n)⟩]],
      [⟨c.tag, Max.max c.i1 (c.i2 - n), c.i2, Max.max c.j1 (c.j2 - n), c.j2⟩])
  else (st.1, st.2 ++ [c])

/-- `if len(group) > 0 && !(len(group) == 1 && group[0].Tag == OpEqual) { groups = append(groups, group) }` -/
def finalI (st : List (List GoIO.OpCodeI) × List GoIO.OpCodeI) : List (List GoIO.OpCodeI) :=
  match st.2 with
  | [] => st.1
  | [x] => if x.tag = 0 then st.1 else st.1 ++ [st.2]
  | _ :: _ :: _ => st.1 ++ [st.2]

/-- `codes[0] = …` when the first opcode is an Equal -/
def fixFirstI (n : Int) : List GoIO.OpCodeI → List GoIO.OpCodeI
  | [] => []
  | c :: cs => if c.tag = 0 then ⟨c.tag, Max.max c.i1 (c.i2 - n), c.i2, Max.max c.j1 (c.j2 - n), c.j2⟩ :: cs else c :: cs

/-- `codes[len(codes)-1] = …` when the last opcode is an Equal -/
def fixLastI (n : Int) (l : List GoIO.OpCodeI) : List GoIO.OpCodeI :=
  match l.getLast? with
  | none => l
  | some c => if c.tag = 0 then l.dropLast ++ [⟨c.tag, c.i1, Min.min c.i2 (c.i1 + n), c.j1, Min.min c.j2 (c.j1 + n)⟩] else l

/-- the whole of `GetGroupedOpCodes` on an opcode list, with Go's `int` -/
def groupI (n : Int) (codes : List GoIO.OpCodeI) : List (List GoIO.OpCodeI) :=
  let codes := if codes = [] then [⟨0, 0, 1, 0, 1⟩] else codes
  finalI ((fixLastI n (fixFirstI n codes)).foldl (gStep n) ([], []))

theorem opI_tag_zero (c : Difflib.OpCode) : (opI c).tag = 0 ↔ c.tag = 0 := by
  simp [opI]

theorem gStep_opI (n : Nat) (gs : List (List Difflib.OpCode)) (g : List Difflib.OpCode) (c : Difflib.OpCode) :
    gStep (n : Int) (gs.map (·.map opI), g.map opI) (opI c) =
      if c.tag = Difflib.opEqual ∧ n + n < c.i2 - c.i1 then
        ((gs ++ [g ++ [(⟨c.tag, c.i1, min c.i2 (c.i1 + n), c.j1, min c.j2 (c.j1 + n)⟩ : Difflib.OpCode)]]).map (fun x => x.map opI),
          ([⟨c.tag, max c.i1 (c.i2 - n), c.i2, max c.j1 (c.j2 - n), c.j2⟩] : List Difflib.OpCode).map opI)
      else (gs.map (fun x => x.map opI), (g ++ [c]).map opI) := by
  unfold gStep
  by_cases h : c.tag = Difflib.opEqual ∧ n + n < c.i2 - c.i1
  · have h' : (opI c).tag = 0 ∧ (opI c).i2 - (opI c).i1 > (n : Int) + n := by
      refine ⟨(opI_tag_zero c).2 h.1, ?_⟩; simp only [opI]; omega
    rw [if_pos h, if_pos h']
    clear h'
    simp only [opI, List.map_append, List.map_cons, List.map_nil, Prod.mk.injEq, List.append_cancel_left_eq,
      List.cons.injEq, and_true, GoIO.OpCodeI.mk.injEq, true_and]
    omega
  · have h' : ¬ ((opI c).tag = 0 ∧ (opI c).i2 - (opI c).i1 > (n : Int) + n) := by
      intro ⟨h1, h2⟩; apply h; refine ⟨(opI_tag_zero c).1 h1, ?_⟩; simp only [opI] at h2; omega
    rw [if_neg h, if_neg h']
    simp

theorem finalI_opI (gs : List (List Difflib.OpCode)) (g : List Difflib.OpCode) :
    finalI (gs.map (·.map opI), g.map opI) = (Difflib.groupLoop 0 [] gs g).map (·.map opI) := by
  unfold Difflib.groupLoop finalI
  match g with
  | [] => simp
  | [x] => by_cases h : x.tag = 0 <;> simp [h, opI_tag_zero, Difflib.opEqual]
  | x :: y :: r => simp

theorem groupLoop_nil_n (n : Nat) (gs : List (List Difflib.OpCode)) (g : List Difflib.OpCode) :
    Difflib.groupLoop n [] gs g = Difflib.groupLoop 0 [] gs g := by
  simp [Difflib.groupLoop]

/-- the fold of `gStep` over converted opcodes, closed by `finalI`, is the hand port's `groupLoop` -/
theorem foldl_gStep (n : Nat) (cs : List Difflib.OpCode) (gs : List (List Difflib.OpCode)) (g : List Difflib.OpCode) :
    finalI ((cs.map opI).foldl (gStep (n : Int)) (gs.map (·.map opI), g.map opI)) =
      (Difflib.groupLoop n cs gs g).map (·.map opI) := by
  induction cs generalizing gs g with
  | nil => rw [List.map_nil, List.foldl_nil, finalI_opI, groupLoop_nil_n n]
  | cons c cs ih =>
    rw [List.map_cons, List.foldl_cons, gStep_opI, Difflib.groupLoop]
    by_cases h : c.tag = Difflib.opEqual ∧ n + n < c.i2 - c.i1
    · rw [if_pos h, if_pos h, ih]
    · rw [if_neg h, if_neg h, ih]

theorem fixFirstI_opI (n : Nat) (l : List Difflib.OpCode) :
    fixFirstI (n : Int) (l.map opI) = (Difflib.fixFirst n l).map opI := by
  cases l with
  | nil => rfl
  | cons c cs =>
    simp only [List.map_cons, fixFirstI, Difflib.fixFirst, opI_tag_zero, Difflib.opEqual]
    by_cases h : c.tag = 0
    · simp only [h, if_true, List.map_cons, opI, List.cons.injEq, and_true, GoIO.OpCodeI.mk.injEq, true_and]
      omega
    · simp [h]

theorem fixLast_getLast (n : Nat) (l : List Difflib.OpCode) (c : Difflib.OpCode) (h : l.getLast? = some c) :
    Difflib.fixLast n l =
      if c.tag = Difflib.opEqual then l.dropLast ++ [⟨c.tag, c.i1, min c.i2 (c.i1 + n), c.j1, min c.j2 (c.j1 + n)⟩] else l := by
  induction l with
  | nil => simp at h
  | cons x xs ih =>
    cases xs with
    | nil =>
      simp at h; subst h
      simp [Difflib.fixLast]
    | cons y ys =>
      have h' : (y :: ys).getLast? = some c := by simpa [List.getLast?_cons_cons] using h
      rw [Difflib.fixLast, ih h']
      by_cases ht : c.tag = Difflib.opEqual <;> simp [ht]

theorem fixLastI_opI (n : Nat) (l : List Difflib.OpCode) :
    fixLastI (n : Int) (l.map opI) = (Difflib.fixLast n l).map opI := by
  unfold fixLastI
  cases hl : l.getLast? with
  | none =>
    have : l = [] := by simpa [List.getLast?_eq_none_iff] using hl
    subst this; rfl
  | some c =>
    rw [List.getLast?_map, hl, fixLast_getLast n l c hl]
    simp only [Option.map_some, opI_tag_zero, Difflib.opEqual]
    by_cases h : c.tag = 0
    · simp only [h, if_true, List.map_append, List.map_cons, List.map_nil, List.map_dropLast, opI,
        List.append_cancel_left_eq, List.cons.injEq, and_true, GoIO.OpCodeI.mk.injEq, true_and]
      omega
    · simp [h]

/-- the `int` closed form on converted opcodes is the hand port's `groupOpCodes` -/
theorem groupI_opI (n : Nat) (codes : List Difflib.OpCode) :
    groupI (n : Int) (codes.map opI) = (Difflib.groupOpCodes n codes).map (·.map opI) := by
  unfold groupI Difflib.groupOpCodes
  have e : (if codes.map opI = [] then [(⟨0, 0, 1, 0, 1⟩ : GoIO.OpCodeI)] else codes.map opI) =
      (if codes.length = 0 then [(⟨Difflib.opEqual, 0, 1, 0, 1⟩ : Difflib.OpCode)] else codes).map opI := by
    cases codes <;> simp [opI, Difflib.opEqual]
  simp only [e]
  rw [fixFirstI_opI, fixLastI_opI]
  exact foldl_gStep n _ [] []

/-! ### the monadic side -/

theorem index_zero_cons {α : Type} (c : α) (cs : List α) : GoSem.index (c :: cs) 0 = some c := by
  simp [GoSem.index]

theorem setIndex_zero_cons {α : Type} (c v : α) (cs : List α) : GoSem.setIndex (c :: cs) 0 v = some (v :: cs) := by
  simp [GoSem.setIndex]

theorem setIndex_last {α : Type} (l : List α) (v : α) (h : l ≠ []) :
    GoSem.setIndex l (GoSem.len l - 1) v = some (l.dropLast ++ [v]) := by
  have e := List.dropLast_concat_getLast h
  have := GoSem.setIndex_append_length l.dropLast (l.getLast h) v []
  rw [e] at this
  have hl : GoSem.len l - 1 = (l.dropLast.length : Int) := by
    simp [GoSem.len, List.length_dropLast]
    have : 0 < l.length := List.length_pos_iff.mpr h
    omega
  rw [hl, this]

theorem gStep_body (n : Int) (c : GoIO.OpCodeI) (st : List (List GoIO.OpCodeI) × List GoIO.OpCodeI) :
    (if (c.tag == 0 && decide (c.i2 - c.i1 > n + n)) = true then
        some (ForInStep.yield
          (st.fst ++ [st.snd ++ [{ tag := c.tag, i1 := c.i1, i2 := DifflibGen.min c.i2 (c.i1 + n), j1 := c.j1, j2 := DifflibGen.min c.j2 (c.j1 + n) }]],
            [] ++ [{ tag := c.tag, i1 := DifflibGen.max c.i1 (c.i2 - n), i2 := c.i2, j1 := DifflibGen.max c.j1 (c.j2 - n), j2 := c.j2 }]))
      else some (ForInStep.yield (st.fst, st.snd ++ [{ tag := c.tag, i1 := c.i1, i2 := c.i2, j1 := c.j1, j2 := c.j2 }])))
      = some (ForInStep.yield (gStep n st c)) := by
  unfold gStep
  by_cases h : c.tag = 0 ∧ c.i2 - c.i1 > n + n
  · have h' : (c.tag == 0 && decide (c.i2 - c.i1 > n + n)) = true := by simp [h.1]; exact h.2
    rw [if_pos h', if_pos h]; simp [min_eq, max_eq]
  · have h' : ¬ ((c.tag == 0 && decide (c.i2 - c.i1 > n + n)) = true) := by
      intro hh; simp at hh; exact h ⟨hh.1, hh.2⟩
    rw [if_neg h', if_neg h]

theorem final_body (st : List (List GoIO.OpCodeI) × List GoIO.OpCodeI) :
    ((if decide (GoSem.len st.snd > 0) = true then
        (if (GoSem.len st.snd == 1) = true then (GoSem.index st.snd 0).bind fun x => some (x.tag == 0) else some false).bind
          fun x => some !x
      else some false).bind fun x => if x = true then some (st.fst ++ [st.snd]) else some st.fst) = some (finalI st) := by
  obtain ⟨gs, g⟩ := st
  match g with
  | [] => simp [finalI, GoSem.len]
  | [x] => by_cases h : x.tag = 0 <;> simp [finalI, GoSem.len, GoSem.index, h]
  | x :: y :: r =>
    have h1 : (0 : Int) < (r.length : Int) + 1 + 1 := by omega
    have h2 : ¬ ((r.length : Int) + 1 + 1 = 1) := by omega
    simp [finalI, GoSem.len, h1, h2]

theorem forIn_gStep (n : Int) (l : List GoIO.OpCodeI) (st : List (List GoIO.OpCodeI) × List GoIO.OpCodeI) :
    forIn (m := Option) l st (fun c s => some (ForInStep.yield (gStep n s c))) = some (l.foldl (gStep n) st) :=
  forIn_opt_foldl l _ (gStep n) (fun _ _ => rfl) st

theorem last_stage {β : Type} (n : Int) (l : List GoIO.OpCodeI) (hl : l ≠ []) (K : List GoIO.OpCodeI → β) :
    (l.getLast?.bind fun x =>
      if (x.tag == 0) = true then
        l.getLast?.bind fun y =>
          (GoSem.setIndex l (GoSem.len l - 1)
            { tag := y.tag, i1 := y.i1, i2 := DifflibGen.min y.i2 (y.i1 + n), j1 := y.j1, j2 := DifflibGen.min y.j2 (y.j1 + n) }).bind
            fun l' => some (K l')
      else some (K l)) = some (K (fixLastI n l)) := by
  unfold fixLastI
  cases hx : l.getLast? with
  | none => exact absurd (List.getLast?_eq_none_iff.mp hx) hl
  | some x =>
    by_cases h : x.tag = 0
    · simp [h, setIndex_last l _ hl, min_eq]
    · simp [h]

/-- **closed form of GetGroupedOpCodes** (every fuel, every matcher, every opcode list, n ≥ 0): if the
    generated `getOpCodes` returns `codes`, the generated `GetGroupedOpCodes` returns `groupI n codes`
    (no panic: the index expressions are guarded by the replacement of an empty list) -/
theorem GetGroupedOpCodes_closed (fuel : Nat) (m m' : Matcher) (codes : List GoIO.OpCodeI) (n : Int) (hn : 0 ≤ n)
    (h : sequenceMatcher_getOpCodes fuel m = some (m', codes)) :
    sequenceMatcher_GetGroupedOpCodes fuel m n = some (groupI n codes) := by
  unfold sequenceMatcher_GetGroupedOpCodes
  have hn' : ¬ (n < 0) := by omega
  cases codes with
  | nil =>
    have hlen : (GoSem.len ([] : List GoIO.OpCodeI) == 0) = true := by simp [GoSem.len]
    simp only [h, hn', hlen, Option.bind_eq_bind, Option.bind_some, Option.pure_def, decide_false, Bool.false_eq_true, if_false,
      if_true, gStep_body, final_body, forIn_gStep, index_zero_cons, setIndex_zero_cons, GoSem.index_len_sub_one,
      beq_self_eq_true]
    rw [last_stage n _ (List.cons_ne_nil _ _) (fun l => finalI (List.foldl (gStep n) ([], []) l))]
    simp [groupI, fixFirstI, max_eq]
  | cons c cs =>
    have hlen : (GoSem.len (c :: cs) == 0) = false := by simp [GoSem.len]; omega
    simp only [h, hn', hlen, Option.bind_eq_bind, Option.bind_some, Option.pure_def, decide_false, Bool.false_eq_true, if_false,
      gStep_body, final_body, forIn_gStep, index_zero_cons, setIndex_zero_cons, GoSem.index_len_sub_one]
    by_cases h1 : c.tag = 0
    · simp only [h1, beq_self_eq_true, if_true]
      rw [last_stage n _ (List.cons_ne_nil _ _) (fun l => finalI (List.foldl (gStep n) ([], []) l))]
      simp [groupI, fixFirstI, h1, max_eq]
    · have h1' : (c.tag == 0) = false := by simpa using h1
      simp only [h1', Bool.false_eq_true, if_false]
      rw [last_stage n _ (List.cons_ne_nil _ _) (fun l => finalI (List.foldl (gStep n) ([], []) l))]
      simp [groupI, fixFirstI, h1]

/-- `if n < 0 { n = 3 }` -/
theorem GetGroupedOpCodes_neg (fuel : Nat) (m : Matcher) (n : Int) (hn : n < 0) :
    sequenceMatcher_GetGroupedOpCodes fuel m n = sequenceMatcher_GetGroupedOpCodes fuel m 3 := by
  unfold sequenceMatcher_GetGroupedOpCodes
  simp only [hn, decide_true, if_true]
  rfl

/-- **GetGroupedOpCodes agrees with the hand port, GIVEN that getOpCodes does** (n ≥ 0, as a `Nat`) -/
theorem GetGroupedOpCodes_agrees (fuel : Nat) (m m' : Matcher) (a b : List (List UInt8)) (n : Nat)
    (h : sequenceMatcher_getOpCodes fuel m = some (m', (Difflib.getOpCodes a b).map opI)) :
    sequenceMatcher_GetGroupedOpCodes fuel m (n : Int) = some ((Difflib.getGroupedOpCodes a b n).map (·.map opI)) := by
  rw [GetGroupedOpCodes_closed fuel m m' _ (n : Int) (by omega) h, groupI_opI]
  rfl

end GoSnaps.Tie.DifflibGen
