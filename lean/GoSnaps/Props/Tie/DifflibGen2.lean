/-
Tie, continued (see Props/Tie/DifflibGen.lean): statements for ALL inputs relating the transliteration
`GoSnaps.Generated.DifflibGen` of /repo/internal/difflib/difflib.go to the hand port `GoSnaps.Difflib`.

  5. GetGroupedOpCodes relative to getOpCodes (`GetGroupedOpCodes_agrees`)
  6. chainB / NewMatcher: the `b2j` map agrees with `Difflib.b2j` for every element (`NewMatcher_b2j_agrees`)
  7. findLongestMatch: the inner loop (`inner_sim`) and the outer loop (`outer_sim`) agree with the hand port's `inner` / `outer`;
     the two extension loops agree with `extBack` / `extFwd` within their iteration bounds (`back_sim`, `fwd_sim`); the assembly `findLongestMatch_agrees`
  8. getMatchingBlocks: the recursive closure (`matchBlocks_sim`, any fuel > ahi - alo), the collapse loop, `getMatchingBlocks_agrees`
  9. UNCONDITIONAL: `groupedOpCodes_agrees` — the generated NewMatcher(a, b).GetGroupedOpCodes(n) = the hand port, for all inputs
-/
import GoSnaps.Props.Tie.DifflibGen
import GoSnaps.Lemmas.Difflib
namespace GoSnaps.Tie.DifflibGen
open GoSnaps GoSnaps.Generated GoSnaps.Generated.DifflibGen

/-! ## 5. GetGroupedOpCodes -/

/-- one iteration of the grouping loop on the state (groups, group), with Go's `int` -/
def gStep (n : Int) (st : List (List GoIO.OpCodeI) × List GoIO.OpCodeI) (c : GoIO.OpCodeI) :
    List (List GoIO.OpCodeI) × List GoIO.OpCodeI :=
  if c.tag = 0 ∧ c.i2 - c.i1 > n + n then
    (st.1 ++ [st.2 ++ [⟨c.tag, c.i1, Min.min c.i2 (c.i1 + n), c.j1, Min.min c.j2 (c.j1 + n)⟩]],
      [⟨c.tag, Max.max c.i1 (c.i2 - n), c.i2, Max.max c.j1 (c.j2 - n), c.j2⟩])
  else (st.1, st.2 ++ [c])

/-- `if len(group) > 0 && !(len(group) == 1 && group[0].Tag == OpEqual) { groups = append(groups, group) }` -/
def finalI (st : List (List GoIO.OpCodeI) × List GoIO.OpCodeI) : List (List GoIO.OpCodeI) :=
  match st.2 with
  | [] => st.1
  | [x] => if x.tag = 0 then st.1 else st.1 ++ [st.2]
  | _ :: _ :: _ => st.1 ++ [st.2]

/-- `codes[0] = …` when the first opcode is an Equal -/
def fixFirstI (n : Int) : List GoIO.OpCodeI → List GoIO.OpCodeI
  | [] => []
  | c :: cs => if c.tag = 0 then ⟨c.tag, Max.max c.i1 (c.i2 - n), c.i2, Max.max c.j1 (c.j2 - n), c.j2⟩ :: cs else c :: cs

/-- `codes[len(codes)-1] = …` when the last opcode is an Equal -/
def fixLastI (n : Int) (l : List GoIO.OpCodeI) : List GoIO.OpCodeI :=
  match l.getLast? with
  | none => l
  | some c => if c.tag = 0 then l.dropLast ++ [⟨c.tag, c.i1, Min.min c.i2 (c.i1 + n), c.j1, Min.min c.j2 (c.j1 + n)⟩] else l

/-- the whole of `GetGroupedOpCodes` on an opcode list, with Go's `int` -/
def groupI (n : Int) (codes : List GoIO.OpCodeI) : List (List GoIO.OpCodeI) :=
  let codes := if codes = [] then [⟨0, 0, 1, 0, 1⟩] else codes
  finalI ((fixLastI n (fixFirstI n codes)).foldl (gStep n) ([], []))

theorem opI_tag_zero (c : Difflib.OpCode) : (opI c).tag = 0 ↔ c.tag = 0 := by
  simp [opI]

theorem gStep_opI (n : Nat) (gs : List (List Difflib.OpCode)) (g : List Difflib.OpCode) (c : Difflib.OpCode) :
    gStep (n : Int) (gs.map (·.map opI), g.map opI) (opI c) =
      if c.tag = Difflib.opEqual ∧ n + n < c.i2 - c.i1 then
        ((gs ++ [g ++ [(⟨c.tag, c.i1, min c.i2 (c.i1 + n), c.j1, min c.j2 (c.j1 + n)⟩ : Difflib.OpCode)]]).map (fun x => x.map opI),
          ([⟨c.tag, max c.i1 (c.i2 - n), c.i2, max c.j1 (c.j2 - n), c.j2⟩] : List Difflib.OpCode).map opI)
      else (gs.map (fun x => x.map opI), (g ++ [c]).map opI) := by
  unfold gStep
  by_cases h : c.tag = Difflib.opEqual ∧ n + n < c.i2 - c.i1
  · have h' : (opI c).tag = 0 ∧ (opI c).i2 - (opI c).i1 > (n : Int) + n := by
      refine ⟨(opI_tag_zero c).2 h.1, ?_⟩; simp only [opI]; omega
    rw [if_pos h, if_pos h']
    clear h'
    simp only [opI, List.map_append, List.map_cons, List.map_nil, Prod.mk.injEq, List.append_cancel_left_eq,
      List.cons.injEq, and_true, GoIO.OpCodeI.mk.injEq, true_and]
    omega
  · have h' : ¬ ((opI c).tag = 0 ∧ (opI c).i2 - (opI c).i1 > (n : Int) + n) := by
      intro ⟨h1, h2⟩; apply h; refine ⟨(opI_tag_zero c).1 h1, ?_⟩; simp only [opI] at h2; omega
    rw [if_neg h, if_neg h']
    simp

theorem finalI_opI (gs : List (List Difflib.OpCode)) (g : List Difflib.OpCode) :
    finalI (gs.map (·.map opI), g.map opI) = (Difflib.groupLoop 0 [] gs g).map (·.map opI) := by
  unfold Difflib.groupLoop finalI
  match g with
  | [] => simp
  | [x] => by_cases h : x.tag = 0 <;> simp [h, opI_tag_zero, Difflib.opEqual]
  | x :: y :: r => simp

theorem groupLoop_nil_n (n : Nat) (gs : List (List Difflib.OpCode)) (g : List Difflib.OpCode) :
    Difflib.groupLoop n [] gs g = Difflib.groupLoop 0 [] gs g := by
  simp [Difflib.groupLoop]

/-- the fold of `gStep` over converted opcodes, closed by `finalI`, is the hand port's `groupLoop` -/
theorem foldl_gStep (n : Nat) (cs : List Difflib.OpCode) (gs : List (List Difflib.OpCode)) (g : List Difflib.OpCode) :
    finalI ((cs.map opI).foldl (gStep (n : Int)) (gs.map (·.map opI), g.map opI)) =
      (Difflib.groupLoop n cs gs g).map (·.map opI) := by
  induction cs generalizing gs g with
  | nil => rw [List.map_nil, List.foldl_nil, finalI_opI, groupLoop_nil_n n]
  | cons c cs ih =>
    rw [List.map_cons, List.foldl_cons, gStep_opI, Difflib.groupLoop]
    by_cases h : c.tag = Difflib.opEqual ∧ n + n < c.i2 - c.i1
    · rw [if_pos h, if_pos h, ih]
    · rw [if_neg h, if_neg h, ih]

theorem fixFirstI_opI (n : Nat) (l : List Difflib.OpCode) :
    fixFirstI (n : Int) (l.map opI) = (Difflib.fixFirst n l).map opI := by
  cases l with
  | nil => rfl
  | cons c cs =>
    simp only [List.map_cons, fixFirstI, Difflib.fixFirst, opI_tag_zero, Difflib.opEqual]
    by_cases h : c.tag = 0
    · simp only [h, if_true, List.map_cons, opI, List.cons.injEq, and_true, GoIO.OpCodeI.mk.injEq, true_and]
      omega
    · simp [h]

theorem fixLast_getLast (n : Nat) (l : List Difflib.OpCode) (c : Difflib.OpCode) (h : l.getLast? = some c) :
    Difflib.fixLast n l =
      if c.tag = Difflib.opEqual then l.dropLast ++ [⟨c.tag, c.i1, min c.i2 (c.i1 + n), c.j1, min c.j2 (c.j1 + n)⟩] else l := by
  induction l with
  | nil => simp at h
  | cons x xs ih =>
    cases xs with
    | nil =>
      simp at h; subst h
      simp [Difflib.fixLast]
    | cons y ys =>
      have h' : (y :: ys).getLast? = some c := by simpa [List.getLast?_cons_cons] using h
      rw [Difflib.fixLast, ih h']
      by_cases ht : c.tag = Difflib.opEqual <;> simp [ht]

theorem fixLastI_opI (n : Nat) (l : List Difflib.OpCode) :
    fixLastI (n : Int) (l.map opI) = (Difflib.fixLast n l).map opI := by
  unfold fixLastI
  cases hl : l.getLast? with
  | none =>
    have : l = [] := by simpa [List.getLast?_eq_none_iff] using hl
    subst this; rfl
  | some c =>
    rw [List.getLast?_map, hl, fixLast_getLast n l c hl]
    simp only [Option.map_some, opI_tag_zero, Difflib.opEqual]
    by_cases h : c.tag = 0
    · simp only [h, if_true, List.map_append, List.map_cons, List.map_nil, List.map_dropLast, opI,
        List.append_cancel_left_eq, List.cons.injEq, and_true, GoIO.OpCodeI.mk.injEq, true_and]
      omega
    · simp [h]

/-- the `int` closed form on converted opcodes is the hand port's `groupOpCodes` -/
theorem groupI_opI (n : Nat) (codes : List Difflib.OpCode) :
    groupI (n : Int) (codes.map opI) = (Difflib.groupOpCodes n codes).map (·.map opI) := by
  unfold groupI Difflib.groupOpCodes
  have e : (if codes.map opI = [] then [(⟨0, 0, 1, 0, 1⟩ : GoIO.OpCodeI)] else codes.map opI) =
      (if codes.length = 0 then [(⟨Difflib.opEqual, 0, 1, 0, 1⟩ : Difflib.OpCode)] else codes).map opI := by
    cases codes <;> simp [opI, Difflib.opEqual]
  simp only [e]
  rw [fixFirstI_opI, fixLastI_opI]
  exact foldl_gStep n _ [] []

/-! ### the monadic side -/

theorem index_zero_cons {α : Type} (c : α) (cs : List α) : GoSem.index (c :: cs) 0 = some c := by
  simp [GoSem.index]

theorem setIndex_zero_cons {α : Type} (c v : α) (cs : List α) : GoSem.setIndex (c :: cs) 0 v = some (v :: cs) := by
  simp [GoSem.setIndex]

theorem setIndex_last {α : Type} (l : List α) (v : α) (h : l ≠ []) :
    GoSem.setIndex l (GoSem.len l - 1) v = some (l.dropLast ++ [v]) := by
  have e := List.dropLast_concat_getLast h
  have := GoSem.setIndex_append_length l.dropLast (l.getLast h) v []
  rw [e] at this
  have hl : GoSem.len l - 1 = (l.dropLast.length : Int) := by
    simp [GoSem.len, List.length_dropLast]
    have : 0 < l.length := List.length_pos_iff.mpr h
    omega
  rw [hl, this]

theorem gStep_body (n : Int) (c : GoIO.OpCodeI) (st : List (List GoIO.OpCodeI) × List GoIO.OpCodeI) :
    (if (c.tag == 0 && decide (c.i2 - c.i1 > n + n)) = true then
        some (ForInStep.yield
          (st.fst ++ [st.snd ++ [{ tag := c.tag, i1 := c.i1, i2 := DifflibGen.min c.i2 (c.i1 + n), j1 := c.j1, j2 := DifflibGen.min c.j2 (c.j1 + n) }]],
            [] ++ [{ tag := c.tag, i1 := DifflibGen.max c.i1 (c.i2 - n), i2 := c.i2, j1 := DifflibGen.max c.j1 (c.j2 - n), j2 := c.j2 }]))
      else some (ForInStep.yield (st.fst, st.snd ++ [{ tag := c.tag, i1 := c.i1, i2 := c.i2, j1 := c.j1, j2 := c.j2 }])))
      = some (ForInStep.yield (gStep n st c)) := by
  unfold gStep
  by_cases h : c.tag = 0 ∧ c.i2 - c.i1 > n + n
  · have h' : (c.tag == 0 && decide (c.i2 - c.i1 > n + n)) = true := by simp [h.1]; exact h.2
    rw [if_pos h', if_pos h]; simp [min_eq, max_eq]
  · have h' : ¬ ((c.tag == 0 && decide (c.i2 - c.i1 > n + n)) = true) := by
      intro hh; simp at hh; exact h ⟨hh.1, hh.2⟩
    rw [if_neg h', if_neg h]

theorem final_body (st : List (List GoIO.OpCodeI) × List GoIO.OpCodeI) :
    ((if decide (GoSem.len st.snd > 0) = true then
        (if (GoSem.len st.snd == 1) = true then (GoSem.index st.snd 0).bind fun x => some (x.tag == 0) else some false).bind
          fun x => some !x
      else some false).bind fun x => if x = true then some (st.fst ++ [st.snd]) else some st.fst) = some (finalI st) := by
  obtain ⟨gs, g⟩ := st
  match g with
  | [] => simp [finalI, GoSem.len]
  | [x] => by_cases h : x.tag = 0 <;> simp [finalI, GoSem.len, GoSem.index, h]
  | x :: y :: r =>
    have h1 : (0 : Int) < (r.length : Int) + 1 + 1 := by omega
    have h2 : ¬ ((r.length : Int) + 1 + 1 = 1) := by omega
    simp [finalI, GoSem.len, h1, h2]

theorem forIn_gStep (n : Int) (l : List GoIO.OpCodeI) (st : List (List GoIO.OpCodeI) × List GoIO.OpCodeI) :
    forIn (m := Option) l st (fun c s => some (ForInStep.yield (gStep n s c))) = some (l.foldl (gStep n) st) :=
  forIn_opt_foldl l _ (gStep n) (fun _ _ => rfl) st

theorem last_stage {β : Type} (n : Int) (l : List GoIO.OpCodeI) (hl : l ≠ []) (K : List GoIO.OpCodeI → β) :
    (l.getLast?.bind fun x =>
      if (x.tag == 0) = true then
        l.getLast?.bind fun y =>
          (GoSem.setIndex l (GoSem.len l - 1)
            { tag := y.tag, i1 := y.i1, i2 := DifflibGen.min y.i2 (y.i1 + n), j1 := y.j1, j2 := DifflibGen.min y.j2 (y.j1 + n) }).bind
            fun l' => some (K l')
      else some (K l)) = some (K (fixLastI n l)) := by
  unfold fixLastI
  cases hx : l.getLast? with
  | none => exact absurd (List.getLast?_eq_none_iff.mp hx) hl
  | some x =>
    by_cases h : x.tag = 0
    · simp [h, setIndex_last l _ hl, min_eq]
    · simp [h]

/-- **closed form of GetGroupedOpCodes** (every fuel, every matcher, every opcode list, n ≥ 0): if the
    generated `getOpCodes` returns `codes`, the generated `GetGroupedOpCodes` returns `groupI n codes`
    (no panic: the index expressions are guarded by the replacement of an empty list) -/
theorem GetGroupedOpCodes_closed (fuel : Nat) (m m' : Matcher) (codes : List GoIO.OpCodeI) (n : Int) (hn : 0 ≤ n)
    (h : sequenceMatcher_getOpCodes fuel m = some (m', codes)) :
    sequenceMatcher_GetGroupedOpCodes fuel m n = some (groupI n codes) := by
  unfold sequenceMatcher_GetGroupedOpCodes
  have hn' : ¬ (n < 0) := by omega
  cases codes with
  | nil =>
    have hlen : (GoSem.len ([] : List GoIO.OpCodeI) == 0) = true := by simp [GoSem.len]
    simp only [h, hn', hlen, Option.bind_eq_bind, Option.bind_some, Option.pure_def, decide_false, Bool.false_eq_true, if_false,
      if_true, gStep_body, final_body, forIn_gStep, index_zero_cons, setIndex_zero_cons, GoSem.index_len_sub_one,
      beq_self_eq_true]
    rw [last_stage n _ (List.cons_ne_nil _ _) (fun l => finalI (List.foldl (gStep n) ([], []) l))]
    simp [groupI, fixFirstI, max_eq]
  | cons c cs =>
    have hlen : (GoSem.len (c :: cs) == 0) = false := by simp [GoSem.len]; omega
    simp only [h, hn', hlen, Option.bind_eq_bind, Option.bind_some, Option.pure_def, decide_false, Bool.false_eq_true, if_false,
      gStep_body, final_body, forIn_gStep, index_zero_cons, setIndex_zero_cons, GoSem.index_len_sub_one]
    by_cases h1 : c.tag = 0
    · simp only [h1, beq_self_eq_true, if_true]
      rw [last_stage n _ (List.cons_ne_nil _ _) (fun l => finalI (List.foldl (gStep n) ([], []) l))]
      simp [groupI, fixFirstI, h1, max_eq]
    · have h1' : (c.tag == 0) = false := by simpa using h1
      simp only [h1', Bool.false_eq_true, if_false]
      rw [last_stage n _ (List.cons_ne_nil _ _) (fun l => finalI (List.foldl (gStep n) ([], []) l))]
      simp [groupI, fixFirstI, h1]

/-- `if n < 0 { n = 3 }` -/
theorem GetGroupedOpCodes_neg (fuel : Nat) (m : Matcher) (n : Int) (hn : n < 0) :
    sequenceMatcher_GetGroupedOpCodes fuel m n = sequenceMatcher_GetGroupedOpCodes fuel m 3 := by
  unfold sequenceMatcher_GetGroupedOpCodes
  simp only [hn, decide_true, if_true]
  rfl

/-- **GetGroupedOpCodes agrees with the hand port, GIVEN that getOpCodes does** (n ≥ 0, as a `Nat`) -/
theorem GetGroupedOpCodes_agrees (fuel : Nat) (m m' : Matcher) (a b : List (List UInt8)) (n : Nat)
    (h : sequenceMatcher_getOpCodes fuel m = some (m', (Difflib.getOpCodes a b).map opI)) :
    sequenceMatcher_GetGroupedOpCodes fuel m (n : Int) = some ((Difflib.getGroupedOpCodes a b n).map (·.map opI)) := by
  rw [GetGroupedOpCodes_closed fuel m m' _ (n : Int) (by omega) h, groupI_opI]
  rfl

/-! ## 6. chainB: b2j -/

section maps
variable {κ ν : Type} [DecidableEq κ]

theorem mapGet_mapSet (m : List (κ × ν)) (k x : κ) (v z : ν) :
    GoDiff.mapGet (GoDiff.mapSet m k v) x z = if k = x then v else GoDiff.mapGet m x z := by
  induction m with
  | nil => simp [GoDiff.mapSet, GoDiff.mapGet]
  | cons p r ih =>
    obtain ⟨k', v'⟩ := p
    by_cases h : k' = k
    · subst h; by_cases hx : k' = x <;> simp [GoDiff.mapSet, GoDiff.mapGet, hx]
    · by_cases hx : k' = x
      · subst hx; simp [GoDiff.mapSet, GoDiff.mapGet, h]; intro e; exact absurd e.symm h
      · simp [GoDiff.mapSet, GoDiff.mapGet, h, hx, ih]

theorem keys_mapSet (m : List (κ × ν)) (k : κ) (v : ν) :
    (GoDiff.mapSet m k v).map Prod.fst = if k ∈ m.map Prod.fst then m.map Prod.fst else m.map Prod.fst ++ [k] := by
  induction m with
  | nil => simp [GoDiff.mapSet]
  | cons p r ih =>
    obtain ⟨k', v'⟩ := p
    by_cases h : k' = k
    · subst h; simp [GoDiff.mapSet]
    · have h' : ¬ k = k' := fun e => h e.symm
      simp only [GoDiff.mapSet, h, if_false, List.map_cons, ih, List.mem_cons, h', false_or]
      split <;> simp

theorem nodup_mapSet (m : List (κ × ν)) (k : κ) (v : ν) (h : (m.map Prod.fst).Nodup) :
    ((GoDiff.mapSet m k v).map Prod.fst).Nodup := by
  rw [keys_mapSet]
  split
  · exact h
  · rename_i hk
    rw [List.nodup_append]
    refine ⟨h, by simp, ?_⟩
    intro a ha b hb
    simp at hb; subst hb
    intro e; subst e; exact hk ha

theorem mapGet_of_mem (m : List (κ × ν)) (h : (m.map Prod.fst).Nodup) (x : κ) (v z : ν) (hm : (x, v) ∈ m) :
    GoDiff.mapGet m x z = v := by
  induction m with
  | nil => simp at hm
  | cons p r ih =>
    obtain ⟨k', v'⟩ := p
    simp only [List.map_cons, List.nodup_cons] at h
    simp only [List.mem_cons, Prod.mk.injEq] at hm
    rcases hm with ⟨e1, e2⟩ | hm
    · subst e1 e2; simp [GoDiff.mapGet]
    · have : k' ≠ x := by
        intro e; subst e; exact h.1 (List.mem_map.mpr ⟨(k', v), hm, rfl⟩)
      simp [GoDiff.mapGet, this, ih h.2 hm]

theorem mapGet_of_not_key (m : List (κ × ν)) (x : κ) (z : ν) (h : x ∉ m.map Prod.fst) :
    GoDiff.mapGet m x z = z := by
  induction m with
  | nil => rfl
  | cons p r ih =>
    obtain ⟨k', v'⟩ := p
    simp only [List.map_cons, List.mem_cons, not_or] at h
    have : k' ≠ x := fun e => h.1 e.symm
    simp [GoDiff.mapGet, this, ih h.2]

theorem mapGet_mapDel (m : List (κ × ν)) (k x : κ) (z : ν) :
    GoDiff.mapGet (GoDiff.mapDel m k) x z = if x = k then z else GoDiff.mapGet m x z := by
  induction m with
  | nil => simp [GoDiff.mapDel, GoDiff.mapGet]
  | cons p r ih =>
    obtain ⟨k', v'⟩ := p
    unfold GoDiff.mapDel at ih ⊢
    by_cases h : k' = k
    · subst h
      simp only [List.filter_cons, decide_true, Bool.not_true, Bool.false_eq_true, if_false, ih]
      by_cases hx : x = k' <;> simp [GoDiff.mapGet, hx]
      intro e; exact absurd e.symm hx
    · simp only [List.filter_cons, h, decide_false, Bool.not_false, if_true, GoDiff.mapGet]
      by_cases hx : k' = x
      · subst hx; simp [h]
      · simp [hx, ih]

theorem mapGet_foldl_mapDel (ks : List κ) (m : List (κ × ν)) (x : κ) (z : ν) :
    GoDiff.mapGet (ks.foldl GoDiff.mapDel m) x z = if x ∈ ks then z else GoDiff.mapGet m x z := by
  induction ks generalizing m with
  | nil => simp
  | cons k r ih =>
    rw [List.foldl_cons, ih, mapGet_mapDel]
    by_cases h1 : x ∈ r <;> by_cases h2 : x = k <;> simp [h1, h2]

theorem mem_setAdd (s : List κ) (k x : κ) : x ∈ GoDiff.setAdd s k ↔ x ∈ s ∨ x = k := by
  unfold GoDiff.setAdd
  split
  · rename_i h; constructor
    · exact Or.inl
    · rintro (h' | h'); exact h'; subst h'; exact h
  · simp

end maps

/-- one iteration of the first loop of `chainB`: `b2j[elt] = append(b2j[elt], i)` -/
def buildStep (B : List (List UInt8 × List Int)) (p : Int × List UInt8) : List (List UInt8 × List Int) :=
  GoDiff.mapSet B p.2 (GoDiff.mapGet B p.2 [] ++ [p.1])

/-- one iteration of the loop collecting the popular elements -/
def popStep (nt : Int) (P : List (List UInt8)) (p : List UInt8 × List Int) : List (List UInt8) :=
  if GoSem.len p.2 > nt then GoDiff.setAdd P p.1 else P

theorem forIn_id_yield {α β : Type} (l : List α) (f : β → α → β) (init : β) :
    (forIn (m := Id) l init (fun x s => (ForInStep.yield (f s x) : Id (ForInStep β)))) = l.foldl f init := by
  induction l generalizing init with
  | nil => rfl
  | cons x xs ih => rw [List.forIn_cons]; exact ih _

theorem build_get (l : List (List UInt8)) (k : Nat) (init : List (List UInt8 × List Int)) (x : List UInt8) :
    GoDiff.mapGet ((GoSem.enumFrom (k : Int) l).foldl buildStep init) x [] =
      GoDiff.mapGet init x [] ++ (Difflib.indicesFrom x l k).map (fun (i : Nat) => (i : Int)) := by
  induction l generalizing k init with
  | nil => simp [GoSem.enumFrom, Difflib.indicesFrom]
  | cons y ys ih =>
    have e : ((k : Int) + 1) = ((k + 1 : Nat) : Int) := by omega
    rw [GoSem.enumFrom, List.foldl_cons, e, ih, Difflib.indicesFrom]
    simp only [buildStep, mapGet_mapSet]
    by_cases h : y = x <;> simp [h]

theorem build_nodup (l : List (List UInt8)) (k : Int) (init : List (List UInt8 × List Int))
    (h : (init.map Prod.fst).Nodup) : (((GoSem.enumFrom k l).foldl buildStep init).map Prod.fst).Nodup := by
  induction l generalizing k init with
  | nil => simpa [GoSem.enumFrom] using h
  | cons y ys ih => rw [GoSem.enumFrom, List.foldl_cons]; exact ih _ _ (nodup_mapSet _ _ _ h)

theorem mem_popular (nt : Int) (B : List (List UInt8 × List Int)) (P : List (List UInt8)) (x : List UInt8) :
    x ∈ B.foldl (popStep nt) P ↔ x ∈ P ∨ ∃ idx, (x, idx) ∈ B ∧ GoSem.len idx > nt := by
  induction B generalizing P with
  | nil => simp
  | cons p r ih =>
    obtain ⟨s, idx⟩ := p
    rw [List.foldl_cons, ih]
    unfold popStep
    by_cases h : GoSem.len idx > nt
    · simp only [h, if_true, mem_setAdd, List.mem_cons, Prod.mk.injEq]
      constructor
      · rintro ((h1 | h1) | ⟨i, h1, h2⟩)
        · exact Or.inl h1
        · exact Or.inr ⟨idx, Or.inl ⟨h1, rfl⟩, h⟩
        · exact Or.inr ⟨i, Or.inr h1, h2⟩
      · rintro (h1 | ⟨i, (⟨e1, e2⟩ | h1), h2⟩)
        · exact Or.inl (Or.inl h1)
        · exact Or.inl (Or.inr e1)
        · exact Or.inr ⟨i, h1, h2⟩
    · simp only [h, if_false, List.mem_cons, Prod.mk.injEq]
      constructor
      · rintro (h1 | ⟨i, h1, h2⟩)
        · exact Or.inl h1
        · exact Or.inr ⟨i, Or.inr h1, h2⟩
      · rintro (h1 | ⟨i, (⟨e1, e2⟩ | h1), h2⟩)
        · exact Or.inl h1
        · subst e2; exact absurd h2 h
        · exact Or.inr ⟨i, h1, h2⟩

/-- with distinct keys and a non-negative threshold: some entry of key x is longer than nt iff `B[x]` is -/
theorem popular_iff (nt : Int) (hnt : 0 ≤ nt) (B : List (List UInt8 × List Int)) (hB : (B.map Prod.fst).Nodup) (x : List UInt8) :
    (∃ idx, (x, idx) ∈ B ∧ GoSem.len idx > nt) ↔ GoSem.len (GoDiff.mapGet B x []) > nt := by
  constructor
  · rintro ⟨idx, h1, h2⟩; rw [mapGet_of_mem B hB x idx [] h1]; exact h2
  · intro h
    by_cases hk : x ∈ B.map Prod.fst
    · obtain ⟨⟨k, idx⟩, hm, e⟩ := List.mem_map.mp hk
      simp only at e; subst e
      refine ⟨idx, hm, ?_⟩
      rw [mapGet_of_mem B hB k idx [] hm] at h; exact h
    · rw [mapGet_of_not_key B x [] hk] at h
      simp [GoSem.len] at h; omega

/-- the `b2j` field `chainB` computes from `b` -/
def chainB_b2j (b : List (List UInt8)) : List (List UInt8 × List Int) :=
  let B := (GoSem.enum b).foldl buildStep []
  if GoSem.len b ≥ 200 then (B.foldl (popStep ((GoSem.len b).tdiv 100 + 1)) []).foldl GoDiff.mapDel B else B

theorem chainB_fields (m : Matcher) :
    (sequenceMatcher_chainB m).b2j = chainB_b2j m.b ∧ (sequenceMatcher_chainB m).a = m.a ∧
      (sequenceMatcher_chainB m).b = m.b ∧ (sequenceMatcher_chainB m).bJunk = [] ∧
      (sequenceMatcher_chainB m).matchingBlocks = m.matchingBlocks ∧ (sequenceMatcher_chainB m).opCodes = m.opCodes := by
  unfold sequenceMatcher_chainB chainB_b2j
  simp only [Id.run, bind, pure, Bool.true_and]
  have e1 : ∀ (B : List (List UInt8 × List Int)),
      (forIn (m := Id) (GoSem.enum m.b) B fun x __s =>
        (ForInStep.yield (GoDiff.mapSet __s x.snd (GoDiff.mapGet __s x.snd [] ++ [x.fst])) : Id _)) =
      (GoSem.enum m.b).foldl buildStep B := fun B => forIn_id_yield _ buildStep B
  have e2 : ∀ (nt : Int) (B : List (List UInt8 × List Int)) (P : List (List UInt8)),
      (forIn (m := Id) B P fun x __s =>
        if decide (GoSem.len x.snd > nt) = true then (ForInStep.yield (GoDiff.setAdd __s x.fst) : Id _)
        else ForInStep.yield __s) = B.foldl (popStep nt) P := by
    intro nt B P
    rw [← forIn_id_yield B (popStep nt) P]
    congr 1; funext x s; unfold popStep
    by_cases h : GoSem.len x.snd > nt <;> simp [h]
  have e3 : ∀ (P : List (List UInt8)) (B : List (List UInt8 × List Int)),
      (forIn (m := Id) P B fun s __s => (ForInStep.yield (GoDiff.mapDel __s s) : Id _)) = P.foldl GoDiff.mapDel B :=
    fun P B => forIn_id_yield P GoDiff.mapDel B
  by_cases h : GoSem.len m.b ≥ 200
  · simp only [h, decide_true, if_true, e1, e2, e3, and_self]
  · simp only [h, decide_false, Bool.false_eq_true, if_false, e1, and_self]

/-- **chainB's b2j agrees with the hand port for every element** (including the popularity purge) -/
theorem chainB_b2j_agrees (b : List (List UInt8)) (x : List UInt8) :
    GoDiff.mapGet (chainB_b2j b) x [] = (Difflib.b2j b x).map (fun (i : Nat) => (i : Int)) := by
  unfold chainB_b2j Difflib.b2j
  have hget : ∀ y, GoDiff.mapGet ((GoSem.enum b).foldl buildStep []) y [] =
      (Difflib.indicesFrom y b 0).map (fun (i : Nat) => (i : Int)) := by
    intro y
    have := build_get b 0 [] y
    simpa [GoSem.enum, GoDiff.mapGet] using this
  have hnd := build_nodup b 0 [] (by simp)
  rw [show (GoSem.enumFrom 0 b) = GoSem.enum b from rfl] at hnd
  simp only []
  by_cases h200 : GoSem.len b ≥ 200
  · have h200' : 200 ≤ b.length := by simp [GoSem.len] at h200; omega
    have hnt : (GoSem.len b).tdiv 100 + 1 = ((b.length / 100 + 1 : Nat) : Int) := by
      simp [GoSem.len]
    have hmem : x ∈ ((GoSem.enum b).foldl buildStep []).foldl (popStep ((GoSem.len b).tdiv 100 + 1)) [] ↔
        ((Difflib.indicesFrom x b 0).length : Int) > ((b.length / 100 + 1 : Nat) : Int) := by
      rw [mem_popular, popular_iff _ (by rw [hnt]; omega) _ hnd, hget, hnt]
      simp [GoSem.len]
    simp only [h200, if_true, mapGet_foldl_mapDel, h200', true_and]
    by_cases hp : b.length / 100 + 1 < (Difflib.indicesFrom x b 0).length
    · rw [if_pos (hmem.mpr (by omega)), if_pos hp]; rfl
    · rw [if_neg (fun hh => hp (by have := hmem.mp hh; omega)), if_neg hp, hget]
  · have h200' : ¬ 200 ≤ b.length := by simp [GoSem.len] at h200; omega
    simp only [h200, if_false, hget, h200', false_and]

/-- the fields of the matcher `NewMatcher(a, b)` builds -/
theorem NewMatcher_fields (a b : List (List UInt8)) :
    (NewMatcher a b).b2j = chainB_b2j b ∧ (NewMatcher a b).a = a ∧ (NewMatcher a b).b = b ∧
      (NewMatcher a b).bJunk = [] ∧ (NewMatcher a b).matchingBlocks = none ∧ (NewMatcher a b).opCodes = none := by
  unfold NewMatcher sequenceMatcher_setSeqs sequenceMatcher_setSeq2 sequenceMatcher_setSeq1
  simp only [Id.run, bind, pure]
  obtain ⟨h1, h2, h3, h4, h5, h6⟩ := chainB_fields
    { a := a, b := b, matchingBlocks := none, opCodes := none, fullBCount := [] }
  exact ⟨h1, h2, h3, h4, h5, h6⟩

/-- **after `NewMatcher(a, b)` the generated `b2j` map agrees with the hand port's `b2j` for every element** -/
theorem NewMatcher_b2j_agrees (a b : List (List UInt8)) (x : List UInt8) :
    GoDiff.mapGet (NewMatcher a b).b2j x [] = (Difflib.b2j b x).map (fun (i : Nat) => (i : Int)) := by
  rw [(NewMatcher_fields a b).1, chainB_b2j_agrees]

/-! ## 7. findLongestMatch -/

/-- a loop whose body cannot panic, with `break` (`done`) and `continue` (`yield`) -/
def runSteps {α σ : Type} (g : σ → α → ForInStep σ) : List α → σ → σ
  | [], s => s
  | x :: xs, s => match g s x with
    | .done s' => s'
    | .yield s' => runSteps g xs s'

theorem forIn_opt_steps {α σ : Type} (l : List α) (F : α → σ → Option (ForInStep σ)) (g : σ → α → ForInStep σ)
    (hF : ∀ x s, F x s = some (g s x)) (s : σ) : forIn (m := Option) l s F = some (runSteps g l s) := by
  induction l generalizing s with
  | nil => rfl
  | cons x xs ih =>
    rw [List.forIn_cons, hF]
    simp only [Option.bind_eq_bind, Option.bind_some, runSteps]
    cases g s x with
    | done s' => rfl
    | yield s' => exact ih s'

/-- the generated `map[int]int` against the hand port's association list with default 0 -/
def R (mI : List (Int × Int)) (m : List (Nat × Nat)) : Prop :=
  ∀ x : Int, GoDiff.mapGet mI x 0 = if x < 0 then 0 else ((Difflib.look m x.toNat : Nat) : Int)

theorem R_nil : R [] [] := by intro x; simp [GoDiff.mapGet, Difflib.look]

theorem R_set {mI : List (Int × Int)} {m : List (Nat × Nat)} (h : R mI m) (j k : Nat) :
    R (GoDiff.mapSet mI (j : Int) (k : Int)) ((j, k) :: m) := by
  intro x
  rw [mapGet_mapSet, h x]
  by_cases hx : x < 0
  · have : ¬ ((j : Int) = x) := by omega
    simp [hx, this]
  · by_cases hj : (j : Int) = x
    · subst hj
      have h0 : ¬ ((j : Int) < 0) := by omega
      simp [Difflib.look, h0]
    · have : ¬ j = x.toNat := by omega
      simp [hx, hj, Difflib.look, this]

abbrev FSt := Int × Int × Int × List (Int × Int)

def stI (best : Difflib.Match) (nwI : List (Int × Int)) : FSt := ((best.i : Int), (best.j : Int), (best.k : Int), nwI)

/-- the body of the inner loop of `findLongestMatch` -/
def innerStepI (blo bhi i : Int) (jl : List (Int × Int)) (s : FSt) (j : Int) : ForInStep FSt :=
  if j < blo then .yield s
  else if j ≥ bhi then .done s
  else if GoDiff.mapGet jl (j - 1) 0 + 1 > s.2.2.1 then
    .yield (i - (GoDiff.mapGet jl (j - 1) 0 + 1) + 1, j - (GoDiff.mapGet jl (j - 1) 0 + 1) + 1,
      GoDiff.mapGet jl (j - 1) 0 + 1, GoDiff.mapSet s.2.2.2 j (GoDiff.mapGet jl (j - 1) 0 + 1))
  else .yield (s.1, s.2.1, s.2.2.1, GoDiff.mapSet s.2.2.2 j (GoDiff.mapGet jl (j - 1) 0 + 1))

/-- **the inner loop agrees with the hand port's `inner`** (the bounds on `j2len` hold by `Difflib.look_ok`) -/
theorem inner_sim (blo bhi i : Nat) (j2len : List (Nat × Nat)) (jl : List (Int × Int)) (hR : R jl j2len)
    (hb : ∀ j', Difflib.look j2len j' ≤ i ∧ Difflib.look j2len j' ≤ j' + 1)
    (js : List Nat) (nw : List (Nat × Nat)) (nwI : List (Int × Int)) (hnw : R nwI nw) (best : Difflib.Match) :
    ∃ nwI', runSteps (innerStepI blo bhi i jl) (js.map (fun (j : Nat) => (j : Int))) (stI best nwI) =
        stI (Difflib.inner blo bhi i j2len js nw best).2 nwI' ∧ R nwI' (Difflib.inner blo bhi i j2len js nw best).1 := by
  induction js generalizing nw nwI best with
  | nil => exact ⟨nwI, rfl, hnw⟩
  | cons j js ih =>
    rw [List.map_cons, runSteps, Difflib.inner]
    by_cases h1 : j < blo
    · have h1' : (j : Int) < blo := by omega
      simp only [innerStepI, h1', if_true, h1]
      exact ih nw nwI hnw best
    · have h1' : ¬ ((j : Int) < blo) := by omega
      by_cases h2 : bhi ≤ j
      · have h2' : (j : Int) ≥ bhi := by omega
        simp only [innerStepI, h1', if_false, h2', if_true, h1, h2]
        exact ⟨nwI, rfl, hnw⟩
      · have h2' : ¬ ((j : Int) ≥ bhi) := by omega
        -- k
        have hk : GoDiff.mapGet jl ((j : Int) - 1) 0 + 1 =
            (((if j = 0 then 0 else Difflib.look j2len (j - 1)) + 1 : Nat) : Int) := by
          rw [hR]
          by_cases hj : j = 0
          · subst hj; simp
          · have : ¬ ((j : Int) - 1 < 0) := by omega
            have e : ((j : Int) - 1).toNat = j - 1 := by omega
            simp [this, e, hj]
        have hkb : (if j = 0 then 0 else Difflib.look j2len (j - 1)) + 1 ≤ i + 1 ∧
            (if j = 0 then 0 else Difflib.look j2len (j - 1)) + 1 ≤ j + 1 := by
          by_cases hj : j = 0
          · simp [hj]
          · have := hb (j - 1); simp only [hj, if_false]; omega
        simp only [innerStepI, h1', if_false, h2', h1, h2, hk]
        generalize (if j = 0 then 0 else Difflib.look j2len (j - 1)) + 1 = k at hkb ⊢
        by_cases h3 : best.k < k
        · have h3' : (k : Int) > (stI best nwI).2.2.1 := by simp only [stI]; omega
          simp only [h3', if_true, h3]
          have e : (((i : Int) - k + 1, (j : Int) - k + 1, (k : Int), GoDiff.mapSet (stI best nwI).2.2.2 j k) : FSt) =
              stI ⟨i + 1 - k, j + 1 - k, k⟩ (GoDiff.mapSet nwI j k) := by
            simp only [stI]; refine Prod.ext ?_ (Prod.ext ?_ rfl) <;> simp <;> omega
          rw [e]
          exact ih _ _ (R_set hnw j k) _
        · have h3' : ¬ ((k : Int) > (stI best nwI).2.2.1) := by simp only [stI]; omega
          simp only [h3', if_false, h3]
          exact ih _ _ (R_set hnw j k) _

theorem look_bounds {a b : List (List UInt8)} {alo blo bhi i : Nat} {j2len : List (Nat × Nat)} (hi : alo ≤ i)
    (hprev : i = alo → j2len = []) (hm : 1 ≤ i → Difflib.MapOK a b alo blo bhi (i - 1) j2len) (j' : Nat) :
    Difflib.look j2len j' ≤ i ∧ Difflib.look j2len j' ≤ j' + 1 := by
  by_cases h0 : 1 ≤ i
  · rcases Difflib.look_ok (hm h0) j' with h | h
    · omega
    · obtain ⟨h1, _, h3, _⟩ := h; omega
  · have : j2len = [] := hprev (by omega)
    subst this; simp [Difflib.look]

/-- **the outer loop agrees with the hand port's `outer`**, for an arbitrary body `F` that, where `a[i]`
    exists, runs the inner loop over `b2j[a[i]]` from an empty `newj2len` and stores it in `j2len` -/
theorem outer_sim (a b : List (List UInt8)) (alo ahi blo bhi : Nat) (hahi : ahi ≤ a.length)
    (F : Int → FSt → Option (ForInStep FSt))
    (hF : ∀ (i : Nat) (x : List UInt8) (s : FSt), a[i]? = some x →
      F (i : Int) s = some (ForInStep.yield (runSteps (innerStepI blo bhi i s.2.2.2)
        ((Difflib.b2j b x).map (fun (j : Nat) => (j : Int))) (s.1, s.2.1, s.2.2.1, [])))) :
    ∀ (n i : Nat) (j2len : List (Nat × Nat)) (best : Difflib.Match) (jl : List (Int × Int)),
      i + n = ahi → alo ≤ i → (i = alo → j2len = []) →
      (1 ≤ i → Difflib.MapOK a b alo blo bhi (i - 1) j2len) →
      Difflib.BestOK a b alo ahi blo bhi best → R jl j2len →
      ∃ jl', forIn (m := Option) (GoSem.intRangeAux (i : Int) n) (stI best jl) F =
        some (stI (Difflib.outer a b blo bhi n i j2len best) jl') := by
  intro n
  induction n with
  | zero => intro i j2len best jl _ _ _ _ _ _; exact ⟨jl, rfl⟩
  | succ n ih =>
    intro i j2len best jl hin hi hprev hm hb hR
    have hlt : i < a.length := by omega
    obtain ⟨x, hx⟩ : ∃ x, a[i]? = some x := ⟨a[i], by simp [hlt]⟩
    rw [GoSem.intRangeAux, List.forIn_cons, hF i x _ hx]
    simp only [Option.bind_eq_bind, Option.bind_some, Difflib.outer, hx]
    obtain ⟨nwI', e, hR'⟩ := inner_sim blo bhi i j2len jl hR (look_bounds hi hprev hm) (Difflib.b2j b x) [] [] R_nil best
    have e' : runSteps (innerStepI blo bhi i (stI best jl).2.2.2) ((Difflib.b2j b x).map (fun (j : Nat) => (j : Int)))
        ((stI best jl).1, (stI best jl).2.1, (stI best jl).2.2.1, []) =
        stI (Difflib.inner blo bhi i j2len (Difflib.b2j b x) [] best).2 nwI' := e
    rw [e']
    have h := Difflib.inner_ok (ahi := ahi) hi (by omega) hx j2len hprev hm (Difflib.b2j b x)
      (fun j hj => Difflib.b2j_mem hj) [] (by intro p hp; simp at hp) best hb
    have ec : ((i : Int) + 1) = ((i + 1 : Nat) : Int) := by omega
    rw [ec]
    exact ih (i + 1) _ _ nwI' (by omega) (by omega) (by omega) (fun _ => by simpa using h.1) h.2 hR'

abbrev BSt := Int × Int × Int × Bool

/-- **the first extension loop agrees with the hand port's `extBack`** and leaves through its condition
    (flag `true`) within `besti - alo + 1` iterations, for an arbitrary body that behaves like the Go one
    on states inside the sequences -/
theorem back_sim (a b : List (List UInt8)) (alo blo : Nat) (F : Unit → BSt → Option (ForInStep BSt))
    (hF : ∀ (i j k : Nat), i ≤ a.length → j ≤ b.length → F () ((i : Int), (j : Int), (k : Int), false) =
      some (if alo < i ∧ blo < j ∧ Difflib.eqAt a b (i - 1) (j - 1) = true
        then ForInStep.yield (((i - 1 : Nat) : Int), ((j - 1 : Nat) : Int), ((k + 1 : Nat) : Int), false)
        else ForInStep.done ((i : Int), (j : Int), (k : Int), true))) :
    ∀ (fuel i j k : Nat), i ≤ a.length → j ≤ b.length → i - alo < fuel →
      forIn (m := Option) (GoDiff.fuelList fuel) ((i : Int), (j : Int), (k : Int), false) F =
        some (((Difflib.extBack a b alo blo i j k).i : Int), ((Difflib.extBack a b alo blo i j k).j : Int),
          ((Difflib.extBack a b alo blo i j k).k : Int), true) := by
  intro fuel
  induction fuel with
  | zero => intro i j k _ _ h; omega
  | succ fuel ih =>
    intro i j k hi hj hf
    rw [GoDiff.fuelList, List.replicate_succ, List.forIn_cons, hF i j k hi hj]
    cases i with
    | zero => simp [Difflib.extBack]
    | succ i =>
      rw [Difflib.extBack]
      by_cases hc : alo < i + 1 ∧ blo < j ∧ Difflib.eqAt a b i (j - 1) = true
      · have hc' : alo < i + 1 ∧ blo < j ∧ Difflib.eqAt a b (i + 1 - 1) (j - 1) = true := by simpa using hc
        rw [if_pos hc', if_pos hc]
        simp only [Option.bind_eq_bind, Option.bind_some]
        have := ih i (j - 1) (k + 1) (by omega) (by omega) (by omega)
        simpa [GoDiff.fuelList] using this
      · have hc' : ¬ (alo < i + 1 ∧ blo < j ∧ Difflib.eqAt a b (i + 1 - 1) (j - 1) = true) := by simpa using hc
        rw [if_neg hc', if_neg hc]
        rfl

/-- **the second extension loop agrees with the hand port's `extFwd`** -/
theorem fwd_sim (a b : List (List UInt8)) (ahi bhi i j : Nat) (F : Unit → Int × Bool → Option (ForInStep (Int × Bool)))
    (hF : ∀ (k : Nat), F () ((k : Int), false) =
      some (if i + k < ahi ∧ j + k < bhi ∧ Difflib.eqAt a b (i + k) (j + k) = true
        then ForInStep.yield (((k + 1 : Nat) : Int), false) else ForInStep.done ((k : Int), true))) :
    ∀ (fuel k : Nat), ahi - (i + k) < fuel →
      forIn (m := Option) (GoDiff.fuelList fuel) ((k : Int), false) F =
        some (((Difflib.extFwd a b ahi bhi i j k : Nat) : Int), true) := by
  intro fuel
  induction fuel with
  | zero => intro k h; omega
  | succ fuel ih =>
    intro k hf
    rw [GoDiff.fuelList, List.replicate_succ, List.forIn_cons, hF k, Difflib.extFwd]
    by_cases hc : i + k < ahi ∧ j + k < bhi ∧ Difflib.eqAt a b (i + k) (j + k) = true
    · rw [if_pos hc, if_pos hc]
      simp only [Option.bind_eq_bind, Option.bind_some]
      have := ih (k + 1) (by omega)
      simpa [GoDiff.fuelList] using this
    · rw [if_neg hc, if_neg hc]
      rfl

/-- a bounded loop whose first iteration leaves -/
theorem forIn_fuel_done {σ : Type} (n : Nat) (s s' : σ) (F : Unit → σ → Option (ForInStep σ))
    (h : F () s = some (ForInStep.done s')) : forIn (m := Option) (GoDiff.fuelList (n + 1)) s F = some s' := by
  rw [GoDiff.fuelList, List.replicate_succ, List.forIn_cons, h]; rfl

theorem bind_of_exists {ι σ τ : Type} {x : Option σ} {K : σ → Option τ} {r : Option τ} (X : ι → σ)
    (h : ∃ j, x = some (X j)) (hk : ∀ j, K (X j) = r) : x.bind K = r := by
  obtain ⟨j, e⟩ := h; rw [e]; exact hk j

theorem bind_of_eq {σ τ : Type} {x : Option σ} {K : σ → Option τ} {r : Option τ} (v : σ)
    (h : x = some v) (hk : K v = r) : x.bind K = r := by rw [h]; exact hk

theorem index_pred {α : Type} (l : List α) (i : Nat) (h1 : 1 ≤ i) : GoSem.index l ((i : Int) - 1) = l[i - 1]? := by
  have : ((i : Int) - 1) = ((i - 1 : Nat) : Int) := by omega
  rw [this, GoSem.index_ofNat]

theorem index_add {α : Type} (l : List α) (i k : Nat) : GoSem.index l ((i : Int) + (k : Int)) = l[i + k]? := by
  have : ((i : Int) + (k : Int)) = ((i + k : Nat) : Int) := by omega
  rw [this, GoSem.index_ofNat]

theorem eqAt_some (a b : List (List UInt8)) (i j : Nat) (x y : List UInt8) (hx : a[i]? = some x) (hy : b[j]? = some y) :
    Difflib.eqAt a b i j = (x == y) := by
  simp [Difflib.eqAt, hx, hy]
  by_cases h : x = y <;> simp [h]

/-- **findLongestMatch agrees with the hand port** under the call pre-condition, for every matcher whose
    sequences are `a`, `b`, whose `b2j` answers like `Difflib.b2j b` and whose junk set is empty (what
    `NewMatcher a b` builds: `NewMatcher_fields`, `NewMatcher_b2j_agrees`); no panic, no bound hit -/
theorem findLongestMatch_agrees (m : Matcher) (a b : List (List UInt8)) (hma : m.a = a) (hmb : m.b = b)
    (hb2j : ∀ x, GoDiff.mapGet m.b2j x [] = (Difflib.b2j b x).map (fun (i : Nat) => (i : Int))) (hj : m.bJunk = [])
    (alo ahi blo bhi : Nat) (h1 : alo ≤ ahi) (h2 : ahi ≤ a.length) (h3 : blo ≤ bhi) (h4 : bhi ≤ b.length) :
    sequenceMatcher_findLongestMatch m alo ahi blo bhi = some (mI (Difflib.findLongestMatch a b alo ahi blo bhi)) := by
  unfold sequenceMatcher_findLongestMatch
  have hgt : ¬ ((alo : Int) > ahi) := by omega
  have hr : GoSem.intRange (alo : Int) (ahi : Int) = GoSem.intRangeAux (alo : Int) (ahi - alo) := by
    unfold GoSem.intRange; congr 1; omega
  have hnr : ∀ {τ : Type} (K : PUnit.{1} → Option τ), GoDiff.noReturn.bind K = none := fun _ => rfl
  simp only [hgt, hr, hnr, sequenceMatcher_isBJunk, hj, hma, hmb, GoDiff.setHas, Id.run, Option.bind_eq_bind, Option.bind_some,
    Option.pure_def, decide_false, Bool.false_eq_true, if_false, List.not_mem_nil, pure, Bool.not_false, Bool.not_true]
  have h0 : Difflib.BestOK a b alo ahi blo bhi ⟨alo, blo, 0⟩ :=
    ⟨Nat.le_refl _, by simpa using h1, Nat.le_refl _, by simpa using h3, fun t ht => absurd ht (Nat.not_lt_zero _)⟩
  have hA := Difflib.outer_ok (a := a) (b := b) (alo := alo) (blo := blo) (bhi := bhi) h2
    (ahi - alo) alo [] ⟨alo, blo, 0⟩ (by omega) (Nat.le_refl _) (fun _ => rfl) (by intro _ p hp; simp at hp) h0
  refine bind_of_exists (fun jl' => stI (Difflib.outer a b blo bhi (ahi - alo) alo [] ⟨alo, blo, 0⟩) jl')
    (outer_sim a b alo ahi blo bhi h2 _ ?hF (ahi - alo) alo [] ⟨alo, blo, 0⟩ [] (by omega) (Nat.le_refl _) (fun _ => rfl)
      (by intro _ p hp; simp at hp) h0 R_nil) ?cont
  case hF =>
    intro i x s hx
    simp only [GoSem.index_ofNat, hx, Option.bind_some, hb2j]
    rw [forIn_opt_steps _ _ (innerStepI blo bhi i s.2.2.2)]
    · rfl
    · intro j st
      unfold innerStepI
      by_cases c1 : j < (blo : Int) <;> by_cases c2 : j ≥ (bhi : Int) <;>
        by_cases c3 : GoDiff.mapGet s.2.2.2 (j - 1) 0 + 1 > st.2.2.1 <;> simp [c1, c2, c3]
  case cont =>
    intro jl'
    have hflm : Difflib.findLongestMatch a b alo ahi blo bhi =
        (let best0 := Difflib.outer a b blo bhi (ahi - alo) alo [] ⟨alo, blo, 0⟩
         let best1 := Difflib.extBack a b alo blo best0.i best0.j best0.k
         ⟨best1.i, best1.j, Difflib.extFwd a b ahi bhi best1.i best1.j best1.k⟩) := rfl
    rw [hflm]
    generalize Difflib.outer a b blo bhi (ahi - alo) alo [] ⟨alo, blo, 0⟩ = best0 at hA ⊢
    obtain ⟨bi, bj, bk⟩ := best0
    have hB := Difflib.extBack_ok bi bj bk hA
    simp only [stI]
    have hbi : bi ≤ a.length := by have := hA.2.1; simp only at this; omega
    have hbj : bj ≤ b.length := by have := hA.2.2.2.1; simp only at this; omega
    refine bind_of_eq _ (back_sim a b alo blo _ ?hFb _ bi bj bk hbi hbj (by omega)) ?cont2
    case hFb =>
      intro i j k hi hj
      by_cases c : alo < i ∧ blo < j
      · obtain ⟨x, hx⟩ : ∃ x, a[i - 1]? = some x := ⟨a[i - 1]'(by omega), by simp⟩
        obtain ⟨y, hy⟩ : ∃ y, b[j - 1]? = some y := ⟨b[j - 1]'(by omega), by simp⟩
        have c' : (decide ((i : Int) > alo) && decide ((j : Int) > blo)) = true := by simp; omega
        simp only [c', if_true, index_pred _ _ (show 1 ≤ i by omega), index_pred _ _ (show 1 ≤ j by omega), hx, hy,
          Option.bind_some, eqAt_some a b _ _ x y hx hy, c, true_and]
        by_cases hxy : x = y
        · simp [hxy]; omega
        · simp [hxy]
      · have c' : (decide ((i : Int) > alo) && decide ((j : Int) > blo)) = false := by
          simp only [Bool.and_eq_false_iff, decide_eq_false_iff_not]; omega
        have c2 : ¬ (alo < i ∧ blo < j ∧ Difflib.eqAt a b (i - 1) (j - 1) = true) := fun hh => c ⟨hh.1, hh.2.1⟩
        simp [c', c2, c]
    case cont2 =>
      generalize Difflib.extBack a b alo blo bi bj bk = best1 at hB ⊢
      obtain ⟨ei, ej, ek⟩ := best1
      simp only [Bool.not_true, Bool.false_eq_true, if_false]
      have hei : ei + ek ≤ ahi := hB.2.1
      have hej : ej + ek ≤ bhi := hB.2.2.2.1
      refine bind_of_eq _ (fwd_sim a b ahi bhi ei ej _ ?hFf _ ek (by omega)) ?cont3
      case hFf =>
        intro k
        by_cases c : ei + k < ahi ∧ ej + k < bhi
        · obtain ⟨x, hx⟩ : ∃ x, a[ei + k]? = some x := ⟨a[ei + k]'(by omega), by simp⟩
          obtain ⟨y, hy⟩ : ∃ y, b[ej + k]? = some y := ⟨b[ej + k]'(by omega), by simp⟩
          have c' : (decide ((ei : Int) + k < ahi) && decide ((ej : Int) + k < bhi)) = true := by simp; omega
          simp only [c', if_true, index_add, hx, hy, Option.bind_some, eqAt_some a b _ _ x y hx hy, c, true_and]
          by_cases hxy : x = y
          · simp [hxy]
          · simp [hxy]
        · have c' : (decide ((ei : Int) + k < ahi) && decide ((ej : Int) + k < bhi)) = false := by
            simp only [Bool.and_eq_false_iff, decide_eq_false_iff_not]; omega
          have c2 : ¬ (ei + k < ahi ∧ ej + k < bhi ∧ Difflib.eqAt a b (ei + k) (ej + k) = true) := fun hh => c ⟨hh.1, hh.2.1⟩
          simp [c', c2]
      case cont3 =>
        generalize Difflib.extFwd a b ahi bhi ei ej ek = fk
        simp only [Bool.not_true, Bool.false_eq_true, if_false]
        refine bind_of_eq ((ei : Int), (ej : Int), (fk : Int), true) (forIn_fuel_done _ _ _ _ ?h3) ?cont4
        case h3 =>
          by_cases c : alo < ei ∧ blo < ej
          · obtain ⟨y, hy⟩ : ∃ y, b[ej - 1]? = some y := ⟨b[ej - 1]'(by omega), by simp⟩
            have c' : (decide ((ei : Int) > alo) && decide ((ej : Int) > blo)) = true := by simp; omega
            simp [c', c, index_pred _ _ (show 1 ≤ ej by omega), hy]
          · have c' : (decide ((ei : Int) > alo) && decide ((ej : Int) > blo)) = false := by
              simp only [Bool.and_eq_false_iff, decide_eq_false_iff_not]; omega
            simp [c', c]
        case cont4 =>
          simp only [Bool.not_true, Bool.false_eq_true, if_false]
          refine bind_of_eq ((fk : Int), true) (forIn_fuel_done _ _ _ _ ?h4) ?cont5
          case h4 =>
            by_cases c : ei + fk < ahi ∧ ej + fk < bhi
            · obtain ⟨y, hy⟩ : ∃ y, b[ej + fk]? = some y := ⟨b[ej + fk]'(by omega), by simp⟩
              have c' : (decide ((ei : Int) + fk < ahi) && decide ((ej : Int) + fk < bhi)) = true := by simp; omega
              simp [c', c, index_add, hy]
            · have c' : (decide ((ei : Int) + fk < ahi) && decide ((ej : Int) + fk < bhi)) = false := by
                simp only [Bool.and_eq_false_iff, decide_eq_false_iff_not]; omega
              simp [c', c]
          case cont5 =>
            simp [mI]

/-! ## 8. getMatchingBlocks -/

/-- the matchers the theorems about `findLongestMatch` / `getMatchingBlocks` apply to: what `NewMatcher a b` builds -/
structure MatcherOf (m : Matcher) (a b : List (List UInt8)) : Prop where
  ha : m.a = a
  hb : m.b = b
  hb2j : ∀ x, GoDiff.mapGet m.b2j x [] = (Difflib.b2j b x).map (fun (i : Nat) => (i : Int))
  hjunk : m.bJunk = []

theorem NewMatcher_of (a b : List (List UInt8)) : MatcherOf (NewMatcher a b) a b :=
  ⟨(NewMatcher_fields a b).2.1, (NewMatcher_fields a b).2.2.1, NewMatcher_b2j_agrees a b, (NewMatcher_fields a b).2.2.2.1⟩

/-- **the recursive closure `matchBlocks` agrees with the hand port** (`Difflib.mbN`, the non-accumulating
    form of `matchBlocksF`: `Difflib.matchBlocksF_eq`) for every fuel greater than `ahi - alo` -/
theorem matchBlocks_sim (m : Matcher) (a b : List (List UInt8)) (hm : MatcherOf m a b) :
    ∀ (f alo ahi blo bhi : Nat) (acc : List Difflib.Match), alo ≤ ahi → ahi ≤ a.length → blo ≤ bhi → bhi ≤ b.length →
      ahi - alo < f →
      sequenceMatcher_getMatchingBlocks_matchBlocks m f alo ahi blo bhi (acc.map mI) =
        some ((acc ++ Difflib.mbN a b f alo ahi blo bhi).map mI) := by
  intro f
  induction f with
  | zero => intro alo ahi blo bhi acc _ _ _ _ h; omega
  | succ f ih =>
    intro alo ahi blo bhi acc h1 h2 h3 h4 hf
    have hflm := findLongestMatch_agrees m a b hm.ha hm.hb hm.hb2j hm.hjunk alo ahi blo bhi h1 h2 h3 h4
    have hok := Difflib.flm_bestOK (a := a) (b := b) h1 h2 h3 h4
    rw [sequenceMatcher_getMatchingBlocks_matchBlocks, Difflib.mbN]
    simp only [hflm, Option.bind_eq_bind, Option.bind_some, Option.pure_def]
    generalize Difflib.findLongestMatch a b alo ahi blo bhi = mm at hok ⊢
    obtain ⟨mi, mj, mk⟩ := mm
    obtain ⟨o1, o2, o3, o4, _⟩ := hok
    simp only at o1 o2 o3 o4
    simp only [mI]
    by_cases hk : 0 < mk
    · have hk' : decide (((mk : Nat) : Int) > 0) = true := by simp; omega
      simp only [hk', if_true, hk]
      have hkd : (mk : Int) > 0 := by omega
      simp only [hkd, decide_true, if_true]
      -- the second recursive call, for any accumulated prefix
      have e2 : ∀ (acc1 : List Difflib.Match) (r : Option (List DifflibGen.Match)),
          r = (if (decide ((mi : Int) + mk < ahi) && decide ((mj : Int) + mk < bhi)) = true then
            (sequenceMatcher_getMatchingBlocks_matchBlocks m f ((mi : Int) + mk) ahi ((mj : Int) + mk) bhi
              (acc1.map mI ++ [{ a := (mi : Int), b := (mj : Int), size := (mk : Int) }])).bind fun r => some r
          else some (acc1.map mI ++ [{ a := (mi : Int), b := (mj : Int), size := (mk : Int) }])) →
          r = some ((acc1 ++ (⟨mi, mj, mk⟩ : Difflib.Match) ::
            (if mi + mk < ahi ∧ mj + mk < bhi then Difflib.mbN a b f (mi + mk) ahi (mj + mk) bhi else [])).map mI) := by
        intro acc1 r hr
        have ea : acc1.map mI ++ [{ a := (mi : Int), b := (mj : Int), size := (mk : Int) }] =
            (acc1 ++ [(⟨mi, mj, mk⟩ : Difflib.Match)]).map mI := by simp [mI]
        rw [ea] at hr
        by_cases c : mi + mk < ahi ∧ mj + mk < bhi
        · have q1 : (mi : Int) + mk < ahi := by omega
          have q2 : (mj : Int) + mk < bhi := by omega
          have e1 : (mi : Int) + mk = ((mi + mk : Nat) : Int) := by omega
          have e2 : (mj : Int) + mk = ((mj + mk : Nat) : Int) := by omega
          simp only [q1, q2, decide_true, Bool.and_self, if_true] at hr
          rw [e1, e2, ih (mi + mk) ahi (mj + mk) bhi _ (by omega) h2 (by omega) h4 (by omega)] at hr
          rw [hr, if_pos c]; simp
        · have q : ¬ ((mi : Int) + mk < ahi) ∨ ¬ ((mj : Int) + mk < bhi) := by omega
          rcases q with q | q
          · simp only [q, decide_false, Bool.false_and, Bool.false_eq_true, if_false] at hr
            rw [hr, if_neg c]; first | done | simp
          · simp only [q, decide_false, Bool.and_false, Bool.false_eq_true, if_false] at hr
            rw [hr, if_neg c]; first | done | simp
      by_cases c1 : alo < mi ∧ blo < mj
      · have q1 : (alo : Int) < mi := by omega
        have q2 : (blo : Int) < mj := by omega
        simp only [q1, q2, decide_true, Bool.and_self, if_true, c1, and_self]
        rw [ih alo mi blo mj acc (by omega) (by omega) (by omega) (by omega) (by omega)]
        simp only [Option.bind_some]
        refine (e2 (acc ++ Difflib.mbN a b f alo mi blo mj) _ rfl).trans ?_; simp
      · have q : ¬ ((alo : Int) < mi) ∨ ¬ ((blo : Int) < mj) := by omega
        rcases q with q | q
        · simp only [q, decide_false, Bool.false_and, Bool.false_eq_true, if_false, c1]
          refine (e2 acc _ rfl).trans ?_; simp
        · simp only [q, decide_false, Bool.and_false, Bool.false_eq_true, if_false, c1]
          refine (e2 acc _ rfl).trans ?_; simp
    · have hkd : ¬ ((mk : Int) > 0) := by omega
      simp [hkd, hk]

abbrev CSt := List DifflibGen.Match × Int × Int × Int

/-- one iteration of the adjacency-collapse loop of `getMatchingBlocks` on (nonAdjacent, i1, j1, k1) -/
def cStep (s : CSt) (x : DifflibGen.Match) : CSt :=
  if s.2.1 + s.2.2.2 = x.a ∧ s.2.2.1 + s.2.2.2 = x.b then (s.1, s.2.1, s.2.2.1, s.2.2.2 + x.size)
  else if s.2.2.2 > 0 then (s.1 ++ [⟨s.2.1, s.2.2.1, s.2.2.2⟩], x.a, x.b, x.size)
  else (s.1, x.a, x.b, x.size)

/-- `if k1 > 0 { nonAdjacent = append(nonAdjacent, match{i1, j1, k1}) }` after the loop -/
def cFinal (s : CSt) : List DifflibGen.Match :=
  if s.2.2.2 > 0 then s.1 ++ [⟨s.2.1, s.2.2.1, s.2.2.2⟩] else s.1

theorem collapse_sim (ms : List Difflib.Match) (i1 j1 k1 : Nat) (out : List Difflib.Match) :
    cFinal ((ms.map mI).foldl cStep (out.map mI, (i1 : Int), (j1 : Int), (k1 : Int))) =
      (Difflib.collapse ms i1 j1 k1 out).map mI := by
  induction ms generalizing i1 j1 k1 out with
  | nil =>
    simp only [List.map_nil, List.foldl_nil, cFinal, Difflib.collapse]
    by_cases h : 0 < k1
    · have h' : (k1 : Int) > 0 := by omega
      simp [h, h', mI]
    · have h' : ¬ ((k1 : Int) > 0) := by omega
      simp [h, h']
  | cons x xs ih =>
    rw [List.map_cons, List.foldl_cons, Difflib.collapse]
    by_cases h : i1 + k1 = x.i ∧ j1 + k1 = x.j
    · have h' : (i1 : Int) + k1 = (mI x).a ∧ (j1 : Int) + k1 = (mI x).b := by simp only [mI]; omega
      have e : cStep (out.map mI, (i1 : Int), (j1 : Int), (k1 : Int)) (mI x) =
          (out.map mI, (i1 : Int), (j1 : Int), ((k1 + x.k : Nat) : Int)) := by
        simp only [cStep, h', and_self, if_true]; simp [mI]
      rw [e, if_pos h, ih]
    · have h' : ¬ ((i1 : Int) + k1 = (mI x).a ∧ (j1 : Int) + k1 = (mI x).b) := by simp only [mI]; omega
      rw [if_neg h]
      by_cases hk : 0 < k1
      · have hk' : (k1 : Int) > 0 := by omega
        have e : cStep (out.map mI, (i1 : Int), (j1 : Int), (k1 : Int)) (mI x) =
            ((out ++ [(⟨i1, j1, k1⟩ : Difflib.Match)]).map mI, (x.i : Int), (x.j : Int), (x.k : Int)) := by
          simp only [cStep, h', if_false, hk', if_true]; simp [mI]
        rw [e, if_pos hk, ih]
      · have hk' : ¬ ((k1 : Int) > 0) := by omega
        have e : cStep (out.map mI, (i1 : Int), (j1 : Int), (k1 : Int)) (mI x) =
            (out.map mI, (x.i : Int), (x.j : Int), (x.k : Int)) := by
          simp only [cStep, h', if_false, hk']; simp [mI]
        rw [e, if_neg hk, ih]

/-- **getMatchingBlocks agrees with the hand port** for every matcher of `a`, `b` with an empty cache and
    every fuel greater than `len a` (so the fuel `len a + 1` of the glue `groupedOpCodes` suffices) -/
theorem getMatchingBlocks_agrees (fuel : Nat) (m : Matcher) (a b : List (List UInt8)) (hm : MatcherOf m a b)
    (hn : m.matchingBlocks = none) (hf : a.length < fuel) :
    sequenceMatcher_getMatchingBlocks fuel m =
      some ({ m with matchingBlocks := some ((Difflib.getMatchingBlocks a b).map mI) },
        (Difflib.getMatchingBlocks a b).map mI) := by
  have hmb := matchBlocks_sim m a b hm fuel 0 a.length 0 b.length [] (Nat.zero_le _) (Nat.le_refl _) (Nat.zero_le _)
    (Nat.le_refl _) (by omega)
  have hfuel : Difflib.mbN a b fuel 0 a.length 0 b.length = Difflib.mbN a b a.length 0 a.length 0 b.length :=
    Difflib.mbN_fuel fuel a.length 0 a.length 0 b.length (Nat.zero_le _) (Nat.le_refl _) (Nat.zero_le _) (Nat.le_refl _)
      (by omega) (by omega)
  simp only [List.map_nil, List.nil_append, Int.natCast_zero, hfuel] at hmb
  have hla : GoSem.len m.a = (a.length : Int) := by rw [hm.ha]; rfl
  have hlb : GoSem.len m.b = (b.length : Int) := by rw [hm.hb]; rfl
  unfold sequenceMatcher_getMatchingBlocks
  simp only [hn, hla, hlb, hmb, Option.isSome_none, Option.bind_eq_bind, Option.bind_some, Option.pure_def,
    Bool.false_eq_true, if_false]
  rw [forIn_opt_foldl _ _ (fun (s : CSt) x => cStep s x)]
  · simp only [Option.bind_some]
    have hc := collapse_sim (Difflib.mbN a b a.length 0 a.length 0 b.length) 0 0 0 []
    simp only [List.map_nil, Int.natCast_zero] at hc
    have hX : (Difflib.getMatchingBlocks a b).map mI =
        cFinal ((List.map mI (Difflib.mbN a b a.length 0 a.length 0 b.length)).foldl cStep ([], 0, 0, 0)) ++
          [{ a := (a.length : Int), b := (b.length : Int), size := 0 }] := by
      rw [hc, Difflib.getMatchingBlocks_eq, Difflib.collapse_eq]
      simp [mI]
    rw [hX]
    generalize (List.map mI (Difflib.mbN a b a.length 0 a.length 0 b.length)).foldl cStep ([], 0, 0, 0) = st
    unfold cFinal
    by_cases hk : st.2.2.2 > 0
    · simp [hk]
    · simp [hk]
  · intro x s
    unfold cStep
    by_cases c1 : s.2.1 + s.2.2.2 = x.a <;> by_cases c2 : s.2.2.1 + s.2.2.2 = x.b <;> by_cases c3 : s.2.2.2 > 0 <;>
      simp [c1, c2, c3]

/-! ## 9. the whole chain -/

/-- **UNCONDITIONAL: the generated `difflib.NewMatcher(a, b).GetGroupedOpCodes(n)` (the glue `groupedOpCodes`, fuel
    `len a + 1`) returns — without panic and without hitting a bound of the translation — exactly what the
    hand port `Difflib.getGroupedOpCodes a b n` computes**, for all sequences and every n ≥ 0 -/
theorem groupedOpCodes_agrees (a b : List (List UInt8)) (n : Nat) :
    DifflibGen.groupedOpCodes a b (n : Int) = some ((Difflib.getGroupedOpCodes a b n).map (·.map opI)) := by
  unfold DifflibGen.groupedOpCodes
  have hm := NewMatcher_of a b
  obtain ⟨_, _, _, _, hn, hop⟩ := NewMatcher_fields a b
  have h1 := getMatchingBlocks_agrees (a.length + 1) (NewMatcher a b) a b hm hn (by omega)
  have h2 := getOpCodes_agrees (a.length + 1) (NewMatcher a b) _ a b hop h1
  cases h3 : sequenceMatcher_getOpCodes (a.length + 1) (NewMatcher a b) with
  | none => rw [h3] at h2; simp at h2
  | some r =>
    obtain ⟨m', codes⟩ := r
    rw [h3] at h2
    simp only [Option.map_some, Option.some.injEq] at h2
    subst h2
    exact GetGroupedOpCodes_agrees (a.length + 1) (NewMatcher a b) m' a b n h3

/-- a negative context size behaves as 3 (`if n < 0 { n = 3 }`) -/
theorem groupedOpCodes_neg (a b : List (List UInt8)) (n : Int) (hn : n < 0) :
    DifflibGen.groupedOpCodes a b n = some ((Difflib.getGroupedOpCodes a b 3).map (·.map opI)) := by
  have := groupedOpCodes_agrees a b 3
  unfold DifflibGen.groupedOpCodes at this ⊢
  rw [GetGroupedOpCodes_neg _ _ n hn]
  exact this

end GoSnaps.Tie.DifflibGen
