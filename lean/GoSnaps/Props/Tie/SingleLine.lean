/-
Tie by proof: the inline ("single-line") diff of snaps/diff.go, `singlelineDiff`, as transliterated in
`GoSnaps.Generated.FuncsIO` together with the helpers it calls (`colors.FprintBg`,
`colors.FprintDeleteBold`, `colors.FprintInsertBold`, `hasNewLine`).

Parameters of the transliteration: `dmpDiff x y` = `dmp.DiffCleanupSemantic(dmp.DiffMain(x, y, false))`
(the third-party diffmatchpatch stays a parameter; it is left ARBITRARY in every theorem below, and
theorem (d) states the one property of it that is used as a hypothesis).  Colours are ON: every call
of `singlelineDiff` is guarded by `shouldPrintHighlights`, whose first conjunct is `!colors.NOCOLOR`;
the helpers themselves are translated for both colour modes (`nocolor`).

Contents
  1. internal/colors: closed forms of `FprintBg`, `FprintDeleteBold`, `FprintInsertBold` (both modes)
  2. `hasNewLine` (panics exactly on the empty slice), the guard `len(diffs) == 1 && diffs[0].Type == diffEqual`
  3. the loop over the chunks, for an arbitrary body that behaves like the Go one (`sl_loop`), and the
     closed form of the whole function (`singlelineDiff_closed`)
  4. the theorems: `singlelineDiff_total` (never panics), `singlelineDiff_empty_iff` (the report is
     empty exactly for a single Equal chunk, and then the counts are -1), `singlelineDiff_counts`
     (otherwise the counts are the numbers of Insert / Delete chunks), `singlelineDiff_empty_same`
     (under the contract of diffmatchpatch an empty report means identical texts)
-/
import GoSnaps.Generated.FuncsIO
import GoSnaps.Props.Tie.DiffIO
namespace GoSnaps.Tie
open GoSnaps GoSnaps.Generated GoSnaps.GoIO

/-! ## 1. internal/colors -/

def cBoldRedBg : Text := [27, 91, 52, 56, 59, 53, 59, 49, 50, 55, 109]
def cBoldGreenBg : Text := [27, 91, 52, 56, 59, 53, 59, 50, 51, 109]
def cWhite : Text := [27, 91, 51, 56, 59, 53, 59, 50, 53, 53, 109]

theorem FprintDeleteBold_nocolor (w s : Text) : FuncsIO.FprintDeleteBold true w s = w ++ s := rfl
theorem FprintDeleteBold_colour (w s : Text) :
    FuncsIO.FprintDeleteBold false w s = w ++ (cBoldRedBg ++ cWhite ++ s ++ cReset) := rfl
theorem FprintInsertBold_nocolor (w s : Text) : FuncsIO.FprintInsertBold true w s = w ++ s := rfl
theorem FprintInsertBold_colour (w s : Text) :
    FuncsIO.FprintInsertBold false w s = w ++ (cBoldGreenBg ++ cWhite ++ s ++ cReset) := rfl

/-- what `FprintBg` appends in colour mode: the reset sequence goes BEFORE a final newline -/
def bgRowC (bg c s : Text) : Text :=
  if hasSuffix s [10] then bg ++ c ++ s.dropLast ++ cReset ++ [10] else bg ++ c ++ s ++ cReset

theorem FprintBg_nocolor (w bg c s : Text) : FuncsIO.FprintBg true w bg c s = some (w ++ s) := rfl

theorem FprintBg_colour (w bg c s : Text) : FuncsIO.FprintBg false w bg c s = some (w ++ bgRowC bg c s) := by
  unfold FuncsIO.FprintBg bgRowC
  rw [hasNewlineSuffix_eq]
  by_cases h : hasSuffix s [10] = true
  · simp only [h, if_true, trimSuffix_eq s (ne_nil_of_hasSuffix_nl h)]
    rfl
  · simp only [h]
    rfl

/-- `FprintBg` never panics, in either mode -/
theorem FprintBg_total (nocolor : Bool) (w bg c s : Text) : ∃ x, FuncsIO.FprintBg nocolor w bg c s = some (w ++ x) := by
  cases nocolor
  · exact ⟨_, FprintBg_colour w bg c s⟩
  · exact ⟨_, FprintBg_nocolor w bg c s⟩

theorem bgRowC_ne_nil (bg c s : Text) (h : bg ≠ []) : bgRowC bg c s ≠ [] := by
  unfold bgRowC; split <;> simp [h]

/-! ## 2. `hasNewLine` and the guard -/

/-- `b[len(b)-1] == '\n'`: panics exactly on the empty slice -/
theorem hasNewLine_eq (x : Text) (h : x ≠ []) : FuncsIO.hasNewLine x = some (x.getLast? == some 10) := by
  unfold FuncsIO.hasNewLine GoSem.index GoSem.len
  have hp : 0 < x.length := List.length_pos_iff.mpr h
  have e : ((x.length : Int) - 1).toNat = x.length - 1 := by omega
  rw [if_neg (by omega), e, ← List.getLast?_eq_getElem?]
  cases hl : x.getLast? with
  | none => simp [List.getLast?_eq_none_iff] at hl; exact absurd hl h
  | some v => simp

theorem hasNewLine_nil : FuncsIO.hasNewLine [] = none := by decide

/-- `diffs` is a single Equal chunk -/
def singleEqB : List DiffChunk → Bool
  | [c] => c.type == 0
  | _ => false

def SingleEqual (l : List DiffChunk) : Prop := ∃ c, l = [c] ∧ c.type = 0

theorem singleEqB_iff (l : List DiffChunk) : singleEqB l = true ↔ SingleEqual l := by
  match l with
  | [] => simp [singleEqB, SingleEqual]
  | [c] => simp [singleEqB, SingleEqual]
  | c1 :: c2 :: rest => simp [singleEqB, SingleEqual]

/-- `len(diffs) == 1 && diffs[0].Type == diffEqual` never panics (the index is guarded) -/
theorem guard_eq (l : List DiffChunk) :
    (if (GoSem.len l == 1) = true then (GoSem.index l 0).bind fun c => some (c.type == 0) else some false)
      = some (singleEqB l) := by
  match l with
  | [] => rfl
  | [c] => rfl
  | c1 :: c2 :: rest =>
    have : (GoSem.len (c1 :: c2 :: rest) == (1 : Int)) = false := by
      simp [GoSem.len]; omega
    simp [this, singleEqB]

/-! ## 3. the loop -/

/-- the loop state: (inserted, deleted, a, b) -/
abbrev SLSt := Int × Int × Text × Text

/-- `diff.Text[:len(diff.Text)-1]+newLineSymbol` when the text ends with a newline -/
def nlText (t : Text) : Text := if hasSuffix t [10] then t.dropLast ++ go_newLineSymbol else t

/-- what one chunk appends to the `-` row -/
def rowA (d : DiffChunk) : Text :=
  if d.type = -1 then cBoldRedBg ++ cWhite ++ nlText d.text ++ cReset
  else if d.type = 0 then bgRowC cRedBg cRedDiff d.text else []
/-- what one chunk appends to the `+` row -/
def rowB (d : DiffChunk) : Text :=
  if d.type = 1 then cBoldGreenBg ++ cWhite ++ nlText d.text ++ cReset
  else if d.type = 0 then bgRowC cGreenBg cGreenDiff d.text else []

def stepSL (st : SLSt) (d : DiffChunk) : SLSt :=
  (st.1 + (if d.type = 1 then 1 else 0), st.2.1 + (if d.type = -1 then 1 else 0),
    st.2.2.1 ++ rowA d, st.2.2.2 ++ rowB d)

/-- number of chunks of a type, as Go's `int` -/
def countType (ty : Int) (l : List DiffChunk) : Int := ((l.countP (fun c => c.type == ty) : Nat) : Int)

theorem foldl_stepSL (l : List DiffChunk) (i d : Int) (a b : Text) :
    l.foldl stepSL (i, d, a, b) =
      (i + countType 1 l, d + countType (-1) l, a ++ (l.map rowA).flatten, b ++ (l.map rowB).flatten) := by
  induction l generalizing i d a b with
  | nil => simp [countType]
  | cons x xs ih =>
    rw [List.foldl_cons, stepSL, ih]
    simp only [countType, List.countP_cons, List.map_cons, List.flatten_cons, List.append_assoc, beq_iff_eq]
    refine Prod.ext ?_ (Prod.ext ?_ rfl)
    · by_cases h : x.type = 1 <;> simp [h] <;> omega
    · by_cases h : x.type = -1 <;> simp [h] <;> omega

theorem slice_dropLast (t : Text) (h : hasSuffix t [10] = true) :
    GoSem.slice t 0 (GoSem.len t - 1) = some t.dropLast := by
  have hne := ne_nil_of_hasSuffix_nl h
  unfold GoSem.slice GoSem.len
  have : 0 < t.length := List.length_pos_iff.mpr hne
  rw [if_pos (by omega)]
  simp [List.dropLast_eq_take]

/-- the loop over the chunks for an ARBITRARY body that behaves like the Go one -/
theorem sl_loop (l : List DiffChunk) (st : SLSt) (F : DiffChunk → SLSt → Option (ForInStep SLSt))
    (hF : ∀ d st, F d st = some (ForInStep.yield (stepSL st d))) :
    forIn (m := Option) l st F = some (l.foldl stepSL st) :=
  forIn_opt_foldl_mem l F stepSL (fun a _ b => hF a b) st

/-- `if !hasNewLine(x.Bytes()) { x.WriteByte('\n') }` -/
def endNL (x : Text) : Text := if x.getLast? == some 10 then x else x ++ [10]

theorem endNL_ne_nil (x : Text) : endNL x ≠ [] := by
  unfold endNL; split
  · intro e; subst e; simp_all
  · simp

/-- the two rows before the final newline is added -/
def slRowA (l : List DiffChunk) : Text := bgRowC cRedBg cRedDiff [45, 32] ++ (l.map rowA).flatten
def slRowB (l : List DiffChunk) : Text := bgRowC cGreenBg cGreenDiff [43, 32] ++ (l.map rowB).flatten

theorem slRowA_ne_nil (l : List DiffChunk) : slRowA l ≠ [] := by
  unfold slRowA; simp [bgRowC_ne_nil _ _ _ (by decide : cRedBg ≠ [])]
theorem slRowB_ne_nil (l : List DiffChunk) : slRowB l ≠ [] := by
  unfold slRowB; simp [bgRowC_ne_nil _ _ _ (by decide : cGreenBg ≠ [])]

/-- **closed form**: `singlelineDiff` never panics; it returns `("", -1, -1)` for a single Equal
    chunk and otherwise the two rows (each ending in exactly the newline it needs) with the numbers of
    Insert and Delete chunks -/
theorem singlelineDiff_closed (dmpDiff : Text → Text → List DiffChunk) (e r : Text) :
    FuncsIO.singlelineDiff dmpDiff e r =
      some (if singleEqB (dmpDiff e r) then ([], -1, -1)
            else (endNL (slRowA (dmpDiff e r)) ++ endNL (slRowB (dmpDiff e r)),
                  countType 1 (dmpDiff e r), countType (-1) (dmpDiff e r))) := by
  unfold FuncsIO.singlelineDiff
  simp only [Option.bind_eq_bind, Option.pure_def, guard_eq, Option.bind_some, FprintBg_colour,
    FprintDeleteBold_colour, FprintInsertBold_colour]
  generalize dmpDiff e r = l
  by_cases hs : singleEqB l = true
  · simp [hs]
  · simp only [hs, if_false, Bool.false_eq_true]
    rw [sl_loop l _ _ ?h]
    case h =>
      intro c st
      obtain ⟨i, d, a, b⟩ := st
      simp only [beq_iff_eq, stepSL, rowA, rowB, nlText]
      by_cases hn : hasSuffix c.text [10] = true
      · by_cases h1 : c.type = -1
        · simp [h1, hn, slice_dropLast c.text hn]
        · by_cases h2 : c.type = 1
          · simp [h2, hn, slice_dropLast c.text hn]
          · by_cases h3 : c.type = 0
            · simp [h3]; exact ⟨rfl, rfl⟩
            · simp [h1, h2, h3]
      · by_cases h1 : c.type = -1
        · simp [h1, hn]
        · by_cases h2 : c.type = 1
          · simp [h2, hn]
          · by_cases h3 : c.type = 0
            · simp [h3]; exact ⟨rfl, rfl⟩
            · simp [h1, h2, h3]
    rw [foldl_stepSL]
    simp only [Option.bind_some, List.nil_append, Int.zero_add]
    rw [show bgRowC [27, 91, 52, 56, 59, 53, 59, 50, 50, 53, 109] [27, 91, 51, 56, 59, 53, 59, 53, 50, 109] [45, 32] ++
          (l.map rowA).flatten = slRowA l from rfl,
        show bgRowC [27, 91, 52, 56, 59, 53, 59, 49, 53, 57, 109] [27, 91, 51, 56, 59, 53, 59, 50, 50, 109] [43, 32] ++
          (l.map rowB).flatten = slRowB l from rfl]
    rw [hasNewLine_eq _ (slRowA_ne_nil l), hasNewLine_eq _ (slRowB_ne_nil l)]
    simp only [Option.bind_some, endNL]
    cases h1 : ((slRowA l).getLast? == some 10) <;> cases h2 : ((slRowB l).getLast? == some 10) <;> simp

/-! ## 4. the theorems -/

/-- (c) `singlelineDiff` never panics, whatever diffmatchpatch returns -/
theorem singlelineDiff_total (dmpDiff : Text → Text → List DiffChunk) (e r : Text) :
    ∃ v, FuncsIO.singlelineDiff dmpDiff e r = some v :=
  ⟨_, singlelineDiff_closed dmpDiff e r⟩

theorem singlelineDiff_isSome (dmpDiff : Text → Text → List DiffChunk) (e r : Text) :
    (FuncsIO.singlelineDiff dmpDiff e r).isSome = true := by
  rw [singlelineDiff_closed]; rfl

/-- (a) the report is empty exactly when diffmatchpatch returned a single Equal chunk, and then both
    counts are -1 -/
theorem singlelineDiff_empty_iff (dmpDiff : Text → Text → List DiffChunk) (e r text : Text) (i d : Int)
    (h : FuncsIO.singlelineDiff dmpDiff e r = some (text, i, d)) :
    (text = [] ↔ SingleEqual (dmpDiff e r)) ∧ (text = [] → i = -1 ∧ d = -1) := by
  rw [singlelineDiff_closed] at h
  by_cases hs : singleEqB (dmpDiff e r) = true
  · simp only [hs, if_true, Option.some.injEq, Prod.mk.injEq] at h
    obtain ⟨rfl, rfl, rfl⟩ := h
    exact ⟨⟨fun _ => (singleEqB_iff _).mp hs, fun _ => rfl⟩, fun _ => ⟨rfl, rfl⟩⟩
  · simp only [hs, if_false, Bool.false_eq_true, Option.some.injEq, Prod.mk.injEq] at h
    obtain ⟨rfl, _, _⟩ := h
    have hne : endNL (slRowA (dmpDiff e r)) ++ endNL (slRowB (dmpDiff e r)) ≠ [] := by
      simp [endNL_ne_nil]
    exact ⟨⟨fun h0 => absurd h0 hne, fun hse => absurd ((singleEqB_iff _).mpr hse) hs⟩, fun h0 => absurd h0 hne⟩

/-- (b) otherwise the counts are the numbers of Insert (type 1) and Delete (type -1) chunks -/
theorem singlelineDiff_counts (dmpDiff : Text → Text → List DiffChunk) (e r text : Text) (i d : Int)
    (h : FuncsIO.singlelineDiff dmpDiff e r = some (text, i, d)) (hne : ¬ SingleEqual (dmpDiff e r)) :
    i = countType 1 (dmpDiff e r) ∧ d = countType (-1) (dmpDiff e r) := by
  rw [singlelineDiff_closed] at h
  have hs : ¬ singleEqB (dmpDiff e r) = true := fun hb => hne ((singleEqB_iff _).mp hb)
  simp only [hs, if_false, Bool.false_eq_true, Option.some.injEq, Prod.mk.injEq] at h
  exact ⟨h.2.1.symm, h.2.2.symm⟩

/-- (b'), the same with the condition on the result: a NON-empty report carries the true counts -/
theorem singlelineDiff_counts_of_nonempty (dmpDiff : Text → Text → List DiffChunk) (e r text : Text) (i d : Int)
    (h : FuncsIO.singlelineDiff dmpDiff e r = some (text, i, d)) (hne : text ≠ []) :
    i = countType 1 (dmpDiff e r) ∧ d = countType (-1) (dmpDiff e r) :=
  singlelineDiff_counts dmpDiff e r text i d h
    (fun hse => hne (((singlelineDiff_empty_iff dmpDiff e r text i d h).1).mpr hse))

/-- the text diffmatchpatch's chunks delete from / keep of the first argument … -/
def chunkSrc (l : List DiffChunk) : Text := ((l.filter (fun c => c.type != 1)).map (·.text)).flatten
/-- … and the text they produce -/
def chunkDst (l : List DiffChunk) : Text := ((l.filter (fun c => c.type != -1)).map (·.text)).flatten

/-- (d) under the contract of diffmatchpatch (the chunks that are not Insert spell the first text, the
    chunks that are not Delete spell the second) an empty single-line report is produced for identical
    texts only.  (prettyDiff falls back to the line diff in that case, see `prettyDiff_nonempty`.) -/
theorem singlelineDiff_empty_same (dmpDiff : Text → Text → List DiffChunk) (e r text : Text) (i d : Int)
    (hdmp : chunkSrc (dmpDiff e r) = e ∧ chunkDst (dmpDiff e r) = r)
    (h : FuncsIO.singlelineDiff dmpDiff e r = some (text, i, d)) :
    text = [] → e = r := by
  intro h0
  obtain ⟨c, hc, ht⟩ := ((singlelineDiff_empty_iff dmpDiff e r text i d h).1).mp h0
  obtain ⟨h1, h2⟩ := hdmp
  rw [hc] at h1 h2
  simp [chunkSrc, chunkDst, ht] at h1 h2
  rw [← h1, ← h2]

/-- the converse direction needs nothing about diffmatchpatch beyond (a): different texts whose diff
    is not a single Equal chunk always give a non-empty report -/
theorem singlelineDiff_nonempty (dmpDiff : Text → Text → List DiffChunk) (e r text : Text) (i d : Int)
    (h : FuncsIO.singlelineDiff dmpDiff e r = some (text, i, d)) (hne : ¬ SingleEqual (dmpDiff e r)) :
    text ≠ [] :=
  fun h0 => hne (((singlelineDiff_empty_iff dmpDiff e r text i d h).1).mp h0)

/-! ### non-vacuity: concrete chunk lists -/

/-- "ab\n" -> "ac\n": Equal "a", Delete "b", Insert "c", Equal "\n": one insertion, one deletion, a
    non-empty report -/
example :
    (FuncsIO.singlelineDiff (fun _ _ => [⟨0, [97]⟩, ⟨-1, [98]⟩, ⟨1, [99]⟩, ⟨0, [10]⟩]) [97, 98, 10] [97, 99, 10]).map
      (fun v => (v.1 != [], v.2)) = some (true, 1, 1) := by decide

/-- a single Equal chunk: the empty report with counts -1 -/
example : FuncsIO.singlelineDiff (fun _ _ => [⟨0, [97, 10]⟩]) [97, 10] [97, 10] = some ([], -1, -1) := by decide

/-- the hypotheses of (d) are satisfiable, with a non-trivial chunk list -/
example : chunkSrc [⟨0, [97]⟩, ⟨-1, [98]⟩, ⟨1, [99]⟩, ⟨0, [10]⟩] = [97, 98, 10] ∧
    chunkDst [⟨0, [97]⟩, ⟨-1, [98]⟩, ⟨1, [99]⟩, ⟨0, [10]⟩] = [97, 99, 10] := by decide

/-- a Delete chunk ending in a newline is shown with the newline symbol, the `-` row then gets its
    newline from the `if !hasNewLine` step: the whole output for "x\n" -> "" (Delete "x\n") -/
example :
    FuncsIO.singlelineDiff (fun _ _ => [⟨-1, [120, 10]⟩]) [120, 10] [] =
      some (cRedBg ++ cRedDiff ++ [45, 32] ++ cReset ++ (cBoldRedBg ++ cWhite ++ [120] ++ go_newLineSymbol ++ cReset) ++ [10] ++
            (cGreenBg ++ cGreenDiff ++ [43, 32] ++ cReset ++ [10]), 0, 1) := by decide

end GoSnaps.Tie
