/-
Tie by proof, part 5 of 6 (see GoSnaps/Props/Tie.lean for the conventions).
-/
import GoSnaps.Escape
import GoSnaps.Clean
import GoSnaps.Diff
import GoSnaps.Difflib
import GoSnaps.GoSem
import GoSnaps.Generated.Funcs
import GoSnaps.Lemmas.Clean
import GoSnaps.Lemmas.Diff
import GoSnaps.Props.C10
import GoSnaps.Props.C11
namespace GoSnaps.Tie
open GoSnaps

/-! ## 5. `isSingleline`, `shouldPrintHighlights`, `splitNewlines`, `intPadding` (snaps/diff.go) -/

theorem indexOf_lt (s sep : Text) (i : Nat) (hsep : sep ≠ []) (h : indexOf s sep = some i) : i < s.length := by
  have h2 := (indexOf_go_spec sep s 0 i h).2
  by_cases hlt : i < s.length
  · exact hlt
  · have hd : s.drop (i - 0) = [] := by simp; omega
    rw [hd] at h2
    cases sep with
    | nil => exact absurd rfl hsep
    | cons c cs => simp at h2

/-- **Tie**: `strings.Index` returning `-1` against the model's `Option` -/
theorem isSingleline_tied (s : Text) : Generated.Funcs.isSingleline s = GoSnaps.isSingleline s := by
  unfold Generated.Funcs.isSingleline GoSnaps.isSingleline GoSem.indexInt
  have hnl : nl = 10 := rfl
  cases h : indexOf s [10] with
  | none => simp [Id.run, pure, hnl, h]
  | some i =>
    have := indexOf_lt s [10] i (by simp) h
    simp [Id.run, pure, hnl, h, GoSem.len]
    rw [Bool.eq_iff_iff]; simp; omega

/-- **Tie**: `colors.NOCOLOR` is the parameter `nocolor`; the model takes `colour = !nocolor` -/
theorem shouldPrintHighlights_tied (nocolor : Bool) (a b : Text) :
    Generated.Funcs.shouldPrintHighlights nocolor a b = GoSnaps.shouldPrintHighlights (!nocolor) a b := by
  unfold Generated.Funcs.shouldPrintHighlights GoSnaps.shouldPrintHighlights
  simp only [Id.run, pure, isSingleline_tied]
  rw [Bool.eq_iff_iff]; simp

/-- `strings.SplitAfter(s, "\n")` against `strings.Split(s, "\n")` (the model's `lines`) -/
theorem splitAfterNL_spec (s : Text) : ∃ init last, lines s = init ++ [last] ∧
    GoSem.splitAfterNL s = init.map (· ++ [nl]) ++ [last] := by
  induction s with
  | nil => exact ⟨[], [], by simp [lines, GoSem.splitAfterNL]⟩
  | cons c cs ih =>
    obtain ⟨init, last, h1, h2⟩ := ih
    by_cases hc : c = nl
    · exact ⟨[] :: init, last, by simp [lines, GoSem.splitAfterNL, hc, h1, h2]⟩
    · cases init with
      | nil => exact ⟨[], c :: last, by simp_all [lines, GoSem.splitAfterNL]⟩
      | cons l ls => exact ⟨(c :: l) :: ls, last, by simp_all [lines, GoSem.splitAfterNL]⟩

/-- **Tie**: `lines[len(lines)-1] += "\n"` never panics (`strings.SplitAfter` returns at least one
    piece) and the result is the model's `splitNewlines` -/
theorem splitNewlines_tied (s : Text) :
    Generated.Funcs.splitNewlines s = some (GoSnaps.splitNewlines s) := by
  obtain ⟨init, last, h1, h2⟩ := splitAfterNL_spec s
  unfold Generated.Funcs.splitNewlines GoSnaps.splitNewlines
  rw [h1, h2]
  have hl : GoSem.len (init.map (· ++ [nl]) ++ [last]) - 1 = ((init.map (· ++ [nl])).length : Int) := by
    simp [GoSem.len]
  simp only [hl, GoSem.index_append_length, GoSem.setIndex_append_length]
  simp
  rfl

theorem itoa_ofNat (n : Nat) : GoSem.itoa (n : Int) = natToText n := by
  unfold GoSem.itoa
  rw [if_neg (by omega)]
  simp

theorem flatten_replicate_singleton (n : Nat) (c : Byte) : (List.replicate n [c]).flatten = List.replicate n c := by
  induction n with
  | zero => rfl
  | succ n ih => simp [List.replicate_succ, ih]

theorem stringsRepeat_space (n : Int) (h : 0 ≤ n) : GoSem.stringsRepeat [32] n = some (spaces n.toNat) := by
  unfold GoSem.stringsRepeat spaces
  rw [if_neg (by omega), flatten_replicate_singleton]

/-- **Tie**: for non-negative counts (Go `int` arguments that are `Nat`s; the only ones
    `buildDiffReport` passes) `strings.Repeat` is never called with a negative count and the
    result is the model's; `strconv.Itoa` is `natToText` there (`itoa_ofNat`) -/
theorem intPadding_tied (inserted deleted : Nat) :
    Generated.Funcs.intPadding (inserted : Int) (deleted : Int) = some (GoSnaps.intPadding inserted deleted) := by
  unfold Generated.Funcs.intPadding GoSnaps.intPadding digitsOf
  simp only [itoa_ofNat, GoSem.len]
  generalize (natToText inserted).length = i
  generalize (natToText deleted).length = d
  by_cases h1 : i = d
  · simp [h1]
  · have hne : ¬ ((i : Int) = (d : Int)) := by omega
    by_cases h2 : i > d
    · have e : ((i : Int) - (d : Int)).toNat = i - d := by omega
      have hr := stringsRepeat_space ((i : Int) - (d : Int)) (by omega)
      rw [e] at hr
      simp [h1, h2, hne, hr]
    · have e : (-((i : Int) - (d : Int))).toNat = d - i := by omega
      have hr := stringsRepeat_space (-((i : Int) - (d : Int))) (by omega)
      rw [e] at hr
      have h3 : ¬ ((d : Int) < (i : Int)) := by omega
      simp [h1, h2, hne, hr, h3]

/-- for arbitrary `int` arguments (also negative ones, rendered with a sign) `intPadding` never
    panics: `strings.Repeat` is reached with a positive count only -/
theorem intPadding_no_panic (inserted deleted : Int) :
    (Generated.Funcs.intPadding inserted deleted).isSome = true := by
  unfold Generated.Funcs.intPadding
  simp only [GoSem.len]
  by_cases h1 : ((GoSem.itoa inserted).length : Int) = ((GoSem.itoa deleted).length : Int)
  · simp [h1]
  · by_cases h2 : ((GoSem.itoa inserted).length : Int) - ((GoSem.itoa deleted).length : Int) > 0
    · have := stringsRepeat_space _ (Int.le_of_lt h2)
      have h3 : ((GoSem.itoa deleted).length : Int) < ((GoSem.itoa inserted).length : Int) := by omega
      simp [h1, h3, this]
    · have := stringsRepeat_space (-(((GoSem.itoa inserted).length : Int) - ((GoSem.itoa deleted).length : Int))) (by omega)
      have h3 : ¬ (((GoSem.itoa deleted).length : Int) < ((GoSem.itoa inserted).length : Int)) := by omega
      simp [h1, h3, this]

end GoSnaps.Tie
