/-
Tie by proof, part 12: a history of Match* calls and test cleanups, THEN `Clean` — end to end, about the
TRANSLITERATED code (`goRun` of `Tie/EndToEnd.lean` followed by `Generated.FuncsIO.Clean`).

The two kinds of results composed here:
* `Tie/EndToEnd.lean`   : `goRun_simulates` (simulation `StRel` between the state of the transliterated
                          flows and the model's `World`);
* `Tie/CleanTopIO.lean` : `Clean_tied_one_dir` (the transliterated `Clean` IS the model's `clean`, from
                          states in `CleanRel`), `Clean_no_update_no_removal`, `Clean_ci_readonly`;
* model level           : `CleanWorld.clean_keeps` (C07), `C09.no_update_no_loss_all`,
                          `C10.second_run_writes_nothing`.

§1  Go maps: key lists after an assignment (`map1Set`, `map2SetInner`, `regBumped`).
§2  `CleanInv st w`: what `CleanRel` asks beyond `StRel` — the inner maps of `testsRegistry.cleanup`
    have pairwise different keys, the SAME keys as the model's flat list, `testEvents.items` is
    well-formed — is an INVARIANT of `goStep` (`CleanInv.call`, `CleanInv.frame`), hence `goRun_cleanInv`
    (from ANY related start state) and `goRun_reached`: every state reached by `goRun` from a fresh state is
    in `CleanRel` with the world the model's run reaches.  No hypothesis about the registries is left.
§3  the model covers every call of a history on one snapshot file (`run_supported`), so
    `goRun_simulates` needs no `unsupported = none` hypothesis; the registry after the run (`RegInv`).
§4  `Clean_reached`: the composition — the transliterated `Clean`, called in a state reached by `goRun`, is
    the model's `clean` of the world the model's run reaches; `Reached.supported`: the model covers that
    call as soon as the snapshot file is well-formed (`hsup` discharged).
§5  C07 `go_matched_survive_clean`, `go_call_addresses`; C09 `go_no_update_no_removal` (every failure
    oracle, any `-run`, any `-count`), `go_no_update_no_loss`; C10 `go_second_clean_changes_nothing`.
§6  the record scenario: `go_record_fileAfter`, `go_record_then_clean`.
§7  ANY mix of modes: `goRun_fileAfter` (the flows leave a well-formed file: invariant of the run),
    `go_matched_survive_clean_any_mode`, `go_addressed_survive_clean`, `go_no_update_no_loss_any_mode`,
    `go_second_clean_changes_nothing_any_mode`.
§8  concrete histories (record + clean + sort; `-count=2`; a run that updates and creates; report mode with
    sort, twice; failing writes).
-/
import GoSnaps.Props.Tie.EndToEnd
import GoSnaps.Props.Tie.CleanTopIO
import GoSnaps.Lemmas.EndToEndClean
namespace GoSnaps.Tie
open GoSnaps GoSnaps.GoIO
open GoSnaps.Generated.FuncsIO
open GoSnaps.C06Refine GoSnaps.Wld GoSnaps.CleanWorld
open GoSnaps.C01World (Step Scoped calledNames texts entriesFrom entriesOf headers Inv)
open GoSnaps.C03 (testID)
open GoSnaps.Generated (Env shouldCreate shouldUpdate)

/-! ## 1. Go maps: the keys after an assignment -/

/-- the keys after `m[k] = v`: as before, `k` appended when it is new -/
theorem keys_map1Set (m : Map1) (k : Text) (v : Int) :
    (map1Set m k v).map (·.1) = if k ∈ m.map (·.1) then m.map (·.1) else m.map (·.1) ++ [k] := by
  induction m with
  | nil => simp [map1Set]
  | cons q m ih =>
    obtain ⟨k', v'⟩ := q
    by_cases hk : k' = k
    · subst hk; simp [map1Set]
    · have hk' : ¬ k = k' := fun e => hk e.symm
      by_cases hm : k ∈ m.map (·.1)
      · simp only [map1Set, hk, ↓reduceIte, List.map_cons, ih, hm, List.mem_cons, or_true]
      · simp only [map1Set, hk, ↓reduceIte, List.map_cons, ih, hm, List.mem_cons, hk', or_self,
          List.cons_append]

theorem mem_keys_map1Set (m : Map1) (k k' : Text) (v : Int) :
    k' ∈ (map1Set m k v).map (·.1) ↔ k' ∈ m.map (·.1) ∨ k' = k := by
  rw [keys_map1Set]
  split
  · rename_i h
    constructor
    · exact Or.inl
    · rintro (h' | rfl)
      · exact h'
      · exact h
  · simp

theorem nodup_keys_map1Set (m : Map1) (k : Text) (v : Int) (h : (m.map (·.1)).Nodup) :
    ((map1Set m k v).map (·.1)).Nodup := by
  rw [keys_map1Set]
  split
  · exact h
  · rename_i hk
    rw [List.nodup_append]
    exact ⟨h, by simp, fun a ha b hb e => by
      simp only [List.mem_singleton] at hb; subst hb; subst e; exact hk ha⟩

/-- a Go map (pairwise different keys) reads the value it stores -/
theorem map1Get_of_mem_nodup (m : Map1) (hnd : (m.map (·.1)).Nodup) (k : Text) (v : Int)
    (h : (k, v) ∈ m) : map1Get m k = v := by
  induction m with
  | nil => cases h
  | cons q m ih =>
    obtain ⟨k', v'⟩ := q
    simp only [List.map_cons, List.nodup_cons] at hnd
    rcases List.mem_cons.mp h with heq | hm
    · obtain ⟨rfl, rfl⟩ := Prod.mk.inj heq
      simp [map1Get]
    · have hne : ¬ k' = k := fun e => hnd.1 (e ▸ List.mem_map.mpr ⟨(k, v), hm, rfl⟩)
      simp only [map1Get, hne, ↓reduceIte]
      exact ih hnd.2 hm

/-- a key of the map is stored with the value the map reads -/
theorem mem_map1Get_of_key (m : Map1) (k : Text) (h : k ∈ m.map (·.1)) : (k, map1Get m k) ∈ m := by
  induction m with
  | nil => cases h
  | cons q m ih =>
    obtain ⟨k', v'⟩ := q
    by_cases hk : k' = k
    · subst hk; simp [map1Get]
    · have : k ∈ m.map (·.1) := by
        rcases List.mem_cons.mp h with h' | h'
        · exact absurd h'.symm hk
        · exact h'
      simp only [map1Get, hk, ↓reduceIte]
      exact List.mem_cons_of_mem _ (ih this)

theorem map2Has_iff_key (m : Map2) (a : Text) : map2Has m a = true ↔ a ∈ m.map (·.1) := by
  simp only [map2Has, List.any_eq_true, decide_eq_true_eq, List.mem_map]

/-- the keys of the outer map after `m[a] = inner` -/
theorem mem_keys_map2SetInner (m : Map2) (a q : Text) (i : Map1) :
    q ∈ (map2SetInner m a i).map (·.1) ↔ q ∈ m.map (·.1) ∨ q = a := by
  rw [← map2Has_iff_key, map2Has_setInner, Bool.or_eq_true, map2Has_iff_key, decide_eq_true_eq]

/-- `regEnsure` changes no inner map of `cleanup` (it creates an EMPTY one where none existed) -/
theorem regEnsure_inner_cleanup (r : Registry) (p q : Text)
    (hh : map2Has r.running p = map2Has r.cleanup p) :
    map2Inner (regEnsure r p).cleanup q = map2Inner r.cleanup q := by
  unfold regEnsure
  cases h : map2Has r.running p with
  | true => simp
  | false =>
    simp only [Bool.false_eq_true, ↓reduceIte, map2Inner_setInner]
    split
    · rename_i e; subst e
      exact (map2Inner_of_not_has _ _ (hh ▸ h)).symm
    · rfl

theorem regEnsure_keys_cleanup (r : Registry) (p q : Text)
    (hh : map2Has r.running p = map2Has r.cleanup p) :
    q ∈ (regEnsure r p).cleanup.map (·.1) ↔ q ∈ r.cleanup.map (·.1) ∨ q = p := by
  unfold regEnsure
  cases h : map2Has r.running p with
  | true =>
    simp only [↓reduceIte]
    constructor
    · exact Or.inl
    · rintro (h' | rfl)
      · exact h'
      · exact (map2Has_iff_key _ _).mp (hh ▸ h)
  | false =>
    simp only [Bool.false_eq_true, ↓reduceIte]
    exact mem_keys_map2SetInner _ _ _ _

/-- the inner maps of `cleanup` after `getTestID(p, n)`: `cleanup[p][n]` is assigned, nothing else -/
theorem regBumped_inner_cleanup (r : Registry) (p n q : Text)
    (hh : map2Has r.running p = map2Has r.cleanup p) :
    map2Inner (regBumped r p n).cleanup q =
      if q = p then map1Set (map2Inner r.cleanup p) n (map2Get (regEnsure r p).cleanup p n + 1)
      else map2Inner r.cleanup q := by
  unfold regBumped map2Put
  simp only [map2Inner_setInner, regEnsure_inner_cleanup r p _ hh]

theorem regBumped_keys_cleanup (r : Registry) (p n q : Text)
    (hh : map2Has r.running p = map2Has r.cleanup p) :
    q ∈ (regBumped r p n).cleanup.map (·.1) ↔ q ∈ r.cleanup.map (·.1) ∨ q = p := by
  unfold regBumped map2Put
  simp only [mem_keys_map2SetInner, regEnsure_keys_cleanup r p q hh, or_assoc, or_self]

/-- the files of the model's flat cleanup list after `cleanup[(p, n)] = v` -/
theorem mem_paths_alSet (cl : List (RegKey × Nat)) (p n q : Text) (v : Nat) :
    q ∈ (alSet cl (p, n) v).map (·.1.1) ↔ q ∈ cl.map (·.1.1) ∨ q = p := by
  have hmap : ∀ l : List (RegKey × Nat), l.map (·.1.1) = (l.map (·.1)).map (·.1) := fun l => by
    rw [List.map_map]; rfl
  rw [hmap, hmap, List.mem_map, List.mem_map]
  constructor
  · rintro ⟨k, hk, rfl⟩
    rcases (mem_keys_alSet _ _ _ _).mp hk with h | rfl
    · exact Or.inl ⟨k, h, rfl⟩
    · exact Or.inr rfl
  · rintro (⟨k, hk, rfl⟩ | rfl)
    · exact ⟨k, (mem_keys_alSet _ _ _ _).mpr (Or.inl hk), rfl⟩
    · exact ⟨(q, n), (mem_keys_alSet _ _ _ _).mpr (Or.inr rfl), rfl⟩

/-! ## 2. `CleanInv`: what `CleanRel` asks beyond `StRel`, as an invariant of `goStep`

`StRel` (the relation the flows are proved against) compares the registries READ BY READ
(`map2Get r.cleanup p n = alGet cleanup (p, n)`): enough for `getTestID`, which only reads and writes single
keys.  `Clean` RANGES over `testsRegistry.cleanup[p]` (`occurrences`), so its ties ask for the same
(test, counter) PAIRS (`RegCorr`), the same keys of the outer map (`CleanRel.regKeys`), and a well-formed
`testEvents.items` (`EventsWF`: `len(items)` decides whether the summary is printed).  None of this follows
from reads alone (a key stored with counter 0 reads like a missing key).  It is true of every REACHABLE
state, and that is what is proved here. -/

structure CleanInv (st : St) (w : World) : Prop where
  /-- Go maps have pairwise different keys -/
  innerNodup : ∀ p, ((map2Inner st.reg.cleanup p).map (·.1)).Nodup
  clNodup : (w.cleanup.map (·.1)).Nodup
  /-- `testsRegistry.cleanup[p]` has a key for exactly the tests the model registered for `p` -/
  innerKeys : ∀ p n, n ∈ (map2Inner st.reg.cleanup p).map (·.1) ↔ (p, n) ∈ w.cleanup.map (·.1)
  outerKeys : ∀ p, p ∈ st.reg.cleanup.map (·.1) ↔ p ∈ w.cleanup.map (·.1.1)
  sreg : ∀ x, x ∈ st.sreg.cleanup ↔ x ∈ intImage w.scleanup
  eventsWF : EventsWF st.events

/-- `newRegistry()`, `newStandaloneRegistry()`, no event yet -/
theorem CleanInv_init (env : Env) (fs : FS) : CleanInv (freshSt env fs) { env := env, fs := fs } where
  innerNodup _ := List.nodup_nil
  clNodup := List.nodup_nil
  innerKeys _ _ := by simp [map2Inner]
  outerKeys _ := by simp
  sreg _ := by simp [intImage]
  eventsWF := EventsWF_nil

/-- with pairwise different keys on both sides and the same keys, equal READS give equal PAIRS -/
theorem regCorr_of {st : St} {w : World} (hr : RegRel st.reg w.running w.cleanup) (hi : CleanInv st w)
    (p : Text) : RegCorr st.reg.cleanup w.cleanup p := by
  intro x
  obtain ⟨n, v⟩ := x
  have hread : map1Get (map2Inner st.reg.cleanup p) n = ((alGet w.cleanup (p, n) : Nat) : Int) :=
    hr.cleanup p n
  have hmine : ∀ v' : Nat, (n, v') ∈ mineOf w.cleanup p ↔ ((p, n), v') ∈ w.cleanup := by
    intro v'
    unfold mineOf
    constructor
    · intro hm
      obtain ⟨⟨⟨p', n'⟩, v''⟩, hm2, heq⟩ := List.mem_map.mp hm
      obtain ⟨hm3, hp⟩ := List.mem_filter.mp hm2
      simp only [decide_eq_true_eq] at hp
      simp only [Prod.mk.injEq] at heq
      obtain ⟨rfl, rfl⟩ := heq
      subst hp
      exact hm3
    · intro hm
      exact List.mem_map.mpr ⟨((p, n), v'), List.mem_filter.mpr ⟨hm, by simp⟩, rfl⟩
  constructor
  · intro hx
    have hk : n ∈ (map2Inner st.reg.cleanup p).map (·.1) := List.mem_map.mpr ⟨(n, v), hx, rfl⟩
    have hv : map1Get (map2Inner st.reg.cleanup p) n = v := map1Get_of_mem_nodup _ (hi.innerNodup p) n v hx
    have hm := mem_alGet_of_key w.cleanup (p, n) ((hi.innerKeys p n).mp hk)
    unfold intImage
    refine List.mem_map.mpr ⟨(n, alGet w.cleanup (p, n)), (hmine _).mpr hm, ?_⟩
    simp only [Prod.mk.injEq, true_and]
    rw [← hread, hv]
  · intro hx
    unfold intImage at hx
    obtain ⟨⟨n', v'⟩, hm, heq⟩ := List.mem_map.mp hx
    simp only [Prod.mk.injEq] at heq
    obtain ⟨rfl, rfl⟩ := heq
    have hm' := (hmine v').mp hm
    have hk : n' ∈ (map2Inner st.reg.cleanup p).map (·.1) :=
      (hi.innerKeys p n').mpr (List.mem_map.mpr ⟨((p, n'), v'), hm', rfl⟩)
    have := mem_map1Get_of_key _ n' hk
    rw [hread, alGet_of_mem_nodup w.cleanup hi.clNodup (p, n') v' hm'] at this
    exact this

/-- **`StRel` + `CleanInv` = `CleanRel`**: the hypotheses of the `Clean` ties about the state -/
theorem CleanRel_of {st : St} {w : World} (h : StRel st w) (hi : CleanInv st w) : CleanRel st w where
  env := h.env
  fs := h.fs
  skipped := h.skipped
  reg := regCorr_of h.reg hi
  regKeys := hi.outerKeys
  sreg := hi.sreg
  passed := h.passed
  erred := h.erred
  added := h.added
  updated := h.updated
  eventsWF := hi.eventsWF

/-- a Match* call that consumed the ordinal of `(p, n)` preserves the invariant -/
theorem CleanInv.call {st st' : St} {w w' : World} (hi : CleanInv st w)
    (hh : ∀ q, map2Has st.reg.running q = map2Has st.reg.cleanup q)
    (p n : Text) (hreg : st'.reg = regBumped st.reg p n) (hsreg : st'.sreg = st.sreg)
    (hev : Outcome st st')
    (hcl : w'.cleanup = alSet w.cleanup (p, n) (alGet w.cleanup (p, n) + 1))
    (hscl : w'.scleanup = w.scleanup) : CleanInv st' w' where
  innerNodup q := by
    rw [hreg, regBumped_inner_cleanup _ _ _ _ (hh p)]
    split
    · exact nodup_keys_map1Set _ _ _ (hi.innerNodup p)
    · exact hi.innerNodup q
  clNodup := by rw [hcl]; exact nodup_keys_alSet _ _ _ hi.clNodup
  innerKeys q m := by
    rw [hreg, regBumped_inner_cleanup _ _ _ _ (hh p), hcl, mem_keys_alSet]
    by_cases hq : q = p
    · subst hq
      simp only [↓reduceIte, mem_keys_map1Set, hi.innerKeys, Prod.mk.injEq, true_and]
    · simp only [hq, ↓reduceIte, hi.innerKeys, Prod.mk.injEq, false_and, or_false]
  outerKeys q := by
    rw [hreg, regBumped_keys_cleanup _ _ _ _ (hh p), hcl, mem_paths_alSet, hi.outerKeys]
  sreg x := by rw [hsreg, hscl]; exact hi.sreg x
  eventsWF := by
    cases hev with
    | erred msg hev _ => rw [hev]; exact EventsWF.register hi.eventsWF kErred (Or.inr (Or.inl rfl))
    | added hev _ => rw [hev]; exact EventsWF.register hi.eventsWF kAdded (Or.inr (Or.inr (Or.inl rfl)))
    | updated hev _ => rw [hev]; exact EventsWF.register hi.eventsWF kUpdated (Or.inr (Or.inr (Or.inr rfl)))
    | passed hev _ => rw [hev]; exact EventsWF.register hi.eventsWF kPassed (Or.inl rfl)

/-- a step that leaves the cleanup registries and the event counters alone preserves the invariant -/
theorem CleanInv.frame {st st' : St} {w w' : World} (hi : CleanInv st w)
    (h1 : st'.reg.cleanup = st.reg.cleanup) (h2 : st'.sreg.cleanup = st.sreg.cleanup)
    (h3 : st'.events = st.events) (h4 : w'.cleanup = w.cleanup) (h5 : w'.scleanup = w.scleanup) :
    CleanInv st' w' where
  innerNodup q := by rw [h1]; exact hi.innerNodup q
  clNodup := by rw [h4]; exact hi.clNodup
  innerKeys q m := by rw [h1, h4]; exact hi.innerKeys q m
  outerKeys q := by rw [h1, h4]; exact hi.outerKeys q
  sreg x := by rw [h2, h5]; exact hi.sreg x
  eventsWF := by rw [h3]; exact hi.eventsWF

/-- what the end of a test execution leaves alone (every failure oracle: no I/O is involved) -/
theorem runCleanups_frame {st st' : St} {id : Nat} (e : runCleanups st id = some st') :
    st'.reg.cleanup = st.reg.cleanup ∧ st'.sreg.cleanup = st.sreg.cleanup ∧ st'.events = st.events ∧
    st'.env = st.env ∧ st'.fs = st.fs ∧ st'.skipped = st.skipped ∧ st'.stdout = st.stdout := by
  unfold runCleanups at e
  cases h : runCleanupList st ((st.cleanups.filter (·.1 = id)).map (·.2)) with
  | none => rw [h] at e; cases e
  | some s1 =>
    rw [h] at e
    simp only [Option.map_some, Option.some.injEq] at e
    subst e
    have f := (runCleanupList_spec _ h).1
    exact ⟨f.cleanup, f.scleanup, f.events, f.env, f.fs, f.skipped, f.stdout⟩

/-- **a `Match*` step, every failure oracle**: the registry is `getTestID`'s (`regBumped`, on the path the
    MODEL computes: `snapshotPath_tied`), exactly one event is registered, nothing else but the file
    system and the report to `testing.T` changes -/
theorem goStep_call_regs (io : IOFail) (c : Cfg) (caller : Text) (st st' : St) (t s : Text) (cmp : Cmp)
    (x : Nat) (e : goStep io c caller st (.call t s cmp x) = some st') :
    st'.reg = regBumped st.reg (GoSnaps.snapshotPath c caller t false).1 t ∧ st'.sreg = st.sreg ∧
    Outcome st st' ∧ st'.env = st.env ∧ st'.skipped = st.skipped ∧ st'.stdout = st.stdout := by
  have key : ∀ r' id, syncRegistry_getTestID st.reg
      (Generated.Funcs.snapshotPath false caller c t false).1 t = some (r', id) →
      r' = regBumped st.reg (GoSnaps.snapshotPath c caller t false).1 t := by
    intro r' id hg
    rw [snapshotPath_tied, syncRegistry_getTestID_eq] at hg
    split at hg
    · cases hg
    · simp only [Option.some.injEq, Prod.mk.injEq] at hg
      exact hg.1.symm
  cases cmp with
  | raw =>
    have e' : matchJSON io st false caller (fun _ d => (d, [])) (fun i => (i, Err.nil)) (fun _ j => j) c
        ⟨t, x⟩ s [] = some st' := e
    obtain ⟨r', id, hg, he, ho⟩ := matchJSON_outcome io st st' false caller _ _ _ c ⟨t, x⟩ s [] e'
    exact ⟨he.reg.trans (key r' id hg), he.sreg, ho.outcome, he.env, he.skipped, he.stdout⟩
  | escaped =>
    have e' : matchYAML io st false caller (fun _ d => (d, [])) (fun i => (i, Err.nil)) c
        ⟨t, x⟩ (unescape s) [] = some st' := e
    obtain ⟨r', id, hg, he, ho⟩ := matchYAML_outcome io st st' false caller _ _ c ⟨t, x⟩ (unescape s) [] e'
    exact ⟨he.reg.trans (key r' id hg), he.sreg, ho.outcome, he.env, he.skipped, he.stdout⟩

/-- **one step**: `goStep_simulates` with the invariant carried along -/
theorem goStep_cleanInv {st : St} {w : World} (h : StRel st w) (hi : CleanInv st w) (c : Cfg) (caller : Text)
    (s : Step) (hok : StepOK s) (hs : ∀ o ∈ (C01World.step c caller w s).2, o.unsupported = none) :
    ∃ st', goStep IOFail.never c caller st s = some st' ∧ StRel st' (C01World.step c caller w s).1 ∧
      CleanInv st' (C01World.step c caller w s).1 ∧
      st'.tev = st.tev ++ ((C01World.step c caller w s).2.map (·.events)).flatten := by
  obtain ⟨st', e, hr, ht⟩ := goStep_simulates h c caller s hok hs
  refine ⟨st', e, hr, ?_, ht⟩
  cases s with
  | call t txt cmp x =>
    obtain ⟨g1, g2, g3, _⟩ := goStep_call_regs IOFail.never c caller st st' t txt cmp x e
    obtain ⟨_, m2, _⟩ := matchEntry_regs w c caller t x cmp (.ok txt)
    exact hi.call h.reg.has _ t g1 g2 g3 m2 (matchEntry_scleanup w c caller t x cmp (.ok txt))
  | done x =>
    obtain ⟨f1, f2, f3, _⟩ := runCleanups_frame e
    exact hi.frame f1 f2 f3 (endTest_cleanup w x) (endTest_scleanup w x)

/-- **histories**: `goRun_simulates'` with the invariant carried along -/
theorem goRun_cleanInv (c : Cfg) (caller : Text) (h : List Step) : ∀ {st : St} {w : World}, StRel st w →
    CleanInv st w → HistOK h → (∀ o ∈ (C01World.run c caller w h).2, o.unsupported = none) →
    ∃ st', goRun IOFail.never c caller st h = some st' ∧ StRel st' (C01World.run c caller w h).1 ∧
      CleanInv st' (C01World.run c caller w h).1 ∧
      st'.tev = st.tev ++ ((C01World.run c caller w h).2.map (·.events)).flatten := by
  induction h with
  | nil => intro st w hr hi _ _; exact ⟨st, rfl, hr, hi, by simp [C01World.run]⟩
  | cons s h ih =>
    intro st w hr hi hok hs
    simp only [C01World.run] at hs ⊢
    obtain ⟨s1, e1, r1, i1, t1⟩ := goStep_cleanInv hr hi c caller s (hok s (by simp))
      (fun o ho => hs o (List.mem_append.mpr (Or.inl ho)))
    obtain ⟨s2, e2, r2, i2, t2⟩ := ih r1 i1 (fun s' hs' => hok s' (List.mem_cons_of_mem _ hs'))
      (fun o ho => hs o (List.mem_append.mpr (Or.inr ho)))
    refine ⟨s2, ?_, r2, i2, ?_⟩
    · simp only [goRun, e1, Option.bind_some]; exact e2
    · rw [t2, t1]; simp

/-! ## 3. one snapshot file: the model covers every call; the registry after the run -/

/-- the shared tail of the entry flows is always covered by the model (`frameFmt` never fails; a file
    in which an entry was found exists) -/
theorem entryTail_supported (w : World) (c : Cfg) (p rel id s : Text) (cmp : Cmp) :
    (entryTail w c p rel id s cmp).2.unsupported = none := by
  unfold entryTail
  rw [frameFmt_eq]
  cases h1 : (fsRead w.fs p).bind (getPrev id) with
  | none =>
    simp only
    split <;> rfl
  | some pl =>
    obtain ⟨prev, line⟩ := pl
    cases h2 : fsRead w.fs p with
    | none => rw [h2] at h1; simp at h1
    | some file =>
      cases cmp <;> simp only <;> (split; · rfl) <;> split <;> rfl

/-- when the relative path exists (absolute caller and snapshot directory) the model covers EVERY call of
    EVERY history: the hypothesis `unsupported = none` of `goRun_simulates` is discharged -/
theorem run_supported (c : Cfg) (caller p rel : Text)
    (hsp : ∀ t, snapshotPath c caller t false = (p, some rel)) (h : List Step) :
    ∀ w : World, ∀ o ∈ (C01World.run c caller w h).2, o.unsupported = none := by
  induction h with
  | nil => intro w o ho; simp [C01World.run] at ho
  | cons s h ih =>
    intro w o ho
    simp only [C01World.run] at ho
    rcases List.mem_append.mp ho with ho | ho
    · cases s with
      | call t txt cmp x =>
        simp only [C01World.step, List.mem_singleton] at ho
        subst ho
        rw [matchEntry_eq w c caller t x cmp txt p rel (hsp t)]
        exact entryTail_supported _ _ _ _ _ _ _
      | done x => simp [C01World.step] at ho
    · exact ih _ o ho

/-- what no step of a history touches, for EVERY failure oracle -/
theorem goStep_frame (io : IOFail) (c : Cfg) (caller : Text) (st st' : St) (s : Step)
    (e : goStep io c caller st s = some st') :
    st'.env = st.env ∧ st'.skipped = st.skipped ∧ st'.stdout = st.stdout := by
  cases s with
  | call t txt cmp x =>
    obtain ⟨_, _, _, a, b, d⟩ := goStep_call_regs io c caller st st' t txt cmp x e
    exact ⟨a, b, d⟩
  | done x =>
    obtain ⟨_, _, _, a, _, b, d⟩ := runCleanups_frame e
    exact ⟨a, b, d⟩

theorem goRun_frame (io : IOFail) (c : Cfg) (caller : Text) (h : List Step) : ∀ (st st' : St),
    goRun io c caller st h = some st' →
    st'.env = st.env ∧ st'.skipped = st.skipped ∧ st'.stdout = st.stdout := by
  induction h with
  | nil => intro st st' e; cases e; exact ⟨rfl, rfl, rfl⟩
  | cons s h ih =>
    intro st st' e
    cases h1 : goStep io c caller st s with
    | none => rw [goRun, h1] at e; cases e
    | some s1 =>
      rw [goRun, h1] at e
      obtain ⟨a1, a2, a3⟩ := goStep_frame io c caller st s1 s h1
      obtain ⟨b1, b2, b3⟩ := ih s1 st' e
      exact ⟨b1.trans a1, b2.trans a2, b3.trans a3⟩

/-- **the states `goRun` reaches** from a fresh process whose Match* calls all address the snapshot file
    `p`: `run` (it does not panic), in `StRel` AND `CleanRel` with the world the model's run reaches, whose
    cleanup registry is `RegInv` (keys on `p` only, counter of a test = its number of calls, no standalone
    snapshot registered) -/
structure Reached (env : Env) (fs₀ : FS) (c : Cfg) (caller p : Text) (h : List Step) (st1 : St) : Prop where
  run : goRun IOFail.never c caller (freshSt env fs₀) h = some st1
  rel : StRel st1 (C01World.run c caller { env := env, fs := fs₀ } h).1
  crel : CleanRel st1 (C01World.run c caller { env := env, fs := fs₀ } h).1
  reg : RegInv p (C01World.run c caller { env := env, fs := fs₀ } h).1 (calledNames h).reverse
  env : st1.env = env
  skipped : st1.skipped = []
  stdout : st1.stdout = []

/-- **`goRun` maintains everything the `Clean` ties ask of the state** (no hypothesis on the mode, on the
    initial file system or on what the calls find; `hsp`: the calls address `p` and a relative path exists;
    `HistOK`: an escaped-mode text is the stored form of a document) -/
theorem goRun_reached (env : Env) (fs₀ : FS) (c : Cfg) (caller p rel : Text) (h : List Step)
    (hsp : ∀ t, snapshotPath c caller t false = (p, some rel)) (hok : HistOK h) :
    ∃ st1, Reached env fs₀ c caller p h st1 := by
  obtain ⟨st1, e, r, i, _⟩ := goRun_cleanInv c caller h (StRel_init env fs₀) (CleanInv_init env fs₀) hok
    (run_supported c caller p rel hsp h _)
  have hreg := run_regInv c caller p (fun t => by rw [hsp t]) h _ [] (RegInv.fresh p env fs₀)
  rw [List.append_nil] at hreg
  obtain ⟨f1, f2, f3⟩ := goRun_frame _ _ _ _ _ _ e
  exact ⟨st1, e, r, CleanRel_of r i, hreg, f1, f2, f3⟩

/-! ## 4. the composition: `Clean` in a reached state is the model's `clean` -/

/-- no `-run` filter: the parser table is not consulted (any `parseFile` is sound for the empty table) -/
theorem parseSound_empty (parseFile : Text → List GoDecl × Err) : ParseSound {} parseFile :=
  fun p key entry h => by simp at h

/-- no `-run` filter: the model answers "matched" without a table, so soundness of the regexp function
    is: the empty pattern matches every string -/
theorem oracleSound_noRun (re : Text → Text → Bool × Bool) (hre : ∀ s, (re [] s).1 = true) :
    OracleSound {} re [] := by
  intro s b h
  simp only [Oracles.reMatch, ↓reduceIte, Option.some.injEq] at h
  rw [hre s, h]

/-- what `Clean` prints for a summary text: the text and `Println`'s newline — or nothing -/
def summaryLine (s : Text) : Text := if s = [] then [] else s ++ [10]

/-- the model's `cleanStdout`, in terms of the TRANSLITERATED `summary` on the Go state -/
theorem cleanStdout_go {st : St} {w : World} (hrel : CleanRel st w) (sortOpt : Bool) (obsF obsT : List Text) :
    cleanStdout w sortOpt obsF obsT =
      summaryLine (Generated.FuncsIO.summary obsF obsT (GoSem.len st.skipped) st.events (cleanUpd st)) := by
  have hlen : GoSem.len st.skipped = ((st.skipped.length : Nat) : Int) := rfl
  have hupd : cleanUpd st = Generated.summaryUpdate w.env sortOpt := by
    unfold cleanUpd Generated.summaryUpdate; rw [hrel.env]
  rw [hlen, summary_tied_wf obsF obsT st.skipped.length st.events w.events (cleanUpd st) hrel.eventsWF
    hrel.passed hrel.erred hrel.added hrel.updated, hupd, hrel.skipped]
  rfl

/-- every registered path is `p` and no standalone snapshot is registered: one directory -/
theorem oneDir_of_keys (w : World) (p : Text) (hkeys : ∀ kv ∈ w.cleanup, kv.1.1 = p) (hs : w.scleanup = [])
    (cnt : Nat) : ∀ standalone, GoSnaps.occurrences w.scleanup cnt standaloneOccFmt = some standalone →
      ∀ q ∈ cleanRegPaths w ++ standalone, fpDir q = fpDir p := by
  intro standalone hocc q hq
  rw [hs, CleanWorld.occurrences_nil] at hocc
  cases hocc
  rw [List.append_nil] at hq
  obtain ⟨kv, hkv, rfl⟩ := List.mem_map.mp (mem_dedup _ _ hq)
  rw [hkeys kv hkv]

/-- **`Clean` on one snapshot file**: from a state in `CleanRel` with a world whose registry knows only the
    file `p`, under `IOFail.never`, no `-run` filter: the transliterated `Clean` is the model's `clean` -/
theorem Clean_oneFile {st : St} {w : World} (hrel : CleanRel st w) (p : Text)
    (hkeys : ∀ kv ∈ w.cleanup, kv.1.1 = p) (hs : w.scleanup = [])
    (parseFile : Text → List GoDecl × Err) (re : Text → Text → Bool × Bool) (cnt : Nat) (err : Err)
    (opts : List Bool) (hcnt : cnt > 0) (hre : ∀ s, (re [] s).1 = true)
    (hj : cleanUpd st = true → JoinFaithful (fpDir p))
    (hsup : (GoSnaps.clean {} w (opts.head?.getD false) [] cnt).2.unsupported = none) :
    Generated.FuncsIO.Clean IOFail.never st parseFile re [] ((cnt : Int), err) () opts =
      some { st with
        fs := (GoSnaps.clean {} w (opts.head?.getD false) [] cnt).1.fs,
        stdout := st.stdout ++ (GoSnaps.clean {} w (opts.head?.getD false) [] cnt).2.stdout } :=
  Clean_tied_one_dir {} st w parseFile re [] cnt err opts hrel hcnt (parseSound_empty parseFile)
    (oracleSound_noRun re hre) (fpDir p) (oneDir_of_keys w p hkeys hs cnt) hj hsup

/-- **the composition.**  In a state reached by `goRun`, under `IOFail.never`, with no `-run` filter and any
    `-count > 0`, any sort option: the transliterated `Clean` does not panic and IS the model's `clean` of the
    world the model's run reaches (file system and printed text); nothing else of the state changes.
    Remaining hypotheses: `hre` (the function standing for `regexp.MatchString` matches the empty pattern —
    an oracle, not go-snaps code), `hj` (clean mode: `filepath.Join` is faithful on the snapshot directory:
    `joinFaithful_abs`, every absolute clean directory), `hsup` (the model covers the call: discharged by
    `Reached.supported` from facts about the snapshot file). -/
theorem Clean_reached {env : Env} {fs₀ : FS} {c : Cfg} {caller p : Text} {h : List Step} {st1 : St}
    (hr : Reached env fs₀ c caller p h st1)
    (parseFile : Text → List GoDecl × Err) (re : Text → Text → Bool × Bool) (cnt : Nat) (err : Err)
    (opts : List Bool) (hcnt : cnt > 0) (hre : ∀ s, (re [] s).1 = true)
    (hj : (Generated.shouldClean env && !env.isCI) = true → JoinFaithful (fpDir p))
    (hsup : (GoSnaps.clean {} (C01World.run c caller { env := env, fs := fs₀ } h).1
      (opts.head?.getD false) [] cnt).2.unsupported = none) :
    Generated.FuncsIO.Clean IOFail.never st1 parseFile re [] ((cnt : Int), err) () opts =
      some { st1 with
        fs := (GoSnaps.clean {} (C01World.run c caller { env := env, fs := fs₀ } h).1
          (opts.head?.getD false) [] cnt).1.fs,
        stdout := st1.stdout ++ (GoSnaps.clean {} (C01World.run c caller { env := env, fs := fs₀ } h).1
          (opts.head?.getD false) [] cnt).2.stdout } :=
  Clean_oneFile hr.crel p hr.reg.keys hr.reg.sclean parseFile re cnt err opts hcnt hre
    (fun hu => hj (by unfold cleanUpd at hu; rw [hr.env] at hu; exact hu)) hsup

/-- a history without calls registers nothing -/
theorem run_cleanup_of_no_calls (c : Cfg) (caller : Text) (h : List Step) (hn : calledNames h = []) :
    ∀ w : World, (C01World.run c caller w h).1.cleanup = w.cleanup := by
  induction h with
  | nil => intro w; rfl
  | cons s h ih =>
    intro w
    cases s with
    | call t txt cmp x => simp [calledNames] at hn
    | done x =>
      simp only [C01World.run, C01World.step]
      rw [ih (by simpa [calledNames] using hn), endTest_cleanup]

/-- **`hsup` discharged**: the model covers `Clean` in a reached state as soon as the snapshot file holds a
    well-formed entry list after the run (`Holds`, `CleanFile`), exists if any call was made, and — if `Sort`
    is requested — `natural.Less` is a total order on its ids (otherwise `slices.SortFunc` promises nothing
    and the model has no answer: `C10.natLt_not_total`) -/
theorem Reached.supported {env : Env} {fs₀ : FS} {c : Cfg} {caller p : Text} {h : List Step} {st1 : St}
    (hr : Reached env fs₀ c caller p h st1) (sortOpt : Bool) (cnt : Nat) (hcnt : cnt > 0) (es : List Entry)
    (hfile : Holds st1.fs p es) (hf : CleanFile es)
    (hex : calledNames h ≠ [] → fsRead st1.fs p ≠ none)
    (hto : sortOpt = true → TotalOn (es.map tidOf)) :
    (GoSnaps.clean {} (C01World.run c caller { env := env, fs := fs₀ } h).1 sortOpt [] cnt).2.unsupported =
      none := by
  refine clean_supported_noRun {} _ sortOpt cnt p es hcnt hr.reg.keys hr.reg.sclean hf (hr.rel.fs ▸ hfile)
    ?_ hto
  intro hne
  rw [← hr.rel.fs]
  apply hex
  intro hn
  exact hne (run_cleanup_of_no_calls c caller h hn _)

/-! ## 5. the properties, end to end

Setting of all theorems of this section: a fresh test process (`freshSt env fs₀`: `newRegistry()`, no event)
over ANY file system `fs₀`, in ANY environment `env`; all Match* calls of the history `h` are made under one
Config from one test file, hence address one snapshot file `p` (`hsp`); `IOFail.never`; `Clean` is called
without a `-run` filter.  The registries, the event counters, the skip list are NOT assumed to be in any
relation to anything: they are what `goRun` made them (`goRun_reached`).

Hypotheses that remain, and why:
* `hre : ∀ s, (re "" s).1 = true` — the function standing for `regexp.MatchString` matches the empty
  pattern (an oracle for the regexp library, not go-snaps code; `testSkipped` calls it even without `-run`);
* `hj` (only when files may be deleted) — `filepath.Join` is faithful on the snapshot directory
  (`joinFaithful_abs`: every absolute clean directory; it is about `filepath`, not about go-snaps);
* about the snapshot file AFTER the run (`FileAfter`): it holds a well-formed entry list (`CleanFile`: every
  header is one `getTestID` recognises — D11 otherwise —, escaped bodies, scanner-clean lines), exists if a
  call was made, and `natural.Less` is total on its ids if `Sort` is requested.  All but the last are
  discharged from hypotheses on the INPUTS (initial file, test names, texts): in the record scenario (§6)
  and for an arbitrary mix of modes (§7, `goRun_fileAfter`).  Totality of `natural.Less` stays a hypothesis:
  where it fails `slices.SortFunc` promises nothing and the model has no answer (`C10.natLt_not_total`). -/

/-- what the theorems of this section assume about the snapshot file after the run -/
structure FileAfter (fs : FS) (p : Text) (es : List Entry) (h : List Step) (sortOpt : Bool) : Prop where
  holds : Holds fs p es
  clean : CleanFile es
  exist : calledNames h ≠ [] → fsRead fs p ≠ none
  total : sortOpt = true → TotalOn (es.map tidOf)

/-- **C07, end to end: matched entries survive `Clean`.**

Run the history `h` with the transliterated flows, then the transliterated `Clean` with `-count = cnt`, any
sort option, in whatever mode `env` says (report, clean, CI).  Neither panics.  `Clean` changes only the
file system and `stdout`, and prints the summary of two lists `obsFiles`, `obsTests`.  Let the snapshot
file hold, after the run, the well-formed entry list `es` (`FileAfter`), and let `must` be entries of it
whose slot was addressed: `[t - k]` with `1 ≤ k ≤ (calls of t in h) / cnt` — with `-count = cnt` every test
function is executed `cnt` times, so this is "`k` is at most the number of calls of `t` per execution"; a
call that found or created its entry addressed such a slot.  Then after `Clean`
* no id of `must` is in the obsolete list that is printed, and
* the file `p` holds a well-formed entry list `es'` made of entries of `es` that contains every entry of
  `must` — same header, same body, hence the same replayed value.

That `es` exists — the flows leave a well-formed file — and that the slot of an entry a step found or created
is such a slot and is still in the file at the end of the run, is proved in §6 (record scenario) and §7 (any
mix of modes: `go_matched_survive_clean_any_mode`, `go_addressed_survive_clean`). -/
theorem go_matched_survive_clean (env : Env) (fs₀ : FS) (c : Cfg) (caller p rel : Text) (h : List Step)
    (parseFile : Text → List GoDecl × Err) (re : Text → Text → Bool × Bool) (cnt : Nat) (err : Err)
    (opts : List Bool)
    (hsp : ∀ t, snapshotPath c caller t false = (p, some rel)) (hok : HistOK h) (hcnt : cnt > 0)
    (hre : ∀ s, (re [] s).1 = true)
    (hj : (Generated.shouldClean env && !env.isCI) = true → JoinFaithful (fpDir p)) :
    ∃ st1, goRun IOFail.never c caller (freshSt env fs₀) h = some st1 ∧
    ∀ es, FileAfter st1.fs p es h (opts.head?.getD false) →
    ∃ (fs2 : FS) (obsFiles obsTests : List Text),
      Generated.FuncsIO.Clean IOFail.never st1 parseFile re [] ((cnt : Int), err) () opts =
        some { st1 with fs := fs2, stdout := st1.stdout ++ summaryLine (Generated.FuncsIO.summary obsFiles
          obsTests (GoSem.len st1.skipped) st1.events (cleanUpd st1)) } ∧
      ∀ must : List Entry, (∀ e ∈ must, e ∈ es) →
        (∀ e ∈ must, ∃ t k, e.id = testID t k ∧ 1 ≤ k ∧ k ≤ (calledNames h).count t / cnt) →
        (∀ e ∈ must, tidOf e ∉ obsTests) ∧
        ∃ es', Holds fs2 p es' ∧ CleanFile es' ∧ (∀ e ∈ must, e ∈ es') ∧ (∀ e ∈ es', e ∈ es) := by
  obtain ⟨st1, hr⟩ := goRun_reached env fs₀ c caller p rel h hsp hok
  refine ⟨st1, hr.run, fun es hfa => ?_⟩
  have hsup := hr.supported (opts.head?.getD false) cnt hcnt es hfa.holds hfa.clean hfa.exist hfa.total
  have hclean := Clean_reached hr parseFile re cnt err opts hcnt hre hj hsup
  obtain ⟨sa, fr, obsT, fs, wr, crun⟩ := clean_supported {} _ _ [] cnt hsup
  refine ⟨fs, fr.obsolete, obsT, ?_, ?_⟩
  · rw [hclean, crun.result, cleanStdout_go hr.crel]
  · intro must hall hcov
    have hcov' : ∀ e ∈ must, ∃ t k n, e.id = testID t k ∧ 1 ≤ k ∧ k ≤ n / cnt ∧
        ((p, t), n) ∈ (C01World.run c caller { env := env, fs := fs₀ } h).1.cleanup := by
      intro e he
      obtain ⟨t, k, hid, hk1, hk2⟩ := hcov e he
      have hpos : 0 < (calledNames h).count t := by
        rcases Nat.eq_zero_or_pos ((calledNames h).count t) with h0 | h0
        · rw [h0, Nat.zero_div] at hk2; omega
        · exact h0
      have hm := hr.reg.mem t (List.mem_reverse.mpr (List.count_pos_iff.mp hpos))
      rw [List.count_reverse] at hm
      exact ⟨t, k, _, hid, hk1, hk2, hm⟩
    obtain ⟨_, k2, ⟨es', e1, e2, e3, e4⟩, _⟩ := clean_keeps_count {} _ _ cnt p es must hr.reg.keys
      hr.reg.sclean hcov' hfa.clean (hr.rel.fs ▸ hfa.holds) hall sa fr obsT fs wr crun
    exact ⟨k2, es', e2, e1, e3, e4⟩

/-- **the slot a call addresses is a protected one (`-count=1`).**  In a history run from a fresh process,
    when the call of `t` that follows `h1` is made, the TRANSLITERATED `syncRegistry.getTestID` hands out the
    header `[t - k]` with `1 ≤ k ≤ (calls of t in the whole history)`: every entry that a step of the history
    found or created sits in a slot of the kind `must` ranges over in `go_matched_survive_clean` with
    `cnt = 1`.  (For `-count = cnt > 1` the history consists of `cnt` executions of every test function, each
    making the same calls; the ordinals of one execution are then at most `(calls of t) / cnt` — that
    arithmetic is the hypothesis on `must`, see the `-count=2` history of §8.) -/
theorem go_call_addresses (env : Env) (fs₀ : FS) (c : Cfg) (caller p rel : Text) (h1 h2 : List Step)
    (t s : Text) (cmp : Cmp) (x : Nat)
    (hsp : ∀ t, snapshotPath c caller t false = (p, some rel)) (hok : HistOK h1) :
    ∃ (mid : St) (k : Nat) (r' : Registry),
      goRun IOFail.never c caller (freshSt env fs₀) h1 = some mid ∧
      syncRegistry_getTestID mid.reg p t = some (r', testID t k) ∧ 1 ≤ k ∧
      k ≤ (calledNames (h1 ++ .call t s cmp x :: h2)).count t / 1 := by
  obtain ⟨mid, e, r, _⟩ := goRun_simulates' c caller h1 (StRel_init env fs₀) hok
    (run_supported c caller p rel hsp h1 _)
  obtain ⟨r', id, hg, _, hid, _⟩ := syncRegistry_getTestID_tied mid.reg _ _ p t r.reg
  rw [C03.testID_eq] at hid
  cases hid
  refine ⟨mid, _, r', e, hg, by omega, ?_⟩
  rw [Nat.div_one]
  exact ordinal_le_calls env fs₀ c caller p (fun t => by rw [hsp t]) h1 h2 t s cmp x

/-! ### C09: without update nothing is removed -/

/-- what every state reached by `goRun` satisfies on the Go side alone, for EVERY failure oracle: inner
    maps of `running` and `cleanup` exist for the same paths, and only the file `p` has one -/
structure RegOnly (st : St) (p : Text) : Prop where
  has : ∀ q, map2Has st.reg.running q = map2Has st.reg.cleanup q
  keys : ∀ q ∈ st.reg.cleanup.map (·.1), q = p

theorem regBumped_has (r : Registry) (p n q : Text)
    (hh : ∀ q, map2Has r.running q = map2Has r.cleanup q) :
    map2Has (regBumped r p n).running q = map2Has (regBumped r p n).cleanup q := by
  simp only [regBumped, map2Has_put, regEnsure_has r p q hh]

theorem runCleanups_has {st st' : St} {id : Nat} (e : runCleanups st id = some st') (q : Text) :
    map2Has st'.reg.running q = map2Has st.reg.running q := by
  unfold runCleanups at e
  cases h : runCleanupList st ((st.cleanups.filter (·.1 = id)).map (·.2)) with
  | none => rw [h] at e; cases e
  | some s1 =>
    rw [h] at e
    simp only [Option.map_some, Option.some.injEq] at e
    subst e
    exact (runCleanupList_spec _ h).1.has q

theorem goStep_regOnly (io : IOFail) (c : Cfg) (caller p : Text)
    (hsp : ∀ t, (snapshotPath c caller t false).1 = p) (st st' : St) (s : Step) (hi : RegOnly st p)
    (e : goStep io c caller st s = some st') : RegOnly st' p := by
  cases s with
  | call t txt cmp x =>
    obtain ⟨g1, _⟩ := goStep_call_regs io c caller st st' t txt cmp x e
    rw [hsp t] at g1
    refine ⟨fun q => by rw [g1]; exact regBumped_has _ _ _ _ hi.has, fun q hq => ?_⟩
    rw [g1] at hq
    rcases (regBumped_keys_cleanup _ _ _ _ (hi.has p)).mp hq with h' | h'
    · exact hi.keys q h'
    · exact h'
  | done x =>
    obtain ⟨f1, _⟩ := runCleanups_frame e
    exact ⟨fun q => by rw [runCleanups_has e q, f1]; exact hi.has q, fun q hq => hi.keys q (f1 ▸ hq)⟩

theorem goRun_regOnly (io : IOFail) (c : Cfg) (caller p : Text)
    (hsp : ∀ t, (snapshotPath c caller t false).1 = p) (h : List Step) : ∀ (st st' : St), RegOnly st p →
    goRun io c caller st h = some st' → RegOnly st' p := by
  induction h with
  | nil => intro st st' hi e; cases e; exact hi
  | cons s h ih =>
    intro st st' hi e
    cases h1 : goStep io c caller st s with
    | none => rw [goRun, h1] at e; cases e
    | some s1 =>
      rw [goRun, h1] at e
      exact ih s1 st' (goStep_regOnly io c caller p hsp st s1 s hi h1) e

/-- **C09, every failure oracle (for the run AND for `Clean`), any `-run`, any `-count`, any sort option:
    in a mode that does not allow deletion nothing is removed.**

After ANY run of a history from a fresh process, if the mode is CI, or `UPDATE_SNAPS` is neither `true` nor
`clean`, a `Clean` that returns leaves the SET OF PATHS of the file system as it was (no file removed, none
created), leaves every file other than the snapshot file `p` byte-identical, and — without `Sort`, or on
CI — leaves the whole file system exactly as it was.  (With `Sort`, off CI, the content of `p` may change:
`go_no_update_no_loss` says how.)  No hypothesis on the file system, the texts, the oracles. -/
theorem go_no_update_no_removal (io io' : IOFail) (env : Env) (fs₀ : FS) (c : Cfg) (caller p : Text)
    (h : List Step) (hsp : ∀ t, (snapshotPath c caller t false).1 = p) (st1 st2 : St)
    (parseFile : Text → List GoDecl × Err) (re : Text → Text → Bool × Bool) (runFlag : Text)
    (countFlag : Int × Err) (opts : List Bool)
    (e1 : goRun io c caller (freshSt env fs₀) h = some st1)
    (hnd : (Generated.shouldClean env && !env.isCI) = false)
    (e2 : Generated.FuncsIO.Clean io' st1 parseFile re runFlag countFlag () opts = some st2) :
    (∀ q, (fsRead st2.fs q).isSome = (fsRead st1.fs q).isSome) ∧
    (∀ q, q ≠ p → fsRead st2.fs q = fsRead st1.fs q) ∧
    ((opts.head?.getD false = false ∨ env.isCI = true) → st2.fs = st1.fs) := by
  have henv : st1.env = env := (goRun_frame io c caller h _ _ e1).1
  have hro := goRun_regOnly io c caller p hsp h _ _
    ⟨fun _ => rfl, fun q hq => by simp at hq⟩ e1
  cases hci : env.isCI with
  | true =>
    have := Clean_ci_readonly io' st1 st2 parseFile re runFlag countFlag opts (by rw [henv]; exact hci) e2
    rw [this]
    exact ⟨fun _ => rfl, fun _ _ => rfl, fun _ => rfl⟩
  | false =>
    have hnc : Generated.shouldClean st1.env = false := by
      rw [henv]; rw [hci] at hnd; simpa using hnd
    obtain ⟨k1, k2, k3⟩ := Clean_no_update_no_removal io' st1 st2 parseFile re runFlag countFlag opts hnc e2
    refine ⟨k1, fun q hq => k2 q ?_, fun hno => k3 (by rw [henv, hci]; exact hno)⟩
    cases hh : map2Has st1.reg.cleanup q with
    | false => rfl
    | true => exact absurd (hro.keys q ((map2Has_iff_key _ _).mp hh)) hq

/-- the world reached has the environment of the process -/
theorem Reached.wenv {env : Env} {fs₀ : FS} {c : Cfg} {caller p : Text} {h : List Step} {st1 : St}
    (hr : Reached env fs₀ c caller p h st1) :
    (C01World.run c caller { env := env, fs := fs₀ } h).1.env = env := by
  rw [← hr.rel.env, hr.env]

/-- **C09, end to end (`IOFail.never`, no `-run` filter): without update no ENTRY is lost either.**

In a mode that does not allow deletion (CI, or `UPDATE_SNAPS` neither `true` nor `clean`), after any run,
with the snapshot file well-formed (`FileAfter`): `Clean` does not panic; the set of paths is unchanged;
every file other than `p` is byte-identical; without `Sort` (or on CI) the file system is exactly unchanged;
and with `Sort` the file `p` holds a PERMUTATION of the entries it held — stale ones included, each with its
header and body — and is again well-formed. -/
theorem go_no_update_no_loss (env : Env) (fs₀ : FS) (c : Cfg) (caller p rel : Text) (h : List Step)
    (parseFile : Text → List GoDecl × Err) (re : Text → Text → Bool × Bool) (cnt : Nat) (err : Err)
    (opts : List Bool)
    (hsp : ∀ t, snapshotPath c caller t false = (p, some rel)) (hok : HistOK h) (hcnt : cnt > 0)
    (hre : ∀ s, (re [] s).1 = true)
    (hnd : (Generated.shouldClean env && !env.isCI) = false) :
    ∃ st1, goRun IOFail.never c caller (freshSt env fs₀) h = some st1 ∧
    ∀ es, FileAfter st1.fs p es h (opts.head?.getD false) →
    ∃ (fs2 : FS) (obsFiles obsTests : List Text),
      Generated.FuncsIO.Clean IOFail.never st1 parseFile re [] ((cnt : Int), err) () opts =
        some { st1 with fs := fs2, stdout := st1.stdout ++ summaryLine (Generated.FuncsIO.summary obsFiles
          obsTests (GoSem.len st1.skipped) st1.events (cleanUpd st1)) } ∧
      (∀ q, (fsRead fs2 q).isSome = (fsRead st1.fs q).isSome) ∧
      (∀ q, q ≠ p → fsRead fs2 q = fsRead st1.fs q) ∧
      ((opts.head?.getD false = false ∨ env.isCI = true) → fs2 = st1.fs) ∧
      (fsRead st1.fs p = some (render es) →
        ∃ es', es'.Perm es ∧ CleanFile es' ∧ fsRead fs2 p = some (render es')) := by
  obtain ⟨st1, hr⟩ := goRun_reached env fs₀ c caller p rel h hsp hok
  refine ⟨st1, hr.run, fun es hfa => ?_⟩
  have hsup := hr.supported (opts.head?.getD false) cnt hcnt es hfa.holds hfa.clean hfa.exist hfa.total
  have hclean := Clean_reached hr parseFile re cnt err opts hcnt hre (fun hu => by rw [hnd] at hu; cases hu) hsup
  obtain ⟨sa, fr, obsT, fs, wr, crun⟩ := clean_supported {} _ _ [] cnt hsup
  have hclean' := hclean
  rw [crun.result, cleanStdout_go hr.crel] at hclean'
  obtain ⟨k1, k2, k3⟩ := go_no_update_no_removal IOFail.never IOFail.never env fs₀ c caller p h
    (fun t => by rw [hsp t]) st1 _ parseFile re [] ((cnt : Int), err) opts hr.run hnd hclean'
  refine ⟨fs, fr.obsolete, obsT, hclean', k1, k2, k3, fun hread => ?_⟩
  have hupdF : Generated.cleanFilesUpdate (C01World.run c caller { env := env, fs := fs₀ } h).1.env
      (opts.head?.getD false) = false := by
    unfold Generated.cleanFilesUpdate; rw [hr.wenv]; exact hnd
  have hupdS : Generated.cleanSnapsUpdate (C01World.run c caller { env := env, fs := fs₀ } h).1.env
      (opts.head?.getD false) = false := by
    unfold Generated.cleanSnapsUpdate; rw [hr.wenv]; exact hnd
  have hfs : fr.fs = (C01World.run c caller { env := env, fs := fs₀ } h).1.fs :=
    ((C09.examineFiles_untouched _ _ _ _ _ _ _ crun.files).2.1 hupdF).2
  have hsn := crun.snaps
  rw [hupdS, hfs, ← hr.rel.fs] at hsn
  have hused : ∀ q ∈ fr.used, q = p := used_all_p {} _ p hr.reg.keys [] [] _ fr (by
    have := crun.occ
    rw [hr.reg.sclean, CleanWorld.occurrences_nil] at this
    cases this
    exact crun.files)
  exact C09.no_update_no_loss_all {} st1.fs _ _ fr.used [] cnt _
    (fun _ _ registered _ tid => classified_noRun {} registered _ tid)
    (fun q hq => ⟨es, hfa.clean, by rw [hused q hq]; exact hread⟩) obsT fs wr hsn p es hfa.clean hread

/-! ### C10: a second `Clean` changes nothing -/

/-- `Clean` changes the file system and `stdout` only: the state after it is in `CleanRel` with the world
    after the model's `clean` -/
theorem CleanRel.after_clean {st : St} {w : World} (hrel : CleanRel st w) (fs : FS) (out : Text) :
    CleanRel { st with fs := fs, stdout := out } { w with fs := fs } :=
  ⟨hrel.env, rfl, hrel.skipped, hrel.reg, hrel.regKeys, hrel.sreg, hrel.passed, hrel.erred, hrel.added,
    hrel.updated, hrel.eventsWF⟩

/-- with one snapshot directory on which `filepath.Join` is faithful, `examineFiles` hands the registered
    file on at most once -/
theorem used_nil_or_single {st : St} {w : World} (hrel : CleanRel st w) (p : Text)
    (hkeys : ∀ kv ∈ w.cleanup, kv.1.1 = p) (hjf : JoinFaithful (fpDir p)) (fs : FS) (upd : Bool)
    (fr : FilesResult) (h : GoSnaps.examineFiles {} fs (cleanRegPaths w) [] [] upd = some fr) :
    fr.used = [] ∨ fr.used = [p] := by
  have hc := hrel.filesCorr {} (fun _ => ([], Err.nil)) (fun _ _ => (true, false)) []
    (parseSound_empty _) (oracleSound_noRun _ (fun _ => rfl)) [] [] (fun _ => Iff.rfl)
  have hall : ∀ d ∈ goDirs st.reg.cleanup [], d = fpDir p := by
    intro d hd
    have hd' := (goDirs_perm {} _ _ st.reg.cleanup [] (cleanRegPaths w) [] [] hc).mem_iff.mp hd
    have := (dedup_spec _).2 d |>.mp ((sortBytes_perm _).mem_iff.mp hd')
    rw [List.append_nil] at this
    obtain ⟨q, hq, rfl⟩ := List.mem_map.mp this
    obtain ⟨kv, hkv, rfl⟩ := List.mem_map.mp (mem_dedup _ _ hq)
    rw [hkeys kv hkv]
  have hw : (∀ d ∈ goDirs st.reg.cleanup [], JoinFaithful d) ∧ DirsIndependent (goDirs st.reg.cleanup []) :=
    ⟨fun d hd => hall d hd ▸ hjf, fun d hd d' hd' hne => absurd ((hall d hd).trans (hall d' hd').symm) hne⟩
  have hnd := examineFiles_used_nodup {} _ _ st.reg.cleanup [] (cleanRegPaths w) [] [] upd hc fs hw fr h
  have hsub : ∀ q ∈ fr.used, q = p := by
    intro q hq
    obtain ⟨kv, hkv, rfl⟩ := List.mem_map.mp (mem_dedup _ _ (examineFiles_used_sub _ _ _ _ _ _ _ h q hq))
    exact hkeys kv hkv
  exact nodup_all_eq _ p hnd hsub

/-- **C10, end to end: a second `Clean` changes nothing** (modes without deletion: report mode with or
    without `Sort`, CI).

After any run, with the snapshot file well-formed (`FileAfter`), the first `Clean` may sort the file; a
second `Clean` in the state the first one left (same process: same registries, same counters) does not panic
and leaves the file system EXACTLY as the first one left it.

`hjf` (`filepath.Join` is faithful on the snapshot directory) is used to know that the directory listing
names the snapshot file at most once.
PARTIAL in the mode: not proved for clean mode (`UPDATE_SNAPS=true|clean` off CI).  What is missing there is
a lemma about the model's `readDir` after `fsRemove` (the listing of the snapshot directory after the
obsolete files have been removed names no new obsolete file and still names `p` iff it did); at file level
the model theorem `C10.clean_idempotent` covers that mode. -/
theorem go_second_clean_changes_nothing (env : Env) (fs₀ : FS) (c : Cfg) (caller p rel : Text) (h : List Step)
    (parseFile : Text → List GoDecl × Err) (re : Text → Text → Bool × Bool) (cnt : Nat) (err : Err)
    (opts : List Bool)
    (hsp : ∀ t, snapshotPath c caller t false = (p, some rel)) (hok : HistOK h) (hcnt : cnt > 0)
    (hre : ∀ s, (re [] s).1 = true)
    (hnd : (Generated.shouldClean env && !env.isCI) = false) (hjf : JoinFaithful (fpDir p)) :
    ∃ st1, goRun IOFail.never c caller (freshSt env fs₀) h = some st1 ∧
    ∀ es, FileAfter st1.fs p es h (opts.head?.getD false) →
    ∃ st2, Generated.FuncsIO.Clean IOFail.never st1 parseFile re [] ((cnt : Int), err) () opts = some st2 ∧
    ∃ st3, Generated.FuncsIO.Clean IOFail.never st2 parseFile re [] ((cnt : Int), err) () opts = some st3 ∧
      st3.fs = st2.fs := by
  obtain ⟨st1, hr⟩ := goRun_reached env fs₀ c caller p rel h hsp hok
  refine ⟨st1, hr.run, fun es hfa => ?_⟩
  have hsup := hr.supported (opts.head?.getD false) cnt hcnt es hfa.holds hfa.clean hfa.exist hfa.total
  have hclean := Clean_reached hr parseFile re cnt err opts hcnt hre (fun _ => hjf) hsup
  obtain ⟨sa, fr, obsT, fs2, wr, crun⟩ := clean_supported {} _ _ [] cnt hsup
  have hsa : sa = [] := by
    have := crun.occ
    rw [hr.reg.sclean, CleanWorld.occurrences_nil] at this
    exact (Option.some.inj this).symm
  subst hsa
  rw [crun.result] at hclean
  refine ⟨_, hclean, ?_⟩
  -- the world and the state after the first `Clean`
  generalize hw1 : (C01World.run c caller { env := env, fs := fs₀ } h).1 = w1 at hsup crun hclean
  have hrel1 : CleanRel st1 w1 := hw1 ▸ hr.crel
  have hkeys : ∀ kv ∈ w1.cleanup, kv.1.1 = p := hw1 ▸ hr.reg.keys
  have hscl : w1.scleanup = [] := hw1 ▸ hr.reg.sclean
  have hwenv : w1.env = env := hw1 ▸ hr.wenv
  have hupdF : Generated.cleanFilesUpdate w1.env (opts.head?.getD false) = false := by
    unfold Generated.cleanFilesUpdate; rw [hwenv]; exact hnd
  have hupdS : Generated.cleanSnapsUpdate w1.env (opts.head?.getD false) = false := by
    unfold Generated.cleanSnapsUpdate; rw [hwenv]; exact hnd
  have hfs : fr.fs = w1.fs := ((C09.examineFiles_untouched _ _ _ _ _ _ _ crun.files).2.1 hupdF).2
  have hfile1 : Holds w1.fs p es := by rw [← hw1, ← hr.rel.fs]; exact hfa.holds
  -- the stages of the second `Clean`
  obtain ⟨fr2, hfiles2⟩ := examineFiles_noRun_some {} fs2 (cleanRegPaths w1) []
    (Generated.cleanFilesUpdate w1.env (opts.head?.getD false))
  have hfs2 : fr2.fs = fs2 := ((C09.examineFiles_untouched _ _ _ _ _ _ _ hfiles2).2.1 hupdF).2
  have hsn2 : ∃ obs2, examineSnaps {} fr2.fs w1.cleanup w1.skipped fr2.used [] cnt
      (Generated.cleanSnapsUpdate w1.env (opts.head?.getD false))
      (Generated.cleanSnapsSort w1.env (opts.head?.getD false)) = .ok obs2 fs2 [] := by
    rcases used_nil_or_single hrel1 p hkeys hjf _ _ fr crun.files with hu | hu
    · -- the first `Clean` examined no file: it left the file system alone, the second does the same
      have hsn := crun.snaps
      rw [hu] at hsn
      unfold examineSnaps at hsn
      rw [examineSnaps_go_nil] at hsn
      simp only [SnapsOutcome.ok.injEq] at hsn
      have hfs2' : fs2 = w1.fs := by rw [← hsn.2.1, hfs]
      rw [hfs2'] at hfiles2
      rw [crun.files] at hfiles2
      cases hfiles2
      rw [hu]
      exact ⟨[], by unfold examineSnaps; rw [examineSnaps_go_nil, hfs, hfs2']⟩
    · -- the first `Clean` examined `p`: its second examination writes nothing
      have hsn := crun.snaps
      rw [hu, hfs] at hsn
      have hread : fsRead w1.fs p = some (render es) := by
        obtain ⟨cc, hcc⟩ := examineSnaps_go_reads {} _ _ _ _ _ _ _ _ _ _ _ _ _ hsn p (by simp)
        rcases hfile1 with h1 | ⟨h1, _⟩
        · exact h1
        · rw [h1] at hcc; cases hcc
      obtain ⟨registered, hreg⟩ : ∃ r, registeredFor w1.cleanup p cnt = some r :=
        occurrences_snapshot_total _ cnt
      obtain ⟨obs', hsec, _⟩ := C10.second_run_writes_nothing {} w1.fs w1.cleanup w1.skipped p [] cnt _ _
        registered es hfa.clean hread hreg (fun e _ => classified_noRun {} registered _ _)
        (fun hs => hfa.total (by
          unfold Generated.cleanSnapsSort at hs
          simp only [Bool.and_eq_true] at hs
          exact hs.1)) obsT fs2 wr hsn
      rcases used_nil_or_single hrel1 p hkeys hjf _ _ fr2 hfiles2 with hu2 | hu2
      · rw [hu2, hfs2]
        exact ⟨[], by unfold examineSnaps; rw [examineSnaps_go_nil]⟩
      · rw [hu2, hfs2]
        exact ⟨obs', hsec⟩
  obtain ⟨obs2, hsn2⟩ := hsn2
  have crun2 := clean_of_stages {} { w1 with fs := fs2 } (opts.head?.getD false) [] cnt (by omega) [] fr2
    obs2 fs2 [] (by rw [hscl]; rfl) hfiles2 hsn2
  have hclean2 := Clean_oneFile (hrel1.after_clean fs2 (st1.stdout ++
      cleanStdout w1 (opts.head?.getD false) fr.obsolete obsT)) p hkeys hscl parseFile re cnt err opts hcnt hre
    (fun _ => hjf) crun2.supported
  rw [crun2.result] at hclean2
  exact ⟨_, hclean2, rfl⟩

/-! ## 6. the record scenario: every hypothesis about the file discharged from the INPUTS

`go_replay_history`'s setting: a `Scoped` history is recorded in a creating mode into a file whose initial
entries are `Good` and stale for this run (no call addresses them).  Then the file after the run is
`es₀ ++ entriesOf h`, and `FileAfter` follows from hypotheses about `es₀`, the test names and the texts. -/

/-- `FileAfter` in the record scenario -/
theorem fileAfter_record (fs : FS) (p : Text) (es₀ : List Entry) (h : List Step) (sortOpt : Bool)
    (hholds : Holds fs p (es₀ ++ entriesOf h)) (hgood : Good (es₀ ++ entriesOf h))
    (hrec₀ : ∀ e ∈ es₀, Recognised e)
    (htest : ∀ t ∈ calledNames h, (32 : Byte) ∉ t)
    (hto : sortOpt = true → TotalOn ((es₀ ++ entriesOf h).map tidOf)) :
    FileAfter fs p (es₀ ++ entriesOf h) h sortOpt where
  holds := hholds
  clean := cleanFile_of_good hgood (fun e he => by
    rcases List.mem_append.mp he with he | he
    · exact hrec₀ e he
    · exact C07World.recognised_history h htest e he)
  exist := fun hne => by
    have : es₀ ++ entriesOf h ≠ [] := by
      intro h0
      have h1 := (List.append_eq_nil_iff.mp h0).2
      have := congrArg List.length (C01World.texts_entriesFrom h [])
      rw [List.length_map, show entriesFrom [] h = entriesOf h from rfl, h1] at this
      cases h with
      | nil => exact hne rfl
      | cons s h =>
        have hlen : ∀ (l : List Step), (texts l).length = (calledNames l).length := by
          intro l
          induction l with
          | nil => rfl
          | cons a l ih => cases a <;> simp [texts, calledNames, ih]
        rw [hlen] at this
        exact hne (List.eq_nil_of_length_eq_zero this.symm)
    rw [hholds.some_of_ne_nil this]; simp
  total := hto

/-- the record run of the transliterated flows leaves a file satisfying `FileAfter` -/
theorem go_record_fileAfter (env : Env) (c : Cfg) (caller p rel : Text) (fs₀ : FS) (es₀ : List Entry)
    (h : List Step) (sortOpt : Bool)
    (hsp : ∀ t, snapshotPath c caller t false = (p, some rel))
    (hscoped : Scoped [] h)
    (hfile : Holds fs₀ p es₀) (hgood : Good es₀)
    (hfresh : ∀ id ∈ headers h, id ∉ fileLines es₀)
    (hnames : ∀ t ∈ calledNames h, NoNL t)
    (hbodies : ∀ s ∈ texts h, GoodBody s)
    (hns : ∀ s ∈ texts h, ∀ id ∈ ids es₀ ++ headers h, id ∉ lines s)
    (hcreate : shouldCreate env c.update = true)
    (hrec₀ : ∀ e ∈ es₀, Recognised e)
    (htest : ∀ t ∈ calledNames h, (32 : Byte) ∉ t)
    (hto : sortOpt = true → TotalOn ((es₀ ++ entriesOf h).map tidOf)) :
    ∃ rcd, goRun IOFail.never c caller (freshSt env fs₀) h = some rcd ∧
      FileAfter rcd.fs p (es₀ ++ entriesOf h) h sortOpt ∧ Good (es₀ ++ entriesOf h) := by
  obtain ⟨_, m2, m3, _⟩ := C01World.replay_history env env c c caller caller p rel rel fs₀ es₀ h hsp hsp
    hscoped hfile hgood hfresh hnames hbodies hns hcreate
  obtain ⟨rcd, e1, r1, _⟩ := goRun_simulates' c caller h (StRel_init env fs₀) (HistOK_of_bodies h hbodies)
    (run_supported c caller p rel hsp h _)
  exact ⟨rcd, e1, fileAfter_record rcd.fs p es₀ h _ (by rw [r1.fs]; exact m2) m3 hrec₀ htest hto, m3⟩

/-- **C07 in the record scenario, about the transliterated code only.**

Hypotheses of `go_replay_history` (scoped history, `Good` initial file none of whose lines is a header of
the history, usable names and texts, NoShadow, creating mode), plus: the headers of the initial file are
recognised by `getTestID` (`hrec₀`), the test names contain no space (`htest`; since the repair of D11 they need not start with `Test`; needed:
`C07World.recognised_history`), `natural.Less` is total on the ids if `Sort` is requested (`hto`), and the
two oracle-side hypotheses `hre`, `hj`.  `-count=1` (a `Scoped` history executes every test once).  Then:
the record run does not panic and leaves `es₀ ++ entriesOf h` in `p`; `Clean` — any mode of `env`, sort on
or off — does not panic, prints a summary whose obsolete-test list contains NO id of the history, and leaves
in `p` a well-formed file that still contains EVERY entry of the history with its body; and a replay of the
history in a fresh process (any environment, any config addressing `p`) over the file system `Clean` left
reports nothing and writes nothing. -/
theorem go_record_then_clean (env env' : Env) (c c' : Cfg) (caller caller' p rel rel' : Text)
    (fs₀ : FS) (es₀ : List Entry) (h : List Step)
    (parseFile : Text → List GoDecl × Err) (re : Text → Text → Bool × Bool) (err : Err) (opts : List Bool)
    (hsp : ∀ t, snapshotPath c caller t false = (p, some rel))
    (hsp' : ∀ t, snapshotPath c' caller' t false = (p, some rel'))
    (hscoped : Scoped [] h)
    (hfile : Holds fs₀ p es₀) (hgood : Good es₀)
    (hfresh : ∀ id ∈ headers h, id ∉ fileLines es₀)
    (hnames : ∀ t ∈ calledNames h, NoNL t)
    (hbodies : ∀ s ∈ texts h, GoodBody s)
    (hns : ∀ s ∈ texts h, ∀ id ∈ ids es₀ ++ headers h, id ∉ lines s)
    (hcreate : shouldCreate env c.update = true)
    (hrec₀ : ∀ e ∈ es₀, Recognised e)
    (htest : ∀ t ∈ calledNames h, (32 : Byte) ∉ t)
    (hto : opts.head?.getD false = true → TotalOn ((es₀ ++ entriesOf h).map tidOf))
    (hre : ∀ s, (re [] s).1 = true)
    (hj : (Generated.shouldClean env && !env.isCI) = true → JoinFaithful (fpDir p)) :
    ∃ rcd, goRun IOFail.never c caller (freshSt env fs₀) h = some rcd ∧
      Holds rcd.fs p (es₀ ++ entriesOf h) ∧
    ∃ (fs2 : FS) (obsFiles obsTests : List Text),
      Generated.FuncsIO.Clean IOFail.never rcd parseFile re [] (((1 : Nat) : Int), err) () opts =
        some { rcd with fs := fs2, stdout := rcd.stdout ++ summaryLine (Generated.FuncsIO.summary obsFiles
          obsTests (GoSem.len rcd.skipped) rcd.events (cleanUpd rcd)) } ∧
      (∀ e ∈ entriesOf h, tidOf e ∉ obsTests) ∧
      (∃ es', Holds fs2 p es' ∧ CleanFile es' ∧ (∀ e ∈ entriesOf h, e ∈ es') ∧
        (∀ e ∈ es', e ∈ es₀ ++ entriesOf h)) ∧
      ∃ rep, goRun IOFail.never c' caller' (freshSt env' fs2) h = some rep ∧ rep.tev = [] ∧ rep.fs = fs2 := by
  obtain ⟨rcd, e1, hfa, m3⟩ := go_record_fileAfter env c caller p rel fs₀ es₀ h (opts.head?.getD false) hsp hscoped
    hfile hgood hfresh hnames hbodies hns hcreate hrec₀ htest hto
  obtain ⟨rcd', e1', hmain⟩ := go_matched_survive_clean env fs₀ c caller p rel h parseFile re 1 err opts hsp
    (HistOK_of_bodies h hbodies) (by decide) hre hj
  rw [e1] at e1'; cases e1'
  have hholds := hfa.holds
  obtain ⟨fs2, obsF, obsT, hclean, hkeep⟩ := hmain _ hfa
  obtain ⟨k1, es', k2, k3, k4, k5⟩ := hkeep (entriesOf h) (fun e he => List.mem_append.mpr (Or.inr he))
    (fun e he => by
      obtain ⟨t, k, a1, a2, a3, _⟩ := entriesFrom_bound h [] e he
      exact ⟨t, k, a1, a2, by rw [Nat.div_one]; simpa using a3⟩)
  refine ⟨rcd, e1, hholds, fs2, obsF, obsT, hclean, k1, ⟨es', k2, k3, k4, k5⟩, ?_⟩
  -- the replay after `Clean`
  have hg' : Good es' := good_of_subset m3 k5 k3.distinct
  obtain ⟨q1, q2, _⟩ := C01World.replay_run c' caller' p rel' hsp' es' hg' h { env := env', fs := fs2 } []
    (Inv.fresh p env' _ h) hscoped k2 k4
  obtain ⟨rep, e3, r3, t3⟩ := goRun_simulates' c' caller' h (StRel_init env' fs2) (HistOK_of_bodies h hbodies)
    (fun o ho => (q2 o ho).2.2.2)
  exact ⟨rep, e3, by rw [t3]; exact flatten_events_silent _ q2, by rw [r3.fs]; exact q1⟩

/-! ## 7. ANY mix of modes: the flows leave a well-formed file

`CleanWorld.run_keeps_good` (model level, new in `Lemmas/EndToEndClean.lean`) follows the snapshot file
through an arbitrary history — entries created, found, updated, reported — and shows that it stays `Good`.
With `goRun_reached` this discharges `FileAfter` (all of it but the totality of `natural.Less`, which is
asked only when `Sort` is requested) from hypotheses about the INPUTS: the initial file, the test names and
the texts (`NoShadowAll`: finding D9 otherwise; `hrec₀`, `htest`: the headers are recognised). -/

/-- an entry whose header is recognised keeps being recognised whatever its body is -/
theorem recognised_of_id {a b : Entry} (h : a.id = b.id) (hb : Recognised b) : Recognised a := by
  unfold Recognised tidOf at *
  rw [h]; exact hb

/-- **the file after ANY run**: `goRun` from a fresh process over a `Good` initial file, in any mode, leaves
    a file that holds a `CleanFile` entry list made of initial entries and entries of called tests; it exists
    as soon as a call was made, provided it existed before or creation is allowed (`hce`; otherwise — CI and
    no file — every call reports "snapshot not found" and there is nothing for `Clean` to keep) -/
theorem goRun_fileAfter (env : Env) (fs₀ : FS) (c : Cfg) (caller p rel : Text) (es₀ : List Entry)
    (h : List Step)
    (hsp : ∀ t, snapshotPath c caller t false = (p, some rel))
    (hfile : Holds fs₀ p es₀) (hgood : Good es₀)
    (hns : NoShadowAll es₀ (calledNames h) (texts h))
    (hrec₀ : ∀ e ∈ es₀, Recognised e)
    (htest : ∀ t ∈ calledNames h, (32 : Byte) ∉ t)
    (hce : fsRead fs₀ p ≠ none ∨ shouldCreate env c.update = true) :
    ∃ st1 es, goRun IOFail.never c caller (freshSt env fs₀) h = some st1 ∧
      FileInv es₀ (calledNames h) (texts h) es ∧
      ∀ sortOpt, (sortOpt = true → TotalOn (es.map tidOf)) → FileAfter st1.fs p es h sortOpt := by
  obtain ⟨st1, hr⟩ := goRun_reached env fs₀ c caller p rel h hsp (HistOK_of_bodies h hns.bodies)
  obtain ⟨es, h1, hinv, hx, _⟩ := run_keeps_good c caller p rel hsp es₀ _ _ hns h { env := env, fs := fs₀ } es₀
    (fun _ ht => ht) (fun _ hs => hs) hfile (FileInv.init _ _ hgood)
  refine ⟨st1, es, hr.run, hinv, fun sortOpt hto => ⟨hr.rel.fs ▸ h1, ?_, ?_, hto⟩⟩
  · refine cleanFile_of_good hinv.good (fun o ho => ?_)
    rcases hinv.ids o ho with hi | ⟨t, ht, k, hi⟩
    · obtain ⟨o₀, ho₀, e⟩ := List.mem_map.mp hi
      exact recognised_of_id e.symm (hrec₀ o₀ ho₀)
    · exact recognised_of_id (b := ⟨testID t k, o.body⟩) hi
        (C07World.recognised_testID t o.body k (htest t ht))
  · intro hne
    rw [hr.rel.fs]
    apply hx
    rcases hce with h' | h'
    · exact Or.inl h'
    · exact Or.inr ⟨h', hne⟩

/-- **C07, end to end, ANY mix of modes** (`go_matched_survive_clean` with `FileAfter` discharged).

A fresh process over a file system in which `p` holds a `Good` entry list `es₀` of recognised headers (or does
not exist) runs ANY history `h` of calls of tests named `Test…` — in any environment, with any `Update`
option: entries are created, found, updated or reported as the mode and the file dictate, test executions
end and restart — and then calls `Clean` with `-count = cnt`.  Under NoShadow for everything in play, neither
panics, the file `p` holds a well-formed entry list `es` after the run, and — `natural.Less` being total on
its ids if `Sort` is requested — every entry of `es` whose slot was addressed (`[t - k]`,
`1 ≤ k ≤ (calls of t) / cnt`) is, after `Clean`, still in the file with the same body and is not listed as
obsolete. -/
theorem go_matched_survive_clean_any_mode (env : Env) (fs₀ : FS) (c : Cfg) (caller p rel : Text)
    (es₀ : List Entry) (h : List Step)
    (parseFile : Text → List GoDecl × Err) (re : Text → Text → Bool × Bool) (cnt : Nat) (err : Err)
    (opts : List Bool)
    (hsp : ∀ t, snapshotPath c caller t false = (p, some rel))
    (hfile : Holds fs₀ p es₀) (hgood : Good es₀)
    (hns : NoShadowAll es₀ (calledNames h) (texts h))
    (hrec₀ : ∀ e ∈ es₀, Recognised e)
    (htest : ∀ t ∈ calledNames h, (32 : Byte) ∉ t)
    (hce : fsRead fs₀ p ≠ none ∨ shouldCreate env c.update = true)
    (hcnt : cnt > 0) (hre : ∀ s, (re [] s).1 = true)
    (hj : (Generated.shouldClean env && !env.isCI) = true → JoinFaithful (fpDir p)) :
    ∃ st1 es, goRun IOFail.never c caller (freshSt env fs₀) h = some st1 ∧
      Holds st1.fs p es ∧ CleanFile es ∧ FileInv es₀ (calledNames h) (texts h) es ∧
      ((opts.head?.getD false = true → TotalOn (es.map tidOf)) →
      ∃ (fs2 : FS) (obsFiles obsTests : List Text),
        Generated.FuncsIO.Clean IOFail.never st1 parseFile re [] ((cnt : Int), err) () opts =
          some { st1 with fs := fs2, stdout := st1.stdout ++ summaryLine (Generated.FuncsIO.summary obsFiles
            obsTests (GoSem.len st1.skipped) st1.events (cleanUpd st1)) } ∧
        ∀ must : List Entry, (∀ e ∈ must, e ∈ es) →
          (∀ e ∈ must, ∃ t k, e.id = testID t k ∧ 1 ≤ k ∧ k ≤ (calledNames h).count t / cnt) →
          (∀ e ∈ must, tidOf e ∉ obsTests) ∧
          ∃ es', Holds fs2 p es' ∧ CleanFile es' ∧ (∀ e ∈ must, e ∈ es') ∧ (∀ e ∈ es', e ∈ es)) := by
  obtain ⟨st1, es, e1, hinv, hfa⟩ := goRun_fileAfter env fs₀ c caller p rel es₀ h hsp hfile hgood hns hrec₀
    htest hce
  obtain ⟨st1', e1', hmain⟩ := go_matched_survive_clean env fs₀ c caller p rel h parseFile re cnt err opts hsp
    (HistOK_of_bodies h hns.bodies) hcnt hre hj
  rw [e1] at e1'; cases e1'
  have hf0 := hfa false (fun hh => by cases hh)
  exact ⟨st1, es, e1, hf0.holds, hf0.clean, hinv, fun hto => hmain es (hfa _ hto)⟩

theorem texts_append (h1 h2 : List Step) : texts (h1 ++ h2) = texts h1 ++ texts h2 := by
  induction h1 with
  | nil => rfl
  | cons st h1 ih => cases st <;> simp [texts, ih]

/-- `FileInv` + recognised headers ⇒ `CleanFile` -/
theorem cleanFile_of_fileInv {es₀ : List Entry} {N T : List Text} {es : List Entry} (hinv : FileInv es₀ N T es)
    (hrec₀ : ∀ e ∈ es₀, Recognised e)
    (htest : ∀ t ∈ N, (32 : Byte) ∉ t) : CleanFile es := by
  refine cleanFile_of_good hinv.good (fun o ho => ?_)
  rcases hinv.ids o ho with hi | ⟨t, ht, k, hi⟩
  · obtain ⟨o₀, ho₀, e⟩ := List.mem_map.mp hi
    exact recognised_of_id e.symm (hrec₀ o₀ ho₀)
  · exact recognised_of_id (b := ⟨testID t k, o.body⟩) hi
      (C07World.recognised_testID t o.body k (htest t ht))

/-- **the file after a run in two parts**: what `goRun_fileAfter` says about the whole run, about the SAME
    entry lists the file holds after the first part and at the end — no flow ever removes a header
    (`∀ o ∈ esA, o.id ∈ ids es`) -/
theorem goRun_fileAfter_split (env : Env) (fs₀ : FS) (c : Cfg) (caller p rel : Text) (es₀ : List Entry)
    (hA hB : List Step)
    (hsp : ∀ t, snapshotPath c caller t false = (p, some rel))
    (hfile : Holds fs₀ p es₀) (hgood : Good es₀)
    (hns : NoShadowAll es₀ (calledNames (hA ++ hB)) (texts (hA ++ hB)))
    (hrec₀ : ∀ e ∈ es₀, Recognised e)
    (htest : ∀ t ∈ calledNames (hA ++ hB), (32 : Byte) ∉ t)
    (hce : fsRead fs₀ p ≠ none ∨ shouldCreate env c.update = true) :
    ∃ aft esA st1 es, goRun IOFail.never c caller (freshSt env fs₀) hA = some aft ∧ Holds aft.fs p esA ∧
      goRun IOFail.never c caller (freshSt env fs₀) (hA ++ hB) = some st1 ∧
      (∀ o ∈ esA, o.id ∈ ids es) ∧
      ∀ sortOpt, (sortOpt = true → TotalOn (es.map tidOf)) → FileAfter st1.fs p es (hA ++ hB) sortOpt := by
  have hok := HistOK_of_bodies (hA ++ hB) hns.bodies
  obtain ⟨aft, hrA⟩ := goRun_reached env fs₀ c caller p rel hA hsp hok.left
  obtain ⟨st1, hr⟩ := goRun_reached env fs₀ c caller p rel (hA ++ hB) hsp hok
  obtain ⟨esA, a1, ainv, ax, _⟩ := run_keeps_good c caller p rel hsp es₀ _ _ hns hA { env := env, fs := fs₀ } es₀
    (fun t ht => by rw [calledNames_append]; exact List.mem_append_left _ ht)
    (fun s hs => by rw [texts_append]; exact List.mem_append_left _ hs) hfile (FileInv.init _ _ hgood)
  obtain ⟨es, b1, binv, bx, bmono⟩ := run_keeps_good c caller p rel hsp es₀ _ _ hns hB
    (C01World.run c caller { env := env, fs := fs₀ } hA).1 esA
    (fun t ht => by rw [calledNames_append]; exact List.mem_append_right _ ht)
    (fun s hs => by rw [texts_append]; exact List.mem_append_right _ hs) a1 ainv
  rw [← run_append] at b1 bx
  refine ⟨aft, esA, st1, es, hrA.run, hrA.rel.fs ▸ a1, hr.run, bmono, fun sortOpt hto =>
    ⟨hr.rel.fs ▸ b1, cleanFile_of_fileInv binv hrec₀ htest, ?_, hto⟩⟩
  intro hne
  rw [hr.rel.fs]
  apply bx
  rw [hrA.wenv]
  rcases hce with h' | h'
  · exact Or.inl (ax (Or.inl h'))
  · by_cases hnA : calledNames hA = []
    · refine Or.inr ⟨h', fun hnB => hne ?_⟩
      rw [calledNames_append, hnA, hnB]; rfl
    · exact Or.inl (ax (Or.inr ⟨h', hnA⟩))

/-- **C07 in the words of the property: what a step addressed and found or created survives `Clean`**
    (`-count=1`, ANY mix of modes).

Split the history at any call: `h1 ++ call t s cmp x :: h2`.  The transliterated `getTestID` hands that call
the header `[t - k]`.  Let `esA` be what the file holds right after the call and `es` what it holds at the
end of the run (both exist and are well-formed: `goRun_fileAfter_split`).  If the call FOUND OR CREATED its
entry — `[t - k]` is a header of `esA` — then it is a header of `es` (no flow removes a header), and after
`Clean` (any mode, any sort option — `natural.Less` total on the ids if sorting) the entry `⟨[t - k], b⟩` of
`es` is not listed as obsolete and is still in the file `p`, with the body `b` it had when `Clean` was called. -/
theorem go_addressed_survive_clean (env : Env) (fs₀ : FS) (c : Cfg) (caller p rel : Text)
    (es₀ : List Entry) (h1 h2 : List Step) (t s : Text) (cmp : Cmp) (x : Nat)
    (parseFile : Text → List GoDecl × Err) (re : Text → Text → Bool × Bool) (err : Err) (opts : List Bool)
    (hsp : ∀ t, snapshotPath c caller t false = (p, some rel))
    (hfile : Holds fs₀ p es₀) (hgood : Good es₀)
    (hns : NoShadowAll es₀ (calledNames (h1 ++ .call t s cmp x :: h2)) (texts (h1 ++ .call t s cmp x :: h2)))
    (hrec₀ : ∀ e ∈ es₀, Recognised e)
    (htest : ∀ t' ∈ calledNames (h1 ++ .call t s cmp x :: h2),
      (32 : Byte) ∉ t')
    (hce : fsRead fs₀ p ≠ none ∨ shouldCreate env c.update = true)
    (hre : ∀ s, (re [] s).1 = true)
    (hj : (Generated.shouldClean env && !env.isCI) = true → JoinFaithful (fpDir p)) :
    ∃ (mid : St) (k : Nat) (r' : Registry),
      goRun IOFail.never c caller (freshSt env fs₀) h1 = some mid ∧
      syncRegistry_getTestID mid.reg p t = some (r', testID t k) ∧
    ∃ aft esA, goRun IOFail.never c caller (freshSt env fs₀) (h1 ++ [.call t s cmp x]) = some aft ∧
      Holds aft.fs p esA ∧
    ∃ st1 es, goRun IOFail.never c caller (freshSt env fs₀) (h1 ++ .call t s cmp x :: h2) = some st1 ∧
      Holds st1.fs p es ∧ CleanFile es ∧
      (testID t k ∈ ids esA → testID t k ∈ ids es) ∧
      ((opts.head?.getD false = true → TotalOn (es.map tidOf)) →
      ∃ (fs2 : FS) (obsFiles obsTests : List Text),
        Generated.FuncsIO.Clean IOFail.never st1 parseFile re [] (((1 : Nat) : Int), err) () opts =
          some { st1 with fs := fs2, stdout := st1.stdout ++ summaryLine (Generated.FuncsIO.summary obsFiles
            obsTests (GoSem.len st1.skipped) st1.events (cleanUpd st1)) } ∧
        ∀ b, (⟨testID t k, b⟩ : Entry) ∈ es →
          tidOf ⟨testID t k, b⟩ ∉ obsTests ∧
          ∃ es', Holds fs2 p es' ∧ CleanFile es' ∧ (⟨testID t k, b⟩ : Entry) ∈ es') := by
  have hH : h1 ++ .call t s cmp x :: h2 = (h1 ++ [.call t s cmp x]) ++ h2 := by simp
  have hok := HistOK_of_bodies _ hns.bodies
  obtain ⟨mid, k, r', emid, hg, hk1, hk2⟩ := go_call_addresses env fs₀ c caller p rel h1 h2 t s cmp x hsp hok.left
  obtain ⟨aft, esA, st1, es, eA, hA, e1, hmono, hfa⟩ := goRun_fileAfter_split env fs₀ c caller p rel es₀
    (h1 ++ [.call t s cmp x]) h2 hsp hfile hgood (hH ▸ hns) hrec₀ (hH ▸ htest) hce
  rw [← hH] at e1 hfa
  obtain ⟨st1', e1', hmain⟩ := go_matched_survive_clean env fs₀ c caller p rel (h1 ++ .call t s cmp x :: h2)
    parseFile re 1 err opts hsp hok (by decide) hre hj
  rw [e1] at e1'; cases e1'
  have hf0 := hfa false (fun hh => by cases hh)
  refine ⟨mid, k, r', emid, hg, aft, esA, eA, hA, st1, es, e1, hf0.holds, hf0.clean, ?_, fun hto => ?_⟩
  · intro hm
    obtain ⟨o, ho, e⟩ := List.mem_map.mp hm
    rw [← e]; exact hmono o ho
  · obtain ⟨fs2, oF, oT, hc, hk⟩ := hmain es (hfa _ hto)
    refine ⟨fs2, oF, oT, hc, fun b hb => ?_⟩
    obtain ⟨q1, es', q2, q3, q4, _⟩ := hk [⟨testID t k, b⟩] (fun e he => by
        simp only [List.mem_singleton] at he; subst he; exact hb)
      (fun e he => by
        simp only [List.mem_singleton] at he; subst he; exact ⟨t, k, rfl, hk1, hk2⟩)
    exact ⟨q1 _ (by simp), es', q2, q3, q4 _ (by simp)⟩

/-- **C09, end to end, ANY mix of modes in the run** (`go_no_update_no_loss` with `FileAfter` discharged):
    whatever the run did, a `Clean` in a mode without deletion removes no path, leaves every other file
    alone, and leaves in `p` a permutation of the entries it held (the very same bytes without `Sort`) -/
theorem go_no_update_no_loss_any_mode (env : Env) (fs₀ : FS) (c : Cfg) (caller p rel : Text)
    (es₀ : List Entry) (h : List Step)
    (parseFile : Text → List GoDecl × Err) (re : Text → Text → Bool × Bool) (cnt : Nat) (err : Err)
    (opts : List Bool)
    (hsp : ∀ t, snapshotPath c caller t false = (p, some rel))
    (hfile : Holds fs₀ p es₀) (hgood : Good es₀)
    (hns : NoShadowAll es₀ (calledNames h) (texts h))
    (hrec₀ : ∀ e ∈ es₀, Recognised e)
    (htest : ∀ t ∈ calledNames h, (32 : Byte) ∉ t)
    (hce : fsRead fs₀ p ≠ none ∨ shouldCreate env c.update = true)
    (hcnt : cnt > 0) (hre : ∀ s, (re [] s).1 = true)
    (hnd : (Generated.shouldClean env && !env.isCI) = false) :
    ∃ st1 es, goRun IOFail.never c caller (freshSt env fs₀) h = some st1 ∧
      Holds st1.fs p es ∧ CleanFile es ∧
      ((opts.head?.getD false = true → TotalOn (es.map tidOf)) →
      ∃ (fs2 : FS) (obsFiles obsTests : List Text),
        Generated.FuncsIO.Clean IOFail.never st1 parseFile re [] ((cnt : Int), err) () opts =
          some { st1 with fs := fs2, stdout := st1.stdout ++ summaryLine (Generated.FuncsIO.summary obsFiles
            obsTests (GoSem.len st1.skipped) st1.events (cleanUpd st1)) } ∧
        (∀ q, (fsRead fs2 q).isSome = (fsRead st1.fs q).isSome) ∧
        (∀ q, q ≠ p → fsRead fs2 q = fsRead st1.fs q) ∧
        ((opts.head?.getD false = false ∨ env.isCI = true) → fs2 = st1.fs) ∧
        (fsRead st1.fs p = some (render es) →
          ∃ es', es'.Perm es ∧ CleanFile es' ∧ fsRead fs2 p = some (render es'))) := by
  obtain ⟨st1, es, e1, _, hfa⟩ := goRun_fileAfter env fs₀ c caller p rel es₀ h hsp hfile hgood hns hrec₀
    htest hce
  obtain ⟨st1', e1', hmain⟩ := go_no_update_no_loss env fs₀ c caller p rel h parseFile re cnt err opts hsp
    (HistOK_of_bodies h hns.bodies) hcnt hre hnd
  rw [e1] at e1'; cases e1'
  have hf0 := hfa false (fun hh => by cases hh)
  exact ⟨st1, es, e1, hf0.holds, hf0.clean, fun hto => hmain es (hfa _ hto)⟩

/-- **C10, end to end, ANY mix of modes in the run** (`go_second_clean_changes_nothing` with `FileAfter`
    discharged; PARTIAL in the mode of `Clean` as explained there: modes without deletion) -/
theorem go_second_clean_changes_nothing_any_mode (env : Env) (fs₀ : FS) (c : Cfg) (caller p rel : Text)
    (es₀ : List Entry) (h : List Step)
    (parseFile : Text → List GoDecl × Err) (re : Text → Text → Bool × Bool) (cnt : Nat) (err : Err)
    (opts : List Bool)
    (hsp : ∀ t, snapshotPath c caller t false = (p, some rel))
    (hfile : Holds fs₀ p es₀) (hgood : Good es₀)
    (hns : NoShadowAll es₀ (calledNames h) (texts h))
    (hrec₀ : ∀ e ∈ es₀, Recognised e)
    (htest : ∀ t ∈ calledNames h, (32 : Byte) ∉ t)
    (hce : fsRead fs₀ p ≠ none ∨ shouldCreate env c.update = true)
    (hcnt : cnt > 0) (hre : ∀ s, (re [] s).1 = true)
    (hnd : (Generated.shouldClean env && !env.isCI) = false) (hjf : JoinFaithful (fpDir p)) :
    ∃ st1 es, goRun IOFail.never c caller (freshSt env fs₀) h = some st1 ∧
      Holds st1.fs p es ∧ CleanFile es ∧
      ((opts.head?.getD false = true → TotalOn (es.map tidOf)) →
      ∃ st2, Generated.FuncsIO.Clean IOFail.never st1 parseFile re [] ((cnt : Int), err) () opts = some st2 ∧
      ∃ st3, Generated.FuncsIO.Clean IOFail.never st2 parseFile re [] ((cnt : Int), err) () opts = some st3 ∧
        st3.fs = st2.fs) := by
  obtain ⟨st1, es, e1, _, hfa⟩ := goRun_fileAfter env fs₀ c caller p rel es₀ h hsp hfile hgood hns hrec₀
    htest hce
  obtain ⟨st1', e1', hmain⟩ := go_second_clean_changes_nothing env fs₀ c caller p rel h parseFile re cnt err
    opts hsp (HistOK_of_bodies h hns.bodies) hcnt hre hnd hjf
  rw [e1] at e1'; cases e1'
  have hf0 := hfa false (fun hh => by cases hh)
  exact ⟨st1, es, e1, hf0.holds, hf0.clean, fun hto => hmain es (hfa _ hto)⟩

/-- a convenient sufficient condition for `NoShadowAll`: the headers are recognised (they start with `[`)
    and no line of a text or of an initial body starts with `[` -/
theorem noShadowAll_of_noBracket (es₀ : List Entry) (N T : List Text)
    (hrec₀ : ∀ e ∈ es₀, Recognised e) (names : ∀ t ∈ N, NoNL t) (bodies : ∀ s ∈ T, GoodBody s)
    (hT : ∀ s ∈ T, ∀ l ∈ lines s, l.head? ≠ some 91)
    (h₀ : ∀ o ∈ es₀, ∀ l ∈ lines o.body, l.head? ≠ some 91) : NoShadowAll es₀ N T where
  names := names
  bodies := bodies
  oldIds s hs o ho hm := hT s hs _ hm (by rw [(hrec₀ o ho).id_eq]; rfl)
  newIds s hs t _ k hm := hT s hs _ hm (by simp [testID])
  oldBodies o ho t _ k hm := h₀ o ho _ hm (by simp [testID])

/-! ## 8. concrete histories (non-vacuity)

Test file "/t/a_test.go", snapshot file `xp` = "/t/__snapshots__/a_test.snap" (`C01World.exPath`); `hist`,
`es₀` (one STALE entry "[TestZ - 1]" no call addresses), `fs₀`, `envClean` (off CI, `UPDATE_SNAPS=clean`) are
those of `C07World.Ex`: tests "TestA" and "TestB", interleaved, two calls each.  `xParse` (go/parser) always
fails, `cRe` (regexp) always matches: neither is consulted in a way that matters without `-run`. -/

namespace E2E
open GoSnaps.C07World.Ex (tA tB tZ hist es₀ fs₀ envClean hyps)

abbrev xp : Text := C01World.exPath
abbrev xc : Text := C01World.exCaller

theorem exJoin : JoinFaithful (fpDir xp) := by
  have h : fpDir xp = slash :: joinSlash [[116], [95, 95, 115, 110, 97, 112, 115, 104, 111, 116, 115, 95, 95]] := by
    decide +kernel
  rw [h]
  exact joinFaithful_abs _ (by simp) (fun c hc => by
    simp only [List.mem_cons, List.not_mem_nil, or_false] at hc
    rcases hc with rfl | rfl <;> exact ⟨by decide, by decide, by decide, by decide⟩)

theorem exTotal : TotalOn ((es₀ ++ entriesOf hist).map tidOf) := ⟨by decide +kernel, by decide +kernel⟩

/-! ### record, then `Clean` in clean mode with `Sort`, then replay (`-count=1`) -/

/-- **C07, record scenario: the theorem applies** (all hypotheses by evaluation; final replay on CI with
    `UPDATE_SNAPS=true`) … -/
example := go_record_then_clean envClean ⟨true, "true"⟩ {} {} xc xc xp C01World.exRel C01World.exRel fs₀ es₀ hist
    xParse cRe Err.nil [true] C01World.exPath_spec C01World.exPath_spec hyps.1 hyps.2.1 hyps.2.2.1 hyps.2.2.2.1
    hyps.2.2.2.2.1 hyps.2.2.2.2.2.1 hyps.2.2.2.2.2.2.1 hyps.2.2.2.2.2.2.2.1
    hyps.2.2.2.2.2.2.2.2.1 (by decide +kernel) (fun _ => exTotal) (fun _ => rfl) (fun _ => exJoin)

/-- … and this is what the transliterated code does, by evaluation: the record run appends the four entries
    after the stale one; `Clean` prunes "[TestZ - 1]" and writes the file sorted (A1, A2, B1, B2) -/
example :
    (goRun IOFail.never {} xc (freshSt envClean fs₀) hist).map (fun s => s.fs) =
      some [(xp, render (es₀ ++ entriesOf hist))] ∧
    ((goRun IOFail.never {} xc (freshSt envClean fs₀) hist).bind fun rcd =>
      Generated.FuncsIO.Clean IOFail.never rcd xParse cRe [] (1, Err.nil) () [true]).map (fun s => s.fs) =
      some [(xp, render [⟨testID tA 1, [120]⟩, ⟨testID tA 2, [120, 10, 10, 121]⟩,
        ⟨testID tB 1, [122]⟩, ⟨testID tB 2, [122, 122]⟩])] := by
  constructor <;> decide +kernel

/-- report mode -/
def envReport : Env := ⟨false, ""⟩


/-! ### `-count=2`: two executions of "TestA" with two calls each (counter 4, ordinals 1 and 2 protected) -/
def h2 : List Step :=
  [.call tA [120] .raw 1, .call tA [121] .raw 1, .done 1, .call tA [120] .raw 2, .call tA [121] .raw 2, .done 2]
def a1 : Entry := ⟨testID tA 1, [120]⟩
def a2 : Entry := ⟨testID tA 2, [121]⟩
def es2 : List Entry := es₀ ++ [a1, a2]

theorem h2_run : (goRun IOFail.never {} xc (freshSt envClean fs₀) h2).map (fun s => (s.fs, s.tev)) =
    some ([(xp, render es2)], [.log Generated.go_addedMsg, .log Generated.go_addedMsg]) := by decide +kernel

example : ∃ st1, goRun IOFail.never {} xc (freshSt envClean fs₀) h2 = some st1 ∧
    ∃ (fs2 : FS) (obsFiles obsTests : List Text),
      Generated.FuncsIO.Clean IOFail.never st1 xParse cRe [] (((2 : Nat) : Int), Err.nil) () [] =
        some { st1 with fs := fs2, stdout := st1.stdout ++ summaryLine (Generated.FuncsIO.summary obsFiles
          obsTests (GoSem.len st1.skipped) st1.events (cleanUpd st1)) } ∧
      tidOf a1 ∉ obsTests ∧ tidOf a2 ∉ obsTests ∧ ∃ es', Holds fs2 xp es' ∧ a1 ∈ es' ∧ a2 ∈ es' := by
  obtain ⟨st1, e1, hmain⟩ := go_matched_survive_clean envClean fs₀ {} xc xp C01World.exRel h2 xParse cRe 2
    Err.nil [] C01World.exPath_spec (by decide) (by decide) (fun _ => rfl) (fun _ => exJoin)
  have hfs : st1.fs = [(xp, render es2)] := by
    have := congrArg (Option.map (fun s : St => s.fs)) e1
    rw [show (goRun IOFail.never {} xc (freshSt envClean fs₀) h2).map (fun s => s.fs) =
      some [(xp, render es2)] from by decide +kernel] at this
    exact (Option.some.inj this).symm
  have hread : fsRead st1.fs xp = some (render es2) := by rw [hfs]; simp [fsRead]
  have hfa : FileAfter st1.fs xp es2 h2 false :=
    ⟨Or.inl hread, ⟨by decide +kernel, by decide +kernel, by decide +kernel, by decide +kernel, by decide +kernel⟩,
      fun _ => by rw [hread]; simp, fun hh => by cases hh⟩
  obtain ⟨fs2, oF, oT, hc, hk⟩ := hmain es2 hfa
  obtain ⟨k1, es', k2, _, k4, _⟩ := hk [a1, a2] (by decide +kernel) (by
    intro e he
    simp only [List.mem_cons, List.not_mem_nil, or_false] at he
    rcases he with rfl | rfl
    · exact ⟨tA, 1, rfl, by decide, by decide⟩
    · exact ⟨tA, 2, rfl, by decide, by decide⟩)
  exact ⟨st1, e1, fs2, oF, oT, hc, k1 a1 (by simp), k1 a2 (by simp), es', k2, k4 a1 (by simp), k4 a2 (by simp)⟩

example :
    ((goRun IOFail.never {} xc (freshSt envClean fs₀) h2).bind fun st1 =>
      Generated.FuncsIO.Clean IOFail.never st1 xParse cRe [] (2, Err.nil) () []).map (fun s => s.fs) =
      some [(xp, render [a1, a2])] := by decide +kernel

/-! ### a run that UPDATES and CREATES (`UPDATE_SNAPS=true`), over a file with a stale and a changed entry -/
def es₃ : List Entry := [⟨testID tZ 1, [113]⟩, ⟨testID tA 1, [111]⟩]
def fs₃ : FS := [(xp, render es₃)]
def h3 : List Step := [.call tA [110] .raw 1, .call tB [122] .escaped 2, .done 1, .done 2]
def envUpdate : Env := ⟨false, "true"⟩

example := go_matched_survive_clean_any_mode envUpdate fs₃ {} xc xp C01World.exRel es₃ h3 xParse cRe 1 Err.nil []
  C01World.exPath_spec (Or.inl rfl) (by decide +kernel)
  (noShadowAll_of_noBracket es₃ _ _ (by decide +kernel) (by decide +kernel) (by decide +kernel) (by decide +kernel)
    (by decide +kernel))
  (by decide +kernel) (by decide +kernel) (Or.inl (by decide +kernel)) (by decide) (fun _ => rfl) (fun _ => exJoin)

example :
    (goRun IOFail.never {} xc (freshSt envUpdate fs₃) h3).map (fun s => (s.fs, s.tev)) =
      some ([(xp, render [⟨testID tZ 1, [113]⟩, ⟨testID tA 1, [110]⟩, ⟨testID tB 1, [122]⟩])],
        [.log Generated.go_updatedMsg, .log Generated.go_addedMsg]) ∧
    ((goRun IOFail.never {} xc (freshSt envUpdate fs₃) h3).bind fun st1 =>
      Generated.FuncsIO.Clean IOFail.never st1 xParse cRe [] (1, Err.nil) () []).map (fun s => s.fs) =
      some [(xp, render [⟨testID tA 1, [110]⟩, ⟨testID tB 1, [122]⟩])] := by
  constructor <;> decide +kernel

/-- `go_addressed_survive_clean` applies to the second call of that run ("TestB" creates "[TestB - 1]"):
    all hypotheses by evaluation -/
example := go_addressed_survive_clean envUpdate fs₃ {} xc xp C01World.exRel es₃ [.call tA [110] .raw 1]
  [.done 1, .done 2] tB [122] .escaped 2 xParse cRe Err.nil [] C01World.exPath_spec (Or.inl rfl) (by decide +kernel)
  (noShadowAll_of_noBracket es₃ _ _ (by decide +kernel) (by decide +kernel) (by decide +kernel) (by decide +kernel)
    (by decide +kernel))
  (by decide +kernel) (by decide +kernel) (Or.inl (by decide +kernel)) (fun _ => rfl) (fun _ => exJoin)

/-! ### report mode with `Sort`: C09 and C10 -/

/-- **C09 applies** (report mode, `Sort`): hypotheses by evaluation; the file ends up holding a permutation of
    ALL its entries, the stale one included, and no path appears or disappears -/
example : ∃ st1, goRun IOFail.never {} xc (freshSt envReport fs₀) hist = some st1 ∧
    ∃ fs2, (Generated.FuncsIO.Clean IOFail.never st1 xParse cRe [] (((1 : Nat) : Int), Err.nil) () [true]).map (·.fs) = some fs2 ∧
      (∀ q, (fsRead fs2 q).isSome = (fsRead st1.fs q).isSome) ∧
      ∃ es', es'.Perm (es₀ ++ entriesOf hist) ∧ fsRead fs2 xp = some (render es') := by
  obtain ⟨rcd, e, hfa, _⟩ := go_record_fileAfter envReport {} xc xp C01World.exRel fs₀ es₀ hist true
    C01World.exPath_spec hyps.1 hyps.2.1 hyps.2.2.1 hyps.2.2.2.1 hyps.2.2.2.2.1 hyps.2.2.2.2.2.1
    hyps.2.2.2.2.2.2.1 (by decide) hyps.2.2.2.2.2.2.2.2.1 (by decide +kernel) (fun _ => exTotal)
  obtain ⟨st1, e1, hmain⟩ := go_no_update_no_loss envReport fs₀ {} xc xp C01World.exRel hist xParse cRe 1 Err.nil
    [true] C01World.exPath_spec (HistOK_of_bodies hist hyps.2.2.2.2.2.1) (by decide) (fun _ => rfl) (by decide)
  rw [e] at e1; cases e1
  obtain ⟨fs2, _, _, hc, k1, _, _, k4⟩ := hmain _ hfa
  obtain ⟨es', p1, _, p3⟩ := k4 (hfa.holds.some_of_ne_nil (by decide))
  exact ⟨rcd, e, fs2, by rw [hc]; rfl, k1, es', p1, p3⟩


example :
    ((goRun IOFail.never {} xc (freshSt envReport fs₀) hist).bind fun st1 =>
      Generated.FuncsIO.Clean IOFail.never st1 xParse cRe [] (1, Err.nil) () [true]).map (fun s => s.fs) =
      some [(xp, render [⟨testID tA 1, [120]⟩, ⟨testID tA 2, [120, 10, 10, 121]⟩,
        ⟨testID tB 1, [122]⟩, ⟨testID tB 2, [122, 122]⟩, ⟨testID tZ 1, [113]⟩])] := by decide +kernel

/-- **C10 applies** (report mode, `Sort`): the second `Clean` leaves the file system as the first left it -/
example : ∃ st1, goRun IOFail.never {} xc (freshSt envReport fs₀) hist = some st1 ∧
    ∃ st2, Generated.FuncsIO.Clean IOFail.never st1 xParse cRe [] (((1 : Nat) : Int), Err.nil) () [true] = some st2 ∧
    ∃ st3, Generated.FuncsIO.Clean IOFail.never st2 xParse cRe [] (((1 : Nat) : Int), Err.nil) () [true] = some st3 ∧
      st3.fs = st2.fs := by
  obtain ⟨rcd, e, hfa, _⟩ := go_record_fileAfter envReport {} xc xp C01World.exRel fs₀ es₀ hist true
    C01World.exPath_spec hyps.1 hyps.2.1 hyps.2.2.1 hyps.2.2.2.1 hyps.2.2.2.2.1 hyps.2.2.2.2.2.1
    hyps.2.2.2.2.2.2.1 (by decide) hyps.2.2.2.2.2.2.2.2.1 (by decide +kernel) (fun _ => exTotal)
  obtain ⟨st1, e1, hmain⟩ := go_second_clean_changes_nothing envReport fs₀ {} xc xp C01World.exRel hist xParse cRe 1
    Err.nil [true] C01World.exPath_spec (HistOK_of_bodies hist hyps.2.2.2.2.2.1) (by decide) (fun _ => rfl)
    (by decide) exJoin
  rw [e] at e1; cases e1
  exact ⟨rcd, e, hmain _ hfa⟩

example :
    ((goRun IOFail.never {} xc (freshSt envReport fs₀) hist).bind fun st1 =>
      (Generated.FuncsIO.Clean IOFail.never st1 xParse cRe [] (1, Err.nil) () [true]).bind fun st2 =>
      (Generated.FuncsIO.Clean IOFail.never st2 xParse cRe [] (1, Err.nil) () [true]).map fun st3 =>
        (decide (st2.fs ≠ st1.fs), decide (st3.fs = st2.fs))) = some (true, true) := by decide +kernel


/-! ### every failure oracle: writes fail during the run AND during `Clean` -/

/-- every `write` fails -/
def ioW : IOFail := fun op _ => if op = .write then some [33] else none

/-- `go_no_update_no_removal` applies to whatever this run and this `Clean` return … -/
example (st1 st2 : St) (e1 : goRun ioW {} xc (freshSt envReport fs₀) hist = some st1)
    (e2 : Generated.FuncsIO.Clean ioW st1 xParse cRe [] (1, Err.nil) () [true] = some st2) :=
  go_no_update_no_removal ioW ioW envReport fs₀ {} xc xp hist (fun t => by rw [C01World.exPath_spec t]) st1 st2
    xParse cRe [] (1, Err.nil) [true] e1 (by decide) e2

/-- … and they do return (nothing panics): the hypotheses are satisfiable -/
example : ((goRun ioW {} xc (freshSt envReport fs₀) hist).bind fun st1 =>
    Generated.FuncsIO.Clean ioW st1 xParse cRe [] (1, Err.nil) () [true]).isSome = true := by decide +kernel

end E2E

end GoSnaps.Tie
