/-
Tie by proof, part 13: what `Tie/EndToEndClean.lean` left open — end to end, about the TRANSLITERATED code
(`goRun` of `Tie/EndToEnd.lean` followed by `Generated.FuncsIO.Clean`).

§1  facts about the states `goRun` reaches that the theorems below need (`Reached.exact`, `Reached.noSkip`,
    `Reached.registered`), and `InDir p`: the snapshot file sits in its directory under a simple name.
§2  **C09, completeness** `go_stale_reported` (+ `go_stale_reported_words`): after a run that made at least one
    call, `Clean` (no `-run` filter, any `-count`) EXAMINES the snapshot file — the listing of its directory
    names it (`CleanWorld.readDir_lists_file`) — and reports EXACTLY the entries whose id is not a registered
    slot and EXACTLY the other regular files with `.snap` in their name in that directory; in the deleting
    modes exactly those are gone afterwards, in every other mode all of them are still there.
§3  **C10, idempotence in EVERY mode** `go_second_clean_changes_nothing_every_mode` (+ `…_any_run`): no
    restriction on the mode any more; the listing lemmas `CleanWorld.examineFiles_one_again` (the generalisation
    of `readDir_fsRemove` to paths inside the directory) supply what was missing.
§4  **C07, `-count > 1`** `go_call_addresses_count`, `go_matched_survive_clean_count`,
    `go_addressed_survive_clean_count`: a history of `cnt` closed rounds (`Rounds`).
§5  concrete histories (non-vacuity): a stale entry and a stale file in clean mode; two `Clean`s in clean mode;
    `-count=2`.
-/
import GoSnaps.Props.Tie.EndToEndClean
import GoSnaps.Lemmas.EndToEndClean2
namespace GoSnaps.Tie
open GoSnaps GoSnaps.GoIO
open GoSnaps.Generated.FuncsIO
open GoSnaps.C06Refine GoSnaps.Wld GoSnaps.CleanWorld
open GoSnaps.C01World (Step Scoped calledNames texts entriesFrom entriesOf headers Inv)
open GoSnaps.C03 (testID)
open GoSnaps.Generated (Env shouldCreate shouldUpdate)

/-! ## 1. more about the states `goRun` reaches -/

/-- the snapshot file sits in its directory under a simple name (not empty, no `/`, `.snap` in it): `p` is
    `filepath.Dir(p) + "/" + name`.  True of every clean absolute path whose last component is such a name
    (`inDir_abs`); it is what makes `os.ReadDir(filepath.Dir(p))` able to name `p`. -/
def InDir (p : Text) : Prop := ∃ name, SimpleName name ∧ p = dirPrefix (fpDir p) ++ name

/-- `Clean` deletes: `UPDATE_SNAPS=true|clean`, off CI -/
abbrev deleting (env : Env) : Bool := Generated.shouldClean env && !env.isCI

theorem cleanComps_normal_trail (cs out : List Text) (h : ∀ c ∈ cs, NormalComp c) :
    cleanComps true (cs ++ [[]]) out = cs.reverse ++ out := by
  induction cs generalizing out with
  | nil => simp [cleanComps]
  | cons c cs ih =>
    obtain ⟨h1, _, h3, h4⟩ := h c (by simp)
    simp only [List.cons_append, cleanComps, h1, h3, h4, decide_false, Bool.or_self, Bool.false_eq_true,
      ↓reduceIte]
    rw [ih _ (fun x hx => h x (by simp [hx]))]
    simp

/-- `filepath.Dir` of an absolute clean path `/c₁/…/cₙ/name` is `/c₁/…/cₙ` -/
theorem fpDir_abs (comps : List Text) (name : Text) (hne : comps ≠ []) (hc : ∀ c ∈ comps, NormalComp c)
    (hn : slash ∉ name) : fpDir (slash :: joinSlash (comps ++ [name])) = slash :: joinSlash comps := by
  rw [joinSlash_append_one comps name hne]
  have hsplit : (lastSlashSplit (slash :: (joinSlash comps ++ slash :: name))).1 =
      slash :: (joinSlash comps ++ [slash]) := by
    unfold lastSlashSplit
    have hr : (slash :: (joinSlash comps ++ slash :: name)).reverse =
        name.reverse ++ slash :: ((joinSlash comps).reverse ++ [slash]) := by simp
    have ht : (name.reverse ++ slash :: ((joinSlash comps).reverse ++ [slash])).takeWhile (· ≠ slash) =
        name.reverse := by
      rw [takeWhile_append_of_all _ _ _ (fun a ha => by
        have : a ≠ slash := fun e => hn (e ▸ List.mem_reverse.mp ha)
        simpa using this)]
      simp
    simp only [hr, ht, List.length_reverse]
    have : (name.reverse ++ slash :: ((joinSlash comps).reverse ++ [slash])).drop name.length =
        slash :: ((joinSlash comps).reverse ++ [slash]) := by
      rw [← List.length_reverse (as := name), List.drop_left]
    rw [this]
    simp
  unfold fpDir
  rw [hsplit]
  unfold fpClean
  have e2 : splitSlash (slash :: (joinSlash comps ++ [slash])) = [] :: (comps ++ [[]]) := by
    simp only [splitSlash, ↓reduceIte]
    rw [splitSlash_joinSlash comps [] (fun c hc' => (hc c hc').2.1) (by simp) hne]
  have e3 : cleanComps true ([] :: (comps ++ [[]])) [] = comps.reverse := by
    simp only [cleanComps, decide_true, Bool.true_or, ↓reduceIte]
    rw [cleanComps_normal_trail _ _ hc]
    simp
  have e4 : (slash :: (joinSlash comps ++ [slash])).head? = some slash := rfl
  simp [e2, e3, e4]

/-- **`InDir` for every absolute clean path** `/c₁/…/cₙ/name` (`n ≥ 1`, no component empty, `.`, `..` or
    containing a slash) whose last component is a simple name: the shape of every absolute snapshot path -/
theorem inDir_abs (comps : List Text) (name : Text) (hne : comps ≠ []) (hc : ∀ c ∈ comps, NormalComp c)
    (hs : SimpleName name) : InDir (slash :: joinSlash (comps ++ [name])) := by
  refine ⟨name, hs, ?_⟩
  rw [fpDir_abs comps name hne hc hs.2.1, joinSlash_append_one comps name hne]
  have hd : (slash :: joinSlash comps) ≠ [slash] := by
    intro e
    have : joinSlash comps = [] := by simpa using e
    cases comps with
    | nil => exact hne rfl
    | cons c cs =>
      have hc1 := (hc c (by simp)).1
      cases cs with
      | nil => exact hc1 (by simpa [joinSlash] using this)
      | cons c' cs' => simp [joinSlash] at this
  unfold dirPrefix
  simp [hd]

/-- the keys of the model's cleanup registry after a run: pairwise different, all called -/
theorem Reached.exact {env : Env} {fs₀ : FS} {c : Cfg} {caller p : Text} {h : List Step} {st1 : St}
    (_hr : Reached env fs₀ c caller p h st1) :
    RegExact (C01World.run c caller { env := env, fs := fs₀ } h).1 (calledNames h).reverse := by
  have := run_regExact c caller h { env := env, fs := fs₀ } [] ⟨List.nodup_nil, fun _ hkv => by cases hkv⟩
  rwa [List.append_nil] at this

/-- no test was skipped: a history consists of Match* calls and test ends only -/
theorem Reached.noSkip {env : Env} {fs₀ : FS} {c : Cfg} {caller p : Text} {h : List Step} {st1 : St}
    (hr : Reached env fs₀ c caller p h st1) :
    (C01World.run c caller { env := env, fs := fs₀ } h).1.skipped = [] := by
  rw [← hr.crel.skipped, hr.skipped]

theorem slotId_reverse (seen : List Text) (cnt : Nat) (tid : Text) :
    SlotId seen.reverse cnt tid ↔ SlotId seen cnt tid := by
  unfold SlotId
  simp only [List.mem_reverse, List.count_reverse]

/-- **what `occurrences` registers after a run**: exactly the slots of the called tests -/
theorem Reached.registered {env : Env} {fs₀ : FS} {c : Cfg} {caller p : Text} {h : List Step} {st1 : St}
    (hr : Reached env fs₀ c caller p h st1) (cnt : Nat) (registered : List Text)
    (hreg : registeredFor (C01World.run c caller { env := env, fs := fs₀ } h).1.cleanup p cnt = some registered)
    (tid : Text) : tid ∈ registered ↔ SlotId (calledNames h) cnt tid := by
  rw [← slotId_reverse]
  exact registered_iff_slot _ p _ cnt registered hr.reg hr.exact hreg tid

/-- a call was made: the registry is not empty -/
theorem Reached.cleanup_ne_nil {env : Env} {fs₀ : FS} {c : Cfg} {caller p : Text} {h : List Step} {st1 : St}
    (hr : Reached env fs₀ c caller p h st1) (hcalls : calledNames h ≠ []) :
    (C01World.run c caller { env := env, fs := fs₀ } h).1.cleanup ≠ [] := by
  obtain ⟨t, ht⟩ := List.exists_mem_of_ne_nil _ hcalls
  intro h0
  have := hr.reg.mem t (List.mem_reverse.mpr ht)
  rw [h0] at this
  cases this

/-- without a skip list, "kept" is "registered" -/
theorem keptId_noSkip (registered : List Text) :
    keptId {} registered [] [] = fun tid => registered.contains tid := by
  funext tid
  rw [keptId_noRun]
  simp [skipListed]

theorem fsRead_fsAfter (update : Bool) (fs : FS) (R : List Text) (q : Text) :
    fsRead (if update then R.foldl fsRemove fs else fs) q =
      if update = true ∧ q ∈ R then none else fsRead fs q := by
  cases update with
  | false => simp
  | true => simp [fsRead_foldl_fsRemove_iff]

/-! ## 2. C09, completeness: every stale item is reported, and removed exactly in the deleting modes -/

/-- **C09, end to end: `Clean` reports EXACTLY the stale items and removes them exactly in the deleting modes.**

A fresh process runs the history `h` (at least one Match* call: otherwise `Clean` knows no directory and
examines nothing) with the transliterated flows, then the transliterated `Clean` with `-count = cnt`, no
`-run` filter, any sort option, in whatever mode `env` says.  Let the snapshot file hold the well-formed entry
list `es` after the run (`FileAfter`).  Then neither panics and `Clean` prints the summary of two lists
`obsFiles`, `obsTests` such that, with `registered` the ids `occurrences` computes:

* `registered` is exactly the set of slots of the called tests (`SlotId`: `t - k` for a called `t`,
  `1 ≤ k ≤ (calls of t)/cnt`, and `t - c` for `c = (calls of t)/cnt` itself — even when that is 0: what the
  code registers);
* `obsTests` is EXACTLY the list of ids of the entries of the file that are not registered, in file order: the
  snapshot file IS examined (the directory listing names it: `readDir_lists_file`);
* afterwards the file holds a well-formed PERMUTATION of the registered entries when deleting
  (`UPDATE_SNAPS=true|clean` off CI), and of ALL its entries in every other mode;
* `obsFiles` is EXACTLY the set of `dir/name` for the regular files of the listing of the snapshot directory
  with `.snap` in their name other than `p`; each of them is gone afterwards when deleting, and reads as before
  in every other mode; every other path reads as before.

Hypotheses beyond those of `go_matched_survive_clean`: `hjf` in every mode (to recognise `p` in the listing),
`InDir p` (`p` is `dir/name`), `NotDir fs₀ p` (no path of the initial file system lies under `p/`: a file is
not a directory — the model's file system is a list of paths and does not enforce it).  Skip protection does
not occur: a history has no skip step (`Reached.noSkip`). -/
theorem go_stale_reported (env : Env) (fs₀ : FS) (c : Cfg) (caller p rel : Text) (h : List Step)
    (parseFile : Text → List GoDecl × Err) (re : Text → Text → Bool × Bool) (cnt : Nat) (err : Err)
    (opts : List Bool)
    (hsp : ∀ t, snapshotPath c caller t false = (p, some rel)) (hok : HistOK h) (hcnt : cnt > 0)
    (hre : ∀ s, (re [] s).1 = true)
    (hjf : JoinFaithful (fpDir p)) (hin : InDir p) (hnd : NotDir fs₀ p) (hcalls : calledNames h ≠ []) :
    ∃ st1, goRun IOFail.never c caller (freshSt env fs₀) h = some st1 ∧
    ∀ es, FileAfter st1.fs p es h (opts.head?.getD false) →
    ∃ (fs2 : FS) (obsFiles obsTests registered : List Text),
      Generated.FuncsIO.Clean IOFail.never st1 parseFile re [] ((cnt : Int), err) () opts =
        some { st1 with fs := fs2, stdout := st1.stdout ++ summaryLine (Generated.FuncsIO.summary obsFiles
          obsTests (GoSem.len st1.skipped) st1.events (cleanUpd st1)) } ∧
      (∀ tid, tid ∈ registered ↔ SlotId (calledNames h) cnt tid) ∧
      obsTests = (es.filter (fun e => !registered.contains (tidOf e))).map tidOf ∧
      (∃ es', fsRead fs2 p = some (render es') ∧ CleanFile es' ∧
        es'.Perm (es.filter (fun e => registered.contains (tidOf e) || !deleting env))) ∧
      (∀ q, q ∈ obsFiles ↔ ∃ name, SimpleName name ∧ (name, false) ∈ GoSnaps.readDir st1.fs (fpDir p) ∧
        q = dirPrefix (fpDir p) ++ name ∧ q ≠ p) ∧
      (∀ q ∈ obsFiles, fsRead fs2 q = if deleting env then none else fsRead st1.fs q) ∧
      (∀ q, q ≠ p → q ∉ obsFiles → fsRead fs2 q = fsRead st1.fs q) := by
  obtain ⟨st1, hr⟩ := goRun_reached env fs₀ c caller p rel h hsp hok
  refine ⟨st1, hr.run, fun es hfa => ?_⟩
  have hsup := hr.supported (opts.head?.getD false) cnt hcnt es hfa.holds hfa.clean hfa.exist hfa.total
  have hclean := Clean_reached hr parseFile re cnt err opts hcnt hre (fun _ => hjf) hsup
  obtain ⟨sa, fr, obsT, fs2, wr, crun⟩ := clean_supported {} _ _ [] cnt hsup
  have hsa : sa = [] := by
    have := crun.occ
    rw [hr.reg.sclean, CleanWorld.occurrences_nil] at this
    exact (Option.some.inj this).symm
  subst hsa
  rw [crun.result, cleanStdout_go hr.crel] at hclean
  have hnotdir := run_notDir c caller p rel hsp h { env := env, fs := fs₀ } hnd
  have hne := hr.cleanup_ne_nil hcalls
  have hskip := hr.noSkip
  have hkeys := hr.reg.keys
  have hwenv := hr.wenv
  have hfs1 := hr.rel.fs
  obtain ⟨registered, hreg⟩ : ∃ r, registeredFor
      (C01World.run c caller { env := env, fs := fs₀ } h).1.cleanup p cnt = some r :=
    occurrences_snapshot_total _ cnt
  have hslots := hr.registered cnt registered hreg
  -- from here on the world is opaque
  generalize (C01World.run c caller { env := env, fs := fs₀ } h).1 = w1 at *
  have hupdF : Generated.cleanFilesUpdate w1.env (opts.head?.getD false) = deleting env := by
    unfold Generated.cleanFilesUpdate; rw [hwenv]
  have hupdS : Generated.cleanSnapsUpdate w1.env (opts.head?.getD false) = deleting env := by
    unfold Generated.cleanSnapsUpdate; rw [hwenv]
  -- the first stage in closed form
  have hfiles := crun.files
  rw [cleanRegPaths_single w1 p hne hkeys, examineFiles_one, hupdF] at hfiles
  simp only [Option.some.injEq] at hfiles
  -- the listing names `p`
  obtain ⟨name, hs, hp⟩ := hin
  have hex : fsRead w1.fs p ≠ none := by rw [← hfs1]; exact hfa.exist hcalls
  have hlist : (name, false) ∈ GoSnaps.readDir w1.fs (fpDir p) :=
    readDir_lists_file w1.fs (fpDir p) name hs.1 hs.2.1 (hp ▸ hex) (hp ▸ hnotdir)
  have hused : fr.used = [p] := by
    rw [← hfiles]; exact filesUsed_eq_single w1.fs p name hjf hs hp hlist
  have hobsF : fr.obsolete = filesObs p (fpDir p) (GoSnaps.readDir w1.fs (fpDir p)) := by rw [← hfiles]
  have hpR : p ∉ fr.obsolete := by
    rw [hobsF]
    intro hm
    obtain ⟨_, _, _, _, hne'⟩ := (mem_filesObs_iff w1.fs p hjf p).mp hm
    exact hne' rfl
  have hfrfs : ∀ q, fsRead fr.fs q = if deleting env = true ∧ q ∈ fr.obsolete then none else fsRead w1.fs q := by
    intro q
    rw [hobsF, ← hfiles]
    exact fsRead_fsAfter _ _ _ _
  have hread1 : fsRead w1.fs p = some (render es) := by
    rcases hfa.holds with h1 | ⟨h1, _⟩
    · rw [← hfs1]; exact h1
    · rw [hfs1] at h1; exact absurd h1 hex
  have hread : fsRead fr.fs p = some (render es) := by
    rw [hfrfs p, if_neg (fun hh => hpR hh.2)]; exact hread1
  -- the second stage in closed form
  have hsn := crun.snaps
  rw [hused, hskip, hupdS, examineSnaps_single {} registered [] [] fr.fs w1.cleanup p cnt _ _ es hfa.clean hread
    hreg (fun e _ => classified_noRun {} registered [] _), keptId_noSkip] at hsn
  obtain ⟨hobs, es', hperm, hf', hcase⟩ := cleanOutcome_holds _ es hfa.clean p fr.fs _ _ obsT fs2 wr hsn
  have hfs2p : fsRead fs2 p = some (render es') := by
    rcases hcase with ⟨h1, _, h3⟩ | ⟨h1, _⟩
    · rw [h1, h3]; exact hread
    · rw [h1]; exact fsRead_fsWrite _ _ _
  have hfs2q : ∀ q, q ≠ p → fsRead fs2 q = fsRead fr.fs q := by
    intro q hq
    rcases hcase with ⟨h1, _, _⟩ | ⟨h1, _⟩
    · rw [h1]
    · rw [h1]; exact fsRead_fsWrite_ne _ _ _ _ hq
  refine ⟨fs2, fr.obsolete, obsT, registered, hclean, hslots, hobs, ⟨es', hfs2p, hf', hperm⟩, ?_, ?_, ?_⟩
  · intro q
    rw [hobsF, hfs1]
    exact mem_filesObs_iff w1.fs p hjf q
  · intro q hq
    have hqp : q ≠ p := fun e => hpR (e ▸ hq)
    rw [hfs2q q hqp, hfrfs q, hfs1]
    cases hd : deleting env <;> simp [hq]
  · intro q hqp hq
    rw [hfs2q q hqp, hfrfs q, if_neg (fun hh => hq hh.2), hfs1]

/-- **C09 completeness in the words of the property.**  Setting of `go_stale_reported`.  After `Clean`:

* every entry `e` of the snapshot file whose header is not `[t - k]` for a called test `t` and a protected
  ordinal `k` (`1 ≤ k ≤ (calls of t)/cnt`, or `k = (calls of t)/cnt`) has its id in the printed list
  `obsTests`; when deleting, NO entry with that header is in the file any more; in every other mode `e` itself
  still is, header and body;
* every existing regular file `dir/name` (`.snap` in `name`; not a directory: `NotDir`) of the snapshot
  directory other than `p` — no step of `h` addressed it: all address `p` — is in the printed list `obsFiles`;
  when deleting it does not exist any more, in every other mode it reads as before. -/
theorem go_stale_reported_words (env : Env) (fs₀ : FS) (c : Cfg) (caller p rel : Text) (h : List Step)
    (parseFile : Text → List GoDecl × Err) (re : Text → Text → Bool × Bool) (cnt : Nat) (err : Err)
    (opts : List Bool)
    (hsp : ∀ t, snapshotPath c caller t false = (p, some rel)) (hok : HistOK h) (hcnt : cnt > 0)
    (hre : ∀ s, (re [] s).1 = true)
    (hjf : JoinFaithful (fpDir p)) (hin : InDir p) (hnd : NotDir fs₀ p) (hcalls : calledNames h ≠ []) :
    ∃ st1, goRun IOFail.never c caller (freshSt env fs₀) h = some st1 ∧
    ∀ es, FileAfter st1.fs p es h (opts.head?.getD false) →
    ∃ (fs2 : FS) (obsFiles obsTests : List Text) (es' : List Entry),
      Generated.FuncsIO.Clean IOFail.never st1 parseFile re [] ((cnt : Int), err) () opts =
        some { st1 with fs := fs2, stdout := st1.stdout ++ summaryLine (Generated.FuncsIO.summary obsFiles
          obsTests (GoSem.len st1.skipped) st1.events (cleanUpd st1)) } ∧
      fsRead fs2 p = some (render es') ∧ CleanFile es' ∧
      (∀ e ∈ es,
        (∀ t ∈ calledNames h, ∀ k, e.id = testID t k →
          ¬ (k = (calledNames h).count t / cnt ∨ (1 ≤ k ∧ k ≤ (calledNames h).count t / cnt))) →
        tidOf e ∈ obsTests ∧
        (deleting env = true → ∀ e' ∈ es', e'.id ≠ e.id) ∧ (deleting env = false → e ∈ es')) ∧
      (∀ name, SimpleName name → dirPrefix (fpDir p) ++ name ≠ p →
        fsRead st1.fs (dirPrefix (fpDir p) ++ name) ≠ none → NotDir st1.fs (dirPrefix (fpDir p) ++ name) →
        dirPrefix (fpDir p) ++ name ∈ obsFiles ∧
        (deleting env = true → fsRead fs2 (dirPrefix (fpDir p) ++ name) = none) ∧
        (deleting env = false →
          fsRead fs2 (dirPrefix (fpDir p) ++ name) = fsRead st1.fs (dirPrefix (fpDir p) ++ name))) := by
  obtain ⟨st1, e1, hmain⟩ := go_stale_reported env fs₀ c caller p rel h parseFile re cnt err opts hsp hok hcnt
    hre hjf hin hnd hcalls
  refine ⟨st1, e1, fun es hfa => ?_⟩
  obtain ⟨fs2, obsF, obsT, registered, hclean, hslots, hobs, ⟨es', hr2, hf', hperm⟩, hfiles, hrem, _⟩ :=
    hmain es hfa
  refine ⟨fs2, obsF, obsT, es', hclean, hr2, hf', ?_, ?_⟩
  · intro e he hstale
    have hnreg : tidOf e ∉ registered := by
      intro hm
      obtain ⟨t, ht, k, hk, hslot⟩ := (hslots _).mp hm
      exact hstale t ht k (id_eq_testID_of_tid (hfa.clean.recognised e he) hk) hslot
    have hc : registered.contains (tidOf e) = false := by simpa using hnreg
    refine ⟨?_, ?_, ?_⟩
    · rw [hobs]
      exact List.mem_map.mpr ⟨e, List.mem_filter.mpr ⟨he, by simpa using hnreg⟩, rfl⟩
    · intro hd e' he' hid
      have := (List.mem_filter.mp (hperm.mem_iff.mp he')).2
      rw [hd] at this
      simp only [Bool.not_true, Bool.or_false] at this
      rw [tidOf_congr hid, hc] at this
      cases this
    · intro hd
      exact hperm.mem_iff.mpr (List.mem_filter.mpr ⟨he, by simp [hd]⟩)
  · intro name hs hne hex hnd'
    have hm : dirPrefix (fpDir p) ++ name ∈ obsF :=
      (hfiles _).mpr ⟨name, hs, readDir_lists_file st1.fs (fpDir p) name hs.1 hs.2.1 hex hnd', rfl, hne⟩
    refine ⟨hm, fun hd => ?_, fun hd => ?_⟩
    · rw [hrem _ hm, hd]; rfl
    · rw [hrem _ hm, hd]; rfl

/-- **C09 completeness, ANY mix of modes in the run** (`go_stale_reported_words` with `FileAfter` discharged
    from hypotheses on the INPUTS as in `goRun_fileAfter`: `Good` initial file with recognised headers, NoShadow,
    test names without a space, the file exists or creation is allowed) -/
theorem go_stale_reported_any_run (env : Env) (fs₀ : FS) (c : Cfg) (caller p rel : Text)
    (es₀ : List Entry) (h : List Step)
    (parseFile : Text → List GoDecl × Err) (re : Text → Text → Bool × Bool) (cnt : Nat) (err : Err)
    (opts : List Bool)
    (hsp : ∀ t, snapshotPath c caller t false = (p, some rel))
    (hfile : Holds fs₀ p es₀) (hgood : Good es₀)
    (hns : NoShadowAll es₀ (calledNames h) (texts h))
    (hrec₀ : ∀ e ∈ es₀, Recognised e)
    (htest : ∀ t ∈ calledNames h, (32 : Byte) ∉ t)
    (hce : fsRead fs₀ p ≠ none ∨ shouldCreate env c.update = true)
    (hcnt : cnt > 0) (hre : ∀ s, (re [] s).1 = true)
    (hjf : JoinFaithful (fpDir p)) (hin : InDir p) (hnd : NotDir fs₀ p) (hcalls : calledNames h ≠ []) :
    ∃ st1 es, goRun IOFail.never c caller (freshSt env fs₀) h = some st1 ∧
      Holds st1.fs p es ∧ CleanFile es ∧
      ((opts.head?.getD false = true → TotalOn (es.map tidOf)) →
      ∃ (fs2 : FS) (obsFiles obsTests : List Text) (es' : List Entry),
        Generated.FuncsIO.Clean IOFail.never st1 parseFile re [] ((cnt : Int), err) () opts =
          some { st1 with fs := fs2, stdout := st1.stdout ++ summaryLine (Generated.FuncsIO.summary obsFiles
            obsTests (GoSem.len st1.skipped) st1.events (cleanUpd st1)) } ∧
        fsRead fs2 p = some (render es') ∧ CleanFile es' ∧
        (∀ e ∈ es,
          (∀ t ∈ calledNames h, ∀ k, e.id = testID t k →
            ¬ (k = (calledNames h).count t / cnt ∨ (1 ≤ k ∧ k ≤ (calledNames h).count t / cnt))) →
          tidOf e ∈ obsTests ∧
          (deleting env = true → ∀ e' ∈ es', e'.id ≠ e.id) ∧ (deleting env = false → e ∈ es')) ∧
        (∀ name, SimpleName name → dirPrefix (fpDir p) ++ name ≠ p →
          fsRead st1.fs (dirPrefix (fpDir p) ++ name) ≠ none → NotDir st1.fs (dirPrefix (fpDir p) ++ name) →
          dirPrefix (fpDir p) ++ name ∈ obsFiles ∧
          (deleting env = true → fsRead fs2 (dirPrefix (fpDir p) ++ name) = none) ∧
          (deleting env = false →
            fsRead fs2 (dirPrefix (fpDir p) ++ name) = fsRead st1.fs (dirPrefix (fpDir p) ++ name)))) := by
  obtain ⟨st1, es, e1, _, hfa⟩ := goRun_fileAfter env fs₀ c caller p rel es₀ h hsp hfile hgood hns hrec₀
    htest hce
  obtain ⟨st1', e1', hmain⟩ := go_stale_reported_words env fs₀ c caller p rel h parseFile re cnt err opts hsp
    (HistOK_of_bodies h hns.bodies) hcnt hre hjf hin hnd hcalls
  rw [e1] at e1'; cases e1'
  have hf0 := hfa false (fun hh => by cases hh)
  exact ⟨st1, es, e1, hf0.holds, hf0.clean, fun hto => hmain es (hfa _ hto)⟩

/-! ## 3. C10: a second `Clean` changes nothing, in EVERY mode -/

/-- the second `Clean`, stage by stage (model level): after a supported first `Clean` of a world whose registry
    knows only the file `p`, the stages of a second one over the file system the first left succeed, write
    nothing, remove nothing; when deleting they report nothing, otherwise the same items again -/
theorem second_clean_stages (w1 : World) (p : Text) (sortOpt : Bool) (cnt : Nat) (es : List Entry)
    (hkeys : ∀ kv ∈ w1.cleanup, kv.1.1 = p) (hjf : JoinFaithful (fpDir p))
    (hf : CleanFile es) (hfile : Holds w1.fs p es) (hto : sortOpt = true → TotalOn (es.map tidOf))
    (fr : FilesResult) (obsT : List Text) (fs2 : FS) (wr : List Text)
    (crun : CleanRun {} w1 sortOpt [] cnt [] fr obsT fs2 wr) :
    ∃ fr2 obs2, GoSnaps.examineFiles {} fs2 (cleanRegPaths w1) [] []
        (Generated.cleanFilesUpdate w1.env sortOpt) = some fr2 ∧
      examineSnaps {} fr2.fs w1.cleanup w1.skipped fr2.used [] cnt (Generated.cleanSnapsUpdate w1.env sortOpt)
        (Generated.cleanSnapsSort w1.env sortOpt) = .ok obs2 fs2 [] ∧
      (Generated.cleanFilesUpdate w1.env sortOpt = true → fr2.obsolete = [] ∧ obs2 = []) ∧
      (Generated.cleanFilesUpdate w1.env sortOpt = false → fr2.obsolete = fr.obsolete ∧ obs2.Perm obsT) := by
  have hupd : Generated.cleanSnapsUpdate w1.env sortOpt = Generated.cleanFilesUpdate w1.env sortOpt := rfl
  have hfiles := crun.files
  have hsn := crun.snaps
  by_cases hne : w1.cleanup = []
  · -- no call was made: nothing is listed, nothing is examined
    rw [cleanRegPaths_nil w1 hne, examineFiles_none] at hfiles
    simp only [Option.some.injEq] at hfiles
    subst hfiles
    unfold examineSnaps at hsn
    rw [examineSnaps_go_nil] at hsn
    simp only [SnapsOutcome.ok.injEq] at hsn
    obtain ⟨rfl, rfl, rfl⟩ := hsn
    refine ⟨{ fs := w1.fs }, [], ?_, ?_, fun _ => ⟨rfl, rfl⟩, fun _ => ⟨rfl, List.Perm.refl _⟩⟩
    · rw [cleanRegPaths_nil w1 hne, examineFiles_none]
    · unfold examineSnaps; rw [examineSnaps_go_nil]
  · have hnrem : p ∉ fr.removed := regPath_not_removed {} w1 p hkeys [] _ fr hfiles
    have hframe := (C09.examineFiles_untouched _ _ _ _ _ _ _ hfiles).2.2.2 p hnrem
    rw [cleanRegPaths_single w1 p hne hkeys] at hfiles ⊢
    have hcf := hfiles
    rw [examineFiles_one] at hcf
    simp only [Option.some.injEq] at hcf
    have hused : fr.used = [] ∨ fr.used = [p] := by
      rw [← hcf]; exact filesUsed_nil_or_single w1.fs p hjf
    rcases hused with hu | hu
    · -- the first `Clean` examined no file: the second lists the same directory, `p` is still not named
      rw [hu] at hsn
      unfold examineSnaps at hsn
      rw [examineSnaps_go_nil] at hsn
      simp only [SnapsOutcome.ok.injEq] at hsn
      obtain ⟨rfl, rfl, rfl⟩ := hsn
      have h2 := examineFiles_one_again {} w1.fs fr.fs p _ hjf fr hfiles rfl
      refine ⟨_, [], h2, ?_, fun hd => ⟨by simp [hd], rfl⟩, fun hd => ⟨by simp [hd], List.Perm.refl _⟩⟩
      simp only [hu]
      unfold examineSnaps; rw [examineSnaps_go_nil]
    · -- the first `Clean` examined `p`: its second examination writes nothing
      rw [hu] at hsn
      obtain ⟨cc, hcc⟩ := examineSnaps_go_reads {} _ _ _ _ _ _ _ _ _ _ _ _ _ hsn p (by simp)
      have hread : fsRead fr.fs p = some (render es) := by
        rcases hfile with h1 | ⟨h1, _⟩
        · rw [hframe]; exact h1
        · rw [hframe, h1] at hcc; cases hcc
      obtain ⟨registered, hreg⟩ : ∃ r, registeredFor w1.cleanup p cnt = some r :=
        occurrences_snapshot_total _ cnt
      have hcls : ∀ e ∈ es, Classified {} registered w1.skipped [] (tidOf e) :=
        fun e _ => classified_noRun {} registered _ _
      obtain ⟨obs', hsec, hobsT, hobsP⟩ := C10.second_run_writes_nothing {} fr.fs w1.cleanup w1.skipped p [] cnt
        _ _ registered es hf hread hreg hcls
        (fun hs => hto (by
          unfold Generated.cleanSnapsSort at hs
          simp only [Bool.and_eq_true] at hs
          exact hs.1)) obsT fs2 wr hsn
      have hpaths : fs2.map (·.1) = fr.fs.map (·.1) := by
        have hsn' := hsn
        rw [examineSnaps_single {} registered w1.skipped [] fr.fs w1.cleanup p cnt _ _ es hf hread hreg hcls]
          at hsn'
        obtain ⟨_, es', _, _, hcase⟩ := cleanOutcome_holds _ es hf p fr.fs _ _ obsT fs2 wr hsn'
        rcases hcase with ⟨h1, _, _⟩ | ⟨h1, _⟩
        · rw [h1]
        · rw [h1]; exact paths_fsWrite_of_exists _ _ _ (by rw [hread]; simp)
      have h2 := examineFiles_one_again {} w1.fs fs2 p _ hjf fr hfiles hpaths
      refine ⟨_, obs', h2, ?_, fun hd => ⟨by simp [hd], hobsT (hupd ▸ hd)⟩,
        fun hd => ⟨by simp [hd], hobsP (hupd ▸ hd)⟩⟩
      simp only [hu]
      exact hsec

/-- **C10, end to end: a second `Clean` changes nothing — in EVERY mode** (report, sort, CI, and now also
    `UPDATE_SNAPS=true|clean` off CI, sort on or off).

After any run, with the snapshot file well-formed (`FileAfter`), the first `Clean` may remove obsolete files
and prune and sort the snapshot file (`st2`); a second `Clean` in the state the first one left (same process:
same registries, same counters) does not panic, leaves the FILE SYSTEM EXACTLY as the first one left it, and
prints the summary of two lists `obsF2`, `obsT2` which are EMPTY when deleting — no item the first call removed
is reported again — and in every other mode are the same files and a permutation of the same ids.

`hjf` (`filepath.Join` is faithful on the snapshot directory) is the only hypothesis beyond those of
`go_matched_survive_clean`; it is used to recognise the snapshot file and the obsolete files in the listing.
No `InDir` / `NotDir` hypothesis: whether or not the listing names `p`, the second listing names it iff the
first did (`examineFiles_one_again`). -/
theorem go_second_clean_changes_nothing_every_mode (env : Env) (fs₀ : FS) (c : Cfg) (caller p rel : Text)
    (h : List Step) (parseFile : Text → List GoDecl × Err) (re : Text → Text → Bool × Bool) (cnt : Nat)
    (err : Err) (opts : List Bool)
    (hsp : ∀ t, snapshotPath c caller t false = (p, some rel)) (hok : HistOK h) (hcnt : cnt > 0)
    (hre : ∀ s, (re [] s).1 = true) (hjf : JoinFaithful (fpDir p)) :
    ∃ st1, goRun IOFail.never c caller (freshSt env fs₀) h = some st1 ∧
    ∀ es, FileAfter st1.fs p es h (opts.head?.getD false) →
    ∃ (fs2 : FS) (obsF1 obsT1 : List Text) (st2 : St),
      st2 = { st1 with fs := fs2, stdout := st1.stdout ++ summaryLine (Generated.FuncsIO.summary obsF1
        obsT1 (GoSem.len st1.skipped) st1.events (cleanUpd st1)) } ∧
      Generated.FuncsIO.Clean IOFail.never st1 parseFile re [] ((cnt : Int), err) () opts = some st2 ∧
      ∃ (obsF2 obsT2 : List Text),
        Generated.FuncsIO.Clean IOFail.never st2 parseFile re [] ((cnt : Int), err) () opts =
          some { st2 with stdout := st2.stdout ++ summaryLine (Generated.FuncsIO.summary obsF2
            obsT2 (GoSem.len st2.skipped) st2.events (cleanUpd st2)) } ∧
        (deleting env = true → obsF2 = [] ∧ obsT2 = []) ∧
        (deleting env = false → obsF2 = obsF1 ∧ obsT2.Perm obsT1) := by
  obtain ⟨st1, hr⟩ := goRun_reached env fs₀ c caller p rel h hsp hok
  refine ⟨st1, hr.run, fun es hfa => ?_⟩
  have hsup := hr.supported (opts.head?.getD false) cnt hcnt es hfa.holds hfa.clean hfa.exist hfa.total
  have hclean := Clean_reached hr parseFile re cnt err opts hcnt hre (fun _ => hjf) hsup
  obtain ⟨sa, fr, obsT, fs2, wr, crun⟩ := clean_supported {} _ _ [] cnt hsup
  have hsa : sa = [] := by
    have := crun.occ
    rw [hr.reg.sclean, CleanWorld.occurrences_nil] at this
    exact (Option.some.inj this).symm
  subst hsa
  rw [crun.result, cleanStdout_go hr.crel] at hclean
  have hrel1 := hr.crel
  have hkeys := hr.reg.keys
  have hscl := hr.reg.sclean
  have hwenv := hr.wenv
  have hfile1 : Holds (C01World.run c caller { env := env, fs := fs₀ } h).1.fs p es := hr.rel.fs ▸ hfa.holds
  generalize (C01World.run c caller { env := env, fs := fs₀ } h).1 = w1 at *
  have hupdF : Generated.cleanFilesUpdate w1.env (opts.head?.getD false) = deleting env := by
    unfold Generated.cleanFilesUpdate; rw [hwenv]
  obtain ⟨fr2, obs2, hfiles2, hsn2, hA, hB⟩ := second_clean_stages w1 p (opts.head?.getD false) cnt es hkeys hjf
    hfa.clean hfile1 hfa.total fr obsT fs2 wr crun
  have hfs2 : fr2.fs = fs2 := by
    have inv := GoSnaps.examineFiles_inv _ _ _ _ _ _ _ hfiles2
    cases hd : Generated.cleanFilesUpdate w1.env (opts.head?.getD false) with
    | false => exact ((C09.examineFiles_untouched _ _ _ _ _ _ _ hfiles2).2.1 hd).2
    | true =>
      have hrm : fr2.removed = [] := by rw [inv.removed_eq, (hA hd).1]; simp
      rw [inv.fs_eq, hrm]; rfl
  rw [hfs2] at hsn2
  have crun2 := clean_of_stages {} { w1 with fs := fs2 } (opts.head?.getD false) [] cnt (by omega) [] fr2
    obs2 fs2 [] (by rw [hscl]; rfl) hfiles2 (by rw [hfs2]; exact hsn2)
  have hrel2 := hrel1.after_clean fs2 (st1.stdout ++ summaryLine (Generated.FuncsIO.summary fr.obsolete
    obsT (GoSem.len st1.skipped) st1.events (cleanUpd st1)))
  have hclean2 := Clean_oneFile hrel2 p hkeys hscl parseFile re cnt err opts hcnt hre (fun _ => hjf)
    crun2.supported
  rw [crun2.result, cleanStdout_go hrel2] at hclean2
  refine ⟨fs2, fr.obsolete, obsT, _, rfl, hclean, fr2.obsolete, obs2, hclean2, ?_, ?_⟩
  · intro hd; exact hA (hupdF.trans hd)
  · intro hd; exact hB (hupdF.trans hd)

/-- **C10 in the form of `go_second_clean_changes_nothing`, without its restriction on the mode** -/
theorem go_second_clean_changes_nothing_every_mode' (env : Env) (fs₀ : FS) (c : Cfg) (caller p rel : Text)
    (h : List Step) (parseFile : Text → List GoDecl × Err) (re : Text → Text → Bool × Bool) (cnt : Nat)
    (err : Err) (opts : List Bool)
    (hsp : ∀ t, snapshotPath c caller t false = (p, some rel)) (hok : HistOK h) (hcnt : cnt > 0)
    (hre : ∀ s, (re [] s).1 = true) (hjf : JoinFaithful (fpDir p)) :
    ∃ st1, goRun IOFail.never c caller (freshSt env fs₀) h = some st1 ∧
    ∀ es, FileAfter st1.fs p es h (opts.head?.getD false) →
    ∃ st2, Generated.FuncsIO.Clean IOFail.never st1 parseFile re [] ((cnt : Int), err) () opts = some st2 ∧
    ∃ st3, Generated.FuncsIO.Clean IOFail.never st2 parseFile re [] ((cnt : Int), err) () opts = some st3 ∧
      st3.fs = st2.fs := by
  obtain ⟨st1, e1, hmain⟩ := go_second_clean_changes_nothing_every_mode env fs₀ c caller p rel h parseFile re cnt
    err opts hsp hok hcnt hre hjf
  refine ⟨st1, e1, fun es hfa => ?_⟩
  obtain ⟨fs2, oF, oT, st2, _, hc1, oF2, oT2, hc2, _⟩ := hmain es hfa
  exact ⟨st2, hc1, _, hc2, rfl⟩

/-- **C10, end to end, ANY mix of modes in the run AND any mode of `Clean`** (`FileAfter` discharged from
    hypotheses on the inputs, as in `go_second_clean_changes_nothing_any_mode`, whose restriction `hnd` to the
    modes without deletion is gone) -/
theorem go_second_clean_changes_nothing_any_run (env : Env) (fs₀ : FS) (c : Cfg) (caller p rel : Text)
    (es₀ : List Entry) (h : List Step)
    (parseFile : Text → List GoDecl × Err) (re : Text → Text → Bool × Bool) (cnt : Nat) (err : Err)
    (opts : List Bool)
    (hsp : ∀ t, snapshotPath c caller t false = (p, some rel))
    (hfile : Holds fs₀ p es₀) (hgood : Good es₀)
    (hns : NoShadowAll es₀ (calledNames h) (texts h))
    (hrec₀ : ∀ e ∈ es₀, Recognised e)
    (htest : ∀ t ∈ calledNames h, (32 : Byte) ∉ t)
    (hce : fsRead fs₀ p ≠ none ∨ shouldCreate env c.update = true)
    (hcnt : cnt > 0) (hre : ∀ s, (re [] s).1 = true) (hjf : JoinFaithful (fpDir p)) :
    ∃ st1 es, goRun IOFail.never c caller (freshSt env fs₀) h = some st1 ∧
      Holds st1.fs p es ∧ CleanFile es ∧
      ((opts.head?.getD false = true → TotalOn (es.map tidOf)) →
      ∃ st2, Generated.FuncsIO.Clean IOFail.never st1 parseFile re [] ((cnt : Int), err) () opts = some st2 ∧
      ∃ (obsF2 obsT2 : List Text),
        Generated.FuncsIO.Clean IOFail.never st2 parseFile re [] ((cnt : Int), err) () opts =
          some { st2 with stdout := st2.stdout ++ summaryLine (Generated.FuncsIO.summary obsF2
            obsT2 (GoSem.len st2.skipped) st2.events (cleanUpd st2)) } ∧
        (deleting env = true → obsF2 = [] ∧ obsT2 = [])) := by
  obtain ⟨st1, es, e1, _, hfa⟩ := goRun_fileAfter env fs₀ c caller p rel es₀ h hsp hfile hgood hns hrec₀
    htest hce
  obtain ⟨st1', e1', hmain⟩ := go_second_clean_changes_nothing_every_mode env fs₀ c caller p rel h parseFile re
    cnt err opts hsp (HistOK_of_bodies h hns.bodies) hcnt hre hjf
  rw [e1] at e1'; cases e1'
  have hf0 := hfa false (fun hh => by cases hh)
  refine ⟨st1, es, e1, hf0.holds, hf0.clean, fun hto => ?_⟩
  obtain ⟨fs2, oF, oT, st2, _, hc1, oF2, oT2, hc2, hA, _⟩ := hmain es (hfa _ hto)
  exact ⟨st2, hc1, oF2, oT2, hc2, hA⟩

/-! ## 4. C07 with `-count > 1`: a history of `cnt` closed rounds

`go test -count=cnt` executes every test function `cnt` times, one execution after the other; go-snaps resets
its running counters in `t.Cleanup`.  A history of such a process is a list of ROUNDS: -/

/-- **a history of `cnt` executions**: `cnt` rounds; in each round every call is followed, within the round, by
    the end of the test execution that made it (`ClosedRound`: `t.Cleanup` ran before the next execution
    starts); every round makes the same number `m t` of calls of each test `t`.  The rounds need NOT be
    identical step by step: texts, `testing.T` identities and the interleaving of parallel tests may differ
    from round to round.  `cnt` identical rounds are the special case `Rounds.replicate`. -/
structure Rounds (cnt : Nat) (m : Text → Nat) (rounds : List (List Step)) : Prop where
  len : rounds.length = cnt
  closed : ∀ r ∈ rounds, ClosedRound r
  calls : ∀ r ∈ rounds, ∀ t, (calledNames r).count t = m t

/-- `cnt` identical executions of a closed round -/
theorem Rounds.replicate (cnt : Nat) (round : List Step) (hcl : ClosedRound round) :
    Rounds cnt (fun t => (calledNames round).count t) (List.replicate cnt round) :=
  ⟨List.length_replicate, fun r hr => (List.eq_of_mem_replicate hr) ▸ hcl,
    fun r hr t => by rw [List.eq_of_mem_replicate hr]⟩

/-- with `cnt` rounds of `m t` calls each, `occurrences` protects exactly the ordinals `1 … m t` of `t` -/
theorem Rounds.quotient {cnt : Nat} {m : Text → Nat} {rounds : List (List Step)} (hR : Rounds cnt m rounds)
    (hcnt : cnt > 0) (t : Text) : (calledNames rounds.flatten).count t / cnt = m t := by
  rw [count_rounds rounds t (m t) (fun r hr => hR.calls r hr t), hR.len]
  exact Nat.mul_div_cancel_left _ hcnt

theorem idle_fresh (env : Env) (fs₀ : FS) : Idle ({ env := env, fs := fs₀ } : World) :=
  ⟨fun _ => rfl, rfl⟩

/-- **the slot a call addresses is a protected one, for every `-count`.**  The history consists of rounds
    (executions); `R1` are the closed rounds before the current one, `h1 ++ call t … :: h2` is the current round
    and `R2` are the rounds after it; all `cnt` rounds make `m` calls of `t`.  Then the TRANSLITERATED
    `syncRegistry.getTestID` hands the call the header `[t - k]` with

    * `1 ≤ k ≤ (calls of t in the current round up to and including this one) ≤ m`, and
      `m = (calls of t in the whole history) / cnt`: `[t - k]` is a slot of `go_matched_survive_clean`;
    * `k = (calls of t earlier in the current round) + 1` EXACTLY when the current round is `Scoped` (a test is
      not called again after its execution ended): the `k`-th call of `t` in EVERY execution addresses
      `[t - k]`. -/
theorem go_call_addresses_count (env : Env) (fs₀ : FS) (c : Cfg) (caller p rel : Text)
    (R1 R2 : List (List Step)) (h1 h2 : List Step) (t s : Text) (cmp : Cmp) (x : Nat) (cnt m : Nat)
    (hsp : ∀ t, snapshotPath c caller t false = (p, some rel)) (hok : HistOK (R1.flatten ++ h1))
    (hlen : (R1 ++ (h1 ++ .call t s cmp x :: h2) :: R2).length = cnt)
    (hcl : ∀ r ∈ R1, ClosedRound r)
    (hm : ∀ r ∈ R1 ++ (h1 ++ .call t s cmp x :: h2) :: R2, (calledNames r).count t = m) :
    ∃ (mid : St) (k : Nat) (r' : Registry),
      goRun IOFail.never c caller (freshSt env fs₀) (R1.flatten ++ h1) = some mid ∧
      syncRegistry_getTestID mid.reg p t = some (r', testID t k) ∧ 1 ≤ k ∧
      k ≤ (calledNames h1).count t + 1 ∧ k ≤ m ∧
      k ≤ (calledNames (R1 ++ (h1 ++ .call t s cmp x :: h2) :: R2).flatten).count t / cnt ∧
      (Scoped [] (h1 ++ .call t s cmp x :: h2) → k = (calledNames h1).count t + 1) := by
  obtain ⟨mid, e, r, _⟩ := goRun_simulates' c caller (R1.flatten ++ h1) (StRel_init env fs₀) hok
    (run_supported c caller p rel hsp _ _)
  obtain ⟨r', id, hg, _, hid, _⟩ := syncRegistry_getTestID_tied mid.reg _ _ p t r.reg
  rw [C03.testID_eq] at hid
  cases hid
  have hsp1 : ∀ t, (snapshotPath c caller t false).1 = p := fun t => by rw [hsp t]
  have hle := ordinal_le_round c caller p hsp1 _ (idle_fresh env fs₀) R1 hcl h1 t
  have hround : (calledNames h1).count t + 1 ≤ m := by
    rw [← hm (h1 ++ .call t s cmp x :: h2) (by simp), calledNames_append', List.count_append]
    simp [calledNames]
  have hcnt : cnt > 0 := by rw [← hlen]; simp; omega
  have hq : (calledNames (R1 ++ (h1 ++ .call t s cmp x :: h2) :: R2).flatten).count t / cnt = m := by
    rw [count_rounds _ t m hm, hlen]
    exact Nat.mul_div_cancel_left _ hcnt
  refine ⟨mid, _, r', e, hg, by omega, hle, by omega, by omega, fun hsc => ?_⟩
  exact ordinal_eq_round c caller p (fun t => ⟨_, hsp t⟩) _ (idle_fresh env fs₀) R1 hcl h1 h2 t s cmp x hsc

/-- **C07, end to end, for every `-count`: `go_matched_survive_clean_count`.**  `go_matched_survive_clean`
    for a history of `cnt` rounds (`Rounds cnt m rounds`), with its arithmetic hypothesis on `must` discharged:
    every entry `[t - k]` of the file with `1 ≤ k ≤ m t` — `k` at most the number of calls of `t` in ONE
    execution; by `go_call_addresses_count` every call of every round addresses such a slot — is still in the
    file with its body after `Clean` with `-count = cnt`, and is not printed as obsolete. -/
theorem go_matched_survive_clean_count (env : Env) (fs₀ : FS) (c : Cfg) (caller p rel : Text)
    (rounds : List (List Step)) (cnt : Nat) (m : Text → Nat)
    (parseFile : Text → List GoDecl × Err) (re : Text → Text → Bool × Bool) (err : Err) (opts : List Bool)
    (hR : Rounds cnt m rounds)
    (hsp : ∀ t, snapshotPath c caller t false = (p, some rel)) (hok : HistOK rounds.flatten) (hcnt : cnt > 0)
    (hre : ∀ s, (re [] s).1 = true)
    (hj : (Generated.shouldClean env && !env.isCI) = true → JoinFaithful (fpDir p)) :
    ∃ st1, goRun IOFail.never c caller (freshSt env fs₀) rounds.flatten = some st1 ∧
    ∀ es, FileAfter st1.fs p es rounds.flatten (opts.head?.getD false) →
    ∃ (fs2 : FS) (obsFiles obsTests : List Text),
      Generated.FuncsIO.Clean IOFail.never st1 parseFile re [] ((cnt : Int), err) () opts =
        some { st1 with fs := fs2, stdout := st1.stdout ++ summaryLine (Generated.FuncsIO.summary obsFiles
          obsTests (GoSem.len st1.skipped) st1.events (cleanUpd st1)) } ∧
      ∀ must : List Entry, (∀ e ∈ must, e ∈ es) →
        (∀ e ∈ must, ∃ t k, e.id = testID t k ∧ 1 ≤ k ∧ k ≤ m t) →
        (∀ e ∈ must, tidOf e ∉ obsTests) ∧
        ∃ es', Holds fs2 p es' ∧ CleanFile es' ∧ (∀ e ∈ must, e ∈ es') ∧ (∀ e ∈ es', e ∈ es) := by
  obtain ⟨st1, e1, hmain⟩ := go_matched_survive_clean env fs₀ c caller p rel rounds.flatten parseFile re cnt err
    opts hsp hok hcnt hre hj
  refine ⟨st1, e1, fun es hfa => ?_⟩
  obtain ⟨fs2, oF, oT, hc, hk⟩ := hmain es hfa
  refine ⟨fs2, oF, oT, hc, fun must hall hcov => hk must hall (fun e he => ?_)⟩
  obtain ⟨t, k, hid, hk1, hk2⟩ := hcov e he
  exact ⟨t, k, hid, hk1, by rw [hR.quotient hcnt t]; exact hk2⟩

/-- **C07 in the words of the property, for every `-count`: what a step of ANY execution addressed and found or
    created survives `Clean`** (`go_addressed_survive_clean` was `-count=1`).

The history is `cnt` rounds `R1 ++ [h1 ++ call t … :: h2] ++ R2` (`Rounds cnt m`), run from a fresh process
over a `Good` initial file, in any mix of modes.  The transliterated `getTestID` hands the call the header
`[t - k]`, `k ≤ m t`.  If the call found or created its entry (`[t - k]` is a header of what the file holds right
after the call) then it is a header of what the file holds at the end of the run, and after `Clean` with
`-count = cnt` (any mode, any sort option) the entry `⟨[t - k], b⟩` of the file is not printed as obsolete and is
still in the file with its body `b`. -/
theorem go_addressed_survive_clean_count (env : Env) (fs₀ : FS) (c : Cfg) (caller p rel : Text)
    (es₀ : List Entry) (R1 R2 : List (List Step)) (h1 h2 : List Step) (t s : Text) (cmp : Cmp) (x : Nat)
    (cnt : Nat) (m : Text → Nat)
    (parseFile : Text → List GoDecl × Err) (re : Text → Text → Bool × Bool) (err : Err) (opts : List Bool)
    (hR : Rounds cnt m (R1 ++ (h1 ++ .call t s cmp x :: h2) :: R2))
    (hsp : ∀ t, snapshotPath c caller t false = (p, some rel))
    (hfile : Holds fs₀ p es₀) (hgood : Good es₀)
    (hns : NoShadowAll es₀ (calledNames (R1 ++ (h1 ++ .call t s cmp x :: h2) :: R2).flatten)
      (texts (R1 ++ (h1 ++ .call t s cmp x :: h2) :: R2).flatten))
    (hrec₀ : ∀ e ∈ es₀, Recognised e)
    (htest : ∀ t' ∈ calledNames (R1 ++ (h1 ++ .call t s cmp x :: h2) :: R2).flatten, (32 : Byte) ∉ t')
    (hce : fsRead fs₀ p ≠ none ∨ shouldCreate env c.update = true)
    (hre : ∀ s, (re [] s).1 = true)
    (hj : (Generated.shouldClean env && !env.isCI) = true → JoinFaithful (fpDir p)) :
    ∃ (mid : St) (k : Nat) (r' : Registry),
      goRun IOFail.never c caller (freshSt env fs₀) (R1.flatten ++ h1) = some mid ∧
      syncRegistry_getTestID mid.reg p t = some (r', testID t k) ∧ 1 ≤ k ∧ k ≤ m t ∧
    ∃ aft esA, goRun IOFail.never c caller (freshSt env fs₀) ((R1.flatten ++ h1) ++ [.call t s cmp x]) = some aft ∧
      Holds aft.fs p esA ∧
    ∃ st1 es, goRun IOFail.never c caller (freshSt env fs₀)
        (R1 ++ (h1 ++ .call t s cmp x :: h2) :: R2).flatten = some st1 ∧
      Holds st1.fs p es ∧ CleanFile es ∧
      (testID t k ∈ ids esA → testID t k ∈ ids es) ∧
      ((opts.head?.getD false = true → TotalOn (es.map tidOf)) →
      ∃ (fs2 : FS) (obsFiles obsTests : List Text),
        Generated.FuncsIO.Clean IOFail.never st1 parseFile re [] ((cnt : Int), err) () opts =
          some { st1 with fs := fs2, stdout := st1.stdout ++ summaryLine (Generated.FuncsIO.summary obsFiles
            obsTests (GoSem.len st1.skipped) st1.events (cleanUpd st1)) } ∧
        ∀ b, (⟨testID t k, b⟩ : Entry) ∈ es →
          tidOf ⟨testID t k, b⟩ ∉ obsTests ∧
          ∃ es', Holds fs2 p es' ∧ CleanFile es' ∧ (⟨testID t k, b⟩ : Entry) ∈ es') := by
  have hH : (R1 ++ (h1 ++ .call t s cmp x :: h2) :: R2).flatten =
      ((R1.flatten ++ h1) ++ [.call t s cmp x]) ++ (h2 ++ R2.flatten) := by
    simp [List.flatten_append]
  have hcnt : cnt > 0 := by rw [← hR.len]; simp; omega
  have hok := HistOK_of_bodies _ hns.bodies
  have hokA : HistOK (R1.flatten ++ h1) := by
    rw [hH] at hok; exact hok.left.left
  obtain ⟨mid, k, r', emid, hg, hk1, _, hk2, _⟩ := go_call_addresses_count env fs₀ c caller p rel R1 R2 h1 h2 t s
    cmp x cnt (m t) hsp hokA hR.len (fun r hr => hR.closed r (by simp [hr])) (fun r hr => hR.calls r hr t)
  obtain ⟨aft, esA, st1, es, eA, hA, e1, hmono, hfa⟩ := goRun_fileAfter_split env fs₀ c caller p rel es₀
    ((R1.flatten ++ h1) ++ [.call t s cmp x]) (h2 ++ R2.flatten) hsp hfile hgood (hH ▸ hns) hrec₀
    (hH ▸ htest) hce
  rw [← hH] at e1 hfa
  obtain ⟨st1', e1', hmain⟩ := go_matched_survive_clean_count env fs₀ c caller p rel _ cnt m parseFile re err
    opts hR hsp hok hcnt hre hj
  rw [e1] at e1'; cases e1'
  have hf0 := hfa false (fun hh => by cases hh)
  refine ⟨mid, k, r', emid, hg, hk1, hk2, aft, esA, eA, hA, st1, es, e1, hf0.holds, hf0.clean, ?_, fun hto => ?_⟩
  · intro hm
    obtain ⟨o, ho, e⟩ := List.mem_map.mp hm
    rw [← e]; exact hmono o ho
  · obtain ⟨fs2, oF, oT, hc, hk⟩ := hmain es (hfa _ hto)
    refine ⟨fs2, oF, oT, hc, fun b hb => ?_⟩
    obtain ⟨q1, es', q2, q3, q4, _⟩ := hk [⟨testID t k, b⟩] (fun e he => by
        simp only [List.mem_singleton] at he; subst he; exact hb)
      (fun e he => by
        simp only [List.mem_singleton] at he; subst he; exact ⟨t, k, rfl, hk1, hk2⟩)
    exact ⟨q1 _ (by simp), es', q2, q3, q4 _ (by simp)⟩

/-! ## 5. concrete histories (non-vacuity)

As in §8 of `Tie/EndToEndClean.lean`: test file "/t/a_test.go", snapshot file `xp` =
"/t/__snapshots__/a_test.snap"; `hist` = tests "TestA" and "TestB", interleaved, two calls each; the initial
snapshot file holds one STALE entry "[TestZ - 1]".  New: the snapshot directory also holds a STALE FILE
`xold` = "/t/__snapshots__/old.snap" that no test addresses. -/

namespace E2E2
open GoSnaps.C07World.Ex (tA tB tZ hist es₀ fs₀ envClean hyps)
open E2E (xp xc exJoin exTotal envReport h2 a1 a2 es2)

/-- "/t/__snapshots__/old.snap" -/
def xold : Text :=
  [47, 116, 47, 95, 95, 115, 110, 97, 112, 115, 104, 111, 116, 115, 95, 95, 47, 111, 108, 100, 46, 115, 110, 97, 112]

/-- "old.snap" -/
def oldName : Text := [111, 108, 100, 46, 115, 110, 97, 112]

/-- the snapshot file with the stale entry, and the stale file -/
def fsS : FS := [(xp, render es₀), (xold, [122])]

def eZ : Entry := ⟨testID tZ 1, [113]⟩

theorem xp_inDir : InDir xp :=
  ⟨[97, 95, 116, 101, 115, 116, 46, 115, 110, 97, 112], ⟨by decide, by decide, by decide⟩, by decide +kernel⟩

theorem xold_eq : xold = dirPrefix (fpDir xp) ++ oldName := by decide +kernel

theorem oldName_simple : SimpleName oldName := ⟨by decide, by decide, by decide⟩

theorem fsS_notDir : NotDir fsS xp := notDir_of_paths _ _ (by decide +kernel)

/-- the record run over `fsS` leaves a file satisfying `FileAfter` (hypotheses by evaluation) -/
theorem fsS_fileAfter (sortOpt : Bool) :
    ∃ rcd, goRun IOFail.never {} xc (freshSt envClean fsS) hist = some rcd ∧
      FileAfter rcd.fs xp (es₀ ++ entriesOf hist) hist sortOpt := by
  obtain ⟨rcd, e, hfa, _⟩ := go_record_fileAfter envClean {} xc xp C01World.exRel fsS es₀ hist sortOpt
    C01World.exPath_spec hyps.1 (Or.inl (by decide +kernel)) hyps.2.2.1 hyps.2.2.2.1 hyps.2.2.2.2.1
    hyps.2.2.2.2.2.1 hyps.2.2.2.2.2.2.1 (by decide) hyps.2.2.2.2.2.2.2.2.1 (by decide +kernel) (fun _ => exTotal)
  exact ⟨rcd, e, hfa⟩

theorem fsS_run_fs : (goRun IOFail.never {} xc (freshSt envClean fsS) hist).map (fun s => s.fs) =
    some [(xp, render (es₀ ++ entriesOf hist)), (xold, [122])] := by decide +kernel

/-! ### a stale entry and a stale file, clean mode (`UPDATE_SNAPS=clean`, off CI), `-count=1` -/

/-- **C09 completeness applies**: all hypotheses of `go_stale_reported_words` by evaluation; the stale entry
    "[TestZ - 1]" is in the printed list and no entry with that header is left; the stale file "old.snap" is
    in the printed list and does not exist afterwards -/
example : ∃ st1, goRun IOFail.never {} xc (freshSt envClean fsS) hist = some st1 ∧
    ∃ (fs2 : FS) (obsFiles obsTests : List Text) (es' : List Entry),
      Generated.FuncsIO.Clean IOFail.never st1 xParse cRe [] (((1 : Nat) : Int), Err.nil) () [] =
        some { st1 with fs := fs2, stdout := st1.stdout ++ summaryLine (Generated.FuncsIO.summary obsFiles
          obsTests (GoSem.len st1.skipped) st1.events (cleanUpd st1)) } ∧
      fsRead fs2 xp = some (render es') ∧ tidOf eZ ∈ obsTests ∧ (∀ e' ∈ es', e'.id ≠ eZ.id) ∧
      xold ∈ obsFiles ∧ fsRead fs2 xold = none := by
  obtain ⟨rcd, e, hfa⟩ := fsS_fileAfter false
  obtain ⟨st1, e1, hmain⟩ := go_stale_reported_words envClean fsS {} xc xp C01World.exRel hist xParse cRe 1 Err.nil
    [] C01World.exPath_spec (HistOK_of_bodies hist hyps.2.2.2.2.2.1) (by decide) (fun _ => rfl) exJoin xp_inDir
    fsS_notDir (by decide)
  rw [e] at e1; cases e1
  have hfs : rcd.fs = [(xp, render (es₀ ++ entriesOf hist)), (xold, [122])] := by
    have := congrArg (Option.map (fun s : St => s.fs)) e
    rw [fsS_run_fs] at this
    exact (Option.some.inj this).symm
  obtain ⟨fs2, oF, oT, es', hc, hr2, _, hent, hfile⟩ := hmain _ hfa
  obtain ⟨k1, k2, _⟩ := hent eZ (by decide +kernel) (by
    intro t ht k hid
    have ht' : t = tA ∨ t = tB := by
      have : calledNames hist = [tA, tB, tA, tB] := by decide +kernel
      rw [this] at ht
      simp only [List.mem_cons, List.not_mem_nil, or_false] at ht
      rcases ht with h | h | h | h <;> simp [h]
    exfalso
    rcases ht' with rfl | rfl <;> simp [eZ, testID, tZ, tA, tB] at hid)
  obtain ⟨f1, f2, _⟩ := hfile oldName oldName_simple (by decide +kernel)
    (by rw [hfs, ← xold_eq]; decide +kernel)
    (by rw [hfs, ← xold_eq]; exact notDir_of_paths _ _ (by decide +kernel))
  rw [← xold_eq] at f1 f2
  exact ⟨rcd, e, fs2, oF, oT, es', hc, hr2, k1, k2 rfl, f1, f2 rfl⟩

/-- … and this is what the transliterated code does, by evaluation: `Clean` prints the summary of exactly
    `obsFiles = [old.snap]`, `obsTests = [TestZ - 1]`, removes the file and prunes the entry -/
example :
    ((goRun IOFail.never {} xc (freshSt envClean fsS) hist).bind fun st1 =>
      (Generated.FuncsIO.Clean IOFail.never st1 xParse cRe [] (1, Err.nil) () []).map fun st2 =>
        (st2.fs, decide (st2.stdout = st1.stdout ++ summaryLine (Generated.FuncsIO.summary [xold]
          [tidOf eZ] (GoSem.len st1.skipped) st1.events (cleanUpd st1))))) =
      some ([(xp, render [⟨testID tA 1, [120]⟩, ⟨testID tB 1, [122]⟩, ⟨testID tA 2, [120, 10, 10, 121]⟩,
        ⟨testID tB 2, [122, 122]⟩])], true) := by decide +kernel

/-- the same run in REPORT mode: both stale items are printed, neither is removed -/
example :
    ((goRun IOFail.never {} xc (freshSt envReport fsS) hist).bind fun st1 =>
      (Generated.FuncsIO.Clean IOFail.never st1 xParse cRe [] (1, Err.nil) () []).map fun st2 =>
        (decide (st2.fs = st1.fs), decide (st2.stdout = st1.stdout ++ summaryLine (Generated.FuncsIO.summary [xold]
          [tidOf eZ] (GoSem.len st1.skipped) st1.events (cleanUpd st1))))) = some (true, true) := by decide +kernel

/-! ### two `Clean`s in clean mode with `Sort` -/

/-- **C10 applies in clean mode** (`UPDATE_SNAPS=clean`, off CI, `Sort`): hypotheses by evaluation; the second
    `Clean` leaves the file system as the first left it and prints no obsolete item -/
example : ∃ st1, goRun IOFail.never {} xc (freshSt envClean fsS) hist = some st1 ∧
    ∃ st2, Generated.FuncsIO.Clean IOFail.never st1 xParse cRe [] (((1 : Nat) : Int), Err.nil) () [true] = some st2 ∧
    ∃ (obsF2 obsT2 : List Text),
      Generated.FuncsIO.Clean IOFail.never st2 xParse cRe [] (((1 : Nat) : Int), Err.nil) () [true] =
        some { st2 with stdout := st2.stdout ++ summaryLine (Generated.FuncsIO.summary obsF2
          obsT2 (GoSem.len st2.skipped) st2.events (cleanUpd st2)) } ∧ obsF2 = [] ∧ obsT2 = [] := by
  obtain ⟨rcd, e, hfa⟩ := fsS_fileAfter true
  obtain ⟨st1, e1, hmain⟩ := go_second_clean_changes_nothing_every_mode envClean fsS {} xc xp C01World.exRel hist
    xParse cRe 1 Err.nil [true] C01World.exPath_spec (HistOK_of_bodies hist hyps.2.2.2.2.2.1) (by decide)
    (fun _ => rfl) exJoin
  rw [e] at e1; cases e1
  obtain ⟨fs2, oF, oT, st2, _, hc1, oF2, oT2, hc2, hA, _⟩ := hmain _ hfa
  exact ⟨rcd, e, st2, hc1, oF2, oT2, hc2, (hA rfl).1, (hA rfl).2⟩

/-- … by evaluation: the first `Clean` changes the file system (removes "old.snap", prunes and sorts the snapshot
    file), the second leaves it exactly as it is -/
example :
    ((goRun IOFail.never {} xc (freshSt envClean fsS) hist).bind fun st1 =>
      (Generated.FuncsIO.Clean IOFail.never st1 xParse cRe [] (1, Err.nil) () [true]).bind fun st2 =>
      (Generated.FuncsIO.Clean IOFail.never st2 xParse cRe [] (1, Err.nil) () [true]).map fun st3 =>
        (st2.fs, decide (st2.fs ≠ st1.fs), decide (st3.fs = st2.fs))) =
      some ([(xp, render [⟨testID tA 1, [120]⟩, ⟨testID tA 2, [120, 10, 10, 121]⟩,
        ⟨testID tB 1, [122]⟩, ⟨testID tB 2, [122, 122]⟩])], true, true) := by decide +kernel

/-! ### `-count=2`: two executions of "TestA" with two calls each -/

def r1 : List Step := [.call tA [120] .raw 1, .call tA [121] .raw 1, .done 1]
def r2 : List Step := [.call tA [120] .raw 2, .call tA [121] .raw 2, .done 2]

theorem rounds_h2 : [r1, r2].flatten = h2 := rfl

/-- the history `h2` of §8 of `Tie/EndToEndClean.lean` is two closed rounds of two calls of "TestA" -/
theorem h2_rounds : Rounds 2 (fun t => (calledNames r1).count t) [r1, r2] :=
  ⟨rfl, by decide, fun r hr t => by
    simp only [List.mem_cons, List.not_mem_nil, or_false] at hr
    rcases hr with rfl | rfl <;> rfl⟩

/-- **the second call of the SECOND execution addresses "[TestA - 2]"** (`go_call_addresses_count`, exact
    ordinal: the round is `Scoped`), a slot `≤ (4 calls) / 2` -/
example : ∃ (mid : St) (r' : Registry),
    goRun IOFail.never {} xc (freshSt envClean fs₀) ([r1].flatten ++ [.call tA [120] .raw 2]) = some mid ∧
    syncRegistry_getTestID mid.reg xp tA = some (r', testID tA 2) := by
  obtain ⟨mid, k, r', e, hg, _, _, _, _, hk⟩ := go_call_addresses_count envClean fs₀ {} xc xp C01World.exRel
    [r1] [] [.call tA [120] .raw 2] [.done 2] tA [121] .raw 2 2 2 C01World.exPath_spec (by decide) rfl (by decide)
    (by decide)
  have := hk (by decide)
  subst this
  exact ⟨mid, r', e, hg⟩

/-- **`go_matched_survive_clean_count` applies** to the two rounds with `-count=2`: both entries survive -/
example : ∃ st1, goRun IOFail.never {} xc (freshSt envClean fs₀) h2 = some st1 ∧
    ∃ (fs2 : FS) (obsFiles obsTests : List Text),
      Generated.FuncsIO.Clean IOFail.never st1 xParse cRe [] (((2 : Nat) : Int), Err.nil) () [] =
        some { st1 with fs := fs2, stdout := st1.stdout ++ summaryLine (Generated.FuncsIO.summary obsFiles
          obsTests (GoSem.len st1.skipped) st1.events (cleanUpd st1)) } ∧
      tidOf a1 ∉ obsTests ∧ tidOf a2 ∉ obsTests ∧ ∃ es', Holds fs2 xp es' ∧ a1 ∈ es' ∧ a2 ∈ es' := by
  obtain ⟨st1, e1, hmain⟩ := go_matched_survive_clean_count envClean fs₀ {} xc xp C01World.exRel [r1, r2] 2 _
    xParse cRe Err.nil [] h2_rounds C01World.exPath_spec (by decide) (by decide) (fun _ => rfl) (fun _ => exJoin)
  rw [rounds_h2] at e1 hmain
  have hfs : st1.fs = [(xp, render es2)] := by
    have := congrArg (Option.map (fun s : St => s.fs)) e1
    rw [show (goRun IOFail.never {} xc (freshSt envClean fs₀) h2).map (fun s => s.fs) =
      some [(xp, render es2)] from by decide +kernel] at this
    exact (Option.some.inj this).symm
  have hread : fsRead st1.fs xp = some (render es2) := by rw [hfs]; simp [fsRead]
  have hfa : FileAfter st1.fs xp es2 h2 false :=
    ⟨Or.inl hread, ⟨by decide +kernel, by decide +kernel, by decide +kernel, by decide +kernel, by decide +kernel⟩,
      fun _ => by rw [hread]; simp, fun hh => by cases hh⟩
  obtain ⟨fs2, oF, oT, hc, hk⟩ := hmain es2 hfa
  obtain ⟨k1, es', k2, _, k4, _⟩ := hk [a1, a2] (by decide +kernel) (by
    intro e he
    simp only [List.mem_cons, List.not_mem_nil, or_false] at he
    rcases he with rfl | rfl
    · exact ⟨tA, 1, rfl, by decide, by decide⟩
    · exact ⟨tA, 2, rfl, by decide, by decide⟩)
  exact ⟨st1, e1, fs2, oF, oT, hc, k1 a1 (by simp), k1 a2 (by simp), es', k2, k4 a1 (by simp), k4 a2 (by simp)⟩

/-- **`go_addressed_survive_clean_count` applies** to the second call of the SECOND execution (all hypotheses by
    evaluation): what it found — "[TestA - 2]", created by the first execution — survives `Clean` with
    `-count=2` -/
example := go_addressed_survive_clean_count envClean fs₀ {} xc xp C01World.exRel es₀ [r1] []
  [.call tA [120] .raw 2] [.done 2] tA [121] .raw 2 2 _ xParse cRe Err.nil [] h2_rounds C01World.exPath_spec
  (Or.inl rfl) (by decide +kernel)
  (noShadowAll_of_noBracket es₀ _ _ (by decide +kernel) (by decide +kernel) (by decide +kernel) (by decide +kernel)
    (by decide +kernel))
  (by decide +kernel) (by decide +kernel) (Or.inl (by decide +kernel)) (fun _ => rfl) (fun _ => exJoin)

/-- `InDir xp` also follows from the general lemma for absolute clean paths -/
example : InDir xp := by
  have h : xp = slash :: joinSlash ([[116], [95, 95, 115, 110, 97, 112, 115, 104, 111, 116, 115, 95, 95]] ++
      [[97, 95, 116, 101, 115, 116, 46, 115, 110, 97, 112]]) := by decide +kernel
  rw [h]
  exact inDir_abs _ _ (by simp) (fun c hc => by
    simp only [List.mem_cons, List.not_mem_nil, or_false] at hc
    rcases hc with rfl | rfl <;> exact ⟨by decide, by decide, by decide, by decide⟩)
    ⟨by decide, by decide, by decide⟩

end E2E2

end GoSnaps.Tie
