/-
Tie by proof, part 7: the file functions of snaps/snapshot.go (`Generated/FuncsIO.lean`).

`FuncsIO.getPrevSnapshot` is the statement-by-statement transliteration of the Go function
(nested `for s.Scan()` loops with an early return from the inner one, regenerated from /repo on
every run); `getPrevSnapshot_tied` proves it equal to the model's `getPrev` composed with the file
read, for every file system, id and path (failure oracle `IOFail.never`: only "file does not
exist" can go wrong; for an arbitrary oracle see `getPrevSnapshot_read_error`).

Proof pattern for scanner loops (reused by the other ties of this directory): a lemma per loop,
stated for an ARBITRARY loop body `F` characterised by what it does on each kind of scanner state
(`hnil`, `hend`, `hline` …) and proved by induction on the tokens still to come; the final theorem
unfolds the generated function, lets unification instantiate `F` with the body the `do` notation
produced, and discharges the characterisations by one step of symbolic evaluation (`simp`).  The
loop bound (`Scanner.fuel`) disappears in the lemma: the result is stated with the fuel-free
`collect` / `getPrevL`.
-/
import GoSnaps.GoIO
import GoSnaps.Format
import GoSnaps.Generated.FuncsIO
namespace GoSnaps.Tie
open GoSnaps GoSnaps.GoIO
open GoSnaps.Generated.FuncsIO

abbrev R := List UInt8 × Int × Err

theorem trimSuffix_nl (s : Text) : trimSuffix s [10] = trimNL s := by
  unfold trimSuffix trimNL
  rcases List.eq_nil_or_concat s with h | ⟨l, a, h⟩
  · subst h; simp
  · subst h
    by_cases ha : a = 10
    · subst ha; simp [nl]
    · have : ¬ (10 : UInt8) = a := fun e => ha e.symm
      simp [ha, this, nl]

@[simp] theorem id_pure_fst {α β : Type} (x : α × β) : (pure x : Id (α × β)).1 = x.1 := rfl

abbrev InnerSt := Option R × Scanner × Text
abbrev OuterSt := Option R × Int × Scanner

/-- the inner `for s.Scan()` loop of getPrevSnapshot, for any body `F` that behaves like the Go
    loop body on the three kinds of scanner state -/
theorem inner_loop (ln : Int) (F : Unit → InnerSt → Id (ForInStep InnerSt))
    (hnil : ∀ ok c acc, F () (none, ({ ok := ok, cur := c, rest := [] } : Scanner), acc) =
      pure (ForInStep.done (none, ({ ok := false, cur := [], rest := [] } : Scanner), acc)))
    (hend : ∀ ok c ls acc, F () (none, ({ ok := ok, cur := c, rest := endSeq :: ls } : Scanner), acc) =
      pure (ForInStep.done (some (trimNL acc, ln, Err.nil), ({ ok := true, cur := endSeq, rest := ls } : Scanner), acc)))
    (hline : ∀ ok c l ls acc, l ≠ endSeq → F () (none, ({ ok := ok, cur := c, rest := l :: ls } : Scanner), acc) =
      pure (ForInStep.yield (none, ({ ok := true, cur := l, rest := ls } : Scanner), acc ++ l ++ [nl])))
    (rest : List Line) (c : Line) (ok : Bool) (acc : Text) :
    forIn (m := Id) (List.replicate (rest.length + 1) ()) ((none : Option R), ({ ok := ok, cur := c, rest := rest } : Scanner), acc) F =
    pure (match collect rest acc with
      | some b => (some (trimNL b, ln, Err.nil), ({ ok := true, cur := endSeq, rest := (rest.dropWhile (· ≠ endSeq)).drop 1 } : Scanner), b)
      | none => (none, ({ ok := false, cur := [], rest := [] } : Scanner), rest.foldl (fun a l => a ++ l ++ [nl]) acc)) := by
  induction rest generalizing c ok acc with
  | nil =>
    simp [hnil, collect]
  | cons l ls ih =>
    rw [List.length_cons, List.replicate_succ, List.forIn_cons]
    by_cases h : l = endSeq
    · subst h
      simp [hend, collect]
    · rw [hline _ _ _ _ _ h]
      simp only [pure_bind]
      rw [ih]
      simp [collect, h, List.dropWhile_cons]

theorem outer_loop (tid : Line) (G : Unit → OuterSt → Id (ForInStep OuterSt))
    (gnil : ∀ ln ok c, G () (none, ln, ({ ok := ok, cur := c, rest := [] } : Scanner)) =
      pure (ForInStep.done (none, ln, ({ ok := false, cur := [], rest := [] } : Scanner))))
    (gother : ∀ ln ok c l ls, l ≠ tid → G () (none, ln, ({ ok := ok, cur := c, rest := l :: ls } : Scanner)) =
      pure (ForInStep.yield (none, ln + 1, ({ ok := true, cur := l, rest := ls } : Scanner))))
    (ghit : ∀ ln ok c ls, G () (none, ln, ({ ok := ok, cur := c, rest := tid :: ls } : Scanner)) =
      pure (match collect ls [] with
        | some b => ForInStep.done (some (trimNL b, ln, Err.nil), ln, ({ ok := true, cur := endSeq, rest := (ls.dropWhile (· ≠ endSeq)).drop 1 } : Scanner))
        | none => ForInStep.yield (none, ln, ({ ok := false, cur := [], rest := [] } : Scanner))))
    (rest : List Line) (n : Nat) (k : Nat) (c : Line) (ok : Bool) :
    (forIn (m := Id) (List.replicate (rest.length + 1 + k) ()) ((none : Option R), (n : Int), ({ ok := ok, cur := c, rest := rest } : Scanner)) G).1 =
    (getPrevL tid rest n).map (fun p => (p.1, (p.2 : Int), Err.nil)) := by
  induction rest generalizing n c ok with
  | nil =>
    rw [show ([] : List Line).length + 1 + k = k + 1 by simp; omega, List.replicate_succ, List.forIn_cons, gnil]
    simp [getPrevL]
  | cons l ls ih =>
    rw [show (l :: ls).length + 1 + k = (ls.length + 1 + k) + 1 by simp; omega, List.replicate_succ, List.forIn_cons]
    by_cases h : l = tid
    · subst h
      rw [ghit]
      cases hc : collect ls [] with
      | some b => simp [getPrevL, hc]
      | none =>
        simp only [pure_bind]
        rw [show ls.length + 1 + k = (ls.length + k) + 1 by omega, List.replicate_succ, List.forIn_cons, gnil]
        simp [getPrevL, hc]
    · rw [gother _ _ _ _ _ h]
      simp only [pure_bind]
      have := ih (n + 1) l true
      simp only [Int.natCast_add, Int.cast_ofNat_Int] at this
      rw [this]
      simp [getPrevL, h]

theorem outer_loop1 (tid : Line) (G : Unit → OuterSt → Id (ForInStep OuterSt))
    (gnil : ∀ ln ok c, G () (none, ln, ({ ok := ok, cur := c, rest := [] } : Scanner)) =
      pure (ForInStep.done (none, ln, ({ ok := false, cur := [], rest := [] } : Scanner))))
    (gother : ∀ ln ok c l ls, l ≠ tid → G () (none, ln, ({ ok := ok, cur := c, rest := l :: ls } : Scanner)) =
      pure (ForInStep.yield (none, ln + 1, ({ ok := true, cur := l, rest := ls } : Scanner))))
    (ghit : ∀ ln ok c ls, G () (none, ln, ({ ok := ok, cur := c, rest := tid :: ls } : Scanner)) =
      pure (match collect ls [] with
        | some b => ForInStep.done (some (trimNL b, ln, Err.nil), ln, ({ ok := true, cur := endSeq, rest := (ls.dropWhile (· ≠ endSeq)).drop 1 } : Scanner))
        | none => ForInStep.yield (none, ln, ({ ok := false, cur := [], rest := [] } : Scanner))))
    (rest : List Line) :
    (forIn (m := Id) (List.replicate (rest.length + 1) ()) ((none : Option R), (1 : Int), ({ rest := rest } : Scanner)) G).1 =
    (getPrevL tid rest 1).map (fun p => (p.1, (p.2 : Int), Err.nil)) := by
  have := outer_loop tid G gnil gother ghit rest 1 0 [] false
  simpa using this

theorem getPrevSnapshot_tied (fs : FS) (testID snapPath : Text) :
    getPrevSnapshot IOFail.never fs testID snapPath =
      match (fsRead fs snapPath).bind (getPrev testID) with
      | some (b, n) => (b, (n : Int), Err.nil)
      | none => ([], -1, Err.snapNotFound) := by
  have e : Generated.endSeq = Generated.go_endSequence := by decide
  unfold getPrevSnapshot
  cases hr : fsRead fs snapPath with
  | none => simp [readFile, IOFail.never, hr, Err.notNil, Id.run]; rfl
  | some f =>
    simp only [readFile, IOFail.never, hr, Err.notNil, Id.run, Scanner.new, Scanner.fuel, Option.bind_some, getPrev, Scanner.err,
      Bool.false_eq_true, ↓reduceIte, bind, pure]
    rw [outer_loop1 testID _ ?gnil ?gother ?ghit]
    · cases getPrevL testID (scan f) 1 with
      | none => simp
      | some p => simp
    case gnil => intro ln ok c; simp [Scanner.scan]; rfl
    case gother => intro ln ok c l ls h; simp [Scanner.scan, Scanner.bytes, h]; rfl
    case ghit =>
      intro ln ok c ls
      simp only [Scanner.scan, Scanner.bytes, Bool.not_true, Bool.false_eq_true, ↓reduceIte, beq_self_eq_true]
      rw [inner_loop ln _ ?hnil ?hend ?hline]
      · cases collect ls [] <;> simp <;> rfl
      case hnil => intro ok c acc; simp [Scanner.scan]; rfl
      case hend => intro ok c ls acc; simp [Scanner.scan, Scanner.bytes, endSeq, e, trimSuffix_nl]; rfl
      case hline =>
        intro ok c l ls acc h
        have h' : ¬ (l = Generated.go_endSequence) := h
        simp [Scanner.scan, Scanner.bytes, h', nl]; rfl

/-- any failure of the read (permission, I/O error, missing file) is reported as "snapshot not
    found", whatever the oracle: the Go code maps every `os.ReadFile` error to `errSnapNotFound` -/
theorem getPrevSnapshot_read_error (io : IOFail) (fs : FS) (testID snapPath : Text)
    (h : (readFile io fs snapPath).2.notNil = true) :
    getPrevSnapshot io fs testID snapPath = ([], -1, Err.snapNotFound) := by
  unfold getPrevSnapshot
  simp [h, Id.run]
  rfl

end GoSnaps.Tie
