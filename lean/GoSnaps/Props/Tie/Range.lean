/-
Tie by proof, part 6 of 6 (see GoSnaps/Props/Tie.lean for the conventions).
-/
import GoSnaps.Escape
import GoSnaps.Clean
import GoSnaps.Diff
import GoSnaps.Difflib
import GoSnaps.GoSem
import GoSnaps.Generated.Funcs
import GoSnaps.Lemmas.Clean
import GoSnaps.Lemmas.Diff
import GoSnaps.Props.C10
import GoSnaps.Props.C11
import GoSnaps.Props.Tie.Diff
namespace GoSnaps.Tie
open GoSnaps

/-! ## 6. `FormatRangeUnified` (internal/difflib/difflib.go)

The model returns a Lean `String` built with `toString`; `ofString` is its UTF-8 byte list.
`ofString_toString_nat` / `ofString_toString_int` identify Lean's decimal rendering with the
model's `natToText` and with `GoSem.itoa` (`strconv.Itoa`). -/

/-- the bytes of Lean's decimal rendering -/
def digitsB (n : Nat) : Text := (Nat.toDigits 10 n).flatMap String.utf8EncodeChar

theorem digitChar_bytes (n : Nat) (h : n < 10) :
    String.utf8EncodeChar (Nat.digitChar n) = [UInt8.ofNat (48 + n % 10)] := by
  match n, h with
  | 0, _ => decide
  | 1, _ => decide
  | 2, _ => decide
  | 3, _ => decide
  | 4, _ => decide
  | 5, _ => decide
  | 6, _ => decide
  | 7, _ => decide
  | 8, _ => decide
  | 9, _ => decide
  | n + 10, h => omega

theorem digitsB_lt (n : Nat) (h : n < 10) : digitsB n = [UInt8.ofNat (48 + n % 10)] := by
  unfold digitsB
  rw [Nat.toDigits_of_lt_base h]
  simp [digitChar_bytes n h]

theorem digitsB_ge (n : Nat) (h : ¬ n < 10) : digitsB n = digitsB (n / 10) ++ [UInt8.ofNat (48 + n % 10)] := by
  unfold digitsB
  rw [Nat.toDigits_of_base_le (by decide) (by omega)]
  have : n % 10 < 10 := Nat.mod_lt _ (by decide)
  have e := digitChar_bytes (n % 10) this
  rw [Nat.mod_mod] at e
  simp [e]

theorem natToTextAux_eq (fuel n : Nat) (acc : Text) (h : n < fuel) :
    natToTextAux fuel n acc = digitsB n ++ acc := by
  induction fuel generalizing n acc with
  | zero => omega
  | succ f ih =>
    simp only [natToTextAux]
    split
    · rename_i hn; rw [digitsB_lt n hn]; rfl
    · rename_i hn
      rw [ih (n / 10) _ (by omega), digitsB_ge n hn]; simp

theorem ofString_toString_nat (n : Nat) : ofString (toString n) = natToText n := by
  rw [ofString_eq, Nat.toString_eq_repr, Nat.toList_repr]
  unfold natToText
  rw [natToTextAux_eq _ _ _ (by omega)]
  simp [digitsB]

theorem ofString_toString_int (i : Int) : ofString (toString i) = GoSem.itoa i := by
  show ofString (Int.repr i) = _
  cases i with
  | ofNat m =>
    have := ofString_toString_nat m
    rw [Nat.toString_eq_repr] at this
    simp only [Int.repr, this]
    exact (itoa_ofNat m).symm
  | negSucc m =>
    have := ofString_toString_nat (m + 1)
    rw [Nat.toString_eq_repr] at this
    have hd : ofString "-" = [45] := by rw [ofString_eq]; decide
    simp only [Int.repr, ofString_append, this, hd]
    unfold GoSem.itoa
    rw [if_pos (by omega)]
    simp

theorem ofString_repr_nat (n : Nat) : ofString n.repr = natToText n := by
  rw [← Nat.toString_eq_repr]; exact ofString_toString_nat n

theorem ofString_repr_int (i : Int) : ofString (Int.repr i) = GoSem.itoa i := ofString_toString_int i

theorem FormatRangeUnified_spec (a b : Int) :
    Generated.Funcs.FormatRangeUnified a b =
      if b - a = 1 then GoSem.itoa (a + 1)
      else GoSem.itoa (if b - a = 0 then a + 1 - 1 else a + 1) ++ [44] ++ GoSem.itoa (b - a) := by
  unfold Generated.Funcs.FormatRangeUnified
  by_cases h1 : b - a = 1
  · simp [Id.run, pure, h1]
  · by_cases h0 : b - a = 0 <;> simp [Id.run, pure, h1, h0]

/-- **Tie**: for `start stop : Nat` (line numbers) the bytes of the model's string -/
theorem FormatRangeUnified_tied (start stop : Nat) :
    Generated.Funcs.FormatRangeUnified (start : Int) (stop : Int) =
      ofString (Difflib.formatRangeUnified start stop) := by
  have hc : ofString "," = [44] := by rw [ofString_eq]; decide
  rw [FormatRangeUnified_spec]
  unfold Difflib.formatRangeUnified
  by_cases h1 : (stop : Int) - (start : Int) = 1
  · rw [if_pos h1, if_pos h1, ofString_toString_nat]
    exact itoa_ofNat (start + 1)
  · rw [if_neg h1, if_neg h1, ofString_append, ofString_append, hc, ofString_toString_nat,
      ofString_toString_int]
    by_cases h0 : (stop : Int) - (start : Int) = 0
    · rw [if_pos h0, if_pos h0]
      have : (start : Int) + 1 - 1 = ((start + 1 - 1 : Nat) : Int) := by omega
      rw [this, itoa_ofNat]
    · rw [if_neg h0, if_neg h0]
      have : (start : Int) + 1 = ((start + 1 : Nat) : Int) := by omega
      rw [this, itoa_ofNat]

end GoSnaps.Tie
