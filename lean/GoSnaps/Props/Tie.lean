/-
Tie by proof (continued from C11.constructFilename_tied).

`GoSnaps.Generated.Funcs.<f>` is the statement-by-statement transliteration of the Go function `f`,
regenerated from the CURRENT sources of /repo on every run by tools/extract/funcs.go (the header
comment of that file lists the supported Go subset and the idiom → Lean shape table; the Go run-time
semantics it relies on — `int` as `Int`, `len`, indexing/slicing with panics as `Option.none`,
counting and range loops — is lean/GoSnaps/GoSem.lean).  Each theorem `<f>_tied` below relates the
transliteration to the hand-written, differentially tested model definition that every other
property is about.  A change of the Go function changes `Generated/Funcs.lean`, and the
corresponding theorem has to be re-proved: the model cannot silently drift from the source.

Shape of the statements
* total Go function, same result type:            `Funcs.f x = model x`
* Go function containing an operation that can panic (index, slice, `strings.Repeat`): the
  transliteration lives in `Option` (`none` = panic) and the theorem is
  `Funcs.f x = some (model x)`, i.e. it ALSO proves that Go never panics on any input
  (`isNumber`, `getTestID`, `splitNewlines`; `intPadding` for non-negative counts).
* Go `(string, bool)` vs model `Option`:          `(id, true)` ↔ `some id`, `("", false)` ↔ `none`
* Go `int` vs model `Nat`:                        stated at `((n : Nat) : Int)`
* package state / opaque calls are parameters:    `trimpath`, `caller`, `skipped`, `nocolor`,
  `regexpMatchString`

The proofs are split by Go function so that a change of one function breaks only the obligations
of the properties that depend on it:
  Tie/Path.lean   snapshotPath                         (C11, C01, C03, C19)
  Tie/Escape.lean escapeEndChars / unescapeEndChars    (C01, C02, C04, C18)
  Tie/TestID.lean isNumber / getTestID                 (C07, C09, C10)
  Tie/Skip.lean   testSkipped                          (C08)
  Tie/Diff.lean   isSingleline, shouldPrintHighlights, splitNewlines, intPadding (C02, C13)
  Tie/Range.lean  difflib.FormatRangeUnified           (C13)
-/
import GoSnaps.Props.Tie.Path
import GoSnaps.Props.Tie.Escape
import GoSnaps.Props.Tie.TestID
import GoSnaps.Props.Tie.Skip
import GoSnaps.Props.Tie.Diff
import GoSnaps.Props.Tie.Range
