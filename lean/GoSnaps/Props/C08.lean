/-
C08 — skip protection is exact.

`testSkipped` (snaps/skip.go:69-81): an entry `[<test> - <k>]` is protected by `snaps.Skip*`
iff the part of its id before the FIRST `" - "` is a skipped test's name or starts with
`<skipped name>/` — the test itself and its descendants, nothing else (a sibling sharing only a
name prefix is not protected).  Protected entries are kept by `Clean` with their bodies and are
never reported obsolete.

Byte legend: 32 = ' ', 45 = '-', 47 = '/', "TestA" = [84,101,115,116,65], " - " = [32,45,32].
-/
import GoSnaps.Clean
import GoSnaps.Lemmas.Clean
import GoSnaps.Props.C03
import GoSnaps.Props.C10
namespace GoSnaps.C08

open GoSnaps

/-! ## 1. the rule, exactly -/

/-- the protection rule of `testSkipped`, as a proposition -/
def Protected (skipped : List Text) (testID : Text) : Prop :=
  ∃ name ∈ skipped, beforeSep testID Generated.skipSep = name ∨
    hasPrefix (beforeSep testID Generated.skipSep) (name ++ [slash]) = true

theorem skipListed_iff (skipped : List Text) (testID : Text) :
    skipListed skipped testID = true ↔ Protected skipped testID := by
  simp [skipListed, Protected, List.any_eq_true]

/-- **skip_exact** (no `-run` filter): the entry is protected iff its test name is a skipped
name or a descendant (`name/…`) of one -/
theorem skip_exact (o : Oracles) (skipped : List Text) (testID : Text) :
    testSkipped o skipped testID [] = some true ↔ Protected skipped testID := by
  rw [testSkipped_noRun, ← skipListed_iff]; simp

/-- … and otherwise the answer is a definite "not protected" — never an oracle miss -/
theorem skip_exact_false (o : Oracles) (skipped : List Text) (testID : Text) :
    testSkipped o skipped testID [] = some false ↔ ¬ Protected skipped testID := by
  rw [testSkipped_noRun, ← skipListed_iff]; simp

/-- with a `-run` filter the skip list still protects (it is consulted first), and beyond it
the verdict is the negated regexp match -/
theorem skip_protects_any_run (o : Oracles) (skipped : List Text) (testID runOnly : Text)
    (h : Protected skipped testID) : testSkipped o skipped testID runOnly = some true := by
  have := (skipListed_iff skipped testID).mpr h
  unfold skipListed at this
  simp only [testSkipped, this, ↓reduceIte]

theorem not_protected_run (o : Oracles) (skipped : List Text) (testID runOnly : Text)
    (h : ¬ Protected skipped testID) :
    testSkipped o skipped testID runOnly = (o.reMatch runOnly testID).map (!·) := by
  have : skipListed skipped testID = false := by
    cases hq : skipListed skipped testID with
    | false => rfl
    | true => exact absurd ((skipListed_iff _ _).mp hq) h
  unfold skipListed at this
  simp only [testSkipped, this, Bool.false_eq_true, ↓reduceIte]

/-- skipped = ["TestA"]: `TestA - 1` (itself) and `TestA/x - 1` (descendant) are protected;
`TestAB - 1` (sibling sharing the prefix), `TestB - 1`, `Test - 1` (a proper prefix) and
`xTestA - 1` are not -/
example :
    let sk : List Text := [[84, 101, 115, 116, 65]]
    testSkipped {} sk [84, 101, 115, 116, 65, 32, 45, 32, 49] [] = some true ∧
    testSkipped {} sk [84, 101, 115, 116, 65, 47, 120, 32, 45, 32, 49] [] = some true ∧
    testSkipped {} sk [84, 101, 115, 116, 65, 47, 120, 47, 121, 32, 45, 32, 50] [] = some true ∧
    testSkipped {} sk [84, 101, 115, 116, 65, 66, 32, 45, 32, 49] [] = some false ∧
    testSkipped {} sk [84, 101, 115, 116, 66, 32, 45, 32, 49] [] = some false ∧
    testSkipped {} sk [84, 101, 115, 116, 32, 45, 32, 49] [] = some false ∧
    testSkipped {} sk [120, 84, 101, 115, 116, 65, 32, 45, 32, 49] [] = some false := by
  decide

/-- the sibling, in general: a test whose name extends a skipped name by bytes that do not
start with "/" is protected by that name only if … it is not: with a single skipped name
`name`, `name ++ c :: rest` (c ≠ '/') is not protected -/
theorem sibling_not_protected (o : Oracles) (name rest suffix : Text) (c : Byte) (hc : c ≠ slash)
    (hb : beforeSep (name ++ c :: rest ++ suffix) Generated.skipSep = name ++ c :: rest) :
    testSkipped o [name] (name ++ c :: rest ++ suffix) [] = some false := by
  rw [skip_exact_false]
  rintro ⟨n, hn, h⟩
  simp only [List.mem_singleton] at hn
  subst hn
  rw [hb] at h
  rcases h with h | h
  · have := congrArg List.length h
    simp at this
  · simp only [hasPrefix, List.isPrefixOf_iff_prefix] at h
    obtain ⟨t, ht⟩ := h
    simp only [List.append_assoc, List.append_cancel_left_eq, List.cons_append, List.nil_append,
      List.cons.injEq] at ht
    exact hc ht.1.symm

/-- the descendant and the test itself, in general -/
theorem self_and_descendant_protected (o : Oracles) (skipped : List Text) (name sub suffix runOnly : Text)
    (hmem : name ∈ skipped) :
    (beforeSep (name ++ suffix) Generated.skipSep = name →
      testSkipped o skipped (name ++ suffix) runOnly = some true) ∧
    (beforeSep (name ++ slash :: sub ++ suffix) Generated.skipSep = name ++ slash :: sub →
      testSkipped o skipped (name ++ slash :: sub ++ suffix) runOnly = some true) := by
  constructor
  · intro hb
    exact skip_protects_any_run o skipped _ runOnly ⟨name, hmem, .inl hb⟩
  · intro hb
    refine skip_protects_any_run o skipped _ runOnly ⟨name, hmem, .inr ?_⟩
    rw [hb]
    simp only [hasPrefix, List.isPrefixOf_iff_prefix]
    exact ⟨sub, by simp⟩

/-! ## 2. which part of the id is the test name -/

theorem skipSep_eq : Generated.skipSep = [32, 45, 32] := rfl

/-- first occurrence of `" - "` in `name ++ " - " ++ rest` when `name ++ " -"` contains none -/
theorem indexOf_go_sep (name rest : Text) (n : Nat)
    (h : indexOf.go [32, 45, 32] (name ++ [32, 45]) n = none) :
    indexOf.go [32, 45, 32] (name ++ 32 :: 45 :: 32 :: rest) n = some (n + name.length) := by
  induction name generalizing n with
  | nil => simp [indexOf.go, List.isPrefixOf]
  | cons c cs ih =>
    simp only [List.cons_append, indexOf.go] at h ⊢
    split at h
    · cases h
    · rename_i hp
      have hp' : List.isPrefixOf [32, 45, 32] (c :: (cs ++ 32 :: 45 :: 32 :: rest)) = false := by
        cases cs with
        | nil => simp [List.isPrefixOf]
        | cons d ds =>
          cases ds with
          | nil => simpa [List.isPrefixOf] using hp
          | cons e es => simp [List.isPrefixOf] at hp ⊢; exact hp
      simp only [hp', Bool.false_eq_true, ↓reduceIte]
      rw [ih (n + 1) h]
      simp only [List.length_cons]
      congr 1; omega

/-- **beforeSep_testID** (corrected hypothesis, see the counterexample below): the test-name part
of `name ++ " - " ++ rest` is `name` provided `name ++ " -"` contains no `" - "`.  -/
theorem beforeSep_testID_gen (name rest : Text)
    (h : containsSub (name ++ [32, 45]) [32, 45, 32] = false) :
    beforeSep (name ++ [32, 45, 32] ++ rest) Generated.skipSep = name := by
  have hn : indexOf.go [32, 45, 32] (name ++ [32, 45]) 0 = none := by
    simpa [containsSub, indexOf] using h
  have := indexOf_go_sep name rest 0 hn
  simp only [beforeSep, skipSep_eq, indexOf, List.append_assoc, List.cons_append, List.nil_append, this]
  simp

/-- what Go's `testing` guarantees: test names contain no space (`t.Run` rewrites spaces to
`_`), and then the condition holds -/
theorem beforeSep_testID (name : Text) (k : Nat) (h : (32 : Byte) ∉ name) :
    beforeSep (name ++ [32, 45, 32] ++ natToText k) Generated.skipSep = name := by
  apply beforeSep_testID_gen
  have : ∀ (n : Nat), indexOf.go [32, 45, 32] (name ++ [32, 45]) n = none := by
    induction name with
    | nil => intro n; simp [indexOf.go, List.isPrefixOf]
    | cons c cs ih =>
      intro n
      have hc : c ≠ 32 := by intro e; apply h; simp [e]
      have hcs : (32 : Byte) ∉ cs := by intro e; apply h; simp [e]
      have hc' : ((32 : Byte) == c) = false := by simpa using fun e => hc e.symm
      simp only [List.cons_append, indexOf.go, List.isPrefixOf, hc', Bool.false_and,
        Bool.false_eq_true, ↓reduceIte]
      exact ih hcs (n + 1)
  simp [containsSub, indexOf, this 0]

/-- the id of a stored entry: `tidOf` of the header `[name - k]` is `name ++ " - " ++ k`, whose
test-name part is `name` -/
theorem beforeSep_tid (name : Text) (k : Nat) (h : (32 : Byte) ∉ name) :
    beforeSep (tidOf ⟨C03.testID name k, []⟩) Generated.skipSep = name := by
  have : tidOf ⟨C03.testID name k, []⟩ = name ++ [32, 45, 32] ++ natToText k := by
    simp only [tidOf, C03.testID, List.cons_append, List.drop_succ_cons, List.drop_zero, List.length_cons,
      List.length_append, List.length_nil]
    rw [show name ++ [32, 45, 32] ++ natToText k ++ [93] = (name ++ [32, 45, 32] ++ natToText k) ++ [93] from rfl]
    rw [List.take_append_of_le_length (by simp; omega)]
    apply List.take_of_length_le
    simp; omega
  rw [this]; exact beforeSep_testID name k h

/-- **the statement "name does not contain ` - `" is not enough**: the name `x -` contains no
`" - "`, yet the id `x - - 1` splits at the FIRST separator and yields `x`; and a name that does
contain the separator, `a - b`, yields `a` -/
example :
    containsSub [120, 32, 45] [32, 45, 32] = false ∧
    beforeSep ([120, 32, 45] ++ [32, 45, 32] ++ natToText 1) Generated.skipSep = [120] ∧
    beforeSep ([97, 32, 45, 32, 98] ++ [32, 45, 32] ++ natToText 1) Generated.skipSep = [97] := by
  decide

/-- consequence for exactness: with a name containing `" - "`, skipping test `a` protects the
entries of the unrelated test `a - b` (finding; unreachable through Go's `testing`, which
rewrites spaces in names) -/
example : testSkipped {} [[97]] ([97, 32, 45, 32, 98] ++ [32, 45, 32] ++ natToText 1) [] = some true := by
  decide

example : beforeSep ([84, 101, 115, 116, 65, 47, 120] ++ [32, 45, 32] ++ natToText 12) Generated.skipSep =
    [84, 101, 115, 116, 65, 47, 120] := beforeSep_testID _ 12 (by decide)

/-! ## 3. `snaps.Skip(t)` protects t's own entries and those of its sub-tests -/

theorem trackSkip_mem (w : World) (name : Text) : name ∈ (trackSkip w name).skipped := by
  simp [trackSkip]

/-- after `snaps.Skip(t)` (t.Name() = `name`, no space), every entry `[name - k]` and every
entry `[name/sub - k]` of a sub-test is protected, whatever `-run` says -/
theorem skip_protects_own (o : Oracles) (w : World) (name sub runOnly : Text) (k : Nat)
    (h : (32 : Byte) ∉ name) (hs : (32 : Byte) ∉ sub) :
    testSkipped o (trackSkip w name).skipped (name ++ [32, 45, 32] ++ natToText k) runOnly = some true ∧
    testSkipped o (trackSkip w name).skipped ((name ++ slash :: sub) ++ [32, 45, 32] ++ natToText k) runOnly =
      some true := by
  constructor
  · exact skip_protects_any_run o _ _ runOnly ⟨name, trackSkip_mem w name, .inl (beforeSep_testID name k h)⟩
  · have hns : (32 : Byte) ∉ name ++ slash :: sub := by
      simp only [List.mem_append, List.mem_cons, not_or]
      exact ⟨h, by decide, hs⟩
    refine skip_protects_any_run o _ _ runOnly ⟨name, trackSkip_mem w name, .inr ?_⟩
    rw [beforeSep_testID _ k hns]
    simp only [hasPrefix, List.isPrefixOf_iff_prefix]
    exact ⟨sub, by simp⟩

/-! ## 4. a protected entry is collected, never reported -/

/-- skip-protected ⇒ kept by the scan (`keptId`), for any `-run` filter -/
theorem protected_kept (o : Oracles) (registered skipped : List Text) (runOnly tid : Text)
    (h : Protected skipped tid) : keptId o registered skipped runOnly tid = true := by
  simp [keptId, skip_protects_any_run o skipped tid runOnly h]

/-- **skipped_entry_kept**: in the scan of a well-formed file, an entry whose id is
skip-protected is not reported obsolete and is collected with its body, in both modes
(`update` = delete allowed or not) -/
theorem skipped_entry_kept (o : Oracles) (registered skipped : List Text) (runOnly : Text)
    (update : Bool) (es : List Entry) (hf : CleanFile es)
    (hcls : ∀ e ∈ es, Classified o registered skipped runOnly (tidOf e))
    (e : Entry) (he : e ∈ es) (hp : Protected skipped (tidOf e)) :
    let st := exScan o registered skipped runOnly update (scan (render es)) .outer {}
    tidOf e ∉ st.obsolete ∧ testsGet st.tests (tidOf e) = some (e.body ++ [nl]) ∧
    tidOf e ∈ st.testIDs := by
  have hk := protected_kept o registered skipped runOnly (tidOf e) hp
  rw [C10.exScan_render o registered skipped runOnly update es hf hcls]
  refine ⟨?_, ?_, ?_⟩
  · simp only [List.mem_map, List.mem_filter, not_exists, not_and, and_imp]
    intro x hx hnk hxe
    rw [hxe, hk] at hnk; cases hnk
  · show testsGet ((es.filter _).map entryPair) (tidOf e) = _
    rw [testsGet_map_entryPair, find?_filter_tid es _ e hf.distinct he]
    simp [hk]
  · exact List.mem_map_of_mem he

/-- without `-run` no classification hypothesis is needed -/
theorem skipped_entry_kept_noRun (o : Oracles) (registered skipped : List Text)
    (update : Bool) (es : List Entry) (hf : CleanFile es)
    (e : Entry) (he : e ∈ es) (hp : Protected skipped (tidOf e)) :
    let st := exScan o registered skipped [] update (scan (render es)) .outer {}
    tidOf e ∉ st.obsolete ∧ testsGet st.tests (tidOf e) = some (e.body ++ [nl]) ∧
    tidOf e ∈ st.testIDs :=
  skipped_entry_kept o registered skipped [] update es hf
    (fun x _ => classified_noRun o registered skipped (tidOf x)) e he hp

/-- … and exactly: an entry that is neither registered nor protected IS reported (no `-run`) -/
theorem unprotected_reported (o : Oracles) (registered skipped : List Text)
    (update : Bool) (es : List Entry) (hf : CleanFile es)
    (e : Entry) (he : e ∈ es) (hr : tidOf e ∉ registered) (hp : ¬ Protected skipped (tidOf e)) :
    tidOf e ∈ (exScan o registered skipped [] update (scan (render es)) .outer {}).obsolete := by
  rw [C10.exScan_render o registered skipped [] update es hf
    (fun x _ => classified_noRun o registered skipped (tidOf x))]
  have hk : keptId o registered skipped [] (tidOf e) = false := by
    rw [keptId_noRun]
    have : skipListed skipped (tidOf e) = false := by
      cases hq : skipListed skipped (tidOf e) with
      | false => rfl
      | true => exact absurd ((skipListed_iff _ _).mp hq) hp
    simp [this, hr]
  exact List.mem_map_of_mem (List.mem_filter.mpr ⟨he, by simp [hk]⟩)

/-- **a protected entry survives the whole file step of `Clean`** (any mode, any sort option):
not reported, and still in the file with the same header and body afterwards -/
theorem skipped_entry_survives (o : Oracles) (fs : FS) (cleanup : List (RegKey × Nat))
    (skipped : List Text) (p runOnly : Text) (count : Nat) (update sort : Bool)
    (registered : List Text)
    (es : List Entry) (hf : CleanFile es) (hread : fsRead fs p = some (render es))
    (hreg : registeredFor cleanup p count = some registered)
    (hcls : ∀ e ∈ es, Classified o registered skipped runOnly (tidOf e))
    (obs : List Text) (fs' : FS) (w : List Text)
    (hfirst : examineSnaps o fs cleanup skipped [p] runOnly count update sort = .ok obs fs' w)
    (e : Entry) (he : e ∈ es) (hp : Protected skipped (tidOf e)) :
    tidOf e ∉ obs ∧ ∃ es', fsRead fs' p = some (render es') ∧ e ∈ es' := by
  have hk := protected_kept o registered skipped runOnly (tidOf e) hp
  obtain ⟨hobs, es', _, hr, hcase⟩ := examineSnaps_single_ok o registered skipped runOnly fs cleanup
    p count update sort es hf hread hreg hcls obs fs' w hfirst
  refine ⟨?_, es', hr, ?_⟩
  · rw [hobs]
    simp only [List.mem_map, List.mem_filter, not_exists, not_and, and_imp]
    intro x hx hnk hxe
    rw [hxe, hk] at hnk; cases hnk
  · rcases hcase with ⟨_, _, rfl⟩ | ⟨_, _, hperm⟩
    · exact he
    · exact hperm.mem_iff.mpr (List.mem_filter.mpr ⟨he, by simp [hk]⟩)

/-- concrete file: `[TestA/x - 1]` (descendant of the skipped `TestA`), `[TestAB - 1]` (sibling),
nothing registered, clean mode: the sibling is reported and dropped, the descendant is stored -/
example :
    let e1 : Entry := ⟨[91, 84, 101, 115, 116, 65, 47, 120, 32, 45, 32, 49, 93], [121]⟩
    let e2 : Entry := ⟨[91, 84, 101, 115, 116, 65, 66, 32, 45, 32, 49, 93], [122]⟩
    let st := exScan {} [] [[84, 101, 115, 116, 65]] [] true (scan (render [e1, e2])) .outer {}
    st.obsolete = [[84, 101, 115, 116, 65, 66, 32, 45, 32, 49]] ∧
    st.tests = [([84, 101, 115, 116, 65, 47, 120, 32, 45, 32, 49], [121, 10])] := by
  decide +kernel

/-! ## 5. the file-level heuristic is off without `-run` -/

theorem isFileSkipped_runOnly_empty (o : Oracles) (dir f : Text) : isFileSkipped o dir f [] = some false := by
  simp [isFileSkipped]

end GoSnaps.C08
