/-
C14 — JSON snapshots are canonical and lossless: go-snaps glue, relative to an explicit contract
for the pretty printer (tidwall/pretty, a PARAMETER — `PrettySpec` is a hypothesis of the
theorems below, never assumed globally).

go-snaps' own part (snaps/matchJSON.go): `validateJSON` returns the caller's bytes (string /
[]byte) or `json.Marshal(v)`; `takeJSONSnapshot(c, j) = strings.TrimSuffix(pretty.PrettyOptions(j,
{SortKeys: true, Indent: " "}), "\n")`; `matchJSON` and `matchStandaloneJSON` share
`validateJSON`, `applyJSONMatchers` and `takeJSONSnapshot` verbatim; the comparison is raw
(no escaping).
-/
import GoSnaps.Model
import GoSnaps.Driver
import GoSnaps.Props.C13
import GoSnaps.Props.C17
import GoSnaps.Props.C19
namespace GoSnaps.C14

open GoSnaps

/-! ## 1. the contract of the pretty printer -/

/-- `pretty sortKeys doc`; `tokens doc` = the document's token sequence (`none` = not valid
JSON), insensitive to insignificant white space; `permEq` = "equal up to the order of object
members".  All three are parameters. -/
structure PrettySpec {Tok : Type} (pretty : Bool → Text → Text) (tokens : Text → Option (List Tok))
    (permEq : List Tok → List Tok → Prop) : Prop where
  /-- the output depends on the tokens only (white space between tokens is irrelevant) -/
  ws_invariant : ∀ (s : Bool) (a b : Text) (ta : List Tok),
    tokens a = some ta → tokens b = some ta → pretty s a = pretty s b
  /-- with SortKeys the output does not depend on the member order -/
  order_invariant : ∀ (a b : Text) (ta tb : List Tok),
    permEq ta tb → tokens a = some ta → tokens b = some tb → pretty true a = pretty true b
  /-- no token is lost, added or changed; without SortKeys none is moved -/
  lossless : ∀ (s : Bool) (a : Text) (ta : List Tok), tokens a = some ta →
    ∃ tp, tokens (pretty s a) = some tp ∧ (if s then permEq tp ta else tp = ta)
  /-- the output of a valid document ends with exactly one newline -/
  ends_nl : ∀ (s : Bool) (a : Text), tokens a ≠ none →
    ∃ body, pretty s a = body ++ [nl] ∧ body.getLast? ≠ some nl
  /-- a final newline is insignificant white space -/
  tokens_nl : ∀ (b : Text), tokens (b ++ [nl]) = tokens b

/-- `takeJSONSnapshot` (matchJSON.go:162-164) -/
def takeJSONSnapshot (pretty : Bool → Text → Text) (sortKeys : Bool) (j : Text) : Text :=
  trimNL (pretty sortKeys j)

/-- the options go-snaps passes, read from the source on every run -/
theorem default_sorts : Generated.prettySortKeys = true := by decide
theorem default_indent : Generated.prettyIndent = [32] ∧ Generated.prettyPrefix = [] ∧
    Generated.prettyWidth = 0 := by decide

section Spec
variable {Tok : Type} {pretty : Bool → Text → Text} {tokens : Text → Option (List Tok)}
  {permEq : List Tok → List Tok → Prop}

theorem tokens_trimNL (h : PrettySpec pretty tokens permEq) (t : Text) : tokens (trimNL t) = tokens t := by
  unfold trimNL
  cases hq : t.getLast? with
  | none => rfl
  | some c =>
    simp only
    split
    · rename_i hc
      subst hc
      obtain ⟨b, rfl⟩ := List.getLast?_eq_some_iff.mp hq
      rw [List.dropLast_concat, h.tokens_nl]
    · rfl

/-- the snapshot text is the printer's output without its final newline, and does not itself
end with a newline -/
theorem json_snapshot_body (h : PrettySpec pretty tokens permEq) (s : Bool) (j : Text)
    (hv : tokens j ≠ none) :
    pretty s j = takeJSONSnapshot pretty s j ++ [nl] ∧
    (takeJSONSnapshot pretty s j).getLast? ≠ some nl := by
  obtain ⟨body, hb, hl⟩ := h.ends_nl s j hv
  unfold takeJSONSnapshot
  rw [hb, trimNL_append]
  exact ⟨rfl, hl⟩

/-- **json_ws_invariant**: two documents with the same tokens (differing in insignificant
white space only) have the same snapshot text -/
theorem json_ws_invariant (h : PrettySpec pretty tokens permEq) (s : Bool) (a b : Text) (ta : List Tok)
    (ha : tokens a = some ta) (hb : tokens b = some ta) :
    takeJSONSnapshot pretty s a = takeJSONSnapshot pretty s b := by
  unfold takeJSONSnapshot
  rw [h.ws_invariant s a b ta ha hb]

/-- **json_order_invariant**: with the options go-snaps uses (`SortKeys` as read from the
source), two documents equal up to member order have the same snapshot text -/
theorem json_order_invariant (h : PrettySpec pretty tokens permEq) (a b : Text) (ta tb : List Tok)
    (hp : permEq ta tb) (ha : tokens a = some ta) (hb : tokens b = some tb) :
    takeJSONSnapshot pretty Generated.prettySortKeys a = takeJSONSnapshot pretty Generated.prettySortKeys b := by
  rw [default_sorts]
  unfold takeJSONSnapshot
  rw [h.order_invariant a b ta tb hp ha hb]

/-- **json_lossless**: the snapshot text is a valid document with the input's tokens — the same
sequence without SortKeys, the same up to member order with it.  (`trimNL` removed only the
final newline, which is not a token: `tokens_trimNL`.) -/
theorem json_lossless (h : PrettySpec pretty tokens permEq) (s : Bool) (j : Text) (tj : List Tok)
    (hj : tokens j = some tj) :
    ∃ tp, tokens (takeJSONSnapshot pretty s j) = some tp ∧ (if s then permEq tp tj else tp = tj) := by
  obtain ⟨tp, h1, h2⟩ := h.lossless s j tj hj
  exact ⟨tp, by unfold takeJSONSnapshot; rw [tokens_trimNL h, h1], h2⟩

/-- **canonical**: the snapshot text is a fixed point — taking the snapshot of a stored
snapshot gives the stored text again (so a stored entry fed back to `MatchJSON` passes) -/
theorem json_idempotent (h : PrettySpec pretty tokens permEq) (s : Bool) (j : Text) (tj : List Tok)
    (hj : tokens j = some tj) :
    takeJSONSnapshot pretty s (takeJSONSnapshot pretty s j) = takeJSONSnapshot pretty s j := by
  obtain ⟨tp, h1, h2⟩ := json_lossless h s j tj hj
  cases s with
  | false =>
    simp only [Bool.false_eq_true, ↓reduceIte] at h2
    subst h2
    exact json_ws_invariant h false _ _ tp h1 hj
  | true =>
    simp only [↓reduceIte] at h2
    unfold takeJSONSnapshot at h1 ⊢
    rw [h.order_invariant _ j tp tj h2 h1 hj]

end Spec

/-! ## 2. the three input forms -/

/-- the dynamic type switch of `validateJSON` -/
inductive JInput (α : Type)
  | str (s : Text)
  | bytes (b : Text)
  | val (v : α)

/-- `validateJSON` (matchJSON.go:143-160); `valid` = gjson.Valid, `marshal` = json.Marshal -/
def validateJSON {α : Type} (valid : Text → Bool) (marshal : α → Except Text Text) :
    JInput α → Except Text Text
  | .str s => if valid s then .ok s else .error Generated.go_errInvalidJSON
  | .bytes b => if valid b then .ok b else .error Generated.go_errInvalidJSON
  | .val v => marshal v

/-- everything `matchJSON` and `matchStandaloneJSON` compute before touching the registry's
result: the `pre` handed to the step functions -/
def jsonPre {α : Type} (valid : Text → Bool) (marshal : α → Except Text Text)
    (pretty : Bool → Text → Text) (ms : List (C15.Matcher C17.MErr)) (input : JInput α) : Except Text Text :=
  match validateJSON valid marshal input with
  | .error e => .error e
  | .ok j => C17.pipeline (fun j => .ok j) ms (takeJSONSnapshot pretty Generated.prettySortKeys) j

/-- **json_three_forms**: a string, the same bytes as `[]byte`, and a value that marshals to the
same bytes produce the same `pre` — hence the same outcome, stored text and report -/
theorem json_three_forms {α : Type} (valid : Text → Bool) (marshal : α → Except Text Text)
    (pretty : Bool → Text → Text) (ms : List (C15.Matcher C17.MErr)) (j : Text) (v : α)
    (hv : valid j = true) (hm : marshal v = .ok j) :
    jsonPre valid marshal pretty ms (.str j) = jsonPre valid marshal pretty ms (.bytes j) ∧
    jsonPre valid marshal pretty ms (.bytes j) = jsonPre valid marshal pretty ms (.val v) := by
  simp [jsonPre, validateJSON, hv, hm]

/-- without matchers the `pre` of a valid document is its snapshot text -/
theorem jsonPre_plain {α : Type} (valid : Text → Bool) (marshal : α → Except Text Text)
    (pretty : Bool → Text → Text) (j : Text) (hv : valid j = true) :
    jsonPre valid marshal pretty [] (.str j) = .ok (takeJSONSnapshot pretty Generated.prettySortKeys j) := by
  simp [jsonPre, validateJSON, hv, C17.pipeline, C15.applyMatchers]

/-- an invalid string / byte slice: `pre` is the fixed error "invalid json", no matcher runs -/
theorem jsonPre_invalid {α : Type} (valid : Text → Bool) (marshal : α → Except Text Text)
    (pretty : Bool → Text → Text) (ms : List (C15.Matcher C17.MErr)) (j : Text) (hv : valid j = false) :
    jsonPre valid marshal pretty ms (.str j) = .error Generated.go_errInvalidJSON ∧
    jsonPre valid marshal pretty ms (.bytes j) = .error Generated.go_errInvalidJSON := by
  simp [jsonPre, validateJSON, hv]

/-- **invalid_writes_nothing** (instance of C17): `MatchJSON` and `MatchStandaloneJSON` on an
invalid document: one failure carrying "invalid json", nothing written, in every mode -/
theorem invalid_writes_nothing {α : Type} (valid : Text → Bool) (marshal : α → Except Text Text)
    (pretty : Bool → Text → Text) (ms : List (C15.Matcher C17.MErr)) (j : Text) (hv : valid j = false)
    (w : World) (c : Cfg) (caller tName : Text) (texec : Nat) :
    let r := matchEntry w c caller tName texec .raw (jsonPre valid marshal pretty ms (.str j))
    let r' := matchStandalone w c caller tName texec (jsonPre valid marshal pretty ms (.str j))
    r.1.fs = w.fs ∧ r.2.writes = [] ∧ r.2.removed = [] ∧
    r'.1.fs = w.fs ∧ r'.2.writes = [] ∧ r'.2.removed = [] ∧
    (r.2.unsupported = none → r.2.events = [.error Generated.go_errInvalidJSON]) ∧
    (r'.2.unsupported = none → r'.2.events = [.error Generated.go_errInvalidJSON]) := by
  rw [(jsonPre_invalid valid marshal pretty ms j hv).1]
  obtain ⟨a1, a2, a3⟩ := C17.matcher_error_no_write w c caller tName texec .raw Generated.go_errInvalidJSON
  obtain ⟨b1, b2, b3⟩ := C17.matcher_error_no_write_standalone w c caller tName texec Generated.go_errInvalidJSON
  exact ⟨a1, a2, a3, b1, b2, b3,
    fun hs => (C17.matcher_error_one_failure w c caller tName texec .raw _ hs).1,
    fun hs => (C17.matcher_error_one_failure_standalone w c caller tName texec _ hs).1⟩

/-! ## 3. MatchJSON and MatchStandaloneJSON store the same text -/

/-- in the driver both operations receive the pending document unchanged (no escaping, no
re-rendering): the same `pre` reaches `matchEntry` (raw comparison) and `matchStandalone` -/
theorem docOp_json_sajson (s : DState) (line c t : String) (cn tn : Nat) (cfg : Cfg) (nm : Text)
    (pre : Except Text Text)
    (hc : c.toNat? = some cn) (hcfg : lookupCfg s cn = some cfg)
    (ht : t.toNat? = some tn) (hn : lookupName s tn = some nm) (hd : s.doc = some pre) :
    (docOp s line "json" c t).1.w = (matchEntry s.w cfg s.caller nm tn .raw pre).1 ∧
    (docOp s line "sajson" c t).1.w =
      (matchStandalone s.w (if cfg.extension = [] then { cfg with extension := Generated.saJSONExt } else cfg)
        s.caller nm tn pre).1 := by
  have hcw : "Config.MatchStandaloneJSON: c.extension" ∉ Generated.configWrites := by decide
  constructor <;> simp [docOp, hc, hcfg, ht, hn, hd, hcw]

/-- **json_standalone_same**: from the same snapshot text `s`, on creation, the standalone file
is `s` byte for byte and the multi-entry file gains the frame whose body is `s`: both store the
same text -/
theorem json_standalone_same (w : World) (c : Cfg) (p q rel rel' id s : Text)
    (hp : (fsRead w.fs p).bind (getPrev id) = none) (hq : fsRead w.fs q = none)
    (hc : Generated.shouldCreate w.env c.update = true) :
    fsRead (standaloneTail w c q rel' s).1.fs q = some s ∧
    fsRead (entryTail w c p rel id s .raw).1.fs p = some ((fsRead w.fs p).getD [] ++ frame ⟨id, s⟩) := by
  constructor
  · apply C19.standalone_exact
    simp [standaloneTail, hq, hc]
  · unfold entryTail
    simp only [hp, hc, Bool.not_true, Bool.false_eq_true, ↓reduceIte, frameFmt_eq]
    rw [C19.fsRead_fsWrite_same]
    cases fsRead w.fs p <;> rfl

/-- raw replay: the stored body equals the snapshot text ⇒ pass, nothing written -/
theorem json_replay (w : World) (c : Cfg) (p rel id s : Text) (line : Nat)
    (h : (fsRead w.fs p).bind (getPrev id) = some (s, line)) :
    let r := entryTail w c p rel id s .raw
    r.2.events = [] ∧ r.2.writes = [] ∧ r.1.fs = w.fs ∧
    r.1.events = { w.events with passed := w.events.passed + 1 } := by
  unfold entryTail
  simp [h, prettyDiff]

/-- hence a re-indented or member-reordered document passes against the stored entry -/
theorem json_replay_equivalent {Tok : Type} {pretty : Bool → Text → Text}
    {tokens : Text → Option (List Tok)} {permEq : List Tok → List Tok → Prop}
    (hs : PrettySpec pretty tokens permEq) (a b : Text) (ta tb : List Tok)
    (hp : permEq ta tb) (ha : tokens a = some ta) (hb : tokens b = some tb)
    (w : World) (c : Cfg) (p rel id : Text) (line : Nat)
    (h : (fsRead w.fs p).bind (getPrev id) = some (takeJSONSnapshot pretty Generated.prettySortKeys a, line)) :
    let r := entryTail w c p rel id (takeJSONSnapshot pretty Generated.prettySortKeys b) .raw
    r.2.events = [] ∧ r.2.writes = [] ∧ r.1.fs = w.fs := by
  rw [← json_order_invariant hs a b ta tb hp ha hb]
  have := json_replay w c p rel id _ line h
  exact ⟨this.1, this.2.1, this.2.2.1⟩

/-- and a document whose snapshot text differs is reported (raw comparison: every byte counts) -/
theorem json_mismatch_reported (w : World) (c : Cfg) (p rel id s s' : Text) (line : Nat)
    (h : (fsRead w.fs p).bind (getPrev id) = some (s, line)) (hne : s' ≠ s)
    (hu : Generated.shouldUpdate w.env c.update = false) :
    let r := entryTail w c p rel id s' .raw
    (∃ d, d ≠ [] ∧ r.2.events = [.error d]) ∧ r.2.writes = [] ∧ r.1.fs = w.fs := by
  have hd : prettyDiff s s' rel line ≠ [] :=
    fun he => hne ((C13.report_empty_iff _ _ _ _).mp he).symm
  unfold entryTail
  simp only [h, hd, ↓reduceIte, hu, Bool.not_false]
  exact ⟨⟨_, hd, rfl⟩, rfl, rfl⟩

/-! ## 4. the contract is satisfiable: a toy language -/

namespace Toy

/-- documents over '0' '1' (tokens) and ' ' '\n' (white space) -/
def isTok (c : Byte) : Bool := c = 48 || c = 49
def isWs (c : Byte) : Bool := c = 32 || c = 10

def tokens (t : Text) : Option (List Byte) :=
  if t.all (fun c => isTok c || isWs c) then some (t.filter isTok) else none

/-- multiset equality, stated through counts -/
def permEq (a b : List Byte) : Prop := ∀ x, a.count x = b.count x

/-- canonical order: all '0' then all '1' -/
def sorted (ts : List Byte) : List Byte := List.replicate (ts.count 48) 48 ++ List.replicate (ts.count 49) 49

def pretty (sortKeys : Bool) (t : Text) : Text :=
  (if sortKeys then sorted (t.filter isTok) else t.filter isTok) ++ [nl]

theorem tokens_some {t : Text} {ts : List Byte} (h : tokens t = some ts) :
    ts = t.filter isTok ∧ ∀ c ∈ ts, isTok c = true := by
  unfold tokens at h
  split at h
  · cases h; exact ⟨rfl, fun c hc => (List.mem_filter.mp hc).2⟩
  · cases h

theorem tokens_of_toks (x : List Byte) (hx : ∀ c ∈ x, isTok c = true) : tokens (x ++ [nl]) = some x := by
  unfold tokens
  have h1 : (x ++ [nl]).all (fun c => isTok c || isWs c) = true := by
    simp only [List.all_append, List.all_cons, List.all_nil, Bool.and_true, Bool.and_eq_true, List.all_eq_true]
    exact ⟨fun c hc => by simp [hx c hc], by decide⟩
  have h2 : (x ++ [nl]).filter isTok = x := by
    rw [List.filter_append, List.filter_eq_self.mpr hx]
    have : [nl].filter isTok = [] := by decide
    rw [this]; simp
  simp [h1, h2]

theorem sorted_toks (ts : List Byte) : ∀ c ∈ sorted ts, isTok c = true := by
  intro c hc
  simp only [sorted, List.mem_append, List.mem_replicate] at hc
  rcases hc with ⟨_, rfl⟩ | ⟨_, rfl⟩ <;> decide

theorem sorted_perm (ts : List Byte) (h : ∀ c ∈ ts, isTok c = true) : permEq (sorted ts) ts := by
  intro x
  simp only [sorted, List.count_append, List.count_replicate]
  by_cases h0 : x = 48
  · subst h0; simp
  · by_cases h1 : x = 49
    · subst h1; simp
    · have hx : x ∉ ts := by
        intro hm
        have := h x hm
        simp [isTok, h0, h1] at this
      have e0 : ((48 : Byte) == x) = false := by simpa using fun e => h0 e.symm
      have e1 : ((49 : Byte) == x) = false := by simpa using fun e => h1 e.symm
      simp [e0, e1, List.count_eq_zero_of_not_mem hx]

theorem getLast_tok (x : List Byte) (hx : ∀ c ∈ x, isTok c = true) : x.getLast? ≠ some nl := by
  intro h
  obtain ⟨ys, rfl⟩ := List.getLast?_eq_some_iff.mp h
  have := hx nl (by simp)
  revert this; decide

/-- the toy printer meets every law of the contract -/
theorem spec : PrettySpec pretty tokens permEq where
  ws_invariant s a b ta ha hb := by
    have h1 := (tokens_some ha).1
    have h2 := (tokens_some hb).1
    simp only [pretty, ← h1, ← h2]
  order_invariant a b ta tb hp ha hb := by
    have h1 := (tokens_some ha).1
    have h2 := (tokens_some hb).1
    simp only [pretty, ↓reduceIte, ← h1, ← h2, sorted, hp 48, hp 49]
  lossless s a ta ha := by
    obtain ⟨h1, h2⟩ := tokens_some ha
    cases s with
    | false =>
      refine ⟨ta, ?_, by simp⟩
      simp only [pretty, Bool.false_eq_true, ↓reduceIte, ← h1]
      exact tokens_of_toks ta h2
    | true =>
      refine ⟨sorted ta, ?_, by simpa using sorted_perm ta h2⟩
      simp only [pretty, ↓reduceIte, ← h1]
      exact tokens_of_toks _ (sorted_toks ta)
  ends_nl s a ha := by
    cases s with
    | false =>
      exact ⟨a.filter isTok, by simp [pretty], getLast_tok _ (fun c hc => (List.mem_filter.mp hc).2)⟩
    | true =>
      exact ⟨sorted (a.filter isTok), by simp [pretty], getLast_tok _ (sorted_toks _)⟩
  tokens_nl b := by
    have hw : (isTok nl || isWs nl) = true := by decide
    have hf : [nl].filter isTok = [] := by decide
    simp [tokens, List.all_append, List.filter_append, hw, hf]

/-- "1 0\n 1" and " 1 1  0": same tokens up to order ⇒ same snapshot "011" (no final newline);
without sorting the token order is kept -/
example :
    takeJSONSnapshot pretty true [49, 32, 48, 10, 32, 49] = [48, 49, 49] ∧
    takeJSONSnapshot pretty true [32, 49, 32, 49, 32, 32, 48] = [48, 49, 49] ∧
    takeJSONSnapshot pretty false [49, 32, 48, 10, 32, 49] = [49, 48, 49] ∧
    takeJSONSnapshot pretty true [48, 49, 49] = [48, 49, 49] ∧
    tokens [49, 50] = none := by decide

example : takeJSONSnapshot pretty Generated.prettySortKeys [49, 32, 48, 10, 32, 49] =
    takeJSONSnapshot pretty Generated.prettySortKeys [32, 49, 32, 49, 32, 32, 48] :=
  json_order_invariant spec _ _ [49, 48, 49] [49, 49, 48] (by intro x; simp only [List.count_cons, List.count_nil]; omega) (by decide) (by decide)

end Toy

end GoSnaps.C14
