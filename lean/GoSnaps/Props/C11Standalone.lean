/-
C11 (standalone part) — the k-th standalone snapshot of a test lives in the file
`<dir>/<Filename, or test name with / ↦ _>_<k>.snap<Ext>`.

`snapshotPath`/`constructFilename` build a FORMAT (user-controlled parts escaped by `escapeFormat`,
the placeholder `_%d` between stem and `.snap`); `getTestID` then calls `Sprintf(format, k)`.
Here: `Sprintf` undoes the escaping for EVERY byte string (1, 2), the file name (3), the full path
through `filepath.Join`/`Clean` (4, under `ExtOK`, which is necessary: `standalone_path_needs_extOK`),
injectivity in the ordinal (5), examples (6).
Byte legend: 37 = '%', 100 = 'd', 95 = '_', 47 = '/', 46 = '.'.
-/
import GoSnaps.Props.C11
import GoSnaps.Props.C03
import GoSnaps.Fmt
import GoSnaps.Lemmas.Diff
namespace GoSnaps.C11
open GoSnaps

/-! ## 1. `escapeFormat` and the `Sprintf` interpreter -/

theorem escapeFormat_nil : escapeFormat [] = [] := rfl

theorem escapeFormat_cons (c : Byte) (s : Text) :
    escapeFormat (c :: s) = (if c = 37 then [37, 37] else [c]) ++ escapeFormat s := by
  simp [escapeFormat, replaceByte]

theorem escapeFormat_append (a b : Text) : escapeFormat (a ++ b) = escapeFormat a ++ escapeFormat b := by
  simp [escapeFormat, replaceByte]

/-- a text without `%` is its own escape -/
theorem escapeFormat_of_not_mem (s : Text) (h : (37 : Byte) ∉ s) : escapeFormat s = s := by
  induction s with
  | nil => rfl
  | cons c cs ih =>
    have hc : c ≠ 37 := by intro e; apply h; simp [e]
    have hcs : (37 : Byte) ∉ cs := by intro e; apply h; simp [e]
    rw [escapeFormat_cons, ih hcs]; simp [hc]

/-- parse, then render: `sprintf` in one expression -/
def run (f acc : Text) (args : List FArg) : Option Text :=
  (parseFmtAux f acc).bind (fmtPieces · args)

theorem sprintf_eq_run (f : Text) (args : List FArg) : sprintf f args = run f [] args := by
  unfold sprintf run parseFmt
  cases parseFmtAux f [] <;> rfl

/-- flushing the accumulator in front of pieces `ps` prints the accumulator in front -/
theorem fmtPieces_flush (acc : Text) (ps : List Piece) (args : List FArg) :
    fmtPieces ((if acc = [] then [] else [.lit acc]) ++ ps) args = (fmtPieces ps args).map (acc ++ ·) := by
  by_cases h : acc = []
  · subst h; simp
  · simp [h, fmtPieces]

/-- pieces that are all literals, no operand: the concatenation -/
theorem fmtPieces_lits (ts : List Text) : fmtPieces (ts.map .lit) [] = some ts.flatten := by
  induction ts with
  | nil => simp [fmtPieces]
  | cons t ts ih => simp [fmtPieces, ih]

theorem parseFmtAux_cons_ne (c : Byte) (cs acc : Text) (hc : ¬ c = pct) :
    parseFmtAux (c :: cs) acc = parseFmtAux cs (acc ++ [c]) := by
  cases cs <;> simp [parseFmtAux, hc]

/-- the accumulator of `parseFmtAux` is printed first, whatever follows -/
theorem run_acc (f acc : Text) (args : List FArg) :
    run f acc args = (run f [] args).map (acc ++ ·) := by
  induction f generalizing acc with
  | nil =>
    unfold run parseFmtAux
    have := fmtPieces_flush acc [] args
    simp only [List.append_nil] at this
    simp [this]
  | cons c cs ih =>
    by_cases hc : c = pct
    · subst hc
      cases cs with
      | nil =>
        unfold run parseFmtAux
        simp [fmtPieces_flush]
      | cons v rest =>
        unfold run parseFmtAux
        simp only [if_true]
        split
        · simp
        · cases parseFmtAux rest [] with
          | none => simp
          | some ps =>
            by_cases hv : v = pct <;> simp [hv, fmtPieces_flush]
    · have e1 : run (c :: cs) acc args = run cs (acc ++ [c]) args := by
        unfold run; rw [parseFmtAux_cons_ne _ _ _ hc]
      have e2 : run (c :: cs) [] args = run cs [c] args := by
        unfold run; rw [parseFmtAux_cons_ne _ _ _ hc]; rfl
      rw [e1, e2, ih (acc ++ [c]), ih [c]]
      cases run cs [] args <;> simp

/-- **an escaped text inside a format prints the text**, whatever the rest of the format is -/
theorem run_escapeFormat (s rest : Text) (args : List FArg) :
    run (escapeFormat s ++ rest) [] args = (run rest [] args).map (s ++ ·) := by
  induction s with
  | nil => simp [escapeFormat_nil]
  | cons c cs ih =>
    rw [escapeFormat_cons]
    by_cases hc : c = 37
    · subst hc
      have e : run ([37, 37] ++ escapeFormat cs ++ rest) [] args
          = (run (escapeFormat cs ++ rest) [] args).map ([37] ++ ·) := by
        unfold run
        simp only [List.cons_append, List.nil_append]
        rw [parseFmtAux]
        cases parseFmtAux (escapeFormat cs ++ rest) [] with
        | none => simp [pct]
        | some ps => simp [pct, fmtPieces]
      simp only [if_true]
      rw [e, ih]
      cases run rest [] args <;> simp
    · have hc' : ¬ c = pct := hc
      have e : run ([c] ++ escapeFormat cs ++ rest) [] args = run (escapeFormat cs ++ rest) [c] args := by
        unfold run
        simp only [List.cons_append, List.nil_append]
        rw [parseFmtAux_cons_ne _ _ _ hc']; simp
      simp only [hc, if_false]
      rw [e, run_acc, ih]
      cases run rest [] args <;> simp

/-- piece level: an escaped text parses into literal pieces only (no verb, no `%!(NOVERB)`), and
    the literals concatenate to the accumulator followed by the text -/
theorem parseFmtAux_escapeFormat_lits (s : Text) :
    ∀ acc, ∃ ts : List Text, parseFmtAux (escapeFormat s) acc = some (ts.map .lit) ∧ ts.flatten = acc ++ s := by
  induction s with
  | nil =>
    intro acc
    by_cases h : acc = []
    · exact ⟨[], by simp [escapeFormat_nil, parseFmtAux, h], by simp [h]⟩
    · exact ⟨[acc], by simp [escapeFormat_nil, parseFmtAux, h], by simp⟩
  | cons c cs ih =>
    intro acc
    rw [escapeFormat_cons]
    by_cases hc : c = 37
    · subst hc
      obtain ⟨ts, h1, h2⟩ := ih []
      refine ⟨(if acc = [] then [] else [acc]) ++ [37] :: ts, ?_, ?_⟩
      · simp only [if_true, List.cons_append, List.nil_append]
        rw [parseFmtAux, h1]
        by_cases h : acc = [] <;> simp [pct, h]
      · by_cases h : acc = [] <;> simp [h, h2] at *
    · obtain ⟨ts, h1, h2⟩ := ih (acc ++ [c])
      refine ⟨ts, ?_, by simp [h2]⟩
      simp only [hc, if_false, List.cons_append, List.nil_append]
      rw [parseFmtAux_cons_ne _ _ _ hc, h1]

theorem parseFmt_escapeFormat_lits (s : Text) :
    ∃ ts : List Text, parseFmt (escapeFormat s) = some (ts.map .lit) ∧ ts.flatten = s := by
  simpa [parseFmt] using parseFmtAux_escapeFormat_lits s []

/-- `sprintf_escapeFormat`, proved at the piece level -/
theorem sprintf_escapeFormat' (s : Text) : sprintf (escapeFormat s) [] = some s := by
  obtain ⟨ts, h1, h2⟩ := parseFmt_escapeFormat_lits s
  simp [sprintf, h1, fmtPieces_lits, h2]

theorem sprintf_escapeFormat_append (s rest : Text) (args : List FArg) :
    sprintf (escapeFormat s ++ rest) args = (sprintf rest args).map (s ++ ·) := by
  simp only [sprintf_eq_run, run_escapeFormat]

/-- a `%`-free literal in front of a format is printed as is -/
theorem sprintf_literal_append (l rest : Text) (args : List FArg) (h : (37 : Byte) ∉ l) :
    sprintf (l ++ rest) args = (sprintf rest args).map (l ++ ·) := by
  have := sprintf_escapeFormat_append l rest args
  rwa [escapeFormat_of_not_mem l h] at this

/-- `%d` consumes one integer operand -/
theorem sprintf_d_append (rest : Text) (n : Nat) (args : List FArg) :
    sprintf ([37, 100] ++ rest) (.d n :: args) = (sprintf rest args).map (natToText n ++ ·) := by
  unfold sprintf parseFmt
  simp only [List.cons_append, List.nil_append]
  rw [parseFmtAux]
  cases parseFmtAux rest [] with
  | none => simp [pct]
  | some ps => simp [pct, fmtPieces, fmtVerb]

theorem sprintf_nil : sprintf [] [] = some [] := by decide

/-- **1.** an escaped text is a format that prints the text — for every byte string -/
theorem sprintf_escapeFormat (s : Text) : sprintf (escapeFormat s) [] = some s := by
  have := sprintf_escapeFormat_append s [] []
  simpa [sprintf_nil] using this

/-- **2.** escaped text, the ordinal placeholder, escaped text -/
theorem sprintf_escaped_placeholder (a b : Text) (n : Nat) :
    sprintf (escapeFormat a ++ [37, 100] ++ escapeFormat b) [.d n] = some (a ++ natToText n ++ b) := by
  rw [List.append_assoc, sprintf_escapeFormat_append, sprintf_d_append, sprintf_escapeFormat]
  simp

/-- **2'.** the shape `constructFilename` produces: the literal `_%d.snap` between the escaped parts -/
theorem sprintf_escaped_placeholder_snap (a b : Text) (n : Nat) :
    sprintf (escapeFormat a ++ [95, 37, 100] ++ Generated.snapsExt ++ escapeFormat b) [.d n] =
      some (a ++ [95] ++ natToText n ++ Generated.snapsExt ++ b) := by
  have h1 : escapeFormat a ++ [95, 37, 100] ++ Generated.snapsExt ++ escapeFormat b
      = escapeFormat (a ++ [95]) ++ [37, 100] ++ escapeFormat (Generated.snapsExt ++ b) := by
    have : escapeFormat Generated.snapsExt = Generated.snapsExt := by decide
    have h95 : escapeFormat [95] = [95] := by decide
    simp [escapeFormat_append, this, h95]
  rw [h1, sprintf_escaped_placeholder]; simp

/-! ## 2. the standalone file name -/

/-- the file name of the `n`-th standalone snapshot, as a plain text -/
def standaloneName (c : Cfg) (caller tName : Text) (n : Nat) : Text :=
  stem c caller tName true ++ [95] ++ natToText n ++ Generated.snapsExt ++ c.extension

/-- **3.** the `n`-th standalone file name is `<Filename, or test name with / ↦ _>_<n>.snap<Ext>`,
    for every name, `%` included -/
theorem standalone_file_name (c : Cfg) (caller tName : Text) (n : Nat) :
    sprintf (constructFilename c caller tName true) [.d n] =
      some (stem c caller tName true ++ [95] ++ natToText n ++ Generated.snapsExt ++ c.extension) := by
  rw [filename_spec_standalone]
  have : Generated.saSuffix = [95, 37, 100] := by decide
  rw [this, sprintf_escaped_placeholder_snap]

/-- **5.** different ordinals, different file names -/
theorem standalone_ordinal_injective (c : Cfg) (caller tName : Text) (n m : Nat)
    (h : sprintf (constructFilename c caller tName true) [.d n] =
         sprintf (constructFilename c caller tName true) [.d m]) : n = m := by
  rw [standalone_file_name, standalone_file_name] at h
  have h := Option.some.inj h
  simp only [List.append_assoc] at h
  have h := List.append_cancel_left h
  have h := List.append_cancel_left h
  exact C03.natToText_injective n m (List.append_cancel_right h)

/-! ## 3. path elements: `splitSlash`, `joinSlash`, `cleanComps` -/

theorem splitSlash_ne_nil (s : Text) : splitSlash s ≠ [] := by
  cases s with
  | nil => simp [splitSlash]
  | cons c cs =>
    simp only [splitSlash]
    split
    · simp
    · split <;> simp

theorem splitSlash_cons_ne (c : Byte) (s m : Text) (ms : List Text) (hc : c ≠ slash)
    (h : splitSlash s = m :: ms) : splitSlash (c :: s) = (c :: m) :: ms := by
  simp [splitSlash, hc, h]

theorem splitSlash_cons_slash (s : Text) : splitSlash (slash :: s) = [] :: splitSlash s := by
  simp [splitSlash]

/-- a text without `/` is one path element -/
theorem splitSlash_of_not_mem (m : Text) (h : slash ∉ m) : splitSlash m = [m] := by
  induction m with
  | nil => rfl
  | cons c cs ih =>
    have hc : c ≠ slash := by intro e; apply h; simp [e]
    have hcs : slash ∉ cs := by intro e; apply h; simp [e]
    exact splitSlash_cons_ne c cs cs [] hc (ih hcs)

/-- the elements of a concatenation: the last element of the left part and the first element of
    the right part are glued -/
theorem splitSlash_append (x y b : Text) (R : List Text) (hy : splitSlash y = b :: R) :
    ∀ (L : List Text) (a : Text), splitSlash x = L ++ [a] → splitSlash (x ++ y) = L ++ (a ++ b) :: R := by
  induction x with
  | nil =>
    intro L a hx
    cases L with
    | nil =>
      simp [splitSlash] at hx; subst hx; simpa using hy
    | cons l L' => simp [splitSlash] at hx
  | cons c cs ih =>
    intro L a hx
    by_cases hc : c = slash
    · subst hc
      rw [splitSlash_cons_slash] at hx
      rw [List.cons_append, splitSlash_cons_slash]
      cases L with
      | nil => simp at hx; exact absurd hx.2 (splitSlash_ne_nil cs)
      | cons l L' =>
        simp only [List.cons_append, List.cons.injEq] at hx
        obtain ⟨rfl, h2⟩ := hx
        simp [ih L' a h2]
    · cases hq : splitSlash cs with
      | nil => exact absurd hq (splitSlash_ne_nil cs)
      | cons m ms =>
        rw [splitSlash_cons_ne c cs m ms hc hq] at hx
        cases L with
        | nil =>
          simp only [List.nil_append, List.cons.injEq] at hx
          obtain ⟨rfl, rfl⟩ := hx
          have := ih [] m (by simpa using hq)
          rw [List.cons_append, splitSlash_cons_ne c (cs ++ y) _ _ hc this]; simp
        | cons l L' =>
          simp only [List.cons_append, List.cons.injEq] at hx
          obtain ⟨rfl, h2⟩ := hx
          have := ih (m :: L') a (by rw [hq, h2]; rfl)
          rw [List.cons_append, splitSlash_cons_ne c (cs ++ y) m (L' ++ (a ++ b) :: R) hc this]; simp

theorem mem_escapeFormat_of_mem (x : Byte) (s : Text) (h : x ∈ s) : x ∈ escapeFormat s := by
  induction s with
  | nil => simp at h
  | cons c cs ih =>
    rw [escapeFormat_cons]
    rcases List.mem_cons.1 h with rfl | h
    · by_cases hx : x = 37 <;> simp [hx]
    · exact List.mem_append_right _ (ih h)

/-- escaping yields a `%`-free text only for that text itself -/
theorem escapeFormat_eq_iff (s t : Text) (ht : (37 : Byte) ∉ t) : escapeFormat s = t ↔ s = t := by
  constructor
  · intro h
    have hs : (37 : Byte) ∉ s := fun hm => ht (h ▸ mem_escapeFormat_of_mem 37 s hm)
    rwa [escapeFormat_of_not_mem s hs] at h
  · intro h; subst h; exact escapeFormat_of_not_mem s ht

theorem escapeFormat_eq_nil (s : Text) : escapeFormat s = [] ↔ s = [] :=
  escapeFormat_eq_iff s [] (by simp)
theorem escapeFormat_eq_dot (s : Text) : escapeFormat s = [dot] ↔ s = [dot] :=
  escapeFormat_eq_iff s [dot] (by decide)
theorem escapeFormat_eq_dotdot (s : Text) : escapeFormat s = [dot, dot] ↔ s = [dot, dot] :=
  escapeFormat_eq_iff s [dot, dot] (by decide)

/-- escaping neither creates nor destroys a `/`: it acts element by element -/
theorem splitSlash_escapeFormat (s : Text) : splitSlash (escapeFormat s) = (splitSlash s).map escapeFormat := by
  induction s with
  | nil => rfl
  | cons c cs ih =>
    rw [escapeFormat_cons]
    by_cases hs : c = slash
    · subst hs
      have : ¬ slash = 37 := by decide
      simp only [this, if_false, List.cons_append, List.nil_append, splitSlash_cons_slash, ih, List.map_cons]
      rfl
    · cases hq : splitSlash cs with
      | nil => exact absurd hq (splitSlash_ne_nil cs)
      | cons m ms =>
        rw [hq, List.map_cons] at ih
        rw [splitSlash_cons_ne c cs m ms hs hq, List.map_cons, escapeFormat_cons]
        by_cases h37 : c = 37
        · subst h37
          have h1 := splitSlash_cons_ne 37 _ _ _ (by decide) ih
          have h2 := splitSlash_cons_ne 37 _ _ _ (by decide) h1
          simpa using h2
        · have h1 := splitSlash_cons_ne c _ _ _ hs ih
          simpa [h37] using h1

theorem cleanComps_append (r : Bool) (xs ys : List Text) :
    ∀ out, cleanComps r (xs ++ ys) out = cleanComps r ys (cleanComps r xs out) := by
  induction xs with
  | nil => intro out; rfl
  | cons c cs ih =>
    intro out
    simp only [List.cons_append, cleanComps]
    split
    · exact ih _
    · split
      · cases out with
        | nil => cases r <;> simp [ih]
        | cons o os => simp only; split <;> exact ih _
      · exact ih _

/-- `filepath.Clean`'s element stack commutes with escaping -/
theorem cleanComps_escapeFormat (r : Bool) (xs : List Text) :
    ∀ out, cleanComps r (xs.map escapeFormat) (out.map escapeFormat) = (cleanComps r xs out).map escapeFormat := by
  induction xs with
  | nil => intro out; rfl
  | cons c cs ih =>
    intro out
    simp only [List.map_cons, cleanComps, escapeFormat_eq_nil, escapeFormat_eq_dot, escapeFormat_eq_dotdot]
    split
    · exact ih _
    · split
      · cases out with
        | nil =>
          cases r
          · have := ih [[dot, dot]]
            have e : escapeFormat [dot, dot] = [dot, dot] := by decide
            simpa [e] using this
          · simpa using ih []
        | cons o os =>
          simp only [List.map_cons, escapeFormat_eq_dotdot]
          split
          · rename_i ho
            have := ih ([dot, dot] :: o :: os)
            have e : escapeFormat [dot, dot] = [dot, dot] := by decide
            simpa [e] using this
          · exact ih os
      · have := ih (c :: out)
        simpa using this

/-- without a `..` element nothing is popped: the stack below is left alone -/
theorem cleanComps_no_dotdot (r : Bool) (xs : List Text) (h : [dot, dot] ∉ xs) :
    ∀ out, cleanComps r xs out = cleanComps r xs [] ++ out := by
  induction xs with
  | nil => intro out; rfl
  | cons c cs ih =>
    have hc : c ≠ [dot, dot] := by intro e; apply h; simp [e]
    have hcs : [dot, dot] ∉ cs := by intro e; apply h; simp [e]
    intro out
    simp only [cleanComps, hc, if_false]
    split
    · exact ih hcs _
    · rw [ih hcs (c :: out), ih hcs [c]]; simp

/-- an element that is neither empty, `.` nor `..` is pushed -/
theorem cleanComps_push (r : Bool) (M : Text) (cs out : List Text)
    (h0 : M ≠ []) (h1 : M ≠ [dot]) (h2 : M ≠ [dot, dot]) :
    cleanComps r (M :: cs) out = cleanComps r cs (M :: out) := by
  simp [cleanComps, h0, h1, h2]

theorem joinSlash_cons (k : Text) (t : List Text) (ht : t ≠ []) :
    joinSlash (k :: t) = k ++ slash :: joinSlash t := by
  cases t with
  | nil => exact absurd rfl ht
  | cons m ms => rfl

/-- joining around a distinguished element: everything before it, it, everything after it -/
theorem joinSlash_mid (K : List Text) (a m b : Text) (R : List Text) :
    joinSlash (K ++ (a ++ m ++ b) :: R) = joinSlash (K ++ [a]) ++ m ++ joinSlash (b :: R) := by
  induction K with
  | nil =>
    cases R with
    | nil => simp [joinSlash]
    | cons r rs => simp [joinSlash]
  | cons k ks ih =>
    rw [List.cons_append, List.cons_append, joinSlash_cons _ _ (by simp), joinSlash_cons _ _ (by simp), ih]
    simp

theorem escapeFormat_joinSlash (cs : List Text) :
    escapeFormat (joinSlash cs) = joinSlash (cs.map escapeFormat) := by
  induction cs with
  | nil => rfl
  | cons c cs ih =>
    cases cs with
    | nil => rfl
    | cons m ms =>
      rw [joinSlash_cons c (m :: ms) (by simp), List.map_cons,
        joinSlash_cons (escapeFormat c) ((m :: ms).map escapeFormat) (by simp), ← ih]
      have : escapeFormat [slash] = [slash] := by decide
      rw [show c ++ slash :: joinSlash (m :: ms) = c ++ ([slash] ++ joinSlash (m :: ms)) from rfl,
        escapeFormat_append, escapeFormat_append, this]; rfl

/-! ## 4. `filepath.Clean` around a distinguished element -/

/-- the part of a path element that makes it an ordinary one: no `/` in it, and a byte other than
    `.` (so the element is neither empty, `.` nor `..`).  Both `%d` and a decimal number qualify. -/
def Mid (m : Text) : Prop := slash ∉ m ∧ ∃ c ∈ m, c ≠ dot

theorem mid_placeholder : Mid [37, 100] := ⟨by decide, 37, by simp, by decide⟩

theorem mid_natToText (n : Nat) : Mid (natToText n) := by
  have hd := C03.natToText_digits n
  refine ⟨fun hm => ?_, ?_⟩
  · have := hd slash hm; revert this; decide
  · cases hq : natToText n with
    | nil => exact absurd hq (C03.natToText_ne_nil n)
    | cons c cs =>
      refine ⟨c, by simp, ?_⟩
      intro e
      have := hd c (by simp [hq])
      subst e; revert this; decide

theorem mid_ne_nil (m : Text) (hm : Mid m) : m ≠ [] := by
  obtain ⟨_, c, hc, _⟩ := hm
  intro e; subst e; simp at hc

theorem mid_elem (a m b : Text) (hm : Mid m) :
    a ++ m ++ b ≠ [] ∧ a ++ m ++ b ≠ [dot] ∧ a ++ m ++ b ≠ [dot, dot] := by
  obtain ⟨_, c, hc, hcd⟩ := hm
  have hmem : c ∈ a ++ m ++ b := by simp [hc]
  refine ⟨?_, ?_, ?_⟩ <;> intro e <;> rw [e] at hmem <;> simp at hmem <;> exact hcd hmem

theorem head_mid (A m B : Text) (hm : Mid m) :
    (A ++ m ++ B).head? = some slash ↔ A.head? = some slash := by
  cases A with
  | nil =>
    cases m with
    | nil => exact absurd rfl (mid_ne_nil _ hm)
    | cons x xs =>
      have : x ≠ slash := by intro e; apply hm.1; simp [e]
      simp [this]
  | cons x xs => simp

/-- **`filepath.Clean` of a path with a distinguished ordinary element** `a ++ m ++ b` (the path
is `A ++ m ++ B`, `a` = last element of `A`, `b` = first element of `B`), no `..` element after
it: the result is `X ++ m ++ Y` where `X` and `Y` do not depend on `m`. -/
theorem fpClean_mid (A B m : Text) (L R : List Text) (a b : Text)
    (hA : splitSlash A = L ++ [a]) (hB : splitSlash B = b :: R) (hm : Mid m) (hR : [dot, dot] ∉ R) :
    fpClean (A ++ m ++ B) =
      (if A.head? = some slash then [slash] else []) ++
        joinSlash ((cleanComps (decide (A.head? = some slash)) L []).reverse ++ [a]) ++ m ++
        joinSlash (b :: (cleanComps (decide (A.head? = some slash)) R []).reverse) := by
  have hsplit : splitSlash (A ++ m ++ B) = L ++ (a ++ m ++ b) :: R := by
    have h1 := splitSlash_append A m m [] (splitSlash_of_not_mem m hm.1) L a hA
    exact splitSlash_append (A ++ m) B b R hB L (a ++ m) h1
  obtain ⟨e0, e1, e2⟩ := mid_elem a m b hm
  have hm_ne := mid_ne_nil m hm
  have hne : A ++ m ++ B ≠ [] := by simp [hm_ne]
  unfold fpClean
  simp only [hne, if_false, head_mid A m B hm, hsplit]
  rw [cleanComps_append, cleanComps_push _ _ _ _ e0 e1 e2, cleanComps_no_dotdot _ R hR]
  simp only [List.reverse_append, List.reverse_cons, List.append_assoc, List.singleton_append]
  have hj := fun K R' => joinSlash_mid K a m b R'
  simp only [List.append_assoc] at hj
  rw [hj]
  by_cases hr : A.head? = some slash <;> simp [hr, hm_ne]

theorem splitSlash_snoc (s : Text) : ∃ L a, splitSlash s = L ++ [a] :=
  ⟨(splitSlash s).dropLast, (splitSlash s).getLast (splitSlash_ne_nil s),
    (List.dropLast_concat_getLast (splitSlash_ne_nil s)).symm⟩

theorem head_escapeFormat (A : Text) : (escapeFormat A).head? = some slash ↔ A.head? = some slash := by
  cases A with
  | nil => simp [escapeFormat_nil]
  | cons c cs =>
    rw [escapeFormat_cons]
    by_cases hc : c = 37
    · subst hc; simp
    · simp [hc]

/-- **`filepath.Clean` commutes with the escaping around the placeholder.**  For a path
`A ++ m ++ B` whose part `B` after the distinguished element has no `..` element (beyond its
first, glued, one), `Clean` yields `X ++ m ++ Y`, and for the escaped path it yields the escaped
`X` and `Y` — with the same `X`, `Y` for every ordinary middle part `m`. -/
theorem clean_template (A B : Text) (h : [dot, dot] ∉ (splitSlash B).tail) :
    ∃ X Y : Text,
      (∀ m, Mid m → fpClean (A ++ m ++ B) = X ++ m ++ Y) ∧
      (∀ m, Mid m → fpClean (escapeFormat A ++ m ++ escapeFormat B) = escapeFormat X ++ m ++ escapeFormat Y) := by
  obtain ⟨L, a, hA⟩ := splitSlash_snoc A
  cases hB : splitSlash B with
  | nil => exact absurd hB (splitSlash_ne_nil B)
  | cons b R =>
    rw [hB] at h
    simp only [List.tail_cons] at h
    refine ⟨(if A.head? = some slash then [slash] else []) ++
        joinSlash ((cleanComps (decide (A.head? = some slash)) L []).reverse ++ [a]),
      joinSlash (b :: (cleanComps (decide (A.head? = some slash)) R []).reverse), ?_, ?_⟩
    · intro m hm
      rw [fpClean_mid A B m L R a b hA hB hm h]
    · intro m hm
      have hA' : splitSlash (escapeFormat A) = L.map escapeFormat ++ [escapeFormat a] := by
        rw [splitSlash_escapeFormat, hA]; simp
      have hB' : splitSlash (escapeFormat B) = escapeFormat b :: R.map escapeFormat := by
        rw [splitSlash_escapeFormat, hB]; simp
      have hR' : [dot, dot] ∉ R.map escapeFormat := by
        intro hmem
        obtain ⟨x, hx, e⟩ := List.mem_map.1 hmem
        rw [escapeFormat_eq_dotdot] at e
        subst e; exact h hx
      rw [fpClean_mid _ _ m _ _ _ _ hA' hB' hm hR']
      have c1 := cleanComps_escapeFormat (decide (A.head? = some slash)) L []
      have c2 := cleanComps_escapeFormat (decide (A.head? = some slash)) R []
      simp only [List.map_nil] at c1 c2
      simp only [head_escapeFormat, c1, c2]
      rw [escapeFormat_append, escapeFormat_joinSlash, escapeFormat_joinSlash]
      have es : escapeFormat [slash] = [slash] := by decide
      by_cases hr : A.head? = some slash <;> simp [hr, es, escapeFormat_nil]

/-! ## 5. the full standalone path -/

/-- the snapshot directory: an absolute `Dir` as is, a relative one joined to the test file's
    directory (the `dir` of `snapshotPath`, before escaping) -/
def snapsDirOf (c : Cfg) (caller : Text) : Text :=
  if fpIsAbs c.snapsDir then c.snapsDir else fpJoin [fpDir caller, c.snapsDir]

/-- `filepath.Join(d, f)` for a non-empty `f` -/
theorem fpJoin_pair (d f : Text) (hf : f ≠ []) :
    fpJoin [d, f] = fpClean ((if d = [] then [] else d ++ [slash]) ++ f) := by
  unfold fpJoin
  by_cases hd : d = [] <;> simp [joinSlash, hf, hd]

/-- "`Ext` does not climb out of the file name": no `..` path element in `Ext` after its first
    `/`.  (An `Ext` without `/` satisfies it, see `extOK_of_no_slash`.) -/
def ExtOK (c : Cfg) : Prop := [dot, dot] ∉ (splitSlash c.extension).tail

instance (c : Cfg) : Decidable (ExtOK c) := by unfold ExtOK; infer_instance

theorem extOK_of_no_slash (c : Cfg) (h : slash ∉ c.extension) : ExtOK c := by
  unfold ExtOK; rw [splitSlash_of_not_mem _ h]; simp

/-- the cleaned standalone path has the shape `X ++ <ordinal> ++ Y` with `X`, `Y` independent of
the ordinal, and the path FORMAT computed by `snapshotPath` is `escape X ++ "%d" ++ escape Y` -/
theorem standalone_path_shape (c : Cfg) (caller tName : Text) (h : ExtOK c) :
    ∃ X Y : Text,
      (∀ n, fpJoin [snapsDirOf c caller, standaloneName c caller tName n] = X ++ natToText n ++ Y) ∧
      (snapshotPath c caller tName true).1 = escapeFormat X ++ [37, 100] ++ escapeFormat Y := by
  have hB : [dot, dot] ∉ (splitSlash (Generated.snapsExt ++ c.extension)).tail := by
    cases hq : splitSlash c.extension with
    | nil => exact absurd hq (splitSlash_ne_nil _)
    | cons e1 R =>
      have h0 : splitSlash Generated.snapsExt = [] ++ [Generated.snapsExt] := by decide
      rw [splitSlash_append _ _ e1 R hq [] _ h0]
      unfold ExtOK at h; rw [hq] at h
      simpa using h
  obtain ⟨X, Y, h1, h2⟩ := clean_template
    ((if snapsDirOf c caller = [] then [] else snapsDirOf c caller ++ [slash]) ++ stem c caller tName true ++ [95])
    (Generated.snapsExt ++ c.extension) hB
  refine ⟨X, Y, ?_, ?_⟩
  · intro n
    rw [← h1 _ (mid_natToText n), fpJoin_pair]
    · simp [standaloneName]
    · simp [standaloneName]
  · rw [← h2 _ mid_placeholder, path_spec_standalone, filename_spec_standalone, fpJoin_pair]
    · have e1 : Generated.saSuffix = [95, 37, 100] := by decide
      have e2 : escapeFormat Generated.snapsExt = Generated.snapsExt := by decide
      have e3 : escapeFormat [95] = [95] := by decide
      have e4 : escapeFormat [slash] = [slash] := by decide
      have e5 : (if escapeFormat (snapsDirOf c caller) = [] then []
            else escapeFormat (snapsDirOf c caller) ++ [slash]) =
          escapeFormat (if snapsDirOf c caller = [] then [] else snapsDirOf c caller ++ [slash]) := by
        by_cases hd : snapsDirOf c caller = []
        · simp [hd, escapeFormat_nil]
        · simp [hd, escapeFormat_eq_nil, escapeFormat_append, e4]
      unfold snapsDirOf at e5 ⊢
      rw [e5]
      simp [escapeFormat_append, e1, e2, e3]
    · have e1 : Generated.saSuffix = [95, 37, 100] := by decide
      simp [e1]

/-- **4.** `Sprintf(path, n)` is the cleaned join of the snapshot directory and the `n`-th
standalone file name — for every directory, stem and extension (`%`, `/`, `.`, `..` in `Dir` and
`Filename` included), provided `Ext` has no `..` element after a `/` (`ExtOK`; the statement is
FALSE without it, see `standalone_path_needs_extOK`). -/
theorem standalone_path (c : Cfg) (caller tName : Text) (n : Nat) (h : ExtOK c) :
    sprintf (snapshotPath c caller tName true).1 [.d n] =
      some (fpJoin [if fpIsAbs c.snapsDir then c.snapsDir else fpJoin [fpDir caller, c.snapsDir],
                    stem c caller tName true ++ [95] ++ natToText n ++ Generated.snapsExt ++ c.extension]) := by
  obtain ⟨X, Y, h1, h2⟩ := standalone_path_shape c caller tName h
  rw [h2, sprintf_escaped_placeholder, ← h1 n]; rfl

/-- the usual case: no `/` in `Ext` -/
theorem standalone_path_of_no_slash (c : Cfg) (caller tName : Text) (n : Nat) (h : (47 : Byte) ∉ c.extension) :
    sprintf (snapshotPath c caller tName true).1 [.d n] =
      some (fpJoin [snapsDirOf c caller, standaloneName c caller tName n]) :=
  standalone_path c caller tName n (extOK_of_no_slash c h)

/-- different ordinals, different paths -/
theorem standalone_path_ordinal_injective (c : Cfg) (caller tName : Text) (n m : Nat) (h : ExtOK c)
    (e : sprintf (snapshotPath c caller tName true).1 [.d n] =
         sprintf (snapshotPath c caller tName true).1 [.d m]) : n = m := by
  obtain ⟨X, Y, h1, h2⟩ := standalone_path_shape c caller tName h
  rw [h2, sprintf_escaped_placeholder, sprintf_escaped_placeholder] at e
  have e := Option.some.inj e
  simp only [List.append_assoc] at e
  exact C03.natToText_injective n m (List.append_cancel_right (List.append_cancel_left e))

/-! ## 6. examples -/

/-- a format without any `%` and one operand: Go's `%!(EXTRA …)` report is appended -/
theorem sprintf_no_verb_extra (l : Text) (h : (37 : Byte) ∉ l) (a : FArg) :
    sprintf l [a] = some (l ++ (ofString "%!(EXTRA " ++ argDesc a ++ ofString ")")) := by
  have := sprintf_literal_append l [] [a] h
  rw [List.append_nil] at this
  rw [this]
  simp [sprintf, parseFmt, parseFmtAux, fmtPieces]

theorem sprintf_no_verb_ne (l : Text) (h : (37 : Byte) ∉ l) (a : FArg) : sprintf l [a] ≠ some l := by
  rw [sprintf_no_verb_extra l h a]
  intro e
  have e := Option.some.inj e
  have e2 : ofString ")" = [] := by
    have : l ++ (ofString "%!(EXTRA " ++ argDesc a ++ ofString ")") = l ++ [] := by rw [e]; simp
    have := List.append_cancel_left this
    simp at this
    exact this.2.2
  have h41 : ofString ")" = [41] := by rw [ofString_eq]; decide
  rw [h41] at e2
  simp at e2

/-- test `T/100%_done`, first standalone snapshot: file `T_100%_done_1.snap` -/
example :
    sprintf (constructFilename {} [47,120,46,103,111] [84,47,49,48,48,37,95,100,111,110,101] true) [.d 1] =
      some [84,95,49,48,48,37,95,100,111,110,101,95,49,46,115,110,97,112] := by decide

/-- the same through the theorem -/
example :
    sprintf (constructFilename {} [47,120,46,103,111] [84,47,49,48,48,37,95,100,111,110,101] true) [.d 1] =
      some [84,95,49,48,48,37,95,100,111,110,101,95,49,46,115,110,97,112] := by
  rw [standalone_file_name]; decide

/-- an extension `.%d` stays literal: `T_1.snap.%d` -/
example :
    sprintf (constructFilename { extension := [46,37,100] } [47,120,46,103,111] [84] true) [.d 1] =
      some [84,95,49,46,115,110,97,112,46,37,100] := by decide

/-- `Dir` = `s%` next to `/a/t.go`, second snapshot of test `T`: `/a/s%/T_2.snap` -/
example :
    sprintf (snapshotPath { snapsDir := [115,37] } [47,97,47,116,46,103,111] [84] true).1 [.d 2] =
      some [47,97,47,115,37,47,84,95,50,46,115,110,97,112] := by decide

/-- **`ExtOK` is needed.**  With `Ext` = `/../x` the element `T_%d.snap` is removed by
`filepath.Join` BEFORE `Sprintf` runs: the format is `/a/__snapshots__/x`, it has no verb left, and
`Sprintf` reports the unused ordinal (`%!(EXTRA int=1)`) — every ordinal maps to a path that is not
the cleaned join of the directory and the file name. -/
theorem standalone_path_needs_extOK :
    let c : Cfg := { extension := [47,46,46,47,120] }
    ¬ ExtOK c ∧
    (snapshotPath c [47,97,47,116,46,103,111] [84] true).1 =
      [47,97,47,95,95,115,110,97,112,115,104,111,116,115,95,95,47,120] ∧
    fpJoin [snapsDirOf c [47,97,47,116,46,103,111], standaloneName c [47,97,47,116,46,103,111] [84] 1] =
      [47,97,47,95,95,115,110,97,112,115,104,111,116,115,95,95,47,120] ∧
    sprintf (snapshotPath c [47,97,47,116,46,103,111] [84] true).1 [.d 1] ≠
      some (fpJoin [snapsDirOf c [47,97,47,116,46,103,111], standaloneName c [47,97,47,116,46,103,111] [84] 1]) := by
  intro c
  have h1 : (snapshotPath c [47,97,47,116,46,103,111] [84] true).1 =
      [47,97,47,95,95,115,110,97,112,115,104,111,116,115,95,95,47,120] := by decide
  have h2 : fpJoin [snapsDirOf c [47,97,47,116,46,103,111], standaloneName c [47,97,47,116,46,103,111] [84] 1] =
      [47,97,47,95,95,115,110,97,112,115,104,111,116,115,95,95,47,120] := by decide
  refine ⟨by decide, h1, h2, ?_⟩
  rw [h1, h2]
  exact sprintf_no_verb_ne _ (by decide) _

end GoSnaps.C11
