/- C20 — every call has exactly one outcome and the counters add up. -/
import GoSnaps.Model
import GoSnaps.Lemmas.Format
namespace GoSnaps.C20

def Events.total (e : Events) : Nat := e.erred + e.added + e.updated + e.passed

/-- the four outcomes as seen by the test -/
inductive Outcome | passed | added | updated | failed
deriving DecidableEq, Repr

def outcomeOf (o : Out) : Option Outcome :=
  match o.events with
  | [] => some .passed
  | [.log t] => if t = Generated.go_addedMsg then some .added
                else if t = Generated.go_updatedMsg then some .updated else none
  | [.error _] => some .failed
  | _ => none

theorem msgs_distinct : Generated.go_addedMsg ≠ Generated.go_updatedMsg := by decide

/-- `entryTail` (shared by MatchSnapshot / MatchJSON / MatchYAML): when the model covers the
input (no `unsupported`), the call ends in exactly one outcome and exactly one counter moves by
one — the one matching the outcome. -/
theorem entryTail_one_outcome (w : World) (c : Cfg) (p rel id s : Text) (cmp : Cmp)
    (hs : (entryTail w c p rel id s cmp).2.unsupported = none) :
    let r := entryTail w c p rel id s cmp
    (outcomeOf r.2 = some .passed ∧ r.1.events = { w.events with passed := w.events.passed + 1 }) ∨
    (outcomeOf r.2 = some .added ∧ r.1.events = { w.events with added := w.events.added + 1 }) ∨
    (outcomeOf r.2 = some .updated ∧ r.1.events = { w.events with updated := w.events.updated + 1 }) ∨
    (outcomeOf r.2 = some .failed ∧ r.1.events = { w.events with erred := w.events.erred + 1 }) := by
  have hd := msgs_distinct
  unfold entryTail at hs ⊢
  cases hq : (fsRead w.fs p).bind (getPrev id) with
  | none =>
    simp only [hq] at hs ⊢
    cases hc : Generated.shouldCreate w.env c.update with
    | false => right; right; right; simp [handleError, outcomeOf]
    | true =>
      rw [frameFmt_eq]
      right; left; simp [outcomeOf]
  | some pl =>
    obtain ⟨prev, line⟩ := pl
    simp only [hq] at hs ⊢
    cases cmp <;>
    · simp only at hs ⊢
      generalize prettyDiff _ _ rel line = dv at hs ⊢
      by_cases hdiff : dv = []
      · left; simp [hdiff, outcomeOf]
      · simp only [hdiff, ↓reduceIte] at hs ⊢
        cases hu : Generated.shouldUpdate w.env c.update with
        | false => right; right; right; simp [handleError, outcomeOf]
        | true =>
          simp only [hu, Bool.not_true, Bool.false_eq_true, ↓reduceIte] at hs ⊢
          cases hf : fsRead w.fs p with
          | none => simp [hf, unsup] at hs
          | some file => right; right; left; simp [outcomeOf, Ne.symm hd]

theorem standaloneTail_one_outcome (w : World) (c : Cfg) (p rel s : Text) :
    let r := standaloneTail w c p rel s
    (outcomeOf r.2 = some .passed ∧ r.1.events = { w.events with passed := w.events.passed + 1 }) ∨
    (outcomeOf r.2 = some .added ∧ r.1.events = { w.events with added := w.events.added + 1 }) ∨
    (outcomeOf r.2 = some .updated ∧ r.1.events = { w.events with updated := w.events.updated + 1 }) ∨
    (outcomeOf r.2 = some .failed ∧ r.1.events = { w.events with erred := w.events.erred + 1 }) := by
  have hd := msgs_distinct
  unfold standaloneTail
  cases hr : fsRead w.fs p with
  | none =>
    simp only
    cases hc : Generated.shouldCreate w.env c.update with
    | false => right; right; right; simp [handleError, outcomeOf]
    | true => right; left; simp [outcomeOf]
  | some prev =>
    simp only
    generalize prettyDiff prev s rel 1 = dv
    by_cases hdiff : dv = []
    · left; simp [hdiff, outcomeOf]
    · simp only [hdiff, ↓reduceIte]
      cases hu : Generated.shouldUpdate w.env c.update with
      | false => right; right; right; simp [handleError, outcomeOf]
      | true => right; right; left; simp [outcomeOf, Ne.symm hd]

/-- in every case the total number of counted outcomes grows by exactly one -/
theorem entryTail_total (w : World) (c : Cfg) (p rel id s : Text) (cmp : Cmp)
    (hs : (entryTail w c p rel id s cmp).2.unsupported = none) :
    Events.total (entryTail w c p rel id s cmp).1.events = Events.total w.events + 1 := by
  rcases entryTail_one_outcome w c p rel id s cmp hs with h | h | h | h <;>
    (simp only [h.2, Events.total]; omega)

/-- structural facts read from the source on every run: in the five match* functions every
`handleError(...)` is directly followed by `return` (a failing path cannot go on to report a second
outcome), and every `t.Log(addedMsg / updatedMsg)` is directly followed by the registration of
exactly that event.  The model's step functions have this shape by construction; these two
obligations tie that shape to the code. -/
theorem handleError_always_returns : Generated.handleErrorReturns = true := by decide

theorem log_followed_by_register : Generated.logFollowedByRegister = true := by decide

end GoSnaps.C20
