/-
L6: Unix `path/filepath`: Clean, Join, Dir, Base, Ext, IsAbs, Rel (absolute clean operands),
and `constructFilename` / `snapshotPath` (snaps/snapshot.go:350-385).
-/
import GoSnaps.Bytes
import GoSnaps.Generated.Consts
namespace GoSnaps

def slash : Byte := 47
def dot : Byte := 46

/-- split on '/' -/
def splitSlash : Text → List Text
  | [] => [[]]
  | c :: cs =>
    if c = slash then [] :: splitSlash cs
    else match splitSlash cs with
      | [] => [[c]]
      | l :: ls => (c :: l) :: ls

def joinSlash : List Text → Text
  | [] => []
  | [l] => l
  | l :: m :: ls => l ++ slash :: joinSlash (m :: ls)

/-- the component stack of `filepath.Clean` (reversed) -/
def cleanComps (rooted : Bool) : List Text → List Text → List Text
  | [], out => out
  | c :: cs, out =>
    if c = [] || c = [dot] then cleanComps rooted cs out
    else if c = [dot, dot] then
      match out with
      | [] => if rooted then cleanComps rooted cs [] else cleanComps rooted cs [[dot, dot]]
      | o :: os =>
        if o = [dot, dot] then cleanComps rooted cs ([dot, dot] :: o :: os)
        else cleanComps rooted cs os
    else cleanComps rooted cs (c :: out)

/-- `filepath.Clean` -/
def fpClean (p : Text) : Text :=
  if p = [] then [dot] else
  let rooted := p.head? = some slash
  let comps := (cleanComps rooted (splitSlash p) []).reverse
  let body := joinSlash comps
  if rooted then slash :: body else if body = [] then [dot] else body

/-- `filepath.Join` -/
def fpJoin (elems : List Text) : Text :=
  let ne := elems.filter (· ≠ [])
  if ne = [] then [] else fpClean (joinSlash ne)

def fpIsAbs (p : Text) : Bool := p.head? = some slash

def lastSlashSplit (p : Text) : Text × Text :=
  -- (prefix up to and including the last '/', rest)
  let r := p.reverse
  let rest := r.takeWhile (· ≠ slash)
  ((r.drop rest.length).reverse, rest.reverse)

/-- `filepath.Dir` -/
def fpDir (p : Text) : Text := fpClean (lastSlashSplit p).1

/-- `filepath.Base` -/
def fpBase (p : Text) : Text :=
  if p = [] then [dot] else
  let stripped := (p.reverse.dropWhile (· = slash)).reverse
  if stripped = [] then [slash] else (lastSlashSplit stripped).2

/-- `filepath.Ext` -/
def fpExt (p : Text) : Text :=
  let last := (lastSlashSplit p).2
  let r := last.reverse
  let suf := r.takeWhile (· ≠ dot)
  if suf.length = r.length then [] else (dot :: suf.reverse)

def stripPrefixComps : List Text → List Text → List Text × List Text
  | a :: as, b :: bs => if a = b then stripPrefixComps as bs else (a :: as, b :: bs)
  | as, bs => (as, bs)

/-- `filepath.Rel(base, targ)` for absolute operands (both are cleaned first, as Go does);
    `none` when an operand is relative (not needed by the harness worlds). -/
def fpRel (base targ : Text) : Option Text :=
  if !(fpIsAbs base) || !(fpIsAbs targ) then none else
  let b := (splitSlash (fpClean base)).filter (· ≠ [])
  let t := (splitSlash (fpClean targ)).filter (· ≠ [])
  let (b', t') := stripPrefixComps b t
  let ups := b'.map (fun _ => [dot, dot])
  let r := joinSlash (ups ++ t')
  some (if r = [] then [dot] else r)

/-- `strings.TrimSuffix(s, suf)` -/
def trimSuffix (s suf : Text) : Text :=
  if suf.isSuffixOf s then s.take (s.length - suf.length) else s

structure Cfg where
  filename : Text := []
  snapsDir : Text := Generated.defaultSnapsDir
  extension : Text := []
  update : Option Bool := none
deriving Repr, DecidableEq

/-- `escapeFormat`: `%` ↦ `%%`, so that the text stands for itself inside a `fmt` format string -/
def escapeFormat (s : Text) : Text := replaceByte s 37 [37, 37]

/-- `constructFilename`; a standalone name is a format string for the ordinal (`_%d`), everything
    else in it is escaped -/
def constructFilename (c : Cfg) (caller tName : Text) (standalone : Bool) : Text :=
  let filename :=
    if c.filename = [] then
      let base := fpBase caller
      if standalone then replaceByte tName slash Generated.saReplaceNew
      else trimSuffix base (fpExt base)
    else c.filename
  if standalone then escapeFormat filename ++ Generated.saSuffix ++ Generated.snapsExt ++ escapeFormat c.extension
  else filename ++ Generated.snapsExt ++ c.extension

/-- `snapshotPath` (non-trimpath build): absolute path and the path relative to the caller's
    directory; for a standalone snapshot both are format strings (directory parts escaped) -/
def snapshotPath (c : Cfg) (caller tName : Text) (standalone : Bool) : Text × Option Text :=
  let dir := if fpIsAbs c.snapsDir then c.snapsDir else fpJoin [fpDir caller, c.snapsDir]
  let base := fpDir caller
  let dir := if standalone then escapeFormat dir else dir
  let base := if standalone then escapeFormat base else base
  let p := fpJoin [dir, constructFilename c caller tName standalone]
  (p, fpRel base p)

end GoSnaps
