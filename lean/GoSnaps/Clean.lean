/-
L4: `Clean` (snaps/clean.go): `occurrences`, `getTestID`/`isNumber`, `examineFiles`,
`examineSnaps` (loop-faithful), `summary`, `testSkipped`/`isFileSkipped` (snaps/skip.go).
`regexp.MatchString` and the function names `go/parser` finds are oracle tables.
-/
import GoSnaps.Model
import GoSnaps.Natural
namespace GoSnaps

structure Oracles where
  re : List ((Text × Text) × Bool) := []          -- (pattern, string) ↦ matched
  gofuncs : List (Text × Option (List Text)) := []  -- path ↦ parse error | function names

def Oracles.reMatch (o : Oracles) (pat s : Text) : Option Bool :=
  if pat = [] then some true else
  (o.re.find? (·.1 = (pat, s))).map (·.2)

/-- `isNumber` -/
def isNumber (b : Text) : Bool := b.all isDigit

/-- `getTestID` (clean.go): the id inside `[Test… - <digits>]`, else none -/
def getTestID (b : Text) : Option Text :=
  if b = [] then none else
  if !(hasPrefix b Generated.headerPrefix) || b.getLast? ≠ some 93 then none else
  match indexOf b Generated.idSep with
  | none => none
  | some sep =>
    -- b[separator+3 : len(b)-1]; Go panics if separator+3 > len(b)-1 (slice bounds)
    let lo := sep + Generated.idSep.length
    let hi := b.length - 1
    if lo > hi then none   -- see `getTestID_panics`: the real code panics here
    else if !isNumber ((b.drop lo).take (hi - lo)) then none
    else some ((b.drop 1).take (b.length - 2))

/-- inputs on which the Go `getTestID` panics with slice bounds out of range: `[Test - ]`-like
    lines where the separator ends at or beyond the closing bracket -/
def getTestIDPanics (b : Text) : Bool :=
  b ≠ [] && hasPrefix b Generated.headerPrefix && b.getLast? = some 93 &&
  match indexOf b Generated.idSep with
  | none => false
  | some sep => sep + Generated.idSep.length > b.length - 1

/-- `occurrences`; `none` = an id could not be formatted -/
def occurrences (tests : List (Text × Nat)) (count : Nat) (fmt : Text → Nat → Option Text) :
    Option (List Text) :=
  tests.foldl (fun acc (id, counter) =>
    match acc with
    | none => none
    | some r =>
      let c := counter / count
      let ks := if c > 1 then (List.range c).map (· + 1) else []
      let all := (ks ++ [c]).map (fmt id)
      if all.any (·.isNone) then none else some (r ++ all.filterMap (fun x => x))) (some [])

def snapshotOccFmt (s : Text) (i : Nat) : Option Text := sprintf Generated.occFmt [.s s, .d i]
def standaloneOccFmt (s : Text) (i : Nat) : Option Text := sprintf s [.d i]

/-- `strings.Split(testID, " - ")[0]` -/
def beforeSep (s sep : Text) : Text :=
  match indexOf s sep with
  | some i => if sep = [] then s.take 1 else s.take i
  | none => s

/-- `testSkipped` -/
def testSkipped (o : Oracles) (skipped : List Text) (testID runOnly : Text) : Option Bool :=
  let testName := beforeSep testID Generated.skipSep
  if skipped.any (fun name => testName = name || hasPrefix testName (name ++ [slash])) then some true
  else (o.reMatch runOnly testID).map (!·)

/-- `isFileSkipped` -/
def isFileSkipped (o : Oracles) (dir filename runOnly : Text) : Option Bool :=
  if runOnly = [] then some false else
  let p := fpJoin [dir, [dot, dot], trimSuffix filename Generated.snapsExt ++ ofString ".go"]
  match o.gofuncs.find? (·.1 = p) with
  | none => none
  | some (_, none) => some false
  | some (_, some names) =>
    let ms := names.map (o.reMatch runOnly)
    if ms.any (·.isNone) then none
    else some (!(ms.any (· = some true)))

/-- names directly inside `dir` with whether each is a directory; sorted by name (os.ReadDir) -/
def readDir (fs : FS) (dir : Text) : List (Text × Bool) :=
  let pre := if dir = [slash] then dir else dir ++ [slash]
  let ents := fs.filterMap (fun (p, _) =>
    if hasPrefix p pre then
      let rest := p.drop pre.length
      let name := rest.takeWhile (· ≠ slash)
      if name = [] then none else some (name, decide (name.length ≠ rest.length))
    else none)
  let uniq := ents.foldl (fun acc e => if acc.any (·.1 = e.1) then acc else acc ++ [e]) []
  -- insertion sort by bytes
  uniq.foldr (fun x acc =>
    let rec ins : List (Text × Bool) → List (Text × Bool)
      | [] => [x]
      | y :: ys => if ltBytes y.1 x.1 then y :: ins ys else x :: y :: ys
    ins acc) []

def dedup (l : List Text) : List Text :=
  l.foldl (fun acc x => if acc.contains x then acc else acc ++ [x]) []

def sortBytes (l : List Text) : List Text :=
  l.foldr (fun x acc =>
    let rec ins : List Text → List Text
      | [] => [x]
      | y :: ys => if ltBytes y x then y :: ins ys else x :: y :: ys
    ins acc) []

structure FilesResult where
  obsolete : List Text := []
  used : List Text := []
  fs : FS
  removed : List Text := []

/-- `examineFiles`; directories are visited in byte order (the Go map order is canonicalised
    on both sides of the comparison) -/
def examineFiles (o : Oracles) (fs : FS) (regPaths : List Text) (standalone : List Text)
    (runOnly : Text) (update : Bool) : Option FilesResult :=
  let dirs := sortBytes (dedup ((regPaths ++ standalone).map fpDir))
  dirs.foldl (fun acc dir =>
    match acc with
    | none => none
    | some r0 =>
      (readDir r0.fs dir).foldl (fun acc (name, isDir) =>
        match acc with
        | none => none
        | some r =>
          if isDir || !(containsSub name Generated.snapsExt) then some r
          else
            let p := fpJoin [dir, name]
            if regPaths.contains p then some { r with used := r.used ++ [p] }
            else if standalone.contains p then some r
            else match isFileSkipped o dir name runOnly with
              | none => none
              | some true => some r
              | some false =>
                if update then
                  some { r with obsolete := r.obsolete ++ [p], fs := fsRemove r.fs p, removed := r.removed ++ [p] }
                else some { r with obsolete := r.obsolete ++ [p] }) (some r0)) (some { fs := fs })

inductive ScanMode
  | outer
  | skipping
  | collecting (id : Text) (data : Text)

structure ScanState where
  testIDs : List Text := []
  tests : List (Text × Text) := []
  obsolete : List Text := []
  hasDiffs : Bool := false
  missing : Bool := false    -- an oracle lookup failed

def testsSet : List (Text × Text) → Text → Text → List (Text × Text)
  | [], k, v => [(k, v)]
  | (k', v') :: m, k, v => if k' = k then (k, v) :: m else (k', v') :: testsSet m k v

def testsGet : List (Text × Text) → Text → Option Text
  | [], _ => none
  | (k', v) :: m, k => if k' = k then some v else testsGet m k

/-- the scanning loop of `examineSnaps` over one file -/
def exScan (o : Oracles) (registered skipped : List Text) (runOnly : Text) (update : Bool) :
    List Line → ScanMode → ScanState → ScanState
  | [], _, st => st
  | l :: ls, .skipping, st =>
    if l = endSeq then exScan o registered skipped runOnly update ls .outer st
    else exScan o registered skipped runOnly update ls .skipping st
  | l :: ls, .collecting id data, st =>
    if l = endSeq then
      exScan o registered skipped runOnly update ls .outer { st with tests := testsSet st.tests id data }
    else exScan o registered skipped runOnly update ls (.collecting id (data ++ l ++ [nl])) st
  | l :: ls, .outer, st =>
    match getTestID l with
    | none => exScan o registered skipped runOnly update ls .outer st
    | some id =>
      let st := { st with testIDs := st.testIDs ++ [id] }
      if registered.contains id then exScan o registered skipped runOnly update ls (.collecting id []) st
      else match testSkipped o skipped id runOnly with
        | none => { st with missing := true }
        | some true => exScan o registered skipped runOnly update ls (.collecting id []) st
        | some false =>
          -- reported in every mode; dropped (skipped) only when deleting is allowed, otherwise its
          -- body is collected like a kept entry's, so that a sort-only rewrite re-emits it
          exScan o registered skipped runOnly update ls (if update then .skipping else .collecting id [])
            { st with obsolete := st.obsolete ++ [id], hasDiffs := true }

/-- what the rewrite loop prints for one id -/
def cleanFrame (id body : Text) : Option Text :=
  sprintf Generated.cleanFmt [.s id, .s body, .s Generated.go_endSequence]

inductive SnapsOutcome
  | ok (obsolete : List Text) (fs : FS) (written : List Text)
  | missingOracle
  | unsupportedOrder      -- the comparator is not a total order on the ids of a file to sort
  | panics                -- the real code panics (getTestID slice bounds)
  | badFormat

/-- `examineSnaps` -/
def examineSnaps (o : Oracles) (fs : FS) (cleanup : List (RegKey × Nat)) (skipped : List Text)
    (used : List Text) (runOnly : Text) (count : Nat) (update sort : Bool) : SnapsOutcome :=
  let rec go : List Text → FS → List Text → List Text → SnapsOutcome
    | [], fs, obs, written => .ok obs fs written
    | p :: rest, fs, obs, written =>
      match fsRead fs p with
      | none => .badFormat
      | some content =>
        let mine := (cleanup.filter (·.1.1 = p)).map (fun (k, n) => (k.2, n))
        match occurrences mine count snapshotOccFmt with
        | none => .badFormat
        | some registered =>
          let ls := scan content
          if ls.any getTestIDPanics then .panics else
          let st := exScan o registered skipped runOnly update ls .outer {}
          if st.missing then .missingOracle else
          let shouldSort := sort && !(isSortedNat st.testIDs)
          let shouldUpdate := update && st.hasDiffs
          if !shouldUpdate && !shouldSort then go rest fs (obs ++ st.obsolete) written
          else
            let ids := if shouldSort then sortNat st.testIDs else st.testIDs
            if shouldSort && !(allPairsOrdered ids && pairwiseComparable ids) then .unsupportedOrder else
            let frames := ids.map (fun id =>
              match testsGet st.tests id with
              | none => some []
              | some body => cleanFrame id body)
            if frames.any (·.isNone) then .badFormat else
            go rest (fsWrite fs p (frames.filterMap (fun x => x)).flatten) (obs ++ st.obsolete) (written ++ [p])
  go used fs [] []

def plural (n : Nat) (s : Text) : Text := if n > 1 then s ++ ofString "s" else s

def printEvent (symbol verb : Text) (n : Nat) : Text :=
  if n = 0 then [] else
  symbol ++ natToText n ++ ofString " " ++ plural n (ofString "snapshot") ++ ofString " " ++ verb ++ [nl]

def objectList (objects : List Text) (name : Text) (update : Bool) : Text :=
  let subject := plural objects.length name
  let action := if update then ofString "removed" else ofString "obsolete"
  [nl] ++ Generated.go_arrowSymbol ++ natToText objects.length ++ ofString " snapshot " ++ subject ++
    ofString " " ++ action ++ [nl] ++
  (objects.map (fun ob => ofString "  " ++ Generated.go_enterSymbol ++ ofString " " ++ Generated.go_bulletSymbol ++ ob ++ [nl])).flatten

/-- `summary` with NO_COLOR -/
def summary (obsFiles obsTests : List Text) (nSkipped : Nat) (ev : Events) (anyEvent : Bool)
    (update : Bool) : Text :=
  if obsFiles = [] && obsTests = [] && !anyEvent && nSkipped = 0 then [] else
  [nl] ++ ofString "Snapshot Summary" ++ [nl, nl] ++
  printEvent Generated.go_successSymbol (ofString "passed") ev.passed ++
  printEvent Generated.go_errorSymbol (ofString "failed") ev.erred ++
  printEvent Generated.go_updateSymbol (ofString "added") ev.added ++
  printEvent Generated.go_updateSymbol (ofString "updated") ev.updated ++
  printEvent Generated.go_skipSymbol (ofString "skipped") nSkipped ++
  (if obsFiles ≠ [] then objectList obsFiles (ofString "file") update else []) ++
  (if obsTests ≠ [] then objectList obsTests (ofString "test") update else []) ++
  (if !update && obsFiles.length + obsTests.length > 0 then
    [nl] ++ ofString "To remove " ++ (if obsFiles.length + obsTests.length > 1 then ofString "them" else ofString "it") ++
      ofString ", re-run tests with `UPDATE_SNAPS=clean go test ./...`" ++ [nl]
   else [])

/-- `Clean(m, opts...)`; `fmt.Println` adds the final newline -/
def clean (o : Oracles) (w : World) (sortOpt : Bool) (runOnly : Text) (count : Nat) : World × Out :=
  if count = 0 then unsup w "count=0 (integer divide by zero in the real code)" else
  match occurrences w.scleanup count standaloneOccFmt with
  | none => unsup w "standalone occurrence format"
  | some standalone =>
    let regPaths := dedup (w.cleanup.map (·.1.1))
    match examineFiles o w.fs regPaths standalone runOnly (Generated.cleanFilesUpdate w.env sortOpt) with
    | none => unsup w "oracle miss (examineFiles)"
    | some fr =>
      match examineSnaps o fr.fs w.cleanup w.skipped fr.used runOnly count
              (Generated.cleanSnapsUpdate w.env sortOpt) (Generated.cleanSnapsSort w.env sortOpt) with
      | .missingOracle => unsup w "oracle miss (examineSnaps)"
      | .unsupportedOrder => unsup w "natural order not total on the ids to sort"
      | .panics => unsup w "getTestID panics"
      | .badFormat => unsup w "format"
      | .ok obsTests fs written =>
        let ev := w.events
        -- len(testEvents.items): the map has a key for every kind registered at least once
        let anyEvent := ev.erred + ev.added + ev.updated + ev.passed > 0
        let s := summary fr.obsolete obsTests w.skipped.length ev anyEvent (Generated.summaryUpdate w.env sortOpt)
        ({ w with fs := fs },
         { writes := written, removed := fr.removed, stdout := if s = [] then [] else s ++ [nl] })

end GoSnaps
