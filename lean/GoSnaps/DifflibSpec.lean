import GoSnaps.Difflib

/-! Small specification-level definitions used in the statements of `DifflibProps.lean`. -/
namespace GoSnaps.Difflib

variable {α : Type}

/-- `l[i1:i2]` (Go slice expression) -/
def slice (l : List α) (i1 i2 : Nat) : List α := (l.drop i1).take (i2 - i1)

/-- what an opcode contributes to the output when the edit script is replayed:
Equal → `a[i1:i2]`, Insert/Replace → `b[j1:j2]`, Delete (or any other tag) → nothing -/
def replayPiece (a b : List α) (c : OpCode) : List α :=
  if c.tag = opEqual then slice a c.i1 c.i2
  else if c.tag = opInsert ∨ c.tag = opReplace then slice b c.j1 c.j2
  else []

/-- replay an edit script against `a` (taking inserted material from `b`) -/
def replay (a b : List α) : List OpCode → List α
  | [] => []
  | c :: cs => replayPiece a b c ++ replay a b cs

/-- concatenation of the `a`-sides `a[i1:i2]` of all opcodes -/
def aParts (a : List α) : List OpCode → List α
  | [] => []
  | c :: cs => slice a c.i1 c.i2 ++ aParts a cs

/-- concatenation of the `b`-sides `b[j1:j2]` of all opcodes -/
def bParts (b : List α) : List OpCode → List α
  | [] => []
  | c :: cs => slice b c.j1 c.j2 ++ bParts b cs

/-- the non-Equal ("change") opcodes, in order -/
def changes (ops : List OpCode) : List OpCode :=
  ops.filter (fun c => decide (c.tag ≠ opEqual))

/-- `c'` is an Equal opcode that is a sub-range of the Equal opcode `c`, on the same diagonal
(`j1' - i1' = j1 - i1`, and likewise for the end points) -/
def SubEqual (c' c : OpCode) : Prop :=
  c'.tag = opEqual ∧ c.tag = opEqual ∧ c.i1 ≤ c'.i1 ∧ c'.i1 ≤ c'.i2 ∧ c'.i2 ≤ c.i2 ∧
  c'.j1 + c.i1 = c.j1 + c'.i1 ∧ c'.j2 + c.i1 = c.j1 + c'.i2

end GoSnaps.Difflib
