/-
  Executable, loop-faithful Lean 4 model of /repo/internal/difflib/difflib.go
  (Go port of Python difflib.SequenceMatcher).

  Modelling notes
  * `IsJunk` is always nil in this code base, so `bJunk` is empty and `isBJunk` is
    always false.  Consequently the two "junk" extension loops at the end of
    `findLongestMatch` (guarded by `m.isBJunk(...)`) never execute and are omitted;
    in the two non-junk extension loops the conjunct `!m.isBJunk(..)` is always true
    and is dropped.
  * `autoJunk` is always true, so the popularity purge in `chainB` is active.
  * Sequences are `List α` with decidable equality (Go: `[]string`).  All indices are
    `Nat`.  Go would panic on an out-of-range index; the model returns "no candidates"
    / "not equal" there.  Under the pre-conditions under which Go calls the functions
    (`alo ≤ ahi ≤ len a`, `blo ≤ bhi ≤ len b`) no out-of-range access happens.
  * Go maps `map[int]int` are modelled by association lists with default 0 (`look`).
  * `b2j` is modelled as a function `α → List Nat` (Go map iteration order is
    irrelevant for the result).
-/
namespace GoSnaps.Difflib

variable {α : Type} [DecidableEq α]

/-- Go: `type match struct { A, B, Size int }` -/
structure Match where
  i : Nat
  j : Nat
  k : Nat
deriving Repr, DecidableEq, Inhabited

/-- Go: `type OpCode struct { Tag int8; I1, I2, J1, J2 int }` -/
structure OpCode where
  tag : Nat
  i1 : Nat
  i2 : Nat
  j1 : Nat
  j2 : Nat
deriving Repr, DecidableEq, Inhabited

abbrev opEqual : Nat := 0
abbrev opInsert : Nat := 1
abbrev opDelete : Nat := 2
abbrev opReplace : Nat := 3

/-! ## FormatRangeUnified -/

/-- Go `FormatRangeUnified`.  `length := stop - start` is computed in `Int` so that the
(never exercised) case `stop < start` prints the same negative number as Go.
`beginning--` happens only when `length = 0`, and `beginning = start + 1 ≥ 1`, so the
decrement stays in `Nat`. -/
def formatRangeUnified (start stop : Nat) : String :=
  let beginning : Nat := start + 1
  let length : Int := (stop : Int) - (start : Int)
  if length = 1 then toString beginning
  else
    let beginning := if length = 0 then beginning - 1 else beginning
    toString beginning ++ "," ++ toString length

/-! ## chainB -/

/-- ascending list of the positions (offset by `i`) at which `x` occurs -/
def indicesFrom (x : α) : List α → Nat → List Nat
  | [], _ => []
  | y :: ys, i => if y = x then i :: indicesFrom x ys (i + 1) else indicesFrom x ys (i + 1)

/-- `m.b2j[x]` after `chainB`: ascending indices of `x` in `b`; if `len b ≥ 200`, elements
occurring more than `len b / 100 + 1` times ("popular") are purged (lookup gives nil). -/
def b2j (b : List α) (x : α) : List Nat :=
  let idx := indicesFrom x b 0
  if 200 ≤ b.length ∧ b.length / 100 + 1 < idx.length then [] else idx

/-! ## findLongestMatch -/

/-- assoc-list lookup with default 0 (Go: `map[int]int` zero value) -/
def look : List (Nat × Nat) → Nat → Nat
  | [], _ => 0
  | (j', k) :: m, j => if j' = j then k else look m j

/-- Inner loop of `findLongestMatch` for a fixed `i` over `js = b2j[a[i]]`.
`nw` is `newj2len`.  `j2len[j-1]` with `j = 0` is key `-1` in Go, never present → 0. -/
def inner (blo bhi i : Nat) (j2len : List (Nat × Nat)) :
    List Nat → List (Nat × Nat) → Match → List (Nat × Nat) × Match
  | [], nw, best => (nw, best)
  | j :: js, nw, best =>
    if j < blo then inner blo bhi i j2len js nw best            -- continue
    else if bhi ≤ j then (nw, best)                              -- break
    else
      let k := (if j = 0 then 0 else look j2len (j - 1)) + 1
      let best' : Match := if best.k < k then ⟨i + 1 - k, j + 1 - k, k⟩ else best
      inner blo bhi i j2len js ((j, k) :: nw) best'

/-- Outer loop `for i := alo; i != ahi; i++`; first argument = remaining iterations. -/
def outer (a b : List α) (blo bhi : Nat) :
    Nat → Nat → List (Nat × Nat) → Match → Match
  | 0, _, _, best => best
  | n + 1, i, j2len, best =>
    let js := match a[i]? with
      | some x => b2j b x
      | none => []            -- unreachable for ahi ≤ len a (Go would panic)
    let r := inner blo bhi i j2len js [] best
    outer a b blo bhi n (i + 1) r.1 r.2

/-- `a[i] == b[j]` (false when out of range; Go would panic) -/
def eqAt (a b : List α) (i j : Nat) : Bool :=
  match a[i]?, b[j]? with
  | some x, some y => decide (x = y)
  | _, _ => false

/-- First extension loop:
`for besti > alo && bestj > blo && a[besti-1] == b[bestj-1] { besti--, bestj--, bestsize++ }`
(structural recursion on `besti`). -/
def extBack (a b : List α) (alo blo : Nat) : Nat → Nat → Nat → Match
  | 0, j, k => ⟨0, j, k⟩
  | i + 1, j, k =>
    if alo < i + 1 ∧ blo < j ∧ eqAt a b i (j - 1) = true then
      extBack a b alo blo i (j - 1) (k + 1)
    else ⟨i + 1, j, k⟩

/-- Second extension loop:
`for besti+bestsize < ahi && bestj+bestsize < bhi && a[besti+bestsize] == b[bestj+bestsize] { bestsize++ }` -/
def extFwd (a b : List α) (ahi bhi i j k : Nat) : Nat :=
  if i + k < ahi ∧ j + k < bhi ∧ eqAt a b (i + k) (j + k) = true then
    extFwd a b ahi bhi i j (k + 1)
  else k
termination_by ahi - (i + k)
decreasing_by omega

def findLongestMatch (a b : List α) (alo ahi blo bhi : Nat) : Match :=
  let best0 := outer a b blo bhi (ahi - alo) alo [] ⟨alo, blo, 0⟩
  let best1 := extBack a b alo blo best0.i best0.j best0.k
  ⟨best1.i, best1.j, extFwd a b ahi bhi best1.i best1.j best1.k⟩

/-! ## getMatchingBlocks -/

/-- The recursive closure `matchBlocks` of `getMatchingBlocks`, with explicit fuel.
`DifflibProps.matchBlocks_fuel_irrelevant` shows that any fuel `≥ ahi - alo` gives
the same result and that the function satisfies the Go recursion equation, i.e. the
fuel-exhausted branch never influences the result. -/
def matchBlocksF (a b : List α) : Nat → Nat → Nat → Nat → Nat → List Match → List Match
  | 0, _, _, _, _, matched => matched
  | f + 1, alo, ahi, blo, bhi, matched =>
    let m := findLongestMatch a b alo ahi blo bhi
    if 0 < m.k then
      let matched1 :=
        if alo < m.i ∧ blo < m.j then matchBlocksF a b f alo m.i blo m.j matched else matched
      let matched2 := matched1 ++ [m]
      if m.i + m.k < ahi ∧ m.j + m.k < bhi then
        matchBlocksF a b f (m.i + m.k) ahi (m.j + m.k) bhi matched2
      else matched2
    else matched

/-- `matchBlocks(alo, ahi, blo, bhi, matched)` -/
def matchBlocks (a b : List α) (alo ahi blo bhi : Nat) (matched : List Match) : List Match :=
  matchBlocksF a b (ahi - alo) alo ahi blo bhi matched

/-- The adjacency-collapse loop, including the final `if k1 > 0 { append }`. -/
def collapse : List Match → Nat → Nat → Nat → List Match → List Match
  | [], i1, j1, k1, out => if 0 < k1 then out ++ [⟨i1, j1, k1⟩] else out
  | m :: ms, i1, j1, k1, out =>
    if i1 + k1 = m.i ∧ j1 + k1 = m.j then collapse ms i1 j1 (k1 + m.k) out
    else collapse ms m.i m.j m.k (if 0 < k1 then out ++ [⟨i1, j1, k1⟩] else out)

def getMatchingBlocks (a b : List α) : List Match :=
  let matched := matchBlocks a b 0 a.length 0 b.length []
  collapse matched 0 0 0 [] ++ [⟨a.length, b.length, 0⟩]

/-! ## getOpCodes -/

/-- loop body of `getOpCodes` over the matching blocks; state `(i, j, opCodes)` -/
def opLoop : List Match → Nat → Nat → List OpCode → List OpCode
  | [], _, _, out => out
  | m :: ms, i, j, out =>
    let tag : Nat :=
      if i < m.i ∧ j < m.j then opReplace
      else if i < m.i then opDelete
      else if j < m.j then opInsert
      else 0
    let out1 := if 0 < tag then out ++ [⟨tag, i, m.i, j, m.j⟩] else out
    let out2 := if 0 < m.k then out1 ++ [⟨opEqual, m.i, m.i + m.k, m.j, m.j + m.k⟩] else out1
    opLoop ms (m.i + m.k) (m.j + m.k) out2

def getOpCodes (a b : List α) : List OpCode :=
  opLoop (getMatchingBlocks a b) 0 0 []

/-! ## GetGroupedOpCodes

Go `max`/`min` on `int` agree with `Nat.max`/`Nat.min` here: `max(i1, i2-n)` with
`i2-n < 0` yields `i1`, and with truncated subtraction `max i1 0 = i1`. Likewise the
test `i2-i1 > nn` is false in both when `i2 < i1`. -/

/-- `if codes[0].Tag == OpEqual { codes[0] = ... }` -/
def fixFirst (n : Nat) : List OpCode → List OpCode
  | [] => []
  | c :: cs =>
    if c.tag = opEqual then
      ⟨c.tag, max c.i1 (c.i2 - n), c.i2, max c.j1 (c.j2 - n), c.j2⟩ :: cs
    else c :: cs

/-- `if codes[len(codes)-1].Tag == OpEqual { codes[len(codes)-1] = ... }` -/
def fixLast (n : Nat) : List OpCode → List OpCode
  | [] => []
  | [c] =>
    if c.tag = opEqual then [⟨c.tag, c.i1, min c.i2 (c.i1 + n), c.j1, min c.j2 (c.j1 + n)⟩]
    else [c]
  | c :: c' :: cs => c :: fixLast n (c' :: cs)

/-- the grouping loop, including the final conditional append of the last group -/
def groupLoop (n : Nat) : List OpCode → List (List OpCode) → List OpCode → List (List OpCode)
  | [], groups, group =>
    if 0 < group.length ∧ ¬ (group.length = 1 ∧ (group.head?.map (·.tag)) = some opEqual) then
      groups ++ [group]
    else groups
  | c :: cs, groups, group =>
    if c.tag = opEqual ∧ n + n < c.i2 - c.i1 then
      let group1 := group ++ [⟨c.tag, c.i1, min c.i2 (c.i1 + n), c.j1, min c.j2 (c.j1 + n)⟩]
      groupLoop n cs (groups ++ [group1])
        [⟨c.tag, max c.i1 (c.i2 - n), c.i2, max c.j1 (c.j2 - n), c.j2⟩]
    else groupLoop n cs groups (group ++ [c])

/-- `GetGroupedOpCodes(n)` for `n ≥ 0` applied to an opcode list -/
def groupOpCodes (n : Nat) (codes : List OpCode) : List (List OpCode) :=
  let codes := if codes.length = 0 then [⟨opEqual, 0, 1, 0, 1⟩] else codes
  let codes := fixFirst n codes
  let codes := fixLast n codes
  groupLoop n codes [] []

def getGroupedOpCodes (a b : List α) (n : Nat) : List (List OpCode) :=
  groupOpCodes n (getOpCodes a b)

end GoSnaps.Difflib
