/-
L2/L3: registries and the five Match* entry points as a step function over a world
(file system + registries + counters), snaps/match*.go and snaps/snapshot.go.
Third-party results (value formatting, JSON/YAML validation, matchers, pretty printing) are
inputs of the step (`pre`), computed by the real libraries in the harness.
-/
import GoSnaps.Bytes
import GoSnaps.Fmt
import GoSnaps.Escape
import GoSnaps.Format
import GoSnaps.Path
import GoSnaps.Diff
import GoSnaps.Generated.Consts
import GoSnaps.Generated.Modes
import GoSnaps.Generated.Structural
namespace GoSnaps
open Generated (Env)

/-- association list with default 0: Go `map[K]int` -/
def alGet {κ : Type} [DecidableEq κ] : List (κ × Nat) → κ → Nat
  | [], _ => 0
  | (k', v) :: m, k => if k' = k then v else alGet m k

def alSet {κ : Type} [DecidableEq κ] : List (κ × Nat) → κ → Nat → List (κ × Nat)
  | [], k, v => [(k, v)]
  | (k', v') :: m, k, v => if k' = k then (k, v) :: m else (k', v') :: alSet m k v

def alHas {κ : Type} [DecidableEq κ] (m : List (κ × Nat)) (k : κ) : Bool := m.any (·.1 = k)

/-- the file system: path ↦ contents (regular files only) -/
abbrev FS := List (Text × Text)

def fsRead : FS → Text → Option Text
  | [], _ => none
  | (p', c) :: m, p => if p' = p then some c else fsRead m p

def fsWrite : FS → Text → Text → FS
  | [], p, c => [(p, c)]
  | (p', c') :: m, p, c => if p' = p then (p, c) :: m else (p', c') :: fsWrite m p c

def fsRemove (fs : FS) (p : Text) : FS := fs.filter (·.1 ≠ p)

inductive TEvent
  | error (t : Text)
  | log (t : Text)
  | skip (t : Text)
  | skipf (t : Text)
  | skipNow
deriving Repr, DecidableEq

structure Events where
  erred : Nat := 0
  added : Nat := 0
  updated : Nat := 0
  passed : Nat := 0
deriving Repr, DecidableEq

abbrev RegKey := Text × Text

inductive Pending
  | reg (k : RegKey)
  | sreg (p : Text)
deriving Repr, DecidableEq

structure World where
  env : Env
  fs : FS := []
  running : List (RegKey × Nat) := []
  cleanup : List (RegKey × Nat) := []
  srunning : List (Text × Nat) := []
  scleanup : List (Text × Nat) := []
  events : Events := {}
  skipped : List Text := []
  pending : List (Nat × Pending) := []
  cfgs : List (Nat × Cfg) := []

structure Out where
  events : List TEvent := []
  writes : List Text := []
  removed : List Text := []
  stdout : Text := []
  unsupported : Option String := none

def unsup (w : World) (why : String) : World × Out := (w, { unsupported := some why })

def errNotFound : Text := Generated.go_errSnapNotFound

def handleError (w : World) (msg : Text) : World × Out :=
  ({ w with events := { w.events with erred := w.events.erred + 1 } }, { events := [.error msg] })

/-- `syncRegistry.getTestID`: bump both counters, return the ordinal -/
def regBump (w : World) (k : RegKey) : World × Nat :=
  let n := alGet w.running k + 1
  ({ w with running := alSet w.running k n, cleanup := alSet w.cleanup k (alGet w.cleanup k + 1) }, n)

def sregBump (w : World) (p : Text) : World × Nat :=
  let n := alGet w.srunning p + 1
  ({ w with srunning := alSet w.srunning p n, scleanup := alSet w.scleanup p (alGet w.scleanup p + 1) }, n)

/-- does the comparison go through `unescapeEndChars` (MatchSnapshot, MatchYAML) or not (MatchJSON) -/
inductive Cmp | escaped | raw
deriving DecidableEq, Repr

/-- Everything after the snapshot text is known: lookup, create / compare / update.
    `matchSnapshot`, `matchJSON`, `matchYAML` share this tail verbatim. -/
def entryTail (w : World) (c : Cfg) (snapPath rel testID snapshot : Text) (cmp : Cmp) : World × Out :=
  match (fsRead w.fs snapPath).bind (getPrev testID) with
  | none =>
    if !Generated.shouldCreate w.env c.update then handleError w errNotFound
    else
      match frameFmt testID snapshot with
      | none => unsup w "addFmt"
      | some fr =>
        -- os.OpenFile(O_APPEND|O_CREATE): a missing file starts empty
        let old := match fsRead w.fs snapPath with | some t => t | none => []
        ({ w with fs := fsWrite w.fs snapPath (old ++ fr),
                  events := { w.events with added := w.events.added + 1 } },
         { events := [.log Generated.go_addedMsg], writes := [snapPath] })
  | some (prev, line) =>
    let e := match cmp with | .escaped => unescape prev | .raw => prev
    let r := match cmp with | .escaped => unescape snapshot | .raw => snapshot
    let diff := prettyDiff e r rel line
    if diff = [] then
      ({ w with events := { w.events with passed := w.events.passed + 1 } }, {})
    else if !Generated.shouldUpdate w.env c.update then handleError w diff
    else
      match fsRead w.fs snapPath with
      | none => unsup w "update of a vanished file"
      | some file =>
        ({ w with fs := fsWrite w.fs snapPath (update testID snapshot file),
                  events := { w.events with updated := w.events.updated + 1 } },
         { events := [.log Generated.go_updatedMsg], writes := [snapPath] })

/-- `pre`: `.error msg` = validation or matchers failed with that message; `.ok s` = snapshot text -/
def matchEntry (w : World) (c : Cfg) (caller tName : Text) (texec : Nat) (cmp : Cmp)
    (pre : Except Text Text) : World × Out :=
  let (snapPath, rel?) := snapshotPath c caller tName false
  let (w, n) := regBump w (snapPath, tName)
  let w := { w with pending := (texec, .reg (snapPath, tName)) :: w.pending }
  match sprintf Generated.idFmt [.s tName, .d n], rel? with
  | some testID, some rel =>
    match pre with
    | .error msg => handleError w msg
    | .ok snapshot => entryTail w c snapPath rel testID snapshot cmp
  | _, _ => unsup w "idFmt/rel"

def standaloneTail (w : World) (c : Cfg) (snapPath rel snapshot : Text) : World × Out :=
  match fsRead w.fs snapPath with
  | none =>
    if !Generated.shouldCreate w.env c.update then handleError w errNotFound
    else
      ({ w with fs := fsWrite w.fs snapPath snapshot,
                events := { w.events with added := w.events.added + 1 } },
       { events := [.log Generated.go_addedMsg], writes := [snapPath] })
  | some prev =>
    let diff := prettyDiff prev snapshot rel 1
    if diff = [] then
      ({ w with events := { w.events with passed := w.events.passed + 1 } }, {})
    else if !Generated.shouldUpdate w.env c.update then handleError w diff
    else
      ({ w with fs := fsWrite w.fs snapPath snapshot,
                events := { w.events with updated := w.events.updated + 1 } },
       { events := [.log Generated.go_updatedMsg], writes := [snapPath] })

def matchStandalone (w : World) (c : Cfg) (caller tName : Text) (texec : Nat)
    (pre : Except Text Text) : World × Out :=
  let (generic, grel?) := snapshotPath c caller tName true
  let (w, n) := sregBump w generic
  let w := { w with pending := (texec, .sreg generic) :: w.pending }
  match grel? with
  | none => unsup w "rel"
  | some grel =>
    match sprintf generic [.d n], sprintf grel [.d n] with
    | some snapPath, some rel =>
      match pre with
      | .error msg => handleError w msg
      | .ok snapshot => standaloneTail w c snapPath rel snapshot
    | _, _ => unsup w "standalone path format"

/-- running the cleanups registered on mock T number `texec` (`t.Cleanup`) -/
def endTest (w : World) (texec : Nat) : World :=
  let mine := w.pending.filter (·.1 = texec)
  let w := mine.foldl (fun w p =>
    match p.2 with
    | .reg k => { w with running := alSet w.running k 0 }
    | .sreg g => { w with srunning := alSet w.srunning g 0 }) w
  { w with pending := w.pending.filter (·.1 ≠ texec) }

def trackSkip (w : World) (tName : Text) : World :=
  { w with skipped := w.skipped ++ [tName] }

end GoSnaps
