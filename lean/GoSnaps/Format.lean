/-
L1: the framing of the multi-entry snapshot file (snaps/snapshot.go):
`addNewSnapshot`, `getPrevSnapshot`, `updateSnapshot`/`removeSnapshot`, and the well-formed
file `render es`.
-/
import GoSnaps.Bytes
import GoSnaps.Fmt
import GoSnaps.Generated.Consts
namespace GoSnaps

def endSeq : Line := Generated.endSeq

structure Entry where
  id : Line
  body : Text
deriving Repr, DecidableEq

/-- what `fmt.Fprintf(f, "\n%s\n%s\n---\n", id, body)` appends -/
def frame (e : Entry) : Text := nl :: (e.id ++ nl :: (e.body ++ nl :: (endSeq ++ [nl])))

/-- executable form used by the driver: goes through the generated format string -/
def frameFmt (id : Line) (body : Text) : Option Text :=
  sprintf Generated.addFmt [.s id, .s body]

def render (es : List Entry) : Text := (es.map frame).flatten

def entryLines (e : Entry) : List Line := [[], e.id] ++ lines e.body ++ [endSeq]
def fileLines (es : List Entry) : List Line := (es.map entryLines).flatten

/-- inner loop of `getPrevSnapshot`: collect body lines until the terminator -/
def collect : List Line → Text → Option Text
  | [], _ => none
  | l :: ls, acc => if l = endSeq then some acc else collect ls (acc ++ l ++ [nl])

/-- `getPrevSnapshot` on the scanned lines; returns body and 1-based line number -/
def getPrevL (id : Line) : List Line → Nat → Option (Text × Nat)
  | [], _ => none
  | l :: ls, n =>
    if l = id then (collect ls []).map (fun b => (trimNL b, n))
    else getPrevL id ls (n + 1)

def getPrev (id : Line) (file : Text) : Option (Text × Nat) := getPrevL id (scan file) 1

/-- `updateSnapshot` on the scanned lines. `skipping = true` is `removeSnapshot` in progress. -/
def updateL (id : Line) (body : Text) : Bool → List Line → Text
  | _, [] => []
  | true, l :: ls => if l = endSeq then updateL id body false ls else updateL id body true ls
  | false, l :: ls =>
    l ++ nl :: (if l = id then body ++ nl :: (endSeq ++ nl :: updateL id body true ls)
                else updateL id body false ls)

def update (id : Line) (body : Text) (file : Text) : Text := updateL id body false (scan file)

end GoSnaps
