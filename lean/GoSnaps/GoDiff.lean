/-
Go run-time semantics needed by the transliteration of /repo/internal/difflib/difflib.go
(`GoSnaps.Generated.DifflibGen`, written by tools/extract/difflibgen.go), continuing GoSem.lean / GoIO.lean.

Conventions
* Go `int` is `Int`; `x / y` is `Int.tdiv` (Go truncates towards zero).
* A Go map is an association list holding each key at most once: `mapSet` replaces the value of a
  present key IN PLACE and appends a new key at the end, `mapDel` removes the key, `mapGet` returns
  the zero value of the element type (passed explicitly) for an absent key.  The ORDER of the list is
  not observable in Go; the translator only emits `for … in` over a map where the loop body has a
  shape whose result does not depend on it (see tools/extract/difflibgen.go, `rangeMap`).
* `map[K]struct{}` is a list of keys without repetitions (`setAdd`, `setHas`).
* Result type `Option`: `some r` = the Go function returns `r`.  `none` = the Go function does NOT
  return normally (run-time panic, or a loop `for i := lo; i != hi; i++` entered with `lo > hi`), OR a
  bound of the translation was hit (`noReturn` after a `for cond { … }` loop whose iteration bound was
  exhausted, fuel of a recursive closure exhausted).  Only `some` carries a claim about the Go code.
-/
import GoSnaps.GoIO
namespace GoSnaps.GoDiff

/-- `m[k]` (`zero` = the zero value of the element type) -/
def mapGet {κ ν : Type} [DecidableEq κ] : List (κ × ν) → κ → ν → ν
  | [], _, zero => zero
  | (k', v) :: r, k, zero => if k' = k then v else mapGet r k zero

/-- `m[k] = v` -/
def mapSet {κ ν : Type} [DecidableEq κ] : List (κ × ν) → κ → ν → List (κ × ν)
  | [], k, v => [(k, v)]
  | (k', v') :: r, k, v => if k' = k then (k, v) :: r else (k', v') :: mapSet r k v

/-- `delete(m, k)` -/
def mapDel {κ ν : Type} [DecidableEq κ] (m : List (κ × ν)) (k : κ) : List (κ × ν) :=
  m.filter (fun p => !decide (p.1 = k))

/-- `s[k] = struct{}{}` -/
def setAdd {κ : Type} [DecidableEq κ] (s : List κ) (k : κ) : List κ :=
  if k ∈ s then s else s ++ [k]

/-- `_, ok := s[k]` -/
def setHas {κ : Type} [DecidableEq κ] (s : List κ) (k : κ) : Bool := decide (k ∈ s)

/-- the iterations of a bounded `for cond { … }` loop -/
def fuelList (n : Nat) : List Unit := List.replicate n ()

/-- the Go function does not return normally, or a bound of the translation was hit -/
def noReturn : Option PUnit := none

end GoSnaps.GoDiff
