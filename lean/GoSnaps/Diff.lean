/-
L5: snaps/diff.go on top of internal/difflib (GoSnaps.Difflib): `splitNewlines`,
`isSingleline`, `getUnifiedDiff`, `intPadding`, `buildDiffReport`, `prettyDiff`.
The report text is modelled exactly for NO_COLOR (rows are "- ", "+ ", "  " prefixed lines).
With colours on, single-line pairs go through diffmatchpatch (`singlelineDiff`), which is a
parameter: only what go-snaps does with its verdict is modelled (`prettyDiffColour`).
-/
import GoSnaps.Bytes
import GoSnaps.Difflib
import GoSnaps.Generated.Consts
namespace GoSnaps
open Difflib

/-- `splitNewlines`: `strings.SplitAfter(s, "\n")` with "\n" appended to the last piece, i.e.
every `strings.Split` segment followed by a newline -/
def splitNewlines (s : Text) : List Text := (lines s).map (· ++ [nl])

/-- `isSingleline` -/
def isSingleline (s : Text) : Bool :=
  match indexOf s [nl] with
  | none => true
  | some i => i = s.length - 1

def sliceL (l : List Text) (i1 i2 : Nat) : List Text := (l.drop i1).take (i2 - i1)

def rowEqual (l : Text) : Text := ofString "  " ++ (if l = [nl] then Generated.go_newLineSymbol ++ [nl] else l)
def rowDelete (l : Text) : Text := ofString "- " ++ l
def rowInsert (l : Text) : Text := ofString "+ " ++ l

/-- `printRange` + `colors.FprintRange` (NO_COLOR) -/
def rangeRow (g : List OpCode) : Text :=
  match g.head?, g.getLast? with
  | some first, some last =>
    ofString "@@ -" ++ ofString (formatRangeUnified first.i1 last.i2) ++ ofString " +" ++
      ofString (formatRangeUnified first.j1 last.j2) ++ ofString " @@" ++ [nl, nl]
  | _, _ => []

structure DiffAcc where
  text : Text := []
  inserted : Nat := 0
  deleted : Nat := 0

/-- rows printed for one opcode (NO_COLOR: a Replace always falls back to both line lists) -/
def opRows (aL bL : List Text) (c : OpCode) (acc : DiffAcc) : DiffAcc :=
  if c.tag = opEqual then
    { acc with text := acc.text ++ ((sliceL aL c.i1 c.i2).map rowEqual).flatten }
  else
    let dels := if c.tag = opDelete ∨ c.tag = opReplace then sliceL aL c.i1 c.i2 else []
    let inss := if c.tag = opInsert ∨ c.tag = opReplace then sliceL bL c.j1 c.j2 else []
    { text := acc.text ++ (dels.map rowDelete).flatten ++ (inss.map rowInsert).flatten,
      inserted := acc.inserted + inss.length,
      deleted := acc.deleted + dels.length }

/-- `getUnifiedDiff` (NO_COLOR) -/
def getUnifiedDiff (a b : Text) : DiffAcc :=
  let aL := splitNewlines a
  let bL := splitNewlines b
  let groups := getGroupedOpCodes aL bL Generated.diffContext
  groups.foldl (fun acc g =>
    let acc := if aL.length > 10 ∨ bL.length > 10 then { acc with text := acc.text ++ rangeRow g } else acc
    g.foldl (fun acc c => opRows aL bL c acc) acc) {}

def digitsOf (n : Nat) : Nat := (natToText n).length

def spaces (n : Nat) : Text := List.replicate n 32

/-- `intPadding`: (iPadding, dPadding) -/
def intPadding (inserted deleted : Nat) : Text × Text :=
  let i := digitsOf inserted
  let d := digitsOf deleted
  if i = d then ([], [])
  else if i > d then ([], spaces (i - d))
  else (spaces (d - i), [])

/-- `buildDiffReport` (NO_COLOR) -/
def buildDiffReport (inserted deleted : Nat) (diff name : Text) (line : Nat) : Text :=
  if diff = [] then [] else
  let (iPad, dPad) := intPadding inserted deleted
  [nl] ++ rowDelete (ofString "Snapshot " ++ dPad ++ ofString "- " ++ natToText deleted ++ [nl]) ++
    rowInsert (ofString "Received " ++ iPad ++ ofString "+ " ++ natToText inserted ++ [nl]) ++ [nl] ++
    diff ++ [nl] ++
    (if name ≠ [] then ofString "at " ++ name ++ ofString ":" ++ natToText line ++ [nl] else [])

/-- `prettyDiff` with NO_COLOR set -/
def prettyDiff (expected received name : Text) (line : Nat) : Text :=
  if expected = received then [] else
  let d := getUnifiedDiff expected received
  buildDiffReport d.inserted d.deleted d.text name line

/-- `shouldPrintHighlights` -/
def shouldPrintHighlights (colour : Bool) (a b : Text) : Bool :=
  colour && a ≠ [] && b ≠ [] && isSingleline a && isSingleline b

/-- Is the report of `prettyDiff` non-empty?  With colours on and a single-line pair the inline
verdict belongs to diffmatchpatch: `dmpSingleEqual e r` says that
`DiffCleanupSemantic(DiffMain(e, r))` is one Equal chunk, in which case `singlelineDiff`
returns "".  Whether `prettyDiff` then falls back to the line rows of `getUnifiedDiff` (and
whether `getUnifiedDiff` itself falls back for a Replace of single lines) is read from the
source: `fallsBack` is instantiated with `Generated.prettyDiffFallsBack &&
Generated.unifiedDiffFallsBack` (both false on the originally pinned tree: known defect D3). -/
def prettyDiffNonEmpty (colour : Bool) (fallsBack : Bool) (dmpSingleEqual : Text → Text → Bool)
    (expected received : Text) : Bool :=
  if expected = received then false
  else if shouldPrintHighlights colour expected received && !fallsBack then
    !(dmpSingleEqual expected received)
  else (getUnifiedDiff expected received).text ≠ []

/-- the instance for the current source -/
def prettyDiffNonEmptyNow (colour : Bool) (dmp : Text → Text → Bool) (e r : Text) : Bool :=
  prettyDiffNonEmpty colour (Generated.prettyDiffFallsBack && Generated.unifiedDiffFallsBack) dmp e r

end GoSnaps
