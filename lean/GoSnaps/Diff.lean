/- L5 (placeholder until Difflib lands): prettyDiff emptiness only. -/
import GoSnaps.Bytes
namespace GoSnaps

def prettyDiff (expected received : Text) (_name : Text) (_line : Nat) : Text :=
  if expected = received then [] else ofString "<DIFF>"

end GoSnaps
