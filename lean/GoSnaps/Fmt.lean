/-
L0: a `fmt.Sprintf` interpreter for the fragment go-snaps uses: literals, `%%`, `%s`, `%d`,
`%v`, and Go's documented error forms for a wrong or missing operand (`%!d(string=x)`,
`%!s(int=5)`, `%!d(MISSING)`, `%!(EXTRA int=1)`, `%!_(int=1)`, `%!(NOVERB)`).  Anything else
(flags, width, precision, `%[n]`, `%*`, other valid verbs, non-ASCII verbs) is *unsupported*:
the interpreter answers `none`, never a default.
-/
import GoSnaps.Bytes
namespace GoSnaps

inductive FArg
  | s (t : Text)
  | d (n : Nat)
deriving Repr, DecidableEq

inductive Piece
  | lit (t : Text)
  | verb (c : Byte)      -- a plain `%c` with no flags
  | noverb               -- a lone `%` at the end of the format
deriving Repr, DecidableEq

def pct : Byte := 37

/-- split a format string into pieces; `none` if it uses an unsupported feature -/
def parseFmtAux : Text → Text → Option (List Piece)
  | [], acc => some (if acc = [] then [] else [.lit acc])
  | c :: cs, acc =>
    if c = pct then
      match cs with
      | [] => some ((if acc = [] then [] else [.lit acc]) ++ [.noverb])
      | v :: rest =>
        -- flags, width, precision, argument index, non-ASCII verb: unsupported
        if v = 43 || v = 45 || v = 35 || v = 32 || v = 48 || (49 ≤ v && v ≤ 57) || v = 46 || v = 91 || v = 42 || v ≥ 128 then none
        else
          match parseFmtAux rest [] with
          | none => none
          | some ps =>
            if v = pct then
              -- `%%` is a literal percent sign
              some ((if acc = [] then [] else [.lit acc]) ++ (.lit [pct]) :: ps)
            else some ((if acc = [] then [] else [.lit acc]) ++ (.verb v) :: ps)
    else parseFmtAux cs (acc ++ [c])

def parseFmt (f : Text) : Option (List Piece) := parseFmtAux f []

def argDesc : FArg → Text
  | .s t => ofString "string=" ++ t
  | .d n => ofString "int=" ++ natToText n

/-- render one verb applied to one operand; `none` = a valid Go verb this model does not cover -/
def fmtVerb (v : Byte) (a : FArg) : Option Text :=
  let bad := some (ofString "%!" ++ [v] ++ ofString "(" ++ argDesc a ++ ofString ")")
  match a with
  | .s t =>
    if v = 115 || v = 118 then some t            -- %s %v
    else if v = 113 || v = 120 || v = 88 then none  -- %q %x %X valid for strings: not modelled
    else bad
  | .d n =>
    if v = 100 || v = 118 then some (natToText n)  -- %d %v
    else if v = 98 || v = 99 || v = 111 || v = 79 || v = 113 || v = 120 || v = 88 || v = 85
          || v = 101 || v = 69 || v = 102 || v = 70 || v = 103 || v = 71 then
      -- b c o O q x X U are valid integer verbs (not modelled); e E f F g G are *invalid* for ints
      if v = 101 || v = 69 || v = 102 || v = 70 || v = 103 || v = 71 then bad else none
    else bad

def fmtPieces : List Piece → List FArg → Option Text
  | [], [] => some []
  | [], extra =>
    -- %!(EXTRA type=value, type=value)
    some (ofString "%!(EXTRA " ++
      (extra.map argDesc).foldl (fun acc d => if acc = [] then d else acc ++ ofString ", " ++ d) [] ++ ofString ")")
  | .lit t :: ps, args => (fmtPieces ps args).map (t ++ ·)
  | .noverb :: ps, args => (fmtPieces ps args).map (ofString "%!(NOVERB)" ++ ·)
  | .verb v :: ps, [] => (fmtPieces ps []).map (ofString "%!" ++ [v] ++ ofString "(MISSING)" ++ ·)
  | .verb v :: ps, a :: args =>
    match fmtVerb v a with
    | none => none
    | some t => (fmtPieces ps args).map (t ++ ·)

def sprintf (f : Text) (args : List FArg) : Option Text :=
  match parseFmt f with
  | none => none
  | some ps => fmtPieces ps args

end GoSnaps
