/-
Helper lemmas about the model of snaps/diff.go (`GoSnaps/Diff.lean`) and of the escaping
functions (`GoSnaps/Escape.lean`); used by Props/C13 and Props/C02.

Contents
  A. `ofString` computes (UTF-8 encoding of the characters), literal prefixes
  B. `lines` / `unlines` / `splitNewlines`
  C. structured view of the unified diff: `Row`, `diffRows`, `getUnifiedDiff_eq`
  D. different texts give a non-empty diff text
  E. the `-` rows come from `a`, the `+` rows from `b`
  F. residues
  G. `mapLines` algebra (escape / unescape)
  H. ESC-freeness of the report
-/
import GoSnaps.Diff
import GoSnaps.Escape
import GoSnaps.DifflibSpec
import GoSnaps.Lemmas.Difflib
import GoSnaps.Props.C13Difflib
namespace GoSnaps
open Difflib

/-! ## A. `ofString` -/

theorem ByteArray_toList_loop (bs : ByteArray) (i : Nat) (r : List UInt8) :
    ByteArray.toList.loop bs i r = r.reverse ++ bs.data.toList.drop i := by
  fun_induction ByteArray.toList.loop bs i r with
  | case1 i r h ih =>
    rw [ih]
    have hs : bs.size = bs.data.toList.length := by
      rw [Array.length_toList]; rfl
    have hi : i < bs.data.toList.length := by omega
    rw [List.drop_eq_getElem_cons hi]
    have : bs.get! i = bs.data.toList[i] := by
      show bs.data[i]! = _
      rw [getElem!_pos bs.data i (by simpa using hi)]
      simp
    simp [this]
  | case2 i r h =>
    have hs : bs.size = bs.data.toList.length := by
      rw [Array.length_toList]; rfl
    have : bs.data.toList.length ≤ i := by omega
    simp [List.drop_eq_nil_of_le this]

theorem ByteArray_toList (bs : ByteArray) : bs.toList = bs.data.toList := by
  simp [ByteArray.toList, ByteArray_toList_loop]

/-- `ofString` is the concatenation of the UTF-8 encodings of the characters -/
theorem ofString_eq (s : String) : ofString s = s.toList.flatMap String.utf8EncodeChar := by
  unfold ofString
  rw [ByteArray_toList, String.toUTF8_eq_toByteArray, ← String.utf8Encode_toList, List.utf8Encode,
    List.toList_data_toByteArray]

theorem ofString_append (s t : String) : ofString (s ++ t) = ofString s ++ ofString t := by
  simp [ofString_eq, String.toList_append]

theorem ofString_minus : ofString "- " = [45, 32] := by rw [ofString_eq]; decide
theorem ofString_plus : ofString "+ " = [43, 32] := by rw [ofString_eq]; decide
theorem ofString_blank : ofString "  " = [32, 32] := by rw [ofString_eq]; decide

theorem rowDelete_eq (l : Text) : rowDelete l = 45 :: 32 :: l := by
  simp [rowDelete, ofString_minus]
theorem rowInsert_eq (l : Text) : rowInsert l = 43 :: 32 :: l := by
  simp [rowInsert, ofString_plus]
theorem rowEqual_eq (l : Text) :
    rowEqual l = 32 :: 32 :: (if l = [nl] then Generated.go_newLineSymbol ++ [nl] else l) := by
  simp [rowEqual, ofString_blank]

/-! ## B. `lines`, `unlines`, `splitNewlines` -/

/-- `strings.Split(strings.Join(ls, "\n"), "\n") = ls` for a non-empty list of newline-free
lines -/
theorem lines_unlines (ls : List Line) (hne : ls ≠ []) (hn : ∀ l ∈ ls, NoNL l) :
    lines (unlines ls) = ls := by
  induction ls with
  | nil => exact absurd rfl hne
  | cons l ls ih =>
    cases ls with
    | nil => simpa [unlines] using lines_of_noNL l (hn l (by simp))
    | cons m ms =>
      have : unlines (l :: m :: ms) = l ++ nl :: unlines (m :: ms) := rfl
      rw [this, lines_append_nl, lines_of_noNL l (hn l (by simp)),
        ih (by simp) (fun x hx => hn x (by simp [hx]))]
      simp

theorem lines_injective {a b : Text} (h : lines a = lines b) : a = b := by
  rw [← unlines_lines a, ← unlines_lines b, h]

theorem map_append_nl_injective {xs ys : List Line}
    (h : xs.map (· ++ [nl]) = ys.map (· ++ [nl])) : xs = ys := by
  induction xs generalizing ys with
  | nil => cases ys <;> simp_all
  | cons x xs ih =>
    cases ys with
    | nil => simp at h
    | cons y ys =>
      simp only [List.map_cons, List.cons.injEq, List.append_cancel_right_eq] at h
      rw [h.1, ih h.2]

theorem splitNewlines_inj {a b : Text} (h : splitNewlines a = splitNewlines b) : a = b :=
  lines_injective (map_append_nl_injective h)

theorem mem_splitNewlines_ne_nil {a l : Text} (h : l ∈ splitNewlines a) : l ≠ [] := by
  simp only [splitNewlines, List.mem_map] at h
  obtain ⟨x, _, rfl⟩ := h
  simp

/-! ## C. structured view of the unified diff -/

/-- one printed row of the unified diff: context line, deleted line, inserted line, or the
`@@ -x,y +z,w @@` range header (carried verbatim) -/
inductive Row where
  | eq (l : Text)
  | del (l : Text)
  | ins (l : Text)
  | range (t : Text)
deriving DecidableEq, Repr

namespace Row
def render : Row → Text
  | eq l => rowEqual l
  | del l => rowDelete l
  | ins l => rowInsert l
  | range t => t
def isDel : Row → Bool
  | del _ => true
  | _ => false
def isIns : Row → Bool
  | ins _ => true
  | _ => false
def delLine? : Row → Option Text
  | del l => some l
  | _ => none
def insLine? : Row → Option Text
  | ins l => some l
  | _ => none
end Row

def renderRows (rs : List Row) : Text := (rs.map Row.render).flatten
/-- the deleted lines, in order -/
def delLines (rs : List Row) : List Text := rs.filterMap Row.delLine?
/-- the inserted lines, in order -/
def insLines (rs : List Row) : List Text := rs.filterMap Row.insLine?

theorem renderRows_append (r1 r2 : List Row) : renderRows (r1 ++ r2) = renderRows r1 ++ renderRows r2 := by
  simp [renderRows]
theorem delLines_append (r1 r2 : List Row) : delLines (r1 ++ r2) = delLines r1 ++ delLines r2 := by
  simp [delLines]
theorem insLines_append (r1 r2 : List Row) : insLines (r1 ++ r2) = insLines r1 ++ insLines r2 := by
  simp [insLines]

theorem length_delLines (rs : List Row) : (delLines rs).length = (rs.filter Row.isDel).length := by
  induction rs with
  | nil => rfl
  | cons r rs ih =>
    cases r <;> simp only [delLines, List.filterMap_cons, Row.delLine?, Row.isDel, List.filter_cons] at ih ⊢ <;>
      simp [ih]

theorem length_insLines (rs : List Row) : (insLines rs).length = (rs.filter Row.isIns).length := by
  induction rs with
  | nil => rfl
  | cons r rs ih =>
    cases r <;> simp only [insLines, List.filterMap_cons, Row.insLine?, Row.isIns, List.filter_cons] at ih ⊢ <;>
      simp [ih]

/-- lines of `a` printed with `-` for one opcode (Delete and Replace only) -/
def delSlice (aL : List Text) (c : OpCode) : List Text :=
  if c.tag = opDelete ∨ c.tag = opReplace then sliceL aL c.i1 c.i2 else []
/-- lines of `b` printed with `+` for one opcode (Insert and Replace only) -/
def insSlice (bL : List Text) (c : OpCode) : List Text :=
  if c.tag = opInsert ∨ c.tag = opReplace then sliceL bL c.j1 c.j2 else []

/-- rows printed for one opcode -/
def opRowsS (aL bL : List Text) (c : OpCode) : List Row :=
  if c.tag = opEqual then (sliceL aL c.i1 c.i2).map Row.eq
  else (delSlice aL c).map Row.del ++ (insSlice bL c).map Row.ins

/-- rows printed for one group (hunk) -/
def groupRowsS (aL bL : List Text) (g : List OpCode) : List Row :=
  (if aL.length > 10 ∨ bL.length > 10 then [Row.range (rangeRow g)] else []) ++
    g.flatMap (opRowsS aL bL)

/-- all rows of the unified diff of `a` and `b` -/
def diffRows (a b : Text) : List Row :=
  (getGroupedOpCodes (splitNewlines a) (splitNewlines b) Generated.diffContext).flatMap
    (groupRowsS (splitNewlines a) (splitNewlines b))

/-- appending rows to an accumulator: text grows by the rendering, counters by the number of
`+` / `-` rows -/
def addRows (acc : DiffAcc) (rs : List Row) : DiffAcc :=
  { text := acc.text ++ renderRows rs,
    inserted := acc.inserted + (insLines rs).length,
    deleted := acc.deleted + (delLines rs).length }

theorem addRows_nil (acc : DiffAcc) : addRows acc [] = acc := by
  cases acc; simp [addRows, renderRows, insLines, delLines]

theorem addRows_addRows (acc : DiffAcc) (r1 r2 : List Row) :
    addRows (addRows acc r1) r2 = addRows acc (r1 ++ r2) := by
  simp [addRows, renderRows_append, insLines_append, delLines_append, Nat.add_assoc]

theorem renderRows_map_eq (ls : List Text) : renderRows (ls.map Row.eq) = (ls.map rowEqual).flatten := by
  simp [renderRows, Row.render, List.map_map, Function.comp_def]
theorem renderRows_map_del (ls : List Text) : renderRows (ls.map Row.del) = (ls.map rowDelete).flatten := by
  simp [renderRows, Row.render, List.map_map, Function.comp_def]
theorem renderRows_map_ins (ls : List Text) : renderRows (ls.map Row.ins) = (ls.map rowInsert).flatten := by
  simp [renderRows, Row.render, List.map_map, Function.comp_def]

theorem delLines_map_eq (ls : List Text) : delLines (ls.map Row.eq) = [] := by
  induction ls <;> simp_all [delLines, Row.delLine?]
theorem delLines_map_del (ls : List Text) : delLines (ls.map Row.del) = ls := by
  induction ls <;> simp_all [delLines, Row.delLine?]
theorem delLines_map_ins (ls : List Text) : delLines (ls.map Row.ins) = [] := by
  induction ls <;> simp_all [delLines, Row.delLine?]
theorem insLines_map_eq (ls : List Text) : insLines (ls.map Row.eq) = [] := by
  induction ls <;> simp_all [insLines, Row.insLine?]
theorem insLines_map_del (ls : List Text) : insLines (ls.map Row.del) = [] := by
  induction ls <;> simp_all [insLines, Row.insLine?]
theorem insLines_map_ins (ls : List Text) : insLines (ls.map Row.ins) = ls := by
  induction ls <;> simp_all [insLines, Row.insLine?]

theorem delSlice_equal {aL : List Text} {c : OpCode} (h : c.tag = opEqual) : delSlice aL c = [] := by
  simp [delSlice, h]
theorem insSlice_equal {bL : List Text} {c : OpCode} (h : c.tag = opEqual) : insSlice bL c = [] := by
  simp [insSlice, h]

theorem delLines_opRowsS (aL bL : List Text) (c : OpCode) :
    delLines (opRowsS aL bL c) = delSlice aL c := by
  unfold opRowsS
  split
  · rename_i h; simp [delLines_map_eq, delSlice_equal h]
  · simp [delLines_append, delLines_map_del, delLines_map_ins]

theorem insLines_opRowsS (aL bL : List Text) (c : OpCode) :
    insLines (opRowsS aL bL c) = insSlice bL c := by
  unfold opRowsS
  split
  · rename_i h; simp [insLines_map_eq, insSlice_equal h]
  · simp [insLines_append, insLines_map_del, insLines_map_ins]

/-- one step of the inner loop of `getUnifiedDiff` appends exactly the rows `opRowsS` -/
theorem opRows_eq (aL bL : List Text) (c : OpCode) (acc : DiffAcc) :
    opRows aL bL c acc = addRows acc (opRowsS aL bL c) := by
  unfold addRows
  rw [delLines_opRowsS, insLines_opRowsS]
  unfold opRows opRowsS delSlice insSlice
  split
  · rename_i h
    simp [renderRows_map_eq, h]
  · simp [renderRows_append, renderRows_map_del, renderRows_map_ins, List.append_assoc]

theorem foldl_opRows (aL bL : List Text) (g : List OpCode) (acc : DiffAcc) :
    g.foldl (fun acc c => opRows aL bL c acc) acc = addRows acc (g.flatMap (opRowsS aL bL)) := by
  induction g generalizing acc with
  | nil => simp [addRows_nil]
  | cons c g ih => rw [List.foldl_cons, ih, opRows_eq, addRows_addRows, List.flatMap_cons]

theorem groupStep_eq (aL bL : List Text) (g : List OpCode) (acc : DiffAcc) :
    g.foldl (fun acc c => opRows aL bL c acc)
      (if aL.length > 10 ∨ bL.length > 10 then { acc with text := acc.text ++ rangeRow g } else acc)
    = addRows acc (groupRowsS aL bL g) := by
  rw [foldl_opRows]
  unfold groupRowsS
  rw [← addRows_addRows]
  congr 1
  split
  · cases acc; simp [addRows, renderRows, Row.render, insLines, delLines, Row.insLine?, Row.delLine?]
  · simp [addRows_nil]

theorem foldl_groups (aL bL : List Text) (gs : List (List OpCode)) (acc : DiffAcc) :
    gs.foldl (fun acc g =>
      let acc := if aL.length > 10 ∨ bL.length > 10 then { acc with text := acc.text ++ rangeRow g } else acc
      g.foldl (fun acc c => opRows aL bL c acc) acc) acc
    = addRows acc (gs.flatMap (groupRowsS aL bL)) := by
  induction gs generalizing acc with
  | nil => simp [addRows_nil]
  | cons g gs ih =>
    rw [List.foldl_cons, List.flatMap_cons, ← addRows_addRows, ← groupStep_eq]
    exact ih _

/-- **the executable fold is the structured row list**: text = rendering of the rows,
`inserted` = number of `+` rows, `deleted` = number of `-` rows -/
theorem getUnifiedDiff_eq (a b : Text) : getUnifiedDiff a b = addRows {} (diffRows a b) := by
  unfold getUnifiedDiff diffRows
  exact foldl_groups _ _ _ _

theorem getUnifiedDiff_text (a b : Text) : (getUnifiedDiff a b).text = renderRows (diffRows a b) := by
  rw [getUnifiedDiff_eq]; simp [addRows]
theorem getUnifiedDiff_inserted (a b : Text) :
    (getUnifiedDiff a b).inserted = (insLines (diffRows a b)).length := by
  rw [getUnifiedDiff_eq]; simp [addRows]
theorem getUnifiedDiff_deleted (a b : Text) :
    (getUnifiedDiff a b).deleted = (delLines (diffRows a b)).length := by
  rw [getUnifiedDiff_eq]; simp [addRows]

/-! ## D. different texts give a non-empty diff text -/

theorem sliceL_eq_slice (l : List Text) (i1 i2 : Nat) : sliceL l i1 i2 = slice l i1 i2 := rfl

theorem sliceL_ne_nil {l : List Text} {i1 i2 : Nat} (h1 : i1 < i2) (h2 : i2 ≤ l.length) :
    sliceL l i1 i2 ≠ [] := by
  intro h
  have := congrArg List.length h
  simp only [sliceL, List.length_take, List.length_drop, List.length_nil] at this
  omega

theorem mem_of_mem_sliceL {l : List Text} {x : Text} {i1 i2 : Nat} (h : x ∈ sliceL l i1 i2) : x ∈ l :=
  List.mem_of_mem_drop (List.mem_of_mem_take h)

theorem mem_diffRows {a b : Text} {r : Row} {g : List OpCode} {c : OpCode}
    (hg : g ∈ getGroupedOpCodes (splitNewlines a) (splitNewlines b) Generated.diffContext)
    (hc : c ∈ g) (hr : r ∈ opRowsS (splitNewlines a) (splitNewlines b) c) : r ∈ diffRows a b := by
  unfold diffRows
  rw [List.mem_flatMap]
  refine ⟨g, hg, ?_⟩
  unfold groupRowsS
  rw [List.mem_append, List.mem_flatMap]
  exact Or.inr ⟨c, hc, hr⟩

/-- a change opcode of the full opcode list prints at least one `-` or `+` row -/
theorem change_opcode_rows {aL bL : List Text} {c : OpCode} (hc : c ∈ getOpCodes aL bL)
    (ht : c.tag ≠ opEqual) :
    (∃ l, l ∈ aL ∧ Row.del l ∈ opRowsS aL bL c) ∨ (∃ l, l ∈ bL ∧ Row.ins l ∈ opRowsS aL bL c) := by
  obtain ⟨_, _, hi, hj, hcase⟩ := (opcodes_tile aL bL).2.2.2.2 c hc
  have hdel : c.tag = opDelete ∨ c.tag = opReplace → c.i1 < c.i2 →
      ∃ l, l ∈ aL ∧ Row.del l ∈ opRowsS aL bL c := by
    intro htag hlt
    obtain ⟨l, hl⟩ := List.exists_mem_of_ne_nil _ (sliceL_ne_nil hlt hi)
    refine ⟨l, mem_of_mem_sliceL hl, ?_⟩
    simp only [opRowsS, ht, ↓reduceIte, List.mem_append, List.mem_map]
    exact Or.inl ⟨l, by simpa [delSlice, htag] using hl, rfl⟩
  have hins : c.tag = opInsert ∨ c.tag = opReplace → c.j1 < c.j2 →
      ∃ l, l ∈ bL ∧ Row.ins l ∈ opRowsS aL bL c := by
    intro htag hlt
    obtain ⟨l, hl⟩ := List.exists_mem_of_ne_nil _ (sliceL_ne_nil hlt hj)
    refine ⟨l, mem_of_mem_sliceL hl, ?_⟩
    simp only [opRowsS, ht, ↓reduceIte, List.mem_append, List.mem_map]
    exact Or.inr ⟨l, by simpa [insSlice, htag] using hl, rfl⟩
  rcases hcase with ⟨h, _⟩ | ⟨h, _, h2⟩ | ⟨h, h1, _⟩ | ⟨h, h1, _⟩
  · exact absurd h ht
  · exact Or.inr (hins (Or.inl h) h2)
  · exact Or.inl (hdel (Or.inl h) h1)
  · exact Or.inl (hdel (Or.inr h) h1)

/-- different texts: the diff contains at least one `-` row (a line of `a`) or `+` row (a line
of `b`) -/
theorem diffRows_change_row {a b : Text} (h : a ≠ b) :
    (∃ l, l ∈ splitNewlines a ∧ Row.del l ∈ diffRows a b) ∨
    (∃ l, l ∈ splitNewlines b ∧ Row.ins l ∈ diffRows a b) := by
  have hne : splitNewlines a ≠ splitNewlines b := fun e => h (splitNewlines_inj e)
  have hgs := grouped_nonempty_of_ne _ _ Generated.diffContext hne
  obtain ⟨g, hg⟩ := List.exists_mem_of_ne_nil _ hgs
  obtain ⟨c, hc, ht⟩ := grouped_groups_have_change _ _ _ g hg
  have hc' := grouped_nonEqual_unchanged _ _ _ g hg c hc ht
  rcases change_opcode_rows hc' ht with ⟨l, hl, hr⟩ | ⟨l, hl, hr⟩
  · exact Or.inl ⟨l, hl, mem_diffRows hg hc hr⟩
  · exact Or.inr ⟨l, hl, mem_diffRows hg hc hr⟩

theorem renderRows_ne_nil {rs : List Row} {r : Row} (hr : r ∈ rs) (hne : r.render ≠ []) :
    renderRows rs ≠ [] := by
  intro h
  simp only [renderRows, List.flatten_eq_nil_iff, List.mem_map, forall_exists_index, and_imp,
    forall_apply_eq_imp_iff₂] at h
  exact hne (h r hr)

theorem getUnifiedDiff_text_ne_nil {a b : Text} (h : a ≠ b) : (getUnifiedDiff a b).text ≠ [] := by
  rw [getUnifiedDiff_text]
  rcases diffRows_change_row h with ⟨l, _, hr⟩ | ⟨l, _, hr⟩
  · exact renderRows_ne_nil hr (by simp [Row.render, rowDelete_eq])
  · exact renderRows_ne_nil hr (by simp [Row.render, rowInsert_eq])

theorem buildDiffReport_eq_nil_iff (i d : Nat) (diff name : Text) (line : Nat) :
    buildDiffReport i d diff name line = [] ↔ diff = [] := by
  unfold buildDiffReport
  split
  · simp [*]
  · rename_i h
    simp [h]

/-! ## E. the `-` rows come from `a`, the `+` rows from `b` -/

theorem delLines_groupRowsS (aL bL : List Text) (g : List OpCode) :
    delLines (groupRowsS aL bL g) = g.flatMap (delSlice aL) := by
  unfold groupRowsS
  rw [delLines_append]
  have h1 : delLines (if aL.length > 10 ∨ bL.length > 10 then [Row.range (rangeRow g)] else []) = [] := by
    split <;> simp [delLines, Row.delLine?]
  rw [h1, List.nil_append]
  clear h1
  induction g with
  | nil => simp [delLines]
  | cons c g ih => simp [delLines_append, delLines_opRowsS, ih]

theorem insLines_groupRowsS (aL bL : List Text) (g : List OpCode) :
    insLines (groupRowsS aL bL g) = g.flatMap (insSlice bL) := by
  unfold groupRowsS
  rw [insLines_append]
  have h1 : insLines (if aL.length > 10 ∨ bL.length > 10 then [Row.range (rangeRow g)] else []) = [] := by
    split <;> simp [insLines, Row.insLine?]
  rw [h1, List.nil_append]
  clear h1
  induction g with
  | nil => simp [insLines]
  | cons c g ih => simp [insLines_append, insLines_opRowsS, ih]

theorem delLines_flatMap_groups (aL bL : List Text) (gs : List (List OpCode)) :
    delLines (gs.flatMap (groupRowsS aL bL)) = gs.flatten.flatMap (delSlice aL) := by
  induction gs with
  | nil => simp [delLines]
  | cons g gs ih => simp [delLines_append, delLines_groupRowsS, ih]

theorem insLines_flatMap_groups (aL bL : List Text) (gs : List (List OpCode)) :
    insLines (gs.flatMap (groupRowsS aL bL)) = gs.flatten.flatMap (insSlice bL) := by
  induction gs with
  | nil => simp [insLines]
  | cons g gs ih => simp [insLines_append, insLines_groupRowsS, ih]

/-- Equal opcodes contribute no `-` row, so only the change opcodes matter -/
theorem flatMap_delSlice_changes (aL : List Text) (ops : List OpCode) :
    ops.flatMap (delSlice aL) = (changes ops).flatMap (delSlice aL) := by
  induction ops with
  | nil => simp [changes]
  | cons c ops ih =>
    by_cases h : c.tag = opEqual
    · rw [changes_cons_equal h, List.flatMap_cons, delSlice_equal h, List.nil_append, ih]
    · have : changes (c :: ops) = c :: changes ops := by simp [changes, h]
      rw [this, List.flatMap_cons, List.flatMap_cons, ih]

theorem flatMap_insSlice_changes (bL : List Text) (ops : List OpCode) :
    ops.flatMap (insSlice bL) = (changes ops).flatMap (insSlice bL) := by
  induction ops with
  | nil => simp [changes]
  | cons c ops ih =>
    by_cases h : c.tag = opEqual
    · rw [changes_cons_equal h, List.flatMap_cons, insSlice_equal h, List.nil_append, ih]
    · have : changes (c :: ops) = c :: changes ops := by simp [changes, h]
      rw [this, List.flatMap_cons, List.flatMap_cons, ih]

/-- the `-` rows of the report are exactly the `a`-sides of the Delete/Replace opcodes of the
FULL opcode list (grouping into hunks loses none and adds none) -/
theorem delLines_diffRows (a b : Text) :
    delLines (diffRows a b) =
      (getOpCodes (splitNewlines a) (splitNewlines b)).flatMap (delSlice (splitNewlines a)) := by
  unfold diffRows
  rw [delLines_flatMap_groups, flatMap_delSlice_changes, grouped_changes, ← flatMap_delSlice_changes]

theorem insLines_diffRows (a b : Text) :
    insLines (diffRows a b) =
      (getOpCodes (splitNewlines a) (splitNewlines b)).flatMap (insSlice (splitNewlines b)) := by
  unfold diffRows
  rw [insLines_flatMap_groups, flatMap_insSlice_changes, grouped_changes, ← flatMap_insSlice_changes]

theorem delSlice_sublist_aParts (aL : List Text) (ops : List OpCode) :
    (ops.flatMap (delSlice aL)).Sublist (aParts aL ops) := by
  induction ops with
  | nil => simp [aParts]
  | cons c ops ih =>
    rw [List.flatMap_cons, aParts]
    refine List.Sublist.append ?_ ih
    unfold delSlice
    split
    · exact List.Sublist.refl _
    · exact List.nil_sublist _

theorem insSlice_sublist_bParts (bL : List Text) (ops : List OpCode) :
    (ops.flatMap (insSlice bL)).Sublist (bParts bL ops) := by
  induction ops with
  | nil => simp [bParts]
  | cons c ops ih =>
    rw [List.flatMap_cons, bParts]
    refine List.Sublist.append ?_ ih
    unfold insSlice
    split
    · exact List.Sublist.refl _
    · exact List.nil_sublist _

/-! ## F. residues -/

/-- the parts of `a` lying in Equal opcodes -/
def residueA {α : Type} (a : List α) (ops : List OpCode) : List α :=
  ops.flatMap fun c => if c.tag = opEqual then slice a c.i1 c.i2 else []
/-- the parts of `b` lying in Equal opcodes -/
def residueB {α : Type} (b : List α) (ops : List OpCode) : List α :=
  ops.flatMap fun c => if c.tag = opEqual then slice b c.j1 c.j2 else []

theorem residue_eq_of_forall {α : Type} (a b : List α) (ops : List OpCode)
    (h : ∀ c ∈ ops, c.tag = opEqual → slice a c.i1 c.i2 = slice b c.j1 c.j2) :
    residueA a ops = residueB b ops := by
  induction ops with
  | nil => rfl
  | cons c ops ih =>
    simp only [residueA, residueB, List.flatMap_cons] at ih ⊢
    rw [ih (fun x hx => h x (by simp [hx]))]
    congr 1
    split
    · rename_i ht; exact h c (by simp) ht
    · rfl

theorem flatMap_eq_aParts {α : Type} (a : List α) (ops : List OpCode) (f : OpCode → List α)
    (h : ∀ c ∈ ops, f c = slice a c.i1 c.i2) : ops.flatMap f = aParts a ops := by
  induction ops with
  | nil => rfl
  | cons c ops ih =>
    rw [List.flatMap_cons, aParts, ih (fun x hx => h x (by simp [hx])), h c (by simp)]

theorem flatMap_eq_bParts {α : Type} (b : List α) (ops : List OpCode) (f : OpCode → List α)
    (h : ∀ c ∈ ops, f c = slice b c.j1 c.j2) : ops.flatMap f = bParts b ops := by
  induction ops with
  | nil => rfl
  | cons c ops ih =>
    rw [List.flatMap_cons, bParts, ih (fun x hx => h x (by simp [hx])), h c (by simp)]

/-! ## F'. positional reading of the residues -/

/-- position `p` of `a` lies in the `a`-range of some change (non-Equal) opcode -/
def covA (ops : List OpCode) (p : Nat) : Bool :=
  ops.any fun c => decide (c.tag ≠ opEqual) && (decide (c.i1 ≤ p) && decide (p < c.i2))
/-- position `p` of `b` lies in the `b`-range of some change (non-Equal) opcode -/
def covB (ops : List OpCode) (p : Nat) : Bool :=
  ops.any fun c => decide (c.tag ≠ opEqual) && (decide (c.j1 ≤ p) && decide (p < c.j2))

/-- delete from `l` (whose first element has position `p`) the elements at covered positions -/
def keepUncovered {α : Type} (cov : Nat → Bool) : List α → Nat → List α
  | [], _ => []
  | x :: xs, p => if cov p then keepUncovered cov xs (p + 1) else x :: keepUncovered cov xs (p + 1)

theorem keepUncovered_append {α : Type} (cov : Nat → Bool) (l1 l2 : List α) (p : Nat) :
    keepUncovered cov (l1 ++ l2) p = keepUncovered cov l1 p ++ keepUncovered cov l2 (p + l1.length) := by
  induction l1 generalizing p with
  | nil => simp [keepUncovered]
  | cons x xs ih =>
    simp only [List.cons_append, keepUncovered, ih, List.length_cons]
    have : p + 1 + xs.length = p + (xs.length + 1) := by omega
    rw [this]
    split <;> simp

theorem keepUncovered_all {α : Type} (cov : Nat → Bool) (l : List α) (p : Nat)
    (h : ∀ q, p ≤ q → q < p + l.length → cov q = true) : keepUncovered cov l p = [] := by
  induction l generalizing p with
  | nil => rfl
  | cons x xs ih =>
    simp only [keepUncovered, h p (Nat.le_refl _) (by simp), ↓reduceIte]
    exact ih _ (fun q h1 h2 => h q (by omega) (by simp only [List.length_cons]; omega))

theorem keepUncovered_none {α : Type} (cov : Nat → Bool) (l : List α) (p : Nat)
    (h : ∀ q, p ≤ q → q < p + l.length → cov q = false) : keepUncovered cov l p = l := by
  induction l generalizing p with
  | nil => rfl
  | cons x xs ih =>
    simp only [keepUncovered, h p (Nat.le_refl _) (by simp), Bool.false_eq_true, ↓reduceIte]
    rw [ih _ (fun q h1 h2 => h q (by omega) (by simp only [List.length_cons]; omega))]

theorem keepUncovered_congr {α : Type} (cov cov' : Nat → Bool) (l : List α) (p : Nat)
    (h : ∀ q, p ≤ q → cov q = cov' q) : keepUncovered cov l p = keepUncovered cov' l p := by
  induction l generalizing p with
  | nil => rfl
  | cons x xs ih =>
    simp only [keepUncovered, h p (Nat.le_refl _)]
    rw [ih _ (fun q hq => h q (by omega))]

theorem Tile_lower {α : Type} {a b : List α} : ∀ (ops : List OpCode) (i j : Nat), Tile a b i j ops →
    ∀ c ∈ ops, i ≤ c.i1 ∧ j ≤ c.j1 := by
  intro ops
  induction ops with
  | nil => intro i j _ c hc; simp at hc
  | cons c0 cs ih =>
    intro i j h c hc
    obtain ⟨h1, h2, h3, h4⟩ := h
    simp only [List.mem_cons] at hc
    rcases hc with rfl | hc
    · omega
    · have := ih _ _ h4 c hc
      have := h3.1
      have := h3.2.1
      omega

theorem length_slice {α : Type} {l : List α} {i1 i2 : Nat} (h1 : i1 ≤ i2) (h2 : i2 ≤ l.length) :
    (slice l i1 i2).length = i2 - i1 := by
  simp only [slice, List.length_take, List.length_drop]; omega

theorem covA_cons (c : OpCode) (cs : List OpCode) (p : Nat) :
    covA (c :: cs) p = ((decide (c.tag ≠ opEqual) && (decide (c.i1 ≤ p) && decide (p < c.i2))) || covA cs p) := by
  simp [covA]

theorem covA_false_of_lt {cs : List OpCode} {p : Nat} (h : ∀ c ∈ cs, p < c.i1) : covA cs p = false := by
  simp only [covA, List.any_eq_false, Bool.and_eq_true, decide_eq_true_eq, not_and]
  intro c hc _ h2
  have := h c hc
  omega

theorem residueA_tile {α : Type} [DecidableEq α] {a b : List α} : ∀ (ops : List OpCode) (i j : Nat), Tile a b i j ops →
    residueA a ops = keepUncovered (covA ops) (a.drop i) i := by
  intro ops
  induction ops with
  | nil =>
    intro i j h
    obtain ⟨h1, _⟩ := h
    subst h1
    simp [residueA, keepUncovered]
  | cons c cs ih =>
    intro i j h
    obtain ⟨h1, h2, h3, h4⟩ := h
    have hlow := Tile_lower cs _ _ h4
    obtain ⟨g1, g2, g3, g4, g5⟩ := h3
    subst h1
    rw [← slice_append_drop a g1, keepUncovered_append, length_slice g1 g3]
    have e : c.i1 + (c.i2 - c.i1) = c.i2 := by omega
    rw [e]
    have hrest : keepUncovered (covA (c :: cs)) (a.drop c.i2) c.i2 = residueA a cs := by
      rw [ih _ _ h4]
      apply keepUncovered_congr
      intro q hq
      rw [covA_cons]
      have : ¬ q < c.i2 := by omega
      simp [this]
    rw [hrest]
    show (if c.tag = opEqual then slice a c.i1 c.i2 else []) ++ residueA a cs = _
    congr 1
    by_cases ht : c.tag = opEqual
    · rw [if_pos ht, keepUncovered_none]
      intro q hq1 hq2
      rw [length_slice g1 g3] at hq2
      rw [covA_cons, covA_false_of_lt (fun c' hc' => by have := (hlow c' hc').1; omega)]
      simp [ht]
    · rw [if_neg ht, keepUncovered_all]
      intro q hq1 hq2
      rw [length_slice g1 g3] at hq2
      rw [covA_cons]
      have : q < c.i2 := by omega
      simp [ht, hq1, this]

theorem covB_cons (c : OpCode) (cs : List OpCode) (p : Nat) :
    covB (c :: cs) p = ((decide (c.tag ≠ opEqual) && (decide (c.j1 ≤ p) && decide (p < c.j2))) || covB cs p) := by
  simp [covB]

theorem covB_false_of_lt {cs : List OpCode} {p : Nat} (h : ∀ c ∈ cs, p < c.j1) : covB cs p = false := by
  simp only [covB, List.any_eq_false, Bool.and_eq_true, decide_eq_true_eq, not_and]
  intro c hc _ h2
  have := h c hc
  omega

theorem residueB_tile {α : Type} [DecidableEq α] {a b : List α} : ∀ (ops : List OpCode) (i j : Nat), Tile a b i j ops →
    residueB b ops = keepUncovered (covB ops) (b.drop j) j := by
  intro ops
  induction ops with
  | nil =>
    intro i j h
    obtain ⟨_, h1⟩ := h
    subst h1
    simp [residueB, keepUncovered]
  | cons c cs ih =>
    intro i j h
    obtain ⟨h1, h2, h3, h4⟩ := h
    have hlow := Tile_lower cs _ _ h4
    obtain ⟨g1, g2, g3, g4, g5⟩ := h3
    subst h2
    rw [← slice_append_drop b g2, keepUncovered_append, length_slice g2 g4]
    have e : c.j1 + (c.j2 - c.j1) = c.j2 := by omega
    rw [e]
    have hrest : keepUncovered (covB (c :: cs)) (b.drop c.j2) c.j2 = residueB b cs := by
      rw [ih _ _ h4]
      apply keepUncovered_congr
      intro q hq
      rw [covB_cons]
      have : ¬ q < c.j2 := by omega
      simp [this]
    rw [hrest]
    show (if c.tag = opEqual then slice b c.j1 c.j2 else []) ++ residueB b cs = _
    congr 1
    by_cases ht : c.tag = opEqual
    · rw [if_pos ht, keepUncovered_none]
      intro q hq1 hq2
      rw [length_slice g2 g4] at hq2
      rw [covB_cons, covB_false_of_lt (fun c' hc' => by have := (hlow c' hc').2; omega)]
      simp [ht]
    · rw [if_neg ht, keepUncovered_all]
      intro q hq1 hq2
      rw [length_slice g2 g4] at hq2
      rw [covB_cons]
      have : q < c.j2 := by omega
      simp [ht, hq1, this]

/-! ## G. `mapLines` algebra (escape / unescape) -/

/-- what `mapLines` does to one line -/
def lineMap (src dst l : Line) : Line := if l = src then dst else l

theorem mapLines_eq (src dst : Line) (s : Text) :
    mapLines src dst s = unlines ((lines s).map (lineMap src dst)) := rfl

theorem lines_mapLines (src dst : Line) (hd : NoNL dst) (s : Text) :
    lines (mapLines src dst s) = (lines s).map (lineMap src dst) := by
  rw [mapLines_eq, lines_unlines]
  · simp [lines_ne_nil]
  · intro l hl
    simp only [List.mem_map] at hl
    obtain ⟨m, hm, rfl⟩ := hl
    unfold lineMap
    split
    · exact hd
    · exact noNL_of_mem_lines s m hm

/-- composition of two line substitutions is the line-wise composition -/
theorem mapLines_mapLines (s1 d1 s2 d2 : Line) (hd : NoNL d1) (v : Text) :
    mapLines s2 d2 (mapLines s1 d1 v) =
      unlines ((lines v).map (fun l => lineMap s2 d2 (lineMap s1 d1 l))) := by
  rw [mapLines_eq s2 d2, lines_mapLines s1 d1 hd, List.map_map]
  rfl

theorem mapLines_congr (src dst : Line) (f : Line → Line) (v : Text)
    (h : ∀ l ∈ lines v, f l = lineMap src dst l) :
    unlines ((lines v).map f) = mapLines src dst v := by
  rw [mapLines_eq, List.map_congr_left h]

/-- a substitution whose source line does not occur changes nothing -/
theorem mapLines_id_of_not_mem (src dst : Line) (v : Text) (h : src ∉ lines v) :
    mapLines src dst v = v := by
  rw [mapLines_eq]
  have : (lines v).map (lineMap src dst) = lines v := by
    conv => rhs; rw [← List.map_id (lines v)]
    apply List.map_congr_left
    intro l hl
    have : l ≠ src := fun e => h (e ▸ hl)
    simp [lineMap, this]
  rw [this, unlines_lines]

/-- `mapLines` with a newline-free target is determined by, and determines, the mapped lines -/
theorem mapLines_eq_iff (src dst : Line) (hd : NoNL dst) (a b : Text) :
    mapLines src dst a = mapLines src dst b ↔
      (lines a).map (lineMap src dst) = (lines b).map (lineMap src dst) := by
  constructor
  · intro h
    rw [← lines_mapLines src dst hd a, ← lines_mapLines src dst hd b, h]
  · intro h
    rw [mapLines_eq, mapLines_eq, h]

/-! ## H. the report adds no ESC byte -/

/-- the ESC byte (start of every ANSI colour sequence) -/
local notation "esc" => (27 : Byte)

theorem esc_not_in_digit {c : Char} (h : c.isDigit = true) : esc ∉ String.utf8EncodeChar c := by
  have hv : 48 ≤ c.val.toNat ∧ c.val.toNat ≤ 57 := by
    simp only [Char.isDigit, Bool.and_eq_true, decide_eq_true_eq, ge_iff_le, UInt32.le_iff_toNat_le] at h
    exact h
  have h1 : c.utf8Size = 1 := Char.utf8Size_eq_one_iff.2 (by
    rw [UInt32.le_iff_toNat_le]; show c.val.toNat ≤ 127; omega)
  rw [String.utf8EncodeChar_eq_singleton h1]
  simp only [List.mem_singleton]
  intro e
  have := congrArg UInt8.toNat e
  rw [UInt32.toNat_toUInt8] at this
  have h27 : (27 : UInt8).toNat = 27 := rfl
  omega

theorem esc_not_in_ofString {s : String} (h : ∀ c ∈ s.toList, esc ∉ String.utf8EncodeChar c) :
    esc ∉ ofString s := by
  rw [ofString_eq, List.mem_flatMap]
  rintro ⟨c, hc, he⟩
  exact h c hc he

theorem esc_not_in_ofString_nat (n : Nat) : esc ∉ ofString (toString n) := by
  apply esc_not_in_ofString
  intro c hc
  rw [Nat.toString_eq_repr, Nat.toList_repr] at hc
  exact esc_not_in_digit (Nat.isDigit_of_mem_toDigits (by decide) (by decide) hc)

theorem esc_not_in_lit_dash : esc ∉ ofString "-" := by rw [ofString_eq]; decide
theorem esc_not_in_lit_comma : esc ∉ ofString "," := by rw [ofString_eq]; decide
theorem esc_not_in_lit_hunk1 : esc ∉ ofString "@@ -" := by rw [ofString_eq]; decide
theorem esc_not_in_lit_hunk2 : esc ∉ ofString " +" := by rw [ofString_eq]; decide
theorem esc_not_in_lit_hunk3 : esc ∉ ofString " @@" := by rw [ofString_eq]; decide
theorem esc_not_in_lit_snapshot : esc ∉ ofString "Snapshot " := by rw [ofString_eq]; decide
theorem esc_not_in_lit_received : esc ∉ ofString "Received " := by rw [ofString_eq]; decide
theorem esc_not_in_lit_at : esc ∉ ofString "at " := by rw [ofString_eq]; decide
theorem esc_not_in_lit_colon : esc ∉ ofString ":" := by rw [ofString_eq]; decide

theorem esc_not_in_ofString_int (i : Int) : esc ∉ ofString (toString i) := by
  show esc ∉ ofString (Int.repr i)
  cases i with
  | ofNat m => exact esc_not_in_ofString_nat m
  | negSucc m =>
    rw [Int.repr, ofString_append, List.mem_append, not_or]
    exact ⟨esc_not_in_lit_dash, esc_not_in_ofString_nat _⟩

/-- the `x,y` part of a hunk header is ESC-free -/
theorem esc_not_in_formatRangeUnified (s e : Nat) : esc ∉ ofString (formatRangeUnified s e) := by
  simp only [formatRangeUnified]
  split
  · exact esc_not_in_ofString_nat _
  · rw [ofString_append, ofString_append, List.mem_append, List.mem_append, not_or, not_or]
    exact ⟨⟨esc_not_in_ofString_nat _, esc_not_in_lit_comma⟩, esc_not_in_ofString_int _⟩

theorem natToTextAux_noEsc (fuel n : Nat) (acc : Text) (h : esc ∉ acc) :
    esc ∉ natToTextAux fuel n acc := by
  induction fuel generalizing n acc with
  | zero => simpa [natToTextAux] using h
  | succ f ih =>
    have hd : esc ∉ UInt8.ofNat (48 + n % 10) :: acc := by
      simp only [List.mem_cons, not_or]
      refine ⟨?_, h⟩
      intro e
      have := congrArg UInt8.toNat e
      simp at this
      omega
    simp only [natToTextAux]
    split
    · exact hd
    · exact ih _ _ hd

theorem esc_not_in_natToText (n : Nat) : esc ∉ natToText n :=
  natToTextAux_noEsc _ _ _ (by simp)

theorem esc_not_in_spaces (n : Nat) : esc ∉ spaces n := by
  simp [spaces, List.mem_replicate]

theorem esc_not_in_intPadding (i d : Nat) : esc ∉ (intPadding i d).1 ∧ esc ∉ (intPadding i d).2 := by
  unfold intPadding
  simp only
  split
  · simp
  · split
    · exact ⟨by simp, esc_not_in_spaces _⟩
    · exact ⟨esc_not_in_spaces _, by simp⟩

theorem esc_not_in_rangeRow (g : List OpCode) : esc ∉ rangeRow g := by
  unfold rangeRow
  split
  · simp only [List.mem_append, not_or]
    exact ⟨⟨⟨⟨⟨esc_not_in_lit_hunk1, esc_not_in_formatRangeUnified _ _⟩, esc_not_in_lit_hunk2⟩,
      esc_not_in_formatRangeUnified _ _⟩, esc_not_in_lit_hunk3⟩, by decide⟩
  · simp

/-- a byte other than "\n" that occurs in a line of `s` occurs in `s` -/
theorem mem_of_mem_splitNewlines {s l : Text} {c : Byte} (hl : l ∈ splitNewlines s) (hc : c ∈ l)
    (hne : c ≠ nl) : c ∈ s := by
  have h1 : c ∈ (lines s).flatMap (· ++ [nl]) := by
    rw [List.mem_flatMap]
    simp only [splitNewlines, List.mem_map] at hl
    obtain ⟨x, hx, rfl⟩ := hl
    exact ⟨x, hx, hc⟩
  rw [flatMap_lines, List.mem_append, List.mem_singleton] at h1
  rcases h1 with h | h
  · exact h
  · exact absurd h hne

theorem esc_of_rowEqual {l : Text} (h : esc ∈ rowEqual l) : esc ∈ l := by
  rw [rowEqual_eq] at h
  split at h
  · exact absurd h (by decide)
  · simpa using h

theorem esc_of_rowDelete {l : Text} (h : esc ∈ rowDelete l) : esc ∈ l := by
  rw [rowDelete_eq] at h; simpa using h

theorem esc_of_rowInsert {l : Text} (h : esc ∈ rowInsert l) : esc ∈ l := by
  rw [rowInsert_eq] at h; simpa using h

/-- every row of the structured diff is a line of `a`, a line of `b`, or a hunk header -/
theorem mem_diffRows_cases {a b : Text} {r : Row} (h : r ∈ diffRows a b) :
    (∃ l, l ∈ splitNewlines a ∧ (r = .eq l ∨ r = .del l)) ∨
    (∃ l, l ∈ splitNewlines b ∧ r = .ins l) ∨ (∃ g, r = .range (rangeRow g)) := by
  unfold diffRows at h
  rw [List.mem_flatMap] at h
  obtain ⟨g, _, hr⟩ := h
  unfold groupRowsS at hr
  rw [List.mem_append] at hr
  rcases hr with hr | hr
  · split at hr
    · exact Or.inr (Or.inr ⟨g, by simpa using hr⟩)
    · simp at hr
  · rw [List.mem_flatMap] at hr
    obtain ⟨c, _, hr⟩ := hr
    unfold opRowsS at hr
    split at hr
    · rw [List.mem_map] at hr
      obtain ⟨l, hl, rfl⟩ := hr
      exact Or.inl ⟨l, mem_of_mem_sliceL hl, Or.inl rfl⟩
    · rw [List.mem_append, List.mem_map, List.mem_map] at hr
      rcases hr with ⟨l, hl, rfl⟩ | ⟨l, hl, rfl⟩
      · refine Or.inl ⟨l, ?_, Or.inr rfl⟩
        unfold delSlice at hl
        split at hl
        · exact mem_of_mem_sliceL hl
        · simp at hl
      · refine Or.inr (Or.inl ⟨l, ?_, rfl⟩)
        unfold insSlice at hl
        split at hl
        · exact mem_of_mem_sliceL hl
        · simp at hl

theorem esc_of_diff_text {a b : Text} (h : esc ∈ (getUnifiedDiff a b).text) : esc ∈ a ∨ esc ∈ b := by
  rw [getUnifiedDiff_text] at h
  simp only [renderRows, List.mem_flatten, List.mem_map] at h
  obtain ⟨t, ⟨r, hr, rfl⟩, ht⟩ := h
  have hnl : esc ≠ nl := by decide
  rcases mem_diffRows_cases hr with ⟨l, hl, rfl | rfl⟩ | ⟨l, hl, rfl⟩ | ⟨g, rfl⟩
  · exact Or.inl (mem_of_mem_splitNewlines hl (esc_of_rowEqual ht) hnl)
  · exact Or.inl (mem_of_mem_splitNewlines hl (esc_of_rowDelete ht) hnl)
  · exact Or.inr (mem_of_mem_splitNewlines hl (esc_of_rowInsert ht) hnl)
  · exact absurd ht (esc_not_in_rangeRow g)

theorem esc_of_buildDiffReport {i d : Nat} {diff name : Text} {line : Nat}
    (h : esc ∈ buildDiffReport i d diff name line) : esc ∈ diff ∨ esc ∈ name := by
  unfold buildDiffReport at h
  split at h
  · simp at h
  · obtain ⟨hp1, hp2⟩ := esc_not_in_intPadding i d
    generalize intPadding i d = p at h hp1 hp2
    obtain ⟨iPad, dPad⟩ := p
    have k1 := esc_not_in_lit_snapshot
    have k2 := esc_not_in_lit_received
    have k3 := esc_not_in_lit_at
    have k4 := esc_not_in_lit_colon
    have k5 := esc_not_in_natToText d
    have k6 := esc_not_in_natToText i
    have k7 := esc_not_in_natToText line
    have k8 : esc ≠ nl := by decide
    have k9 : esc ∉ ofString "- " := by rw [ofString_minus]; decide
    have k10 : esc ∉ ofString "+ " := by rw [ofString_plus]; decide
    simp only at hp1 hp2
    by_cases hn : name = []
    · simp only [rowDelete, rowInsert, hn, List.mem_append, List.mem_singleton, ne_eq,
        not_true_eq_false, ↓reduceIte, List.not_mem_nil, or_false] at h
      simp_all
    · simp only [rowDelete, rowInsert, hn, List.mem_append, List.mem_singleton, ne_eq,
        not_false_eq_true, ↓reduceIte] at h
      simp_all

end GoSnaps
