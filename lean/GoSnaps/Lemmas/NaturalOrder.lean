/-
The natural order of `maruel/natural.Less` (model: `GoSnaps.naturalLess`, `Natural.lean`) is a strict
total order on texts whose digit runs are CANONICAL numerals (no leading zero unless the run is a single
`0`, at most 19 digits so that `strconv.ParseUint(_, 10, 64)` cannot overflow).

Method: a text is cut into tokens — a byte that is not a digit, or a maximal run of digits (`toks`) —, a
token is mapped to its key (`Tok.byte c` / `Tok.num value`), tokens are ordered by `tokLt` (numbers by
value; a number stands where the digits `0`…`9` stand among the bytes) and `naturalLess a b` is shown to
be the lexicographic order `lexLt` of the key lists (`naturalLess_eq_lexLt`).  A lexicographic order over a
strict total order is a strict total order; `key` is injective on canonical texts (`key_inj`).

Off the canonical texts the statement is false (`C10.natLt_not_total`: `Test01 - 1` / `Test1 - 1`).
Core Lean only.
-/
import GoSnaps.Natural
namespace GoSnaps
namespace NatOrd

/-! ## bytes and digits -/

theorem isDigit_iff (c : Byte) : isDigit c = true ↔ 48 ≤ c.toNat ∧ c.toNat ≤ 57 := by
  simp [isDigit, UInt8.le_iff_toNat_le]

theorem isDigit_false_iff (c : Byte) : isDigit c = false ↔ c.toNat < 48 ∨ 57 < c.toNat := by
  have := isDigit_iff c
  cases h : isDigit c
  · simp only [true_iff]
    rw [h] at this
    have h2 : ¬ (48 ≤ c.toNat ∧ c.toNat ≤ 57) := fun hh => by simpa using this.mpr hh
    omega
  · simp only [Bool.true_eq_false, false_iff]
    have := this.mp h
    omega

theorem byte_lt_iff (x y : Byte) : (x < y) ↔ x.toNat < y.toNat := UInt8.lt_iff_toNat_lt

theorem byte_eq_of_toNat {x y : Byte} (h : x.toNat = y.toNat) : x = y := UInt8.toNat_inj.mp h

/-! ## tokens -/

theorem length_dropWhile_le (p : Byte → Bool) (l : Text) : (l.dropWhile p).length ≤ l.length := by
  induction l with
  | nil => simp
  | cons x xs ih =>
    simp only [List.dropWhile_cons]
    split
    · simp only [List.length_cons]; omega
    · simp

/-- a text cut into bytes that are no digits (`inl`) and maximal runs of digits (`inr`) -/
def toks : Text → List (Sum Byte Text)
  | [] => []
  | c :: cs =>
    if isDigit c then .inr (c :: cs.takeWhile isDigit) :: toks (cs.dropWhile isDigit)
    else .inl c :: toks cs
termination_by s => s.length
decreasing_by
  · have := length_dropWhile_le isDigit cs
    simp only [List.length_cons]; omega
  · simp

theorem toks_nil : toks [] = [] := by rw [toks]

theorem toks_digit {c : Byte} (cs : Text) (h : isDigit c = true) :
    toks (c :: cs) = .inr (c :: cs.takeWhile isDigit) :: toks (cs.dropWhile isDigit) := by
  rw [toks]; simp [h]

theorem toks_byte {c : Byte} (cs : Text) (h : isDigit c = false) :
    toks (c :: cs) = .inl c :: toks cs := by
  rw [toks]; simp [h]

theorem toks_eq_nil {s : Text} : toks s = [] ↔ s = [] := by
  cases s with
  | nil => simp [toks_nil]
  | cons c cs =>
    cases h : isDigit c
    · simp [toks_byte cs h]
    · simp [toks_digit cs h]

/-- the value of a run of digits, as `strconv.ParseUint` computes it (no overflow check) -/
def val (ds : Text) : Nat := ds.foldl (fun acc c => acc * 10 + (c.toNat - 48)) 0

inductive Tok where
  | byte (c : Byte)
  | num (n : Nat)
  deriving DecidableEq

def tokOf : Sum Byte Text → Tok
  | .inl c => .byte c
  | .inr ds => .num (val ds)

def key (s : Text) : List Tok := (toks s).map tokOf

/-- numbers by value, bytes by value, a number where the digits stand among the bytes -/
def tokLt : Tok → Tok → Bool
  | .byte a, .byte b => decide (a.toNat < b.toNat)
  | .num a, .num b => decide (a < b)
  | .num _, .byte c => decide (57 < c.toNat)
  | .byte c, .num _ => decide (c.toNat < 48)

def lexLt : List Tok → List Tok → Bool
  | [], [] => false
  | [], _ :: _ => true
  | _ :: _, [] => false
  | x :: xs, y :: ys => if tokLt x y then true else if tokLt y x then false else lexLt xs ys

/-- the tokens a text can produce: bytes that are no digits, and numbers -/
def TokOK : Tok → Prop
  | .byte c => isDigit c = false
  | .num _ => True

theorem tokLt_irrefl (x : Tok) : tokLt x x = false := by
  cases x <;> simp [tokLt]

theorem tokLt_trans {x y z : Tok} (hx : TokOK x) (hy : TokOK y) (hz : TokOK z)
    (h1 : tokLt x y = true) (h2 : tokLt y z = true) : tokLt x z = true := by
  cases x <;> cases y <;> cases z <;> simp only [tokLt, decide_eq_true_eq, TokOK] at * <;>
    first
    | omega
    | (rename_i c _ _; have := (isDigit_false_iff _).mp ‹_›; omega)
    | skip
  all_goals
    first
    | omega
    | (have h3 := (isDigit_false_iff _).mp hx; omega)
    | (have h3 := (isDigit_false_iff _).mp hy; omega)
    | (have h3 := (isDigit_false_iff _).mp hz; omega)

theorem tokLt_total {x y : Tok} (hx : TokOK x) (hy : TokOK y)
    (h1 : tokLt x y = false) (h2 : tokLt y x = false) : x = y := by
  cases x <;> cases y <;> simp only [tokLt, decide_eq_false_iff_not, TokOK] at *
  · rename_i a b
    have : a.toNat = b.toNat := by omega
    rw [byte_eq_of_toNat this]
  · have h3 := (isDigit_false_iff _).mp hx; omega
  · have h3 := (isDigit_false_iff _).mp hy; omega
  · rename_i a b
    have : a = b := by omega
    rw [this]

/-! ## the lexicographic order of token lists is a strict total order -/

def AllOK (l : List Tok) : Prop := ∀ t ∈ l, TokOK t

theorem lexLt_irrefl (l : List Tok) : lexLt l l = false := by
  induction l with
  | nil => simp [lexLt]
  | cons x xs ih => simp [lexLt, tokLt_irrefl, ih]

theorem lexLt_trans : ∀ {a b c : List Tok}, AllOK a → AllOK b → AllOK c →
    lexLt a b = true → lexLt b c = true → lexLt a c = true
  | [], [], _, _, _, _, h1, _ => by simp [lexLt] at h1
  | [], _ :: _, [], _, _, _, _, h2 => by simp [lexLt] at h2
  | [], _ :: _, _ :: _, _, _, _, _, _ => by simp [lexLt]
  | _ :: _, [], _, _, _, _, h1, _ => by simp [lexLt] at h1
  | _ :: _, _ :: _, [], _, _, _, _, h2 => by simp [lexLt] at h2
  | x :: xs, y :: ys, z :: zs, ha, hb, hc, h1, h2 => by
    have hx : TokOK x := ha x (by simp)
    have hy : TokOK y := hb y (by simp)
    have hz : TokOK z := hc z (by simp)
    have ha' : AllOK xs := fun t ht => ha t (by simp [ht])
    have hb' : AllOK ys := fun t ht => hb t (by simp [ht])
    have hc' : AllOK zs := fun t ht => hc t (by simp [ht])
    simp only [lexLt] at h1 h2 ⊢
    cases hxy : tokLt x y
    · rw [hxy] at h1
      cases hyx : tokLt y x
      · rw [hyx] at h1
        have exy : x = y := tokLt_total hx hy hxy hyx
        subst exy
        simp only [Bool.false_eq_true, if_false] at h1
        cases hyz : tokLt x z
        · rw [hyz] at h2
          cases hzy : tokLt z x
          · rw [hzy] at h2
            simp only [Bool.false_eq_true, if_false] at h2 ⊢
            exact lexLt_trans ha' hb' hc' h1 h2
          · rw [hzy] at h2; simp at h2
        · simp
      · rw [hyx] at h1; simp at h1
    · cases hyz : tokLt y z
      · rw [hyz] at h2
        cases hzy : tokLt z y
        · rw [hzy] at h2
          have eyz : y = z := tokLt_total hy hz hyz hzy
          subst eyz
          simp [hxy]
        · rw [hzy] at h2; simp at h2
      · have := tokLt_trans hx hy hz hxy hyz
        simp [this]

theorem lexLt_total : ∀ {a b : List Tok}, AllOK a → AllOK b → a ≠ b →
    lexLt a b = true ∨ lexLt b a = true
  | [], [], _, _, h => absurd rfl h
  | [], _ :: _, _, _, _ => by simp [lexLt]
  | _ :: _, [], _, _, _ => by simp [lexLt]
  | x :: xs, y :: ys, ha, hb, h => by
    have hx : TokOK x := ha x (by simp)
    have hy : TokOK y := hb y (by simp)
    have ha' : AllOK xs := fun t ht => ha t (by simp [ht])
    have hb' : AllOK ys := fun t ht => hb t (by simp [ht])
    simp only [lexLt]
    cases hxy : tokLt x y
    · cases hyx : tokLt y x
      · have exy : x = y := tokLt_total hx hy hxy hyx
        subst exy
        have : xs ≠ ys := fun e => h (by rw [e])
        simpa using lexLt_total ha' hb' this
      · simp
    · simp

theorem lexLt_asymm {a b : List Tok} (ha : AllOK a) (hb : AllOK b) (h : lexLt a b = true) :
    lexLt b a = false := by
  cases h2 : lexLt b a
  · rfl
  · have := lexLt_trans ha hb ha h h2
    rw [lexLt_irrefl] at this; cases this

theorem key_allOK (s : Text) : AllOK (key s) := by
  generalize hn : s.length = n
  induction n using Nat.strongRecOn generalizing s with
  | _ n ih =>
    cases s with
    | nil => intro t ht; simp [key, toks_nil] at ht
    | cons c cs =>
      cases h : isDigit c
      · intro t ht
        simp only [key, toks_byte cs h, List.map_cons, List.mem_cons] at ht
        rcases ht with rfl | ht
        · exact h
        · exact ih cs.length (by simp at hn; omega) cs rfl t ht
      · intro t ht
        simp only [key, toks_digit cs h, List.map_cons, List.mem_cons] at ht
        rcases ht with rfl | ht
        · trivial
        · have := length_dropWhile_le isDigit cs
          exact ih (cs.dropWhile isDigit).length (by simp at hn; omega) _ rfl t ht

/-! ## runs of digits and their values -/

def valAcc (acc : Nat) (ds : Text) : Nat := ds.foldl (fun acc c => acc * 10 + (c.toNat - 48)) acc

theorem val_eq (ds : Text) : val ds = valAcc 0 ds := rfl

theorem valAcc_nil (a : Nat) : valAcc a [] = a := by
  unfold valAcc; rw [List.foldl_nil]

theorem valAcc_cons (a : Nat) (d : Byte) (ds : Text) :
    valAcc a (d :: ds) = valAcc (a * 10 + (d.toNat - 48)) ds := by
  unfold valAcc; rw [List.foldl_cons]

def AllDig (ds : Text) : Prop := ∀ c ∈ ds, isDigit c = true

theorem AllDig.tail {d : Byte} {ds : Text} (h : AllDig (d :: ds)) : AllDig ds :=
  fun c hc => h c (by simp [hc])

theorem AllDig.head {d : Byte} {ds : Text} (h : AllDig (d :: ds)) : 48 ≤ d.toNat ∧ d.toNat ≤ 57 :=
  (isDigit_iff d).mp (h d (by simp))

theorem mem_takeWhile_imp {p : Byte → Bool} : ∀ {l : Text} {x : Byte}, x ∈ l.takeWhile p → p x = true
  | [], _, h => by simp at h
  | y :: ys, x, h => by
    simp only [List.takeWhile_cons] at h
    split at h
    · simp only [List.mem_cons] at h
      rcases h with rfl | h
      · assumption
      · exact mem_takeWhile_imp h
    · simp at h

theorem allDig_run {c : Byte} (cs : Text) (h : isDigit c = true) : AllDig (c :: cs.takeWhile isDigit) := by
  intro x hx
  simp only [List.mem_cons] at hx
  rcases hx with rfl | hx
  · exact h
  · exact mem_takeWhile_imp hx

/-- runs of the same length with the same value (from any two accumulators) are equal -/
theorem valAcc_inj : ∀ (ds es : Text) (a b : Nat), ds.length = es.length → AllDig ds → AllDig es →
    valAcc a ds = valAcc b es → a = b ∧ ds = es
  | [], [], a, b, _, _, _, h => by simpa [valAcc_nil] using h
  | [], _ :: _, _, _, hl, _, _, _ => by simp at hl
  | _ :: _, [], _, _, hl, _, _, _ => by simp at hl
  | d :: ds, e :: es, a, b, hl, hd, he, h => by
    rw [valAcc_cons, valAcc_cons] at h
    have ⟨h1, h2⟩ := valAcc_inj ds es _ _ (by simpa using hl) hd.tail he.tail h
    have := hd.head
    have := he.head
    have hde : d.toNat = e.toNat := by omega
    refine ⟨by omega, ?_⟩
    rw [byte_eq_of_toNat hde, h2]

theorem valAcc_lower : ∀ (ds : Text) (a : Nat), a * 10 ^ ds.length ≤ valAcc a ds
  | [], a => by simp [valAcc_nil]
  | d :: ds, a => by
    rw [valAcc_cons]
    have h1 := valAcc_lower ds (a * 10 + (d.toNat - 48))
    have h2 : a * 10 * 10 ^ ds.length ≤ (a * 10 + (d.toNat - 48)) * 10 ^ ds.length :=
      Nat.mul_le_mul_right _ (by omega)
    have h3 : a * 10 ^ (d :: ds).length = a * 10 * 10 ^ ds.length := by
      rw [List.length_cons, Nat.pow_succ, Nat.mul_comm (10 ^ ds.length) 10, Nat.mul_assoc]
    omega

theorem valAcc_upper : ∀ (ds : Text) (a : Nat), AllDig ds → valAcc a ds + 1 ≤ (a + 1) * 10 ^ ds.length
  | [], a, _ => by simp [valAcc_nil]
  | d :: ds, a, hd => by
    rw [valAcc_cons]
    have h1 := valAcc_upper ds (a * 10 + (d.toNat - 48)) hd.tail
    have := hd.head
    have h2 : (a * 10 + (d.toNat - 48) + 1) * 10 ^ ds.length ≤ ((a + 1) * 10) * 10 ^ ds.length :=
      Nat.mul_le_mul_right _ (by omega)
    have h3 : (a + 1) * 10 ^ (d :: ds).length = (a + 1) * 10 * 10 ^ ds.length := by
      rw [List.length_cons, Nat.pow_succ, Nat.mul_comm (10 ^ ds.length) 10, Nat.mul_assoc]
    omega

/-- a canonical numeral: at most 19 digits, no leading zero unless it is the single digit `0` -/
def CanonRun : Text → Prop
  | [] => False
  | d :: rest => rest.length ≤ 18 ∧ (rest = [] ∨ d.toNat ≠ 48)

theorem val_run_upper {d : Byte} {rest : Text} (h : AllDig (d :: rest)) :
    val (d :: rest) < 10 ^ (rest.length + 1) := by
  rw [val_eq, valAcc_cons]
  have h1 := valAcc_upper rest (0 * 10 + (d.toNat - 48)) h.tail
  have := h.head
  have h2 : (0 * 10 + (d.toNat - 48) + 1) * 10 ^ rest.length ≤ 10 * 10 ^ rest.length :=
    Nat.mul_le_mul_right _ (by omega)
  have h3 : 10 ^ (rest.length + 1) = 10 * 10 ^ rest.length := by
    rw [Nat.pow_succ, Nat.mul_comm]
  omega

theorem val_run_lower {d : Byte} {rest : Text} (h : AllDig (d :: rest)) (hz : d.toNat ≠ 48) :
    10 ^ rest.length ≤ val (d :: rest) := by
  rw [val_eq, valAcc_cons]
  have h1 := valAcc_lower rest (0 * 10 + (d.toNat - 48))
  have := h.head
  have h2 : 1 * 10 ^ rest.length ≤ (0 * 10 + (d.toNat - 48)) * 10 ^ rest.length :=
    Nat.mul_le_mul_right _ (by omega)
  omega

/-- `strconv.ParseUint(run, 10, 64)` succeeds on a canonical numeral -/
theorem parse_canon {ds : Text} (hd : AllDig ds) (hc : CanonRun ds) : parseUint64 ds = some (val ds) := by
  cases ds with
  | nil => exact absurd hc (by simp [CanonRun])
  | cons d rest =>
    have h1 := val_run_upper hd
    have h2 : 10 ^ (rest.length + 1) ≤ 10 ^ 19 := Nat.pow_le_pow_right (by decide) (by have := hc.1; omega)
    have h3 : (10 : Nat) ^ 19 < 18446744073709551616 := by decide
    have : val (d :: rest) < 18446744073709551616 := by omega
    show (if val (d :: rest) < 18446744073709551616 then some (val (d :: rest)) else none) = _
    rw [if_pos this]

/-- canonical numerals with the same value are the same text -/
theorem canon_val_inj {ds es : Text} (hd : AllDig ds) (he : AllDig es) (cd : CanonRun ds) (ce : CanonRun es)
    (hv : val ds = val es) : ds = es := by
  cases ds with
  | nil => exact absurd cd (by simp [CanonRun])
  | cons d dr =>
    cases es with
    | nil => exact absurd ce (by simp [CanonRun])
    | cons e er =>
      by_cases hl : dr.length = er.length
      · exact (valAcc_inj (d :: dr) (e :: er) 0 0 (by simp [hl]) hd he hv).2
      · exfalso
        have ud := val_run_upper hd
        have ue := val_run_upper he
        by_cases hlt : dr.length < er.length
        · have hne : er ≠ [] := by intro h; rw [h] at hlt; simp at hlt
          have hz : e.toNat ≠ 48 := by
            rcases ce.2 with h | h
            · exact absurd h hne
            · exact h
          have le := val_run_lower he hz
          have : 10 ^ (dr.length + 1) ≤ 10 ^ er.length := Nat.pow_le_pow_right (by decide) (by omega)
          omega
        · have hgt : er.length < dr.length := by omega
          have hne : dr ≠ [] := by intro h; rw [h] at hgt; simp at hgt
          have hz : d.toNat ≠ 48 := by
            rcases cd.2 with h | h
            · exact absurd h hne
            · exact h
          have ld := val_run_lower hd hz
          have : 10 ^ (er.length + 1) ≤ 10 ^ dr.length := Nat.pow_le_pow_right (by decide) (by omega)
          omega

/-! ## canonical texts -/

/-- every maximal run of digits of the text is a canonical numeral -/
def Canon (s : Text) : Prop := ∀ ds, Sum.inr ds ∈ toks s → CanonRun ds

theorem Canon.tail {c : Byte} {cs : Text} (h : isDigit c = false) (hc : Canon (c :: cs)) : Canon cs := by
  intro ds hds
  exact hc ds (by rw [toks_byte cs h]; simp [hds])

theorem Canon.run {c : Byte} {cs : Text} (h : isDigit c = true) (hc : Canon (c :: cs)) :
    CanonRun (c :: cs.takeWhile isDigit) := hc _ (by rw [toks_digit cs h]; simp)

theorem Canon.rest {c : Byte} {cs : Text} (h : isDigit c = true) (hc : Canon (c :: cs)) :
    Canon (cs.dropWhile isDigit) := by
  intro ds hds
  exact hc ds (by rw [toks_digit cs h]; simp [hds])

theorem key_nil : key [] = [] := by simp [key, toks_nil]

theorem key_byte {c : Byte} (cs : Text) (h : isDigit c = false) : key (c :: cs) = .byte c :: key cs := by
  simp [key, toks_byte cs h, tokOf]

theorem key_digit {c : Byte} (cs : Text) (h : isDigit c = true) :
    key (c :: cs) = .num (val (c :: cs.takeWhile isDigit)) :: key (cs.dropWhile isDigit) := by
  simp [key, toks_digit cs h, tokOf]

theorem key_eq_nil {s : Text} : key s = [] ↔ s = [] := by
  simp [key, toks_eq_nil]

theorem lexLt_nil_left (l : List Tok) : lexLt [] l = decide (l ≠ []) := by
  cases l <;> simp [lexLt]

theorem lexLt_nil_right (l : List Tok) : lexLt l [] = false := by
  cases l <;> simp [lexLt]

theorem lexLt_cons_same (t : Tok) (xs ys : List Tok) : lexLt (t :: xs) (t :: ys) = lexLt xs ys := by
  simp [lexLt, tokLt_irrefl]

/-! ## `takeWhile` / `dropWhile` against `take` / `drop` by the length of the run -/

theorem take_len_takeWhile (p : Byte → Bool) : ∀ l : Text, l.take (l.takeWhile p).length = l.takeWhile p
  | [] => by simp
  | x :: xs => by
    simp only [List.takeWhile_cons]
    split
    · simp [take_len_takeWhile p xs]
    · simp

theorem drop_len_takeWhile (p : Byte → Bool) : ∀ l : Text, l.drop (l.takeWhile p).length = l.dropWhile p
  | [] => by simp
  | x :: xs => by
    simp only [List.takeWhile_cons, List.dropWhile_cons]
    split
    · simp [drop_len_takeWhile p xs]
    · simp

theorem takeWhile_append_dropWhile' (p : Byte → Bool) : ∀ l : Text, l.takeWhile p ++ l.dropWhile p = l
  | [] => by simp
  | x :: xs => by
    simp only [List.takeWhile_cons, List.dropWhile_cons]
    split
    · simp [takeWhile_append_dropWhile' p xs]
    · simp

theorem digitsLen_digit {x : Byte} (as : Text) (h : isDigit x = true) :
    digitsLen (x :: as) = (as.takeWhile isDigit).length + 1 := by
  simp [digitsLen, h]

theorem digitsLen_byte {x : Byte} (as : Text) (h : isDigit x = false) : digitsLen (x :: as) = 0 := by
  simp [digitsLen, h]

theorem take_digitsLen {x : Byte} (as : Text) (h : isDigit x = true) :
    (x :: as).take (digitsLen (x :: as)) = x :: as.takeWhile isDigit := by
  rw [digitsLen_digit as h, List.take_succ_cons, take_len_takeWhile]

theorem drop_digitsLen {x : Byte} (as : Text) (h : isDigit x = true) :
    (x :: as).drop (digitsLen (x :: as)) = as.dropWhile isDigit := by
  rw [digitsLen_digit as h, List.drop_succ_cons, drop_len_takeWhile]

theorem digitsLen_ne_length {x : Byte} (as : Text) (h : isDigit x = true) :
    digitsLen (x :: as) ≠ (x :: as).length ↔ as.dropWhile isDigit ≠ [] := by
  rw [digitsLen_digit as h]
  have h1 := takeWhile_append_dropWhile' isDigit as
  have h2 : as.length = (as.takeWhile isDigit).length + (as.dropWhile isDigit).length := by
    rw [← List.length_append, h1]
  simp only [List.length_cons]
  constructor
  · intro hne hnil
    rw [hnil] at h2; simp at h2; omega
  · intro hne heq
    have : (as.dropWhile isDigit).length = 0 := by omega
    exact hne (List.length_eq_zero_iff.mp this)

/-! ## Go's `<` on strings -/

theorem ltBytes_nil_left (b : Text) : ltBytes [] b = decide (b ≠ []) := by
  cases b <;> simp [ltBytes]

theorem ltBytes_nil_right (a : Text) : ltBytes a [] = false := by
  cases a <;> simp [ltBytes]

theorem ltBytes_append_left : ∀ (d a b : Text), ltBytes (d ++ a) (d ++ b) = ltBytes a b
  | [], _, _ => rfl
  | x :: d, a, b => by
    have : ¬ (x < x) := by rw [byte_lt_iff]; omega
    simp [ltBytes, this, ltBytes_append_left d a b]

theorem ltBytes_ne {x y : Byte} (as bs : Text) (h : x ≠ y) :
    ltBytes (x :: as) (y :: bs) = decide (x.toNat < y.toNat) := by
  have hne : x.toNat ≠ y.toNat := fun e => h (byte_eq_of_toNat e)
  simp only [ltBytes, byte_lt_iff]
  by_cases h1 : x.toNat < y.toNat
  · simp [h1]
  · have h2 : y.toNat < x.toNat := by omega
    simp [h1, h2]

/-! ## `natural.Less` is the lexicographic order of the keys -/

/-- one pass of the loop of `natural.Less` when the common prefix is empty and one side does not start
    with a digit: Go's `<` on what is left -/
theorem nlf_stopped_nodig (f : Nat) (a b : Text) (hp : commonPrefix a b = 0) (ha : a ≠ [])
    (hd : digitsLen a = 0 ∨ digitsLen b = 0) : naturalLessFuel (f + 1) a b = ltBytes a b := by
  simp only [naturalLessFuel, hp, List.drop_zero, if_neg ha]
  rcases hd with hd | hd <;> simp [hd]

/-- … and when both sides start with a run of digits that `ParseUint` accepts -/
theorem nlf_stopped_dig (f : Nat) (a b : Text) (hp : commonPrefix a b = 0) (ha : a ≠ [])
    (hda : digitsLen a > 0) (hdb : digitsLen b > 0) {an bn : Nat}
    (h1 : parseUint64 (a.take (digitsLen a)) = some an) (h2 : parseUint64 (b.take (digitsLen b)) = some bn) :
    naturalLessFuel (f + 1) a b =
      if an ≠ bn then decide (an < bn)
      else if digitsLen a ≠ a.length && digitsLen b ≠ b.length then
        naturalLessFuel f (a.drop (digitsLen a)) (b.drop (digitsLen b))
      else ltBytes a b := by
  simp only [naturalLessFuel, hp, List.drop_zero, if_neg ha, h1, h2, hda, hdb, decide_true, Bool.and_self,
    if_true]

/-- a common first byte that is no digit is skipped within the same pass -/
theorem nlf_skip (f : Nat) {x : Byte} (as bs : Text) (hx : isDigit x = false) :
    naturalLessFuel (f + 1) (x :: as) (x :: bs) = naturalLessFuel (f + 1) as bs := by
  have hp : commonPrefix (x :: as) (x :: bs) = 1 + commonPrefix as bs := by
    simp [commonPrefix, hx]
  simp only [naturalLessFuel, hp, Nat.add_comm 1, List.drop_succ_cons]

theorem naturalLessFuel_eq : ∀ (f : Nat) (a b : Text), a.length < f → Canon a → Canon b →
    naturalLessFuel f a b = lexLt (key a) (key b) := by
  intro f
  induction f with
  | zero => intro a b h; omega
  | succ f ihf =>
    intro a
    induction a with
    | nil =>
      intro b _ _ _
      have : naturalLessFuel (f + 1) [] b = decide (b ≠ []) := by
        cases b <;> simp [naturalLessFuel, commonPrefix]
      rw [this, key_nil, lexLt_nil_left]
      simp [key_eq_nil]
    | cons x as iha =>
      intro b hl ca cb
      cases b with
      | nil =>
        have hp : commonPrefix (x :: as) [] = 0 := by simp [commonPrefix]
        rw [nlf_stopped_nodig f _ _ hp (by simp) (Or.inr (by simp [digitsLen])), key_nil, lexLt_nil_right,
          ltBytes_nil_right]
      | cons y bs =>
        by_cases hstop : (isDigit x || isDigit y || decide (x ≠ y)) = true
        · have hp : commonPrefix (x :: as) (y :: bs) = 0 := by
            simp only [commonPrefix]; rw [if_pos hstop]
          cases hx : isDigit x <;> cases hy : isDigit y
          · -- two different bytes, no digit
            have hne : x ≠ y := by simpa [hx, hy] using hstop
            have hnn : x.toNat ≠ y.toNat := fun e => hne (byte_eq_of_toNat e)
            rw [nlf_stopped_nodig f _ _ hp (by simp) (Or.inl (digitsLen_byte as hx)),
              key_byte as hx, key_byte bs hy, ltBytes_ne as bs hne]
            simp only [lexLt, tokLt]
            by_cases h1 : x.toNat < y.toNat
            · simp [h1]
            · have h2 : y.toNat < x.toNat := by omega
              simp [h1, h2]
          · -- a byte against a digit
            have hne : x ≠ y := by intro e; rw [e, hy] at hx; cases hx
            have dx := (isDigit_false_iff x).mp hx
            have dy := (isDigit_iff y).mp hy
            rw [nlf_stopped_nodig f _ _ hp (by simp) (Or.inl (digitsLen_byte as hx)),
              key_byte as hx, key_digit bs hy, ltBytes_ne as bs hne]
            simp only [lexLt, tokLt]
            by_cases h1 : x.toNat < 48
            · have : x.toNat < y.toNat := by omega
              simp [h1, this]
            · have h2 : 57 < x.toNat := by omega
              have : ¬ x.toNat < y.toNat := by omega
              simp [h1, h2, this]
          · -- a digit against a byte
            have hne : x ≠ y := by intro e; rw [e, hy] at hx; cases hx
            have dx := (isDigit_iff x).mp hx
            have dy := (isDigit_false_iff y).mp hy
            rw [nlf_stopped_nodig f _ _ hp (by simp) (Or.inr (digitsLen_byte bs hy)),
              key_digit as hx, key_byte bs hy, ltBytes_ne as bs hne]
            simp only [lexLt, tokLt]
            by_cases h1 : 57 < y.toNat
            · have : x.toNat < y.toNat := by omega
              simp [h1, this]
            · have h2 : y.toNat < 48 := by omega
              have : ¬ x.toNat < y.toNat := by omega
              simp [h1, h2, this]
          · -- two runs of digits
            have ra := ca.run hx
            have rb := cb.run hy
            have da := allDig_run as hx
            have db := allDig_run bs hy
            have p1 : parseUint64 ((x :: as).take (digitsLen (x :: as))) = some (val (x :: as.takeWhile isDigit)) := by
              rw [take_digitsLen as hx, parse_canon da ra]
            have p2 : parseUint64 ((y :: bs).take (digitsLen (y :: bs))) = some (val (y :: bs.takeWhile isDigit)) := by
              rw [take_digitsLen bs hy, parse_canon db rb]
            rw [nlf_stopped_dig f _ _ hp (by simp) (by rw [digitsLen_digit as hx]; omega)
              (by rw [digitsLen_digit bs hy]; omega) p1 p2,
              drop_digitsLen as hx, drop_digitsLen bs hy, key_digit as hx, key_digit bs hy]
            by_cases hv : val (x :: as.takeWhile isDigit) = val (y :: bs.takeWhile isDigit)
            · have hrun := canon_val_inj da db ra rb hv
              rw [if_neg (by simpa using hv), hv, lexLt_cons_same]
              by_cases hboth : as.dropWhile isDigit ≠ [] ∧ bs.dropWhile isDigit ≠ []
              · have g2 : (decide (digitsLen (x :: as) ≠ (x :: as).length) &&
                    decide (digitsLen (y :: bs) ≠ (y :: bs).length)) = true := by
                  simp only [Bool.and_eq_true, decide_eq_true_eq]
                  exact ⟨(digitsLen_ne_length as hx).mpr hboth.1, (digitsLen_ne_length bs hy).mpr hboth.2⟩
                rw [if_pos g2]
                have hlen := length_dropWhile_le isDigit as
                exact ihf _ _ (by simp at hl; omega) (ca.rest hx) (cb.rest hy)
              · have g2 : ¬ ((decide (digitsLen (x :: as) ≠ (x :: as).length) &&
                    decide (digitsLen (y :: bs) ≠ (y :: bs).length)) = true) := by
                  simp only [Bool.and_eq_true, decide_eq_true_eq]
                  intro h
                  exact hboth ⟨(digitsLen_ne_length as hx).mp h.1, (digitsLen_ne_length bs hy).mp h.2⟩
                rw [if_neg g2]
                have e1 : x :: as = (x :: as.takeWhile isDigit) ++ as.dropWhile isDigit := by
                  simp
                have e2 : y :: bs = (x :: as.takeWhile isDigit) ++ bs.dropWhile isDigit := by
                  rw [hrun]; simp
                rw [e1, e2, ltBytes_append_left]
                by_cases hA : as.dropWhile isDigit = []
                · rw [hA, key_nil, ltBytes_nil_left, lexLt_nil_left]
                  simp [key_eq_nil]
                · have hB : bs.dropWhile isDigit = [] := by
                    apply Classical.byContradiction
                    intro hB; exact hboth ⟨hA, hB⟩
                  rw [hB, key_nil, ltBytes_nil_right, lexLt_nil_right]
            · rw [if_pos (by simpa using hv)]
              simp only [lexLt, tokLt]
              by_cases h1 : val (x :: as.takeWhile isDigit) < val (y :: bs.takeWhile isDigit)
              · simp [h1]
              · have h2 : val (y :: bs.takeWhile isDigit) < val (x :: as.takeWhile isDigit) := by omega
                simp [h1, h2]
        · -- the same byte, no digit, on both sides
          have hx : isDigit x = false := by
            cases h : isDigit x
            · rfl
            · exact absurd (by simp [h]) hstop
          have hxy : x = y := by
            apply Classical.byContradiction
            intro hne; exact hstop (by simp [hne])
          subst hxy
          rw [nlf_skip f as bs hx, key_byte as hx, key_byte bs hx, lexLt_cons_same]
          exact iha bs (by simp at hl; omega) (ca.tail hx) (cb.tail hx)

theorem naturalLess_eq_lexLt {a b : Text} (ca : Canon a) (cb : Canon b) :
    naturalLess a b = lexLt (key a) (key b) :=
  naturalLessFuel_eq _ a b (by omega) ca cb

/-! ## the key determines a canonical text -/

theorem key_inj : ∀ (n : Nat) (a b : Text), a.length ≤ n → Canon a → Canon b → key a = key b → a = b := by
  intro n
  induction n with
  | zero =>
    intro a b hl _ _ hk
    have ha : a = [] := List.length_eq_zero_iff.mp (by omega)
    subst ha
    rw [key_nil] at hk
    exact (key_eq_nil.mp hk.symm).symm
  | succ n ih =>
    intro a b hl ca cb hk
    cases a with
    | nil => rw [key_nil] at hk; exact (key_eq_nil.mp hk.symm).symm
    | cons x as =>
      cases b with
      | nil => rw [key_nil] at hk; exact key_eq_nil.mp hk
      | cons y bs =>
        cases hx : isDigit x <;> cases hy : isDigit y
        · rw [key_byte as hx, key_byte bs hy] at hk
          injection hk with h1 h2
          injection h1 with h1
          rw [h1, ih as bs (by simp at hl; omega) (ca.tail hx) (cb.tail hy) h2]
        · rw [key_byte as hx, key_digit bs hy] at hk
          injection hk with h1 _; cases h1
        · rw [key_digit as hx, key_byte bs hy] at hk
          injection hk with h1 _; cases h1
        · rw [key_digit as hx, key_digit bs hy] at hk
          injection hk with h1 h2
          injection h1 with h1
          have hrun := canon_val_inj (allDig_run as hx) (allDig_run bs hy) (ca.run hx) (cb.run hy) h1
          have hlen := length_dropWhile_le isDigit as
          have hrest := ih _ _ (by simp at hl; omega) (ca.rest hx) (cb.rest hy) h2
          have e1 : x :: as = (x :: as.takeWhile isDigit) ++ as.dropWhile isDigit := by simp
          have e2 : y :: bs = (y :: bs.takeWhile isDigit) ++ bs.dropWhile isDigit := by simp
          rw [e1, e2, hrun, hrest]

/-! ## `naturalSort(a, b) < 0` on canonical texts -/

theorem natLt_eq_lexLt {a b : Text} (ca : Canon a) (cb : Canon b) : natLt a b = lexLt (key a) (key b) := by
  unfold natLt
  by_cases h : a = b
  · subst h; simp [lexLt_irrefl]
  · simp [h, naturalLess_eq_lexLt ca cb]

theorem natLt_trans {a b c : Text} (ca : Canon a) (cb : Canon b) (cc : Canon c)
    (h1 : natLt a b = true) (h2 : natLt b c = true) : natLt a c = true := by
  rw [natLt_eq_lexLt ca cb] at h1
  rw [natLt_eq_lexLt cb cc] at h2
  rw [natLt_eq_lexLt ca cc]
  exact lexLt_trans (key_allOK a) (key_allOK b) (key_allOK c) h1 h2

theorem natLt_total {a b : Text} (ca : Canon a) (cb : Canon b) (h : a ≠ b) :
    natLt a b = true ∨ natLt b a = true := by
  rw [natLt_eq_lexLt ca cb, natLt_eq_lexLt cb ca]
  exact lexLt_total (key_allOK a) (key_allOK b) (fun e => h (key_inj _ a b (Nat.le_refl _) ca cb e))

theorem natLt_asymm {a b : Text} (ca : Canon a) (cb : Canon b) (h : natLt a b = true) : natLt b a = false := by
  rw [natLt_eq_lexLt ca cb] at h
  rw [natLt_eq_lexLt cb ca]
  exact lexLt_asymm (key_allOK a) (key_allOK b) h

/-! ## building canonical texts -/

theorem takeWhile_append_stop {p : Byte → Bool} {c : Byte} (hc : p c = false) :
    ∀ (as b : Text), (as ++ c :: b).takeWhile p = as.takeWhile p
  | [], b => by simp [hc]
  | x :: xs, b => by
    simp only [List.cons_append, List.takeWhile_cons]
    split
    · rw [takeWhile_append_stop hc xs b]
    · rfl

theorem dropWhile_append_stop {p : Byte → Bool} {c : Byte} (hc : p c = false) :
    ∀ (as b : Text), (as ++ c :: b).dropWhile p = as.dropWhile p ++ c :: b
  | [], b => by simp [hc]
  | x :: xs, b => by
    simp only [List.cons_append, List.dropWhile_cons]
    split
    · rw [dropWhile_append_stop hc xs b]
    · rfl

/-- cutting at a byte that is no digit cuts no run -/
theorem toks_append {c : Byte} (hc : isDigit c = false) (b : Text) :
    ∀ (n : Nat) (a : Text), a.length ≤ n → toks (a ++ c :: b) = toks a ++ toks (c :: b) := by
  intro n
  induction n with
  | zero =>
    intro a hl
    have : a = [] := List.length_eq_zero_iff.mp (by omega)
    subst this; simp [toks_nil]
  | succ n ih =>
    intro a hl
    cases a with
    | nil => simp [toks_nil]
    | cons x as =>
      cases hx : isDigit x
      · rw [List.cons_append, toks_byte _ hx, toks_byte _ hx, ih as (by simp at hl; omega)]; rfl
      · have hlen := length_dropWhile_le isDigit as
        rw [List.cons_append, toks_digit _ hx, toks_digit _ hx, takeWhile_append_stop hc,
          dropWhile_append_stop hc, ih _ (by simp at hl; omega)]; rfl

theorem Canon.append {a b : Text} {c : Byte} (hc : isDigit c = false) (ca : Canon a) (cb : Canon (c :: b)) :
    Canon (a ++ c :: b) := by
  intro ds hds
  rw [toks_append hc b _ a (Nat.le_refl _), List.mem_append] at hds
  rcases hds with h | h
  · exact ca ds h
  · exact cb ds h

theorem Canon.nil : Canon [] := by intro ds h; simp [toks_nil] at h

theorem Canon.cons_byte {c : Byte} {s : Text} (hc : isDigit c = false) (h : Canon s) : Canon (c :: s) := by
  intro ds hds
  rw [toks_byte s hc] at hds
  simp only [List.mem_cons, reduceCtorEq, false_or] at hds
  exact h ds hds

theorem takeWhile_allDig : ∀ {ds : Text}, AllDig ds → ds.takeWhile isDigit = ds
  | [], _ => rfl
  | d :: ds, h => by
    rw [List.takeWhile_cons, h d (by simp), if_pos rfl, takeWhile_allDig h.tail]

theorem dropWhile_allDig : ∀ {ds : Text}, AllDig ds → ds.dropWhile isDigit = []
  | [], _ => rfl
  | d :: ds, h => by
    rw [List.dropWhile_cons, h d (by simp), if_pos rfl, dropWhile_allDig h.tail]

/-- a canonical numeral is a canonical text -/
theorem Canon.ofRun {ds : Text} (hd : AllDig ds) (hc : CanonRun ds) : Canon ds := by
  cases ds with
  | nil => exact Canon.nil
  | cons d rest =>
    intro r hr
    rw [toks_digit rest (hd d (by simp)), takeWhile_allDig hd.tail, dropWhile_allDig hd.tail, toks_nil] at hr
    simp only [List.mem_cons, Sum.inr.injEq, List.not_mem_nil, or_false] at hr
    rw [hr]; exact hc

/-- a text without digits is canonical -/
theorem Canon.ofNoDigit : ∀ {s : Text}, (∀ c ∈ s, isDigit c = false) → Canon s
  | [], _ => Canon.nil
  | c :: cs, h => Canon.cons_byte (h c (by simp)) (Canon.ofNoDigit (fun x hx => h x (by simp [hx])))

/-! ## a checker for `Canon` that the kernel can run -/

def toksF : Nat → Text → List (Sum Byte Text)
  | 0, _ => []
  | _ + 1, [] => []
  | f + 1, c :: cs =>
    if isDigit c then .inr (c :: cs.takeWhile isDigit) :: toksF f (cs.dropWhile isDigit)
    else .inl c :: toksF f cs

theorem toksF_eq : ∀ (f : Nat) (s : Text), s.length ≤ f → toksF f s = toks s
  | 0, s, h => by
    have : s = [] := List.length_eq_zero_iff.mp (by omega)
    subst this; simp [toksF, toks_nil]
  | f + 1, [], _ => by simp [toksF, toks_nil]
  | f + 1, c :: cs, h => by
    have hlen := length_dropWhile_le isDigit cs
    cases hc : isDigit c
    · rw [toks_byte cs hc]; simp [toksF, hc, toksF_eq f cs (by simp at h; omega)]
    · have e := toksF_eq f (cs.dropWhile isDigit) (by simp at h; omega)
      rw [toks_digit cs hc]; simp [toksF, hc, e]

def canonRunB : Text → Bool
  | [] => false
  | d :: rest => decide (rest.length ≤ 18) && (rest.isEmpty || d.toNat != 48)

theorem canonRunB_sound {ds : Text} (h : canonRunB ds = true) : CanonRun ds := by
  cases ds with
  | nil => simp [canonRunB] at h
  | cons d rest =>
    simp only [canonRunB, Bool.and_eq_true, decide_eq_true_eq, Bool.or_eq_true, List.isEmpty_iff,
      bne_iff_ne, ne_eq] at h
    exact ⟨h.1, h.2⟩

def canonB (s : Text) : Bool :=
  (toksF s.length s).all fun
    | .inl _ => true
    | .inr ds => canonRunB ds

theorem canonB_sound {s : Text} (h : canonB s = true) : Canon s := by
  intro ds hds
  rw [← toksF_eq s.length s (Nat.le_refl _)] at hds
  have := List.all_eq_true.mp h _ hds
  exact canonRunB_sound this

end NatOrd
end GoSnaps
