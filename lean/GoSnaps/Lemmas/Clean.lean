/- Helper lemmas about `Clean` (used by Props/C07, C09, C10). -/
import GoSnaps.Clean
import GoSnaps.Lemmas.Format
namespace GoSnaps

deriving instance DecidableEq for SnapsOutcome
deriving instance DecidableEq for ScanState
deriving instance DecidableEq for FilesResult

/-! ## `getTestID` -/

/-- the id `getTestID` extracts from a header line (when it extracts one) -/
def tidOf (e : Entry) : Text := (e.id.drop 1).take (e.id.length - 2)

/-- the header of `e` is recognised by `getTestID` -/
def Recognised (e : Entry) : Prop := getTestID e.id = some (tidOf e)

instance (e : Entry) : Decidable (Recognised e) := by unfold Recognised; infer_instance

theorem getTestID_some {b t : Text} (h : getTestID b = some t) :
    b = 91 :: t ++ [93] ∧ getTestIDPanics b = false := by
  unfold getTestID at h
  split at h
  · cases h
  · split at h
    · cases h
    · rename_i hne hc
      simp only [Bool.or_eq_true, Bool.not_eq_true', decide_eq_true_eq, not_or,
        Bool.not_eq_false, Decidable.not_not] at hc
      obtain ⟨hpre, hlast⟩ := hc
      split at h
      · cases h
      · rename_i sep hsep
        simp only at h
        split at h
        · cases h
        · rename_i hlo
          split at h
          · cases h
          · simp only [Option.some.injEq] at h
            -- only the first byte of the prefix matters here (`[`), whatever follows it
            obtain ⟨r, hp⟩ : ∃ r, Generated.headerPrefix = 91 :: r := ⟨_, rfl⟩
            obtain ⟨ys, hys⟩ := List.getLast?_eq_some_iff.mp hlast
            refine ⟨?_, ?_⟩
            · subst hys
              cases ys with
              | nil =>
                cases r <;> simp [hasPrefix, hp] at hpre
              | cons y ys' =>
                simp only [hasPrefix, hp, List.cons_append, List.isPrefixOf_cons_cons,
                  Bool.and_eq_true, beq_iff_eq] at hpre
                subst h
                simp [← hpre.1]
            · unfold getTestIDPanics
              simp only [hsep]
              simp only [Bool.and_eq_false_imp, Bool.and_eq_true, decide_eq_true_eq,
                decide_eq_false_iff_not]
              intros; exact hlo

theorem Recognised.id_eq {e : Entry} (h : Recognised e) : e.id = 91 :: tidOf e ++ [93] :=
  (getTestID_some h).1

theorem Recognised.noPanic {e : Entry} (h : Recognised e) : getTestIDPanics e.id = false :=
  (getTestID_some h).2

theorem recognised_iff (e : Entry) :
    Recognised e ↔ ∃ tid, e.id = 91 :: tid ++ [93] ∧ getTestID e.id = some tid := by
  constructor
  · intro h; exact ⟨tidOf e, h.id_eq, h⟩
  · rintro ⟨tid, hid, h⟩
    unfold Recognised
    rw [h]; congr 1
    simp [tidOf, hid]

theorem indexOf_go_spec (sep s : Text) (n k : Nat) (h : indexOf.go sep s n = some k) :
    n ≤ k ∧ sep.isPrefixOf (s.drop (k - n)) = true := by
  induction s generalizing n with
  | nil =>
    simp only [indexOf.go] at h
    split at h
    · rename_i hs; cases h; subst hs; simp
    · cases h
  | cons c cs ih =>
    simp only [indexOf.go] at h
    split at h
    · rename_i hp; cases h; simpa using hp
    · obtain ⟨h1, h2⟩ := ih (n + 1) h
      refine ⟨by omega, ?_⟩
      have : k - n = (k - (n + 1)) + 1 := by omega
      rw [this, List.drop_succ_cons]; exact h2

/-- **`getTestID` never panics**: the separator `" - "` ends with a space and the line ends with
    `]`, so `separator + 3 ≤ len(b) - 1` whenever the slice expression is reached -/
theorem getTestIDPanics_false (b : Text) : getTestIDPanics b = false := by
  unfold getTestIDPanics
  cases hi : indexOf b Generated.idSep with
  | none => simp
  | some sep =>
    simp only [Bool.and_eq_false_imp, Bool.and_eq_true, decide_eq_true_eq, decide_eq_false_iff_not,
      and_imp]
    intro _ _ hlast
    have hsep : Generated.idSep = [32, 45, 32] := rfl
    obtain ⟨_, hp⟩ := indexOf_go_spec _ _ _ _ hi
    rw [hsep, Nat.sub_zero] at hp
    obtain ⟨rest, hrest⟩ := List.isPrefixOf_iff_prefix.mp hp
    have hb : b = b.take sep ++ (32 :: 45 :: 32 :: rest) := by
      rw [show (32 : Byte) :: 45 :: 32 :: rest = [32, 45, 32] ++ rest from rfl, hrest,
        List.take_append_drop]
    have hlen : sep + 3 + rest.length ≤ b.length := by
      have := congrArg List.length hrest
      simp only [List.length_append, List.length_cons, List.length_nil, List.length_drop] at this
      omega
    have hne : rest ≠ [] := by
      intro e
      subst e
      rw [hb] at hlast
      simp at hlast
    have : 0 < rest.length := List.length_pos_iff.mpr hne
    rw [hsep]; simp only [List.length_cons, List.length_nil]; omega

/-! ## the scanning loop on a rendered file -/

section Scan
variable (o : Oracles) (registered skipped : List Text) (runOnly : Text) (update : Bool)

theorem exScan_collect (ls rest : List Line) (id data : Text) (st : ScanState)
    (h : endSeq ∉ ls) :
    exScan o registered skipped runOnly update (ls ++ endSeq :: rest) (.collecting id data) st =
      exScan o registered skipped runOnly update rest .outer
        { st with tests := testsSet st.tests id (data ++ ls.flatMap (· ++ [nl])) } := by
  induction ls generalizing data with
  | nil => simp [exScan]
  | cons l ls ih =>
    have hl : l ≠ endSeq := by intro e; apply h; simp [e]
    have hls : endSeq ∉ ls := by intro e; apply h; simp [e]
    simp [exScan, hl, ih _ hls]

theorem exScan_skip (ls rest : List Line) (st : ScanState) (h : endSeq ∉ ls) :
    exScan o registered skipped runOnly update (ls ++ endSeq :: rest) .skipping st =
      exScan o registered skipped runOnly update rest .outer st := by
  induction ls with
  | nil => simp [exScan]
  | cons l ls ih =>
    have hl : l ≠ endSeq := by intro e; apply h; simp [e]
    have hls : endSeq ∉ ls := by intro e; apply h; simp [e]
    simp [exScan, hl, ih hls]

/-- an id is *kept* by the scan: registered in this run, or protected by the skip rules -/
def keptId (tid : Text) : Bool :=
  registered.contains tid || decide (testSkipped o skipped tid runOnly = some true)

/-- an id is *stale*: not registered and positively not skipped -/
def staleId (tid : Text) : Bool :=
  !registered.contains tid && decide (testSkipped o skipped tid runOnly = some false)

/-- no oracle miss on this id -/
def Classified (tid : Text) : Prop :=
  keptId o registered skipped runOnly tid = true ∨ staleId o registered skipped runOnly tid = true

/-- the effect of one whole entry on the scan state: a kept entry is listed and stored; a stale
    one is listed and reported, and stored too unless `update` (then its body is skipped) -/
def stepEntry (K : Text → Bool) (update : Bool) (st : ScanState) (e : Entry) : ScanState :=
  if K (tidOf e) then
    { st with testIDs := st.testIDs ++ [tidOf e],
              tests := testsSet st.tests (tidOf e) (e.body ++ [nl]) }
  else if update then
    { st with testIDs := st.testIDs ++ [tidOf e], obsolete := st.obsolete ++ [tidOf e],
              hasDiffs := true }
  else
    { st with testIDs := st.testIDs ++ [tidOf e], obsolete := st.obsolete ++ [tidOf e],
              hasDiffs := true, tests := testsSet st.tests (tidOf e) (e.body ++ [nl]) }

theorem getTestID_nil : getTestID [] = none := by simp [getTestID]

theorem exScan_entry (e : Entry) (rest : List Line) (st : ScanState)
    (hrec : Recognised e) (hesc : Escaped e.body)
    (hcls : Classified o registered skipped runOnly (tidOf e)) :
    exScan o registered skipped runOnly update (entryLines e ++ rest) .outer st =
      exScan o registered skipped runOnly update rest .outer
        (stepEntry (keptId o registered skipped runOnly) update st e) := by
  unfold entryLines
  simp only [List.cons_append, List.nil_append, List.append_assoc, exScan, getTestID_nil]
  rw [hrec]
  simp only
  unfold stepEntry keptId
  by_cases hreg : registered.contains (tidOf e) = true
  · simp only [hreg, ↓reduceIte, Bool.true_or]
    rw [exScan_collect _ _ _ _ _ _ _ _ _ _ hesc]
    simp [flatMap_lines]
  · simp only [hreg, Bool.false_eq_true, ↓reduceIte, Bool.false_or]
    have hreg' : ¬ tidOf e ∈ registered := by simpa using hreg
    rcases hcls with hk | hs
    · have : testSkipped o skipped (tidOf e) runOnly = some true := by
        simpa [keptId, hreg'] using hk
      simp only [this, decide_true, ↓reduceIte]
      rw [exScan_collect _ _ _ _ _ _ _ _ _ _ hesc]
      simp [flatMap_lines]
    · have : testSkipped o skipped (tidOf e) runOnly = some false := by
        simpa [staleId, hreg'] using hs
      simp only [this]
      cases update with
      | true =>
        simp only [↓reduceIte]
        rw [exScan_skip _ _ _ _ _ _ _ _ hesc]
        simp
      | false =>
        simp only [Bool.false_eq_true, ↓reduceIte]
        rw [exScan_collect _ _ _ _ _ _ _ _ _ _ hesc]
        simp [flatMap_lines]

theorem exScan_fileLines (es : List Entry) (rest : List Line) (st : ScanState)
    (hrec : ∀ e ∈ es, Recognised e) (hesc : ∀ e ∈ es, Escaped e.body)
    (hcls : ∀ e ∈ es, Classified o registered skipped runOnly (tidOf e)) :
    exScan o registered skipped runOnly update (fileLines es ++ rest) .outer st =
      exScan o registered skipped runOnly update rest .outer
        (es.foldl (stepEntry (keptId o registered skipped runOnly) update) st) := by
  induction es generalizing st with
  | nil => simp [fileLines]
  | cons e es ih =>
    have : fileLines (e :: es) ++ rest = entryLines e ++ (fileLines es ++ rest) := by
      simp [fileLines]
    rw [this, exScan_entry o registered skipped runOnly update e _ st (hrec e (by simp))
      (hesc e (by simp)) (hcls e (by simp))]
    rw [ih _ (fun x hx => hrec x (by simp [hx])) (fun x hx => hesc x (by simp [hx]))
      (fun x hx => hcls x (by simp [hx]))]
    simp

/-- the `(id, stored text)` pair the scan records for a stored entry -/
def entryPair (e : Entry) : Text × Text := (tidOf e, e.body ++ [nl])

theorem foldl_stepEntry_testIDs (K : Text → Bool) (es : List Entry) (st : ScanState) :
    (es.foldl (stepEntry K update) st).testIDs = st.testIDs ++ es.map tidOf := by
  induction es generalizing st with
  | nil => simp
  | cons e es ih =>
    rw [List.foldl_cons, ih]; unfold stepEntry
    by_cases h : K (tidOf e) = true <;> cases update <;> simp [h]

theorem foldl_stepEntry_obsolete (K : Text → Bool) (es : List Entry) (st : ScanState) :
    (es.foldl (stepEntry K update) st).obsolete =
      st.obsolete ++ (es.filter (fun e => !K (tidOf e))).map tidOf := by
  induction es generalizing st with
  | nil => simp
  | cons e es ih =>
    rw [List.foldl_cons, ih]; unfold stepEntry
    by_cases h : K (tidOf e) = true <;> cases update <;> simp [h]

theorem foldl_stepEntry_hasDiffs (K : Text → Bool) (es : List Entry) (st : ScanState) :
    (es.foldl (stepEntry K update) st).hasDiffs = (st.hasDiffs || es.any (fun e => !K (tidOf e))) := by
  induction es generalizing st with
  | nil => simp
  | cons e es ih =>
    rw [List.foldl_cons, ih]; unfold stepEntry
    by_cases h : K (tidOf e) = true <;> cases update <;> simp [h]

theorem foldl_stepEntry_missing (K : Text → Bool) (es : List Entry) (st : ScanState) :
    (es.foldl (stepEntry K update) st).missing = st.missing := by
  induction es generalizing st with
  | nil => simp
  | cons e es ih =>
    rw [List.foldl_cons, ih]; unfold stepEntry
    by_cases h : K (tidOf e) = true <;> cases update <;> simp [h]

/-- the stored entries: the kept ones, and — in report-only mode — the stale ones too -/
theorem foldl_stepEntry_tests (K : Text → Bool) (es : List Entry) (st : ScanState) :
    (es.foldl (stepEntry K update) st).tests =
      ((es.filter (fun e => K (tidOf e) || !update)).map entryPair).foldl
        (fun m kv => testsSet m kv.1 kv.2) st.tests := by
  induction es generalizing st with
  | nil => simp
  | cons e es ih =>
    rw [List.foldl_cons, ih]; unfold stepEntry
    by_cases h : K (tidOf e) = true <;> cases update <;> simp [h, entryPair]

theorem testsSet_fresh (m : List (Text × Text)) (k v : Text) (h : k ∉ m.map (·.1)) :
    testsSet m k v = m ++ [(k, v)] := by
  induction m with
  | nil => simp [testsSet]
  | cons kv m ih =>
    obtain ⟨k', v'⟩ := kv
    have h1 : k' ≠ k := by intro e; apply h; simp [e]
    have h2 : k ∉ m.map (·.1) := by intro e; apply h; simp only [List.map_cons, List.mem_cons]; exact Or.inr e
    simp [testsSet, h1, ih h2]

/-- with distinct keys, replaying the assignments just lists them (Go map with no overwrite) -/
theorem foldl_testsSet_nodup (m kvs : List (Text × Text))
    (h : ((m ++ kvs).map (·.1)).Nodup) :
    kvs.foldl (fun m kv => testsSet m kv.1 kv.2) m = m ++ kvs := by
  induction kvs generalizing m with
  | nil => simp
  | cons kv kvs ih =>
    have hk : kv.1 ∉ m.map (·.1) := by
      simp only [List.map_append, List.map_cons] at h
      have := (List.nodup_append.mp h).2.2
      intro hm
      exact this _ hm _ (by simp) rfl
    rw [List.foldl_cons, testsSet_fresh m kv.1 kv.2 hk]
    have : m ++ [(kv.1, kv.2)] ++ kvs = m ++ kv :: kvs := by simp
    rw [ih _ (by rw [this]; exact h), this]

theorem testsGet_map_entryPair (es : List Entry) (id : Text) :
    testsGet (es.map entryPair) id = (es.find? (fun e => tidOf e == id)).map (fun e => e.body ++ [nl]) := by
  induction es with
  | nil => simp [testsGet]
  | cons e es ih =>
    simp only [List.map_cons, entryPair, testsGet, List.find?_cons]
    by_cases h : tidOf e = id
    · simp [h]
    · simp only [h, ↓reduceIte]
      have : (tidOf e == id) = false := by simpa using h
      rw [this]; simpa [entryPair] using ih

/-- **the scan of a rendered file** (general form, any starting state and continuation) -/
theorem exScan_fileLines_nil (es : List Entry)
    (hrec : ∀ e ∈ es, Recognised e) (hesc : ∀ e ∈ es, Escaped e.body)
    (hcls : ∀ e ∈ es, Classified o registered skipped runOnly (tidOf e)) :
    exScan o registered skipped runOnly update (fileLines es) .outer {} =
      es.foldl (stepEntry (keptId o registered skipped runOnly) update) {} := by
  have := exScan_fileLines o registered skipped runOnly update es [] {} hrec hesc hcls
  simpa [exScan] using this

end Scan

/-! ## the rewrite loop -/

theorem cleanFrame_eq (tid body : Text) :
    cleanFrame tid (body ++ [nl]) = some (frame ⟨91 :: tid ++ [93], body⟩) := by
  have hp : parseFmt Generated.cleanFmt =
      some [.lit [nl, 91], .verb 115, .lit [93, nl], .verb 115, .verb 115, .lit [nl]] := by decide
  have he : Generated.go_endSequence = endSeq := by decide
  simp [cleanFrame, sprintf, hp, fmtPieces, fmtVerb, frame, he]

/-- the frames the rewrite loop of `examineSnaps` emits, one per id -/
def rewriteFrames (tests : List (Text × Text)) (ids : List Text) : List (Option Text) :=
  ids.map (fun id =>
    match testsGet tests id with
    | none => some []
    | some body => cleanFrame id body)

/-- the entries of `es` selected and ordered by the id list `ids` -/
def reorder (es : List Entry) (ids : List Text) : List Entry :=
  ids.filterMap (fun id => es.find? (fun e => tidOf e == id))

theorem rewriteFrames_eq (es : List Entry) (ids : List Text) (hrec : ∀ e ∈ es, Recognised e) :
    rewriteFrames (es.map entryPair) ids =
      ids.map (fun id => some (match es.find? (fun e => tidOf e == id) with
        | none => []
        | some e => frame e)) := by
  unfold rewriteFrames
  apply List.map_congr_left
  intro id _
  rw [testsGet_map_entryPair]
  cases hf : es.find? (fun e => tidOf e == id) with
  | none => simp
  | some e =>
    have hmem : e ∈ es := List.mem_of_find?_eq_some hf
    have hid : tidOf e = id := by simpa using List.find?_some hf
    simp only [Option.map_some]
    rw [cleanFrame_eq, ← hid, ← (hrec e hmem).id_eq]

theorem rewriteFrames_noFail (es : List Entry) (ids : List Text) (hrec : ∀ e ∈ es, Recognised e) :
    (rewriteFrames (es.map entryPair) ids).any (·.isNone) = false := by
  rw [rewriteFrames_eq es ids hrec]; simp

theorem rewriteFrames_bytes (es : List Entry) (ids : List Text) (hrec : ∀ e ∈ es, Recognised e) :
    ((rewriteFrames (es.map entryPair) ids).filterMap (fun x => x)).flatten =
      render (reorder es ids) := by
  rw [rewriteFrames_eq es ids hrec]
  unfold render reorder
  induction ids with
  | nil => simp
  | cons id ids ih =>
    simp only [List.map_cons, List.filterMap_cons, List.flatten_cons, ih]
    cases hf : es.find? (fun e => tidOf e == id) <;> simp

/-! ## reordering a file by an id list -/

theorem find?_tid_of_mem (es : List Entry) (e : Entry) (hnd : (es.map tidOf).Nodup) (he : e ∈ es) :
    es.find? (fun x => tidOf x == tidOf e) = some e := by
  induction es with
  | nil => cases he
  | cons x xs ih =>
    simp only [List.map_cons, List.nodup_cons] at hnd
    simp only [List.find?_cons]
    rcases List.mem_cons.mp he with rfl | hm
    · simp
    · have : tidOf x ≠ tidOf e := by
        intro h; apply hnd.1; rw [h]; exact List.mem_map_of_mem hm
      have hb : (tidOf x == tidOf e) = false := by simpa using this
      rw [hb]; exact ih hnd.2 hm

theorem tid_inj_of_nodup (es : List Entry) (hnd : (es.map tidOf).Nodup) {a b : Entry}
    (ha : a ∈ es) (hb : b ∈ es) (h : tidOf a = tidOf b) : a = b := by
  have h1 := find?_tid_of_mem es a hnd ha
  have h2 := find?_tid_of_mem es b hnd hb
  rw [h] at h1; rw [h1] at h2; exact Option.some.inj h2

theorem nodup_filter_tid (es : List Entry) (P : Entry → Bool) (hnd : (es.map tidOf).Nodup) :
    ((es.filter P).map tidOf).Nodup :=
  List.Nodup.sublist (List.Sublist.map tidOf List.filter_sublist) hnd

theorem find?_filter_tid (es : List Entry) (P : Entry → Bool) (e : Entry)
    (hnd : (es.map tidOf).Nodup) (he : e ∈ es) :
    (es.filter P).find? (fun x => tidOf x == tidOf e) = if P e then some e else none := by
  by_cases hp : P e = true
  · simp only [hp, ↓reduceIte]
    exact find?_tid_of_mem _ e (nodup_filter_tid es P hnd) (List.mem_filter.mpr ⟨he, hp⟩)
  · simp only [hp, Bool.false_eq_true, ↓reduceIte]
    rw [List.find?_eq_none]
    intro x hx hxe
    have hx' := List.mem_filter.mp hx
    have : x = e := tid_inj_of_nodup es hnd hx'.1 he (by simpa using hxe)
    rw [this] at hx'; exact hp hx'.2

theorem filterMap_congr_mem {α β : Type} (l : List α) (f g : α → Option β)
    (h : ∀ a ∈ l, f a = g a) : l.filterMap f = l.filterMap g := by
  induction l with
  | nil => rfl
  | cons a l ih =>
    simp only [List.filterMap_cons, h a (by simp)]
    rw [ih (fun x hx => h x (by simp [hx]))]

/-- selecting by the file's own id list gives back the kept entries in file order -/
theorem reorder_filter_self (es : List Entry) (P : Entry → Bool) (hnd : (es.map tidOf).Nodup) :
    reorder (es.filter P) (es.map tidOf) = es.filter P := by
  unfold reorder
  rw [List.filterMap_map]
  have : ∀ e ∈ es, ((fun id => (es.filter P).find? (fun x => tidOf x == id)) ∘ tidOf) e =
      (fun e => if P e then some e else none) e := by
    intro e he; exact find?_filter_tid es P e hnd he
  rw [filterMap_congr_mem _ _ _ this]
  clear this hnd
  induction es with
  | nil => rfl
  | cons e es ih => by_cases h : P e = true <;> simp [h, ih]

theorem reorder_self (es : List Entry) (hnd : (es.map tidOf).Nodup) :
    reorder es (es.map tidOf) = es := by
  have := reorder_filter_self es (fun _ => true) hnd
  have h : es.filter (fun _ => true) = es := List.filter_eq_self.mpr (fun _ _ => rfl)
  rwa [h] at this

/-- for any permutation of the id list, the selected entries are a permutation of the kept
    entries: a rewrite neither loses nor duplicates nor alters a kept entry -/
theorem reorder_perm (es : List Entry) (P : Entry → Bool) (ids : List Text)
    (hnd : (es.map tidOf).Nodup) (hperm : ids.Perm (es.map tidOf)) :
    (reorder (es.filter P) ids).Perm (es.filter P) := by
  have h := List.Perm.filterMap (fun id => (es.filter P).find? (fun x => tidOf x == id)) hperm
  have h2 := reorder_filter_self es P hnd
  unfold reorder at h2 ⊢
  rw [h2] at h; exact h

theorem mem_reorder {es : List Entry} {ids : List Text} {x : Entry} (h : x ∈ reorder es ids) :
    x ∈ es ∧ tidOf x ∈ ids := by
  unfold reorder at h
  obtain ⟨id, hid, hf⟩ := List.mem_filterMap.mp h
  refine ⟨List.mem_of_find?_eq_some hf, ?_⟩
  have : tidOf x = id := by simpa using List.find?_some hf
  rw [this]; exact hid

theorem map_tidOf_reorder (es : List Entry) (ids : List Text) :
    (reorder es ids).map tidOf = ids.filter (fun id => (es.find? (fun e => tidOf e == id)).isSome) := by
  unfold reorder
  induction ids with
  | nil => rfl
  | cons id ids ih =>
    simp only [List.filterMap_cons, List.filter_cons]
    cases hf : es.find? (fun e => tidOf e == id) with
    | none => simpa using ih
    | some e =>
      have : tidOf e = id := by simpa using List.find?_some hf
      simp [ih, this]

theorem tids_reorder_sublist (es : List Entry) (ids : List Text) :
    ((reorder es ids).map tidOf).Sublist ids := by
  rw [map_tidOf_reorder]; exact List.filter_sublist

/-! ## one file of `examineSnaps` -/

/-- the files the Clean theorems are about: `render es` with every header recognised by
    `getTestID`, distinct ids, escaped bodies, scanner-clean lines (C01.WF).  (No hypothesis
    about `getTestIDPanics` is needed: `getTestIDPanics_false`.) -/
structure CleanFile (es : List Entry) : Prop where
  idNoNL : ∀ e ∈ es, NoNL e.id
  noCR : ∀ l ∈ fileLines es, NoCRLine l
  recognised : ∀ e ∈ es, Recognised e
  escaped : ∀ e ∈ es, Escaped e.body
  distinct : (es.map tidOf).Nodup

theorem mem_fileLines {es : List Entry} {l : Line} :
    l ∈ fileLines es ↔ ∃ e ∈ es, l ∈ entryLines e := by
  simp only [fileLines, List.mem_flatten, List.mem_map]
  constructor
  · rintro ⟨_, ⟨e, he, rfl⟩, hl⟩; exact ⟨e, he, hl⟩
  · rintro ⟨e, he, hl⟩; exact ⟨_, ⟨e, he, rfl⟩, hl⟩

theorem CleanFile.of_subset {es es' : List Entry} (h : CleanFile es) (hsub : ∀ x ∈ es', x ∈ es)
    (hnd : (es'.map tidOf).Nodup) : CleanFile es' where
  idNoNL e he := h.idNoNL e (hsub e he)
  noCR l hl := by
    obtain ⟨e, he, hle⟩ := mem_fileLines.mp hl
    exact h.noCR l (mem_fileLines.mpr ⟨e, hsub e he, hle⟩)
  recognised e he := h.recognised e (hsub e he)
  escaped e he := h.escaped e (hsub e he)
  distinct := hnd

theorem CleanFile.filter {es : List Entry} (h : CleanFile es) (P : Entry → Bool) :
    CleanFile (es.filter P) :=
  h.of_subset (fun _ hx => (List.mem_filter.mp hx).1) (nodup_filter_tid es P h.distinct)

theorem CleanFile.noPanic {es : List Entry} (_h : CleanFile es) :
    (fileLines es).any getTestIDPanics = false := by
  rw [List.any_eq_false]
  intro l _
  simp [getTestIDPanics_false]

/-- the ids registered for file `p` in this run (what `occurrences(registry[p], …)` returns) -/
def registeredFor (cleanup : List (RegKey × Nat)) (p : Text) (count : Nat) : Option (List Text) :=
  occurrences ((cleanup.filter (·.1.1 = p)).map (fun (k, n) => (k.2, n))) count snapshotOccFmt

theorem examineSnaps_go_nil (o : Oracles) (cleanup : List (RegKey × Nat)) (skipped : List Text)
    (runOnly : Text) (count : Nat) (update sort : Bool) (fs : FS) (obs written : List Text) :
    examineSnaps.go o cleanup skipped runOnly count update sort [] fs obs written =
      .ok obs fs written := by
  simp [examineSnaps.go]

theorem examineSnaps_go_cons (o : Oracles) (cleanup : List (RegKey × Nat)) (skipped : List Text)
    (runOnly : Text) (count : Nat) (update sort : Bool) (p : Text) (rest : List Text) (fs : FS)
    (obs written : List Text) :
    examineSnaps.go o cleanup skipped runOnly count update sort (p :: rest) fs obs written =
      match fsRead fs p with
      | none => .badFormat
      | some content =>
        match registeredFor cleanup p count with
        | none => .badFormat
        | some registered =>
          let ls := scan content
          if ls.any getTestIDPanics then .panics else
          let st := exScan o registered skipped runOnly update ls .outer {}
          if st.missing then .missingOracle else
          let shouldSort := sort && !(isSortedNat st.testIDs)
          let shouldUpdate := update && st.hasDiffs
          if !shouldUpdate && !shouldSort then
            examineSnaps.go o cleanup skipped runOnly count update sort rest fs (obs ++ st.obsolete) written
          else
            let ids := if shouldSort then sortNat st.testIDs else st.testIDs
            if shouldSort && !(allPairsOrdered ids && pairwiseComparable ids) then .unsupportedOrder else
            let frames := rewriteFrames st.tests ids
            if frames.any (·.isNone) then .badFormat else
            examineSnaps.go o cleanup skipped runOnly count update sort rest
              (fsWrite fs p (frames.filterMap (fun x => x)).flatten) (obs ++ st.obsolete)
              (written ++ [p]) := by
  rw [examineSnaps.go]
  rfl

theorem CleanFile.scan_render {es : List Entry} (h : CleanFile es) :
    scan (render es) = fileLines es := GoSnaps.scan_render es h.idNoNL h.noCR

section Single
variable (o : Oracles) (registered skipped : List Text) (runOnly : Text)

/-- the scan state after a whole `CleanFile`: the *stored* entries are the kept ones, plus —
    in report-only mode (`update = false`) — the stale ones -/
theorem exScan_cleanFile (update : Bool) (es : List Entry) (hf : CleanFile es)
    (hcls : ∀ e ∈ es, Classified o registered skipped runOnly (tidOf e)) :
    exScan o registered skipped runOnly update (scan (render es)) .outer {} =
      { testIDs := es.map tidOf,
        tests := (es.filter (fun e => keptId o registered skipped runOnly (tidOf e) || !update)).map
          entryPair,
        obsolete := (es.filter (fun e => !keptId o registered skipped runOnly (tidOf e))).map tidOf,
        hasDiffs := es.any (fun e => !keptId o registered skipped runOnly (tidOf e)),
        missing := false } := by
  rw [hf.scan_render, exScan_fileLines_nil o registered skipped runOnly update es hf.recognised
    hf.escaped hcls]
  generalize hst : es.foldl (stepEntry (keptId o registered skipped runOnly) update) {} = st
  have h1 := foldl_stepEntry_testIDs update (keptId o registered skipped runOnly) es {}
  have h2 := foldl_stepEntry_tests update (keptId o registered skipped runOnly) es {}
  have h3 := foldl_stepEntry_obsolete update (keptId o registered skipped runOnly) es {}
  have h4 := foldl_stepEntry_hasDiffs update (keptId o registered skipped runOnly) es {}
  have h5 := foldl_stepEntry_missing update (keptId o registered skipped runOnly) es {}
  rw [hst] at h1 h2 h3 h4 h5
  rw [foldl_testsSet_nodup] at h2
  · cases st; simp_all
  · simp only [List.nil_append, List.map_map]
    have : (Prod.fst ∘ entryPair) = tidOf := rfl
    rw [this]; exact nodup_filter_tid es _ hf.distinct

/-- the closed form of one `examineSnaps` iteration on a `CleanFile`; `K` = kept.  The entries
    written back are the stored ones (`K || !update`), along the (possibly sorted) id list. -/
def cleanOutcome (K : Text → Bool) (es : List Entry) (p : Text) (fs : FS) (update sort : Bool) :
    SnapsOutcome :=
  let ids := es.map tidOf
  let stale := (es.filter (fun e => !K (tidOf e))).map tidOf
  let shouldSort := sort && !(isSortedNat ids)
  let shouldUpdate := update && es.any (fun e => !K (tidOf e))
  if !shouldUpdate && !shouldSort then .ok stale fs []
  else
    let ids' := if shouldSort then sortNat ids else ids
    if shouldSort && !(allPairsOrdered ids' && pairwiseComparable ids') then .unsupportedOrder
    else .ok stale (fsWrite fs p (render (reorder (es.filter (fun e => K (tidOf e) || !update)) ids'))) [p]

theorem examineSnaps_single (fs : FS) (cleanup : List (RegKey × Nat)) (p : Text) (count : Nat)
    (update sort : Bool) (es : List Entry) (hf : CleanFile es)
    (hread : fsRead fs p = some (render es))
    (hreg : registeredFor cleanup p count = some registered)
    (hcls : ∀ e ∈ es, Classified o registered skipped runOnly (tidOf e)) :
    examineSnaps o fs cleanup skipped [p] runOnly count update sort =
      cleanOutcome (keptId o registered skipped runOnly) es p fs update sort := by
  have hnp : (scan (render es)).any getTestIDPanics = false := by
    rw [hf.scan_render]; exact hf.noPanic
  unfold examineSnaps
  rw [examineSnaps_go_cons]
  simp only [hread, hreg, hnp, exScan_cleanFile o registered skipped runOnly update es hf hcls]
  have hrec : ∀ e ∈ es.filter (fun e => keptId o registered skipped runOnly (tidOf e) || !update),
      Recognised e :=
    fun e he => hf.recognised e (List.mem_filter.mp he).1
  simp only [rewriteFrames_noFail _ _ hrec, rewriteFrames_bytes _ _ hrec, examineSnaps_go_nil]
  simp [cleanOutcome]

end Single

/-! ## the natural sort -/

/-- `x` may stand before `y`: `naturalSort(y, x) < 0` is false -/
def NatLe (x y : Text) : Prop := natLt y x = false

/-- `natLt`, restricted to the elements of `l`, is a strict total order.  Irreflexivity holds
    unconditionally (`natLt_irrefl`), so only transitivity and totality are hypotheses. -/
structure TotalOn (l : List Text) : Prop where
  trans : ∀ a ∈ l, ∀ b ∈ l, ∀ c ∈ l, natLt a b = true → natLt b c = true → natLt a c = true
  total : ∀ a ∈ l, ∀ b ∈ l, a ≠ b → natLt a b = true ∨ natLt b a = true

theorem natLt_irrefl (a : Text) : natLt a a = false := by simp [natLt]

theorem TotalOn.mono {l l' : List Text} (h : TotalOn l) (hsub : ∀ x ∈ l', x ∈ l) : TotalOn l' where
  trans a ha b hb c hc := h.trans a (hsub a ha) b (hsub b hb) c (hsub c hc)
  total a ha b hb := h.total a (hsub a ha) b (hsub b hb)

theorem TotalOn.perm {l l' : List Text} (h : TotalOn l) (hp : l.Perm l') : TotalOn l' :=
  h.mono (fun _ hx => hp.mem_iff.mpr hx)

theorem TotalOn.asymm {l : List Text} (h : TotalOn l) {a b : Text} (ha : a ∈ l) (hb : b ∈ l)
    (hab : natLt a b = true) : natLt b a = false := by
  cases hba : natLt b a with
  | false => rfl
  | true =>
    have := h.trans a ha b hb a ha hab hba
    rw [natLt_irrefl] at this; cases this

/-- `≤` is transitive on the elements of `l` -/
theorem TotalOn.le_trans {l : List Text} (h : TotalOn l) {a b c : Text} (ha : a ∈ l) (hb : b ∈ l)
    (hc : c ∈ l) (hab : NatLe a b) (hbc : NatLe b c) : NatLe a c := by
  unfold NatLe at *
  cases hca : natLt c a with
  | false => rfl
  | true =>
    exfalso
    by_cases e1 : a = b
    · subst e1; rw [hca] at hbc; cases hbc
    · by_cases e2 : b = c
      · subst e2; rw [hca] at hab; cases hab
      · have h1 : natLt a b = true := by
          rcases h.total a ha b hb e1 with h | h
          · exact h
          · rw [h] at hab; cases hab
        have h2 : natLt b c = true := by
          rcases h.total b hb c hc e2 with h | h
          · exact h
          · rw [h] at hbc; cases hbc
        have h3 := h.trans a ha b hb c hc h1 h2
        have h4 := h.trans a ha c hc a ha h3 hca
        rw [natLt_irrefl] at h4; cases h4

theorem allPairsOrdered_iff (l : List Text) : allPairsOrdered l = true ↔ l.Pairwise NatLe := by
  induction l with
  | nil => simp [allPairsOrdered]
  | cons x l ih =>
    simp only [allPairsOrdered, Bool.and_eq_true, List.all_eq_true, Bool.not_eq_true', ih,
      List.pairwise_cons, NatLe]

/-- two ids are comparable: equal, or ordered one way or the other -/
def Comparable (x y : Text) : Prop := x = y ∨ natLt x y = true ∨ natLt y x = true

theorem Comparable.symm {x y : Text} (h : Comparable x y) : Comparable y x := by
  rcases h with h | h | h
  · exact Or.inl h.symm
  · exact Or.inr (Or.inr h)
  · exact Or.inr (Or.inl h)

theorem pairwiseComparable_iff (l : List Text) :
    pairwiseComparable l = true ↔ l.Pairwise Comparable := by
  induction l with
  | nil => simp [pairwiseComparable]
  | cons x l ih =>
    simp only [pairwiseComparable, Bool.and_eq_true, List.all_eq_true, Bool.or_eq_true,
      decide_eq_true_eq, ih, List.pairwise_cons, Comparable, or_assoc]

/-- a comparator that is total on the ids present makes every two of them comparable -/
theorem pairwiseComparable_of_totalOn (l : List Text) (ht : TotalOn l) :
    pairwiseComparable l = true := by
  rw [pairwiseComparable_iff]
  induction l with
  | nil => exact List.Pairwise.nil
  | cons x l ih =>
    rw [List.pairwise_cons]
    refine ⟨?_, ih (ht.mono (fun z hz => by simp [hz]))⟩
    intro y hy
    by_cases e : x = y
    · exact Or.inl e
    · exact Or.inr (ht.total x (by simp) y (by simp [hy]) e)

theorem pairwiseComparable_perm {l₁ l₂ : List Text} (hp : l₁.Perm l₂) :
    pairwiseComparable l₁ = pairwiseComparable l₂ := by
  have := hp.pairwise_iff (R := Comparable) (fun h => h.symm)
  rw [← pairwiseComparable_iff, ← pairwiseComparable_iff] at this
  cases h1 : pairwiseComparable l₁ <;> cases h2 : pairwiseComparable l₂ <;> simp_all

theorem pairwiseComparable_sublist {l₁ l₂ : List Text} (hs : l₁.Sublist l₂)
    (h : pairwiseComparable l₂ = true) : pairwiseComparable l₁ = true :=
  (pairwiseComparable_iff _).mpr (List.Pairwise.sublist hs ((pairwiseComparable_iff _).mp h))

theorem insertNat_perm (x : Text) (l : List Text) : (insertNat x l).Perm (x :: l) := by
  induction l with
  | nil => simp [insertNat]
  | cons y ys ih =>
    simp only [insertNat]
    split
    · exact (List.Perm.cons y ih).trans (List.Perm.swap x y ys)
    · exact List.Perm.refl _

/-- the sort is a permutation (no hypothesis on the comparator) -/
theorem sortNat_perm (l : List Text) : (sortNat l).Perm l := by
  induction l with
  | nil => exact List.Perm.refl _
  | cons x l ih =>
    have : sortNat (x :: l) = insertNat x (sortNat l) := rfl
    rw [this]
    exact (insertNat_perm x _).trans (List.Perm.cons x ih)

theorem insertNat_pairwise (x : Text) (l : List Text) (ht : TotalOn (x :: l))
    (hl : l.Pairwise NatLe) : (insertNat x l).Pairwise NatLe := by
  induction l with
  | nil => simp [insertNat]
  | cons y ys ih =>
    have hx : x ∈ x :: y :: ys := by simp
    have hy : y ∈ x :: y :: ys := by simp
    rw [List.pairwise_cons] at hl
    simp only [insertNat]
    split
    · rename_i hyx
      rw [List.pairwise_cons]
      refine ⟨?_, ih (ht.mono (by intro z hz; simp at hz ⊢; rcases hz with h | h <;> simp [h])) hl.2⟩
      intro z hz
      rcases List.mem_cons.mp ((insertNat_perm x ys).mem_iff.mp hz) with rfl | hz'
      · exact ht.asymm hy hx hyx
      · exact hl.1 z hz'
    · rename_i hyx
      have hyx' : NatLe x y := by simpa [NatLe] using hyx
      rw [List.pairwise_cons]
      refine ⟨?_, List.pairwise_cons.mpr hl⟩
      intro z hz
      rcases List.mem_cons.mp hz with rfl | hz'
      · exact hyx'
      · exact ht.le_trans hx hy (by simp [hz']) hyx' (hl.1 z hz')

theorem sortNat_pairwise (l : List Text) (ht : TotalOn l) : (sortNat l).Pairwise NatLe := by
  induction l with
  | nil => simp [sortNat]
  | cons x l ih =>
    have : sortNat (x :: l) = insertNat x (sortNat l) := rfl
    rw [this]
    apply insertNat_pairwise
    · exact ht.perm (List.Perm.cons x (sortNat_perm l).symm)
    · exact ih (ht.mono (fun z hz => by simp [hz]))

/-- under `TotalOn` the check `examineSnaps` makes after sorting always passes -/
theorem sort_check_passes (l : List Text) (ht : TotalOn l) :
    (allPairsOrdered (sortNat l) && pairwiseComparable (sortNat l)) = true := by
  rw [Bool.and_eq_true]
  exact ⟨(allPairsOrdered_iff _).mpr (sortNat_pairwise l ht),
    pairwiseComparable_of_totalOn _ (ht.perm (sortNat_perm l).symm)⟩

/-- a list has at most one pairwise-ordered permutation -/
theorem pairwise_perm_unique (l₁ l₂ : List Text) (ht : TotalOn l₁) (hp : l₁.Perm l₂)
    (h₁ : l₁.Pairwise NatLe) (h₂ : l₂.Pairwise NatLe) : l₁ = l₂ := by
  induction l₁ generalizing l₂ with
  | nil => exact (List.Perm.nil_eq hp)
  | cons a t₁ ih =>
    cases l₂ with
    | nil => exact absurd hp.symm.nil_eq (by simp)
    | cons b t₂ =>
      rw [List.pairwise_cons] at h₁ h₂
      have hab : a = b := by
        by_cases e : a = b
        · exact e
        · exfalso
          have ha : a ∈ t₂ := by
            have : a ∈ b :: t₂ := hp.mem_iff.mp (by simp)
            rcases List.mem_cons.mp this with h | h
            · exact absurd h e
            · exact h
          have hb : b ∈ t₁ := by
            have : b ∈ a :: t₁ := hp.mem_iff.mpr (by simp)
            rcases List.mem_cons.mp this with h | h
            · exact absurd h.symm e
            · exact h
          have r1 : natLt a b = false := h₂.1 a ha
          have r2 : natLt b a = false := h₁.1 b hb
          rcases ht.total a (by simp) b (by simp [hb]) e with h | h
          · rw [h] at r1; cases r1
          · rw [h] at r2; cases r2
      subst hab
      rw [ih t₂ (ht.mono (fun z hz => by simp [hz])) (List.Perm.cons_inv hp) h₁.2 h₂.2]

theorem isSortedNat_of_pairwise (l : List Text) (h : l.Pairwise NatLe) : isSortedNat l = true := by
  induction l with
  | nil => simp [isSortedNat]
  | cons a l ih =>
    cases l with
    | nil => simp [isSortedNat]
    | cons b rest =>
      rw [List.pairwise_cons] at h
      simp only [isSortedNat, Bool.and_eq_true, Bool.not_eq_true']
      exact ⟨h.1 b (by simp), ih h.2⟩

theorem pairwise_of_isSortedNat (l : List Text) (ht : TotalOn l) (h : isSortedNat l = true) :
    l.Pairwise NatLe := by
  induction l with
  | nil => simp
  | cons a l ih =>
    cases l with
    | nil => simp
    | cons b rest =>
      simp only [isSortedNat, Bool.and_eq_true, Bool.not_eq_true'] at h
      have ih' := ih (ht.mono (fun z hz => by simp [hz])) h.2
      rw [List.pairwise_cons]
      refine ⟨?_, ih'⟩
      intro z hz
      rcases List.mem_cons.mp hz with rfl | hz'
      · exact h.1
      · rw [List.pairwise_cons] at ih'
        exact ht.le_trans (by simp) (by simp) (by simp [hz']) h.1 (ih'.1 z hz')

/-! ## running the file step twice -/

theorem fsRead_fsWrite (fs : FS) (p c : Text) : fsRead (fsWrite fs p c) p = some c := by
  induction fs with
  | nil => simp [fsWrite, fsRead]
  | cons kv fs ih =>
    obtain ⟨p', c'⟩ := kv
    by_cases h : p' = p
    · simp [fsWrite, fsRead, h]
    · simp [fsWrite, fsRead, h, ih]

theorem filter_eq_nil_of_any_false {α : Type} (l : List α) (P : α → Bool) (h : l.any P = false) :
    l.filter P = [] := by
  rw [List.filter_eq_nil_iff]
  intro a ha hp
  rw [List.any_eq_false] at h
  exact h a ha hp

/-- the id list a rewrite uses is pairwise ordered whenever sorting is on -/
theorem rewrite_ids_pairwise (ids : List Text) (ht : TotalOn ids) :
    (if isSortedNat ids = true then ids else sortNat ids).Pairwise NatLe := by
  split
  · rename_i h; exact pairwise_of_isSortedNat ids ht h
  · exact sortNat_pairwise ids ht

/-- a file rewritten from a `CleanFile` along a permutation of its ids is a `CleanFile` again -/
theorem cleanFile_reorder (es : List Entry) (hf : CleanFile es) (P : Entry → Bool)
    (ids' : List Text) (hperm : ids'.Perm (es.map tidOf)) :
    CleanFile (reorder (es.filter P) ids') ∧ ∀ e ∈ reorder (es.filter P) ids', e ∈ es ∧ P e = true := by
  have hsub : ∀ e ∈ reorder (es.filter P) ids', e ∈ es ∧ P e = true :=
    fun e he => List.mem_filter.mp (mem_reorder he).1
  have hnd : ((reorder (es.filter P) ids').map tidOf).Nodup :=
    List.Nodup.sublist (tids_reorder_sublist _ ids') ((hperm.nodup_iff).mpr hf.distinct)
  exact ⟨hf.of_subset (fun e he => (hsub e he).1) hnd, hsub⟩

section Second
variable (o : Oracles) (registered skipped : List Text) (runOnly : Text)

/-- the closed form of the file step on a file that was just rewritten from `es` along `ids'`:
    nothing is written; what is still stale (only possible in report-only mode) is reported again -/
theorem cleanOutcome_after_rewrite (es : List Entry) (hf : CleanFile es) (p : Text) (fs : FS)
    (update sort : Bool) (K : Text → Bool) (ids' : List Text)
    (hperm : ids'.Perm (es.map tidOf)) (hsorted : sort = true → ids'.Pairwise NatLe) :
    let es2 := reorder (es.filter (fun e => K (tidOf e) || !update)) ids'
    CleanFile es2 ∧ (∀ e ∈ es2, e ∈ es) ∧
      cleanOutcome K es2 p (fsWrite fs p (render es2)) update sort =
        .ok ((es2.filter (fun e => !K (tidOf e))).map tidOf) (fsWrite fs p (render es2)) [] ∧
      (update = true → es2.filter (fun e => !K (tidOf e)) = []) := by
  intro es2
  obtain ⟨hf2, hsub⟩ := cleanFile_reorder es hf (fun e => K (tidOf e) || !update) ids' hperm
  have hsl := tids_reorder_sublist (es.filter (fun e => K (tidOf e) || !update)) ids'
  have hupd : update = true → es2.any (fun e => !K (tidOf e)) = false := by
    intro hu
    rw [List.any_eq_false]
    intro e he
    have := (hsub e he).2
    simp only [hu, Bool.not_true, Bool.or_false] at this
    simp [this]
  have hany : (update && es2.any (fun e => !K (tidOf e))) = false := by
    cases hu : update with
    | false => rfl
    | true => simp [hupd hu]
  have hsort : (sort && !(isSortedNat (es2.map tidOf))) = false := by
    cases sort with
    | false => rfl
    | true =>
      have : isSortedNat (es2.map tidOf) = true :=
        isSortedNat_of_pairwise _ (List.Pairwise.sublist hsl (hsorted rfl))
      simp [this]
  refine ⟨hf2, fun e he => (hsub e he).1, ?_, fun hu => filter_eq_nil_of_any_false _ _ (hupd hu)⟩
  unfold cleanOutcome
  simp only [hany, hsort, Bool.not_false, Bool.and_self, ↓reduceIte]

theorem examineSnaps_second_run (fs : FS) (cleanup : List (RegKey × Nat)) (p : Text) (count : Nat)
    (update sort : Bool) (es : List Entry) (hf : CleanFile es)
    (hread : fsRead fs p = some (render es))
    (hreg : registeredFor cleanup p count = some registered)
    (hcls : ∀ e ∈ es, Classified o registered skipped runOnly (tidOf e))
    (hto : sort = true → TotalOn (es.map tidOf))
    (obs : List Text) (fs' : FS) (w : List Text)
    (hfirst : examineSnaps o fs cleanup skipped [p] runOnly count update sort = .ok obs fs' w) :
    ∃ obs', examineSnaps o fs' cleanup skipped [p] runOnly count update sort = .ok obs' fs' [] ∧
      (update = true → obs' = []) ∧ (update = false → obs'.Perm obs) := by
  have hfirst0 := hfirst
  rw [examineSnaps_single o registered skipped runOnly fs cleanup p count update sort es hf hread
    hreg hcls] at hfirst
  unfold cleanOutcome at hfirst
  simp only at hfirst
  generalize hids : (if (sort && !(isSortedNat (es.map tidOf))) = true then sortNat (es.map tidOf)
    else es.map tidOf) = ids' at hfirst
  split at hfirst
  · -- the first run did not touch the file: the second run sees the same file
    rename_i hc
    simp only [SnapsOutcome.ok.injEq] at hfirst
    obtain ⟨hobs, hfs, hw⟩ := hfirst
    subst hfs hw
    refine ⟨obs, hfirst0, ?_, fun _ => List.Perm.refl _⟩
    intro hu
    subst hu
    have hany : es.any (fun e => !keptId o registered skipped runOnly (tidOf e)) = false := by
      cases h : es.any (fun e => !keptId o registered skipped runOnly (tidOf e)) with
      | false => rfl
      | true => simp [h] at hc
    rw [← hobs, filter_eq_nil_of_any_false _ _ hany]; rfl
  · split at hfirst
    · cases hfirst
    · rename_i hc hord
      simp only [SnapsOutcome.ok.injEq] at hfirst
      obtain ⟨hobs, hfs, hw⟩ := hfirst
      have hperm : ids'.Perm (es.map tidOf) := by
        rw [← hids]
        split
        · exact sortNat_perm _
        · exact List.Perm.refl _
      have hsorted : sort = true → ids'.Pairwise NatLe := by
        intro hs
        subst hs
        rw [← hids]
        have := rewrite_ids_pairwise (es.map tidOf) (hto rfl)
        by_cases h : isSortedNat (es.map tidOf) = true <;> simpa [h] using this
      obtain ⟨hf2, hsub, hout, hnil⟩ := cleanOutcome_after_rewrite es hf p fs update sort
        (keptId o registered skipped runOnly) _ hperm hsorted
      refine ⟨((reorder (es.filter (fun e => keptId o registered skipped runOnly (tidOf e) || !update))
        ids').filter (fun e => !keptId o registered skipped runOnly (tidOf e))).map tidOf, ?_,
        fun hu => by rw [hnil hu]; rfl, ?_⟩
      · rw [← hfs]
        rw [examineSnaps_single o registered skipped runOnly _ cleanup p count update sort _ hf2
          (fsRead_fsWrite _ _ _) hreg (fun e he => hcls e (hsub e he))]
        exact hout
      · intro hu
        subst hu
        rw [← hobs]
        have hall : es.filter (fun e => keptId o registered skipped runOnly (tidOf e) || !false) = es :=
          List.filter_eq_self.mpr (fun _ _ => by simp)
        have := reorder_perm es (fun e => keptId o registered skipped runOnly (tidOf e) || !false)
          ids' hf.distinct hperm
        rw [hall] at this ⊢
        exact (this.filter _).map _

end Second

/-! ## `occurrences` -/

/-- the ordinals `occurrences` formats for a quotient `c = counter / count` -/
def occKs (c : Nat) : List Nat := (if c > 1 then (List.range c).map (· + 1) else []) ++ [c]

theorem mem_occKs (c k : Nat) : k ∈ occKs c ↔ k = c ∨ (1 ≤ k ∧ k ≤ c) := by
  unfold occKs
  split
  · simp only [List.mem_append, List.mem_map, List.mem_range, List.mem_singleton]
    constructor
    · rintro (⟨a, ha, rfl⟩ | h)
      · right; omega
      · left; exact h
    · rintro (h | ⟨h1, h2⟩)
      · right; exact h
      · left; exact ⟨k - 1, by omega, by omega⟩
  · simp only [List.nil_append, List.mem_singleton]
    constructor
    · intro h; left; exact h
    · rintro (h | ⟨h1, h2⟩)
      · exact h
      · omega

def occStep (count : Nat) (fmt : Text → Nat → Option Text) (acc : Option (List Text))
    (x : Text × Nat) : Option (List Text) :=
  match acc with
  | none => none
  | some r =>
    let all := (occKs (x.2 / count)).map (fmt x.1)
    if all.any (·.isNone) then none else some (r ++ all.filterMap (fun x => x))

theorem occurrences_eq (tests : List (Text × Nat)) (count : Nat) (fmt : Text → Nat → Option Text) :
    occurrences tests count fmt = tests.foldl (occStep count fmt) (some []) := rfl

theorem occFold_none (tests : List (Text × Nat)) (count : Nat) (fmt : Text → Nat → Option Text) :
    tests.foldl (occStep count fmt) none = none := by
  induction tests with
  | nil => rfl
  | cons x xs ih => simpa [occStep] using ih

/-- exact characterisation of the accumulated list -/
theorem occFold_spec (tests : List (Text × Nat)) (count : Nat) (fmt : Text → Nat → Option Text)
    (r r' : List Text) (h : tests.foldl (occStep count fmt) (some r) = some r') :
    ∃ tail, r' = r ++ tail ∧
      (∀ t ∈ tail, ∃ x ∈ tests, ∃ k ∈ occKs (x.2 / count), fmt x.1 k = some t) ∧
      (∀ x ∈ tests, ∀ k ∈ occKs (x.2 / count), ∃ t, fmt x.1 k = some t ∧ t ∈ tail) := by
  induction tests generalizing r with
  | nil =>
    simp only [List.foldl_nil, Option.some.injEq] at h
    exact ⟨[], by simp [h], by simp, by simp⟩
  | cons x xs ih =>
    rw [List.foldl_cons] at h
    by_cases hany : ((occKs (x.2 / count)).map (fmt x.1)).any (·.isNone) = true
    · have : occStep count fmt (some r) x = none := by simp only [occStep, hany, ↓reduceIte]
      rw [this, occFold_none] at h; cases h
    · have hstep : occStep count fmt (some r) x =
          some (r ++ ((occKs (x.2 / count)).map (fmt x.1)).filterMap (fun x => x)) := by
        simp only [occStep, hany, Bool.false_eq_true, ↓reduceIte]
      rw [hstep] at h
      obtain ⟨tail, rfl, hs, hc⟩ := ih _ h
      have hall : ∀ k ∈ occKs (x.2 / count), ∃ t, fmt x.1 k = some t := by
        intro k hk
        cases hf : fmt x.1 k with
        | some t => exact ⟨t, rfl⟩
        | none =>
          exfalso; apply hany
          rw [List.any_eq_true]
          exact ⟨none, List.mem_map.mpr ⟨k, hk, hf⟩, rfl⟩
      refine ⟨((occKs (x.2 / count)).map (fmt x.1)).filterMap (fun x => x) ++ tail, by simp, ?_, ?_⟩
      · intro t ht
        rcases List.mem_append.mp ht with h1 | h1
        · obtain ⟨a, ha, hat⟩ := List.mem_filterMap.mp h1
          obtain ⟨k, hk, hka⟩ := List.mem_map.mp ha
          exact ⟨x, by simp, k, hk, by rw [hka, hat]⟩
        · obtain ⟨y, hy, k, hk, hf⟩ := hs t h1
          exact ⟨y, by simp [hy], k, hk, hf⟩
      · intro y hy k hk
        rcases List.mem_cons.mp hy with rfl | hy'
        · obtain ⟨t, ht⟩ := hall k hk
          refine ⟨t, ht, List.mem_append.mpr (Or.inl ?_)⟩
          exact List.mem_filterMap.mpr ⟨some t, List.mem_map.mpr ⟨k, hk, ht⟩, rfl⟩
        · obtain ⟨t, ht, hm⟩ := hc y hy' k hk
          exact ⟨t, ht, List.mem_append.mpr (Or.inr hm)⟩

theorem snapshotOccFmt_eq (s : Text) (i : Nat) :
    snapshotOccFmt s i = some (s ++ [32, 45, 32] ++ natToText i) := by
  have hp : parseFmt Generated.occFmt = some [.verb 115, .lit [32, 45, 32], .verb 100] := by decide
  simp [snapshotOccFmt, sprintf, hp, fmtPieces, fmtVerb]

/-! ## `examineFiles` -/

theorem foldl_opt_inv {α β : Type} (f : Option α → β → Option α) (hnone : ∀ x, f none x = none)
    (P : α → Prop) (xs : List β)
    (hstep : ∀ a x a', x ∈ xs → P a → f (some a) x = some a' → P a')
    (a a' : α) (ha : P a) (h : xs.foldl f (some a) = some a') : P a' := by
  induction xs generalizing a with
  | nil => simp only [List.foldl_nil, Option.some.injEq] at h; exact h ▸ ha
  | cons x xs ih =>
    rw [List.foldl_cons] at h
    cases hf : f (some a) x with
    | none =>
      rw [hf] at h
      have : xs.foldl f none = none := by
        clear ih h hstep
        induction xs with
        | nil => rfl
        | cons y ys ih => rw [List.foldl_cons, hnone, ih]
      rw [this] at h; cases h
    | some b =>
      rw [hf] at h
      exact ih (fun a x a' hx => hstep a x a' (by simp [hx])) b
        (hstep a x b (by simp) ha hf) h

theorem mem_takeWhile_imp {α : Type} (p : α → Bool) (l : List α) (x : α)
    (h : x ∈ l.takeWhile p) : p x = true := by
  induction l with
  | nil => simp at h
  | cons a l ih =>
    simp only [List.takeWhile_cons] at h
    split at h
    · rcases List.mem_cons.mp h with rfl | h'
      · assumption
      · exact ih h'
    · simp at h

theorem mem_readDir_ins (x y : Text × Bool) (l : List (Text × Bool)) (h : y ∈ readDir.ins x l) :
    y = x ∨ y ∈ l := by
  induction l with
  | nil => simp only [readDir.ins, List.mem_singleton] at h; exact Or.inl h
  | cons z zs ih =>
    simp only [readDir.ins] at h
    split at h
    · rcases List.mem_cons.mp h with rfl | h'
      · right; simp
      · rcases ih h' with h'' | h''
        · left; exact h''
        · right; simp [h'']
    · rcases List.mem_cons.mp h with rfl | h'
      · left; rfl
      · right; exact h'

/-- directory entries have non-empty, slash-free names -/
theorem readDir_name (fs : FS) (dir : Text) (e : Text × Bool) (h : e ∈ readDir fs dir) :
    e.1 ≠ [] ∧ slash ∉ e.1 := by
  unfold readDir at h
  simp only at h
  generalize hpre : (if dir = [slash] then dir else dir ++ [slash]) = pre at h
  generalize hents : fs.filterMap _ = ents at h
  have h1 : ∀ e ∈ ents, e.1 ≠ [] ∧ slash ∉ e.1 := by
    intro e he
    rw [← hents] at he
    obtain ⟨⟨p, c⟩, _, hpc⟩ := List.mem_filterMap.mp he
    simp only at hpc
    split at hpc
    · split at hpc
      · cases hpc
      · rename_i hne
        simp only [Option.some.injEq] at hpc
        subst hpc
        refine ⟨hne, ?_⟩
        intro hm
        have := mem_takeWhile_imp _ _ _ hm
        simp at this
    · cases hpc
  have h2 : ∀ (l acc : List (Text × Bool)), (∀ e ∈ l, e.1 ≠ [] ∧ slash ∉ e.1) →
      (∀ e ∈ acc, e.1 ≠ [] ∧ slash ∉ e.1) →
      ∀ e ∈ l.foldl (fun acc e => if (acc.any fun x => decide (x.fst = e.fst)) = true then acc
        else acc ++ [e]) acc, e.1 ≠ [] ∧ slash ∉ e.1 := by
    intro l
    induction l with
    | nil => intro acc _ hacc; simpa using hacc
    | cons x xs ih =>
      intro acc hl hacc
      rw [List.foldl_cons]
      apply ih _ (fun e he => hl e (by simp [he]))
      split
      · exact hacc
      · intro e he
        rcases List.mem_append.mp he with h' | h'
        · exact hacc e h'
        · simp only [List.mem_singleton] at h'; subst h'; exact hl _ (by simp)
  have h3 : ∀ (l : List (Text × Bool)), (∀ e ∈ l, e.1 ≠ [] ∧ slash ∉ e.1) →
      ∀ e ∈ l.foldr (fun x acc => readDir.ins x acc) [], e.1 ≠ [] ∧ slash ∉ e.1 := by
    intro l
    induction l with
    | nil => intro _ e he; simp at he
    | cons x xs ih =>
      intro hl e he
      rw [List.foldr_cons] at he
      rcases mem_readDir_ins _ _ _ he with rfl | h'
      · exact hl _ (by simp)
      · exact ih (fun e he => hl e (by simp [he])) e h'
  exact h3 _ (h2 _ _ h1 (by simp)) e h

theorem mem_sortBytes_ins (x y : Text) (l : List Text) (h : y ∈ sortBytes.ins x l) :
    y = x ∨ y ∈ l := by
  induction l with
  | nil => simp only [sortBytes.ins, List.mem_singleton] at h; exact Or.inl h
  | cons z zs ih =>
    simp only [sortBytes.ins] at h
    split at h
    · rcases List.mem_cons.mp h with rfl | h'
      · right; simp
      · rcases ih h' with h'' | h''
        · left; exact h''
        · right; simp [h'']
    · rcases List.mem_cons.mp h with rfl | h'
      · left; rfl
      · right; exact h'

theorem mem_sortBytes (l : List Text) (x : Text) (h : x ∈ sortBytes l) : x ∈ l := by
  unfold sortBytes at h
  induction l with
  | nil => simp at h
  | cons a l ih =>
    rw [List.foldr_cons] at h
    rcases mem_sortBytes_ins _ _ _ h with rfl | h'
    · simp
    · simp [ih h']

theorem mem_dedup (l : List Text) (x : Text) (h : x ∈ dedup l) : x ∈ l := by
  unfold dedup at h
  have : ∀ (l acc : List Text), x ∈ l.foldl (fun acc x => if acc.contains x then acc else acc ++ [x]) acc →
      x ∈ acc ∨ x ∈ l := by
    intro l
    induction l with
    | nil => intro acc h; left; simpa using h
    | cons a l ih =>
      intro acc h
      rw [List.foldl_cons] at h
      rcases ih _ h with h' | h'
      · split at h'
        · left; exact h'
        · rcases List.mem_append.mp h' with h'' | h''
          · left; exact h''
          · right; simp only [List.mem_singleton] at h''; simp [h'']
      · right; simp [h']
  rcases this l [] h with h' | h'
  · simp at h'
  · exact h'

/-- the per-entry step of `examineFiles` -/
def filesInner (o : Oracles) (regPaths standalone : List Text) (runOnly : Text) (update : Bool)
    (dir : Text) (acc : Option FilesResult) (x : Text × Bool) : Option FilesResult :=
  match acc with
  | none => none
  | some r =>
    if x.2 || !(containsSub x.1 Generated.snapsExt) then some r
    else
      let p := fpJoin [dir, x.1]
      if regPaths.contains p then some { r with used := r.used ++ [p] }
      else if standalone.contains p then some r
      else match isFileSkipped o dir x.1 runOnly with
        | none => none
        | some true => some r
        | some false =>
          if update then
            some { r with obsolete := r.obsolete ++ [p], fs := fsRemove r.fs p, removed := r.removed ++ [p] }
          else some { r with obsolete := r.obsolete ++ [p] }

/-- the per-directory step of `examineFiles` -/
def filesOuter (o : Oracles) (regPaths standalone : List Text) (runOnly : Text) (update : Bool)
    (acc : Option FilesResult) (dir : Text) : Option FilesResult :=
  match acc with
  | none => none
  | some r0 =>
    (readDir r0.fs dir).foldl (filesInner o regPaths standalone runOnly update dir) (some r0)

theorem examineFiles_eq (o : Oracles) (fs : FS) (regPaths standalone : List Text) (runOnly : Text)
    (update : Bool) :
    examineFiles o fs regPaths standalone runOnly update =
      (sortBytes (dedup ((regPaths ++ standalone).map fpDir))).foldl
        (filesOuter o regPaths standalone runOnly update) (some { fs := fs }) := rfl

/-- a path `examineFiles` may report / remove: a `.snap`-named entry directly inside a visited
    directory that is neither a registered file nor a registered standalone snapshot -/
def Orphan (regPaths standalone : List Text) (p : Text) : Prop :=
  ∃ dir ∈ (regPaths ++ standalone).map fpDir, ∃ name,
    p = fpJoin [dir, name] ∧ containsSub name Generated.snapsExt = true ∧
    name ≠ [] ∧ slash ∉ name ∧ p ∉ regPaths ∧ p ∉ standalone

/-- the invariant of both loops of `examineFiles` -/
structure FilesInv (fs : FS) (regPaths standalone : List Text) (update : Bool) (r : FilesResult) : Prop where
  fs_eq : r.fs = r.removed.foldl fsRemove fs
  removed_eq : r.removed = if update then r.obsolete else []
  orphan : ∀ p ∈ r.obsolete, Orphan regPaths standalone p

theorem filesInner_inv (o : Oracles) (fs : FS) (regPaths standalone : List Text) (runOnly : Text)
    (update : Bool) (dir : Text) (hdir : dir ∈ (regPaths ++ standalone).map fpDir)
    (r r' : FilesResult) (x : Text × Bool) (hx : x.1 ≠ [] ∧ slash ∉ x.1)
    (hr : FilesInv fs regPaths standalone update r)
    (h : filesInner o regPaths standalone runOnly update dir (some r) x = some r') :
    FilesInv fs regPaths standalone update r' := by
  unfold filesInner at h
  simp only at h
  split at h
  · cases h; exact hr
  · rename_i hc
    split at h
    · cases h; exact ⟨hr.fs_eq, hr.removed_eq, hr.orphan⟩
    · rename_i hreg
      split at h
      · cases h; exact hr
      · rename_i hsa
        split at h
        · cases h
        · cases h; exact hr
        · have horph : Orphan regPaths standalone (fpJoin [dir, x.1]) := by
            refine ⟨dir, hdir, x.1, rfl, ?_, hx.1, hx.2, ?_, ?_⟩
            · simp only [Bool.or_eq_true, Bool.not_eq_true', not_or, Bool.not_eq_false] at hc
              exact hc.2
            · simpa using hreg
            · simpa using hsa
          split at h
          · rename_i hu
            cases h
            refine ⟨?_, ?_, ?_⟩
            · simp [List.foldl_append, hr.fs_eq]
            · simp [hu, hr.removed_eq]
            · intro p hp
              rcases List.mem_append.mp hp with h' | h'
              · exact hr.orphan p h'
              · simp only [List.mem_singleton] at h'; subst h'; exact horph
          · rename_i hu
            cases h
            refine ⟨hr.fs_eq, ?_, ?_⟩
            · simp [hu, hr.removed_eq]
            · intro p hp
              rcases List.mem_append.mp hp with h' | h'
              · exact hr.orphan p h'
              · simp only [List.mem_singleton] at h'; subst h'; exact horph

theorem examineFiles_inv (o : Oracles) (fs : FS) (regPaths standalone : List Text) (runOnly : Text)
    (update : Bool) (r : FilesResult)
    (h : examineFiles o fs regPaths standalone runOnly update = some r) :
    FilesInv fs regPaths standalone update r := by
  rw [examineFiles_eq] at h
  refine foldl_opt_inv (filesOuter o regPaths standalone runOnly update) (fun _ => rfl)
    (FilesInv fs regPaths standalone update) _ ?_ { fs := fs } r ?_ h
  · intro a dir a' hdir ha hstep
    have hdir' : dir ∈ (regPaths ++ standalone).map fpDir := mem_dedup _ _ (mem_sortBytes _ _ hdir)
    unfold filesOuter at hstep
    simp only at hstep
    refine foldl_opt_inv (filesInner o regPaths standalone runOnly update dir) (fun _ => rfl)
      (FilesInv fs regPaths standalone update) _ ?_ a a' ha hstep
    intro b x b' hx hb hs
    exact filesInner_inv o fs regPaths standalone runOnly update dir hdir' b b' x
      (readDir_name _ _ x hx) hb hs
  · exact ⟨rfl, by simp, by simp⟩

theorem fsRead_fsRemove (fs : FS) (p q : Text) :
    fsRead (fsRemove fs p) q = if q = p then none else fsRead fs q := by
  unfold fsRemove
  induction fs with
  | nil => simp [fsRead]
  | cons kv fs ih =>
    obtain ⟨p', c⟩ := kv
    by_cases h1 : p' = p
    · subst h1
      by_cases h2 : q = p'
      · subst h2; simpa [List.filter_cons] using ih
      · have h3 : ¬ p' = q := fun e => h2 e.symm
        simp only [List.filter_cons, ne_eq, not_true_eq_false, decide_false, Bool.false_eq_true,
          ↓reduceIte, fsRead, h3, ih, h2]
    · simp only [List.filter_cons, ne_eq, h1, not_false_eq_true, decide_true, ↓reduceIte, fsRead, ih]
      by_cases h2 : p' = q
      · subst h2; simp [h1]
      · simp [h2]

theorem fsRead_foldl_fsRemove (fs : FS) (ps : List Text) (q : Text) (hq : q ∉ ps) :
    fsRead (ps.foldl fsRemove fs) q = fsRead fs q := by
  induction ps generalizing fs with
  | nil => rfl
  | cons p ps ih =>
    rw [List.foldl_cons, ih _ (fun h => hq (by simp [h])), fsRead_fsRemove]
    have : q ≠ p := fun e => hq (by simp [e])
    simp [this]

/-! ## report-only mode, and the skip rules without `-run` -/

theorem examineSnaps_go_noop (o : Oracles) (cleanup : List (RegKey × Nat)) (skipped : List Text)
    (runOnly : Text) (count : Nat) (used : List Text) (fs : FS) (obs written : List Text)
    (obs' : List Text) (fs' : FS) (w' : List Text)
    (h : examineSnaps.go o cleanup skipped runOnly count false false used fs obs written =
      .ok obs' fs' w') : fs' = fs ∧ w' = written := by
  induction used generalizing obs with
  | nil =>
    rw [examineSnaps_go_nil] at h
    simp only [SnapsOutcome.ok.injEq] at h
    exact ⟨h.2.1.symm, h.2.2.symm⟩
  | cons p rest ih =>
    rw [examineSnaps_go_cons] at h
    simp only [Bool.false_and, Bool.not_false, Bool.and_self, ↓reduceIte] at h
    split at h
    · cases h
    · split at h
      · cases h
      · split at h
        · cases h
        · split at h
          · cases h
          · exact ih _ h

/-- the skip-list test of `testSkipped` -/
def skipListed (skipped : List Text) (tid : Text) : Bool :=
  skipped.any (fun name => beforeSep tid Generated.skipSep = name ||
    hasPrefix (beforeSep tid Generated.skipSep) (name ++ [slash]))

theorem testSkipped_noRun (o : Oracles) (skipped : List Text) (tid : Text) :
    testSkipped o skipped tid [] = some (skipListed skipped tid) := by
  unfold testSkipped skipListed
  simp only [Oracles.reMatch, ↓reduceIte, Option.map_some, Bool.not_true]
  split
  · rename_i h; rw [h]
  · rename_i h; simp only [Bool.not_eq_true] at h; rw [h]

theorem keptId_noRun (o : Oracles) (registered skipped : List Text) (tid : Text) :
    keptId o registered skipped [] tid = (registered.contains tid || skipListed skipped tid) := by
  unfold keptId; rw [testSkipped_noRun]; simp

theorem classified_noRun (o : Oracles) (registered skipped : List Text) (tid : Text) :
    Classified o registered skipped [] tid := by
  unfold Classified keptId staleId
  rw [testSkipped_noRun]
  cases registered.contains tid <;> cases skipListed skipped tid <;> simp

/-- in a `CleanFile`, a header is shadowed by no earlier line unless an earlier *body* contains
    a line equal to it (finding D9) -/
theorem CleanFile.noShadow {pre post : List Entry} {e : Entry} (hf : CleanFile (pre ++ e :: post))
    (hns : ∀ b ∈ pre, e.id ∉ lines b.body) : e.id ∉ fileLines pre := by
  intro hm
  obtain ⟨x, hx, hl⟩ := mem_fileLines.mp hm
  have hid := (hf.recognised e (by simp)).id_eq
  simp only [entryLines, List.cons_append, List.nil_append, List.mem_cons, List.mem_append,
    List.not_mem_nil, or_false] at hl
  rcases hl with h | h | h | h
  · rw [hid] at h; cases h
  · have ht : tidOf e = tidOf x := by unfold tidOf; rw [h]
    have hnd := hf.distinct
    simp only [List.map_append, List.map_cons] at hnd
    exact (List.nodup_append.mp hnd).2.2 _ (List.mem_map_of_mem hx) _ (by simp) ht.symm
  · exact hns x hx h
  · rw [hid] at h; cases h

/-! ## reading off a successful file step -/

/-- a successful file step reports exactly the stale ids, and either leaves the file system
    alone or writes the stored entries (kept, and in report-only mode also the stale ones) along
    a permutation of the id list -/
theorem cleanOutcome_ok (K : Text → Bool) (es : List Entry) (p : Text) (fs : FS)
    (update sort : Bool) (obs : List Text) (fs' : FS) (w : List Text)
    (h : cleanOutcome K es p fs update sort = .ok obs fs' w) :
    obs = (es.filter (fun e => !K (tidOf e))).map tidOf ∧
    ((fs' = fs ∧ w = []) ∨
      ∃ ids', ids'.Perm (es.map tidOf) ∧ w = [p] ∧
        fs' = fsWrite fs p (render (reorder (es.filter (fun e => K (tidOf e) || !update)) ids'))) := by
  unfold cleanOutcome at h
  simp only at h
  generalize hids : (if (sort && !(isSortedNat (es.map tidOf))) = true then sortNat (es.map tidOf)
    else es.map tidOf) = ids' at h
  have hperm : ids'.Perm (es.map tidOf) := by
    rw [← hids]
    split
    · exact sortNat_perm _
    · exact List.Perm.refl _
  split at h
  · simp only [SnapsOutcome.ok.injEq] at h
    exact ⟨h.1.symm, Or.inl ⟨h.2.1.symm, h.2.2.symm⟩⟩
  · split at h
    · cases h
    · simp only [SnapsOutcome.ok.injEq] at h
      exact ⟨h.1.symm, Or.inr ⟨ids', hperm, h.2.2.symm, h.2.1.symm⟩⟩

/-- **reading off a successful file step**: the stale ids are reported; afterwards the file is
    again a `CleanFile`, either untouched or a permutation of the stored entries (the kept ones,
    plus the stale ones in report-only mode) -/
theorem examineSnaps_single_ok (o : Oracles) (registered skipped : List Text) (runOnly : Text)
    (fs : FS) (cleanup : List (RegKey × Nat)) (p : Text) (count : Nat)
    (update sort : Bool) (es : List Entry) (hf : CleanFile es)
    (hread : fsRead fs p = some (render es))
    (hreg : registeredFor cleanup p count = some registered)
    (hcls : ∀ e ∈ es, Classified o registered skipped runOnly (tidOf e))
    (obs : List Text) (fs' : FS) (w : List Text)
    (hfirst : examineSnaps o fs cleanup skipped [p] runOnly count update sort = .ok obs fs' w) :
    obs = (es.filter (fun e => !keptId o registered skipped runOnly (tidOf e))).map tidOf ∧
    ∃ es', CleanFile es' ∧ fsRead fs' p = some (render es') ∧
      ((fs' = fs ∧ w = [] ∧ es' = es) ∨
       (fs' = fsWrite fs p (render es') ∧ w = [p] ∧
        es'.Perm (es.filter (fun e => keptId o registered skipped runOnly (tidOf e) || !update)))) := by
  rw [examineSnaps_single o registered skipped runOnly fs cleanup p count update sort es hf hread
    hreg hcls] at hfirst
  obtain ⟨hobs, hfs⟩ := cleanOutcome_ok _ es p fs update sort obs fs' w hfirst
  refine ⟨hobs, ?_⟩
  rcases hfs with ⟨rfl, rfl⟩ | ⟨ids', hperm, rfl, rfl⟩
  · exact ⟨es, hf, hread, Or.inl ⟨rfl, rfl, rfl⟩⟩
  · exact ⟨_, (cleanFile_reorder es hf _ ids' hperm).1, fsRead_fsWrite _ _ _,
      Or.inr ⟨rfl, rfl, reorder_perm es _ ids' hf.distinct hperm⟩⟩

theorem occurrences_snapshot_total (tests : List (Text × Nat)) (count : Nat) :
    ∃ r, occurrences tests count snapshotOccFmt = some r := by
  rw [occurrences_eq]
  generalize ([] : List Text) = r0
  induction tests generalizing r0 with
  | nil => exact ⟨r0, rfl⟩
  | cons x xs ih =>
    rw [List.foldl_cons]
    have : ((occKs (x.2 / count)).map (snapshotOccFmt x.1)).any (·.isNone) = false := by
      rw [List.any_eq_false]
      intro a ha
      obtain ⟨k, _, hk⟩ := List.mem_map.mp ha
      rw [← hk, snapshotOccFmt_eq]; simp
    simp only [occStep, this, Bool.false_eq_true, ↓reduceIte]
    exact ih _

/-! ## the whole file loop -/

theorem fsRead_fsWrite_ne (fs : FS) (p c q : Text) (h : q ≠ p) :
    fsRead (fsWrite fs p c) q = fsRead fs q := by
  induction fs with
  | nil =>
    have : ¬ p = q := fun e => h e.symm
    simp [fsWrite, fsRead, this]
  | cons kv fs ih =>
    obtain ⟨p', c'⟩ := kv
    by_cases h1 : p' = p
    · subst h1
      have : ¬ p' = q := fun e => h e.symm
      simp [fsWrite, fsRead, this]
    · by_cases h2 : p' = q
      · subst h2; simp [fsWrite, fsRead, h1]
      · simp [fsWrite, fsRead, h1, h2, ih]

/-- one iteration of the file loop on a `CleanFile`, with an arbitrary continuation -/
theorem examineSnaps_go_cons_clean (o : Oracles) (registered skipped : List Text) (runOnly : Text)
    (fs : FS) (cleanup : List (RegKey × Nat)) (p : Text) (rest : List Text) (count : Nat)
    (update sort : Bool) (obs written : List Text) (es : List Entry) (hf : CleanFile es)
    (hread : fsRead fs p = some (render es))
    (hreg : registeredFor cleanup p count = some registered)
    (hcls : ∀ e ∈ es, Classified o registered skipped runOnly (tidOf e)) :
    examineSnaps.go o cleanup skipped runOnly count update sort (p :: rest) fs obs written =
      match cleanOutcome (keptId o registered skipped runOnly) es p fs update sort with
      | .ok st fs1 w1 =>
        examineSnaps.go o cleanup skipped runOnly count update sort rest fs1 (obs ++ st) (written ++ w1)
      | x => x := by
  have hnp : (scan (render es)).any getTestIDPanics = false := by
    rw [hf.scan_render]; exact hf.noPanic
  rw [examineSnaps_go_cons]
  simp only [hread, hreg, hnp, exScan_cleanFile o registered skipped runOnly update es hf hcls]
  have hrec : ∀ e ∈ es.filter (fun e => keptId o registered skipped runOnly (tidOf e) || !update),
      Recognised e :=
    fun e he => hf.recognised e (List.mem_filter.mp he).1
  simp only [rewriteFrames_noFail _ _ hrec, rewriteFrames_bytes _ _ hrec]
  unfold cleanOutcome
  simp only [Bool.false_eq_true, ↓reduceIte]
  generalize (if (sort && !(isSortedNat (es.map tidOf))) = true then sortNat (es.map tidOf)
    else es.map tidOf) = ids'
  split
  · simp
  · split <;> rfl

/-- **frame property of the file loop**, any mode: only files of `used` are ever written, and
    every other path reads as before -/
theorem examineSnaps_go_frame (o : Oracles) (cleanup : List (RegKey × Nat)) (skipped : List Text)
    (runOnly : Text) (count : Nat) (update sort : Bool) (used : List Text) (fs : FS)
    (obs written : List Text) (obs' : List Text) (fs' : FS) (w' : List Text)
    (h : examineSnaps.go o cleanup skipped runOnly count update sort used fs obs written =
      .ok obs' fs' w') :
    (∀ q, q ∉ used → fsRead fs' q = fsRead fs q) ∧
    ∃ w2, w' = written ++ w2 ∧ ∀ x ∈ w2, x ∈ used := by
  induction used generalizing fs obs written with
  | nil =>
    rw [examineSnaps_go_nil] at h
    simp only [SnapsOutcome.ok.injEq] at h
    obtain ⟨_, rfl, rfl⟩ := h
    exact ⟨fun _ _ => rfl, [], by simp, by simp⟩
  | cons p rest ih =>
    rw [examineSnaps_go_cons] at h
    split at h
    · cases h
    · split at h
      · cases h
      · rename_i registered _
        simp only [] at h
        generalize exScan o registered skipped runOnly update _ .outer {} = st at h
        generalize (if (sort && !(isSortedNat st.testIDs)) = true then sortNat st.testIDs
          else st.testIDs) = ids' at h
        split at h
        · cases h
        · split at h
          · cases h
          · split at h
            · obtain ⟨h1, w2, h2, h3⟩ := ih _ _ _ h
              exact ⟨fun q hq => h1 q (fun hm => hq (by simp [hm])), w2, h2,
                fun x hx => by simp [h3 x hx]⟩
            · split at h
              · cases h
              · split at h
                · cases h
                · obtain ⟨h1, w2, h2, h3⟩ := ih _ _ _ h
                  refine ⟨?_, p :: w2, by simp [h2], ?_⟩
                  · intro q hq
                    rw [h1 q (fun hm => hq (by simp [hm]))]
                    exact fsRead_fsWrite_ne _ _ _ _ (fun e => hq (by simp [e]))
                  · intro x hx
                    rcases List.mem_cons.mp hx with rfl | hx'
                    · simp
                    · simp [h3 x hx']

/-- one successful iteration on a `CleanFile`: the loop continues from a file system in which
    `p` holds a permutation of the stored entries and every other path is unchanged -/
theorem examineSnaps_go_step (o : Oracles) (registered skipped : List Text) (runOnly : Text)
    (fs : FS) (cleanup : List (RegKey × Nat)) (p : Text) (rest : List Text) (count : Nat)
    (update sort : Bool) (obs written : List Text) (es : List Entry) (hf : CleanFile es)
    (hread : fsRead fs p = some (render es))
    (hreg : registeredFor cleanup p count = some registered)
    (hcls : ∀ e ∈ es, Classified o registered skipped runOnly (tidOf e))
    (obs' : List Text) (fs' : FS) (w' : List Text)
    (h : examineSnaps.go o cleanup skipped runOnly count update sort (p :: rest) fs obs written =
      .ok obs' fs' w') :
    ∃ fs1 obs1 w1 es2,
      examineSnaps.go o cleanup skipped runOnly count update sort rest fs1 obs1 w1 = .ok obs' fs' w' ∧
      CleanFile es2 ∧
      es2.Perm (es.filter (fun e => keptId o registered skipped runOnly (tidOf e) || !update)) ∧
      (∀ e ∈ es2, e ∈ es) ∧
      fsRead fs1 p = some (render es2) ∧ (∀ q, q ≠ p → fsRead fs1 q = fsRead fs q) ∧
      (update = false → es2.Perm es) ∧ (fs1 = fs ∨ fs1 = fsWrite fs p (render es2)) := by
  rw [examineSnaps_go_cons_clean o registered skipped runOnly fs cleanup p rest count update sort
    obs written es hf hread hreg hcls] at h
  have hall : update = false →
      es.filter (fun e => keptId o registered skipped runOnly (tidOf e) || !update) = es := by
    intro hu; subst hu; exact List.filter_eq_self.mpr (fun _ _ => by simp)
  cases hco : cleanOutcome (keptId o registered skipped runOnly) es p fs update sort with
  | ok st fs1 w1 =>
    rw [hco] at h
    simp only at h
    obtain ⟨_, hfs⟩ := cleanOutcome_ok _ es p fs update sort st fs1 w1 hco
    rcases hfs with ⟨rfl, rfl⟩ | ⟨ids', hperm, rfl, rfl⟩
    · -- untouched: in clean mode nothing was stale, so the stored entries are all entries
      have hstored : es.filter (fun e => keptId o registered skipped runOnly (tidOf e) || !update) = es := by
        cases hu : update with
        | false => exact List.filter_eq_self.mpr (fun _ _ => by simp)
        | true =>
          apply List.filter_eq_self.mpr
          intro e he
          unfold cleanOutcome at hco
          simp only [hu, Bool.true_and] at hco
          generalize (if (sort && !(isSortedNat (es.map tidOf))) = true then sortNat (es.map tidOf)
            else es.map tidOf) = ids' at hco
          by_cases hany : es.any (fun e => !keptId o registered skipped runOnly (tidOf e)) = true
          · exfalso
            simp only [hany, Bool.not_true, Bool.false_and, Bool.false_eq_true, ↓reduceIte] at hco
            split at hco
            · cases hco
            · simp only [SnapsOutcome.ok.injEq] at hco
              exact absurd hco.2.2 (by simp)
          · have hk : ∀ x ∈ es, keptId o registered skipped runOnly (tidOf x) = true := by
              simpa using hany
            simp [hk e he]
      refine ⟨fs1, _, _, es, h, hf, by rw [hstored], fun _ he => he, hread, fun _ _ => rfl,
        fun _ => List.Perm.refl _, Or.inl rfl⟩
    · obtain ⟨hf2, hsub⟩ := cleanFile_reorder es hf
        (fun e => keptId o registered skipped runOnly (tidOf e) || !update) ids' hperm
      have hp2 := reorder_perm es (fun e => keptId o registered skipped runOnly (tidOf e) || !update)
        ids' hf.distinct hperm
      refine ⟨_, _, _, _, h, hf2, hp2, fun e he => (hsub e he).1, fsRead_fsWrite _ _ _,
        fun q hq => fsRead_fsWrite_ne _ _ _ _ hq, ?_, Or.inr rfl⟩
      intro hu
      have := hall hu
      rw [this] at hp2
      rw [this]; exact hp2
  | missingOracle => rw [hco] at h; cases h
  | unsupportedOrder => rw [hco] at h; cases h
  | panics => rw [hco] at h; cases h
  | badFormat => rw [hco] at h; cases h

/-- **report-only runs lose nothing, for any list of used files** (`update = false`, any `sort`):
    whatever entry list a path held before, it holds a permutation of it afterwards.
    `hok`: the used files are `CleanFile`s; `hcls`: no oracle miss. -/
theorem examineSnaps_go_no_loss (o : Oracles) (cleanup : List (RegKey × Nat)) (skipped : List Text)
    (runOnly : Text) (count : Nat) (sort : Bool) (used : List Text)
    (hcls : ∀ p ∈ used, ∀ registered, registeredFor cleanup p count = some registered →
      ∀ tid, Classified o registered skipped runOnly tid)
    (fs : FS) (obs written : List Text)
    (hok : ∀ p ∈ used, ∃ es, CleanFile es ∧ fsRead fs p = some (render es))
    (obs' : List Text) (fs' : FS) (w' : List Text)
    (h : examineSnaps.go o cleanup skipped runOnly count false sort used fs obs written =
      .ok obs' fs' w')
    (q : Text) (es : List Entry) (hfes : CleanFile es) (hq : fsRead fs q = some (render es)) :
    ∃ es', es'.Perm es ∧ CleanFile es' ∧ fsRead fs' q = some (render es') := by
  induction used generalizing fs obs written es with
  | nil =>
    rw [examineSnaps_go_nil] at h
    simp only [SnapsOutcome.ok.injEq] at h
    obtain ⟨_, rfl, _⟩ := h
    exact ⟨es, List.Perm.refl _, hfes, hq⟩
  | cons p rest ih =>
    obtain ⟨registered, hreg⟩ : ∃ r, registeredFor cleanup p count = some r :=
      occurrences_snapshot_total _ count
    have hc := hcls p (by simp) registered hreg
    have ih' := ih (fun p' hp' => hcls p' (by simp [hp']))
    by_cases hpq : p = q
    · subst hpq
      obtain ⟨fs1, obs1, w1, es2, hgo, hf2, _, _, hr2, hne, hperm, _⟩ :=
        examineSnaps_go_step o registered skipped runOnly fs cleanup p rest count false sort obs
          written es hfes hq hreg (fun e _ => hc _) obs' fs' w' h
      have hok1 : ∀ p' ∈ rest, ∃ es, CleanFile es ∧ fsRead fs1 p' = some (render es) := by
        intro p' hp'
        by_cases e : p' = p
        · subst e; exact ⟨es2, hf2, hr2⟩
        · rw [hne p' e]; exact hok p' (by simp [hp'])
      obtain ⟨es', hp', hf', hr'⟩ := ih' fs1 obs1 w1 hok1 hgo es2 hf2 hr2
      exact ⟨es', hp'.trans (hperm rfl), hf', hr'⟩
    · obtain ⟨esp, hfp, hrp⟩ := hok p (by simp)
      obtain ⟨fs1, obs1, w1, es2, hgo, hf2, _, _, hr2, hne, _, _⟩ :=
        examineSnaps_go_step o registered skipped runOnly fs cleanup p rest count false sort obs
          written esp hfp hrp hreg (fun e _ => hc _) obs' fs' w' h
      have hok1 : ∀ p' ∈ rest, ∃ es, CleanFile es ∧ fsRead fs1 p' = some (render es) := by
        intro p' hp'
        by_cases e : p' = p
        · subst e; exact ⟨es2, hf2, hr2⟩
        · rw [hne p' e]; exact hok p' (by simp [hp'])
      have hq1 : fsRead fs1 q = some (render es) := by
        rw [hne q (fun e => hpq e.symm)]; exact hq
      exact ih' fs1 obs1 w1 hok1 hgo es hfes hq1

end GoSnaps
