/-
Helper lemmas for C06 (serialisability of the lock protocol).  Statements of record are in
`Props/C06.lean`.
-/
import GoSnaps.Conc

namespace GoSnaps.Conc

variable {κ ν : Type} [DecidableEq κ] [DecidableEq ν]

/-! ## `lookup`, `setVal`, `writePhase` -/

omit [DecidableEq ν] in
theorem lookup_append_other (f : File κ ν) (s s' : κ) (v : ν) (h : s' ≠ s) :
    lookup (f ++ [(s', v)]) s = lookup f s := by
  induction f with
  | nil => simp [lookup, h]
  | cons e f ih => obtain ⟨a, b⟩ := e; simp only [List.cons_append, lookup]; split <;> simp_all

omit [DecidableEq ν] in
theorem lookup_append_self_none (f : File κ ν) (s : κ) (v : ν) (h : lookup f s = none) :
    lookup (f ++ [(s, v)]) s = some v := by
  induction f with
  | nil => simp [lookup]
  | cons e f ih =>
    obtain ⟨a, b⟩ := e
    simp only [List.cons_append, lookup] at h ⊢
    split
    · rename_i e; simp [e] at h
    · rename_i e; simp [e] at h; exact ih h

omit [DecidableEq ν] in
theorem lookup_setVal_other (f : File κ ν) (s s' : κ) (v : ν) (h : s' ≠ s) :
    lookup (setVal f s' v) s = lookup f s := by
  induction f with
  | nil => simp [setVal, lookup]
  | cons e f ih =>
    obtain ⟨a, b⟩ := e
    simp only [setVal, List.map_cons, lookup] at ih ⊢
    by_cases ha : a = s'
    · subst ha; simp [h, ih]
    · simp only [ha, ↓reduceIte]; split <;> simp_all

omit [DecidableEq ν] in
theorem lookup_setVal_self (f : File κ ν) (s : κ) (v v0 : ν) (h : lookup f s = some v0) :
    lookup (setVal f s v) s = some v := by
  induction f with
  | nil => simp [lookup] at h
  | cons e f ih =>
    obtain ⟨a, b⟩ := e
    simp only [setVal, List.map_cons, lookup] at h ih ⊢
    by_cases ha : a = s
    · simp [ha]
    · simp only [ha, ↓reduceIte] at h ⊢; exact ih h

omit [DecidableEq ν] in
theorem lookup_eq_none_iff (f : File κ ν) (s : κ) :
    lookup f s = none ↔ s ∉ f.map Prod.fst := by
  induction f with
  | nil => simp [lookup]
  | cons e f ih =>
    obtain ⟨a, b⟩ := e
    simp only [lookup, List.map_cons, List.mem_cons, not_or]
    by_cases ha : a = s
    · simp [ha]
    · simp only [ha, ↓reduceIte, ih]
      constructor
      · intro h; exact ⟨fun e => ha e.symm, h⟩
      · intro h; exact h.2

omit [DecidableEq ν] in
theorem setVal_map_fst (f : File κ ν) (s : κ) (v : ν) :
    (setVal f s v).map Prod.fst = f.map Prod.fst := by
  induction f with
  | nil => rfl
  | cons e f ih =>
    simp only [setVal, List.map_cons] at ih ⊢
    rw [ih]
    by_cases h : e.1 = s <;> simp [h]

/-- a write phase for slot `c.slot`, fed with the current content of that slot, leaves every
other slot alone and moves its own slot to `after` -/
theorem writePhase_lookup (f : File κ ν) (c : Call κ ν) (s : κ) :
    lookup (writePhase f c (lookup f c.slot)).1 s =
      if s = c.slot then after c (lookup f c.slot) else lookup f s := by
  unfold writePhase after
  by_cases hs : s = c.slot
  · subst hs
    simp only [↓reduceIte]
    cases hr : lookup f c.slot with
    | none =>
      simp only
      split
      · simp [lookup_append_self_none f _ _ hr]
      · simp [hr]
    | some v0 =>
      simp only
      split
      · simp [hr]
      · split
        · simp [lookup_setVal_self f _ _ v0 hr]
        · simp [hr]
  · simp only [hs, ↓reduceIte]
    have hs' : c.slot ≠ s := fun e => hs e.symm
    cases lookup f c.slot with
    | none => simp only; split <;> simp [lookup_append_other _ _ _ _ hs']
    | some v0 =>
      simp only
      split
      · rfl
      · split <;> simp [lookup_setVal_other _ _ _ _ hs']

theorem lookup_writePhase_fun (f : File κ ν) (c : Call κ ν) :
    lookup (writePhase f c (lookup f c.slot)).1 =
      fun s => if s = c.slot then after c (lookup f c.slot) else lookup f s := by
  funext s; exact writePhase_lookup f c s

theorem writePhase_outcome_indep (f g : File κ ν) (c : Call κ ν) (r : Option ν) :
    (writePhase f c r).2 = (writePhase g c r).2 := by
  unfold writePhase; cases r <;> simp only <;> (repeat' split) <;> rfl

theorem serialOuts_congr (l1 l2 : κ → Option ν) (cs : List (Call κ ν))
    (h : ∀ c ∈ cs, l1 c.slot = l2 c.slot) : serialOuts l1 cs = serialOuts l2 cs := by
  induction cs generalizing l1 l2 with
  | nil => rfl
  | cons c cs ih =>
    simp only [serialOuts]
    have hc := h c (by simp)
    rw [hc]
    congr 1
    apply ih
    intro d hd
    by_cases e : d.slot = c.slot
    · simp [e]
    · simp [e, h d (by simp [hd])]

theorem serialOuts_length (l : κ → Option ν) (cs : List (Call κ ν)) :
    (serialOuts l cs).length = cs.length := by
  induction cs generalizing l with
  | nil => rfl
  | cons c cs ih => simp [serialOuts, ih]

theorem serialFinal_unowned (p : List (Call κ ν)) (s : κ) (r : Option ν)
    (h : ∀ c ∈ p, c.slot ≠ s) : serialFinal p s r = r := by
  induction p generalizing r with
  | nil => rfl
  | cons c cs ih =>
    simp only [serialFinal]
    have hc : c.slot ≠ s := h c (by simp)
    simp only [hc, ↓reduceIte]
    exact ih r (fun d hd => h d (by simp [hd]))

omit [DecidableEq κ] [DecidableEq ν] in
theorem Disj.get {progs : List (List (Call κ ν))} (h : Disj progs) {i j : Nat} {p q : List (Call κ ν)}
    (hij : i ≠ j) (hp : progs[i]? = some p) (hq : progs[j]? = some q) :
    ∀ c ∈ p, ∀ d ∈ q, c.slot ≠ d.slot := by
  unfold Disj at h
  rw [List.pairwise_iff_getElem] at h
  obtain ⟨hi, rfl⟩ := List.getElem?_eq_some_iff.mp hp
  obtain ⟨hj, rfl⟩ := List.getElem?_eq_some_iff.mp hq
  rcases Nat.lt_or_gt_of_ne hij with hlt | hgt
  · exact h i j hi hj hlt
  · intro c hc d hd e
    exact h j i hj hi hgt d hd c hc e.symm

/-! ## The invariant

The invariant is stated on a *logical file* `g`: the content `updateSnapshot` is about to write
back while the real file is truncated, the real file otherwise. -/

/-- what the program counter of thread `i` promises about the logical file and the lock -/
def PCInv (g : File κ ν) (holder : Option Nat) (i : Nat) (t : ATState κ ν) : Prop :=
  match t.pc with
  | .idle => True
  | .wantAdd => ∃ c cs, t.todo = c :: cs ∧ lookup g c.slot = none ∧ c.canCreate = true
  | .wantUpd => ∃ c cs v0, t.todo = c :: cs ∧ lookup g c.slot = some v0 ∧ v0 ≠ c.val ∧
      c.canUpdate = true
  | .inUpd snap => snap = g ∧ holder = some i ∧
      ∃ c cs v0, t.todo = c :: cs ∧ lookup g c.slot = some v0 ∧ v0 ≠ c.val ∧ c.canUpdate = true
  | .inWrite snap => snap = g ∧ holder = some i ∧
      ∃ c cs v0, t.todo = c :: cs ∧ lookup g c.slot = some v0 ∧ v0 ≠ c.val ∧ c.canUpdate = true

/-- per-thread invariant: the decision taken by the last READ is still right for the logical
file; what the thread has output so far plus what the serial run predicts for the rest (from the
*current* content of its slots) is the serial prediction from the initial file; same for the
final content of its slots. -/
structure ThreadInv (f₀ g : File κ ν) (holder : Option Nat) (i : Nat) (t : ATState κ ν)
    (p : List (Call κ ν)) : Prop where
  sub : ∀ c ∈ t.todo, c ∈ p
  pc : PCInv g holder i t
  outs : t.outs ++ serialOuts (lookup g) t.todo = serialOuts (lookup f₀) p
  fin : ∀ s, (∃ c ∈ p, c.slot = s) →
    serialFinal t.todo s (lookup g s) = serialFinal p s (lookup f₀ s)

def FileShape (f₀ : File κ ν) (progs : List (List (Call κ ν))) (f : File κ ν) : Prop :=
  ∃ added, f.map Prod.fst = f₀.map Prod.fst ++ added ∧ added.Nodup ∧
    ∀ s ∈ added, s ∉ f₀.map Prod.fst ∧ ∃ p ∈ progs, ∃ c ∈ p, c.slot = s ∧ c.canCreate = true

/-- the global invariant relative to the logical file `g` -/
structure InvG (f₀ : File κ ν) (progs : List (List (Call κ ν))) (σ : AState κ ν)
    (g : File κ ν) : Prop where
  threads : ∀ (i : Nat) (t : ATState κ ν), σ.ts[i]? = some t →
    ∃ p, progs[i]? = some p ∧ ThreadInv f₀ g σ.holder i t p
  unowned : ∀ s, (∀ p ∈ progs, ∀ c ∈ p, c.slot ≠ s) → lookup g s = lookup f₀ s
  shape : FileShape f₀ progs g
  holderOK : ∀ (i : Nat), σ.holder = some i →
    ∃ t snap, σ.ts[i]? = some t ∧ (t.pc = .inUpd snap ∨ t.pc = .inWrite snap)
  /-- when the write lock is free the real file IS the logical file -/
  fileOK : σ.holder = none → σ.file = g

def Inv (f₀ : File κ ν) (progs : List (List (Call κ ν))) (σ : AState κ ν) : Prop :=
  ∃ g, InvG f₀ progs σ g

/-- the thread completes its current call by (atomically) doing what `writePhase` does -/
theorem ThreadInv.finish {f₀ f : File κ ν} {holder : Option Nat} {i : Nat} {t : ATState κ ν}
    {p : List (Call κ ν)} (h : ThreadInv f₀ f holder i t p) {c : Call κ ν}
    {cs : List (Call κ ν)}
    (htodo : t.todo = c :: cs) (f' : File κ ν) (holder' : Option Nat) (o : Outcome)
    (hf : f' = (writePhase f c (lookup f c.slot)).1)
    (ho : o = (writePhase f c (lookup f c.slot)).2) :
    ThreadInv f₀ f' holder' i (finish t cs o) p := by
  subst hf ho
  refine ⟨?_, ?_, ?_, ?_⟩
  · intro d hd
    exact h.sub d (by rw [htodo]; exact List.mem_cons_of_mem _ (by simpa [Conc.finish] using hd))
  · simp [PCInv, Conc.finish]
  · simp only [Conc.finish]
    rw [lookup_writePhase_fun, ← h.outs, htodo]
    simp only [serialOuts, List.append_assoc, List.singleton_append]
    rw [writePhase_outcome_indep f [] c]
  · intro s hs
    rw [← h.fin s hs, htodo]
    simp only [Conc.finish, serialFinal]
    rw [writePhase_lookup]
    by_cases e : s = c.slot
    · subst e; simp
    · have e' : c.slot ≠ s := fun x => e x.symm
      simp [e, e']

/-- the thread moves on inside its current call without touching the logical file -/
theorem ThreadInv.setPc {f₀ f : File κ ν} {holder holder' : Option Nat} {i : Nat}
    {t : ATState κ ν} {p : List (Call κ ν)} (h : ThreadInv f₀ f holder i t p)
    (pc : PC (File κ ν)) (hpc : PCInv f holder' i { t with pc := pc }) :
    ThreadInv f₀ f holder' i { t with pc := pc } p :=
  ⟨h.sub, hpc, h.outs, h.fin⟩

/-- Frame rule: thread `i` moves, touching only its own slots and respecting a foreign lock
holder; everybody else's invariant survives. -/
theorem InvG.frame {f₀ : File κ ν} {progs : List (List (Call κ ν))} {σ : AState κ ν}
    {g : File κ ν} (hinv : InvG f₀ progs σ g)
    (hdisj : Disj progs) {i : Nat} {t : ATState κ ν} {p : List (Call κ ν)}
    (hti : σ.ts[i]? = some t) (hp : progs[i]? = some p)
    (file' g' : File κ ν) (holder' : Option Nat) (t' : ATState κ ν) (cnt' : Counters)
    (ha : ∀ s, (∀ c ∈ p, c.slot ≠ s) → lookup g' s = lookup g s)
    (hb : ∀ k, k ≠ i → σ.holder = some k → g' = g ∧ holder' = some k)
    (hc : ∀ k, k ≠ i → holder' = some k → σ.holder = some k)
    (hown : ThreadInv f₀ g' holder' i t' p)
    (hshape : FileShape f₀ progs g')
    (hhold : holder' = some i → ∃ snap, t'.pc = .inUpd snap ∨ t'.pc = .inWrite snap)
    (hfile : holder' = none → file' = g') :
    InvG f₀ progs ⟨file', holder', σ.ts.set i t', cnt'⟩ g' := by
  have hilt : i < σ.ts.length := (List.getElem?_eq_some_iff.mp hti).1
  refine ⟨?_, ?_, hshape, ?_, hfile⟩
  · intro k tk hk
    simp only at hk
    by_cases hik : i = k
    · subst hik
      simp only [List.getElem?_set_self hilt, Option.some.injEq] at hk
      subst hk
      exact ⟨p, hp, hown⟩
    · rw [List.getElem?_set_ne hik] at hk
      obtain ⟨pk, hpk, hT⟩ := hinv.threads k tk hk
      have hki : k ≠ i := fun e => hik e.symm
      have hoff : ∀ d ∈ pk, lookup g' d.slot = lookup g d.slot := by
        intro d hd
        apply ha
        intro c hc e
        exact hdisj.get hik hp hpk c hc d hd e
      refine ⟨pk, hpk, hT.sub, ?_, ?_, ?_⟩
      · have hpc := hT.pc
        unfold PCInv at hpc ⊢
        cases hpck : tk.pc with
        | idle => trivial
        | wantAdd =>
          rw [hpck] at hpc
          obtain ⟨d, ds, hd, hl, hcc⟩ := hpc
          refine ⟨d, ds, hd, ?_, hcc⟩
          rw [hoff d (hT.sub d (by simp [hd]))]; exact hl
        | wantUpd =>
          rw [hpck] at hpc
          obtain ⟨d, ds, v0, hd, hl, hne, hcu⟩ := hpc
          refine ⟨d, ds, v0, hd, ?_, hne, hcu⟩
          rw [hoff d (hT.sub d (by simp [hd]))]; exact hl
        | inUpd snap =>
          rw [hpck] at hpc
          obtain ⟨hsnap, hh, d, ds, v0, hd, hl, hne, hcu⟩ := hpc
          obtain ⟨e1, e2⟩ := hb k hki hh
          simp only
          rw [e1]
          exact ⟨hsnap, e2, d, ds, v0, hd, hl, hne, hcu⟩
        | inWrite snap =>
          rw [hpck] at hpc
          obtain ⟨hsnap, hh, d, ds, v0, hd, hl, hne, hcu⟩ := hpc
          obtain ⟨e1, e2⟩ := hb k hki hh
          simp only
          rw [e1]
          exact ⟨hsnap, e2, d, ds, v0, hd, hl, hne, hcu⟩
      · rw [← hT.outs]
        congr 1
        apply serialOuts_congr
        intro d hd
        exact hoff d (hT.sub d hd)
      · intro s hs
        rw [← hT.fin s hs]
        obtain ⟨d, hd, rfl⟩ := hs
        rw [hoff d hd]
  · intro s hs
    rw [ha s (fun c hc => hs p (List.mem_of_getElem? hp) c hc)]
    exact hinv.unowned s hs
  · intro k hk
    simp only at hk ⊢
    by_cases hik : i = k
    · subst hik
      obtain ⟨snap, hsn⟩ := hhold hk
      exact ⟨t', snap, List.getElem?_set_self hilt, hsn⟩
    · have hki : k ≠ i := fun e => hik e.symm
      obtain ⟨tk, snap, h1, h2⟩ := hinv.holderOK k (hc k hki hk)
      exact ⟨tk, snap, by rw [List.getElem?_set_ne hik]; exact h1, h2⟩

/-- special case of the frame rule: real file, logical file and lock untouched -/
theorem InvG.frame_same {f₀ : File κ ν} {progs : List (List (Call κ ν))} {σ : AState κ ν}
    {g : File κ ν} (hinv : InvG f₀ progs σ g) (hdisj : Disj progs) {i : Nat}
    {t : ATState κ ν} {p : List (Call κ ν)}
    (hti : σ.ts[i]? = some t) (hp : progs[i]? = some p) (t' : ATState κ ν) (cnt' : Counters)
    (hown : ThreadInv f₀ g σ.holder i t' p) (hnh : σ.holder ≠ some i) :
    InvG f₀ progs ⟨σ.file, σ.holder, σ.ts.set i t', cnt'⟩ g :=
  hinv.frame hdisj hti hp σ.file g σ.holder t' cnt' (fun _ _ => rfl) (fun _ _ h => ⟨rfl, h⟩)
    (fun _ _ h => h) hown hinv.shape (fun h => absurd h hnh) hinv.fileOK

omit [DecidableEq κ] [DecidableEq ν] in
theorem blocked_true_iff {F : Type} (σ : State F κ ν) :
    blocked true σ = true ↔ σ.holder ≠ none := by
  unfold blocked; cases σ.holder <;> simp

omit [DecidableEq κ] [DecidableEq ν] in
theorem holder_none_of_not_blocked {F : Type} {σ : State F κ ν}
    (h : ¬ blocked true σ = true) : σ.holder = none := by
  cases hh : σ.holder with
  | none => rfl
  | some k => exact absurd ((blocked_true_iff σ).mpr (by simp [hh])) h

/-- **One step preserves the invariant** provided READ, ADD and UPDATE all take the lock. -/
theorem step_invG {L : Locks} (hadd : L.add = true) (hupd : L.upd = true)
    (hread : L.read = true)
    {f₀ : File κ ν} {progs : List (List (Call κ ν))} {σ : AState κ ν} {g : File κ ν}
    (hdisj : Disj progs) (hinv : InvG f₀ progs σ g) (i : Nat) :
    ∃ g', InvG f₀ progs (step L σ i) g' := by
  unfold step gstep
  cases hti : σ.ts[i]? with
  | none => exact ⟨g, hinv⟩
  | some t =>
    simp only
    obtain ⟨p, hp, hT⟩ := hinv.threads i t hti
    unfold gstepT
    cases htodo : t.todo with
    | nil => exact ⟨g, hinv⟩
    | cons c cs =>
      simp only
      have hcp : c ∈ p := hT.sub c (by simp [htodo])
      have hpcinv := hT.pc
      unfold PCInv at hpcinv
      cases hpc : t.pc with
      | idle =>
        simp only [hread, absOps]
        split
        · exact ⟨g, hinv⟩
        · rename_i hb
          have hnone : σ.holder = none := holder_none_of_not_blocked hb
          have hfg : σ.file = g := hinv.fileOK hnone
          have hnh : σ.holder ≠ some i := by rw [hnone]; simp
          refine ⟨g, ?_⟩
          cases hr : lookup σ.file c.slot with
          | none =>
            rw [hfg] at hr
            simp only
            by_cases hcc : c.canCreate = true
            · simp only [hcc, ↓reduceIte]
              refine hinv.frame_same hdisj hti hp _ _ (hT.setPc .wantAdd ?_) hnh
              simp only [PCInv]
              exact ⟨c, cs, htodo, hr, hcc⟩
            · simp only [hcc, Bool.false_eq_true, ↓reduceIte]
              refine hinv.frame_same hdisj hti hp _ _
                (hT.finish htodo g σ.holder .failed ?_ ?_) hnh <;>
                simp [writePhase, hr, hcc]
          | some v0 =>
            rw [hfg] at hr
            simp only
            by_cases hv : v0 = c.val
            · simp only [hv, ↓reduceIte]
              refine hinv.frame_same hdisj hti hp _ _
                (hT.finish htodo g σ.holder .passed ?_ ?_) hnh <;>
                simp [writePhase, hr, hv]
            · by_cases hcu : c.canUpdate = true
              · simp only [hv, hcu, ↓reduceIte]
                refine hinv.frame_same hdisj hti hp _ _ (hT.setPc .wantUpd ?_) hnh
                simp only [PCInv]
                exact ⟨c, cs, v0, htodo, hr, hv, hcu⟩
              · simp only [hv, hcu, Bool.false_eq_true, ↓reduceIte]
                refine hinv.frame_same hdisj hti hp _ _
                  (hT.finish htodo g σ.holder .failed ?_ ?_) hnh <;>
                  simp [writePhase, hr, hv, hcu]
      | wantAdd =>
        rw [hpc] at hpcinv
        obtain ⟨c', cs', hc', hl, hcc⟩ := hpcinv
        rw [htodo] at hc'
        obtain ⟨rfl, rfl⟩ : c = c' ∧ cs = cs' := by simpa using hc'
        simp only [hadd, absOps]
        split
        · exact ⟨g, hinv⟩
        · rename_i hb
          have hnone : σ.holder = none := holder_none_of_not_blocked hb
          have hfg : σ.file = g := hinv.fileOK hnone
          refine ⟨g ++ [(c.slot, c.val)], ?_⟩
          refine hinv.frame hdisj hti hp _ _ _ _ _ ?_ ?_ ?_
            (hT.finish htodo (g ++ [(c.slot, c.val)]) σ.holder .added ?_ ?_) ?_ ?_ ?_
          · intro s hs
            exact lookup_append_other _ _ _ _ (hs c hcp)
          · intro k _ hk; rw [hnone] at hk; cases hk
          · intro k _ hk; exact hk
          · simp [writePhase, hl, hcc]
          · simp [writePhase, hl, hcc]
          · obtain ⟨added, h1, h2, h3⟩ := hinv.shape
            have hnot : c.slot ∉ g.map Prod.fst := (lookup_eq_none_iff _ _).mp hl
            rw [h1, List.mem_append, not_or] at hnot
            refine ⟨added ++ [c.slot], by simp [h1], ?_, ?_⟩
            · rw [List.nodup_append]
              refine ⟨h2, by simp, ?_⟩
              intro a ha b hb
              simp only [List.mem_singleton] at hb
              subst hb
              intro e; subst e; exact hnot.2 ha
            · intro s hs
              rcases List.mem_append.mp hs with hs | hs
              · exact h3 s hs
              · simp only [List.mem_singleton] at hs
                subst hs
                exact ⟨hnot.1, p, List.mem_of_getElem? hp, c, hcp, rfl, hcc⟩
          · intro hh; rw [hnone] at hh; cases hh
          · intro _; rw [hfg]
      | wantUpd =>
        rw [hpc] at hpcinv
        obtain ⟨c', cs', v0, hc', hl, hne, hcu⟩ := hpcinv
        rw [htodo] at hc'
        obtain ⟨rfl, rfl⟩ : c = c' ∧ cs = cs' := by simpa using hc'
        simp only [hupd, ↓reduceIte]
        split
        · exact ⟨g, hinv⟩
        · rename_i hb
          have hnone : σ.holder = none := holder_none_of_not_blocked hb
          have hfg : σ.file = g := hinv.fileOK hnone
          refine ⟨g, ?_⟩
          rw [← htodo]
          refine hinv.frame hdisj hti hp σ.file g (some i) _ σ.cnt (fun _ _ => rfl) ?_ ?_
            (hT.setPc (.inUpd σ.file) ?_) hinv.shape (fun _ => ⟨σ.file, Or.inl rfl⟩) ?_
          · intro k _ hk; rw [hnone] at hk; cases hk
          · intro k hki hk
            simp only [Option.some.injEq] at hk
            exact absurd hk.symm hki
          · simp only [PCInv]
            exact ⟨hfg, trivial, c, cs, v0, htodo, hl, hne, hcu⟩
          · intro hk; cases hk
      | inUpd snap =>
        rw [hpc] at hpcinv
        obtain ⟨hsnap, hh, c', cs', v0, hc', hl, hne, hcu⟩ := hpcinv
        rw [htodo] at hc'
        obtain ⟨rfl, rfl⟩ : c = c' ∧ cs = cs' := by simpa using hc'
        subst hsnap
        simp only [absOps]
        refine ⟨snap, ?_⟩
        rw [← htodo]
        refine hinv.frame hdisj hti hp [] snap σ.holder _ σ.cnt (fun _ _ => rfl)
          (fun _ _ h => ⟨rfl, h⟩) (fun _ _ h => h)
          (hT.setPc (.inWrite snap) ?_) hinv.shape (fun _ => ⟨snap, Or.inr rfl⟩) ?_
        · simp only [PCInv]
          exact ⟨trivial, hh, c, cs, v0, htodo, hl, hne, hcu⟩
        · intro hk; rw [hh] at hk; cases hk
      | inWrite snap =>
        rw [hpc] at hpcinv
        obtain ⟨hsnap, hh, c', cs', v0, hc', hl, hne, hcu⟩ := hpcinv
        rw [htodo] at hc'
        obtain ⟨rfl, rfl⟩ : c = c' ∧ cs = cs' := by simpa using hc'
        subst hsnap
        simp only [hupd, ↓reduceIte, absOps]
        refine ⟨setVal snap c.slot c.val, ?_⟩
        refine hinv.frame hdisj hti hp _ _ _ _ _ ?_ ?_ ?_
          (hT.finish htodo (setVal snap c.slot c.val) none .updated ?_ ?_) ?_ ?_ (fun _ => rfl)
        · intro s hs
          exact lookup_setVal_other _ _ _ _ (hs c hcp)
        · intro k hki hk
          rw [hh] at hk
          simp only [Option.some.injEq] at hk
          exact absurd hk.symm hki
        · intro k _ hk; cases hk
        · simp [writePhase, hl, hne, hcu]
        · simp [writePhase, hl, hne, hcu]
        · obtain ⟨added, h1, h2, h3⟩ := hinv.shape
          exact ⟨added, by rw [setVal_map_fst]; exact h1, h2, h3⟩
        · intro hk; cases hk

theorem step_inv {L : Locks} (hadd : L.add = true) (hupd : L.upd = true)
    (hread : L.read = true)
    {f₀ : File κ ν} {progs : List (List (Call κ ν))} {σ : AState κ ν} (hdisj : Disj progs)
    (hinv : Inv f₀ progs σ) (i : Nat) : Inv f₀ progs (step L σ i) := by
  obtain ⟨g, hg⟩ := hinv
  exact step_invG hadd hupd hread hdisj hg i

theorem run_nil (L : Locks) (σ : AState κ ν) : run L σ [] = σ := rfl

theorem run_cons (L : Locks) (σ : AState κ ν) (i : Nat) (sch : List Nat) :
    run L σ (i :: sch) = run L (step L σ i) sch := rfl

theorem run_inv {L : Locks} (hadd : L.add = true) (hupd : L.upd = true)
    (hread : L.read = true)
    {f₀ : File κ ν} {progs : List (List (Call κ ν))} (hdisj : Disj progs) (σ : AState κ ν)
    (hinv : Inv f₀ progs σ) (sch : List Nat) : Inv f₀ progs (run L σ sch) := by
  induction sch generalizing σ with
  | nil => exact hinv
  | cons i sch ih => rw [run_cons]; exact ih _ (step_inv hadd hupd hread hdisj hinv i)

theorem init_inv (f₀ : File κ ν) (progs : List (List (Call κ ν))) :
    Inv f₀ progs (init f₀ progs) := by
  refine ⟨f₀, ?_, fun _ _ => rfl, ⟨[], by simp, by simp, by simp⟩, ?_, fun _ => rfl⟩
  · intro i t hi
    simp only [init, List.getElem?_map, Option.map_eq_some_iff] at hi
    obtain ⟨p, hp, rfl⟩ := hi
    refine ⟨p, hp, fun _ h => h, ?_, ?_, fun _ _ => rfl⟩
    · simp [PCInv, initT]
    · simp [initT]
  · intro i hi; simp [init] at hi

/-! ## Lock-independent, representation-independent bookkeeping: thread count and counters -/

section Generic
variable {F : Type}

omit [DecidableEq κ] in
theorem gstepT_length (ops : FileOps F κ ν) (L : Locks) (σ : State F κ ν) (i : Nat)
    (t : TState F κ ν) : (gstepT ops L σ i t).ts.length = σ.ts.length := by
  unfold gstepT
  repeat' split
  all_goals simp [State.emit, State.setPc]

omit [DecidableEq κ] in
theorem gstep_length (ops : FileOps F κ ν) (L : Locks) (σ : State F κ ν) (i : Nat) :
    (gstep ops L σ i).ts.length = σ.ts.length := by
  unfold gstep; split
  · rfl
  · exact gstepT_length ops L σ i _

omit [DecidableEq κ] in
theorem grun_length (ops : FileOps F κ ν) (L : Locks) (σ : State F κ ν) (sch : List Nat) :
    (grun ops L σ sch).ts.length = σ.ts.length := by
  induction sch generalizing σ with
  | nil => rfl
  | cons i sch ih => simp only [grun]; rw [ih, gstep_length]

theorem sum_map_set {α : Type} (g : α → Nat) (l : List α) (i : Nat) (a b : α)
    (h : l[i]? = some a) : ((l.set i b).map g).sum + g a = (l.map g).sum + g b := by
  induction l generalizing i with
  | nil => simp at h
  | cons x xs ih =>
    cases i with
    | zero =>
      simp only [List.getElem?_cons_zero, Option.some.injEq] at h
      subst h
      simp only [List.set_cons_zero, List.map_cons, List.sum_cons]; omega
    | succ n =>
      simp only [List.getElem?_cons_succ] at h
      have := ih n h
      simp only [List.set_cons_succ, List.map_cons, List.sum_cons]; omega

/-- number of outcomes `o` emitted so far, over all threads -/
def countOuts (ts : List (TState F κ ν)) (o : Outcome) : Nat :=
  (ts.map (fun t => t.outs.count o)).sum

/-- every counter equals the number of outcomes of its kind emitted so far -/
def CntInv (σ : State F κ ν) : Prop := ∀ o, σ.cnt.get o = countOuts σ.ts o

theorem Counters.get_bump (k : Counters) (o o' : Outcome) :
    (k.bump o).get o' = k.get o' + if o = o' then 1 else 0 := by
  cases o <;> cases o' <;> simp [Counters.bump, Counters.get]

omit [DecidableEq κ] [DecidableEq ν] in
theorem CntInv.emit {σ : State F κ ν} (h : CntInv σ) {i : Nat} {t : TState F κ ν}
    (hti : σ.ts[i]? = some t)
    (cs : List (Call κ ν)) (o : Outcome) (f' : F) (h' : Option Nat) :
    CntInv (σ.emit i t cs o f' h') := by
  intro o'
  have := sum_map_set (fun t => t.outs.count o') σ.ts i t (finish t cs o) hti
  have hc : (finish t cs o).outs.count o' = t.outs.count o' + if o = o' then 1 else 0 := by
    simp only [finish, List.count_append, List.count_singleton]
    cases o <;> cases o' <;> rfl
  simp only [hc] at this
  simp only [State.emit, Counters.get_bump, countOuts, h o']
  omega

omit [DecidableEq κ] [DecidableEq ν] in
theorem CntInv.setPc {σ : State F κ ν} (h : CntInv σ) {i : Nat} {t : TState F κ ν}
    (hti : σ.ts[i]? = some t) (pc : PC F) (f' : F) (h' : Option Nat) :
    CntInv { file := f', holder := h', ts := σ.ts.set i { t with pc := pc }, cnt := σ.cnt } := by
  intro o'
  have := sum_map_set (fun t => t.outs.count o') σ.ts i t { t with pc := pc } hti
  simp only [countOuts, h o'] at this ⊢
  omega

omit [DecidableEq κ] in
theorem gstep_cnt (ops : FileOps F κ ν) (L : Locks) {σ : State F κ ν} (h : CntInv σ) (i : Nat) :
    CntInv (gstep ops L σ i) := by
  unfold gstep
  cases hti : σ.ts[i]? with
  | none => exact h
  | some t =>
    simp only
    unfold gstepT
    repeat' split
    all_goals first
      | exact h
      | exact h.emit hti _ _ _ _
      | exact h.setPc hti _ _ _

omit [DecidableEq κ] in
theorem grun_cnt (ops : FileOps F κ ν) (L : Locks) (σ : State F κ ν) (h : CntInv σ)
    (sch : List Nat) : CntInv (grun ops L σ sch) := by
  induction sch generalizing σ with
  | nil => exact h
  | cons i sch ih => exact ih _ (gstep_cnt ops L h i)

omit [DecidableEq κ] [DecidableEq ν] in
theorem init_cnt (f₀ : F) (progs : List (List (Call κ ν))) :
    CntInv (init f₀ progs : State F κ ν) := by
  intro o
  have : ∀ ps : List (List (Call κ ν)),
      ((ps.map (initT (F := F))).map (fun t => t.outs.count o)).sum = 0 := by
    intro ps; induction ps with
    | nil => rfl
    | cons p ps ih => simpa [initT] using ih
  simp only [init, countOuts, this]
  cases o <;> rfl

end Generic

theorem step_length (L : Locks) (σ : AState κ ν) (i : Nat) :
    (step L σ i).ts.length = σ.ts.length := gstep_length absOps L σ i

theorem run_length (L : Locks) (σ : AState κ ν) (sch : List Nat) :
    (run L σ sch).ts.length = σ.ts.length := grun_length absOps L σ sch

theorem step_cnt (L : Locks) {σ : AState κ ν} (h : CntInv σ) (i : Nat) : CntInv (step L σ i) :=
  gstep_cnt absOps L h i

theorem run_cnt (L : Locks) (σ : AState κ ν) (h : CntInv σ) (sch : List Nat) :
    CntInv (run L σ sch) := grun_cnt absOps L σ h sch

theorem count_total (l : List Outcome) :
    l.count .passed + l.count .added + l.count .updated + l.count .failed = l.length := by
  induction l with
  | nil => rfl
  | cons o l ih => cases o <;> simp <;> omega

/-! ## What the invariant says once threads have finished -/

theorem Inv.outs_of_done {f₀ : File κ ν} {progs : List (List (Call κ ν))} {σ : AState κ ν}
    (hinv : Inv f₀ progs σ) {i : Nat} {t : ATState κ ν} (hti : σ.ts[i]? = some t)
    (hdone : t.todo = []) : ∃ p, progs[i]? = some p ∧ t.outs = serialOuts (lookup f₀) p := by
  obtain ⟨g, hinv⟩ := hinv
  obtain ⟨p, hp, hT⟩ := hinv.threads i t hti
  refine ⟨p, hp, ?_⟩
  have := hT.outs
  rw [hdone] at this
  simpa [serialOuts] using this

theorem Inv.all_outs {f₀ : File κ ν} {progs : List (List (Call κ ν))} {σ : AState κ ν}
    (hinv : Inv f₀ progs σ) (hlen : σ.ts.length = progs.length) (hdone : AllDone σ) :
    σ.ts.map (·.outs) = progs.map (serialOuts (lookup f₀)) := by
  apply List.ext_getElem?
  intro i
  simp only [List.getElem?_map]
  cases hti : σ.ts[i]? with
  | none =>
    have : progs[i]? = none := by
      rw [List.getElem?_eq_none_iff] at hti ⊢; omega
    simp [this]
  | some t =>
    obtain ⟨p, hp, ho⟩ := hinv.outs_of_done hti (hdone t (List.mem_of_getElem? hti))
    simp [hp, ho]

theorem Inv.holder_none {f₀ : File κ ν} {progs : List (List (Call κ ν))} {σ : AState κ ν}
    (hinv : Inv f₀ progs σ) (hdone : AllDone σ) : σ.holder = none := by
  obtain ⟨g, hinv⟩ := hinv
  cases hh : σ.holder with
  | none => rfl
  | some i =>
    obtain ⟨t, snap, hti, hpc⟩ := hinv.holderOK i hh
    obtain ⟨p, _, hT⟩ := hinv.threads i t hti
    have := hT.pc
    unfold PCInv at this
    have hnil := hdone t (List.mem_of_getElem? hti)
    rcases hpc with hpc | hpc <;>
    · rw [hpc] at this
      obtain ⟨_, _, c, cs, _, htodo, _⟩ := this
      rw [hnil] at htodo
      cases htodo

theorem Inv.finalOK {f₀ : File κ ν} {progs : List (List (Call κ ν))} {σ : AState κ ν}
    (hinv : Inv f₀ progs σ) (hlen : σ.ts.length = progs.length) (hdone : AllDone σ) :
    FinalOK f₀ progs σ.file := by
  have hnone := hinv.holder_none hdone
  obtain ⟨g, hinv⟩ := hinv
  rw [hinv.fileOK hnone]
  refine ⟨?_, hinv.unowned, hinv.shape, ?_⟩
  · intro i p s hp hs
    have hi : i < σ.ts.length := by
      rw [hlen]; exact (List.getElem?_eq_some_iff.mp hp).1
    have hti : σ.ts[i]? = some σ.ts[i] := List.getElem?_eq_getElem hi
    obtain ⟨p', hp', hT⟩ := hinv.threads i _ hti
    rw [hp] at hp'; cases hp'
    have := hT.fin s hs
    rw [hdone _ (List.mem_of_getElem? hti)] at this
    simpa [serialFinal] using this
  · intro hnd
    obtain ⟨added, h1, h2, h3⟩ := hinv.shape
    rw [h1, List.nodup_append]
    refine ⟨hnd, h2, ?_⟩
    intro a ha b hb e
    subst e
    exact (h3 a hb).1 ha

theorem sum_count_total (ls : List (List Outcome)) :
    (ls.map (fun l => l.count .passed)).sum + (ls.map (fun l => l.count .added)).sum +
      (ls.map (fun l => l.count .updated)).sum + (ls.map (fun l => l.count .failed)).sum =
    (ls.map List.length).sum := by
  induction ls with
  | nil => rfl
  | cons l ls ih =>
    have := count_total l
    simp only [List.map_cons, List.sum_cons]; omega

theorem counters_of_inv {f₀ : File κ ν} {progs : List (List (Call κ ν))} {σ : AState κ ν}
    (hinv : Inv f₀ progs σ) (hcnt : CntInv σ) (hlen : σ.ts.length = progs.length)
    (hdone : AllDone σ) :
    (∀ o, σ.cnt.get o = ((progs.map (serialOuts (lookup f₀))).map (fun l => l.count o)).sum) ∧
    σ.cnt.total = (progs.map List.length).sum := by
  have hall := hinv.all_outs hlen hdone
  have h1 : ∀ o, σ.cnt.get o =
      ((progs.map (serialOuts (lookup f₀))).map (fun l => l.count o)).sum := by
    intro o
    rw [hcnt o, countOuts, ← hall, List.map_map]
    rfl
  refine ⟨h1, ?_⟩
  have hp := h1 .passed
  have ha := h1 .added
  have hu := h1 .updated
  have hf := h1 .failed
  simp only [Counters.get] at hp ha hu hf
  have htot := sum_count_total (progs.map (serialOuts (lookup f₀)))
  have hlen' : (progs.map (serialOuts (lookup f₀))).map List.length = progs.map List.length := by
    rw [List.map_map]
    apply List.map_congr_left
    intro p _
    exact serialOuts_length _ p
  rw [hlen'] at htot
  unfold Counters.total
  omega

/-! ## Simulation between two representations of the file

`h : F → F'` maps one representation to another (entry list ↦ bytes, entry list ↦ abstract
file).  If it commutes with the four file operations on the files (`P`) and calls (`Q`) that can
occur, it commutes with every step of the protocol, whatever the lock discipline. -/

section Sim
variable {F F' : Type}

def PC.map (h : F → F') : PC F → PC F'
  | .idle => .idle
  | .wantAdd => .wantAdd
  | .wantUpd => .wantUpd
  | .inUpd snap => .inUpd (h snap)
  | .inWrite snap => .inWrite (h snap)

def TState.map (h : F → F') (t : TState F κ ν) : TState F' κ ν :=
  { todo := t.todo, pc := t.pc.map h, outs := t.outs }

def State.map (h : F → F') (σ : State F κ ν) : State F' κ ν :=
  { file := h σ.file, holder := σ.holder, ts := σ.ts.map (TState.map h), cnt := σ.cnt }

/-- `h` commutes with the file operations on files satisfying `P` and calls satisfying `Q`,
and the operations keep files inside `P` -/
structure Hom (ops : FileOps F κ ν) (ops' : FileOps F' κ ν) (h : F → F') (P : F → Prop)
    (Q : Call κ ν → Prop) : Prop where
  lookup : ∀ f c, P f → Q c → ops'.lookup (h f) c.slot = ops.lookup f c.slot
  add : ∀ f c, P f → Q c → ops'.add (h f) c.slot c.val = h (ops.add f c.slot c.val)
  set : ∀ f c, P f → Q c → ops'.set (h f) c.slot c.val = h (ops.set f c.slot c.val)
  empty : ops'.empty = h ops.empty
  pAdd : ∀ f c, P f → Q c → P (ops.add f c.slot c.val)
  pSet : ∀ f c, P f → Q c → P (ops.set f c.slot c.val)
  pEmpty : P ops.empty

/-- the file, every in-memory copy and every pending call are inside `P` / `Q` -/
def PState (P : F → Prop) (Q : Call κ ν → Prop) (σ : State F κ ν) : Prop :=
  P σ.file ∧ ∀ t ∈ σ.ts, (∀ c ∈ t.todo, Q c) ∧
    ∀ snap, (t.pc = .inUpd snap ∨ t.pc = .inWrite snap) → P snap

omit [DecidableEq κ] [DecidableEq ν] in
theorem PState.set {P : F → Prop} {Q : Call κ ν → Prop} {σ : State F κ ν} (hσ : PState P Q σ)
    (f' : F) (hd' : Option Nat) (i : Nat) (t' : TState F κ ν) (cnt' : Counters)
    (hf : P f') (hq : ∀ c ∈ t'.todo, Q c)
    (hs : ∀ snap, (t'.pc = .inUpd snap ∨ t'.pc = .inWrite snap) → P snap) :
    PState P Q ⟨f', hd', σ.ts.set i t', cnt'⟩ := by
  refine ⟨hf, ?_⟩
  intro t ht
  rcases List.mem_or_eq_of_mem_set ht with h | rfl
  · exact hσ.2 t h
  · exact ⟨hq, hs⟩

omit [DecidableEq κ] [DecidableEq ν] in
theorem blocked_map (h : F → F') (b : Bool) (σ : State F κ ν) :
    blocked b (σ.map h) = blocked b σ := rfl

omit [DecidableEq κ] [DecidableEq ν] in
theorem State.emit_map (h : F → F') (σ : State F κ ν) (i : Nat) (t : TState F κ ν)
    (cs : List (Call κ ν)) (o : Outcome) (f' : F) (hd : Option Nat) :
    (σ.emit i t cs o f' hd).map h = (σ.map h).emit i (t.map h) cs o (h f') hd := by
  simp [State.emit, State.map, List.map_set, TState.map, finish, PC.map]

omit [DecidableEq κ] [DecidableEq ν] in
theorem State.setPc_map (h : F → F') (σ : State F κ ν) (i : Nat) (t : TState F κ ν)
    (pc : PC F) : (σ.setPc i t pc).map h = (σ.map h).setPc i (t.map h) (pc.map h) := by
  simp [State.setPc, State.map, List.map_set, TState.map]

omit [DecidableEq κ] in
theorem gstep_map {ops : FileOps F κ ν} {ops' : FileOps F' κ ν} {h : F → F'} {P : F → Prop}
    {Q : Call κ ν → Prop} (hom : Hom ops ops' h P Q) (L : Locks) {σ : State F κ ν}
    (hσ : PState P Q σ) (i : Nat) :
    (gstep ops L σ i).map h = gstep ops' L (σ.map h) i ∧ PState P Q (gstep ops L σ i) := by
  unfold gstep
  have hget : (σ.map h).ts[i]? = (σ.ts[i]?).map (TState.map h) := by
    simp [State.map, List.getElem?_map]
  rw [hget]
  cases hti : σ.ts[i]? with
  | none => exact ⟨rfl, hσ⟩
  | some t =>
    simp only [Option.map_some]
    have htmem : t ∈ σ.ts := List.mem_of_getElem? hti
    obtain ⟨hQ, hS⟩ := hσ.2 t htmem
    obtain ⟨todo, pc, outs⟩ := t
    cases todo with
    | nil => exact ⟨by simp [gstepT, TState.map], by simpa [gstepT] using hσ⟩
    | cons c cs =>
      have hQc : Q c := hQ c (by simp)
      have hQcs : ∀ d ∈ cs, Q d := fun d hd => hQ d (by simp [hd])
      cases pc with
      | idle =>
        simp only [gstepT, TState.map, PC.map, blocked_map]
        by_cases hb : blocked L.read σ = true
        · constructor
          · simp only [hb, ↓reduceIte]
          · simp only [hb, ↓reduceIte]; exact hσ
        · simp only [hb, Bool.false_eq_true, ↓reduceIte]
          have hl := hom.lookup σ.file c hσ.1 hQc
          simp only [State.map] at hl ⊢
          rw [hl]
          cases ops.lookup σ.file c.slot with
          | none =>
            simp only
            by_cases hcc : c.canCreate = true
            · simp only [hcc, ↓reduceIte]
              refine ⟨State.setPc_map h σ i _ _, ?_⟩
              exact hσ.set _ _ _ _ _ hσ.1 hQ (by simp)
            · simp only [hcc, Bool.false_eq_true, ↓reduceIte]
              refine ⟨State.emit_map h σ i _ _ _ _ _, ?_⟩
              exact hσ.set _ _ _ _ _ hσ.1 hQcs (by simp [finish])
          | some v0 =>
            simp only
            by_cases hv : v0 = c.val
            · simp only [hv, ↓reduceIte]
              refine ⟨State.emit_map h σ i _ _ _ _ _, ?_⟩
              exact hσ.set _ _ _ _ _ hσ.1 hQcs (by simp [finish])
            · simp only [hv, ↓reduceIte]
              by_cases hcu : c.canUpdate = true
              · simp only [hcu, ↓reduceIte]
                refine ⟨State.setPc_map h σ i _ _, ?_⟩
                exact hσ.set _ _ _ _ _ hσ.1 hQ (by simp)
              · simp only [hcu, Bool.false_eq_true, ↓reduceIte]
                refine ⟨State.emit_map h σ i _ _ _ _ _, ?_⟩
                exact hσ.set _ _ _ _ _ hσ.1 hQcs (by simp [finish])
      | wantAdd =>
        simp only [gstepT, TState.map, PC.map, blocked_map]
        by_cases hb : blocked L.add σ = true
        · constructor
          · simp only [hb, ↓reduceIte]
          · simp only [hb, ↓reduceIte]; exact hσ
        · simp only [hb, Bool.false_eq_true, ↓reduceIte]
          refine ⟨?_, ?_⟩
          · rw [State.emit_map, ← hom.add σ.file c hσ.1 hQc]; rfl
          · exact hσ.set _ _ _ _ _ (hom.pAdd σ.file c hσ.1 hQc) hQcs (by simp [finish])
      | wantUpd =>
        simp only [gstepT, TState.map, PC.map, blocked_map]
        by_cases hb : blocked L.upd σ = true
        · constructor
          · simp only [hb, ↓reduceIte]
          · simp only [hb, ↓reduceIte]; exact hσ
        · simp only [hb, Bool.false_eq_true, ↓reduceIte]
          refine ⟨?_, ?_⟩
          · simp [State.map, List.map_set, TState.map, PC.map]
          · refine hσ.set _ _ _ _ _ hσ.1 hQ ?_
            intro snap hs
            simp only [PC.inUpd.injEq, reduceCtorEq, or_false] at hs
            rw [← hs]; exact hσ.1
      | inUpd snap =>
        have hPs : P snap := hS snap (Or.inl rfl)
        simp only [gstepT, TState.map, PC.map]
        refine ⟨?_, ?_⟩
        · simp [State.map, List.map_set, TState.map, PC.map, hom.empty]
        · refine hσ.set _ _ _ _ _ hom.pEmpty hQ ?_
          intro snap' hs
          simp only [reduceCtorEq, PC.inWrite.injEq, false_or] at hs
          rw [← hs]; exact hPs
      | inWrite snap =>
        have hPs : P snap := hS snap (Or.inr rfl)
        simp only [gstepT, TState.map, PC.map]
        refine ⟨?_, ?_⟩
        · rw [State.emit_map, ← hom.set snap c hPs hQc]; rfl
        · exact hσ.set _ _ _ _ _ (hom.pSet snap c hPs hQc) hQcs (by simp [finish])

omit [DecidableEq κ] in
theorem grun_map {ops : FileOps F κ ν} {ops' : FileOps F' κ ν} {h : F → F'} {P : F → Prop}
    {Q : Call κ ν → Prop} (hom : Hom ops ops' h P Q) (L : Locks) (σ : State F κ ν)
    (hσ : PState P Q σ) (sch : List Nat) :
    (grun ops L σ sch).map h = grun ops' L (σ.map h) sch ∧ PState P Q (grun ops L σ sch) := by
  induction sch generalizing σ with
  | nil => exact ⟨rfl, hσ⟩
  | cons i sch ih =>
    obtain ⟨h1, h2⟩ := gstep_map hom L hσ i
    simp only [grun]
    rw [← h1]
    exact ih _ h2

omit [DecidableEq κ] [DecidableEq ν] in
theorem init_map (h : F → F') (f₀ : F) (progs : List (List (Call κ ν))) :
    (init f₀ progs : State F κ ν).map h = init (h f₀) progs := by
  simp only [init, State.map, List.map_map]
  congr 1

omit [DecidableEq κ] [DecidableEq ν] in
theorem init_PState {P : F → Prop} {Q : Call κ ν → Prop} (f₀ : F)
    (progs : List (List (Call κ ν))) (hf : P f₀) (hq : ∀ p ∈ progs, ∀ c ∈ p, Q c) :
    PState P Q (init f₀ progs) := by
  refine ⟨hf, ?_⟩
  intro t ht
  simp only [init, List.mem_map] at ht
  obtain ⟨p, hp, rfl⟩ := ht
  exact ⟨hq p hp, by simp [initT]⟩

omit [DecidableEq κ] [DecidableEq ν] in
theorem State.map_ts_get (h : F → F') (σ : State F κ ν) (i : Nat) :
    (σ.map h).ts[i]? = (σ.ts[i]?).map (TState.map h) := by
  simp [State.map, List.getElem?_map]

omit [DecidableEq κ] [DecidableEq ν] in
theorem AllDone_map (h : F → F') (σ : State F κ ν) : AllDone (σ.map h) ↔ AllDone σ := by
  simp only [AllDone, State.map, List.mem_map]
  constructor
  · intro hd t ht; exact hd (t.map h) ⟨t, ht, rfl⟩
  · rintro hd _ ⟨t, ht, rfl⟩; exact hd t ht

end Sim

end GoSnaps.Conc
